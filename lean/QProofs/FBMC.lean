import QModel.FBMC
import QProofs.NumReal
import Mathlib.Analysis.SpecialFunctions.Integrals.Basic
import Mathlib.Analysis.SpecialFunctions.Pow.Real
import Mathlib.Analysis.Calculus.Deriv.MeanValue
import Mathlib.Tactic

/-! Helper lemmas for C13 (force-bias step): the `ℝ` instance of `FB.Ops`, the coded trial probability
    versus the published Bal–Neyts density, its bounds and integrals, the rejection loop. -/

namespace FB
open Real intervalIntegral

noncomputable instance : Ops ℝ where
  ltb a b := decide (a < b)
  neb a b := decide (a ≠ b)
  pow := Real.rpow

@[simp] theorem real_ltb (a b : ℝ) : Ops.ltb a b = decide (a < b) := rfl
@[simp] theorem real_neb (a b : ℝ) : Ops.neb a b = decide (a ≠ b) := rfl
@[simp] theorem real_pow (a b : ℝ) : Ops.pow a b = a ^ b := rfl

/-! ### the coded pieces over ℝ -/

theorem sign_pos {z : ℝ} (h : 0 < z) : sign z = 1 := by simp [sign, h]
theorem sign_neg {z : ℝ} (h : z < 0) : sign z = -1 := by simp [sign, h, not_lt.mpr h.le]
theorem sign_zero : sign (0 : ℝ) = 0 := by simp [sign]

theorem denominator_real (γ : ℝ) : denominator γ = exp γ - exp (-γ) := by simp [denominator]

theorem den_pos {γ : ℝ} (h : 0 < γ) : 0 < exp γ - exp (-γ) := by
  have : exp (-γ) < exp γ := exp_lt_exp.mpr (by linarith)
  linarith

theorem den_neg {γ : ℝ} (h : γ < 0) : exp γ - exp (-γ) < 0 := by
  have : exp γ < exp (-γ) := exp_lt_exp.mpr (by linarith)
  linarith

theorem den_ne_zero {γ : ℝ} (h : γ ≠ 0) : exp γ - exp (-γ) ≠ 0 := by
  rcases lt_or_gt_of_ne h with h | h
  · exact (den_neg h).ne
  · exact (den_pos h).ne'

theorem gammaMax_real : (gammaMax : ℝ) = 709782712 / 1000000 := by simp [gammaMax]

/-- the published Bal–Neyts density of the reduced displacement `ζ ∈ [-1,1]` (J. Chem. Phys. 141, 204104) -/
noncomputable def BalNeyts (γ ζ : ℝ) : ℝ :=
  if 0 < ζ then (exp γ - exp (γ * (2 * ζ - 1))) / (exp γ - exp (-γ))
  else if ζ < 0 then (exp (γ * (2 * ζ + 1)) - exp (-γ)) / (exp γ - exp (-γ))
  else 0

theorem trialProb_real (γ den ζ : ℝ) :
    trialProb γ den ζ =
      if den ≠ 0 then (exp (sign ζ * γ) - exp (γ * (2 * ζ - sign ζ))) * sign ζ / den else 1 := by
  simp [trialProb]

theorem P_eq_BalNeyts' {γ : ℝ} (hγ : γ ≠ 0) (ζ : ℝ) : P γ ζ = BalNeyts γ ζ := by
  have hd := den_ne_zero hγ
  unfold P
  rw [trialProb_real, denominator_real, if_pos hd]
  unfold BalNeyts
  rcases lt_trichotomy ζ 0 with h | h | h
  · rw [sign_neg h, if_neg (not_lt.mpr h.le), if_pos h]
    have e1 : (-1 : ℝ) * γ = -γ := by ring
    have e2 : γ * (2 * ζ - -1) = γ * (2 * ζ + 1) := by ring
    rw [e1, e2]; ring
  · subst h; simp [sign_zero]
  · rw [sign_pos h, if_pos h]
    simp

theorem BalNeyts_symm (γ ζ : ℝ) : BalNeyts (-γ) (-ζ) = BalNeyts γ ζ := by
  unfold BalNeyts
  rcases lt_trichotomy ζ 0 with h | h | h
  · have h' : 0 < -ζ := by linarith
    rw [if_pos h', if_neg (not_lt.mpr h.le), if_pos h]
    have e : -γ * (2 * -ζ - 1) = γ * (2 * ζ + 1) := by ring
    rw [e, neg_neg, ← neg_sub (exp γ) (exp (-γ)), ← neg_sub (exp (γ * (2 * ζ + 1))), neg_div_neg_eq]
  · subst h; simp
  · have h' : -ζ < 0 := by linarith
    rw [if_neg (not_lt.mpr h'.le), if_pos h', if_pos h]
    have e : -γ * (2 * -ζ + 1) = γ * (2 * ζ - 1) := by ring
    rw [e, neg_neg, ← neg_sub (exp γ) (exp (-γ)), ← neg_sub (exp γ) (exp (γ * (2 * ζ - 1))), neg_div_neg_eq]

/-! ### bounds -/

theorem BalNeyts_nonneg_of_pos {γ ζ : ℝ} (hγ : 0 < γ) (h1 : -1 ≤ ζ) (h2 : ζ ≤ 1) : 0 ≤ BalNeyts γ ζ := by
  have hd := den_pos hγ
  unfold BalNeyts
  split_ifs with hp hn
  · apply div_nonneg _ hd.le
    have : exp (γ * (2 * ζ - 1)) ≤ exp γ := exp_le_exp.mpr (by nlinarith [h1, h2])
    linarith
  · apply div_nonneg _ hd.le
    have : exp (-γ) ≤ exp (γ * (2 * ζ + 1)) := exp_le_exp.mpr (by nlinarith [h1, h2])
    linarith
  · exact le_rfl

theorem BalNeyts_le_one_of_pos {γ : ℝ} (hγ : 0 < γ) (ζ : ℝ) : BalNeyts γ ζ ≤ 1 := by
  have hd := den_pos hγ
  unfold BalNeyts
  split_ifs with hp hn
  · rw [div_le_one hd]
    have : exp (-γ) ≤ exp (γ * (2 * ζ - 1)) := exp_le_exp.mpr (by nlinarith)
    linarith
  · rw [div_le_one hd]
    have : exp (γ * (2 * ζ + 1)) ≤ exp γ := exp_le_exp.mpr (by nlinarith)
    linarith
  · exact zero_le_one

theorem BalNeyts_nonneg {γ ζ : ℝ} (hγ : γ ≠ 0) (h1 : -1 ≤ ζ) (h2 : ζ ≤ 1) : 0 ≤ BalNeyts γ ζ := by
  rcases lt_or_gt_of_ne hγ with h | h
  · rw [← BalNeyts_symm]
    exact BalNeyts_nonneg_of_pos (by linarith) (by linarith) (by linarith)
  · exact BalNeyts_nonneg_of_pos h h1 h2

/-- the envelope 1 of the rejection sampler is valid (for every `ζ`, not only on `[-1,1]`) -/
theorem BalNeyts_le_one {γ : ℝ} (hγ : γ ≠ 0) (ζ : ℝ) : BalNeyts γ ζ ≤ 1 := by
  rcases lt_or_gt_of_ne hγ with h | h
  · rw [← BalNeyts_symm]
    exact BalNeyts_le_one_of_pos (by linarith) _
  · exact BalNeyts_le_one_of_pos h ζ

/-- for `γ > 0` a displacement along the force is at least as probable as the opposite one -/
theorem BalNeyts_favours {γ ζ : ℝ} (hγ : 0 < γ) (h0 : 0 ≤ ζ) (h1 : ζ ≤ 1) : BalNeyts γ (-ζ) ≤ BalNeyts γ ζ := by
  have hd := den_pos hγ
  rcases h0.eq_or_lt with h | h
  · subst h; simp
  · unfold BalNeyts
    have hn : -ζ < 0 := by linarith
    rw [if_neg (not_lt.mpr hn.le), if_pos hn, if_pos h]
    apply div_le_div_of_nonneg_right _ hd.le
    have e : γ * (2 * -ζ + 1) = -(γ * (2 * ζ - 1)) := by ring
    rw [e]
    have hc : cosh (γ * (2 * ζ - 1)) ≤ cosh γ := by
      rw [cosh_le_cosh, abs_mul, abs_of_pos hγ]
      have : |2 * ζ - 1| ≤ 1 := abs_le.mpr ⟨by linarith, by linarith⟩
      calc γ * |2 * ζ - 1| ≤ γ * 1 := by gcongr
        _ = γ := mul_one γ
    rw [cosh_eq, cosh_eq] at hc
    linarith

/-! ### integrals -/

theorem int_pos (g : ℝ) (hg : g ≠ 0) :
    ∫ z in (0:ℝ)..1, (exp g - exp (g * (2 * z - 1))) = exp g - (exp g - exp (-g)) / (2 * g) := by
  have h2 : (2 * g) ≠ 0 := by positivity
  have e : ∀ z : ℝ, exp (g * (2 * z - 1)) = exp ((2 * g) * z + (-g)) := by intro z; ring_nf
  simp_rw [e]
  rw [integral_sub (by simp) (by
    apply Continuous.intervalIntegrable; fun_prop)]
  rw [integral_comp_mul_add (fun x => exp x) h2 (-g)]
  simp [integral_exp]
  field_simp
  ring_nf

theorem int_neg (g : ℝ) (hg : g ≠ 0) :
    ∫ z in (-1:ℝ)..0, (exp (g * (2 * z + 1)) - exp (-g)) = (exp g - exp (-g)) / (2 * g) - exp (-g) := by
  have h2 : (2 * g) ≠ 0 := by positivity
  have e : ∀ z : ℝ, exp (g * (2 * z + 1)) = exp ((2 * g) * z + g) := by intro z; ring_nf
  simp_rw [e]
  rw [integral_sub (by
    apply Continuous.intervalIntegrable; fun_prop) (by simp)]
  rw [integral_comp_mul_add (fun x => exp x) h2 g]
  simp [integral_exp]
  field_simp
  ring_nf

/-- positive branch of the density, as a function on all of ℝ -/
noncomputable def bnPos (γ ζ : ℝ) : ℝ := (exp γ - exp (γ * (2 * ζ - 1))) / (exp γ - exp (-γ))
/-- negative branch -/
noncomputable def bnNeg (γ ζ : ℝ) : ℝ := (exp (γ * (2 * ζ + 1)) - exp (-γ)) / (exp γ - exp (-γ))

theorem bnPos_cont (γ : ℝ) : Continuous (bnPos γ) := by unfold bnPos; fun_prop
theorem bnNeg_cont (γ : ℝ) : Continuous (bnNeg γ) := by unfold bnNeg; fun_prop

theorem BalNeyts_eqOn_pos (γ : ℝ) : Set.EqOn (BalNeyts γ) (bnPos γ) (Set.Ioo 0 1) := by
  intro z hz; simp [BalNeyts, bnPos, hz.1]

theorem BalNeyts_eqOn_neg (γ : ℝ) : Set.EqOn (BalNeyts γ) (bnNeg γ) (Set.Ioo (-1) 0) := by
  intro z hz; simp [BalNeyts, bnNeg, hz.2, not_lt.mpr hz.2.le]

theorem BalNeyts_integrable_pos (γ : ℝ) : IntervalIntegrable (BalNeyts γ) MeasureTheory.volume 0 1 := by
  refine ((bnPos_cont γ).intervalIntegrable 0 1).congr_uIoo ?_
  rw [Set.uIoo_of_le zero_le_one]
  exact (BalNeyts_eqOn_pos γ).symm

theorem BalNeyts_integrable_neg (γ : ℝ) : IntervalIntegrable (BalNeyts γ) MeasureTheory.volume (-1) 0 := by
  refine ((bnNeg_cont γ).intervalIntegrable (-1) 0).congr_uIoo ?_
  rw [Set.uIoo_of_le (by norm_num)]
  exact (BalNeyts_eqOn_neg γ).symm

theorem BalNeyts_int_pos {γ : ℝ} (hγ : γ ≠ 0) :
    ∫ z in (0:ℝ)..1, BalNeyts γ z = (exp γ - (exp γ - exp (-γ)) / (2 * γ)) / (exp γ - exp (-γ)) := by
  rw [integral_congr_Ioo_of_le zero_le_one (BalNeyts_eqOn_pos γ)]
  unfold bnPos
  rw [integral_div, int_pos γ hγ]

theorem BalNeyts_int_neg {γ : ℝ} (hγ : γ ≠ 0) :
    ∫ z in (-1:ℝ)..0, BalNeyts γ z = ((exp γ - exp (-γ)) / (2 * γ) - exp (-γ)) / (exp γ - exp (-γ)) := by
  rw [integral_congr_Ioo_of_le (by norm_num) (BalNeyts_eqOn_neg γ)]
  unfold bnNeg
  rw [integral_div, int_neg γ hγ]

/-- the coded density is normalised: the envelope-1 rejection sampler accepts with probability exactly 1/2 -/
theorem BalNeyts_integral_one {γ : ℝ} (hγ : γ ≠ 0) : ∫ z in (-1:ℝ)..1, BalNeyts γ z = 1 := by
  rw [← integral_add_adjacent_intervals (BalNeyts_integrable_neg γ) (BalNeyts_integrable_pos γ),
    BalNeyts_int_pos hγ, BalNeyts_int_neg hγ]
  have hd := den_ne_zero hγ
  field_simp
  ring

/-! ### first moment -/

theorem hasDerivAt_expAff (γ c x : ℝ) : HasDerivAt (fun z : ℝ => exp (γ * (2 * z + c))) (exp (γ * (2 * x + c)) * (γ * 2)) x := by
  have h1 : HasDerivAt (fun z : ℝ => γ * (2 * z + c)) (γ * 2) x := by
    simpa using (((hasDerivAt_id x).const_mul 2).add_const c).const_mul γ
  exact h1.exp

/-- antiderivative of `z ↦ z * exp (γ (2 z + c))` -/
theorem hasDerivAt_zexp {γ : ℝ} (hγ : γ ≠ 0) (c x : ℝ) :
    HasDerivAt (fun z : ℝ => exp (γ * (2 * z + c)) * (z / (2 * γ) - 1 / (4 * γ ^ 2)))
      (x * exp (γ * (2 * x + c))) x := by
  have h3 : HasDerivAt (fun z : ℝ => z / (2 * γ) - 1 / (4 * γ ^ 2)) (1 / (2 * γ)) x := by
    simpa using ((hasDerivAt_id x).div_const (2 * γ)).sub_const (1 / (4 * γ ^ 2))
  refine ((hasDerivAt_expAff γ c x).mul h3).congr_deriv ?_
  field_simp
  ring

theorem hasDerivAt_sq_half (a x : ℝ) : HasDerivAt (fun z : ℝ => a * z ^ 2 / 2) (x * a) x := by
  have := ((hasDerivAt_pow 2 x).const_mul a).div_const 2
  refine this.congr_deriv ?_
  simp; ring

theorem int_z_pos {γ : ℝ} (hγ : γ ≠ 0) :
    ∫ z in (0:ℝ)..1, z * (exp γ - exp (γ * (2 * z - 1))) =
      exp γ / 2 - (exp γ * (1 / (2 * γ) - 1 / (4 * γ ^ 2)) + exp (-γ) / (4 * γ ^ 2)) := by
  have hF : ∀ x ∈ Set.uIcc (0:ℝ) 1, HasDerivAt
      (fun z : ℝ => exp γ * z ^ 2 / 2 - exp (γ * (2 * z + (-1))) * (z / (2 * γ) - 1 / (4 * γ ^ 2)))
      (x * (exp γ - exp (γ * (2 * x - 1)))) x := by
    intro x _
    refine ((hasDerivAt_sq_half (exp γ) x).sub (hasDerivAt_zexp hγ (-1) x)).congr_deriv ?_
    rw [← sub_eq_add_neg]; ring
  rw [integral_eq_sub_of_hasDerivAt hF (by apply Continuous.intervalIntegrable; fun_prop)]
  have e1 : γ * (2 * 1 + (-1)) = γ := by ring
  have e0 : γ * (2 * 0 + (-1)) = -γ := by ring
  simp only [e1, e0]
  field_simp
  ring

theorem int_z_neg {γ : ℝ} (hγ : γ ≠ 0) :
    ∫ z in (-1:ℝ)..0, z * (exp (γ * (2 * z + 1)) - exp (-γ)) =
      (-exp γ / (4 * γ ^ 2) + exp (-γ) / (2 * γ) + exp (-γ) / (4 * γ ^ 2)) + exp (-γ) / 2 := by
  have hF : ∀ x ∈ Set.uIcc (-1:ℝ) 0, HasDerivAt
      (fun z : ℝ => exp (γ * (2 * z + 1)) * (z / (2 * γ) - 1 / (4 * γ ^ 2)) - exp (-γ) * z ^ 2 / 2)
      (x * (exp (γ * (2 * x + 1)) - exp (-γ))) x := by
    intro x _
    refine ((hasDerivAt_zexp hγ 1 x).sub (hasDerivAt_sq_half (exp (-γ)) x)).congr_deriv ?_
    ring
  rw [integral_eq_sub_of_hasDerivAt hF (by apply Continuous.intervalIntegrable; fun_prop)]
  have e1 : γ * (2 * 0 + 1) = γ := by ring
  have e0 : γ * (2 * (-1) + 1) = -γ := by ring
  simp only [e1, e0]
  field_simp
  ring

theorem zBN_eqOn_pos (γ : ℝ) : Set.EqOn (fun z => z * BalNeyts γ z) (fun z => z * bnPos γ z) (Set.Ioo 0 1) := by
  intro z hz; simp only; rw [BalNeyts_eqOn_pos γ hz]

theorem zBN_eqOn_neg (γ : ℝ) : Set.EqOn (fun z => z * BalNeyts γ z) (fun z => z * bnNeg γ z) (Set.Ioo (-1) 0) := by
  intro z hz; simp only; rw [BalNeyts_eqOn_neg γ hz]

theorem zBN_integrable_pos (γ : ℝ) : IntervalIntegrable (fun z => z * BalNeyts γ z) MeasureTheory.volume 0 1 := by
  have hc : Continuous (fun z => z * bnPos γ z) := continuous_id.mul (bnPos_cont γ)
  refine (hc.intervalIntegrable 0 1).congr_uIoo ?_
  rw [Set.uIoo_of_le zero_le_one]
  exact (zBN_eqOn_pos γ).symm

theorem zBN_integrable_neg (γ : ℝ) : IntervalIntegrable (fun z => z * BalNeyts γ z) MeasureTheory.volume (-1) 0 := by
  have hc : Continuous (fun z => z * bnNeg γ z) := continuous_id.mul (bnNeg_cont γ)
  refine (hc.intervalIntegrable (-1) 0).congr_uIoo ?_
  rw [Set.uIoo_of_le (by norm_num)]
  exact (zBN_eqOn_neg γ).symm

theorem zBN_int_pos {γ : ℝ} (hγ : γ ≠ 0) :
    ∫ z in (0:ℝ)..1, z * BalNeyts γ z =
      (exp γ / 2 - (exp γ * (1 / (2 * γ) - 1 / (4 * γ ^ 2)) + exp (-γ) / (4 * γ ^ 2))) / (exp γ - exp (-γ)) := by
  rw [integral_congr_Ioo_of_le zero_le_one (zBN_eqOn_pos γ)]
  unfold bnPos
  simp_rw [← mul_div_assoc]
  rw [integral_div, int_z_pos hγ]

theorem zBN_int_neg {γ : ℝ} (hγ : γ ≠ 0) :
    ∫ z in (-1:ℝ)..0, z * BalNeyts γ z =
      ((-exp γ / (4 * γ ^ 2) + exp (-γ) / (2 * γ) + exp (-γ) / (4 * γ ^ 2)) + exp (-γ) / 2) / (exp γ - exp (-γ)) := by
  rw [integral_congr_Ioo_of_le (by norm_num) (zBN_eqOn_neg γ)]
  unfold bnNeg
  simp_rw [← mul_div_assoc]
  rw [integral_div, int_z_neg hγ]

/-- mean reduced displacement: `(coth γ - 1/γ)/2` -/
theorem BalNeyts_mean {γ : ℝ} (hγ : γ ≠ 0) :
    ∫ z in (-1:ℝ)..1, z * BalNeyts γ z = (cosh γ / sinh γ - 1 / γ) / 2 := by
  rw [← integral_add_adjacent_intervals (zBN_integrable_neg γ) (zBN_integrable_pos γ),
    zBN_int_pos hγ, zBN_int_neg hγ]
  have hd := den_ne_zero hγ
  have hs : sinh γ ≠ 0 := by rw [sinh_eq]; intro h; apply hd; linarith
  rw [cosh_eq, sinh_eq] at *
  field_simp
  ring

/-! ### clip, displacement -/

theorem clip_real (x lo hi : ℝ) : clip x lo hi = min (max x lo) hi := by
  unfold clip
  simp only [real_ltb, decide_eq_true_eq]
  by_cases h1 : x < lo
  · rw [if_pos h1, max_eq_right h1.le]
    by_cases h2 : hi < lo
    · rw [if_pos h2, min_eq_right h2.le]
    · rw [if_neg h2, min_eq_left (not_lt.mp h2)]
  · rw [if_neg h1, max_eq_left (not_lt.mp h1)]
    by_cases h2 : hi < x
    · rw [if_pos h2, min_eq_right h2.le]
    · rw [if_neg h2, min_eq_left (not_lt.mp h2)]

theorem gammaMax_pos : (0 : ℝ) < gammaMax := by rw [gammaMax_real]; norm_num

theorem abs_gamma_le (F δ kT : ℝ) : |gamma F δ kT| ≤ gammaMax := by
  unfold gamma
  rw [clip_real]
  have hM := gammaMax_pos
  rw [abs_le]
  constructor
  · exact le_min (le_max_right _ _) (by linarith)
  · exact min_le_right _ _

theorem gamma_unclipped {F δ kT : ℝ} (h : |F * δ / (2 * kT)| ≤ gammaMax) : gamma F δ kT = F * δ / (2 * kT) := by
  unfold gamma
  rw [clip_real]
  simp only [Num.real_two]
  rw [abs_le] at h
  rw [max_eq_left h.1, min_eq_left h.2]

theorem corrected_real {m : ℝ} (hm : m ≠ 0) (d : ℝ) : corrected m d = d := by
  unfold corrected; field_simp

theorem displacement_real (ζ δ mmin m p : ℝ) : displacement ζ δ mmin m p = ζ * δ * (mmin / m) ^ p := rfl

theorem abs_displacement_le {ζ δ mmin m p : ℝ} (hζ : |ζ| ≤ 1) (hδ : 0 < δ) (hmin : 0 < mmin) (hm : mmin ≤ m) :
    |displacement ζ δ mmin m p| ≤ δ * (mmin / m) ^ p := by
  have hm0 : 0 < m := lt_of_lt_of_le hmin hm
  have hr : 0 ≤ (mmin / m) ^ p := rpow_nonneg (div_nonneg hmin.le hm0.le) p
  rw [displacement_real, abs_mul, abs_mul, abs_of_pos hδ, abs_of_nonneg hr]
  calc |ζ| * δ * (mmin / m) ^ p ≤ 1 * δ * (mmin / m) ^ p := by gcongr
    _ = δ * (mmin / m) ^ p := by ring

theorem massRatio_pow_le_one {mmin m p : ℝ} (hmin : 0 < mmin) (hm : mmin ≤ m) (hp : 0 ≤ p) : (mmin / m) ^ p ≤ 1 := by
  have hm0 : 0 < m := lt_of_lt_of_le hmin hm
  exact rpow_le_one (div_nonneg hmin.le hm0.le) ((div_le_one hm0).mpr hm) hp

/-! ### the rejection loop (any carrier) -/
section loop
variable {α : Type} [Num α] [Ops α]

theorem nUnconv_eq_zero_iff (cs : List (Coord α)) : nUnconv cs = 0 ↔ ∀ c ∈ cs, acc c = true := by
  unfold nUnconv
  rw [List.length_eq_zero_iff, List.filter_eq_nil_iff]
  constructor
  · intro h c hc; have := h c hc; simpa using this
  · intro h c hc; simp [h c hc]

theorem redraw_length (d : Nat → α) (k : Nat) : ∀ (p : Nat) (cs : List (Coord α)), (redraw d k p cs).length = cs.length
  | _, [] => rfl
  | p, c :: cs => by
    unfold redraw
    split <;> simp [redraw_length d k _ cs]

/-- a converged coordinate is not touched by a further round -/
theorem redraw_keeps (d : Nat → α) (k : Nat) :
    ∀ (p : Nat) (cs : List (Coord α)) (i : Nat) (c : Coord α), cs[i]? = some c → acc c = true → (redraw d k p cs)[i]? = some c
  | _, [], _, _, h, _ => by simp at h
  | p, c' :: cs, 0, c, h, hc => by
    simp at h; subst h
    unfold redraw; rw [if_pos hc]; rfl
  | p, c' :: cs, i + 1, c, h, hc => by
    simp at h
    unfold redraw
    split
    · simpa using redraw_keeps d k p cs i c h hc
    · simpa using redraw_keeps d k (p + 1) cs i c h hc

/-- invariant: every `zeta` after a round is an old one or a script entry; `gamma`, `den` never change -/
theorem redraw_inv (Q : α → Prop) (d : Nat → α) (hd : ∀ j, Q (d j)) (k : Nat) :
    ∀ (p : Nat) (cs : List (Coord α)), (∀ c ∈ cs, Q c.zeta) → ∀ c ∈ redraw d k p cs, Q c.zeta
  | _, [], _ => by simp [redraw]
  | p, c' :: cs, h => by
    have h' : ∀ c ∈ cs, Q c.zeta := fun c hc => h c (List.mem_cons_of_mem _ hc)
    unfold redraw
    split
    · intro c hc
      rcases List.mem_cons.mp hc with e | e
      · subst e; exact h _ (List.mem_cons_self)
      · exact redraw_inv Q d hd k p cs h' c e
    · intro c hc
      rcases List.mem_cons.mp hc with e | e
      · subst e; exact hd p
      · exact redraw_inv Q d hd k (p + 1) cs h' c e

omit [Num α] [Ops α] in
theorem initCoords_inv (Q : α → Prop) (d : Nat → α) (hd : ∀ j, Q (d j)) (n : Nat) :
    ∀ (i : Nat) (gd : List (α × α)), ∀ c ∈ initCoords d n i gd, Q c.zeta
  | _, [] => by simp [initCoords]
  | i, (g, dn) :: rest => by
    intro c hc
    unfold initCoords at hc
    rcases List.mem_cons.mp hc with e | e
    · subst e; exact hd i
    · exact initCoords_inv Q d hd n (i + 1) rest c e

omit [Num α] [Ops α] in
theorem initCoords_length (d : Nat → α) (n : Nat) : ∀ (i : Nat) (gd : List (α × α)), (initCoords d n i gd).length = gd.length
  | _, [] => rfl
  | i, (g, dn) :: rest => by simp [initCoords, initCoords_length d n (i + 1) rest]

theorem loop_length (d : Nat → α) : ∀ (fuel rounds p : Nat) (cs : List (Coord α)) out,
    loop d fuel rounds p cs = some out → out.1.length = cs.length
  | 0, _, _, _, _, h => by simp [loop] at h
  | fuel + 1, rounds, p, cs, out, h => by
    unfold loop at h
    simp only at h
    split at h
    · cases h; rfl
    · rw [loop_length d fuel _ _ _ out h, redraw_length]

/-- what `loop` returns: every coordinate accepted, `zeta` values from the initial state or the script -/
theorem loop_sound (Q : α → Prop) (d : Nat → α) (hd : ∀ j, Q (d j)) : ∀ (fuel rounds p : Nat) (cs : List (Coord α)) out,
    (∀ c ∈ cs, Q c.zeta) → loop d fuel rounds p cs = some out →
      (∀ c ∈ out.1, acc c = true) ∧ (∀ c ∈ out.1, Q c.zeta)
  | 0, _, _, _, _, _, h => by simp [loop] at h
  | fuel + 1, rounds, p, cs, out, hq, h => by
    unfold loop at h
    simp only at h
    split at h
    · rename_i hk
      cases h
      exact ⟨(nUnconv_eq_zero_iff cs).mp hk, hq⟩
    · exact loop_sound Q d hd fuel _ _ _ out (redraw_inv Q d hd _ _ cs hq) h

/-- the state (script position, coordinates) after one further round -/
def next (d : Nat → α) (s : Nat × List (Coord α)) : Nat × List (Coord α) :=
  (s.1 + 2 * nUnconv s.2, redraw d (nUnconv s.2) s.1 s.2)

/-- the state after `n` further rounds (ignoring the stopping test) -/
def traj (d : Nat → α) : Nat → Nat × List (Coord α) → Nat × List (Coord α)
  | 0, s => s
  | n + 1, s => next d (traj d n s)

theorem traj_succ_front (d : Nat → α) : ∀ (n : Nat) (s : Nat × List (Coord α)), traj d (n + 1) s = traj d n (next d s)
  | 0, _ => rfl
  | n + 1, s => by
    show next d (traj d (n + 1) s) = next d (traj d n (next d s))
    rw [traj_succ_front d n s]

/-- coordinate `i` holds an accepted pair in the list `cs` -/
def AccAt (cs : List (Coord α)) (i : Nat) : Prop := ∃ c, cs[i]? = some c ∧ acc c = true

theorem accAt_next (d : Nat → α) (s : Nat × List (Coord α)) (i : Nat) (h : AccAt s.2 i) : AccAt (next d s).2 i := by
  obtain ⟨c, hc, ha⟩ := h
  exact ⟨c, redraw_keeps d _ _ _ i c hc ha, ha⟩

theorem accAt_mono (d : Nat → α) (s : Nat × List (Coord α)) (i n : Nat) (h : AccAt (traj d n s).2 i) :
    ∀ m, AccAt (traj d (n + m) s).2 i
  | 0 => h
  | m + 1 => accAt_next d _ i (accAt_mono d s i n h m)

theorem traj_length (d : Nat → α) (s : Nat × List (Coord α)) : ∀ n, (traj d n s).2.length = s.2.length
  | 0 => rfl
  | n + 1 => by
    show (redraw d _ _ (traj d n s).2).length = _
    rw [redraw_length, traj_length d s n]

/-- if every coordinate is accepted at some round, there is a round at which all are -/
theorem exists_all_acc (d : Nat → α) (s : Nat × List (Coord α))
    (h : ∀ i, i < s.2.length → ∃ n, AccAt (traj d n s).2 i) :
    ∀ m, m ≤ s.2.length → ∃ N, ∀ i, i < m → AccAt (traj d N s).2 i
  | 0, _ => ⟨0, fun i hi => absurd hi (Nat.not_lt_zero i)⟩
  | m + 1, hm => by
    obtain ⟨N, hN⟩ := exists_all_acc d s h m (Nat.le_of_succ_le hm)
    obtain ⟨n, hn⟩ := h m hm
    refine ⟨N + n, fun i hi => ?_⟩
    rcases Nat.lt_succ_iff_lt_or_eq.mp hi with hlt | heq
    · exact accAt_mono d s i N (hN i hlt) n
    · subst heq
      rw [Nat.add_comm]
      exact accAt_mono d s i n hn N

theorem all_acc_of_accAt (cs : List (Coord α)) (h : ∀ i, i < cs.length → AccAt cs i) : ∀ c ∈ cs, acc c = true := by
  intro c hc
  obtain ⟨i, hi, e⟩ := List.getElem_of_mem hc
  obtain ⟨c', hc', ha⟩ := h i hi
  rw [List.getElem?_eq_getElem hi] at hc'
  cases hc'
  rw [← e]; exact ha

/-- if all coordinates are accepted after `n` further rounds, `loop` returns with fuel `n + 1` -/
theorem loop_of_traj (d : Nat → α) : ∀ (n : Nat) (s : Nat × List (Coord α)) (rounds : Nat),
    (∀ c ∈ (traj d n s).2, acc c = true) → ∃ out, loop d (n + 1) rounds s.1 s.2 = some out
  | 0, s, rounds, h => by
    refine ⟨(s.2, rounds, s.1), ?_⟩
    have hk := (nUnconv_eq_zero_iff s.2).mpr h
    unfold loop; simp [hk]
  | n + 1, s, rounds, h => by
    unfold loop
    simp only
    split
    · exact ⟨_, rfl⟩
    · rw [traj_succ_front] at h
      exact loop_of_traj d n (next d s) (rounds + 1) h

/-- fuel monotonicity: more fuel gives the same answer -/
theorem loop_fuel_mono (d : Nat → α) : ∀ (fuel rounds p : Nat) (cs : List (Coord α)) out,
    loop d fuel rounds p cs = some out → ∀ extra, loop d (fuel + extra) rounds p cs = some out
  | 0, _, _, _, _, h, _ => by simp [loop] at h
  | fuel + 1, rounds, p, cs, out, h, extra => by
    rw [Nat.add_right_comm]
    unfold loop at h ⊢
    simp only at h ⊢
    split
    · rename_i hk; rw [if_pos hk] at h; exact h
    · rename_i hk; rw [if_neg hk] at h
      exact loop_fuel_mono d fuel _ _ _ out h extra

end loop

/-! ### the whole step -/
section stepgen
variable {α : Type} [Num α] [Ops α]

/-- the state the loop starts from in `step` -/
def initState (d : Nat → α) (kT : α) (ps : List (Par α)) : Nat × List (Coord α) :=
  (2 * ps.length,
   initCoords d ps.length 0 ((ps.map (fun q => gamma q.force q.delta kT)).map (fun g => (g, denominator g))))

theorem initState_length (d : Nat → α) (kT : α) (ps : List (Par α)) : (initState d kT ps).2.length = ps.length := by
  simp [initState, initCoords_length]

theorem step_eq_some (d : Nat → α) (fuel : Nat) (kT : α) (ps : List (Par α)) (s : Sys α) (o : StepOut α)
    (h : step d fuel kT ps s = some o) :
    ∃ cs rounds used, loop d fuel 0 (initState d kT ps).1 (initState d kT ps).2 = some (cs, rounds, used) ∧
      o.zetas = cs.map (·.zeta) ∧
      o.gammas = ps.map (fun q => gamma q.force q.delta kT) ∧
      o.sys.positions = moved (massMin ps) ps (cs.map (·.zeta)) s.positions ∧
      o.sys.momenta = momentaOf (massMin ps) ps (cs.map (·.zeta)) ∧
      o.sys.stepCount = s.stepCount ∧
      o.sys.trace = s.trace ++ [.getForces, .getPositions, .setMomenta, .getMomenta, .setPositions, .getPotentialEnergy] := by
  unfold step at h
  simp only at h
  split at h
  · cases h
  · rename_i cs rounds used hl
    cases h
    exact ⟨cs, rounds, used, hl, rfl, rfl, rfl, rfl, rfl, rfl⟩

theorem step_of_loop (d : Nat → α) (fuel : Nat) (kT : α) (ps : List (Par α)) (s : Sys α) out
    (h : loop d fuel 0 (initState d kT ps).1 (initState d kT ps).2 = some out) :
    ∃ o, step d fuel kT ps s = some o := by
  unfold step
  simp only
  unfold initState at h
  simp only at h
  rw [h]
  exact ⟨_, rfl⟩

theorem moved_getElem (mmin : α) : ∀ (ps : List (Par α)) (zs xs : List α) (i : Nat) (q : Par α) (z x : α),
    ps[i]? = some q → zs[i]? = some z → xs[i]? = some x →
      (moved mmin ps zs xs)[i]? = some (x + corrected q.mass (displacement z q.delta mmin q.mass q.power))
  | [], _, _, _, _, _, _, h, _, _ => by simp at h
  | _ :: _, [], _, _, _, _, _, _, h, _ => by simp at h
  | _ :: _, _ :: _, [], _, _, _, _, _, _, h => by simp at h
  | q' :: ps, z' :: zs, x' :: xs, 0, q, z, x, h1, h2, h3 => by
    simp at h1 h2 h3; subst h1 h2 h3; simp [moved]
  | q' :: ps, z' :: zs, x' :: xs, i + 1, q, z, x, h1, h2, h3 => by
    simp at h1 h2 h3
    simpa [moved] using moved_getElem mmin ps zs xs i q z x h1 h2 h3

end stepgen

/-! ### minimum mass over ℝ -/

theorem minList_real_le : ∀ (xs : List ℝ) (m : ℝ), minList Ops.ltb xs m ≤ m ∧ ∀ x ∈ xs, minList Ops.ltb xs m ≤ x
  | [], m => ⟨le_rfl, by simp⟩
  | x :: xs, m => by
    unfold minList
    simp only [real_ltb, decide_eq_true_eq]
    by_cases h : x < m
    · rw [if_pos h]
      obtain ⟨h1, h2⟩ := minList_real_le xs x
      refine ⟨h1.trans h.le, fun y hy => ?_⟩
      rcases List.mem_cons.mp hy with e | e
      · subst e; exact h1
      · exact h2 y e
    · rw [if_neg h]
      obtain ⟨h1, h2⟩ := minList_real_le xs m
      refine ⟨h1, fun y hy => ?_⟩
      rcases List.mem_cons.mp hy with e | e
      · subst e; exact h1.trans (not_lt.mp h)
      · exact h2 y e

theorem minList_real_mem : ∀ (xs : List ℝ) (m : ℝ), minList Ops.ltb xs m = m ∨ minList Ops.ltb xs m ∈ xs
  | [], m => Or.inl rfl
  | x :: xs, m => by
    unfold minList
    simp only [real_ltb, decide_eq_true_eq]
    by_cases h : x < m
    · rw [if_pos h]
      rcases minList_real_mem xs x with e | e
      · right; rw [e]; exact List.mem_cons_self
      · right; exact List.mem_cons_of_mem _ e
    · rw [if_neg h]
      rcases minList_real_mem xs m with e | e
      · left; exact e
      · right; exact List.mem_cons_of_mem _ e

theorem massMin_le (ps : List (Par ℝ)) (q : Par ℝ) (hq : q ∈ ps) : massMin ps ≤ q.mass := by
  cases ps with
  | nil => simp at hq
  | cons q0 qs =>
    unfold massMin
    obtain ⟨h1, h2⟩ := minList_real_le (qs.map (·.mass)) q0.mass
    rcases List.mem_cons.mp hq with e | e
    · subst e; exact h1
    · exact h2 _ (List.mem_map_of_mem e)

theorem massMin_pos (ps : List (Par ℝ)) (h : ∀ q ∈ ps, 0 < q.mass) : 0 < massMin ps := by
  cases ps with
  | nil => simp [massMin]
  | cons q0 qs =>
    show 0 < minList Ops.ltb (qs.map (·.mass)) q0.mass
    rcases minList_real_mem (qs.map (·.mass)) q0.mass with e | e
    · rw [e]; exact h q0 List.mem_cons_self
    · obtain ⟨q, hq, hm⟩ := List.mem_map.mp e
      rw [← hm]; exact h q (List.mem_cons_of_mem _ hq)

/-! ### the Langevin function -/
theorem langevin_hasDerivAt {x : ℝ} (hx : x ≠ 0) :
    HasDerivAt (fun γ : ℝ => cosh γ / sinh γ - 1 / γ) (1 / x ^ 2 - 1 / sinh x ^ 2) x := by
  have hs : sinh x ≠ 0 := by
    intro h; apply hx; exact sinh_eq_zero.mp h
  have h1 := (hasDerivAt_cosh x).div (hasDerivAt_sinh x) hs
  have h2 : HasDerivAt (fun γ : ℝ => 1 / γ) (-(x ^ 2)⁻¹) x := by
    simpa using hasDerivAt_inv hx
  refine (h1.sub h2).congr_deriv ?_
  have hc := cosh_sq x
  field_simp
  nlinarith [hc]

/-- the Langevin function `coth γ - 1/γ` (twice the mean reduced displacement) increases strictly with `γ > 0` -/
theorem langevin_strictMonoOn : StrictMonoOn (fun γ : ℝ => cosh γ / sinh γ - 1 / γ) (Set.Ioi 0) := by
  apply strictMonoOn_of_deriv_pos (convex_Ioi 0)
  · apply ContinuousOn.sub
    · apply ContinuousOn.div continuous_cosh.continuousOn continuous_sinh.continuousOn
      intro x hx; exact (sinh_pos_iff.mpr hx).ne'
    · apply ContinuousOn.div continuousOn_const continuousOn_id
      intro x hx; exact (ne_of_gt hx)
  · intro x hx
    rw [interior_Ioi] at hx
    have hx0 : (0:ℝ) < x := hx
    rw [(langevin_hasDerivAt hx0.ne').deriv]
    have h1 : x < sinh x := self_lt_sinh_iff.mpr hx0
    have h2 : x ^ 2 < sinh x ^ 2 := by nlinarith
    have h3 : 1 / sinh x ^ 2 < 1 / x ^ 2 := one_div_lt_one_div_of_lt (by positivity) h2
    linarith

end FB
