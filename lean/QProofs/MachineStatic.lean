import QProofs.MachineTree
/-! what no trial ever changes: the number of move objects and their kinds -/
namespace MM

/-- heap shape: same number of objects, same kinds -/
def SameShape (h h' : List MoveObj) : Prop :=
  h'.length = h.length ∧ ∀ r, (h'.getD r { kind := .user }).kind = (h.getD r { kind := .user }).kind

theorem SameShape.refl (h : List MoveObj) : SameShape h h := ⟨rfl, fun _ => rfl⟩
theorem SameShape.trans {a b c : List MoveObj} (h1 : SameShape a b) (h2 : SameShape b c) : SameShape a c :=
  ⟨h2.1.trans h1.1, fun r => (h2.2 r).trans (h1.2 r)⟩

theorem sameShape_set (h : List MoveObj) (r : Nat) (m : MoveObj)
    (hk : m.kind = (h.getD r { kind := .user }).kind) : SameShape h (h.set r m) := by
  refine ⟨by simp, ?_⟩
  intro r'
  simp only [List.getD_eq_getElem?_getD, List.getElem?_set]
  by_cases hrr : r = r'
  · subst hrr
    by_cases hlt : r < h.length
    · simp [hlt]; simpa [List.getD_eq_getElem?_getD, hlt] using hk
    · simp [hlt]
  · simp [hrr]

theorem notifyRefs_shape (rs added removed : List Nat) (h : List MoveObj) :
    SameShape h (notifyRefs rs added removed h) := by
  induction rs generalizing h with
  | nil => exact SameShape.refl h
  | cons r rs ih =>
    simp only [notifyRefs]
    split
    · exact (sameShape_set h r _ (by simp [onAtomsChangedObj])).trans (ih _)
    · exact ih _

theorem notifyParts_shape (rs sizes added removed : List Nat) (h : List MoveObj) :
    SameShape h (notifyParts rs sizes added removed h) := by
  induction sizes generalizing added h with
  | nil => exact notifyRefs_shape _ _ _ _
  | cons n ns ih =>
    cases ns with
    | nil => exact notifyRefs_shape _ _ _ _
    | cons m ms =>
      simp only [notifyParts]
      exact (notifyRefs_shape _ _ _ _).trans (ih _ _)

theorem callKeeps_shape {s s' : State} (k : CallKeeps s s') : SameShape s.heap s'.heap :=
  ⟨k.heap_len, fun r => by simpa [State.obj] using k.kinds r⟩

theorem saveState_shape (sim : Sim) (s : State) : SameShape s.heap (saveState sim s).heap := by
  unfold saveState
  cases sim.ens <;> simp only [ctxSave] <;> first | exact SameShape.refl _ | exact notifyParts_shape _ _ _ _ _

theorem revertState_shape (sim : Sim) (s : State) : (revertState sim s).heap = s.heap := by
  unfold revertState
  cases sim.ens <;> rfl

theorem trial_shape (sim : Sim) (t : Tree) (v : Bool) (s : State)
    (hrs : ∀ r ∈ t.refs, r < s.heap.length) (ht : PosTree s t) :
    SameShape s.heap (trial sim t v s).2.heap := by
  have hk := callKeeps_shape (callTree_keeps t s hrs ht)
  unfold trial
  rcases hct : callTree t s with ⟨ok, s1⟩
  rw [hct] at hk
  simp only [] at hk ⊢
  cases ok <;> cases v <;> simp only [if_true, Bool.false_eq_true, if_false]
  · exact hk
  · exact hk
  · rw [revertState_shape]; exact hk
  · exact hk.trans (saveState_shape sim s1)

theorem posTree_of_shape (s s' : State) (t : Tree) (h : SameShape s.heap s'.heap) (ht : PosTree s t) :
    PosTree s' t := by
  cases t with
  | leaf r => simp only [PosTree, State.obj] at ht ⊢; rw [h.2 r]; exact ht
  | compDisp rs => trivial
  | plain rs => intro r hr; simp only [State.obj]; rw [h.2 r]; exact ht r hr
  | compExch rs b => exact ht

end MM
