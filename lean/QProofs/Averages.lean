import Mathlib.Analysis.SpecialFunctions.Gamma.Basic
import Mathlib.Analysis.SpecialFunctions.Gaussian.GaussianIntegral
import Mathlib.Analysis.SpecialFunctions.Exponential
import Mathlib.Analysis.SpecialFunctions.Trigonometric.DerivHyp
import Mathlib.MeasureTheory.Integral.IntegralEqImproper
import Mathlib.MeasureTheory.Integral.Pi
import Mathlib.Topology.Algebra.InfiniteSum.NatInt
import Mathlib.Tactic
/-!
# Closed-form averages of the target densities of the solvable systems (helper lemmas for C01)

* `gamma_ratio`           — `∫₀^∞ V·V^N e^{−rV} / ∫₀^∞ V^N e^{−rV} = (N+1)/r`         (NPT ideal gas, `r = P/kT`)
* `dipole_ratio`          — `∫_{−1}^{1} c e^{xc} dc / ∫_{−1}^{1} e^{xc} dc = cosh x / sinh x − 1/x`   (rigid dipole)
* `gaussian_moment_ratio`     — `∫ x² e^{−a x²} / ∫ e^{−a x²} = 1/(2a)`                    (one quadratic degree of freedom)
* `gaussian_moment_ratio_nd`     — the same for the product density over any finite index type: `card ι / (2a)`
* `poisson_of_ratio_aux`     — a probability mass function with `p(N+1)(N+1) = λ p(N)` is Poisson(λ);
  `poisson_hasSum_one`, `poisson_mean_hasSum`, `poisson_factorial_moment2` (mean λ, `E[N(N−1)] = λ²`, so variance λ).

All integrals are Bochner integrals w.r.t. Lebesgue measure (`∫ x in Ioi 0, …`, interval integrals, `∫ x : ι → ℝ, …`).
-/

open MeasureTheory Set Real Finset

namespace Metro

/-! ## Gamma density: NPT ideal gas -/

theorem integral_pow_mul_exp_neg_mul (N : ℕ) (r : ℝ) (hr : 0 < r) :
    ∫ V in Ioi (0:ℝ), V ^ N * Real.exp (-(r * V)) = (1 / r) ^ (N + 1) * (N.factorial : ℝ) := by
  have h := Real.integral_rpow_mul_exp_neg_mul_Ioi (a := (N:ℝ) + 1) (by positivity) hr
  have e1 : ((N:ℝ) + 1 - 1) = (N:ℝ) := by ring
  rw [e1] at h
  simp only [Real.rpow_natCast] at h
  rw [Real.Gamma_nat_eq_factorial] at h
  have e2 : (1 / r) ^ ((N:ℝ) + 1) = (1 / r) ^ (N + 1) := by
    rw [← Real.rpow_natCast]; push_cast; rfl
  rw [e2] at h; exact h

theorem gamma_ratio (N : ℕ) (r : ℝ) (hr : 0 < r) :
    (∫ V in Ioi (0:ℝ), V * (V ^ N * Real.exp (-(r * V)))) / (∫ V in Ioi (0:ℝ), V ^ N * Real.exp (-(r * V)))
      = ((N : ℝ) + 1) / r := by
  have hnum : ∫ V in Ioi (0:ℝ), V * (V ^ N * Real.exp (-(r * V)))
      = ∫ V in Ioi (0:ℝ), V ^ (N + 1) * Real.exp (-(r * V)) := by
    congr 1; funext V; ring
  rw [hnum, integral_pow_mul_exp_neg_mul (N + 1) r hr, integral_pow_mul_exp_neg_mul N r hr, Nat.factorial_succ]
  have hf : ((N.factorial : ℕ) : ℝ) ≠ 0 := by exact_mod_cast Nat.factorial_ne_zero N
  have hr' : r ≠ 0 := hr.ne'
  push_cast
  rw [pow_succ (1 / r) (N + 1)]
  field_simp

/-! ## rigid dipole in a field; one Gaussian coordinate -/

theorem integral_exp_mul (x : ℝ) (hx : x ≠ 0) :
    ∫ c in (-1:ℝ)..1, Real.exp (x * c) = (Real.exp x - Real.exp (-x)) / x := by
  have hd : ∀ c ∈ Set.uIcc (-1:ℝ) 1, HasDerivAt (fun c => Real.exp (x * c) / x) (Real.exp (x * c)) c := by
    intro c _
    have h1 : HasDerivAt (fun c : ℝ => x * c) x c := by simpa using (hasDerivAt_id c).const_mul x
    have h2 : HasDerivAt (fun c => Real.exp (x * c) / x) (Real.exp (x * c) * x / x) c := (h1.exp).div_const x
    exact h2.congr_deriv (by field_simp)
  have hc : Continuous fun c : ℝ => Real.exp (x * c) := by fun_prop
  rw [intervalIntegral.integral_eq_sub_of_hasDerivAt hd (hc.intervalIntegrable _ _)]
  simp only [mul_one, mul_neg]
  ring

theorem integral_mul_exp_mul (x : ℝ) (hx : x ≠ 0) :
    ∫ c in (-1:ℝ)..1, c * Real.exp (x * c)
      = (Real.exp x + Real.exp (-x)) / x - (Real.exp x - Real.exp (-x)) / x ^ 2 := by
  have hd : ∀ c ∈ Set.uIcc (-1:ℝ) 1,
      HasDerivAt (fun c => Real.exp (x * c) * (c / x - 1 / x ^ 2)) (c * Real.exp (x * c)) c := by
    intro c _
    have h1 : HasDerivAt (fun c : ℝ => x * c) x c := by simpa using (hasDerivAt_id c).const_mul x
    have h3 : HasDerivAt (fun c : ℝ => c / x - 1 / x ^ 2) (1 / x) c := by
      simpa using ((hasDerivAt_id c).div_const x).sub_const (1 / x ^ 2)
    have h2 : HasDerivAt (fun c => Real.exp (x * c) * (c / x - 1 / x ^ 2))
        (Real.exp (x * c) * x * (c / x - 1 / x ^ 2) + Real.exp (x * c) * (1 / x)) c := (h1.exp).mul h3
    exact h2.congr_deriv (by field_simp; ring)
  have hc : Continuous fun c : ℝ => c * Real.exp (x * c) := by fun_prop
  rw [intervalIntegral.integral_eq_sub_of_hasDerivAt hd (hc.intervalIntegrable _ _)]
  simp only [mul_one, mul_neg]
  field_simp
  ring

theorem dipole_ratio (x : ℝ) (hx : x ≠ 0) :
    (∫ c in (-1:ℝ)..1, c * Real.exp (x * c)) / (∫ c in (-1:ℝ)..1, Real.exp (x * c))
      = Real.cosh x / Real.sinh x - 1 / x := by
  have hs : Real.sinh x ≠ 0 := by rwa [Ne, Real.sinh_eq_zero]
  have hs' : Real.exp x - Real.exp (-x) ≠ 0 := by
    intro h; apply hs; rw [Real.sinh_eq, h]; simp
  rw [integral_mul_exp_mul x hx, integral_exp_mul x hx, Real.cosh_eq, Real.sinh_eq]
  field_simp

theorem integral_sq_mul_gaussian (a : ℝ) (ha : 0 < a) :
    ∫ x : ℝ, x ^ 2 * Real.exp (-a * x ^ 2) = (1 / (2 * a)) * ∫ x : ℝ, Real.exp (-a * x ^ 2) := by
  have hI0 : Integrable fun x : ℝ => Real.exp (-a * x ^ 2) := integrable_exp_neg_mul_sq ha
  have hI2 : Integrable fun x : ℝ => x ^ 2 * Real.exp (-a * x ^ 2) := by
    have := integrable_rpow_mul_exp_neg_mul_sq ha (s := 2) (by norm_num)
    simpa using this
  have hI1 : Integrable fun x : ℝ => -(1 / (2 * a)) * (x * Real.exp (-a * x ^ 2)) :=
    (integrable_mul_exp_neg_mul_sq ha).const_mul _
  have hd : ∀ x : ℝ, HasDerivAt (fun x => -(1 / (2 * a)) * (x * Real.exp (-a * x ^ 2)))
      (x ^ 2 * Real.exp (-a * x ^ 2) - (1 / (2 * a)) * Real.exp (-a * x ^ 2)) x := by
    intro x
    have h1 : HasDerivAt (fun x : ℝ => -a * x ^ 2) (-a * (2 * x)) x := by
      simpa using ((hasDerivAt_pow 2 x).const_mul (-a))
    have h2 : HasDerivAt (fun x => -(1 / (2 * a)) * (x * Real.exp (-a * x ^ 2)))
        (-(1 / (2 * a)) * (1 * Real.exp (-a * x ^ 2) + x * (Real.exp (-a * x ^ 2) * (-a * (2 * x))))) x :=
      ((hasDerivAt_id x).mul h1.exp).const_mul (-(1 / (2 * a)))
    exact h2.congr_deriv (by field_simp; ring)
  have hz := integral_eq_zero_of_hasDerivAt_of_integrable hd (hI2.sub (hI0.const_mul _)) hI1
  rw [integral_sub hI2 (hI0.const_mul _), integral_const_mul] at hz
  linarith

theorem gaussian_moment_ratio (a : ℝ) (ha : 0 < a) :
    (∫ x : ℝ, x ^ 2 * Real.exp (-a * x ^ 2)) / (∫ x : ℝ, Real.exp (-a * x ^ 2)) = 1 / (2 * a) := by
  have hpos : 0 < ∫ x : ℝ, Real.exp (-a * x ^ 2) := by
    rw [integral_gaussian]; positivity
  rw [integral_sq_mul_gaussian a ha, mul_div_assoc, div_self hpos.ne', mul_one]

/-! ## product of Gaussians: `n` quadratic degrees of freedom -/

theorem integrable_sq_mul_gaussian (a : ℝ) (ha : 0 < a) :
    Integrable fun x : ℝ => x ^ 2 * Real.exp (-a * x ^ 2) := by
  have := integrable_rpow_mul_exp_neg_mul_sq ha (s := 2) (by norm_num)
  simpa using this

theorem gaussian_moment_ratio_nd {ι : Type*} [Fintype ι] [DecidableEq ι] (a : ℝ) (ha : 0 < a) :
    (∫ x : ι → ℝ, (∑ j, x j ^ 2) * ∏ i, Real.exp (-a * x i ^ 2)) / (∫ x : ι → ℝ, ∏ i, Real.exp (-a * x i ^ 2))
      = (Fintype.card ι : ℝ) / (2 * a) := by
  let e : ℝ → ℝ := fun t => Real.exp (-a * t ^ 2)
  let e2 : ℝ → ℝ := fun t => t ^ 2 * Real.exp (-a * t ^ 2)
  have hI0 : Integrable e := integrable_exp_neg_mul_sq ha
  have hI2 : Integrable e2 := integrable_sq_mul_gaussian a ha
  have hG : 0 < ∫ t, e t := by
    show 0 < ∫ t : ℝ, Real.exp (-a * t ^ 2)
    rw [integral_gaussian]; positivity
  have hG2 : ∫ t, e2 t = (1 / (2 * a)) * ∫ t, e t := integral_sq_mul_gaussian a ha
  let f : ι → ι → ℝ → ℝ := fun j i => if i = j then e2 else e
  have hpt : ∀ (j : ι) (x : ι → ℝ), x j ^ 2 * ∏ i, e (x i) = ∏ i, f j i (x i) := by
    intro j x
    rw [← mul_prod_erase univ (fun i => e (x i)) (mem_univ j),
      ← mul_prod_erase univ (fun i => f j i (x i)) (mem_univ j)]
    have h1 : ∏ i ∈ univ.erase j, f j i (x i) = ∏ i ∈ univ.erase j, e (x i) :=
      prod_congr rfl (fun i hi => by simp [f, ne_of_mem_erase hi])
    rw [h1]
    simp only [f, if_true, e2, e]
    ring
  have hint : ∀ j, Integrable (fun x : ι → ℝ => ∏ i, f j i (x i)) := fun j =>
    Integrable.fintype_prod (fun i => by
      by_cases h : i = j
      · simp only [f, h, if_true]; exact hI2
      · simp only [f, h, if_false]; exact hI0)
  have hD : ∫ x : ι → ℝ, ∏ i, e (x i) = (∫ t, e t) ^ Fintype.card ι :=
    integral_fintype_prod_volume_eq_pow e
  have hj : ∀ j, ∫ x : ι → ℝ, ∏ i, f j i (x i) = (1 / (2 * a)) * ∫ x : ι → ℝ, ∏ i, e (x i) := by
    intro j
    rw [integral_fintype_prod_volume_eq_prod (fun i => f j i),
      integral_fintype_prod_volume_eq_prod (fun _ => e),
      ← mul_prod_erase univ (fun i => ∫ t, f j i t) (mem_univ j),
      ← mul_prod_erase univ (fun _ => ∫ t, e t) (mem_univ j)]
    have h1 : ∏ i ∈ univ.erase j, ∫ t, f j i t = ∏ i ∈ univ.erase j, ∫ t, e t :=
      prod_congr rfl (fun i hi => by simp [f, ne_of_mem_erase hi])
    rw [h1]
    simp only [f, if_true]
    rw [hG2]; ring
  have hnum : ∫ x : ι → ℝ, (∑ j, x j ^ 2) * ∏ i, Real.exp (-a * x i ^ 2)
      = (Fintype.card ι : ℝ) * ((1 / (2 * a)) * ∫ x : ι → ℝ, ∏ i, e (x i)) := by
    have h0 : (fun x : ι → ℝ => (∑ j, x j ^ 2) * ∏ i, Real.exp (-a * x i ^ 2))
        = fun x => ∑ j, ∏ i, f j i (x i) := by
      funext x
      rw [sum_mul]
      exact sum_congr rfl (fun j _ => hpt j x)
    rw [h0, integral_finsetSum _ (fun j _ => hint j)]
    simp only [hj, sum_const, card_univ, nsmul_eq_mul]
  rw [hnum]
  have hDpos : 0 < ∫ x : ι → ℝ, ∏ i, e (x i) := by rw [hD]; positivity
  show _ / (∫ x : ι → ℝ, ∏ i, e (x i)) = _
  field_simp

/-! ## Poisson -/

/-- the recursion `p (N+1) · (N+1) = lam · p N` determines `p` up to `p 0` -/
theorem ratio_closed_form (p : ℕ → ℝ) (lam : ℝ) (h : ∀ N, p (N + 1) * ((N : ℝ) + 1) = lam * p N) (N : ℕ) :
    p N = p 0 * lam ^ N / (N.factorial : ℝ) := by
  induction N with
  | zero => simp
  | succ k ih =>
    have hk : ((k : ℝ) + 1) ≠ 0 := by positivity
    have hf : ((k.factorial : ℕ) : ℝ) ≠ 0 := by exact_mod_cast Nat.factorial_ne_zero k
    have h1 : p (k + 1) = lam * p k / ((k : ℝ) + 1) := by rw [← h k]; field_simp
    rw [h1, ih, Nat.factorial_succ]
    push_cast
    field_simp
    ring

theorem hasSum_pow_div_factorial (lam : ℝ) : HasSum (fun N : ℕ => lam ^ N / (N.factorial : ℝ)) (Real.exp lam) := by
  rw [Real.exp_eq_exp_ℝ]
  exact NormedSpace.expSeries_div_hasSum_exp lam

/-- Poisson(lam) is normalised -/
theorem poisson_hasSum_one (lam : ℝ) : HasSum (fun N : ℕ => Real.exp (-lam) * lam ^ N / (N.factorial : ℝ)) 1 := by
  have h := (hasSum_pow_div_factorial lam).mul_left (Real.exp (-lam))
  rw [← Real.exp_add, neg_add_cancel, Real.exp_zero] at h
  have e : (fun N : ℕ => Real.exp (-lam) * lam ^ N / (N.factorial : ℝ))
      = fun N : ℕ => Real.exp (-lam) * (lam ^ N / (N.factorial : ℝ)) := by funext n; ring
  rw [e]; exact h

/-- a probability mass function on ℕ with `p(N+1)/p(N) = lam/(N+1)` is Poisson(lam) -/
theorem poisson_of_ratio_aux (p : ℕ → ℝ) (lam : ℝ) (h : ∀ N, p (N + 1) * ((N : ℝ) + 1) = lam * p N)
    (hsum : HasSum p 1) (N : ℕ) : p N = Real.exp (-lam) * lam ^ N / (N.factorial : ℝ) := by
  have hc := ratio_closed_form p lam h
  have h1 : HasSum p (p 0 * Real.exp lam) := by
    have h0 := (hasSum_pow_div_factorial lam).mul_left (p 0)
    have e : (fun N : ℕ => p 0 * (lam ^ N / (N.factorial : ℝ))) = p := funext (fun n => by rw [hc n]; ring)
    rw [e] at h0; exact h0
  have h2 : p 0 * Real.exp lam = 1 := h1.unique hsum
  have h3 : p 0 = Real.exp (-lam) := by
    rw [Real.exp_neg]; field_simp; linarith
  rw [hc N, h3]

/-- the mean of Poisson(lam) is lam -/
theorem poisson_mean_hasSum (lam : ℝ) :
    HasSum (fun N : ℕ => (N : ℝ) * (Real.exp (-lam) * lam ^ N / (N.factorial : ℝ))) lam := by
  rw [← hasSum_nat_add_iff' 1]
  simp only [range_one, sum_singleton, Nat.cast_zero, zero_mul, sub_zero]
  have h := (poisson_hasSum_one lam).mul_left lam
  rw [mul_one] at h
  have e : (fun n : ℕ => ((n + 1 : ℕ) : ℝ) * (Real.exp (-lam) * lam ^ (n + 1) / ((n + 1).factorial : ℝ)))
      = fun n : ℕ => lam * (Real.exp (-lam) * lam ^ n / (n.factorial : ℝ)) := by
    funext n
    have hf : ((n.factorial : ℕ) : ℝ) ≠ 0 := by exact_mod_cast Nat.factorial_ne_zero n
    have hk : ((n : ℝ) + 1) ≠ 0 := by positivity
    rw [Nat.factorial_succ]
    push_cast
    field_simp
    ring
  rw [e]; exact h

/-- the second factorial moment of Poisson(lam) is lam², hence the variance is lam -/
theorem poisson_factorial_moment2 (lam : ℝ) :
    HasSum (fun N : ℕ => (N : ℝ) * ((N : ℝ) - 1) * (Real.exp (-lam) * lam ^ N / (N.factorial : ℝ))) (lam ^ 2) := by
  rw [← hasSum_nat_add_iff' 2]
  simp only [sum_range_succ, range_zero, sum_empty, Nat.cast_zero, zero_mul, Nat.cast_one, sub_self, mul_zero,
    zero_add, sub_zero]
  have h := (poisson_hasSum_one lam).mul_left (lam ^ 2)
  rw [mul_one] at h
  have e : (fun n : ℕ => ((n + 2 : ℕ) : ℝ) * (((n + 2 : ℕ) : ℝ) - 1)
        * (Real.exp (-lam) * lam ^ (n + 2) / ((n + 2).factorial : ℝ)))
      = fun n : ℕ => lam ^ 2 * (Real.exp (-lam) * lam ^ n / (n.factorial : ℝ)) := by
    funext n
    have hf : ((n.factorial : ℕ) : ℝ) ≠ 0 := by exact_mod_cast Nat.factorial_ne_zero n
    have hk : ((n : ℝ) + 1) ≠ 0 := by positivity
    have hk2 : ((n : ℝ) + 1 + 1) ≠ 0 := by positivity
    rw [Nat.factorial_succ, Nat.factorial_succ]
    push_cast
    field_simp
    ring
  rw [e]; exact h

end Metro
