import QModel.CalcAlias
import QProofs.Calc
/-! result arrays: lemmas for `QProps/C04a.lean` -/
namespace MC
open MM

theorem forcesOf_congr (a b : AtomsS) (h : positions a.rows = positions b.rows) : forcesOf a = forcesOf b := by
  unfold forcesOf; rw [h]

/-- no calculation happened: the calculator caches, saw no change, and is untouched -/
theorem getEnergy_nocalc (c : CalcS) (a : AtomsS) (h : (getEnergy c a).2.evals = c.evals) :
    c.style ≠ .stateless ∧ (changes c.snap a).1 = false ∧ (getEnergy c a).2 = c ∧ c.results ≠ none := by
  unfold getEnergy at h ⊢
  by_cases hs : c.style = .stateless
  · simp [hs] at h
  · cases hch : (changes c.snap a).1 with
    | true => simp [hs, hch] at h
    | false =>
      cases hr : c.results with
      | none => simp [hs, hch, hr] at h
      | some e => simp [hs, hch, hr]

/-- a calculator without results always calculates -/
theorem getEnergy_calc_of_none (c : CalcS) (a : AtomsS) (h : c.results = none) :
    (getEnergy c a).2.evals ≠ c.evals := by
  intro he
  exact (getEnergy_nocalc c a he).2.2.2 h

/-- whatever the state of the cache, after `get_potential_energy()` on `a` the `forces` entry holds the forces of `a`,
    provided it held those of the configuration the calculator was synchronised with -/
theorem aliasAfter_spec (inplace : Bool) (c : CalcS) (a0 a : AtomsS) (x : AliasS)
    (h : c.results = none ∨ (Fresh c a0 ∧ ∃ r, x.ref = some r ∧ deref x.buf r = forcesOf a0)) :
    (∃ r', (aliasAfter inplace c a x).ref = some r' ∧ deref (aliasAfter inplace c a x).buf r' = forcesOf a) ∧
    (aliasAfter inplace c a x).lastRef = x.lastRef := by
  unfold aliasAfter
  by_cases he : (getEnergy c a).2.evals = c.evals
  · simp only [he, if_true]
    obtain ⟨_, hch, _, hres⟩ := getEnergy_nocalc c a he
    rcases h with h | ⟨⟨_, sn, hsn, hfr⟩, r, hr, hd⟩
    · exact absurd h hres
    · refine ⟨⟨r, hr, ?_⟩, by first | rfl | trivial⟩
      rw [hd]
      rw [hsn] at hch
      have h1 := (unchanged_spec sn a hch).1
      have h2 := (unchanged_spec sn a0 (by rw [hfr])).1
      exact forcesOf_congr _ _ (h2.symm.trans h1)
  · simp only [he, if_false]
    cases inplace with
    | true => exact ⟨⟨.buffer, rfl, rfl⟩, rfl⟩
    | false => exact ⟨⟨.own (forcesOf a), rfl, rfl⟩, rfl⟩

/-- an array of one's own does not depend on the buffer -/
theorem deref_own (b b' : List V3) (f : List V3) : deref b (.own f) = deref b' (.own f) := rfl

theorem detach_true (buf : List V3) (r : FRef) : detach true buf r = .own (deref buf r) := by
  simp [detach]

end MC
