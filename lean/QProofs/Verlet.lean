import QModel.Verlet
import QProofs.VecFnReal
import Mathlib.Tactic.FieldSimp
import Mathlib.Tactic.Linarith
import Mathlib.Tactic.Positivity
import Mathlib.Logic.Function.Iterate

/-! Helper lemmas for C14: the coded loop over `ℝ` without constraints is the iterate of the textbook
    kick–drift–kick map `Φ`; `S ∘ Φ ∘ S ∘ Φ = id`; harmonic shadow energy. -/

namespace Verlet
open VecFn Finset

variable {n : ℕ}

/-- the textbook velocity-Verlet map `kick(dt/2) ∘ drift(dt) ∘ kick(dt/2)` -/
noncomputable def Phi (F : Arr n ℝ → Arr n ℝ) (m : Col n ℝ) (dt : ℝ) (s : St n ℝ) : St n ℝ :=
  let ph : Arr n ℝ := fun i k => s.p i k + 1 / 2 * F s.q i k * dt
  let q' : Arr n ℝ := fun i k => s.q i k + ph i k / m i * dt
  ⟨q', fun i k => ph i k + 1 / 2 * F q' i k * dt⟩

@[simp] theorem getForces_none (F : Arr n ℝ → Arr n ℝ) (q : Arr n ℝ) :
    (getForces (Cons.none : Cons n ℝ) F q).get = F q := by simp [getForces, Cons.none]

@[simp] theorem setPositions_none (apply : Bool) (old new : Arr n ℝ) :
    (setPositions (Cons.none : Cons n ℝ) apply old new).get = new := by
  cases apply <;> simp [setPositions, Cons.none]

@[simp] theorem setMomenta_none (apply : Bool) (q p : Arr n ℝ) :
    (setMomenta (Cons.none : Cons n ℝ) apply q p).get = p := by
  cases apply <;> simp [setMomenta, Cons.none]

theorem HCfg.get_drawT (g : HCfg n ℝ) (q z : Arr n ℝ) : (g.drawT q z).get = g.draw q z := rfl

theorem St.ext' {a b : St n ℝ} (hq : a.q = b.q) (hp : a.p = b.p) : a = b := by
  cases a; cases b; simp_all

/-- one pass of the coded loop, no constraints attached, is `Φ` (for `apply_constraints=True` the momentum
    recomputed from the position difference is the half-kicked momentum because `m ≠ 0`, `dt ≠ 0`) -/
theorem step_none (apply : Bool) (F : Arr n ℝ → Arr n ℝ) (m : Col n ℝ) (dt : ℝ)
    (hm : ∀ i, m i ≠ 0) (hdt : dt ≠ 0) (s : St n ℝ) :
    step Cons.none apply F m dt s (F s.q) = (Phi F m dt s, F (Phi F m dt s).q) := by
  have hq : (step Cons.none apply F m dt s (F s.q)).1.q = (Phi F m dt s).q := by
    funext i k
    cases apply <;> simp [step, Phi]
  have hrec : ∀ i k, ((Phi F m dt s).q i k - s.q i k) * m i / dt = s.p i k + 1 / 2 * F s.q i k * dt := by
    intro i k
    have := hm i
    simp only [Phi]
    field_simp
    ring
  cases apply
  · simp [step, Phi]
  · have hq' : (fun i k => s.q i k + (s.p i k + 1 / 2 * F s.q i k * dt) / m i * dt) = (Phi F m dt s).q := rfl
    simp only [step, setPositions_none, setMomenta_none, getForces_none, Tab.get_tab, if_true,
      Num.real_half, hq']
    simp only [hrec]
    rfl

theorem loop_none (apply : Bool) (F : Arr n ℝ → Arr n ℝ) (m : Col n ℝ) (dt : ℝ)
    (hm : ∀ i, m i ≠ 0) (hdt : dt ≠ 0) (k : ℕ) (s : St n ℝ) :
    loop Cons.none apply F m dt k (s, F s.q) = ((Phi F m dt)^[k] s, F ((Phi F m dt)^[k] s).q) := by
  induction k generalizing s with
  | zero => rfl
  | succ j ih =>
    simp only [loop, step_none apply F m dt hm hdt s, ih, Function.iterate_succ_apply]

/-- the coded integrator without constraints = `steps` applications of `Φ` -/
theorem integrate_none (apply : Bool) (F : Arr n ℝ → Arr n ℝ) (m : Col n ℝ) (dt : ℝ)
    (hm : ∀ i, m i ≠ 0) (hdt : dt ≠ 0) (steps : ℕ) (s : St n ℝ) :
    integrate Cons.none apply F m dt steps s = (Phi F m dt)^[steps] s := by
  unfold integrate
  rw [getForces_none, loop_none apply F m dt hm hdt]

theorem flip_flip (s : St n ℝ) : flip (flip s) = s := by
  apply St.ext'
  · rfl
  · funext i k; simp [flip, Arr.neg]

/-- `S ∘ Φ ∘ S ∘ Φ = id` -/
theorem Phi_reverse (F : Arr n ℝ → Arr n ℝ) (m : Col n ℝ) (dt : ℝ) (s : St n ℝ) :
    flip (Phi F m dt (flip (Phi F m dt s))) = s := by
  have hq : (Phi F m dt (flip (Phi F m dt s))).q = s.q := by
    funext i k
    simp only [Phi, flip, Arr.neg]
    ring
  apply St.ext'
  · simpa [flip] using hq
  · funext i k
    have hq2 : (fun i k => (flip (Phi F m dt s)).q i k
        + ((flip (Phi F m dt s)).p i k + 1 / 2 * F (flip (Phi F m dt s)).q i k * dt) / m i * dt) = s.q := hq
    simp only [flip, Arr.neg]
    show -((flip (Phi F m dt s)).p i k + 1 / 2 * F (flip (Phi F m dt s)).q i k * dt
      + 1 / 2 * F (fun i k => (flip (Phi F m dt s)).q i k
        + ((flip (Phi F m dt s)).p i k + 1 / 2 * F (flip (Phi F m dt s)).q i k * dt) / m i * dt) i k * dt) = s.p i k
    rw [hq2]
    simp only [Phi, flip, Arr.neg]
    ring

theorem Phi_flip_Phi (F : Arr n ℝ → Arr n ℝ) (m : Col n ℝ) (dt : ℝ) (s : St n ℝ) :
    Phi F m dt (flip (Phi F m dt s)) = flip s := by
  have := congrArg flip (Phi_reverse F m dt s)
  rwa [flip_flip] at this

/-- `S ∘ Φⁿ ∘ S ∘ Φⁿ = id` -/
theorem Phi_iter_reverse (F : Arr n ℝ → Arr n ℝ) (m : Col n ℝ) (dt : ℝ) (k : ℕ) (s : St n ℝ) :
    flip ((Phi F m dt)^[k] (flip ((Phi F m dt)^[k] s))) = s := by
  induction k generalizing s with
  | zero => simpa using flip_flip s
  | succ j ih =>
    rw [Function.iterate_succ_apply' (Phi F m dt) j s, Function.iterate_succ_apply,
      Phi_flip_Phi, ih]

end Verlet

/-! ## harmonic wells: exact shadow energy -/

namespace Verlet
open VecFn Finset

variable {n : ℕ}

/-- energy of one degree of freedom of the harmonic wells -/
noncomputable def eDof (k : Col n ℝ) (ctr : Arr n ℝ) (m : Col n ℝ) (s : St n ℝ) (i : Fin n) (a : Fin 3) : ℝ :=
  s.p i a ^ 2 / (2 * m i) + 1 / 2 * k i * (s.q i a - ctr i a) ^ 2

/-- modified ("shadow") energy of one degree of freedom: `p²/2m + ½ k x² (1 − (ω dt)²/4)`, `ω² = k/m` -/
noncomputable def shDof (k : Col n ℝ) (ctr : Arr n ℝ) (m : Col n ℝ) (dt : ℝ) (s : St n ℝ)
    (i : Fin n) (a : Fin 3) : ℝ :=
  s.p i a ^ 2 / (2 * m i) + 1 / 2 * k i * (s.q i a - ctr i a) ^ 2 * (1 - k i * dt ^ 2 / (4 * m i))

/-- total energy as the model computes it: `atoms.get_kinetic_energy() + E_pot` -/
noncomputable def totalEnergy (k : Col n ℝ) (ctr : Arr n ℝ) (m : Col n ℝ) (s : St n ℝ) : ℝ :=
  ekin m s.p + harmonicEnergy k ctr s.q

theorem totalEnergy_eq_sum (k : Col n ℝ) (ctr : Arr n ℝ) (m : Col n ℝ) (s : St n ℝ) :
    totalEnergy k ctr m s = ∑ i, ∑ a, eDof k ctr m s i a := by
  simp only [totalEnergy, ekin, harmonicEnergy, sumAll_real, Num.real_half, eDof, Finset.mul_sum,
    ← Finset.sum_add_distrib]
  refine Finset.sum_congr rfl (fun i _ => Finset.sum_congr rfl (fun a _ => ?_))
  ring

theorem shDof_Phi (k : Col n ℝ) (ctr : Arr n ℝ) (m : Col n ℝ) (dt : ℝ) (s : St n ℝ)
    (i : Fin n) (a : Fin 3) (hm : m i ≠ 0) :
    shDof k ctr m dt (Phi (harmonicForce k ctr) m dt s) i a = shDof k ctr m dt s i a := by
  simp only [shDof, Phi, harmonicForce]
  field_simp
  ring

theorem shDof_iter (k : Col n ℝ) (ctr : Arr n ℝ) (m : Col n ℝ) (dt : ℝ) (hm : ∀ i, m i ≠ 0)
    (j : ℕ) (s : St n ℝ) (i : Fin n) (a : Fin 3) :
    shDof k ctr m dt ((Phi (harmonicForce k ctr) m dt)^[j] s) i a = shDof k ctr m dt s i a := by
  induction j generalizing s with
  | zero => rfl
  | succ l ih => rw [Function.iterate_succ_apply, ih, shDof_Phi _ _ _ _ _ _ _ (hm i)]

/-- pure inequality behind `dof_energy_bound` -/
theorem shadow_real_bound (K K' U U' ci c : ℝ) (hK0 : 0 ≤ K) (hK'0 : 0 ≤ K') (hU0 : 0 ≤ U) (hU'0 : 0 ≤ U')
    (hci0 : 0 ≤ ci) (hc : ci ≤ c) (hc1 : c < 1)
    (hs : K' + U' * (1 - ci) = K + U * (1 - ci)) :
    |K' + U' - (K + U)| ≤ c / (1 - c) * (K + U) := by
  have h1c : 0 < 1 - c := by linarith
  have h1ci : 0 < 1 - ci := by linarith
  rw [div_mul_eq_mul_div, le_div_iff₀ h1c]
  have hdiff : K' + U' - (K + U) = ci * (U' - U) := by linarith
  rw [hdiff, abs_mul, abs_of_nonneg hci0]
  have hUU : (1 - ci) * |U' - U| ≤ K + U := by
    have a1 : (1 - ci) * U' ≤ K + U := by nlinarith
    have a2 : (1 - ci) * U ≤ K + U := by nlinarith
    have a3 : 0 ≤ (1 - ci) * U' := by positivity
    have a4 : 0 ≤ (1 - ci) * U := by positivity
    rcases abs_cases (U' - U) with ⟨h, _⟩ | ⟨h, _⟩ <;> rw [h] <;> nlinarith
  have hD : 0 ≤ |U' - U| := abs_nonneg _
  have hE : 0 ≤ K + U := by linarith
  have key : ci * |U' - U| * (1 - c) * (1 - ci) ≤ c * (K + U) * (1 - ci) := by
    have b1 : ci * (1 - c) * ((1 - ci) * |U' - U|) ≤ ci * (1 - c) * (K + U) :=
      mul_le_mul_of_nonneg_left hUU (by positivity)
    have b2 : ci * (1 - c) * (K + U) ≤ c * (1 - ci) * (K + U) :=
      mul_le_mul_of_nonneg_right (by nlinarith) hE
    nlinarith
  exact le_of_mul_le_mul_right key h1ci

/-- two states with the same shadow energy differ in true energy by at most `c/(1−c)` times the energy -/
theorem dof_energy_bound (k : Col n ℝ) (ctr : Arr n ℝ) (m : Col n ℝ) (dt c : ℝ) (s s' : St n ℝ)
    (i : Fin n) (a : Fin 3) (hm : 0 < m i) (hk : 0 ≤ k i) (hc : k i * dt ^ 2 / (4 * m i) ≤ c) (hc1 : c < 1)
    (hsh : shDof k ctr m dt s' i a = shDof k ctr m dt s i a) :
    |eDof k ctr m s' i a - eDof k ctr m s i a| ≤ c / (1 - c) * eDof k ctr m s i a := by
  unfold shDof at hsh
  unfold eDof
  exact shadow_real_bound _ _ _ _ (k i * dt ^ 2 / (4 * m i)) c (by positivity) (by positivity)
    (by positivity) (by positivity) (by positivity) hc hc1 hsh

end Verlet

/-! ## the Hamiltonian move: which kinetic energy is stored -/

namespace Verlet
open VecFn

variable {n : ℕ}

theorem getD_zero_eq_headD {β : Type} (l : List β) (d : β) : l.getD 0 d = l.headD d := by
  cases l <;> rfl

theorem getD_succ_eq_tail {β : Type} (l : List β) (j : ℕ) (d : β) : l.getD (j + 1) d = l.tail.getD j d := by
  cases l <;> simp

/-- Successful call with `sample_momenta=True`: the call succeeded in attempt `j` (the first attempt not
    vetoed), the stored `last_kinetic_energy` is the reference carried into the call minus the kinetic energy
    the call started with plus the kinetic energy of the momenta drawn in attempt `j`, and the state is the
    trajectory started from the *old* positions with exactly those momenta. -/
theorem attemptLoop_fresh (g : HCfg n ℝ) (old : St n ℝ) (reference start : ℝ) :
    ∀ (k : ℕ) (zs : List (Arr n ℝ)) (checks : List Bool) (c c' : HCtx n ℝ), c.q = old.q →
      attemptLoop g true old reference start k zs checks c = (true, c') →
      ∃ j, j < k ∧ checks.getD j true = true ∧ (∀ l, l < j → checks.getD l true = false) ∧
        c'.lastKE = (reference - start) + ekin g.m (g.draw old.q (zs.getD j Arr.zero)) ∧
        (⟨c'.q, c'.p⟩ : St n ℝ) = g.run ⟨old.q, g.draw old.q (zs.getD j Arr.zero)⟩ := by
  intro k
  induction k with
  | zero => intro zs checks c c' _ h; simp [attemptLoop] at h
  | succ k ih =>
    intro zs checks c c' hq h
    simp only [attemptLoop, if_true, HCfg.get_drawT] at h
    by_cases hc : checks.headD true = true
    · simp only [hc, if_true, Prod.mk.injEq, true_and] at h
      refine ⟨0, Nat.succ_pos k, by rw [getD_zero_eq_headD]; exact hc, by intro l hl; omega, ?_, ?_⟩
      · rw [← h, getD_zero_eq_headD, ← hq]
      · rw [← h, getD_zero_eq_headD, ← hq]
    · simp only [hc] at h
      obtain ⟨j, hj, h1, h2, h3, h4⟩ := ih zs.tail checks.tail _ c' rfl h
      refine ⟨j + 1, by omega, by rw [getD_succ_eq_tail]; exact h1, ?_, ?_, ?_⟩
      · intro l hl
        cases l with
        | zero => rw [getD_zero_eq_headD]; simpa using hc
        | succ l' => rw [getD_succ_eq_tail]; exact h2 l' (by omega)
      · rw [getD_succ_eq_tail]; exact h3
      · rw [getD_succ_eq_tail]; exact h4

/-- a call in which every attempt is vetoed leaves positions, momenta and the kinetic reference as they were -/
theorem attemptLoop_failed (g : HCfg n ℝ) (sample : Bool) (old : St n ℝ) (reference start : ℝ) :
    ∀ (k : ℕ) (zs : List (Arr n ℝ)) (checks : List Bool) (c c' : HCtx n ℝ), c.q = old.q → c.p = old.p →
      c.lastKE = reference →
      attemptLoop g sample old reference start k zs checks c = (false, c') →
      c'.q = old.q ∧ c'.p = old.p ∧ c'.lastKE = reference := by
  intro k
  induction k with
  | zero =>
    intro zs checks c c' hq hp hk h
    simp only [attemptLoop, Prod.mk.injEq, true_and] at h; subst h; exact ⟨hq, hp, hk⟩
  | succ k ih =>
    intro zs checks c c' hq hp hk h
    simp only [attemptLoop] at h
    split at h
    · exact absurd (congrArg Prod.fst h) (by simp)
    · exact ih _ _ _ c' rfl rfl rfl h

end Verlet

namespace Verlet
open VecFn Finset
variable {n : ℕ}

/-- the modified energy `Σ p²/2m + ½ k x² (1 − (ω dt)²/4)` of the harmonic wells -/
noncomputable def shadowEnergy (k : Col n ℝ) (ctr : Arr n ℝ) (m : Col n ℝ) (dt : ℝ) (s : St n ℝ) : ℝ :=
  ∑ i, ∑ a, shDof k ctr m dt s i a

end Verlet
