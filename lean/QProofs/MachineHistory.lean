import QProofs.MachineExchSpec
import Batteries.Data.List.Perm
/-! invariants of the grand-canonical machine that survive every trial (used for the history theorems of C05) -/
namespace MM

/-- a duplicate-free list of naturals inside `[lo, hi)` has at most `hi - lo` elements -/
theorem nodup_length_le (l : List Nat) (lo hi : Nat) (hn : l.Nodup) (h : ∀ x ∈ l, lo ≤ x ∧ x < hi) :
    l.length ≤ hi - lo := by
  have hsub : l ⊆ List.range' lo (hi - lo) := by
    intro x hx
    have := h x hx
    rw [List.mem_range']
    exact ⟨x - lo, by omega, by omega⟩
  have := (List.subperm_of_subset hn hsub).length_le
  simpa using this

theorem eraseDups_of_nodup (idx : List Nat) (hn : idx.Nodup) : idx.eraseDups = idx := by
  induction idx with
  | nil => rfl
  | cons x xs ih =>
    rw [List.eraseDups_cons]
    have hx := (List.nodup_cons.mp hn)
    have : (xs.filter fun b => !b == x) = xs := by
      apply List.filter_eq_self.mpr
      intro y hy; simp; intro h; subst h; exact hx.1 hy
    rw [this, ih hx.2]

theorem split_below_above (idx : List Nat) (i : Nat) (hnot : i ∉ idx) :
    (idx.filter (fun j => decide (j < i))).length + (idx.filter (fun j => decide (i < j))).length = idx.length := by
  induction idx with
  | nil => rfl
  | cons x xs ih =>
    have hx : x ≠ i := fun h => hnot (by simp [h])
    have := ih (fun h => hnot (by simp [h]))
    by_cases hlt : x < i
    · have : ¬ i < x := by omega
      simp [List.filter_cons, hlt, this]; omega
    · have : i < x := by omega
      simp [List.filter_cons, hlt, this]; omega

/-- `FixAtoms.delete_atoms`: every surviving index is valid for the shortened atoms -/
theorem remapFixed_valid (f idx : List Nat) (n : Nat) (hfn : ∀ i ∈ f, i < n) (hn : idx.Nodup)
    (hv : ∀ i ∈ idx, i < n) :
    match remapFixed f idx with
    | none => True
    | some out => out ≠ [] ∧ ∀ j ∈ out, j + idx.length < n := by
  unfold remapFixed
  simp only []
  by_cases he : ((f.filter (fun i => !idx.contains i)).map
      (fun i => i - (idx.eraseDups.filter (· < i)).length)).isEmpty = true
  · simp only [he, if_true]
  · simp only [he, Bool.false_eq_true, if_false]
    refine ⟨by intro h; rw [h] at he; simp at he, ?_⟩
    intro j hj
    simp only [List.mem_map, List.mem_filter] at hj
    obtain ⟨i, ⟨hif, hnot⟩, rfl⟩ := hj
    have hi : i < n := hfn i hif
    have hnotmem : i ∉ idx := by simpa using hnot
    rw [eraseDups_of_nodup idx hn]
    have hlow := split_below_above idx i hnotmem
    have hhigh : (idx.filter (fun j => decide (i < j))).length ≤ n - (i + 1) := by
      apply nodup_length_le _ (i + 1) n (hn.filter _)
      intro x hx
      simp only [List.mem_filter, decide_eq_true_eq] at hx
      exact ⟨by omega, hv x hx.1⟩
    have hle : (idx.filter (fun j => decide (j < i))).length ≤ i := by
      have := nodup_length_le (idx.filter (fun j => decide (j < i))) 0 i (hn.filter _) (by
        intro x hx
        simp only [List.mem_filter, decide_eq_true_eq] at hx
        exact ⟨by omega, hx.2⟩)
      omega
    show i - (idx.filter (fun j => decide (j < i))).length + idx.length < n
    omega

/-- after `del atoms[idx]` the surviving constraint indices are still valid -/
theorem fixedOK_delete (a : AtomsS) (idx : List Nat) (hfx : FixedOK a) (hn : idx.Nodup)
    (hv : ∀ i ∈ idx, i < a.rows.length) : FixedOK (a.delete idx) := by
  have hlen : (deleteIdx a.rows idx).length + idx.length = a.rows.length := by
    have := deleteFrom_length idx hn a.rows 0 (by simpa using hv)
    have hf' : (idx.filter (fun i => decide (0 ≤ i))) = idx := by simp
    rw [hf'] at this; exact this
  unfold FixedOK at hfx ⊢
  unfold AtomsS.delete
  cases hf : a.fixed with
  | none => simp
  | some f =>
    rw [hf] at hfx
    simp only []
    have := remapFixed_valid f idx a.rows.length hfx.2 hn hv
    cases hr : remapFixed f idx with
    | none => trivial
    | some out =>
      rw [hr] at this
      exact ⟨this.1, fun j hj => by have := this.2 j hj; omega⟩

end MM
