import QProofs.MachineExchSpec
/-! `CompositeExchangeMove`: what a rejected composite insertion / deletion undoes (C03) -/
namespace MM

/-- state of the atoms while a composite insertion is in progress: the original rows are an untouched prefix, `K`
    new rows follow, and the recorded added indices are exactly those of the new rows -/
structure AddInv (a0 : AtomsS) (c0 : Ctx) (s : State) (K : Nat) : Prop where
  cell : s.atoms.cell = a0.cell
  fixed : s.atoms.fixed = a0.fixed
  take : s.atoms.rows.take a0.rows.length = a0.rows
  len : s.atoms.rows.length = a0.rows.length + K
  added : s.ctx.addedIdx = (List.range K).map (· + a0.rows.length)
  core : ctxCore { s.ctx with addedIdx := [], addedAtoms := [], addedSizes := [], delta := 0 } =
         ctxCore { c0 with addedIdx := [], addedAtoms := [], addedSizes := [], delta := 0 }
  /-- while no row has been added no particle size has been recorded -/
  sizes0 : K = 0 → s.ctx.addedSizes = c0.addedSizes
  /-- the recorded sizes account for exactly the added rows, and each recorded particle has atoms -/
  sizesSum : s.ctx.addedSizes.sum = c0.addedSizes.sum + K
  sizesPos : ∀ n ∈ s.ctx.addedSizes, n ∈ c0.addedSizes ∨ 0 < n

theorem fixedOK_of_addInv (a0 : AtomsS) (c0 : Ctx) (s : State) (K : Nat) (h : AddInv a0 c0 s K)
    (hfx : FixedOK a0) : FixedOK s.atoms := by
  unfold FixedOK at hfx ⊢
  rw [h.fixed]
  cases hf : a0.fixed with
  | none => trivial
  | some f =>
    rw [hf] at hfx
    exact ⟨hfx.1, fun i hi => by have := hfx.2 i hi; rw [h.len]; omega⟩

theorem range_shift (K k n : Nat) :
    (List.range K).map (· + n) ++ (List.range k).map (· + (n + K)) = (List.range (K + k)).map (· + n) := by
  rw [List.range_add, List.map_append, List.map_map]
  congr 1
  apply List.map_congr_left
  intro x _
  simp only [Function.comp]
  omega

theorem compExchAddLoop_inv (a0 : AtomsS) (c0 : Ctx) (hfx : FixedOK a0) (rs : List Nat) (ok : Bool) (s : State)
    (K : Nat) (h : AddInv a0 c0 s K) (hok : ok = false → K = 0) :
    ∃ K', AddInv a0 c0 (compExchAddLoop rs ok s).2 K' ∧ ((compExchAddLoop rs ok s).1 = false → K' = 0) := by
  induction rs generalizing ok s K with
  | nil => exact ⟨K, h, hok⟩
  | cons r rs ih =>
    simp only [compExchAddLoop]
    have hfs := fixedOK_of_addInv a0 c0 s K h hfx
    have hsp := attemptAddition_spec r s hfs
    rcases hadd : attemptAddition r s with ⟨idx, s1⟩
    rw [hadd] at hsp
    obtain ⟨_, hc, halt⟩ := hsp
    dsimp only at hc halt ⊢
    have hcore1 : ctxCore { s1.ctx with addedIdx := [], addedAtoms := [], addedSizes := [], delta := 0 } =
        ctxCore { c0 with addedIdx := [], addedAtoms := [], addedSizes := [], delta := 0 } := by
      rw [← h.core]
      simp only [ctxCore] at hc ⊢
      cases hs1 : s1.ctx; cases hs : s.ctx
      rw [hs1, hs] at hc
      simp only [Ctx.mk.injEq] at hc ⊢
      simp_all
    have hadded1 : s1.ctx.addedIdx = s.ctx.addedIdx := by
      have := congrArg Ctx.addedIdx hc; simpa [ctxCore] using this
    have hsizes1 : s1.ctx.addedSizes = s.ctx.addedSizes := by
      have := congrArg Ctx.addedSizes hc; simpa [ctxCore] using this
    rcases halt with ⟨hidx, hat⟩ | ⟨hidx, d, hd⟩
    · -- this member's insertion was vetoed: atoms as before
      simp only [hidx, List.isEmpty_nil, if_true]
      apply ih ok _ K _ hok
      refine ⟨?_, ?_, ?_, ?_, ?_, ?_, ?_, ?_, ?_⟩
      · show s1.atoms.cell = a0.cell; rw [hat]; exact h.cell
      · show s1.atoms.fixed = a0.fixed; rw [hat]; exact h.fixed
      · show s1.atoms.rows.take a0.rows.length = a0.rows; rw [hat]; exact h.take
      · show s1.atoms.rows.length = a0.rows.length + K; rw [hat]; exact h.len
      · show s1.ctx.addedIdx = _; rw [hadded1]; exact h.added
      · exact hcore1
      · intro hk; show s1.ctx.addedSizes = _; rw [hsizes1]; exact h.sizes0 hk
      · show s1.ctx.addedSizes.sum = _; rw [hsizes1]; exact h.sizesSum
      · show ∀ n ∈ s1.ctx.addedSizes, _; rw [hsizes1]; exact h.sizesPos
    · -- inserted `k` rows
      generalize hnew : toAddOf (s.obj r) s.ctx = new at hidx hd
      by_cases hie : idx.isEmpty = true
      · -- empty template: nothing was added
        have hk : new.length = 0 := by
          have : idx = [] := by simpa using hie
          rw [this] at hidx
          have := congrArg List.length hidx
          simpa [addMoving] using this.symm
        have hnil : new = [] := List.eq_nil_of_length_eq_zero hk
        subst hnil
        simp only [hie, if_true]
        apply ih ok _ K _ hok
        have hrows : s1.atoms.rows = s.atoms.rows := by
          rw [hd]
          apply List.ext_getElem?
          intro i
          rw [applyDisp_untouched _ _ _ _ i (by simp [addMoving])]
          simp [AtomsS.extend]
        refine ⟨?_, ?_, ?_, ?_, ?_, hcore1, ?_, ?_, ?_⟩
        · show s1.atoms.cell = a0.cell; rw [hd]; exact h.cell
        · show s1.atoms.fixed = a0.fixed; rw [hd]; exact h.fixed
        · show s1.atoms.rows.take a0.rows.length = a0.rows; rw [hrows]; exact h.take
        · show s1.atoms.rows.length = a0.rows.length + K; rw [hrows]; exact h.len
        · show s1.ctx.addedIdx = _; rw [hadded1]; exact h.added
        · intro hk; show s1.ctx.addedSizes = _; rw [hsizes1]; exact h.sizes0 hk
        · show s1.ctx.addedSizes.sum = _; rw [hsizes1]; exact h.sizesSum
        · show ∀ n ∈ s1.ctx.addedSizes, _; rw [hsizes1]; exact h.sizesPos
      · have hie' : idx.isEmpty = false := by simpa using hie
        simp only [hie', Bool.false_eq_true, if_false]
        apply ih true _ (K + new.length) _ (fun hx => by cases hx)
        have hnewpos : 0 < new.length := by
          have hl := congrArg List.length hidx
          simp only [addMoving, List.length_map, List.length_range] at hl
          cases idx with
          | nil => simp at hie
          | cons _ _ => simp at hl; omega
        have hidxlen : idx.length = new.length := by
          rw [hidx]; simp [addMoving]
        refine ⟨?_, ?_, ?_, ?_, ?_, ?_, ?_, ?_, ?_⟩
        · show s1.atoms.cell = a0.cell; rw [hd]; exact h.cell
        · show s1.atoms.fixed = a0.fixed; rw [hd]; exact h.fixed
        · show s1.atoms.rows.take a0.rows.length = a0.rows
          refine Eq.trans ?_ h.take
          apply List.ext_getElem?
          intro i
          by_cases hi : i < a0.rows.length
          · rw [List.getElem?_take_of_lt hi, List.getElem?_take_of_lt hi, hd, applyDisp_untouched]
            · have : i < s.atoms.rows.length := by rw [h.len]; omega
              simp [AtomsS.extend, List.getElem?_append_left this]
            · intro hm
              simp only [addMoving, List.mem_map, List.mem_range] at hm
              obtain ⟨x, _, hx⟩ := hm
              rw [h.len] at hx; omega
          · rw [List.getElem?_take_eq_none (by omega), List.getElem?_take_eq_none (by omega)]
        · show s1.atoms.rows.length = a0.rows.length + (K + new.length)
          rw [hd, applyDisp_length]; simp [AtomsS.extend, h.len]; omega
        · show (recordAdded s1.ctx idx s1.atoms.rows).addedIdx = _
          simp only [recordAdded, hadded1, h.added, hidx, addMoving, h.len]
          exact range_shift K new.length a0.rows.length
        · show ctxCore { (recordAdded s1.ctx idx s1.atoms.rows) with addedIdx := [], addedAtoms := [], addedSizes := [], delta := 0 } = _
          rw [← hcore1]
          simp [recordAdded, ctxCore]
        · intro hk
          exfalso
          omega
        · show (recordAdded s1.ctx idx s1.atoms.rows).addedSizes.sum = _
          simp only [recordAdded, hsizes1, List.sum_append, List.sum_cons, List.sum_nil, hidxlen, h.sizesSum]
          omega
        · show ∀ n ∈ (recordAdded s1.ctx idx s1.atoms.rows).addedSizes, _
          intro n hn
          simp only [recordAdded, hsizes1, List.mem_append, List.mem_singleton] at hn
          rcases hn with hn | hn
          · exact h.sizesPos n hn
          · right; rw [hn, hidxlen]; exact hnewpos

end MM

namespace MM

theorem atoms_of_addInv_zero (a0 : AtomsS) (c0 : Ctx) (s : State) (h : AddInv a0 c0 s 0) : s.atoms = a0 := by
  have hr : s.atoms.rows = a0.rows := by
    have := h.take
    rw [List.take_of_length_le (by rw [h.len]; omega)] at this
    exact this
  cases hs : s.atoms; cases ha : a0
  rw [hs] at hr; rw [ha] at hr
  have hc := h.cell; have hf := h.fixed
  rw [hs, ha] at hc hf
  simp_all

/-- what `revert_state` of the grand-canonical driver does after a composite insertion -/
theorem revert_of_addInv (sim : Sim) (he : sim.ens = .grand) (a0 : AtomsS) (c0 : Ctx) (s1 : State) (K : Nat)
    (h : AddInv a0 c0 s1 K) (hfx : FixedOK a0) (hdel : c0.deletedIdx = []) (hlp : c0.lastPos = positions a0.rows) :
    (revertState sim s1).atoms = a0 := by
  have hdel1 : s1.ctx.deletedIdx = [] := by
    have := congrArg Ctx.deletedIdx h.core; simp only [ctxCore] at this; rw [this, hdel]
  have hlp1 : s1.ctx.lastPos = positions a0.rows := by
    have := congrArg Ctx.lastPos h.core; simp only [ctxCore] at this; rw [this, hlp]
  have hback : (if s1.ctx.addedIdx.isEmpty then s1.atoms else s1.atoms.delete s1.ctx.addedIdx) = a0 := by
    cases K with
    | zero =>
      have := h.added; simp at this
      simp [this, atoms_of_addInv_zero a0 c0 s1 h]
    | succ k =>
      have hne : s1.ctx.addedIdx.isEmpty = false := by rw [h.added]; simp [List.range_succ]
      simp only [hne, Bool.false_eq_true, if_false]
      rw [h.added]
      exact delete_tail a0 s1.atoms (k + 1) hfx h.cell h.fixed h.take h.len
  simp only [revertState, he, hdel1, List.isEmpty_nil, if_true, hlp1]
  rw [hback]
  cases ha : a0
  simp only [AtomsS.mk.injEq, and_true]
  have := setPositions_self a0.rows
  rw [ha] at this; exact this

/-- **rejected or failed composite insertion**: every inserted particle is taken out again, the original rows,
    the cell and the constraints are exactly what they were -/
theorem compExch_insertion_not_accepted_restores (sim : Sim) (he : sim.ens = .grand) (rs : List Nat) (b : Nat)
    (s : State) (hinv : InvG s) (hadd : s.inp.draw.1 < b) :
    (trial sim (.compExch rs b) false s).2.atoms = s.atoms := by
  have h0 : AddInv s.atoms s.ctx ({ s with inp := s.inp.draw.2 } : State) 0 := by
    refine ⟨rfl, rfl, ?_, by simp, ?_, rfl, fun _ => rfl, by simp, fun n hn => .inl hn⟩
    · simp
    · simpa using hinv.noAdded
  obtain ⟨K', hK, hzero⟩ := compExchAddLoop_inv s.atoms s.ctx hinv.fixedOK rs false _ 0 h0 (fun _ => rfl)
  have hcall : callTree (.compExch rs b) s = compExchAddLoop rs false { s with inp := s.inp.draw.2 } := by
    simp only [callTree, compExchCall]
    rcases hd : s.inp.draw with ⟨d, i⟩
    rw [hd] at hadd
    simp only [] at hadd ⊢
    simp [hadd]
  simp only [trial, hcall]
  rcases hres : compExchAddLoop rs false { s with inp := s.inp.draw.2 } with ⟨ok, s1⟩
  rw [hres] at hK hzero
  simp only [] at hK hzero ⊢
  cases ok with
  | false =>
    simp only [Bool.false_eq_true, if_false]
    have := hzero rfl
    subst this
    exact atoms_of_addInv_zero _ _ _ hK
  | true =>
    simp only [if_true, Bool.false_eq_true, if_false]
    exact revert_of_addInv sim he s.atoms s.ctx s1 K' hK hinv.fixedOK hinv.noDeleted hinv.lastPos

end MM

namespace MM

/-- the deletion loop leaves atoms and context alone; on the heap it only drops the members' one-shot pre-selections
    (`to_add_atoms`, `to_delete_label`): kinds, label arrays and default labels are what they were -/
theorem compExchDelLoop_state (rs : List Nat) (labs : List Int) (idx : List Nat) (s : State) :
    (compExchDelLoop rs labs idx s).2.2.atoms = s.atoms ∧ (compExchDelLoop rs labs idx s).2.2.ctx = s.ctx ∧
    HeapStatic s.heap (compExchDelLoop rs labs idx s).2.2.heap := by
  induction rs generalizing labs idx s with
  | nil => exact ⟨rfl, rfl, HeapStatic.refl _⟩
  | cons r rs ih =>
    rw [compExchDelLoop_cons]
    have hcl : HeapStatic s.heap (clearExch s r).heap := clearExch_heap s r
    split
    · obtain ⟨h1, h2, h3⟩ := ih labs idx (clearExch s r)
      exact ⟨h1, h2, hcl.trans h3⟩
    · obtain ⟨h1, h2, h3⟩ := ih (labs ++ [(choice (setdiff (uniqueLabels (s.obj r).labels) labs) 0 s.inp).1])
        (idx ++ whereEq (s.obj r).labels (choice (setdiff (uniqueLabels (s.obj r).labels) labs) 0 s.inp).1)
        { clearExch s r with inp := (choice (setdiff (uniqueLabels (s.obj r).labels) labs) 0 s.inp).2 }
      exact ⟨h1, h2, hcl.trans h3⟩

/-- every object of the heap after the deletion loop: a member has lost both pre-selections, nothing else changed -/
theorem compExchDelLoop_obj (rs : List Nat) (labs : List Int) (idx : List Nat) (s : State) (r' : Nat) :
    (compExchDelLoop rs labs idx s).2.2.obj r' =
      if r' ∈ rs then { s.obj r' with toAdd := none, toDelete := none } else s.obj r' := by
  induction rs generalizing labs idx s with
  | nil => simp [compExchDelLoop]
  | cons r rs ih =>
    rw [compExchDelLoop_cons]
    have key : ∀ (labs' : List Int) (idx' : List Nat) (i : Inputs),
        (compExchDelLoop rs labs' idx' { clearExch s r with inp := i }).2.2.obj r' =
          if r' ∈ r :: rs then { s.obj r' with toAdd := none, toDelete := none } else s.obj r' := by
      intro labs' idx' i
      rw [ih labs' idx' { clearExch s r with inp := i }]
      have e : ({ clearExch s r with inp := i } : State).obj r' = (clearExch s r).obj r' := rfl
      rw [e, clearExch_obj]
      by_cases h1 : r' = r
      · subst h1
        by_cases h2 : r' ∈ rs <;> simp [h2]
      · by_cases h2 : r' ∈ rs <;> simp [h1, h2]
    split
    · exact key labs idx s.inp
    · exact key _ _ _

/-- the indices a composite deletion collects are pairwise distinct and valid when all members share one labelling -/
theorem compExchDelLoop_nodup (L : List Int) (rs : List Nat) (labs : List Int) (idx : List Nat) (s : State)
    (hL : ∀ r ∈ rs, (s.obj r).labels = L)
    (hn : idx.Nodup) (hlab : ∀ i ∈ idx, ∃ l ∈ labs, L[i]? = some l) :
    (compExchDelLoop rs labs idx s).2.1.Nodup ∧ ∀ i ∈ (compExchDelLoop rs labs idx s).2.1, i < L.length := by
  induction rs generalizing labs idx s with
  | nil =>
    simp only [compExchDelLoop]
    exact ⟨hn, fun i hi => by
      obtain ⟨l, _, hl⟩ := hlab i hi
      exact (List.getElem?_eq_some_iff.mp hl).1⟩
  | cons r rs ih =>
    have hLr : (s.obj r).labels = L := hL r (by simp)
    have hL' : ∀ (i : Inputs), ∀ r' ∈ rs, (({ clearExch s r with inp := i } : State).obj r').labels = L := by
      intro i r' h'
      have e : ({ clearExch s r with inp := i } : State).obj r' = (clearExch s r).obj r' := rfl
      rw [e, clearExch_obj_labels]; exact hL r' (by simp [h'])
    rw [compExchDelLoop_cons]
    split
    · exact ih labs idx (clearExch s r) (hL' s.inp) hn hlab
    · rename_i hcand
      have hne : setdiff (uniqueLabels (s.obj r).labels) labs ≠ [] := by
        intro h; rw [h] at hcand; simp at hcand
      have hmem := choice_mem _ 0 s.inp hne
      rcases hch : choice (setdiff (uniqueLabels (s.obj r).labels) labs) 0 s.inp with ⟨l, i⟩
      rw [hch] at hmem
      simp only [] at hmem ⊢
      have hlnot : l ∉ labs := by
        simp only [setdiff, List.mem_filter] at hmem
        simpa using hmem.2
      apply ih (labs ++ [l]) (idx ++ whereEq (s.obj r).labels l) { clearExch s r with inp := i }
      · exact hL' i
      · rw [List.nodup_append]
        refine ⟨hn, whereEq_nodup _ _, ?_⟩
        intro a ha b hb hab
        subst hab
        obtain ⟨l', hl', hget⟩ := hlab a ha
        have := (whereEq_mem _ _ _).1 hb
        rw [hLr, hget] at this
        cases this
        exact hlnot hl'
      · intro j hj
        rcases List.mem_append.mp hj with h | h
        · obtain ⟨l', hl', hget⟩ := hlab j h
          exact ⟨l', by simp [hl'], hget⟩
        · exact ⟨l, by simp, by rw [← hLr]; exact (whereEq_mem _ _ _).1 h⟩

/-- **rejected or failed composite deletion** (members sharing one labelling): all deleted rows come back at their
    places, with every column, and the constraints are what they were -/
theorem compExch_deletion_not_accepted_restores (sim : Sim) (he : sim.ens = .grand) (rs : List Nat) (b : Nat)
    (s : State) (hinv : InvG s) (L : List Int) (hL : ∀ r ∈ rs, (s.obj r).labels = L)
    (hlen : L.length = s.atoms.rows.length) (hdel : ¬ s.inp.draw.1 < b) :
    (trial sim (.compExch rs b) false s).2.atoms = s.atoms := by
  simp only [trial, callTree, compExchCall]
  rcases hd : s.inp.draw with ⟨d, i⟩
  rw [hd] at hdel
  simp only [] at hdel ⊢
  simp only [hdel, if_false]
  obtain ⟨ha, hc, hh⟩ := compExchDelLoop_state rs [] [] ({ s with inp := i } : State)
  have hnd := compExchDelLoop_nodup L rs [] [] ({ s with inp := i } : State)
    (fun r h => hL r h) List.nodup_nil (by simp)
  rcases hres : compExchDelLoop rs [] [] ({ s with inp := i } : State) with ⟨labs, idx, s1⟩
  rw [hres] at ha hc hh hnd
  simp only [] at ha hc hh hnd ⊢
  by_cases hie : idx.isEmpty = true
  · simp only [hie, if_true, Bool.false_eq_true, if_false]
    exact ha
  · have hie' : idx.isEmpty = false := by simpa using hie
    simp only [hie', Bool.false_eq_true, if_false, if_true]
    have hv : ∀ j ∈ idx, j < s.atoms.rows.length := by intro j hj; rw [← hlen]; exact hnd.2 j hj
    simp only [revertState, he, saveFixed, hc, ha, hinv.noSaved, hinv.noAdded, hinv.noDeletedAtoms,
      List.nil_append, List.isEmpty_nil, if_true, hie', Bool.false_eq_true, if_false, hinv.lastPos,
      Option.getD_some]
    rw [reinsert_after_delete s.atoms idx hnd.1 hv]
    cases hs : s.atoms
    simp only [AtomsS.delete, AtomsS.mk.injEq, and_true]
    have := setPositions_self s.atoms.rows
    rw [hs] at this
    simp only at this
    first | exact this | exact ⟨this, by simp⟩ | simpa using this

end MM
