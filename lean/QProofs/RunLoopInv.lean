import QProofs.RunLoop
/-!
# helper lemmas for C15 (M-machine instance): `validate_simulation` is a no-op ALONG THE RUN

`ValidateStable cfg` (QProofs/RunLoop.lean) asks that `validate` be a no-op on every state reached by steps from ANY
state `x` with `validate x = x`. For a concrete driver that is too strong (a garbage fixed point of `validate` need not
stay one); what holds is stability relative to an invariant `P k x` of the simulation state `x` when `step_count = k`
(indexed by the step counter so that `P` can talk about the trials still to be executed).

* `ValidateStableOn cfg P`  : `P` implies `validate x = x` and is preserved by every step;
* `ValidateStableUpTo cfg P N` : the same up to the horizon `step_count ≤ N` (steps `k < N` only) — the shape needed when
  `P` speaks about a finite remaining history.

`irunWith_split_on` is `irunWith_split` under `ValidateStableUpTo`; the lemmas `tick_st_stable`, `iter_st_stable` are
redone relative to `P` (`tick_P`, `iter_P`, `iter_st_on`).  A lazy driver whose yielded generators are NOT exhausted
(`consume = false`) advances `step_count` without stepping, so there `P` is not propagated; the state does not move at
all in that case and `fix` at the start state is enough (`iter_st_on`).
-/
namespace RunLoop
variable {σ : Type}

/-- `validate` does nothing on the states selected by `P`, and steps preserve `P` — for ever -/
structure ValidateStableOn (cfg : Cfg σ) (P : Nat → σ → Prop) : Prop where
  fix  : ∀ k x, P k x → cfg.validate x = x
  step : ∀ k x, P k x → P (k + 1) (cfg.stepFn k x)

/-- the same up to the horizon `N`: `fix` while `step_count ≤ N`, `step` for the steps `k < N` -/
structure ValidateStableUpTo (cfg : Cfg σ) (P : Nat → σ → Prop) (N : Nat) : Prop where
  fix  : ∀ k x, k ≤ N → P k x → cfg.validate x = x
  step : ∀ k x, k < N → P k x → P (k + 1) (cfg.stepFn k x)

theorem ValidateStableOn.upTo {cfg : Cfg σ} {P : Nat → σ → Prop} (h : ValidateStableOn cfg P) (N : Nat) :
    ValidateStableUpTo cfg P N :=
  ⟨fun k x _ => h.fix k x, fun k x _ => h.step k x⟩

theorem ValidateStableUpTo.mono {cfg : Cfg σ} {P : Nat → σ → Prop} {N M : Nat} (h : ValidateStableUpTo cfg P N)
    (hM : M ≤ N) : ValidateStableUpTo cfg P M :=
  ⟨fun k x hk => h.fix k x (by omega), fun k x hk => h.step k x (by omega)⟩

/-- the old hypothesis is the special case `P _ x := validate x = x` -/
theorem ValidateStable.on {cfg : Cfg σ} (h : ValidateStable cfg) :
    ValidateStableOn cfg (fun _ x => cfg.validate x = x) :=
  ⟨fun _ _ hx => hx, fun k x hx => h.step k x hx⟩

/-! ## `P` along the loop -/

/-- the step body is executed (eager driver, or the caller exhausts the yielded generator) -/
def Steps (cfg : Cfg σ) (c : Bool) : Prop := cfg.kind = .eager ∨ c = true

theorem tick_st_of_steps (cfg : Cfg σ) (c : Bool) (s : Sim σ) (hc : Steps cfg c) :
    (tick cfg c s).st = cfg.stepFn s.stepCount s.st := by
  unfold tick doStep
  rcases hc with hc | hc <;> simp [hc]

theorem tick_P (cfg : Cfg σ) {P : Nat → σ → Prop} {N : Nat} (hs : ValidateStableUpTo cfg P N) (c : Bool)
    (hc : Steps cfg c) (s : Sim σ) (hk : s.stepCount < N) (h : P s.stepCount s.st) :
    P (tick cfg c s).stepCount (tick cfg c s).st := by
  rw [tick_st_of_steps cfg c s hc, tick_stepCount]
  exact hs.step _ _ hk h

theorem iter_P (cfg : Cfg σ) {P : Nat → σ → Prop} {N : Nat} (hs : ValidateStableUpTo cfg P N) (c : Bool)
    (hc : Steps cfg c) (n : Nat) (s : Sim σ) (hk : s.stepCount + n ≤ N) (h : P s.stepCount s.st) :
    P (iter cfg c n s).stepCount (iter cfg c n s).st := by
  induction n generalizing s with
  | zero => exact h
  | succ n ih =>
    simp only [iter]
    exact ih _ (by simp; omega) (tick_P cfg hs c hc s (by omega) h)

/-- `iter_st_stable` relative to `P` (every driver kind, every consumer) -/
theorem iter_st_on (cfg : Cfg σ) {P : Nat → σ → Prop} {N : Nat} (hs : ValidateStableUpTo cfg P N) (c : Bool)
    (n : Nat) (s : Sim σ) (hk : s.stepCount + n ≤ N) (h : P s.stepCount s.st) :
    cfg.validate (iter cfg c n s).st = (iter cfg c n s).st := by
  by_cases hc : Steps cfg c
  · exact hs.fix _ _ (by simp; omega) (iter_P cfg hs c hc n s hk h)
  · have hk' : cfg.kind = .lazy := by
      cases hkd : cfg.kind with
      | lazy => rfl
      | eager => exact absurd (Or.inl hkd) hc
    have hc' : c = false := by
      cases c with
      | false => rfl
      | true => exact absurd (Or.inr rfl) hc
    subst hc'
    rw [(iter_unconsumed cfg n s hk').2]
    exact hs.fix _ _ (by omega) h

/-! ## the splitting lemma relative to `P` -/

/-- `irunWith_split` with `ValidateStable` replaced by stability along the run: `P` holds of the validated start
    state, and the horizon covers the first segment -/
theorem irunWith_split_on (cfg : Cfg σ) {P : Nat → σ → Prop} {N : Nat} (hs : ValidateStableUpTo cfg P N) (c : Bool)
    (a b : Nat) (s : Sim σ) (hN : s.stepCount + a ≤ N) (hP : P s.stepCount (cfg.validate s.st))
    (hp : Past cfg (stepZero cfg (setMax (s.stepCount + (a + b)) (validateSim cfg s))) ∨ 0 < a ∧ cfg.variant = .coded) :
    irunWith cfg c b (irunWith cfg c a s) = irunWith cfg c (a + b) s := by
  rw [irunWith_eq cfg c (a + b) s, iter_add, irunWith_eq cfg c a s]
  generalize hx : validateSim cfg s = x at hp
  have hxc : x.stepCount = s.stepCount := by rw [← hx]; rfl
  have hxP : P x.stepCount x.st := by rw [← hx]; exact hP
  have hyc : (iter cfg c a (stepZero cfg (setMax (s.stepCount + a) x))).stepCount = s.stepCount + a := by
    simp [setMax, hxc]
  have hyst : cfg.validate (iter cfg c a (stepZero cfg (setMax (s.stepCount + a) x))).st
      = (iter cfg c a (stepZero cfg (setMax (s.stepCount + a) x))).st := by
    apply iter_st_on cfg hs
    · simp [setMax, hxc]; exact hN
    · simpa [setMax] using hxP
  have hm : setMax (s.stepCount + a + b) (iter cfg c a (stepZero cfg (setMax (s.stepCount + a) x)))
      = iter cfg c a (stepZero cfg (setMax (s.stepCount + a + b) x)) := by
    rw [← iter_setMax, ← stepZero_setMax, setMax_setMax]
  have hpast : Past cfg (iter cfg c a (stepZero cfg (setMax (s.stepCount + a + b) x))) := by
    rcases hp with hp | ⟨ha, hv⟩
    · apply past_iter; rw [Nat.add_assoc]; exact hp
    · unfold Past; simp only [hv]; simp [setMax, hxc]; omega
  rw [irunWith_eq cfg c b, validateSim_of_stable cfg _ hyst, hyc, hm, stepZero_of_past cfg _ hpast,
    Nat.add_assoc]

/-! ## `P` after a whole `irun` / `run` -/

theorem irunWith_stepCount (cfg : Cfg σ) (c : Bool) (n : Nat) (s : Sim σ) :
    (irunWith cfg c n s).stepCount = s.stepCount + n := by
  rw [irunWith_eq]; simp [setMax, validateSim]

theorem run_stepCount (cfg : Cfg σ) (n : Nat) (s : Sim σ) : (run cfg n s).stepCount = s.stepCount + n := by
  unfold run; cases cfg.kind <;> exact irunWith_stepCount cfg _ n s

/-- after an `irun` whose step bodies are executed, `P` holds of the state reached -/
theorem irunWith_P (cfg : Cfg σ) {P : Nat → σ → Prop} {N : Nat} (hs : ValidateStableUpTo cfg P N) (c : Bool)
    (hc : Steps cfg c) (n : Nat) (s : Sim σ) (hN : s.stepCount + n ≤ N) (hP : P s.stepCount (cfg.validate s.st)) :
    P (s.stepCount + n) (irunWith cfg c n s).st := by
  have h := iter_P cfg hs c hc n (stepZero cfg (setMax (s.stepCount + n) (validateSim cfg s)))
    (by simp [setMax, validateSim]; exact hN) (by simpa [setMax, validateSim] using hP)
  rw [← irunWith_eq, irunWith_stepCount] at h
  exact h

theorem run_P (cfg : Cfg σ) {P : Nat → σ → Prop} {N : Nat} (hs : ValidateStableUpTo cfg P N)
    (n : Nat) (s : Sim σ) (hN : s.stepCount + n ≤ N) (hP : P s.stepCount (cfg.validate s.st)) :
    P (s.stepCount + n) (run cfg n s).st := by
  unfold run
  cases hk : cfg.kind
  · exact irunWith_P cfg hs false (Or.inl hk) n s hN hP
  · exact irunWith_P cfg hs true (Or.inr rfl) n s hN hP

/-- … and `validate` is a no-op on it, so the next `run` starts from a `P`-state again -/
theorem run_P_validate (cfg : Cfg σ) {P : Nat → σ → Prop} {N : Nat} (hs : ValidateStableUpTo cfg P N)
    (n : Nat) (s : Sim σ) (hN : s.stepCount + n ≤ N) (hP : P s.stepCount (cfg.validate s.st)) :
    P (run cfg n s).stepCount (cfg.validate (run cfg n s).st) := by
  have h := run_P cfg hs n s hN hP
  rw [run_stepCount, hs.fix _ _ hN h]
  exact h

/-! ## the state reached by `n` executed steps -/

/-- `n` steps from state `x` at `step_count = k` -/
def stepsFrom (cfg : Cfg σ) : Nat → Nat → σ → σ
  | _, 0, x => x
  | k, n + 1, x => stepsFrom cfg (k + 1) n (cfg.stepFn k x)

theorem iter_st_steps (cfg : Cfg σ) (c : Bool) (hc : Steps cfg c) (n : Nat) (s : Sim σ) :
    (iter cfg c n s).st = stepsFrom cfg s.stepCount n s.st := by
  induction n generalizing s with
  | zero => rfl
  | succ n ih =>
    simp only [iter, stepsFrom]
    rw [ih, tick_st_of_steps cfg c s hc, tick_stepCount]

/-- the simulation state after `run n`: validate, then `n` steps -/
theorem run_st (cfg : Cfg σ) (n : Nat) (s : Sim σ) :
    (run cfg n s).st = stepsFrom cfg s.stepCount n (cfg.validate s.st) := by
  have key : ∀ c, Steps cfg c → (irunWith cfg c n s).st = stepsFrom cfg s.stepCount n (cfg.validate s.st) := by
    intro c hc
    rw [irunWith_eq, iter_st_steps cfg c hc]
    simp [setMax, validateSim]
  unfold run
  cases hk : cfg.kind
  · exact key false (Or.inl hk)
  · exact key true (Or.inr rfl)

end RunLoop
