import QModel.Calc
import QProofs.MachineExchSpec
/-! the calculator layer: cached results are only ever returned for the configuration they were computed for -/
namespace MC
open MM

/-- every cached result belongs to the stored snapshot -/
def Valid (c : CalcS) : Prop := ∀ e, c.results = some e → ∃ sn, c.snap = some sn ∧ e = energy sn

/-- the calculator is synchronised with the atoms `a`: its snapshot agrees with `a` on everything ASE compares and its
    cached energy is that of `a` -/
def Fresh (c : CalcS) (a : AtomsS) : Prop :=
  c.results = some (energy a) ∧ ∃ sn, c.snap = some sn ∧ changes (some sn) a = (false, false)

theorem energy_congr (sn a : AtomsS) (hp : positions sn.rows = positions a.rows) (hc : sn.cell = a.cell) :
    energy sn = energy a := by
  unfold energy
  have : sn.rows.map (fun r => r.pos.1 * r.pos.1 + r.pos.2.1 * r.pos.2.1 + r.pos.2.2 * r.pos.2.2)
       = a.rows.map (fun r => r.pos.1 * r.pos.1 + r.pos.2.1 * r.pos.2.1 + r.pos.2.2 * r.pos.2.2) := by
    have h1 : ∀ l : List Row, l.map (fun r => r.pos.1 * r.pos.1 + r.pos.2.1 * r.pos.2.1 + r.pos.2.2 * r.pos.2.2)
        = (positions l).map (fun p => p.1 * p.1 + p.2.1 * p.2.1 + p.2.2 * p.2.2) := by
      intro l; simp [positions, List.map_map, Function.comp_def]
    rw [h1, h1, hp]
  rw [this, hc]

theorem unchanged_spec (sn a : AtomsS) (h : (changes (some sn) a).1 = false) :
    positions sn.rows = positions a.rows ∧ sn.cell = a.cell ∧ (changes (some sn) a) = (false, false) := by
  unfold changes at h ⊢
  simp only [] at h ⊢
  split at h
  · simp at h
  · simp only [Bool.or_eq_false_iff, decide_eq_false_iff_not, ne_eq, Decidable.not_not] at h
    obtain ⟨⟨⟨hp, hn⟩, hc⟩, ha⟩ := h
    refine ⟨hp, hc, ?_⟩
    rename_i hl
    simp [hl, hp, hn, hc, ha]

theorem changes_self (a : AtomsS) : changes (some a) a = (false, false) := by
  simp [changes]

/-- **no cross attribution**: `get_potential_energy()` returns the energy of the atoms it is asked about, whatever the
    (valid) state of the cache, and leaves the calculator synchronised with them -/
theorem getEnergy_spec (c : CalcS) (a : AtomsS) (hv : Valid c) :
    (getEnergy c a).1 = energy a ∧ Fresh (getEnergy c a).2 a ∧ Valid (getEnergy c a).2 ∧
    (getEnergy c a).2.evals ≤ c.evals + 1 ∧ (getEnergy c a).2.style = c.style := by
  unfold getEnergy
  simp only []
  generalize hch : (if c.style = .stateless then (true, true) else changes c.snap a) = ch
  by_cases h1 : ch.1 = true
  · -- reset, then calculate
    simp only [h1, if_true]
    refine ⟨by first | rfl | trivial, ⟨by first | rfl | trivial, a, by first | rfl | trivial, changes_self a⟩, ?_,
      by first | exact Nat.le_refl _ | trivial, by first | rfl | trivial⟩
    intro e he; exact ⟨a, rfl, by simpa using he.symm⟩
  · have h1' : ch.1 = false := by simpa using h1
    simp only [h1', Bool.false_eq_true, if_false]
    have hns : ¬ c.style = .stateless := by
      intro hs; rw [hs] at hch; simp at hch; rw [← hch] at h1'; simp at h1'
    simp only [hns, if_false] at hch
    cases hr : c.results with
    | some e =>
      simp only []
      obtain ⟨sn, hsn, he⟩ := hv e hr
      rw [hsn] at hch
      have hu := unchanged_spec sn a (by rw [hch]; exact h1')
      have hee : e = energy a := by rw [he]; exact energy_congr sn a hu.1 hu.2.1
      exact ⟨hee, ⟨by rw [hr, hee], sn, hsn, hu.2.2⟩, hv, Nat.le_succ _, by first | rfl | trivial⟩
    | none =>
      simp only []
      refine ⟨by first | rfl | trivial, ⟨by first | rfl | trivial, a, by first | rfl | trivial, changes_self a⟩, ?_,
        by first | exact Nat.le_refl _ | trivial, by first | rfl | trivial⟩
      intro e he; exact ⟨a, rfl, by simpa using he.symm⟩

/-- a synchronised result-caching calculator answers for free -/
theorem getEnergy_free (c : CalcS) (a : AtomsS) (hs : c.style ≠ .stateless) (hf : Fresh c a) :
    (getEnergy c a).2 = c ∧ (getEnergy c a).1 = energy a := by
  obtain ⟨hr, sn, hsn, hch⟩ := hf
  unfold getEnergy
  simp [hs, hsn, hch, hr]

theorem fresh_valid (c : CalcS) (a : AtomsS) (hf : Fresh c a) : Valid c := by
  obtain ⟨hr, sn, hsn, hch⟩ := hf
  intro e he
  have hu := unchanged_spec sn a (by rw [hch])
  rw [hr] at he
  exact ⟨sn, hsn, by cases he; exact (energy_congr sn a hu.1 hu.2.1).symm⟩

theorem fresh_congr (c : CalcS) (a a' : AtomsS) (h : a' = a) (hf : Fresh c a) : Fresh c a' := by rw [h]; exact hf

theorem saveState_atoms (sim : Sim) (s : State) : (saveState sim s).atoms = s.atoms := by
  unfold saveState
  cases sim.ens <;> simp [ctxSave]

/-- the snapshot of `s1` with the positions (and optionally the cell) of `a` agrees with `a` on everything ASE compares,
    whenever `a` and `s1` carry the same atoms (same `aux` columns; same cell unless the cell is overwritten too) -/
theorem snapshot_resync (sn a s1 : AtomsS) (newcell : V3) (hnc : newcell = a.cell)
    (haux1 : s1.rows.map (·.aux) = a.rows.map (·.aux))
    (hch : changes (some sn) s1 = (false, false)) :
    changes (some { sn with rows := setPositions sn.rows (positions a.rows), cell := newcell }) a = (false, false) := by
  have hu := unchanged_spec sn s1 (by rw [hch])
  have hlen : sn.rows.length = a.rows.length := by
    have h1 := congrArg List.length hu.1
    have h2 := congrArg List.length haux1
    simp [positions] at h1 h2; omega
  have hch' := hch
  unfold changes at hch' ⊢
  simp only [] at hch' ⊢
  split at hch'
  · simp at hch'
  · simp only [Prod.mk.injEq, Bool.or_eq_false_iff, decide_eq_false_iff_not, ne_eq, Decidable.not_not] at hch'
    obtain ⟨⟨⟨⟨_, hnum⟩, hcell⟩, haux⟩, _⟩ := hch'
    have hlen' : (setPositions sn.rows (positions a.rows)).length = a.rows.length := by
      simp [setPositions, positions, hlen]
    have hpos' : positions (setPositions sn.rows (positions a.rows)) = positions a.rows := by
      apply List.ext_getElem?
      intro i
      simp only [positions, setPositions, List.getElem?_map, List.getElem?_zipWith]
      cases h1 : sn.rows[i]? <;> cases h2 : a.rows[i]? <;> simp
      · have := List.getElem?_eq_none_iff.mp h1
        have := (List.getElem?_eq_some_iff.mp h2).1
        omega
    have hauxS : (setPositions sn.rows (positions a.rows)).map (·.aux) = sn.rows.map (·.aux) := by
      apply List.ext_getElem?
      intro i
      simp only [setPositions, positions, List.getElem?_map, List.getElem?_zipWith]
      cases h1 : sn.rows[i]? <;> cases h2 : a.rows[i]? <;> simp
      · have := List.getElem?_eq_none_iff.mp h2
        have := (List.getElem?_eq_some_iff.mp h1).1
        omega
    have hnumS : ∀ cl fx, numbersOf { rows := setPositions sn.rows (positions a.rows), cell := cl, fixed := fx }
        = numbersOf a := by
      intro cl fx
      have e1 : ∀ x : AtomsS, numbersOf x = (x.rows.map (·.aux)).map (fun l => l.headD 0) := by
        intro x; simp [numbersOf, List.map_map, Function.comp_def]
      rw [e1, e1]; simp only []; rw [hauxS, haux, haux1]
    simp [hlen', hpos', hnumS, hnc, hauxS, haux, haux1]

/-- after `revert_state` the calculator is synchronised with the restored atoms (canonical / Hamiltonian driver):
    the trial configuration differs from the restored one in positions (and momenta, which ASE does not compare) only -/
theorem revertCalc_fresh_aux (ens : Ensemble) (he : ens = .canonical ∨ ens = .hamiltonian) (c : CalcS) (a s1 : AtomsS)
    (haux : AuxOnly a s1) (hf : Fresh c s1) :
    Fresh (revertCalc ens c (some (energy a)) a) a := by
  obtain ⟨_, sn, hsn, hch⟩ := hf
  have hu := unchanged_spec sn s1 (by rw [hch])
  have hcell : sn.cell = a.cell := by rw [hu.2.1, haux.1]
  have := snapshot_resync sn a s1 sn.cell hcell haux.2.2 hch
  rcases he with rfl | rfl
  · exact ⟨rfl, _, by simp [revertCalc, hsn], this⟩
  · exact ⟨rfl, _, by simp [revertCalc, hsn], this⟩

theorem revertCalc_fresh_pos (c : CalcS) (a s1 : AtomsS) (hpos : PosOnly a s1) (hf : Fresh c s1) :
    Fresh (revertCalc .canonical c (some (energy a)) a) a :=
  revertCalc_fresh_aux .canonical (Or.inl rfl) c a s1 hpos.auxOnly hf

/-- isobaric / isotension driver: positions **and cell** of the calculator's snapshot are overwritten -/
theorem revertCalc_fresh_strip (c : CalcS) (a s1 : AtomsS) (hs : StripOnly a s1) (hf : Fresh c s1) :
    Fresh (revertCalc .isobaric c (some (energy a)) a) a := by
  obtain ⟨_, sn, hsn, hch⟩ := hf
  have haux1 : s1.rows.map (·.aux) = a.rows.map (·.aux) := by
    have := congrArg (List.map Prod.snd) hs.2
    simpa [strip, Function.comp_def] using this
  have := snapshot_resync sn a s1 a.cell rfl haux1 hch
  exact ⟨rfl, _, by simp [revertCalc, hsn], this⟩

end MC
