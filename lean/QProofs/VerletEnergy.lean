import QProofs.Verlet
import Mathlib.Analysis.Calculus.MeanValue
import Mathlib.Analysis.Calculus.Deriv.Pow
import Mathlib.Analysis.Calculus.Deriv.Mul
import Mathlib.Analysis.Calculus.Deriv.Add
import Mathlib.Analysis.Calculus.Deriv.Comp
import Mathlib.Analysis.Calculus.ContDiff.Basic
import Mathlib.Analysis.Calculus.ContDiff.Deriv
import Mathlib.Tactic

/-! Helper lemmas for C14g: local and global energy error of velocity Verlet for general `C³` potentials.

* Taylor estimates on `[0,1]` from a chain of pointwise derivatives (`taylor_lip`, `taylor_two`,
  `taylor_three`) and the trapezoid estimate `trapezoid_bound`;
* the one-degree-of-freedom velocity-Verlet map `phi1`, its energy `H1`, the exact energy-difference
  identity and the local bound `phi1_energy_local`;
* telescoping over a trajectory (`phi1_energy_global`);
* the project's `Phi` for a component-wise (separable) force is `phi1` in every coordinate
  (`Phi_sep_coord`, `Phi_sep_energy_global`); bounds for `ContDiff ℝ 3` functions on bounded intervals;
* quartic wells (`quartic_smoothOn`, `quarticForce_eq_sepForce`);
* general potentials on `Arr n ℝ`: hypotheses along segments (`LineSmooth`), exact energy identity
  `Phi_energy_identity`, `Phi_energy_local`, `Phi_energy_global`; Fréchet-`C³` potentials satisfy
  `LineSmooth` (`lineSmooth_of_contDiffAt`); `negGrad`, bounds on balls. -/

namespace Verlet
namespace Energy
open Set

/-! ## calculus on `[0,1]` -/

/-- fencing: `f 0 = 0`, `|f'| ≤ C t^k` on `[0,1]` ⇒ `|f x| ≤ C x^(k+1)/(k+1)` on `[0,1]` -/
theorem abs_le_of_deriv_le_pow {f f' : ℝ → ℝ} {C : ℝ} (k : ℕ)
    (hf : ∀ t ∈ Icc (0 : ℝ) 1, HasDerivAt f (f' t) t) (h0 : f 0 = 0)
    (hb : ∀ t ∈ Icc (0 : ℝ) 1, |f' t| ≤ C * t ^ k) :
    ∀ x ∈ Icc (0 : ℝ) 1, |f x| ≤ C * x ^ (k + 1) / (k + 1) := by
  have hB : ∀ x : ℝ, HasDerivAt (fun x : ℝ => C * x ^ (k + 1) / (k + 1)) (C * x ^ k) x := by
    intro x
    have h := ((hasDerivAt_pow (k + 1) x).const_mul C).div_const ((k : ℝ) + 1)
    have hk : ((k : ℝ) + 1) ≠ 0 := by positivity
    refine h.congr_deriv ?_
    rw [Nat.add_sub_cancel, Nat.cast_add, Nat.cast_one]
    field_simp
  have key := image_norm_le_of_norm_deriv_right_le_deriv_boundary (f := f) (f' := f') (a := 0) (b := 1)
    (fun t ht => (hf t ht).continuousAt.continuousWithinAt)
    (fun t ht => (hf t (Ico_subset_Icc_self ht)).hasDerivWithinAt)
    (B := fun x : ℝ => C * x ^ (k + 1) / (k + 1)) (B' := fun x : ℝ => C * x ^ k)
    (by simp [h0]) hB
    (fun t ht => by simpa using hb t (Ico_subset_Icc_self ht))
  intro x hx
  simpa using key hx

/-- first order: `|f'| ≤ M` on `[0,1]` ⇒ `|f x − f 0| ≤ M x` -/
theorem taylor_lip {f f1 : ℝ → ℝ} {M : ℝ}
    (hf : ∀ t ∈ Icc (0 : ℝ) 1, HasDerivAt f (f1 t) t)
    (hM : ∀ t ∈ Icc (0 : ℝ) 1, |f1 t| ≤ M) :
    ∀ x ∈ Icc (0 : ℝ) 1, |f x - f 0| ≤ M * x := by
  have h := abs_le_of_deriv_le_pow (f := fun t => f t - f 0) (f' := f1) (C := M) 0
    (fun t ht => (hf t ht).sub_const (f 0)) (by simp) (fun t ht => by simpa using hM t ht)
  intro x hx
  simpa using h x hx

/-- second order: `|f''| ≤ M` on `[0,1]` ⇒ `|f x − f 0 − f' 0 x| ≤ M x²/2` -/
theorem taylor_two {f f1 f2 : ℝ → ℝ} {M : ℝ}
    (hf : ∀ t ∈ Icc (0 : ℝ) 1, HasDerivAt f (f1 t) t)
    (hf1 : ∀ t ∈ Icc (0 : ℝ) 1, HasDerivAt f1 (f2 t) t)
    (hM : ∀ t ∈ Icc (0 : ℝ) 1, |f2 t| ≤ M) :
    ∀ x ∈ Icc (0 : ℝ) 1, |f x - f 0 - f1 0 * x| ≤ M * x ^ 2 / 2 := by
  have hd : ∀ t ∈ Icc (0 : ℝ) 1,
      HasDerivAt (fun t => f t - f 0 - f1 0 * t) (f1 t - f1 0) t := by
    intro t ht
    exact (((hf t ht).sub_const (f 0)).sub ((hasDerivAt_id' t).const_mul (f1 0))).congr_deriv
      (by ring)
  have h := abs_le_of_deriv_le_pow (C := M) 1 hd (by simp)
    (fun t ht => by simpa using taylor_lip hf1 hM t ht)
  intro x hx
  have := h x hx
  norm_num at this
  exact this

/-- third order: `|f'''| ≤ M` on `[0,1]` ⇒ `|f x − f 0 − f' 0 x − f'' 0 x²/2| ≤ M x³/6` -/
theorem taylor_three {f f1 f2 f3 : ℝ → ℝ} {M : ℝ}
    (hf : ∀ t ∈ Icc (0 : ℝ) 1, HasDerivAt f (f1 t) t)
    (hf1 : ∀ t ∈ Icc (0 : ℝ) 1, HasDerivAt f1 (f2 t) t)
    (hf2 : ∀ t ∈ Icc (0 : ℝ) 1, HasDerivAt f2 (f3 t) t)
    (hM : ∀ t ∈ Icc (0 : ℝ) 1, |f3 t| ≤ M) :
    ∀ x ∈ Icc (0 : ℝ) 1, |f x - f 0 - f1 0 * x - f2 0 * x ^ 2 / 2| ≤ M * x ^ 3 / 6 := by
  have hd : ∀ t ∈ Icc (0 : ℝ) 1,
      HasDerivAt (fun t => f t - f 0 - f1 0 * t - f2 0 * t ^ 2 / 2) (f1 t - f1 0 - f2 0 * t) t := by
    intro t ht
    refine ((((hf t ht).sub_const (f 0)).sub ((hasDerivAt_id' t).const_mul (f1 0))).sub
      (((hasDerivAt_pow 2 t).const_mul (f2 0)).div_const 2)).congr_deriv ?_
    norm_num
    ring
  have h := abs_le_of_deriv_le_pow (C := M / 2) 2 hd (by simp)
    (fun t ht => by
      have := taylor_two hf1 hf2 hM t ht
      calc |f1 t - f1 0 - f2 0 * t| ≤ M * t ^ 2 / 2 := this
        _ = M / 2 * t ^ 2 := by ring)
  intro x hx
  have := h x hx
  norm_num at this
  calc |f x - f 0 - f1 0 * x - f2 0 * x ^ 2 / 2| ≤ M / 2 * x ^ 3 / 3 := this
    _ = M * x ^ 3 / 6 := by ring

/-- trapezoid rule on `[0,1]`: `|g 1 − g 0 − (g' 0 + g' 1)/2| ≤ 5M/12` when `|g'''| ≤ M` -/
theorem trapezoid_bound {g g1 g2 g3 : ℝ → ℝ} {M : ℝ}
    (hg : ∀ t ∈ Icc (0 : ℝ) 1, HasDerivAt g (g1 t) t)
    (hg1 : ∀ t ∈ Icc (0 : ℝ) 1, HasDerivAt g1 (g2 t) t)
    (hg2 : ∀ t ∈ Icc (0 : ℝ) 1, HasDerivAt g2 (g3 t) t)
    (hM : ∀ t ∈ Icc (0 : ℝ) 1, |g3 t| ≤ M) :
    |g 1 - g 0 - (g1 0 + g1 1) / 2| ≤ 5 / 12 * M := by
  have h1 : (1 : ℝ) ∈ Icc (0 : ℝ) 1 := ⟨zero_le_one, le_refl _⟩
  have a := taylor_three hg hg1 hg2 hM 1 h1
  have b := taylor_two hg1 hg2 hM 1 h1
  have e : g 1 - g 0 - (g1 0 + g1 1) / 2
      = (g 1 - g 0 - g1 0 * 1 - g2 0 * 1 ^ 2 / 2) - (g1 1 - g1 0 - g2 0 * 1) / 2 := by ring
  rw [e]
  have := abs_sub (g 1 - g 0 - g1 0 * 1 - g2 0 * 1 ^ 2 / 2) ((g1 1 - g1 0 - g2 0 * 1) / 2)
  rw [abs_div, abs_two] at this
  linarith

/-- derivative of `t ↦ u (q + t h) · c` -/
theorem hasDerivAt_line {u : ℝ → ℝ} {u' : ℝ} (q h c t : ℝ) (hu : HasDerivAt u u' (q + t * h)) :
    HasDerivAt (fun t => u (q + t * h) * c) (u' * (h * c)) t := by
  have hin : HasDerivAt (fun t : ℝ => q + t * h) h t := by
    simpa using ((hasDerivAt_id' t).mul_const h).const_add q
  have := (HasDerivAt.comp t hu hin).mul_const c
  refine this.congr_deriv ?_
  ring

/-- points of the segment `q, q + h` lie in a convex set containing the end points -/
theorem line_mem {S : Set ℝ} (hS : Convex ℝ S) {q h : ℝ} (hq : q ∈ S) (hq' : q + h ∈ S)
    {t : ℝ} (ht : t ∈ Icc (0 : ℝ) 1) : q + t * h ∈ S := by
  have := hS hq hq' (sub_nonneg.2 ht.2) ht.1 (by ring)
  have e : (1 - t) • q + t • (q + h) = q + t * h := by simp only [smul_eq_mul]; ring
  rwa [e] at this

/-! ## one degree of freedom -/

/-- one velocity-Verlet step of one degree of freedom, written as `Phi` writes it -/
noncomputable def phi1 (f : ℝ → ℝ) (m dt : ℝ) (s : ℝ × ℝ) : ℝ × ℝ :=
  (s.1 + (s.2 + 1 / 2 * f s.1 * dt) / m * dt,
   s.2 + 1 / 2 * f s.1 * dt + 1 / 2 * f (s.1 + (s.2 + 1 / 2 * f s.1 * dt) / m * dt) * dt)

/-- energy of one degree of freedom `p²/2m + v(q)` -/
noncomputable def H1 (v : ℝ → ℝ) (m : ℝ) (s : ℝ × ℝ) : ℝ := s.2 ^ 2 / (2 * m) + v s.1

/-- the explicit local error constant: `B = (P + τ G/2)/m` bounds `|q' − q|/|dt|` -/
noncomputable def Cerr (m L2 L3 P G τ : ℝ) : ℝ :=
  5 / 12 * L3 * ((P + τ * G / 2) / m) ^ 3
    + L2 * ((P + τ * G / 2) / m) * (2 * G + τ * L2 * ((P + τ * G / 2) / m)) / (8 * m)

/-- exact energy difference of one step: trapezoid defect of `v` along the step plus a force term -/
theorem phi1_energy_identity (v v1 : ℝ → ℝ) (m dt : ℝ) (hm : m ≠ 0) (s : ℝ × ℝ) :
    H1 v m (phi1 (fun x => -v1 x) m dt s) - H1 v m s
      = (v (phi1 (fun x => -v1 x) m dt s).1 - v s.1
          - (v1 s.1 * ((phi1 (fun x => -v1 x) m dt s).1 - s.1)
              + v1 (phi1 (fun x => -v1 x) m dt s).1 * ((phi1 (fun x => -v1 x) m dt s).1 - s.1)) / 2)
        + dt ^ 2 * (v1 (phi1 (fun x => -v1 x) m dt s).1 ^ 2 - v1 s.1 ^ 2) / (8 * m) := by
  simp only [H1, phi1]
  generalize v1 (s.1 + (s.2 + 1 / 2 * -v1 s.1 * dt) / m * dt) = a'
  generalize v (s.1 + (s.2 + 1 / 2 * -v1 s.1 * dt) / m * dt) = w'
  field_simp
  ring

/-- size of one position step: `|q' − q| ≤ |dt| (P + τ G/2)/m` -/
theorem step_size_bound {m P G τ dt p a h : ℝ} (hm : 0 < m) (hp : |p| ≤ P) (ha : |a| ≤ G)
    (hdt : |dt| ≤ τ) (hh : h = (p + 1 / 2 * -a * dt) / m * dt) :
    |h| ≤ |dt| * ((P + τ * G / 2) / m) := by
  have hG0 : 0 ≤ G := le_trans (abs_nonneg _) ha
  have hd0 : 0 ≤ |dt| := abs_nonneg _
  have h1 : |p + 1 / 2 * -a * dt| ≤ P + τ * G / 2 := by
    have e : |1 / 2 * -a * dt| = |a| * |dt| / 2 := by
      rw [abs_mul, abs_mul, abs_neg]
      rw [abs_of_pos (by norm_num : (0 : ℝ) < 1 / 2)]
      ring
    have h2 : |a| * |dt| ≤ G * τ := mul_le_mul ha hdt hd0 hG0
    have := abs_add_le p (1 / 2 * -a * dt)
    linarith
  rw [hh, abs_mul, abs_div, abs_of_pos hm]
  have : |p + 1 / 2 * -a * dt| / m ≤ (P + τ * G / 2) / m := div_le_div_of_nonneg_right h1 hm.le
  calc |p + 1 / 2 * -a * dt| / m * |dt| ≤ (P + τ * G / 2) / m * |dt| :=
        mul_le_mul_of_nonneg_right this hd0
    _ = |dt| * ((P + τ * G / 2) / m) := by ring

/-- assembling the two parts of the local error (`a = v'(q)`, `a' = v'(q')`, `Tz` the trapezoid defect) -/
theorem local_assemble {m L2 L3 P G τ dt p a a' h Tz : ℝ} (hm : 0 < m) (hL2 : 0 ≤ L2) (hL3 : 0 ≤ L3)
    (hp : |p| ≤ P) (ha : |a| ≤ G) (hdt : |dt| ≤ τ)
    (hh : h = (p + 1 / 2 * -a * dt) / m * dt)
    (hT : |Tz| ≤ 5 / 12 * (L3 * |h| ^ 3)) (hlip : |a' - a| ≤ L2 * |h|) :
    |Tz + dt ^ 2 * (a' ^ 2 - a ^ 2) / (8 * m)| ≤ |dt| ^ 3 * Cerr m L2 L3 P G τ := by
  have hP0 : 0 ≤ P := le_trans (abs_nonneg _) hp
  have hG0 : 0 ≤ G := le_trans (abs_nonneg _) ha
  have hd0 : 0 ≤ |dt| := abs_nonneg _
  have hτ0 : 0 ≤ τ := le_trans hd0 hdt
  have hx0 : 0 ≤ |h| := abs_nonneg _
  set B := (P + τ * G / 2) / m with hB
  have hB0 : 0 ≤ B := div_nonneg (add_nonneg hP0 (by positivity)) hm.le
  have hx : |h| ≤ |dt| * B := step_size_bound hm hp ha hdt hh
  -- first part
  have t1 : |Tz| ≤ 5 / 12 * (L3 * (|dt| * B) ^ 3) := by
    refine le_trans hT ?_
    have : |h| ^ 3 ≤ (|dt| * B) ^ 3 := pow_le_pow_left₀ hx0 hx 3
    have := mul_le_mul_of_nonneg_left this hL3
    linarith
  -- second part
  have hsum : |a' + a| ≤ 2 * G + τ * L2 * B := by
    have e : a' + a = (a' - a) + 2 * a := by ring
    have h1 := abs_add_le (a' - a) (2 * a)
    rw [← e, abs_mul, abs_two] at h1
    have h2 : L2 * |h| ≤ L2 * (|dt| * B) := mul_le_mul_of_nonneg_left hx hL2
    have h3 : L2 * (|dt| * B) ≤ L2 * (τ * B) :=
      mul_le_mul_of_nonneg_left (mul_le_mul_of_nonneg_right hdt hB0) hL2
    have e2 : L2 * (τ * B) = τ * L2 * B := by ring
    linarith
  have hdiff : |a' - a| ≤ L2 * (|dt| * B) :=
    le_trans hlip (mul_le_mul_of_nonneg_left hx hL2)
  have t2 : |dt ^ 2 * (a' ^ 2 - a ^ 2) / (8 * m)|
      ≤ |dt| ^ 2 * ((L2 * (|dt| * B)) * (2 * G + τ * L2 * B)) / (8 * m) := by
    have e : a' ^ 2 - a ^ 2 = (a' - a) * (a' + a) := by ring
    rw [abs_div, abs_mul, abs_pow, e, abs_mul, abs_of_pos (by positivity : (0 : ℝ) < 8 * m)]
    have hprod : |a' - a| * |a' + a| ≤ (L2 * (|dt| * B)) * (2 * G + τ * L2 * B) :=
      mul_le_mul hdiff hsum (abs_nonneg _) (by positivity)
    exact div_le_div_of_nonneg_right (mul_le_mul_of_nonneg_left hprod (by positivity)) (by positivity)
  have e3 : 5 / 12 * (L3 * (|dt| * B) ^ 3)
      + |dt| ^ 2 * ((L2 * (|dt| * B)) * (2 * G + τ * L2 * B)) / (8 * m)
      = |dt| ^ 3 * Cerr m L2 L3 P G τ := by
    unfold Cerr
    rw [← hB]
    ring
  have := abs_add_le Tz (dt ^ 2 * (a' ^ 2 - a ^ 2) / (8 * m))
  linarith

/-- `v` is three times differentiable at every point of `S` (derivatives `v1, v2, v3`) with
    `|v''| ≤ L2`, `|v'''| ≤ L3` on `S` -/
structure SmoothOn (S : Set ℝ) (v v1 v2 v3 : ℝ → ℝ) (L2 L3 : ℝ) : Prop where
  d0 : ∀ x ∈ S, HasDerivAt v (v1 x) x
  d1 : ∀ x ∈ S, HasDerivAt v1 (v2 x) x
  d2 : ∀ x ∈ S, HasDerivAt v2 (v3 x) x
  b2 : ∀ x ∈ S, |v2 x| ≤ L2
  b3 : ∀ x ∈ S, |v3 x| ≤ L3

/-- **local error** of one velocity-Verlet step, one degree of freedom -/
theorem phi1_energy_local {S : Set ℝ} (hS : Convex ℝ S) {v v1 v2 v3 : ℝ → ℝ} {L2 L3 : ℝ}
    (hv : SmoothOn S v v1 v2 v3 L2 L3) {m P G τ dt : ℝ} (hm : 0 < m) (hdt : |dt| ≤ τ) (s : ℝ × ℝ)
    (hq : s.1 ∈ S) (hq' : (phi1 (fun x => -v1 x) m dt s).1 ∈ S)
    (hp : |s.2| ≤ P) (hG : |v1 s.1| ≤ G) :
    |H1 v m (phi1 (fun x => -v1 x) m dt s) - H1 v m s| ≤ |dt| ^ 3 * Cerr m L2 L3 P G τ := by
  have hL2 : 0 ≤ L2 := le_trans (abs_nonneg _) (hv.b2 _ hq)
  have hL3 : 0 ≤ L3 := le_trans (abs_nonneg _) (hv.b3 _ hq)
  rw [phi1_energy_identity v v1 m dt hm.ne' s]
  obtain ⟨h, hh⟩ : ∃ h, h = (s.2 + 1 / 2 * -(v1 s.1) * dt) / m * dt := ⟨_, rfl⟩
  have hq'e : (phi1 (fun x => -v1 x) m dt s).1 = s.1 + h := by rw [hh]; rfl
  rw [hq'e] at hq' ⊢
  have e : s.1 + h - s.1 = h := by ring
  rw [e]
  have hmem : ∀ t ∈ Icc (0 : ℝ) 1, s.1 + t * h ∈ S := fun t ht => line_mem hS hq hq' ht
  have hT := trapezoid_bound (g := fun t => v (s.1 + t * h) * 1) (g1 := fun t => v1 (s.1 + t * h) * h)
    (g2 := fun t => v2 (s.1 + t * h) * (h * h)) (g3 := fun t => v3 (s.1 + t * h) * (h * (h * h)))
    (M := L3 * |h| ^ 3)
    (fun t ht => (hasDerivAt_line s.1 h 1 t (hv.d0 _ (hmem t ht))).congr_deriv (by ring))
    (fun t ht => hasDerivAt_line s.1 h h t (hv.d1 _ (hmem t ht)))
    (fun t ht => hasDerivAt_line s.1 h (h * h) t (hv.d2 _ (hmem t ht)))
    (fun t ht => by
      have e3 : |h * (h * h)| = |h| ^ 3 := by rw [abs_mul, abs_mul]; ring
      rw [abs_mul, e3]
      exact mul_le_mul_of_nonneg_right (hv.b3 _ (hmem t ht)) (by positivity))
  have hlip := taylor_lip (f := fun t => v1 (s.1 + t * h) * 1) (f1 := fun t => v2 (s.1 + t * h) * (h * 1))
    (M := L2 * |h|)
    (fun t ht => hasDerivAt_line s.1 h 1 t (hv.d1 _ (hmem t ht)))
    (fun t ht => by
      rw [abs_mul, mul_one]
      exact mul_le_mul_of_nonneg_right (hv.b2 _ (hmem t ht)) (abs_nonneg _))
    1 ⟨zero_le_one, le_refl _⟩
  simp only [one_mul, zero_mul, add_zero, mul_one] at hT hlip
  exact local_assemble hm hL2 hL3 hp hG hdt hh hT hlip

/-- **global error**, one degree of freedom: the local errors add up along a trajectory that stays in
    `S` with `|p_k| ≤ P`, `|v'(q_k)| ≤ G` -/
theorem phi1_energy_global {S : Set ℝ} (hS : Convex ℝ S) {v v1 v2 v3 : ℝ → ℝ} {L2 L3 : ℝ}
    (hv : SmoothOn S v v1 v2 v3 L2 L3) {m P G τ dt : ℝ} (hm : 0 < m) (hdt : |dt| ≤ τ) (s : ℝ × ℝ)
    (N : ℕ) (hq : ∀ k ≤ N, ((phi1 (fun x => -v1 x) m dt)^[k] s).1 ∈ S)
    (hp : ∀ k < N, |((phi1 (fun x => -v1 x) m dt)^[k] s).2| ≤ P)
    (hG : ∀ k < N, |v1 ((phi1 (fun x => -v1 x) m dt)^[k] s).1| ≤ G) :
    |H1 v m ((phi1 (fun x => -v1 x) m dt)^[N] s) - H1 v m s|
      ≤ N * (|dt| ^ 3 * Cerr m L2 L3 P G τ) := by
  induction N with
  | zero => simp
  | succ N ih =>
    have ih' := ih (fun k hk => hq k (by omega)) (fun k hk => hp k (by omega))
      (fun k hk => hG k (by omega))
    have hstep := phi1_energy_local hS hv hm hdt ((phi1 (fun x => -v1 x) m dt)^[N] s)
      (hq N (by omega))
      (by have := hq (N + 1) le_rfl; rwa [Function.iterate_succ_apply'] at this)
      (hp N (by omega)) (hG N (by omega))
    rw [Function.iterate_succ_apply']
    have := abs_sub_le (H1 v m (phi1 (fun x => -v1 x) m dt ((phi1 (fun x => -v1 x) m dt)^[N] s)))
      (H1 v m ((phi1 (fun x => -v1 x) m dt)^[N] s)) (H1 v m s)
    push_cast
    linarith

/-! ## the project's `Phi` for a component-wise force -/

open VecFn Finset

variable {n : ℕ}

/-- component-wise force `F(q)_{i,a} = −v'_{i,a}(q_{i,a})` -/
def sepForce (v1 : Fin n → Fin 3 → ℝ → ℝ) : Arr n ℝ → Arr n ℝ := fun q i a => -v1 i a (q i a)

/-- separable potential `V(q) = Σ_{i,a} v_{i,a}(q_{i,a})` -/
noncomputable def sepPot (v : Fin n → Fin 3 → ℝ → ℝ) (q : Arr n ℝ) : ℝ := ∑ i, ∑ a, v i a (q i a)

/-- total energy as the model computes the kinetic part: `atoms.get_kinetic_energy() + V(q)` -/
noncomputable def sepEnergy (v : Fin n → Fin 3 → ℝ → ℝ) (m : Col n ℝ) (s : St n ℝ) : ℝ :=
  ekin m s.p + sepPot v s.q

/-- position and momentum of one coordinate -/
def coord (s : St n ℝ) (i : Fin n) (a : Fin 3) : ℝ × ℝ := (s.q i a, s.p i a)

/-- `Phi` with a component-wise force acts on every coordinate as `phi1` -/
theorem Phi_sep_coord (v1 : Fin n → Fin 3 → ℝ → ℝ) (m : Col n ℝ) (dt : ℝ) (s : St n ℝ)
    (i : Fin n) (a : Fin 3) :
    coord (Phi (sepForce v1) m dt s) i a = phi1 (fun x => -v1 i a x) (m i) dt (coord s i a) := rfl

theorem Phi_sep_iter_coord (v1 : Fin n → Fin 3 → ℝ → ℝ) (m : Col n ℝ) (dt : ℝ) (k : ℕ) (s : St n ℝ)
    (i : Fin n) (a : Fin 3) :
    coord ((Phi (sepForce v1) m dt)^[k] s) i a
      = (phi1 (fun x => -v1 i a x) (m i) dt)^[k] (coord s i a) := by
  induction k with
  | zero => rfl
  | succ k ih => rw [Function.iterate_succ_apply', Function.iterate_succ_apply', Phi_sep_coord, ih]

theorem sepEnergy_eq_sum (v : Fin n → Fin 3 → ℝ → ℝ) (m : Col n ℝ) (s : St n ℝ) :
    sepEnergy v m s = ∑ i, ∑ a, H1 (v i a) (m i) (coord s i a) := by
  simp only [sepEnergy, sepPot, ekin, sumAll_real, Num.real_half, H1, coord, Finset.mul_sum,
    ← Finset.sum_add_distrib]
  refine Finset.sum_congr rfl (fun i _ => Finset.sum_congr rfl (fun a _ => ?_))
  ring

/-- **global error** for `Phi` with a separable potential (per-coordinate region and bounds) -/
theorem Phi_sep_energy_global {S : Fin n → Fin 3 → Set ℝ} (hS : ∀ i a, Convex ℝ (S i a))
    {v v1 v2 v3 : Fin n → Fin 3 → ℝ → ℝ} {L2 L3 : Fin n → Fin 3 → ℝ}
    (hv : ∀ i a, SmoothOn (S i a) (v i a) (v1 i a) (v2 i a) (v3 i a) (L2 i a) (L3 i a))
    {m : Col n ℝ} {P G τ dt : ℝ} (hm : ∀ i, 0 < m i) (hdt : |dt| ≤ τ) (s : St n ℝ) (N : ℕ)
    (hq : ∀ k ≤ N, ∀ i a, ((Phi (sepForce v1) m dt)^[k] s).q i a ∈ S i a)
    (hp : ∀ k < N, ∀ i a, |((Phi (sepForce v1) m dt)^[k] s).p i a| ≤ P)
    (hG : ∀ k < N, ∀ i a, |sepForce v1 ((Phi (sepForce v1) m dt)^[k] s).q i a| ≤ G) :
    |sepEnergy v m ((Phi (sepForce v1) m dt)^[N] s) - sepEnergy v m s|
      ≤ N * (|dt| ^ 3 * ∑ i, ∑ a, Cerr (m i) (L2 i a) (L3 i a) P G τ) := by
  have hdof : ∀ i a, |H1 (v i a) (m i) (coord ((Phi (sepForce v1) m dt)^[N] s) i a)
      - H1 (v i a) (m i) (coord s i a)| ≤ N * (|dt| ^ 3 * Cerr (m i) (L2 i a) (L3 i a) P G τ) := by
    intro i a
    rw [Phi_sep_iter_coord]
    refine phi1_energy_global (hS i a) (hv i a) (hm i) hdt (coord s i a) N ?_ ?_ ?_
    · intro k hk
      rw [← Phi_sep_iter_coord]
      exact hq k hk i a
    · intro k hk
      rw [← Phi_sep_iter_coord]
      exact hp k hk i a
    · intro k hk
      rw [← Phi_sep_iter_coord]
      have := hG k hk i a
      simpa [sepForce, coord] using this
  rw [sepEnergy_eq_sum, sepEnergy_eq_sum, ← Finset.sum_sub_distrib, Finset.mul_sum, Finset.mul_sum]
  refine le_trans (Finset.abs_sum_le_sum_abs _ _) (Finset.sum_le_sum (fun i _ => ?_))
  rw [← Finset.sum_sub_distrib, Finset.mul_sum, Finset.mul_sum]
  exact le_trans (Finset.abs_sum_le_sum_abs _ _) (Finset.sum_le_sum (fun a _ => hdof i a))

theorem Cerr_nonneg {m L2 L3 P G τ : ℝ} (hm : 0 < m) (hL2 : 0 ≤ L2) (hL3 : 0 ≤ L3) (hP : 0 ≤ P)
    (hG : 0 ≤ G) (hτ : 0 ≤ τ) : 0 ≤ Cerr m L2 L3 P G τ := by
  unfold Cerr
  positivity

/-- the constant grows with the momentum bound -/
theorem Cerr_mono_P {m L2 L3 P P' G τ : ℝ} (hm : 0 < m) (hL2 : 0 ≤ L2) (hL3 : 0 ≤ L3) (hP : 0 ≤ P)
    (hPP : P ≤ P') (hG : 0 ≤ G) (hτ : 0 ≤ τ) : Cerr m L2 L3 P G τ ≤ Cerr m L2 L3 P' G τ := by
  have hB0 : 0 ≤ (P + τ * G / 2) / m := by positivity
  have hB : (P + τ * G / 2) / m ≤ (P' + τ * G / 2) / m :=
    div_le_div_of_nonneg_right (by linarith) hm.le
  have hB0' : 0 ≤ (P' + τ * G / 2) / m := le_trans hB0 hB
  unfold Cerr
  have h1 : 5 / 12 * L3 * ((P + τ * G / 2) / m) ^ 3 ≤ 5 / 12 * L3 * ((P' + τ * G / 2) / m) ^ 3 :=
    mul_le_mul_of_nonneg_left (pow_le_pow_left₀ hB0 hB 3) (by positivity)
  have h2 : L2 * ((P + τ * G / 2) / m) * (2 * G + τ * L2 * ((P + τ * G / 2) / m))
      ≤ L2 * ((P' + τ * G / 2) / m) * (2 * G + τ * L2 * ((P' + τ * G / 2) / m)) := by
    apply mul_le_mul (mul_le_mul_of_nonneg_left hB hL2) _ (by positivity) (by positivity)
    have := mul_le_mul_of_nonneg_left hB (mul_nonneg hτ hL2)
    linarith
  have h3 := div_le_div_of_nonneg_right h2 (by positivity : (0 : ℝ) ≤ 8 * m)
  linarith

/-- with a force bounded by `G` the momentum grows by at most `|dt|·G` per step -/
theorem phi1_momentum_bound {f : ℝ → ℝ} {G : ℝ} (hf : ∀ x, |f x| ≤ G) (m dt : ℝ) (s : ℝ × ℝ) (k : ℕ) :
    |((phi1 f m dt)^[k] s).2| ≤ |s.2| + k * (|dt| * G) := by
  have key : ∀ a, |a| ≤ G → |1 / 2 * a * dt| ≤ 1 / 2 * (|dt| * G) := by
    intro a ha
    rw [abs_mul, abs_mul, abs_of_pos (by norm_num : (0 : ℝ) < 1 / 2)]
    have := mul_le_mul_of_nonneg_right ha (abs_nonneg dt)
    linarith
  induction k with
  | zero => simp
  | succ k ih =>
    rw [Function.iterate_succ_apply']
    obtain ⟨u, hu⟩ : ∃ u, u = (phi1 f m dt)^[k] s := ⟨_, rfl⟩
    rw [← hu] at ih ⊢
    have e : (phi1 f m dt u).2 = u.2 + 1 / 2 * f u.1 * dt
        + 1 / 2 * f (u.1 + (u.2 + 1 / 2 * f u.1 * dt) / m * dt) * dt := rfl
    rw [e]
    have h1 := key _ (hf u.1)
    have h2 := key _ (hf (u.1 + (u.2 + 1 / 2 * f u.1 * dt) / m * dt))
    have h3 := abs_add_le (u.2 + 1 / 2 * f u.1 * dt)
      (1 / 2 * f (u.1 + (u.2 + 1 / 2 * f u.1 * dt) / m * dt) * dt)
    have h4 := abs_add_le u.2 (1 / 2 * f u.1 * dt)
    push_cast
    linarith

/-- a finite piece of any sequence of arrays is bounded -/
theorem exists_traj_bound (g : ℕ → Fin n → Fin 3 → ℝ) (N : ℕ) :
    ∃ P, ∀ k ≤ N, ∀ i a, |g k i a| ≤ P := by
  refine ⟨∑ k ∈ Finset.range (N + 1), ∑ i, ∑ a, |g k i a|, fun k hk i a => ?_⟩
  have h2 : |g k i a| ≤ ∑ a, |g k i a| :=
    Finset.single_le_sum (f := fun a => |g k i a|) (fun _ _ => abs_nonneg _) (Finset.mem_univ a)
  have h3 : (∑ a, |g k i a|) ≤ ∑ i, ∑ a, |g k i a| :=
    Finset.single_le_sum (f := fun i => ∑ a, |g k i a|)
      (fun _ _ => Finset.sum_nonneg (fun _ _ => abs_nonneg _)) (Finset.mem_univ i)
  have h4 : (∑ i, ∑ a, |g k i a|) ≤ ∑ k ∈ Finset.range (N + 1), ∑ i, ∑ a, |g k i a| :=
    Finset.single_le_sum (f := fun k => ∑ i, ∑ a, |g k i a|)
      (fun _ _ => Finset.sum_nonneg (fun _ _ => Finset.sum_nonneg (fun _ _ => abs_nonneg _)))
      (Finset.mem_range.2 (by omega))
  linarith

/-! ## `C³` potentials: the derivatives exist and are bounded on every bounded interval -/

/-- finitely many continuous functions are uniformly bounded on a compact set -/
theorem exists_uniform_bound (f : Fin n → Fin 3 → ℝ → ℝ) (hf : ∀ i a, Continuous (f i a))
    {K : Set ℝ} (hK : IsCompact K) : ∃ C, 0 ≤ C ∧ ∀ i a, ∀ x ∈ K, |f i a x| ≤ C := by
  have h : ∀ i a, ∃ C, ∀ x ∈ K, ‖f i a x‖ ≤ C := fun i a =>
    hK.exists_bound_of_continuousOn (hf i a).continuousOn
  choose C hC using h
  refine ⟨∑ i, ∑ a, |C i a|, Finset.sum_nonneg (fun i _ => Finset.sum_nonneg (fun a _ => abs_nonneg _)),
    fun i a x hx => ?_⟩
  have h1 : |f i a x| ≤ |C i a| := le_trans (hC i a x hx) (le_abs_self _)
  have h2 : |C i a| ≤ ∑ a, |C i a| :=
    Finset.single_le_sum (f := fun a => |C i a|) (fun _ _ => abs_nonneg _) (Finset.mem_univ a)
  have h3 : (∑ a, |C i a|) ≤ ∑ i, ∑ a, |C i a| :=
    Finset.single_le_sum (f := fun i => ∑ a, |C i a|)
      (fun _ _ => Finset.sum_nonneg (fun _ _ => abs_nonneg _)) (Finset.mem_univ i)
  linarith

/-- a `C³` function has the derivative chain `deriv`, `deriv∘deriv`, `deriv∘deriv∘deriv` everywhere,
    and all three are continuous -/
theorem contDiff_three_chain {v : ℝ → ℝ} (hv : ContDiff ℝ 3 v) :
    (∀ x, HasDerivAt v (deriv v x) x) ∧ (∀ x, HasDerivAt (deriv v) (deriv (deriv v) x) x) ∧
    (∀ x, HasDerivAt (deriv (deriv v)) (deriv (deriv (deriv v)) x) x) ∧
    Continuous (deriv v) ∧ Continuous (deriv (deriv v)) ∧ Continuous (deriv (deriv (deriv v))) := by
  have h3 : ContDiff ℝ (2 + 1) v := by
    have e : ((2 : WithTop ℕ∞) + 1) = 3 := by norm_num
    rw [e]; exact hv
  have h2 : ContDiff ℝ (1 + 1) (deriv v) := by
    have e : ((1 : WithTop ℕ∞) + 1) = 2 := by norm_num
    rw [e]; exact h3.deriv'
  have h1 : ContDiff ℝ 1 (deriv (deriv v)) := h2.deriv'
  refine ⟨fun x => ((hv.differentiable (by norm_num)) x).hasDerivAt,
    fun x => ((h2.differentiable (by norm_num)) x).hasDerivAt,
    fun x => ((h1.differentiable (by norm_num)) x).hasDerivAt,
    h2.continuous, h1.continuous, h1.continuous_deriv_one⟩

/-- for finitely many `C³` potentials and a bounded interval there are uniform bounds `L2, L3, G`
    on the second, third and first derivatives -/
theorem exists_bounds_of_contDiff {v : Fin n → Fin 3 → ℝ → ℝ} (hv : ∀ i a, ContDiff ℝ 3 (v i a))
    (R : ℝ) : ∃ L2 L3 G, 0 ≤ L2 ∧ 0 ≤ L3 ∧ 0 ≤ G ∧
      (∀ i a, SmoothOn (Icc (-R) R) (v i a) (deriv (v i a)) (deriv (deriv (v i a)))
        (deriv (deriv (deriv (v i a)))) L2 L3) ∧
      ∀ i a, ∀ x ∈ Icc (-R) R, |deriv (v i a) x| ≤ G := by
  obtain ⟨G, hG0, hG⟩ := exists_uniform_bound (fun i a => deriv (v i a))
    (fun i a => (contDiff_three_chain (hv i a)).2.2.2.1) (isCompact_Icc (a := -R) (b := R))
  obtain ⟨L2, hL20, hL2⟩ := exists_uniform_bound (fun i a => deriv (deriv (v i a)))
    (fun i a => (contDiff_three_chain (hv i a)).2.2.2.2.1) (isCompact_Icc (a := -R) (b := R))
  obtain ⟨L3, hL30, hL3⟩ := exists_uniform_bound (fun i a => deriv (deriv (deriv (v i a))))
    (fun i a => (contDiff_three_chain (hv i a)).2.2.2.2.2) (isCompact_Icc (a := -R) (b := R))
  refine ⟨L2, L3, G, hL20, hL30, hG0, fun i a => ?_, hG⟩
  obtain ⟨c0, c1, c2, -⟩ := contDiff_three_chain (hv i a)
  exact ⟨fun x _ => c0 x, fun x _ => c1 x, fun x _ => c2 x, hL2 i a, hL3 i a⟩

/-! ## quartic wells (the potential of the model's `quarticForce`) -/

theorem hasDerivAt_shift_pow (c : ℝ) (j : ℕ) (y : ℝ) :
    HasDerivAt (fun y : ℝ => (y - c) ^ (j + 1)) (((j : ℝ) + 1) * (y - c) ^ j) y := by
  have := ((hasDerivAt_id' y).sub_const c).fun_pow (j + 1)
  simpa using this

/-- `½ k x² + ¼ g x⁴`, `x = y − c`, on `|y − c| ≤ R`: `|v''| ≤ |k| + 3|g|R²`, `|v'''| ≤ 6|g|R` -/
theorem quartic_smoothOn (k g c R : ℝ) :
    SmoothOn (Icc (c - R) (c + R)) (fun y => 1 / 2 * k * (y - c) ^ 2 + 1 / 4 * g * (y - c) ^ 4)
      (fun y => k * (y - c) + g * (y - c) ^ 3) (fun y => k + 3 * g * (y - c) ^ 2)
      (fun y => 6 * g * (y - c)) (|k| + 3 * |g| * R ^ 2) (6 * |g| * R) := by
  have hx : ∀ y ∈ Icc (c - R) (c + R), |y - c| ≤ R := fun y hy =>
    abs_le.2 ⟨by linarith [hy.1], by linarith [hy.2]⟩
  refine ⟨fun y _ => ?_, fun y _ => ?_, fun y _ => ?_, fun y hy => ?_, fun y hy => ?_⟩
  · refine (((hasDerivAt_shift_pow c 1 y).const_mul (1 / 2 * k)).add
      ((hasDerivAt_shift_pow c 3 y).const_mul (1 / 4 * g))).congr_deriv ?_
    push_cast
    ring
  · refine ((((hasDerivAt_id' y).sub_const c).const_mul k).add
      ((hasDerivAt_shift_pow c 2 y).const_mul g)).congr_deriv ?_
    push_cast
    ring
  · refine (((hasDerivAt_shift_pow c 1 y).const_mul (3 * g)).const_add k).congr_deriv ?_
    push_cast
    ring
  · have h1 := abs_add_le k (3 * g * (y - c) ^ 2)
    have h2 : |3 * g * (y - c) ^ 2| = 3 * |g| * |y - c| ^ 2 := by
      rw [abs_mul, abs_mul, abs_pow, abs_of_pos (by norm_num : (0 : ℝ) < 3)]
    have h3 : |y - c| ^ 2 ≤ R ^ 2 := pow_le_pow_left₀ (abs_nonneg _) (hx y hy) 2
    have h4 := mul_le_mul_of_nonneg_left h3 (by positivity : (0 : ℝ) ≤ 3 * |g|)
    linarith
  · have h2 : |6 * g * (y - c)| = 6 * |g| * |y - c| := by
      rw [abs_mul, abs_mul, abs_of_pos (by norm_num : (0 : ℝ) < 6)]
    have h4 := mul_le_mul_of_nonneg_left (hx y hy) (by positivity : (0 : ℝ) ≤ 6 * |g|)
    linarith

/-- the potential whose component-wise force is the model's `quarticForce k g ctr` -/
noncomputable def quarticV (k g : Col n ℝ) (ctr : Arr n ℝ) (i : Fin n) (a : Fin 3) (y : ℝ) : ℝ :=
  1 / 2 * k i * (y - ctr i a) ^ 2 + 1 / 4 * g i * (y - ctr i a) ^ 4

/-- its derivative -/
def quarticV1 (k g : Col n ℝ) (ctr : Arr n ℝ) (i : Fin n) (a : Fin 3) (y : ℝ) : ℝ :=
  k i * (y - ctr i a) + g i * (y - ctr i a) ^ 3

theorem quarticForce_eq_sepForce (k g : Col n ℝ) (ctr : Arr n ℝ) :
    quarticForce k g ctr = sepForce (quarticV1 k g ctr) := by
  funext q i a
  simp only [quarticForce, sepForce, quarticV1]
  ring

/-! ## general (non-separable) potentials: hypotheses along segments -/

/-- `F = −∇V` and `V` is three times differentiable along every segment `q + t·h`, `t ∈ [0,1]`, with end
    points in `S`: the third derivative of `t ↦ V(q + t h)` is at most `L3·η³` and every force component
    changes by at most `L2·η` when all `|h_{i,a}| ≤ η`. -/
structure LineSmooth (S : Set (Arr n ℝ)) (V : Arr n ℝ → ℝ) (F : Arr n ℝ → Arr n ℝ) (L2 L3 : ℝ) :
    Prop where
  line : ∀ (q h : Arr n ℝ) (η : ℝ), 0 ≤ η → q ∈ S → (fun i a => q i a + h i a) ∈ S → (∀ i a, |h i a| ≤ η) →
    ∃ g1 g2 g3 : ℝ → ℝ,
      (∀ t ∈ Icc (0 : ℝ) 1, HasDerivAt (fun t => V (fun i a => q i a + t * h i a)) (g1 t) t) ∧
      (∀ t ∈ Icc (0 : ℝ) 1, HasDerivAt g1 (g2 t) t) ∧
      (∀ t ∈ Icc (0 : ℝ) 1, HasDerivAt g2 (g3 t) t) ∧
      g1 0 = -∑ i, ∑ a, F q i a * h i a ∧
      g1 1 = -∑ i, ∑ a, F (fun i a => q i a + h i a) i a * h i a ∧
      ∀ t ∈ Icc (0 : ℝ) 1, |g3 t| ≤ L3 * η ^ 3
  lip : ∀ (q h : Arr n ℝ) (η : ℝ), 0 ≤ η → q ∈ S → (fun i a => q i a + h i a) ∈ S → (∀ i a, |h i a| ≤ η) →
    ∀ i a, |F (fun i a => q i a + h i a) i a - F q i a| ≤ L2 * η

/-- total energy for a general potential: `atoms.get_kinetic_energy() + V(q)` -/
noncomputable def genEnergy (V : Arr n ℝ → ℝ) (m : Col n ℝ) (s : St n ℝ) : ℝ := ekin m s.p + V s.q

/-- the explicit local error constant for general potentials; `μ` is a lower bound of the masses -/
noncomputable def Cgen (μ : ℝ) (m : Col n ℝ) (L2 L3 P G τ : ℝ) : ℝ :=
  5 / 12 * L3 * ((P + τ * G / 2) / μ) ^ 3
    + ∑ i, 3 * (L2 * ((P + τ * G / 2) / μ) * (2 * G + τ * L2 * ((P + τ * G / 2) / μ)) / (8 * m i))

theorem kin_coord_identity (p a a' m dt : ℝ) (hm : m ≠ 0) :
    1 / 2 * ((p + 1 / 2 * a * dt + 1 / 2 * a' * dt) * ((p + 1 / 2 * a * dt + 1 / 2 * a' * dt) / m))
        - 1 / 2 * (p * (p / m))
      = (a * ((p + 1 / 2 * a * dt) / m * dt) + a' * ((p + 1 / 2 * a * dt) / m * dt)) / 2
        + dt ^ 2 * (a' ^ 2 - a ^ 2) / (8 * m) := by
  field_simp
  ring

/-- exact energy difference of one step of `Phi` for a general potential -/
theorem Phi_energy_identity (V : Arr n ℝ → ℝ) (F : Arr n ℝ → Arr n ℝ) (m : Col n ℝ) (dt : ℝ)
    (hm : ∀ i, m i ≠ 0) (s : St n ℝ) :
    genEnergy V m (Phi F m dt s) - genEnergy V m s
      = (V (Phi F m dt s).q - V s.q
          + ((∑ i, ∑ a, F s.q i a * ((Phi F m dt s).q i a - s.q i a))
            + ∑ i, ∑ a, F (Phi F m dt s).q i a * ((Phi F m dt s).q i a - s.q i a)) / 2)
        + ∑ i, ∑ a, dt ^ 2 * (F (Phi F m dt s).q i a ^ 2 - F s.q i a ^ 2) / (8 * m i) := by
  have hk : ekin m (Phi F m dt s).p - ekin m s.p
      = ∑ i, ∑ a, ((F s.q i a * ((Phi F m dt s).q i a - s.q i a)
            + F (Phi F m dt s).q i a * ((Phi F m dt s).q i a - s.q i a)) / 2
          + dt ^ 2 * (F (Phi F m dt s).q i a ^ 2 - F s.q i a ^ 2) / (8 * m i)) := by
    simp only [ekin, sumAll_real, Num.real_half, Finset.mul_sum, ← Finset.sum_sub_distrib]
    refine Finset.sum_congr rfl (fun i _ => Finset.sum_congr rfl (fun a _ => ?_))
    have e1 : (Phi F m dt s).p i a
        = s.p i a + 1 / 2 * F s.q i a * dt + 1 / 2 * F (Phi F m dt s).q i a * dt := rfl
    have e2 : (Phi F m dt s).q i a - s.q i a = (s.p i a + 1 / 2 * F s.q i a * dt) / m i * dt := by
      show s.q i a + (s.p i a + 1 / 2 * F s.q i a * dt) / m i * dt - s.q i a = _
      ring
    rw [e1, e2]
    exact kin_coord_identity _ _ _ _ _ (hm i)
  have hs : genEnergy V m (Phi F m dt s) - genEnergy V m s
      = (ekin m (Phi F m dt s).p - ekin m s.p) + (V (Phi F m dt s).q - V s.q) := by
    simp only [genEnergy]; ring
  rw [hs, hk]
  simp only [Finset.sum_add_distrib, ← Finset.sum_div]
  ring

/-- the force term of one coordinate -/
theorem force_term_bound {m G D dt a a' : ℝ} (hm : 0 < m) (ha : |a| ≤ G) (hD : |a' - a| ≤ D) :
    |dt ^ 2 * (a' ^ 2 - a ^ 2) / (8 * m)| ≤ |dt| ^ 2 * (D * (2 * G + D)) / (8 * m) := by
  have hD0 : 0 ≤ D := le_trans (abs_nonneg _) hD
  have hG0 : 0 ≤ G := le_trans (abs_nonneg _) ha
  have hsum : |a' + a| ≤ 2 * G + D := by
    have e : a' + a = (a' - a) + 2 * a := by ring
    have h1 := abs_add_le (a' - a) (2 * a)
    rw [← e, abs_mul, abs_two] at h1
    linarith
  have e : a' ^ 2 - a ^ 2 = (a' - a) * (a' + a) := by ring
  rw [abs_div, abs_mul, abs_pow, e, abs_mul, abs_of_pos (by positivity : (0 : ℝ) < 8 * m)]
  have hprod : |a' - a| * |a' + a| ≤ D * (2 * G + D) :=
    mul_le_mul hD hsum (abs_nonneg _) hD0
  exact div_le_div_of_nonneg_right (mul_le_mul_of_nonneg_left hprod (by positivity)) (by positivity)

/-- **local error** of one step of `Phi`, general potential -/
theorem Phi_energy_local {S : Set (Arr n ℝ)} {V : Arr n ℝ → ℝ} {F : Arr n ℝ → Arr n ℝ} {L2 L3 : ℝ}
    (hV : LineSmooth S V F L2 L3) (hL2 : 0 ≤ L2) {m : Col n ℝ} {μ P G τ dt : ℝ}
    (hμ : 0 < μ) (hm : ∀ i, μ ≤ m i) (hP0 : 0 ≤ P) (hG0 : 0 ≤ G) (hdt : |dt| ≤ τ) (s : St n ℝ)
    (hq : s.q ∈ S) (hq' : (Phi F m dt s).q ∈ S) (hp : ∀ i a, |s.p i a| ≤ P)
    (hG : ∀ i a, |F s.q i a| ≤ G) :
    |genEnergy V m (Phi F m dt s) - genEnergy V m s| ≤ |dt| ^ 3 * Cgen μ m L2 L3 P G τ := by
  have hmpos : ∀ i, 0 < m i := fun i => lt_of_lt_of_le hμ (hm i)
  have hd0 : 0 ≤ |dt| := abs_nonneg _
  have hτ0 : 0 ≤ τ := le_trans hd0 hdt
  obtain ⟨B, hB⟩ : ∃ B, B = (P + τ * G / 2) / μ := ⟨_, rfl⟩
  have hnum0 : 0 ≤ P + τ * G / 2 := add_nonneg hP0 (by positivity)
  have hB0 : 0 ≤ B := by rw [hB]; exact div_nonneg hnum0 hμ.le
  obtain ⟨h, hh⟩ : ∃ h : Arr n ℝ, h = fun i a => (s.p i a + 1 / 2 * -(-F s.q i a) * dt) / m i * dt :=
    ⟨_, rfl⟩
  have hq'e : (Phi F m dt s).q = fun i a => s.q i a + h i a := by
    funext i a
    rw [hh]
    show s.q i a + (s.p i a + 1 / 2 * F s.q i a * dt) / m i * dt = _
    ring
  have hsub : ∀ i a, (Phi F m dt s).q i a - s.q i a = h i a := by
    intro i a
    rw [hq'e]
    ring
  have hη : ∀ i a, |h i a| ≤ |dt| * B := by
    intro i a
    have hG' : |-F s.q i a| ≤ G := by rw [abs_neg]; exact hG i a
    have h1 := step_size_bound (hmpos i) (hp i a) hG' hdt (congrFun (congrFun hh i) a)
    have h2 : (P + τ * G / 2) / m i ≤ B := by
      rw [hB]
      exact div_le_div_of_nonneg_left hnum0 hμ (hm i)
    exact le_trans h1 (mul_le_mul_of_nonneg_left h2 hd0)
  rw [Phi_energy_identity V F m dt (fun i => (hmpos i).ne') s]
  simp only [hsub]
  rw [hq'e] at hq' ⊢
  obtain ⟨g1, g2, g3, d0, d1, d2, e0, e1, b3⟩ := hV.line s.q h (|dt| * B) (mul_nonneg hd0 hB0) hq hq' hη
  have hlip := hV.lip s.q h (|dt| * B) (mul_nonneg hd0 hB0) hq hq' hη
  have hT := trapezoid_bound d0 d1 d2 b3
  simp only [one_mul, zero_mul, add_zero] at hT
  rw [e0, e1] at hT
  -- the force term
  have hforce : |∑ i, ∑ a, dt ^ 2 * (F (fun i a => s.q i a + h i a) i a ^ 2 - F s.q i a ^ 2) / (8 * m i)|
      ≤ ∑ i, ∑ _a : Fin 3,
        |dt| ^ 2 * ((L2 * (|dt| * B)) * (2 * G + τ * L2 * B)) / (8 * m i) := by
    refine le_trans (Finset.abs_sum_le_sum_abs _ _) (Finset.sum_le_sum (fun i _ => ?_))
    refine le_trans (Finset.abs_sum_le_sum_abs _ _) (Finset.sum_le_sum (fun a _ => ?_))
    refine le_trans (force_term_bound (hmpos i) (hG i a) (hlip i a)) ?_
    have hDD : L2 * (|dt| * B) ≤ τ * L2 * B := by
      have := mul_le_mul_of_nonneg_left (mul_le_mul_of_nonneg_right hdt hB0) hL2
      linarith
    have hpos : (0 : ℝ) < 8 * m i := by have := hmpos i; positivity
    refine div_le_div_of_nonneg_right (mul_le_mul_of_nonneg_left ?_ (by positivity)) hpos.le
    exact mul_le_mul_of_nonneg_left (by linarith) (by positivity)
  have e3 : 5 / 12 * (L3 * (|dt| * B) ^ 3)
      + ∑ i, ∑ _a : Fin 3, |dt| ^ 2 * ((L2 * (|dt| * B)) * (2 * G + τ * L2 * B)) / (8 * m i)
      = |dt| ^ 3 * Cgen μ m L2 L3 P G τ := by
    unfold Cgen
    rw [← hB]
    simp only [Finset.sum_const, Finset.card_univ, Fintype.card_fin, nsmul_eq_mul, mul_add,
      Finset.mul_sum]
    congr 1
    · ring
    · refine Finset.sum_congr rfl (fun i _ => ?_)
      push_cast
      ring
  have htri := abs_add_le
    (V (fun i a => s.q i a + h i a) - V s.q
      + ((∑ i, ∑ a, F s.q i a * h i a)
        + ∑ i, ∑ a, F (fun i a => s.q i a + h i a) i a * h i a) / 2)
    (∑ i, ∑ a, dt ^ 2 * (F (fun i a => s.q i a + h i a) i a ^ 2 - F s.q i a ^ 2) / (8 * m i))
  have eT : V (fun i a => s.q i a + h i a) - V s.q
      + ((∑ i, ∑ a, F s.q i a * h i a)
        + ∑ i, ∑ a, F (fun i a => s.q i a + h i a) i a * h i a) / 2
      = V (fun i a => s.q i a + h i a) - V s.q
        - (-(∑ i, ∑ a, F s.q i a * h i a)
          + -∑ i, ∑ a, F (fun i a => s.q i a + h i a) i a * h i a) / 2 := by ring
  rw [eT] at htri ⊢
  linarith

/-- **global error** for `Phi`, general potential -/
theorem Phi_energy_global {S : Set (Arr n ℝ)} {V : Arr n ℝ → ℝ} {F : Arr n ℝ → Arr n ℝ} {L2 L3 : ℝ}
    (hV : LineSmooth S V F L2 L3) (hL2 : 0 ≤ L2) {m : Col n ℝ} {μ P G τ dt : ℝ}
    (hμ : 0 < μ) (hm : ∀ i, μ ≤ m i) (hP0 : 0 ≤ P) (hG0 : 0 ≤ G) (hdt : |dt| ≤ τ) (s : St n ℝ) (N : ℕ)
    (hq : ∀ k ≤ N, ((Phi F m dt)^[k] s).q ∈ S)
    (hp : ∀ k < N, ∀ i a, |((Phi F m dt)^[k] s).p i a| ≤ P)
    (hG : ∀ k < N, ∀ i a, |F ((Phi F m dt)^[k] s).q i a| ≤ G) :
    |genEnergy V m ((Phi F m dt)^[N] s) - genEnergy V m s|
      ≤ N * (|dt| ^ 3 * Cgen μ m L2 L3 P G τ) := by
  induction N with
  | zero => simp
  | succ N ih =>
    have ih' := ih (fun k hk => hq k (by omega)) (fun k hk => hp k (by omega))
      (fun k hk => hG k (by omega))
    have hstep := Phi_energy_local hV hL2 hμ hm hP0 hG0 hdt ((Phi F m dt)^[N] s)
      (hq N (by omega))
      (by have := hq (N + 1) le_rfl; rwa [Function.iterate_succ_apply'] at this)
      (hp N (by omega)) (hG N (by omega))
    rw [Function.iterate_succ_apply']
    have := abs_sub_le (genEnergy V m (Phi F m dt ((Phi F m dt)^[N] s)))
      (genEnergy V m ((Phi F m dt)^[N] s)) (genEnergy V m s)
    push_cast
    linarith

theorem Cgen_nonneg {μ : ℝ} {m : Col n ℝ} {L2 L3 P G τ : ℝ} (hμ : 0 < μ) (hm : ∀ i, 0 < m i)
    (hL2 : 0 ≤ L2) (hL3 : 0 ≤ L3) (hP : 0 ≤ P) (hG : 0 ≤ G) (hτ : 0 ≤ τ) :
    0 ≤ Cgen μ m L2 L3 P G τ := by
  unfold Cgen
  have hB0 : 0 ≤ (P + τ * G / 2) / μ := by positivity
  refine add_nonneg (by positivity) (Finset.sum_nonneg (fun i _ => ?_))
  have := hm i
  positivity

/-! ## Fréchet-smooth potentials satisfy the hypotheses along segments -/

theorem cons_const {E : Type*} (h : E) (k : ℕ) :
    (Fin.cons h (fun _ : Fin k => h) : Fin (k + 1) → E) = fun _ => h := by
  funext j
  refine Fin.cases ?_ (fun j => ?_) j <;> simp

section Frechet
variable {E : Type*} [NormedAddCommGroup E] [NormedSpace ℝ E]

/-- derivative of `t ↦ DᵏV(q + t h)[mv]` is `Dᵏ⁺¹V(q + t h)[h, mv]` -/
theorem hasDerivAt_iteratedFDeriv_line {V : E → ℝ} {k : ℕ} (q h : E) (mv : Fin k → E) (t : ℝ)
    (hd : DifferentiableAt ℝ (iteratedFDeriv ℝ k V) (q + t • h)) :
    HasDerivAt (fun t : ℝ => iteratedFDeriv ℝ k V (q + t • h) mv)
      (iteratedFDeriv ℝ (k + 1) V (q + t • h) (Fin.cons h mv)) t := by
  have hline : HasDerivAt (fun t : ℝ => q + t • h) h t := by
    simpa using ((hasDerivAt_id' t).smul_const h).const_add q
  have h2 : HasDerivAt (fun t : ℝ => iteratedFDeriv ℝ k V (q + t • h))
      (fderiv ℝ (iteratedFDeriv ℝ k V) (q + t • h) h) t := hd.hasFDerivAt.comp_hasDerivAt t hline
  have h3 := (ContinuousMultilinearMap.apply ℝ (fun _ : Fin k => E) ℝ mv).hasFDerivAt.comp_hasDerivAt
    t h2
  rw [iteratedFDeriv_succ_apply_left]
  simp only [Fin.cons_zero, Fin.tail_cons]
  exact h3

end Frechet

theorem sum_single_arr (c : Arr n ℝ) (i : Fin n) (a : Fin 3) :
    ∑ i', ∑ a', c i' a' * (Pi.single i (Pi.single a (1 : ℝ)) : Arr n ℝ) i' a' = c i a := by
  rw [Finset.sum_eq_single i]
  · rw [Finset.sum_eq_single a]
    · simp
    · intro b _ hb
      simp [Pi.single_eq_of_ne hb]
    · simp
  · intro j _ hj
    simp [Pi.single_eq_of_ne hj]
  · simp

theorem norm_single_arr_le (i : Fin n) (a : Fin 3) :
    ‖(Pi.single i (Pi.single a (1 : ℝ)) : Arr n ℝ)‖ ≤ 1 := by
  refine (pi_norm_le_iff_of_nonneg zero_le_one).2 (fun i' => ?_)
  refine (pi_norm_le_iff_of_nonneg zero_le_one).2 (fun a' => ?_)
  show ‖(Pi.single i (Pi.single a (1 : ℝ)) : Arr n ℝ) i' a'‖ ≤ 1
  by_cases h1 : i' = i
  · subst h1
    by_cases h2 : a' = a
    · subst h2
      simp
    · simp [Pi.single_eq_of_ne h2]
  · simp [Pi.single_eq_of_ne h1]

theorem norm_arr_le {h : Arr n ℝ} {η : ℝ} (hη0 : 0 ≤ η) (hη : ∀ i a, |h i a| ≤ η) : ‖h‖ ≤ η :=
  (pi_norm_le_iff_of_nonneg hη0).2 (fun i => (pi_norm_le_iff_of_nonneg hη0).2 (fun a => hη i a))

theorem line_eq (q h : Arr n ℝ) (t : ℝ) : (fun i a => q i a + t * h i a) = q + t • h := by
  funext i a
  simp

/-- A potential that is `C³` at the points of the convex set `S`, with `‖D²V‖ ≤ L2`, `‖D³V‖ ≤ L3` on `S`
    (operator norms w.r.t. the sup norm of `Fin n → Fin 3 → ℝ`) and `F = −∇V` on `S`, satisfies the
    hypotheses along segments. -/
theorem lineSmooth_of_contDiffAt {S : Set (Arr n ℝ)} (hS : Convex ℝ S) {V : Arr n ℝ → ℝ}
    {F : Arr n ℝ → Arr n ℝ} {L2 L3 : ℝ} (hV : ∀ x ∈ S, ContDiffAt ℝ 3 V x)
    (hF : ∀ x ∈ S, ∀ h : Arr n ℝ, fderiv ℝ V x h = -∑ i, ∑ a, F x i a * h i a)
    (hb2 : ∀ x ∈ S, ‖iteratedFDeriv ℝ 2 V x‖ ≤ L2) (hb3 : ∀ x ∈ S, ‖iteratedFDeriv ℝ 3 V x‖ ≤ L3) :
    LineSmooth S V F L2 L3 := by
  have hseg : ∀ (q h : Arr n ℝ), q ∈ S → (fun i a => q i a + h i a) ∈ S →
      ∀ t ∈ Icc (0 : ℝ) 1, q + t • h ∈ S := by
    intro q h hq hq' t ht
    have := hS hq hq' (sub_nonneg.2 ht.2) ht.1 (by ring)
    have e : (1 - t) • q + t • (fun i a => q i a + h i a) = q + t • h := by
      funext i a
      simp only [Pi.add_apply, Pi.smul_apply, smul_eq_mul]
      ring
    rwa [e] at this
  have hdiff : ∀ x ∈ S, ∀ k : ℕ, k < 3 → DifferentiableAt ℝ (iteratedFDeriv ℝ k V) x := by
    intro x hx k hk
    exact (hV x hx).differentiableAt_iteratedFDeriv (by exact_mod_cast hk)
  constructor
  · intro q h η hη0 hq hq' hη
    have hmem := hseg q h hq hq'
    have hL3 : 0 ≤ L3 := le_trans (norm_nonneg _) (hb3 q hq)
    have hnorm : ‖h‖ ≤ η := norm_arr_le hη0 hη
    refine ⟨fun t => iteratedFDeriv ℝ 1 V (q + t • h) (fun _ => h),
      fun t => iteratedFDeriv ℝ 2 V (q + t • h) (fun _ => h),
      fun t => iteratedFDeriv ℝ 3 V (q + t • h) (fun _ => h), ?_, ?_, ?_, ?_, ?_, ?_⟩
    · intro t ht
      have := hasDerivAt_iteratedFDeriv_line q h (fun _ : Fin 0 => h) t
        (hdiff _ (hmem t ht) 0 (by norm_num))
      rw [cons_const] at this
      simpa only [line_eq, iteratedFDeriv_zero_apply] using this
    · intro t ht
      have := hasDerivAt_iteratedFDeriv_line q h (fun _ : Fin 1 => h) t
        (hdiff _ (hmem t ht) 1 (by norm_num))
      rwa [cons_const] at this
    · intro t ht
      have := hasDerivAt_iteratedFDeriv_line q h (fun _ : Fin 2 => h) t
        (hdiff _ (hmem t ht) 2 (by norm_num))
      rwa [cons_const] at this
    · simp only [zero_smul, add_zero, iteratedFDeriv_one_apply]
      exact hF q hq h
    · have e : q + (1 : ℝ) • h = fun i a => q i a + h i a := by
        funext i a
        simp
      simp only [e, iteratedFDeriv_one_apply]
      exact hF _ hq' h
    · intro t ht
      have h1 := (iteratedFDeriv ℝ 3 V (q + t • h)).le_opNorm (fun _ => h)
      rw [Real.norm_eq_abs] at h1
      simp only [Finset.prod_const, Finset.card_univ, Fintype.card_fin] at h1
      have h2 : ‖iteratedFDeriv ℝ 3 V (q + t • h)‖ * ‖h‖ ^ 3 ≤ L3 * η ^ 3 :=
        mul_le_mul (hb3 _ (hmem t ht)) (pow_le_pow_left₀ (norm_nonneg _) hnorm 3)
          (by positivity) hL3
      exact le_trans h1 h2
  · intro q h η hη0 hq hq' hη i a
    have hmem := hseg q h hq hq'
    have hL2 : 0 ≤ L2 := le_trans (norm_nonneg _) (hb2 q hq)
    have hnorm : ‖h‖ ≤ η := norm_arr_le hη0 hη
    obtain ⟨e, he⟩ : ∃ e : Arr n ℝ, e = Pi.single i (Pi.single a (1 : ℝ)) := ⟨_, rfl⟩
    have hFe : ∀ x ∈ S, fderiv ℝ V x e = -F x i a := by
      intro x hx
      rw [hF x hx e, he, sum_single_arr]
    have hlip := taylor_lip (f := fun t => iteratedFDeriv ℝ 1 V (q + t • h) (fun _ => e))
      (f1 := fun t => iteratedFDeriv ℝ 2 V (q + t • h) (Fin.cons h (fun _ => e))) (M := L2 * η)
      (fun t ht => hasDerivAt_iteratedFDeriv_line q h (fun _ : Fin 1 => e) t
        (hdiff _ (hmem t ht) 1 (by norm_num)))
      (fun t ht => by
        have h1 := (iteratedFDeriv ℝ 2 V (q + t • h)).le_opNorm (Fin.cons h (fun _ => e))
        rw [Real.norm_eq_abs, Fin.prod_univ_two] at h1
        simp only [Fin.cons_zero, Fin.cons_one] at h1
        have he1 : ‖e‖ ≤ 1 := by rw [he]; exact norm_single_arr_le i a
        have h2 : ‖h‖ * ‖e‖ ≤ η * 1 := mul_le_mul hnorm he1 (norm_nonneg _) hη0
        have h3 : ‖iteratedFDeriv ℝ 2 V (q + t • h)‖ * (‖h‖ * ‖e‖) ≤ L2 * (η * 1) :=
          mul_le_mul (hb2 _ (hmem t ht)) h2 (by positivity) hL2
        linarith)
      1 ⟨zero_le_one, le_refl _⟩
    have e1 : q + (1 : ℝ) • h = fun i a => q i a + h i a := by
      funext i a
      simp
    simp only [iteratedFDeriv_one_apply, e1, zero_smul, add_zero, mul_one] at hlip
    rw [hFe _ hq', hFe _ hq] at hlip
    have e2 : -F (fun i a => q i a + h i a) i a - -F q i a
        = -(F (fun i a => q i a + h i a) i a - F q i a) := by ring
    rwa [e2, abs_neg] at hlip

/-! ## every `C³` potential on `ℝ^{n×3}`: the force is minus the gradient, bounds exist on bounded sets -/

/-- minus the gradient of `V`: `F(x)_{i,a} = −∂V/∂x_{i,a}` -/
noncomputable def negGrad (V : Arr n ℝ → ℝ) (x : Arr n ℝ) : Arr n ℝ :=
  fun i a => -fderiv ℝ V x (Pi.single i (Pi.single a (1 : ℝ)))

theorem arr_eq_sum_single (h : Arr n ℝ) :
    h = ∑ i, ∑ a, h i a • (Pi.single i (Pi.single a (1 : ℝ)) : Arr n ℝ) := by
  funext i' a'
  simp only [Finset.sum_apply, Pi.smul_apply, smul_eq_mul]
  rw [Finset.sum_eq_single i']
  · rw [Finset.sum_eq_single a']
    · simp
    · intro b _ hb
      simp [Pi.single_eq_of_ne (Ne.symm hb)]
    · simp
  · intro j _ hj
    simp [Pi.single_eq_of_ne (Ne.symm hj)]
  · simp

theorem clm_eq_sum (L : Arr n ℝ →L[ℝ] ℝ) (h : Arr n ℝ) :
    L h = ∑ i, ∑ a, h i a * L (Pi.single i (Pi.single a (1 : ℝ))) := by
  conv_lhs => rw [arr_eq_sum_single h]
  simp only [map_sum, map_smul, smul_eq_mul]

theorem fderiv_eq_negGrad (V : Arr n ℝ → ℝ) (x h : Arr n ℝ) :
    fderiv ℝ V x h = -∑ i, ∑ a, negGrad V x i a * h i a := by
  rw [clm_eq_sum (fderiv ℝ V x) h, ← Finset.sum_neg_distrib]
  refine Finset.sum_congr rfl (fun i _ => ?_)
  rw [← Finset.sum_neg_distrib]
  refine Finset.sum_congr rfl (fun a _ => ?_)
  simp only [negGrad]
  ring

theorem exists_mass_lower (m : Col n ℝ) (hm : ∀ i, 0 < m i) : ∃ μ, 0 < μ ∧ ∀ i, μ ≤ m i := by
  rcases isEmpty_or_nonempty (Fin n) with h | h
  · exact ⟨1, one_pos, fun i => (h.false i).elim⟩
  · obtain ⟨i0, hi0⟩ := Finite.exists_min m
    exact ⟨m i0, hm i0, hi0⟩

/-- for a `C³` potential the bounds `L2, L3, G` exist on every ball of the sup norm -/
theorem exists_bounds_of_contDiff_arr {V : Arr n ℝ → ℝ} (hV : ContDiff ℝ 3 V) (R : ℝ) :
    ∃ L2 L3 G, 0 ≤ G ∧
      (∀ x ∈ Metric.closedBall (0 : Arr n ℝ) R, ‖iteratedFDeriv ℝ 2 V x‖ ≤ L2) ∧
      (∀ x ∈ Metric.closedBall (0 : Arr n ℝ) R, ‖iteratedFDeriv ℝ 3 V x‖ ≤ L3) ∧
      ∀ x ∈ Metric.closedBall (0 : Arr n ℝ) R, ∀ i a, |negGrad V x i a| ≤ G := by
  have hK : IsCompact (Metric.closedBall (0 : Arr n ℝ) R) := isCompact_closedBall _ _
  obtain ⟨L2, hL2⟩ := hK.exists_bound_of_continuousOn
    (hV.continuous_iteratedFDeriv (m := 2) (by norm_num)).continuousOn
  obtain ⟨L3, hL3⟩ := hK.exists_bound_of_continuousOn
    (hV.continuous_iteratedFDeriv (m := 3) (by norm_num)).continuousOn
  obtain ⟨G, hG⟩ := hK.exists_bound_of_continuousOn
    (hV.continuous_fderiv (by norm_num)).continuousOn
  refine ⟨L2, L3, |G|, abs_nonneg _, hL2, hL3, fun x hx i a => ?_⟩
  simp only [negGrad, abs_neg]
  have h1 := (fderiv ℝ V x).le_opNorm (Pi.single i (Pi.single a (1 : ℝ)))
  rw [Real.norm_eq_abs] at h1
  have h2 := mul_le_mul (hG x hx) (norm_single_arr_le i a) (norm_nonneg _)
    (le_trans (norm_nonneg _) (hG x hx))
  have h3 := le_abs_self G
  linarith

end Energy
end Verlet
