import QProofs.MachineDisp
/-! specifications of the elementary move calls (used by C03, C05, C11) -/
namespace MM

theorem obj_setObj (s : State) (r : Nat) (m : MoveObj) (h : r < s.heap.length) : (s.setObj r m).obj r = m := by
  simp [State.obj, State.setObj, List.getD_eq_getElem?_getD, h]

theorem heap_setObj_ne (s : State) (r r' : Nat) (m : MoveObj) (h : r' ≠ r) :
    (s.setObj r m).heap[r']? = s.heap[r']? := by
  simp [State.setObj, List.getElem?_set, Ne.symm h]

theorem setObj_atoms (s : State) (r : Nat) (m : MoveObj) :
    (s.setObj r m).atoms = s.atoms ∧ (s.setObj r m).ctx = s.ctx ∧ (s.setObj r m).inp = s.inp ∧
    (s.setObj r m).heap.length = s.heap.length := by
  simp [State.setObj]

/-- what `attempt_displacement` does to the state -/
theorem attemptDisplacement_spec (m : MoveObj) (s : State) :
    (attemptDisplacement m s).2.heap = s.heap ∧ (attemptDisplacement m s).2.ctx = s.ctx ∧
    (((attemptDisplacement m s).1 = false ∧ (attemptDisplacement m s).2.atoms = s.atoms) ∨
     ((attemptDisplacement m s).1 = true ∧
        ∃ d, (attemptDisplacement m s).2.atoms = applyDisp s.atoms s.ctx.moving d m.applyConstraints)) := by
  have h := attemptLoop_spec s.ctx.moving m.applyConstraints m.maxAttempts s.atoms s.inp
  simp only [attemptDisplacement]
  rcases hres : attemptLoop s.ctx.moving m.applyConstraints (positions s.atoms.rows) m.maxAttempts s.atoms s.inp
    with ⟨ok, a, i⟩
  simp only [hres] at h
  refine ⟨?_, ?_, ?_⟩ <;> first | trivial | rfl | exact h

/-- outcome of `DisplacementMove.__call__` -/
structure DispOutcome (r : Nat) (s : State) (ok : Bool) (s' : State) : Prop where
  heap_len : s'.heap.length = s.heap.length
  heap_other : ∀ r', r' ≠ r → s'.heap[r']? = s.heap[r']?
  presel_cleared : (s'.obj r).toDisplace = none
  labels_same : (s'.obj r).labels = (s.obj r).labels
  kind_same : (s'.obj r).kind = (s.obj r).kind
  att_same : (s'.obj r).maxAttempts = (s.obj r).maxAttempts
  ctx_same : { s'.ctx with moving := [] } = { s.ctx with moving := [] }
  fail_atoms : ok = false → s'.atoms = s.atoms ∧ (s'.obj r).displaced = none
  ok_atoms : ok = true → ∃ l d,
      s'.atoms = applyDisp s.atoms (whereEq (s.obj r).labels l) d (s.obj r).applyConstraints ∧
      (s'.obj r).displaced = some l ∧
      ((s.obj r).toDisplace = some l ∨
        ((s.obj r).toDisplace = none ∧ l ∈ uniqueLabels (s.obj r).labels))

/-- the part of `__call__` after the target label `l` is known (`m1.toDisplace = some l`) -/
def dispCore (r : Nat) (m1 : MoveObj) (s1 : State) : Bool × State :=
  let l := m1.toDisplace.getD 0
  let s2 := { s1 with ctx := { s1.ctx with moving := whereEq m1.labels l } }
  let (ok, s3) := attemptDisplacement m1 s2
  if ok then (true, s3.setObj r { m1 with displaced := m1.toDisplace, toDisplace := none })
  else (false, s3.setObj r { m1 with toDisplace := none, displaced := none })

theorem dispCore_spec (r : Nat) (m1 : MoveObj) (s1 : State) (l : Int) (hl : m1.toDisplace = some l)
    (hr : r < s1.heap.length) :
    let res := dispCore r m1 s1
    res.2.heap.length = s1.heap.length ∧ (∀ r', r' ≠ r → res.2.heap[r']? = s1.heap[r']?) ∧
    (res.2.obj r).toDisplace = none ∧ (res.2.obj r).labels = m1.labels ∧ (res.2.obj r).kind = m1.kind ∧
    (res.2.obj r).maxAttempts = m1.maxAttempts ∧
    { res.2.ctx with moving := [] } = { s1.ctx with moving := [] } ∧
    (res.1 = false → res.2.atoms = s1.atoms ∧ (res.2.obj r).displaced = none) ∧
    (res.1 = true → ∃ d, res.2.atoms = applyDisp s1.atoms (whereEq m1.labels l) d m1.applyConstraints ∧
        (res.2.obj r).displaced = some l) := by
  simp only [dispCore, hl, Option.getD_some]
  generalize hs2 : ({ s1 with ctx := { s1.ctx with moving := whereEq m1.labels l } } : State) = s2
  have hspec := attemptDisplacement_spec m1 s2
  rcases hres : attemptDisplacement m1 s2 with ⟨ok, s3⟩
  simp only [hres] at hspec
  obtain ⟨hheap, hctx, hatoms⟩ := hspec
  have h2heap : s2.heap = s1.heap := by rw [← hs2]
  have h2atoms : s2.atoms = s1.atoms := by rw [← hs2]
  have h2mov : s2.ctx.moving = whereEq m1.labels l := by rw [← hs2]
  have h2ctx : { s2.ctx with moving := [] } = { s1.ctx with moving := [] } := by rw [← hs2]
  have hlen3 : r < s3.heap.length := by rw [hheap, h2heap]; exact hr
  cases ok with
  | true =>
    simp only [if_true]
    obtain ⟨d, hd⟩ : ∃ d, s3.atoms = applyDisp s2.atoms s2.ctx.moving d m1.applyConstraints := by
      rcases hatoms with ⟨h, _⟩ | ⟨_, d, hd⟩
      · cases h
      · exact ⟨d, hd⟩
    refine ⟨by simp [State.setObj, hheap, h2heap], ?_, ?_, ?_, ?_, ?_, ?_, ?_, ?_⟩
    · intro r' hne; rw [heap_setObj_ne _ _ _ _ hne, hheap, h2heap]
    · rw [obj_setObj _ _ _ hlen3]
    · rw [obj_setObj _ _ _ hlen3]
    · rw [obj_setObj _ _ _ hlen3]
    · rw [obj_setObj _ _ _ hlen3]
    · simp only [State.setObj, hctx]; exact h2ctx
    · intro h; cases h
    · intro _
      refine ⟨d, ?_, ?_⟩
      · simp only [State.setObj]; rw [hd, h2atoms, h2mov]
      · rw [obj_setObj _ _ _ hlen3]
  | false =>
    simp only [Bool.false_eq_true, if_false]
    have ha : s3.atoms = s2.atoms := by
      rcases hatoms with ⟨_, ha⟩ | ⟨h, _⟩
      · exact ha
      · cases h
    refine ⟨by simp [State.setObj, hheap, h2heap], ?_, ?_, ?_, ?_, ?_, ?_, ?_, ?_⟩
    · intro r' hne; rw [heap_setObj_ne _ _ _ _ hne, hheap, h2heap]
    · rw [obj_setObj _ _ _ hlen3]
    · rw [obj_setObj _ _ _ hlen3]
    · rw [obj_setObj _ _ _ hlen3]
    · rw [obj_setObj _ _ _ hlen3]
    · simp only [State.setObj, hctx]; exact h2ctx
    · intro _; exact ⟨by simp only [State.setObj]; rw [ha, h2atoms], by rw [obj_setObj _ _ _ hlen3]⟩
    · intro h; cases h

theorem dispCall_eq (r : Nat) (s : State) :
    dispCall r s =
      match (s.obj r).toDisplace with
      | some l =>
        if (uniqueLabels (s.obj r).labels).contains l then dispCore r (s.obj r) s
        else (false, s.setObj r { (s.obj r) with toDisplace := none, displaced := none })
      | none =>
        if (uniqueLabels (s.obj r).labels).isEmpty then
          (false, s.setObj r { (s.obj r) with toDisplace := none, displaced := none })
        else
          dispCore r { (s.obj r) with toDisplace := some (choice (uniqueLabels (s.obj r).labels) 0 s.inp).1 }
            { s with inp := (choice (uniqueLabels (s.obj r).labels) 0 s.inp).2 } := by
  unfold dispCall dispCore
  cases h : (s.obj r).toDisplace with
  | some l =>
    simp only [h]
    by_cases hc : (uniqueLabels (s.obj r).labels).contains l = true
    · simp only [hc, if_true, h]
    · simp only [hc, Bool.false_eq_true, if_false]
  | none =>
    simp only [h]
    by_cases hu : (uniqueLabels (s.obj r).labels).isEmpty = true
    · simp only [hu, if_true]
    · simp only [hu, Bool.false_eq_true, if_false]

theorem dispCall_spec (r : Nat) (s : State) (hr : r < s.heap.length) :
    DispOutcome r s (dispCall r s).1 (dispCall r s).2 := by
  rw [dispCall_eq]
  cases htd : (s.obj r).toDisplace with
  | some l0 =>
    simp only []
    by_cases hc : (uniqueLabels (s.obj r).labels).contains l0 = true
    · simp only [hc, if_true]
      obtain ⟨h1, h2, h3, h4, hk, hat, h5, h6, h7⟩ := dispCore_spec r (s.obj r) s l0 htd hr
      exact ⟨h1, h2, h3, h4, hk, hat, h5, h6, fun h => by
        obtain ⟨d, hd, hdis⟩ := h7 h
        exact ⟨l0, d, hd, hdis, Or.inl htd⟩⟩
    · simp only [hc, Bool.false_eq_true, if_false]
      refine ⟨by simp [State.setObj], ?_, ?_, ?_, ?_, ?_, ?_, ?_, ?_⟩
      · intro r' hne; rw [heap_setObj_ne _ _ _ _ hne]
      · rw [obj_setObj _ _ _ hr]
      · rw [obj_setObj _ _ _ hr]
      · rw [obj_setObj _ _ _ hr]
      · rw [obj_setObj _ _ _ hr]
      · simp [State.setObj]
      · intro _; exact ⟨by simp [State.setObj], by rw [obj_setObj _ _ _ hr]⟩
      · intro h; cases h
  | none =>
    simp only []
    by_cases hu : (uniqueLabels (s.obj r).labels).isEmpty = true
    · simp only [hu, if_true]
      refine ⟨by simp [State.setObj], ?_, ?_, ?_, ?_, ?_, ?_, ?_, ?_⟩
      · intro r' hne; rw [heap_setObj_ne _ _ _ _ hne]
      · rw [obj_setObj _ _ _ hr]
      · rw [obj_setObj _ _ _ hr]
      · rw [obj_setObj _ _ _ hr]
      · rw [obj_setObj _ _ _ hr]
      · simp [State.setObj]
      · intro _; exact ⟨by simp [State.setObj], by rw [obj_setObj _ _ _ hr]⟩
      · intro h; cases h
    · simp only [hu, Bool.false_eq_true, if_false]
      have hne : uniqueLabels (s.obj r).labels ≠ [] := by
        intro h; rw [h] at hu; simp at hu
      have hmem := choice_mem (uniqueLabels (s.obj r).labels) 0 s.inp hne
      obtain ⟨h1, h2, h3, h4, hk, hat, h5, h6, h7⟩ :=
        dispCore_spec r { (s.obj r) with toDisplace := some (choice (uniqueLabels (s.obj r).labels) 0 s.inp).1 }
          { s with inp := (choice (uniqueLabels (s.obj r).labels) 0 s.inp).2 }
          (choice (uniqueLabels (s.obj r).labels) 0 s.inp).1 rfl hr
      exact ⟨h1, h2, h3, h4, hk, hat, h5, h6, fun h => by
        obtain ⟨d, hd, hdis⟩ := h7 h
        exact ⟨_, d, hd, hdis, Or.inr ⟨htd, hmem⟩⟩⟩

/-- whatever way the target was chosen (drawn by the move or pre-selected by the user), a successful call displaced
    a label that is ELIGIBLE: one of the non-negative labels present -/
theorem dispCall_ok_mem (r : Nat) (s : State) (hr : r < s.heap.length) (hok : (dispCall r s).1 = true) :
    ∃ l, ((dispCall r s).2.obj r).displaced = some l ∧ l ∈ uniqueLabels (s.obj r).labels := by
  have hsp := dispCall_spec r s hr
  obtain ⟨l, d, _, hdis, hsel⟩ := hsp.ok_atoms hok
  refine ⟨l, hdis, ?_⟩
  rcases hsel with hp | ⟨_, hmem⟩
  · -- pre-selected: the call only goes ahead when the label is eligible
    rw [dispCall_eq, hp] at hok
    simp only [] at hok
    by_cases hc : (uniqueLabels (s.obj r).labels).contains l = true
    · simpa using hc
    · simp only [hc, Bool.false_eq_true, if_false] at hok
  · exact hmem

/-! ### `clearExch` (the two one-shot pre-selections of an exchange move dropped): what it touches -/

theorem clearExch_inp (s : State) (r : Nat) : (clearExch s r).inp = s.inp := rfl
theorem clearExch_heap_len (s : State) (r : Nat) : (clearExch s r).heap.length = s.heap.length := by
  simp [clearExch, State.setObj]

/-- the object of any cell after `clearExch s r`: the old one, with both pre-selections dropped when it is cell `r` -/
theorem clearExch_obj (s : State) (r r' : Nat) :
    (clearExch s r).obj r' = if r' = r then { s.obj r with toAdd := none, toDelete := none } else s.obj r' := by
  by_cases hrr : r' = r
  · subst hrr
    simp only [if_true]
    by_cases h : r' < s.heap.length
    · exact obj_setObj s r' _ h
    · simp [clearExch, State.obj, State.setObj, List.getD_eq_getElem?_getD, h]
  · simp only [hrr, if_false]
    simp only [clearExch, State.obj, List.getD_eq_getElem?_getD, heap_setObj_ne s r r' _ hrr]

theorem clearExch_obj_labels (s : State) (r r' : Nat) : ((clearExch s r).obj r').labels = (s.obj r').labels := by
  rw [clearExch_obj]; split
  · rename_i h; rw [h]
  · rfl

theorem clearExch_obj_kind (s : State) (r r' : Nat) : ((clearExch s r).obj r').kind = (s.obj r').kind := by
  rw [clearExch_obj]; split
  · rename_i h; rw [h]
  · rfl

theorem clearExch_obj_toDisplace (s : State) (r r' : Nat) :
    ((clearExch s r).obj r').toDisplace = (s.obj r').toDisplace := by
  rw [clearExch_obj]; split
  · rename_i h; rw [h]
  · rfl

/-- the cleared cell carries no exchange pre-selection -/
theorem clearExch_cleared (s : State) (r : Nat) :
    ((clearExch s r).obj r).toAdd = none ∧ ((clearExch s r).obj r).toDelete = none := by
  rw [clearExch_obj]; simp

/-- a cell that carried no exchange pre-selection still carries none -/
theorem clearExch_keeps_cleared (s : State) (r r' : Nat)
    (h : (s.obj r').toAdd = none ∧ (s.obj r').toDelete = none) :
    ((clearExch s r).obj r').toAdd = none ∧ ((clearExch s r).obj r').toDelete = none := by
  rw [clearExch_obj]; split
  · simp
  · exact h

/-- the head of the deletion loop of `CompositeExchangeMove.__call__`, with labels and inputs read off the state
    BEFORE the member's pre-selections are dropped (`clearExch` touches neither) -/
theorem compExchDelLoop_cons (r : Nat) (rs : List Nat) (labs : List Int) (idx : List Nat) (s : State) :
    compExchDelLoop (r :: rs) labs idx s =
      if (setdiff (uniqueLabels (s.obj r).labels) labs).isEmpty then compExchDelLoop rs labs idx (clearExch s r)
      else
        compExchDelLoop rs (labs ++ [(choice (setdiff (uniqueLabels (s.obj r).labels) labs) 0 s.inp).1])
          (idx ++ whereEq (s.obj r).labels (choice (setdiff (uniqueLabels (s.obj r).labels) labs) 0 s.inp).1)
          { clearExch s r with inp := (choice (setdiff (uniqueLabels (s.obj r).labels) labs) 0 s.inp).2 } := by
  rw [compExchDelLoop]
  simp only [clearExch_obj_labels, clearExch_inp]

end MM
