import QProofs.MachineLabels
/-! outcome specification of `ExchangeMove.__call__` (used by C05) -/
namespace MM

def StaticEq (m m' : MoveObj) : Prop :=
  m'.kind = m.kind ∧ m'.labels = m.labels ∧ m'.defaultLabel = m.defaultLabel

def HeapStatic (h h' : List MoveObj) : Prop :=
  h'.length = h.length ∧ ∀ r, StaticEq (h.getD r { kind := .user }) (h'.getD r { kind := .user })

theorem HeapStatic.refl (h : List MoveObj) : HeapStatic h h := ⟨rfl, fun _ => ⟨rfl, rfl, rfl⟩⟩
theorem HeapStatic.trans {a b c : List MoveObj} (h1 : HeapStatic a b) (h2 : HeapStatic b c) : HeapStatic a c :=
  ⟨h2.1.trans h1.1, fun r => ⟨(h2.2 r).1.trans (h1.2 r).1, (h2.2 r).2.1.trans (h1.2 r).2.1,
    (h2.2 r).2.2.trans (h1.2 r).2.2⟩⟩

theorem heapStatic_set (h : List MoveObj) (r : Nat) (m : MoveObj)
    (hm : StaticEq (h.getD r { kind := .user }) m) : HeapStatic h (h.set r m) := by
  by_cases hlt : r < h.length
  · refine ⟨by simp, ?_⟩
    intro r'
    by_cases hrr : r = r'
    · subst hrr
      have : (h.set r m).getD r { kind := .user } = m := by
        simp [List.getD_eq_getElem?_getD, hlt]
      rw [this]; exact hm
    · have : (h.set r m).getD r' { kind := .user } = h.getD r' { kind := .user } := by
        simp [List.getD_eq_getElem?_getD, List.getElem?_set, hrr]
      rw [this]; exact ⟨rfl, rfl, rfl⟩
  · have : h.set r m = h := List.set_eq_of_length_le (by omega)
    rw [this]; exact HeapStatic.refl h

theorem heapStatic_setObj (s : State) (r : Nat) (m : MoveObj) (hm : StaticEq (s.obj r) m) :
    HeapStatic s.heap (s.setObj r m).heap := heapStatic_set s.heap r m hm

theorem attemptAddition_heap (r : Nat) (s : State) : HeapStatic s.heap (attemptAddition r s).2.heap := by
  have hsp := attemptDisplacement_spec { s.obj r with toAdd := some (toAddOf (s.obj r) s.ctx) } (addStart r s)
  have h1 : HeapStatic s.heap (addStart r s).heap :=
    heapStatic_setObj s r _ ⟨rfl, rfl, rfl⟩
  unfold attemptAddition
  simp only []
  split
  · exact h1
  · split
    · rw [hsp.1]; exact h1
    · simp only []; rw [hsp.1]; exact h1

theorem attemptDeletion_heap (r : Nat) (s : State) : HeapStatic s.heap (attemptDeletion r s).2.heap := by
  unfold attemptDeletion
  cases htd : (s.obj r).toDelete with
  | some l0 =>
    simp only [htd]
    by_cases hc : (uniqueLabels (s.obj r).labels).contains l0 = true
    · simp only [hc, if_true]
      exact heapStatic_setObj s r (s.obj r) ⟨rfl, rfl, rfl⟩
    · simp only [hc, Bool.false_eq_true, if_false]
      exact HeapStatic.refl _
  | none =>
    simp only [htd]
    by_cases hu : (uniqueLabels (s.obj r).labels).isEmpty = true
    · simp only [hu, if_true]; exact HeapStatic.refl _
    · simp only [hu, Bool.false_eq_true, if_false]
      exact heapStatic_setObj ({ s with inp := (choice (uniqueLabels (s.obj r).labels) 0 s.inp).2 } : State) r _
        ⟨rfl, rfl, rfl⟩

theorem clearExch_heap (s : State) (r : Nat) : HeapStatic s.heap (clearExch s r).heap :=
  heapStatic_setObj s r _ ⟨rfl, rfl, rfl⟩

/-- the three possible outcomes of a single `ExchangeMove` call from a clean context -/
inductive ExchOutcome (r : Nat) (s s' : State) : Bool → Prop
  | failed (hat : s'.atoms = s.atoms) (ha : s'.ctx.addedIdx = []) (hd : s'.ctx.deletedIdx = [])
      (hdelta : s'.ctx.delta = s.ctx.delta) (hcore : ctxCore s'.ctx = ctxCore s.ctx) : ExchOutcome r s s' false
  | inserted (d : V3)
      (hat : s'.atoms = applyDisp (s.atoms.extend (toAddOf (s.obj r) s.ctx))
                (addMoving (toAddOf (s.obj r) s.ctx) s.atoms.rows.length) d (s.obj r).applyConstraints)
      (ha : s'.ctx.addedIdx = addMoving (toAddOf (s.obj r) s.ctx) s.atoms.rows.length)
      (hd : s'.ctx.deletedIdx = []) (hdelta : s'.ctx.delta = s.ctx.delta + 1)
      (hlp : s'.ctx.lastPos = s.ctx.lastPos) : ExchOutcome r s s' true
  | deleted (l : Int) (hne : whereEq (s.obj r).labels l ≠ [])
      (hat : s'.atoms = s.atoms.delete (whereEq (s.obj r).labels l))
      (ha : s'.ctx.addedIdx = []) (hd : s'.ctx.deletedIdx = whereEq (s.obj r).labels l)
      (hdelta : s'.ctx.delta = s.ctx.delta - 1) (hlp : s'.ctx.lastPos = s.ctx.lastPos) : ExchOutcome r s s' true

theorem exchCall_outcome (r : Nat) (s : State) (hinv : InvG s) (hnew : toAddOf (s.obj r) s.ctx ≠ []) :
    ExchOutcome r s (exchCall r s).2 (exchCall r s).1 ∧ HeapStatic s.heap (exchCall r s).2.heap ∧
    (exchCall r s).2.ctx.template = s.ctx.template ∧ (exchCall r s).2.ctx.nExch = s.ctx.nExch := by
  unfold exchCall
  obtain ⟨d1, d2, d3⟩ := exchDecide_spec r s
  rcases hdec : exchDecide r s with ⟨isAdd, s0⟩
  rw [hdec] at d1 d2 d3
  simp only [] at d1 d2 d3 ⊢
  have hobj : s0.obj r = s.obj r := by simp [State.obj, d2]
  cases isAdd with
  | true =>
    simp only [if_true, exchAdd]
    have hfx0 : FixedOK s0.atoms := by rw [d1]; exact hinv.fixedOK
    have hsp := attemptAddition_spec r s0 hfx0
    have hheap := attemptAddition_heap r s0
    rw [hobj, d1, d3] at hsp
    rw [d2] at hheap
    rcases hadd : attemptAddition r s0 with ⟨idx, s1⟩
    rw [hadd] at hsp hheap
    obtain ⟨_, hc, halt⟩ := hsp
    dsimp only at hc halt hheap
    have hadd0 : s1.ctx.addedIdx = [] := by
      have := congrArg Ctx.addedIdx hc; simp only [ctxCore] at this; rw [this, hinv.noAdded]
    have hdel0 : s1.ctx.deletedIdx = [] := by
      have := congrArg Ctx.deletedIdx hc; simp only [ctxCore] at this; rw [this, hinv.noDeleted]
    have hdl : s1.ctx.delta = s.ctx.delta := by
      have := congrArg Ctx.delta hc; simpa [ctxCore] using this
    have htm : s1.ctx.template = s.ctx.template := by
      have := congrArg Ctx.template hc; simpa [ctxCore] using this
    have hnx : s1.ctx.nExch = s.ctx.nExch := by
      have := congrArg Ctx.nExch hc; simpa [ctxCore] using this
    rcases halt with ⟨hidx, hat⟩ | ⟨hidx, d, hd⟩
    · simp only [hidx, List.isEmpty_nil, if_true]
      exact ⟨.failed hat hadd0 hdel0 hdl hc, hheap.trans (clearExch_heap s1 r), htm, hnx⟩
    · have hne : idx ≠ [] := by
        rw [hidx]; intro h
        have := congrArg List.length h
        simp [addMoving] at this
        exact hnew this
      have hie : idx.isEmpty = false := by cases idx <;> simp_all
      simp only [hie, Bool.false_eq_true, if_false]
      have hlp1 : s1.ctx.lastPos = s.ctx.lastPos := by
        have := congrArg Ctx.lastPos hc; simpa [ctxCore] using this
      refine ⟨.inserted d hd ?_ hdel0 ?_ ?_, ?_, htm, hnx⟩
      · simp [clearExch, State.setObj, recordAdded, hadd0, hidx]
      · simp [clearExch, State.setObj, recordAdded, hdl]
      · simp [clearExch, State.setObj, recordAdded, hlp1]
      · exact hheap.trans (clearExch_heap _ r)
  | false =>
    simp only [Bool.false_eq_true, if_false, exchDel]
    obtain ⟨_, hc, ha, halt⟩ := attemptDeletion_spec r s0
    have hheap := attemptDeletion_heap r s0
    rw [d2] at hheap
    rcases hdl : attemptDeletion r s0 with ⟨idx, s1⟩
    rw [hdl] at hc ha halt hheap
    dsimp only at hc ha halt hheap
    rw [hobj] at halt
    have hs1a : s1.atoms = s.atoms := by rw [ha, d1]
    have hs1c : s1.ctx = s.ctx := by rw [hc, d3]
    by_cases hie : idx.isEmpty = true
    · simp only [hie, if_true]
      refine ⟨.failed ?_ ?_ ?_ ?_ ?_, hheap.trans (clearExch_heap s1 r), ?_, ?_⟩
      · rw [(clearExch_atoms s1 r).1, hs1a]
      · rw [(clearExch_atoms s1 r).2, hs1c, hinv.noAdded]
      · rw [(clearExch_atoms s1 r).2, hs1c, hinv.noDeleted]
      · rw [(clearExch_atoms s1 r).2, hs1c]
      · rw [(clearExch_atoms s1 r).2, hs1c]
      · rw [(clearExch_atoms s1 r).2, hs1c]
      · rw [(clearExch_atoms s1 r).2, hs1c]
    · have hie' : idx.isEmpty = false := by simpa using hie
      obtain ⟨l, hl⟩ : ∃ l, idx = whereEq (s.obj r).labels l := by
        rcases halt with h | h
        · rw [h] at hie; simp at hie
        · exact h
      have hne : whereEq (s.obj r).labels l ≠ [] := by
        rw [← hl]; intro h; rw [h] at hie; simp at hie
      simp only [hie', Bool.false_eq_true, if_false]
      refine ⟨.deleted l hne ?_ ?_ ?_ ?_ ?_, ?_, ?_, ?_⟩
      · simp [clearExch, State.setObj, hs1a, hl]
      · simp [clearExch, State.setObj, recordDeleted, saveFixed, hs1c, hinv.noSaved, hinv.noAdded]
      · simp [clearExch, State.setObj, recordDeleted, saveFixed, hs1c, hinv.noSaved, hinv.noDeleted, hl]
      · simp [clearExch, State.setObj, recordDeleted, saveFixed, hs1c, hinv.noSaved]
      · simp [clearExch, State.setObj, recordDeleted, saveFixed, hs1c, hinv.noSaved]
      · exact hheap.trans (clearExch_heap _ r)
      · simp [clearExch, State.setObj, recordDeleted, saveFixed, hs1c, hinv.noSaved]
      · simp [clearExch, State.setObj, recordDeleted, saveFixed, hs1c, hinv.noSaved]

/-! ## the sizes recorded for the per-particle notification -/

theorem notifyParts_nil (refs added removed : List Nat) (h : List MoveObj) :
    notifyParts refs [] added removed h = notifyRefs refs added removed h := rfl

theorem notifyParts_one (refs : List Nat) (n : Nat) (added removed : List Nat) (h : List MoveObj) :
    notifyParts refs [n] added removed h = notifyRefs refs added removed h := rfl

/-- at most one recorded particle: the single notification of before -/
theorem notifyParts_short (refs sizes added removed : List Nat) (h : List MoveObj) (hs : sizes.length ≤ 1) :
    notifyParts refs sizes added removed h = notifyRefs refs added removed h := by
  match sizes, hs with
  | [], _ => rfl
  | [_], _ => rfl

/-- a single `ExchangeMove` call records at most one more particle size -/
theorem exchCall_sizes (r : Nat) (s : State) (hfx : FixedOK s.atoms) :
    (exchCall r s).2.ctx.addedSizes = s.ctx.addedSizes ∨
    ∃ n, (exchCall r s).2.ctx.addedSizes = s.ctx.addedSizes ++ [n] := by
  unfold exchCall
  obtain ⟨d1, d2, d3⟩ := exchDecide_spec r s
  rcases hdec : exchDecide r s with ⟨isAdd, s0⟩
  rw [hdec] at d1 d2 d3
  simp only [] at d1 d2 d3 ⊢
  cases isAdd with
  | true =>
    simp only [if_true, exchAdd]
    have hfx0 : FixedOK s0.atoms := by rw [d1]; exact hfx
    obtain ⟨_, hc, _⟩ := attemptAddition_spec r s0 hfx0
    rcases hadd : attemptAddition r s0 with ⟨idx, s1⟩
    rw [hadd] at hc
    dsimp only at hc
    have hsz : s1.ctx.addedSizes = s.ctx.addedSizes := by
      have := congrArg Ctx.addedSizes hc; simp only [ctxCore] at this; rw [this, d3]
    by_cases hie : idx.isEmpty = true
    · simp only [hie, if_true]
      left; rw [(clearExch_atoms s1 r).2, hsz]
    · have hie' : idx.isEmpty = false := by simpa using hie
      simp only [hie', Bool.false_eq_true, if_false]
      right
      exact ⟨idx.length, by simp [clearExch, State.setObj, recordAdded, hsz]⟩
  | false =>
    simp only [Bool.false_eq_true, if_false, exchDel]
    obtain ⟨_, hc, _, _⟩ := attemptDeletion_spec r s0
    rcases hdl : attemptDeletion r s0 with ⟨idx, s1⟩
    rw [hdl] at hc
    dsimp only at hc
    have hs1c : s1.ctx = s.ctx := by rw [hc, d3]
    left
    by_cases hie : idx.isEmpty = true
    · simp only [hie, if_true]
      rw [(clearExch_atoms s1 r).2, hs1c]
    · have hie' : idx.isEmpty = false := by simpa using hie
      simp only [hie', Bool.false_eq_true, if_false]
      simp [clearExch, State.setObj, recordDeleted, saveFixed, hs1c]
      split <;> rfl

theorem exchCall_sizes_le (r : Nat) (s : State) (hfx : FixedOK s.atoms) (h0 : s.ctx.addedSizes = []) :
    (exchCall r s).2.ctx.addedSizes.length ≤ 1 := by
  rcases exchCall_sizes r s hfx with h | ⟨n, h⟩ <;> rw [h, h0] <;> simp

end MM
