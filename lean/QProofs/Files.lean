import QModel.Files
/-! helper lemmas for C16 (buffered-file machine, write protocols) -/
set_option linter.unusedSectionVars false
namespace Files
variable {β : Type} [Inhabited β]

/-! ## the machine -/

theorem writeAt_end (d b : List β) : writeAt d d.length b = d ++ b := by
  simp [writeAt]

theorem run_append (a b : List (Op β)) (f : File β) : run (a ++ b) f = run b (run a f) := by
  simp [run, List.foldl_append]

@[simp] theorem run_nil (f : File β) : run [] f = f := rfl
@[simp] theorem run_cons (o : Op β) (ops : List (Op β)) (f : File β) : run (o :: ops) f = run ops (step f o) := rfl

/-- the next OS write lands at the end of the file (mode `'a'`, or a position that is at the end) -/
def Tail (f : File β) : Prop := f.append = true ∨ f.pos = f.disk.length

theorem landing_of_tail (f : File β) (h : Tail f) : landing f = f.disk.length := by
  unfold landing; rcases h with h | h <;> simp [h]

/-- nothing buffered, the disk holds exactly `d`, and the next write goes to the end -/
structure Clean (f : File β) (d : List β) : Prop where
  tail : Tail f
  pend : f.pending = []
  disk : f.disk = d

theorem clean_open_w (existing : List β) : Clean (openFile .w existing) [] :=
  ⟨Or.inr rfl, rfl, rfl⟩
theorem clean_open_a (existing : List β) : Clean (openFile .a existing) existing :=
  ⟨Or.inl rfl, rfl, rfl⟩

theorem flush_disk (f : File β) (h : Tail f) : (flush f).disk = f.disk ++ f.pending := by
  unfold flush
  cases hp : f.pending with
  | nil => simp
  | cons x xs => simp [landing_of_tail f h, writeAt_end]

theorem flush_pending (f : File β) : (flush f).pending = [] := by
  unfold flush
  cases hp : f.pending with
  | nil => simpa using hp
  | cons x xs => rfl

theorem flush_tail (f : File β) (h : Tail f) : Tail (flush f) := by
  unfold flush
  cases hp : f.pending with
  | nil => simpa using h
  | cons x xs =>
    rcases h with h | h
    · exact Or.inl h
    · right
      simp [landing_of_tail f (Or.inr h), writeAt_end]

theorem flush_clean (f : File β) (h : Tail f) : Clean (flush f) (f.disk ++ f.pending) :=
  ⟨flush_tail f h, flush_pending f, flush_disk f h⟩

theorem flush_of_clean (f : File β) (d : List β) (h : Clean f d) : flush f = f := by
  unfold flush; rw [h.pend]

/-- a run of `write`s only extends the buffer -/
theorem run_writes (ws : List (List β)) (f : File β) :
    run (ws.map .write) f = { f with pending := f.pending ++ ws.flatten } := by
  induction ws generalizing f with
  | nil => simp
  | cons w rest ih => simp [ih, step, List.append_assoc]

/-- one trajectory-style call (`write* flush`) on a clean file appends its bytes -/
theorem frameCall_clean (ws : List (List β)) (f : File β) (d : List β) (h : Clean f d) :
    Clean (run (frameCall ws) f) (d ++ ws.flatten) := by
  unfold frameCall
  rw [run_append, run_writes]
  simp only [run_cons, run_nil, step]
  have ht : Tail { f with pending := f.pending ++ ws.flatten } := h.tail
  have := flush_clean _ ht
  simpa [h.pend, h.disk] using this

/-- crash images of a file whose next write goes to the end: the disk plus a prefix of the buffer -/
theorem mem_crashCuts (f : File β) (h : Tail f) (img : List β) :
    img ∈ crashCuts f ↔ ∃ j, j ≤ f.pending.length ∧ img = f.disk ++ f.pending.take j := by
  unfold crashCuts
  simp only [List.mem_map, List.mem_range, landing_of_tail f h, writeAt_end]
  constructor
  · rintro ⟨j, hj, rfl⟩; exact ⟨j, by omega, rfl⟩
  · rintro ⟨j, hj, rfl⟩; exact ⟨j, by omega, rfl⟩

theorem crashCuts_clean (f : File β) (d : List β) (h : Clean f d) (img : List β) :
    img ∈ crashCuts f ↔ img = d := by
  rw [mem_crashCuts f h.tail]
  simp [h.pend, h.disk]

/-! ## prefixes of op sequences -/

/-- a prefix of `a ++ b` is a strict prefix of `a`, or all of `a` followed by a prefix of `b` -/
theorem prefix_append_cases {α : Type} (pre a b : List α) (h : pre <+: a ++ b) :
    (pre <+: a ∧ pre ≠ a) ∨ ∃ c, pre = a ++ c ∧ c <+: b := by
  induction a generalizing pre with
  | nil => exact Or.inr ⟨pre, rfl, h⟩
  | cons x xs ih =>
    cases pre with
    | nil => exact Or.inl ⟨List.nil_prefix, by simp⟩
    | cons y ys =>
      rw [List.cons_append, List.cons_prefix_cons] at h
      obtain ⟨hxy, hys⟩ := h
      subst hxy
      rcases ih ys hys with ⟨h1, h2⟩ | ⟨c, hc, hcb⟩
      · left
        exact ⟨by rw [List.cons_prefix_cons]; exact ⟨rfl, h1⟩, by intro e; exact h2 (List.cons.inj e).2⟩
      · right; exact ⟨c, by rw [hc]; rfl, hcb⟩

theorem strict_prefix_concat {α : Type} (pre l : List α) (x : α) (h : pre <+: l ++ [x]) (hne : pre ≠ l ++ [x]) :
    pre <+: l := by
  rcases prefix_append_cases pre l [x] h with ⟨h1, _⟩ | ⟨c, hc, hcx⟩
  · exact h1
  · have : c = [] ∨ c = [x] := by
      rcases c with _ | ⟨y, ys⟩
      · exact Or.inl rfl
      · rw [List.cons_prefix_cons] at hcx
        obtain ⟨hy, hys⟩ := hcx
        have : ys = [] := List.prefix_nil.mp hys
        right; rw [hy, this]
    rcases this with rfl | rfl
    · rw [hc]; simp
    · exact absurd hc hne

theorem prefix_map_write (pre : List (Op β)) (ws : List (List β)) (h : pre <+: ws.map Op.write) :
    ∃ r, r ≤ ws.length ∧ pre = (ws.take r).map Op.write := by
  refine ⟨min pre.length ws.length, Nat.min_le_right _ _, ?_⟩
  have := List.prefix_iff_eq_take.mp h
  rw [this, ← List.map_take]
  congr 1
  have hl := h.length_le
  simp at hl
  simp [List.take_eq_take_iff]

theorem flatten_take_prefix {α : Type} (ws : List (List α)) (r : Nat) : (ws.take r).flatten <+: ws.flatten := by
  conv => rhs; rw [← List.take_append_drop r ws]
  rw [List.flatten_append]
  exact List.prefix_append _ _

@[simp] theorem nFlush_nil : nFlush ([] : List (Op β)) = 0 := rfl
theorem nFlush_append (a b : List (Op β)) : nFlush (a ++ b) = nFlush a + nFlush b := by
  simp [nFlush, List.filter_append]
theorem nFlush_writes (ws : List (List β)) : nFlush (ws.map Op.write) = 0 := by
  induction ws with
  | nil => rfl
  | cons w rest ih => simp [nFlush, isFlush]
theorem nFlush_frameCall (ws : List (List β)) : nFlush (frameCall ws) = 1 := by
  unfold frameCall; rw [nFlush_append, nFlush_writes]; rfl
theorem nFlush_restartCall (ws : List (List β)) : nFlush (restartCall ws) = 1 := by
  unfold restartCall; rw [nFlush_append, nFlush_frameCall]; rfl

/-! ## one call, cut anywhere -/

/-- a crash inside (or right after) one `write* flush` call on a clean file leaves the old content followed by
    a prefix of the call's bytes -/
theorem frameCall_cut (ws : List (List β)) (f : File β) (d : List β) (h : Clean f d)
    (pre : List (Op β)) (hpre : pre <+: frameCall ws) (hne : pre ≠ frameCall ws)
    (img : List β) (himg : img ∈ crashCuts (run pre f)) :
    nFlush pre = 0 ∧ ∃ p, p <+: ws.flatten ∧ img = d ++ p := by
  obtain ⟨r, hr, rfl⟩ := prefix_map_write pre ws (strict_prefix_concat pre _ _ hpre hne)
  refine ⟨nFlush_writes _, ?_⟩
  rw [run_writes] at himg
  have ht : Tail { f with pending := f.pending ++ (ws.take r).flatten } := h.tail
  obtain ⟨j, _, rfl⟩ := (mem_crashCuts _ ht img).mp himg
  refine ⟨((ws.take r).flatten).take j, ?_, by simp [h.pend, h.disk]⟩
  exact List.IsPrefix.trans (List.take_prefix _ _) (flatten_take_prefix ws r)

/-! ## trajectory-style sequences (`(write* flush)*`) -/

theorem trajOps_clean (frames : List (List (List β))) (f : File β) (d : List β) (h : Clean f d) :
    Clean (run (trajOps frames) f) (d ++ bytes frames) := by
  induction frames generalizing f d with
  | nil => simpa [trajOps, bytes] using h
  | cons ws rest ih =>
    have := ih _ _ (frameCall_clean ws f d h)
    simpa [trajOps, bytes, run_append, List.append_assoc] using this

theorem trajOps_cut (frames : List (List (List β))) (f : File β) (d : List β) (h : Clean f d)
    (pre : List (Op β)) (hpre : pre <+: trajOps frames) (img : List β) (himg : img ∈ crashCuts (run pre f)) :
    ∃ p, p <+: (frames.getD (nFlush pre) []).flatten ∧ img = d ++ bytes (frames.take (nFlush pre)) ++ p := by
  induction frames generalizing f d pre with
  | nil =>
    have : pre = [] := List.prefix_nil.mp (by simpa [trajOps] using hpre)
    subst this
    have := (crashCuts_clean f d h img).mp (by simpa using himg)
    exact ⟨[], by simp, by simp [this, bytes]⟩
  | cons ws rest ih =>
    have hpre' : pre <+: frameCall ws ++ trajOps rest := by simpa [trajOps] using hpre
    rcases prefix_append_cases pre _ _ hpre' with ⟨h1, h2⟩ | ⟨c, hc, hcr⟩
    · obtain ⟨hn, p, hp, rfl⟩ := frameCall_cut ws f d h pre h1 h2 img himg
      exact ⟨p, by simpa [hn] using hp, by simp [hn, bytes]⟩
    · subst hc
      rw [run_append] at himg
      obtain ⟨p, hp, rfl⟩ := ih _ _ (frameCall_clean ws f d h) c hcr himg
      refine ⟨p, ?_, ?_⟩
      · simpa [nFlush_append, nFlush_frameCall, Nat.add_comm 1] using hp
      · simp [nFlush_append, nFlush_frameCall, Nat.add_comm 1, bytes, List.append_assoc]

/-! ## restart-style sequences (`(seek 0; truncate; write* flush)*`) -/

theorem flush_of_pending_nil (f : File β) (h : f.pending = []) : flush f = f := by
  unfold flush; rw [h]

theorem writeAt_nil (d : List β) (p : Nat) (h : p ≤ d.length) : writeAt d p [] = d := by
  simp [writeAt, Nat.sub_eq_zero_of_le h]

/-- nothing buffered and the position inside the file: the only crash image is the disk -/
theorem crashCuts_idle (f : File β) (hp : f.pending = []) (hl : landing f ≤ f.disk.length) (img : List β) :
    img ∈ crashCuts f ↔ img = f.disk := by
  unfold crashCuts
  simp [hp, writeAt_nil _ _ hl]

theorem seek0_state (f : File β) (d : List β) (h : Clean f d) :
    (step f (Op.seek 0)).pending = [] ∧ (step f (Op.seek 0)).disk = d ∧ (step f (Op.seek 0)).pos = 0 := by
  simp only [step, seekTo, flush_of_clean f d h]
  exact ⟨h.pend, h.disk, trivial⟩

theorem truncate_after_seek0 (g : File β) (hp : g.pending = []) (h0 : g.pos = 0) : Clean (step g Op.truncate) [] := by
  simp only [step, truncateAt, flush_of_pending_nil g hp, h0]
  exact ⟨Or.inr (by simp), hp, by simp⟩

/-- `seek(0); truncate()` empties a clean file, in either mode -/
theorem seek_truncate_clean (f : File β) (d : List β) (h : Clean f d) :
    Clean (run [Op.seek 0, Op.truncate] f) [] := by
  obtain ⟨h1, _, h3⟩ := seek0_state f d h
  simpa using truncate_after_seek0 _ h1 h3

theorem restartCall_clean (ws : List (List β)) (f : File β) (d : List β) (h : Clean f d) :
    Clean (run (restartCall ws) f) ws.flatten := by
  unfold restartCall
  rw [run_append]
  simpa using frameCall_clean ws _ [] (seek_truncate_clean f d h)

/-- the latest completed document after `k` completed calls (the initial content if none) -/
def latest (d : List β) (docs : List (List (List β))) : Nat → List β
  | 0 => d
  | k + 1 => (docs.getD k []).flatten

theorem windowAfter_append (w : Bool) (a b : List (Op β)) :
    windowAfter w (a ++ b) = windowAfter (windowAfter w a) b := by
  simp [windowAfter, List.foldl_append]

theorem windowAfter_writes (w : Bool) (ws : List (List β)) : windowAfter w (ws.map Op.write) = w := by
  induction ws generalizing w with
  | nil => rfl
  | cons x rest ih => simpa [windowAfter] using ih w

theorem windowAfter_frameCall (w : Bool) (ws : List (List β)) : windowAfter w (frameCall ws) = false := by
  unfold frameCall
  rw [windowAfter_append, windowAfter_writes]; rfl

theorem windowAfter_restartCall (w : Bool) (ws : List (List β)) : windowAfter w (restartCall ws) = false := by
  unfold restartCall
  rw [windowAfter_append, windowAfter_frameCall]

/-- one restart call on a clean file holding `d`, cut strictly inside: outside the rewrite window the image is
    still `d`; inside it the image is a prefix of the new document -/
theorem restartCall_cut (ws : List (List β)) (f : File β) (d : List β) (h : Clean f d)
    (pre : List (Op β)) (hpre : pre <+: restartCall ws) (hne : pre ≠ restartCall ws)
    (img : List β) (himg : img ∈ crashCuts (run pre f)) :
    nFlush pre = 0 ∧ (inWindow pre = false → img = d) ∧ (inWindow pre = true → img <+: ws.flatten) := by
  rcases pre with _ | ⟨o1, pre1⟩
  · have := (crashCuts_clean f d h img).mp (by simpa using himg)
    exact ⟨rfl, fun _ => this, fun hw => by simp [inWindow, windowAfter] at hw⟩
  · have hp1 : o1 = Op.seek 0 ∧ pre1 <+: Op.truncate :: frameCall ws := by
      simpa [restartCall, List.cons_prefix_cons] using hpre
    obtain ⟨rfl, hp1⟩ := hp1
    obtain ⟨s1, s2, s3⟩ := seek0_state f d h
    rcases pre1 with _ | ⟨o2, pre2⟩
    · have hl : landing (step f (Op.seek 0)) ≤ (step f (Op.seek 0)).disk.length := by
        unfold landing; split
        · exact Nat.le_refl _
        · rw [s3]; exact Nat.zero_le _
      have := (crashCuts_idle _ s1 hl img).mp (by simpa using himg)
      exact ⟨rfl, fun _ => by rw [this, s2], fun hw => by simp [inWindow, windowAfter] at hw⟩
    · have hp2 : o2 = Op.truncate ∧ pre2 <+: frameCall ws := by
        simpa [List.cons_prefix_cons] using hp1
      obtain ⟨rfl, hp2⟩ := hp2
      have hne2 : pre2 ≠ frameCall ws := by
        intro e; apply hne; rw [e]; rfl
      have hc := truncate_after_seek0 _ s1 s3
      obtain ⟨hn, p, hp, rfl⟩ := frameCall_cut ws _ [] hc pre2 hp2 hne2 img (by simpa using himg)
      obtain ⟨r, _, rfl⟩ := prefix_map_write pre2 ws (strict_prefix_concat pre2 _ _ hp2 hne2)
      refine ⟨by simpa [nFlush, List.filter_cons, isFlush] using hn, ?_, fun _ => by simpa using hp⟩
      intro hw
      have : inWindow (Op.seek 0 :: Op.truncate :: (ws.take r).map Op.write) = true := by
        show windowAfter true ((ws.take r).map Op.write) = true
        exact windowAfter_writes true _
      rw [this] at hw; cases hw

theorem restartOps_cut (docs : List (List (List β))) (f : File β) (d : List β) (h : Clean f d)
    (pre : List (Op β)) (hpre : pre <+: restartOps docs) (img : List β) (himg : img ∈ crashCuts (run pre f)) :
    (inWindow pre = false → img = latest d docs (nFlush pre)) ∧
    (inWindow pre = true → img <+: (docs.getD (nFlush pre) []).flatten) := by
  induction docs generalizing f d pre with
  | nil =>
    have : pre = [] := List.prefix_nil.mp (by simpa [restartOps] using hpre)
    subst this
    have := (crashCuts_clean f d h img).mp (by simpa using himg)
    exact ⟨fun _ => by simpa [latest] using this, fun hw => by simp [inWindow, windowAfter] at hw⟩
  | cons ws rest ih =>
    have hpre' : pre <+: restartCall ws ++ restartOps rest := by simpa [restartOps] using hpre
    rcases prefix_append_cases pre _ _ hpre' with ⟨h1, h2⟩ | ⟨c, hc, hcr⟩
    · obtain ⟨hn, ha, hb⟩ := restartCall_cut ws f d h pre h1 h2 img himg
      rw [hn]
      exact ⟨fun hw => by simpa [latest] using ha hw, fun hw => by simpa using hb hw⟩
    · subst hc
      rw [run_append] at himg
      obtain ⟨ha, hb⟩ := ih _ _ (restartCall_clean ws f d h) c hcr himg
      have hw : inWindow (restartCall ws ++ c) = inWindow c := by
        unfold inWindow; rw [windowAfter_append, windowAfter_restartCall]
      have hk : nFlush (restartCall ws ++ c) = nFlush c + 1 := by
        rw [nFlush_append, nFlush_restartCall, Nat.add_comm]
      rw [hw, hk]
      refine ⟨fun hwf => ?_, fun hwt => by simpa using hb hwt⟩
      have := ha hwf
      cases hkc : nFlush c with
      | zero => rw [hkc] at this; simpa [latest] using this
      | succ j => rw [hkc] at this; simpa [latest] using this

theorem nFlush_restartOps (docs : List (List (List β))) : nFlush (restartOps docs) = docs.length := by
  induction docs with
  | nil => rfl
  | cons ws rest ih =>
    rw [show restartOps (ws :: rest) = restartCall ws ++ restartOps rest by simp [restartOps],
      nFlush_append, nFlush_restartCall, ih, List.length_cons, Nat.add_comm]

theorem nFlush_prefix_le (pre ops : List (Op β)) (h : pre <+: ops) : nFlush pre ≤ nFlush ops := by
  obtain ⟨t, rfl⟩ := h
  rw [nFlush_append]; omega

theorem restartOps_clean (docs : List (List (List β))) (f : File β) (d : List β) (h : Clean f d) :
    Clean (run (restartOps docs) f) (latest d docs docs.length) := by
  induction docs generalizing f d with
  | nil => simpa [restartOps, latest] using h
  | cons ws rest ih =>
    have := ih _ _ (restartCall_clean ws f d h)
    rw [show restartOps (ws :: rest) = restartCall ws ++ restartOps rest by simp [restartOps], run_append]
    cases rest with
    | nil => simpa [latest] using this
    | cons ws' rest' => simpa [latest] using this

/-! ## the log as a trajectory whose first record is header + first line -/

theorem logOps_cons (h l : List β) (rest : List (List β)) :
    logOps h (l :: rest) = trajOps ([h, l] :: rest.map (fun x => [x])) := by
  simp [logOps, trajOps, frameCall, List.flatMap_map]
  rfl

theorem bytes_cons (ws : List (List β)) (rest : List (List (List β))) :
    bytes (ws :: rest) = ws.flatten ++ bytes rest := by simp [bytes]

theorem bytes_singletons (rest : List (List β)) : bytes (rest.map (fun x => [x])) = rest.flatten := by
  induction rest with
  | nil => rfl
  | cons x r ih => simp [bytes] at ih ⊢; exact ih

theorem getD_singletons (rest : List (List β)) (j : Nat) :
    ((rest.map (fun x => [x])).getD j []).flatten = rest.getD j [] := by
  induction rest generalizing j with
  | nil => simp
  | cons x r ih => cases j with
    | zero => simp
    | succ j => simpa using ih j

/-! ## recognisers -/

theorem isFrameCall_frameCall (w : List β) (ws : List (List β)) : isFrameCall (frameCall (w :: ws)) = true := by
  induction ws generalizing w with
  | nil => rfl
  | cons w' rest ih =>
    have : frameCall (w :: w' :: rest) = Op.write w :: frameCall (w' :: rest) := rfl
    rw [this]
    have h2 : frameCall (w' :: rest) = Op.write w' :: (rest.map Op.write ++ [Op.flush]) := rfl
    rw [h2, isFrameCall]
    · rw [← h2]; exact ih w'
    · intro hh; cases rest <;> simp at hh

theorem isFrameCall_sound (ops : List (Op β)) (h : isFrameCall ops = true) :
    ∃ w ws, ops = frameCall (w :: ws) := by
  induction ops with
  | nil => simp [isFrameCall] at h
  | cons o rest ih =>
    cases o with
    | write b =>
      by_cases hr : rest = [Op.flush]
      · subst hr; exact ⟨b, [], rfl⟩
      · rw [isFrameCall] at h
        · obtain ⟨w, ws, hw⟩ := ih h
          exact ⟨b, w :: ws, by rw [hw]; rfl⟩
        · intro hh; exact hr (by simpa using hh)
    | flush => simp [isFrameCall] at h
    | seek n => simp [isFrameCall] at h
    | truncate => simp [isFrameCall] at h

end Files
