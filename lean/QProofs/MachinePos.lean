import QProofs.MachineCall
/-! "position-only" moves: what the canonical / isobaric / Hamiltonian revert can undo (C03) -/
namespace MM

/-- `a'` differs from `a` at most in positions -/
def PosOnly (a a' : AtomsS) : Prop :=
  a'.cell = a.cell ∧ a'.fixed = a.fixed ∧ a'.rows.map strip = a.rows.map strip

theorem PosOnly.refl (a : AtomsS) : PosOnly a a := ⟨rfl, rfl, rfl⟩

theorem PosOnly.trans {a b c : AtomsS} (h1 : PosOnly a b) (h2 : PosOnly b c) : PosOnly a c :=
  ⟨h2.1.trans h1.1, h2.2.1.trans h1.2.1, h2.2.2.trans h1.2.2⟩

theorem posOnly_applyDisp (a : AtomsS) (mv : List Nat) (d : V3) (c : Bool) : PosOnly a (applyDisp a mv d c) :=
  ⟨rfl, rfl, applyDisp_strip a mv d c⟩

/-- restoring the remembered positions undoes any position-only change -/
theorem posOnly_restore (a a' : AtomsS) (h : PosOnly a a') :
    ({ a' with rows := setPositions a'.rows (positions a.rows) } : AtomsS) = a := by
  obtain ⟨hc, hf, hs⟩ := h
  have := setPositions_of_strip _ _ hs
  cases a; cases a'
  simp_all

/-- the part of the context that survives a move call: everything but the scratch `moving` indices -/
def ctxCore (c : Ctx) : Ctx := { c with moving := [] }

/-- facts every label-agnostic caller needs about one call -/
structure CallKeeps (s s' : State) : Prop where
  heap_len : s'.heap.length = s.heap.length
  labels : ∀ r, (s'.obj r).labels = (s.obj r).labels
  kinds : ∀ r, (s'.obj r).kind = (s.obj r).kind
  atts : ∀ r, (s'.obj r).maxAttempts = (s.obj r).maxAttempts
  ctx : ctxCore s'.ctx = ctxCore s.ctx
  pos : PosOnly s.atoms s'.atoms

theorem CallKeeps.refl (s : State) : CallKeeps s s := ⟨rfl, fun _ => rfl, fun _ => rfl, fun _ => rfl, rfl, PosOnly.refl _⟩

theorem CallKeeps.trans {a b c : State} (h1 : CallKeeps a b) (h2 : CallKeeps b c) : CallKeeps a c :=
  ⟨h2.heap_len.trans h1.heap_len, fun r => (h2.labels r).trans (h1.labels r),
   fun r => (h2.kinds r).trans (h1.kinds r), fun r => (h2.atts r).trans (h1.atts r), h2.ctx.trans h1.ctx,
   h1.pos.trans h2.pos⟩

theorem obj_of_heap_eq (s s' : State) (r : Nat) (h : s'.heap[r]? = s.heap[r]?) : s'.obj r = s.obj r := by
  simp [State.obj, List.getD_eq_getElem?_getD, h]

theorem dispCall_keeps (r : Nat) (s : State) (hr : r < s.heap.length) : CallKeeps s (dispCall r s).2 := by
  have h := dispCall_spec r s hr
  refine ⟨h.heap_len, ?_, ?_, ?_, h.ctx_same, ?_⟩
  · intro r'
    by_cases hrr : r' = r
    · subst hrr; exact h.labels_same
    · exact congrArg MoveObj.labels (obj_of_heap_eq _ _ _ (h.heap_other r' hrr))
  · intro r'
    by_cases hrr : r' = r
    · subst hrr; exact h.kind_same
    · exact congrArg MoveObj.kind (obj_of_heap_eq _ _ _ (h.heap_other r' hrr))
  · intro r'
    by_cases hrr : r' = r
    · subst hrr; exact h.att_same
    · exact congrArg MoveObj.maxAttempts (obj_of_heap_eq _ _ _ (h.heap_other r' hrr))
  · cases hok : (dispCall r s).1 with
    | false => rw [(h.fail_atoms hok).1]; exact PosOnly.refl _
    | true =>
      obtain ⟨l, d, hd, _⟩ := h.ok_atoms hok
      rw [hd]; exact posOnly_applyDisp _ _ _ _

theorem setObj_keeps (s : State) (r : Nat) (m : MoveObj) (hl : m.labels = (s.obj r).labels)
    (hk : m.kind = (s.obj r).kind) (ha : m.maxAttempts = (s.obj r).maxAttempts) : CallKeeps s (s.setObj r m) := by
  refine ⟨by simp [State.setObj], ?_, ?_, ?_, rfl, PosOnly.refl _⟩
  · intro r'
    by_cases hrr : r' = r
    · subst hrr
      by_cases hr : r' < s.heap.length
      · rw [obj_setObj _ _ _ hr]; exact hl
      · simp [State.obj, State.setObj, List.getD_eq_getElem?_getD, List.getElem?_set, hr]
    · exact congrArg MoveObj.labels (obj_of_heap_eq _ _ _ (heap_setObj_ne s r r' m hrr))
  · intro r'
    by_cases hrr : r' = r
    · subst hrr
      by_cases hr : r' < s.heap.length
      · rw [obj_setObj _ _ _ hr]; exact hk
      · simp [State.obj, State.setObj, List.getD_eq_getElem?_getD, List.getElem?_set, hr]
    · exact congrArg MoveObj.kind (obj_of_heap_eq _ _ _ (heap_setObj_ne s r r' m hrr))
  · intro r'
    by_cases hrr : r' = r
    · subst hrr
      by_cases hr : r' < s.heap.length
      · rw [obj_setObj _ _ _ hr]; exact ha
      · simp [State.obj, State.setObj, List.getD_eq_getElem?_getD, List.getElem?_set, hr]
    · exact congrArg MoveObj.maxAttempts (obj_of_heap_eq _ _ _ (heap_setObj_ne s r r' m hrr))

theorem compDispLoop_keeps (rs : List Nat) (acc : List (Option Int)) (s : State)
    (hrs : ∀ r ∈ rs, r < s.heap.length) : CallKeeps s (compDispLoop rs acc s).2 := by
  induction rs generalizing acc s with
  | nil => exact CallKeeps.refl s
  | cons r rs ih =>
    have hr : r < s.heap.length := hrs r (by simp)
    simp only [compDispLoop]
    split
    · have k0 : CallKeeps s (s.setObj r { s.obj r with toDisplace := none }) := setObj_keeps s r _ rfl rfl rfl
      exact k0.trans (ih _ _ (fun r' h' => by rw [k0.heap_len]; exact hrs r' (by simp [h'])))
    · rcases hch : choice (setdiff (uniqueLabels (s.obj r).labels) (acc.filterMap id)) 0 s.inp with ⟨l, i⟩
      simp only []
      generalize hs1 : (({ s with inp := i } : State).setObj r { s.obj r with toDisplace := some l }) = s1
      have k1 : CallKeeps s s1 := by
        rw [← hs1]
        have : CallKeeps ({ s with inp := i } : State)
            (({ s with inp := i } : State).setObj r { s.obj r with toDisplace := some l }) :=
          setObj_keeps _ r _ rfl rfl rfl
        exact ⟨this.heap_len, this.labels, this.kinds, this.atts, this.ctx, this.pos⟩
      have hr1 : r < s1.heap.length := by rw [k1.heap_len]; exact hr
      have k2 := dispCall_keeps r s1 hr1
      rcases hdc : dispCall r s1 with ⟨ok, s2⟩
      rw [hdc] at k2
      simp only []
      have k12 := k1.trans k2
      have hrs2 : ∀ r' ∈ rs, r' < s2.heap.length := by
        intro r' h'; rw [k12.heap_len]; exact hrs r' (by simp [h'])
      exact k12.trans (ih _ s2 hrs2)

end MM

namespace MM

/-! ### cell moves (isobaric) and Hamiltonian moves -/

/-- `a'` differs from `a` at most in positions and cell -/
def StripOnly (a a' : AtomsS) : Prop := a'.fixed = a.fixed ∧ a'.rows.map strip = a.rows.map strip

theorem deform_strip (a : AtomsS) (f : V3) (scale : Bool) : StripOnly a (deform a f scale) := by
  refine ⟨rfl, ?_⟩
  simp only [deform]
  split
  · simp [strip, Function.comp_def]
  · rfl

theorem cell_restore (a : AtomsS) (f : V3) (scale : Bool) :
    cellRestore (deform a f scale) scale a.cell (positions a.rows) = a := by
  have h := (deform_strip a f scale).2
  have h2 := setPositions_of_strip _ _ h
  unfold cellRestore
  cases a
  cases scale
  · simp [deform]
  · simp only [if_true, AtomsS.mk.injEq]
    refine ⟨h2, ?_, ?_⟩ <;> first | trivial | rfl

theorem cellLoop_spec (scale : Bool) (n : Nat) (a : AtomsS) (i : Inputs) :
    let res := cellLoop scale a.cell (positions a.rows) n a i
    (res.1 = false ∧ res.2.1 = a) ∨ (res.1 = true ∧ ∃ f, res.2.1 = deform a f scale) := by
  induction n generalizing i with
  | zero => simp [cellLoop]
  | succ k ih =>
    rcases hop : i.op with ⟨f, i1⟩
    rcases hck : i1.check with ⟨ok, i2⟩
    simp only [cellLoop, hop, hck]
    have hself : ({ a with cell := a.cell } : AtomsS) = a := by cases a; rfl
    rw [hself]
    cases ok with
    | true => right; exact ⟨rfl, f, rfl⟩
    | false =>
      simp only [Bool.false_eq_true, if_false]
      rw [cell_restore]
      exact ih _

/-- isobaric revert: positions and cell restored -/
theorem stripOnly_restore (a a' : AtomsS) (h : StripOnly a a') :
    ({ a' with rows := setPositions a'.rows (positions a.rows), cell := a.cell } : AtomsS) = a := by
  obtain ⟨hf, hs⟩ := h
  have := setPositions_of_strip _ _ hs
  cases a; cases a'
  simp_all

theorem PosOnly.stripOnly {a a' : AtomsS} (h : PosOnly a a') : StripOnly a a' := ⟨h.2.1, h.2.2⟩

/-- `a'` differs from `a` at most in positions and momenta -/
def AuxOnly (a a' : AtomsS) : Prop :=
  a'.cell = a.cell ∧ a'.fixed = a.fixed ∧ a'.rows.map (·.aux) = a.rows.map (·.aux)

theorem PosOnly.auxOnly {a a' : AtomsS} (h : PosOnly a a') : AuxOnly a a' := by
  refine ⟨h.1, h.2.1, ?_⟩
  have := congrArg (List.map Prod.snd) h.2.2
  simpa [strip, Function.comp_def] using this

theorem setPosMom_of_aux : ∀ (rows' rows : List Row), rows'.map (·.aux) = rows.map (·.aux) →
    setPositions (setMomenta rows' (momenta rows)) (positions rows) = rows ∧
    setMomenta (setPositions rows' (positions rows)) (momenta rows) = rows
  | [], [], _ => ⟨rfl, rfl⟩
  | [], _ :: _, h => by simp at h
  | _ :: _, [], h => by simp at h
  | r' :: rs', r :: rs, h => by
    simp only [List.map_cons, List.cons.injEq] at h
    have ih := setPosMom_of_aux rs' rs h.2
    simp only [setPositions, setMomenta, positions, momenta, List.map_cons, List.zipWith_cons_cons,
      List.cons.injEq] at ih ⊢
    refine ⟨⟨?_, ih.1⟩, ⟨?_, ih.2⟩⟩ <;> (cases r'; cases r; simp_all)

/-- Hamiltonian revert: momenta and positions restored -/
theorem auxOnly_restore (a a' : AtomsS) (h : AuxOnly a a') :
    ({ a' with rows := setPositions (setMomenta a'.rows (momenta a.rows)) (positions a.rows) } : AtomsS) = a := by
  obtain ⟨hc, hf, hs⟩ := h
  have := (setPosMom_of_aux _ _ hs).1
  cases a; cases a'
  simp_all

theorem hamStep_aux (a : AtomsS) (v d : V3) : AuxOnly a (hamStep a v d) := by
  refine ⟨rfl, rfl, ?_⟩
  have := congrArg (List.map Prod.snd) (applyDisp_strip { a with rows := a.rows.map (fun r => { r with mom := v }) }
      (List.range (a.rows.map (fun r => { r with mom := v })).length) d true)
  simp only [hamStep, List.map_map, strip, Function.comp_def] at this ⊢
  simpa using this

theorem ham_restore (a : AtomsS) (v d : V3) :
    hamRestore (hamStep a v d) (positions a.rows) (momenta a.rows) = a := by
  obtain ⟨hc, hf, hs⟩ := hamStep_aux a v d
  have := (setPosMom_of_aux _ _ hs).2
  unfold hamRestore
  generalize hamStep a v d = a' at *
  cases a; cases a'
  simp_all

theorem hamLoop_spec (n : Nat) (a : AtomsS) (i : Inputs) :
    let res := hamLoop (positions a.rows) (momenta a.rows) n a i
    (res.1 = false ∧ res.2.1 = a) ∨ (res.1 = true ∧ AuxOnly a res.2.1) := by
  induction n generalizing i with
  | zero => simp [hamLoop]
  | succ k ih =>
    rcases hop : i.op with ⟨v, i1⟩
    rcases hop2 : i1.op with ⟨d, i2⟩
    rcases hck : i2.check with ⟨ok, i3⟩
    simp only [hamLoop, hop, hop2, hck]
    cases ok with
    | true => right; exact ⟨rfl, hamStep_aux a v d⟩
    | false =>
      simp only [Bool.false_eq_true, if_false]
      rw [ham_restore]
      exact ih _

end MM
