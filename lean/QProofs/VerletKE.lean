import QProofs.VerletMB

/-! Helper lemmas for C14 (kinetic reference of Hamiltonian moves inside composites): what one call of
    `attempt_displacement` leaves in `context.last_kinetic_energy`, in terms of the index of the first
    attempt that is not vetoed; the bookkeeping identity of one member and of a whole composite. -/

namespace Verlet
open VecFn

variable {n : ℕ}

/-! ## `firstPass` -/

theorem firstPass_some_iff (checks : List Bool) (k j : ℕ) :
    firstPass checks k = some j ↔
      j < k ∧ checks.getD j true = true ∧ ∀ l, l < j → checks.getD l true = false := by
  induction k generalizing checks j with
  | zero => simp [firstPass]
  | succ k ih =>
    simp only [firstPass]
    by_cases hc : checks.headD true = true
    · simp only [hc, if_true, Option.some.injEq]
      constructor
      · intro h; subst h
        exact ⟨Nat.succ_pos k, by rw [getD_zero_eq_headD]; exact hc, by intro l hl; omega⟩
      · rintro ⟨_, _, h3⟩
        cases j with
        | zero => rfl
        | succ j' =>
          have := h3 0 (Nat.succ_pos j')
          rw [getD_zero_eq_headD, hc] at this
          exact absurd this (by simp)
    · simp only [hc, Bool.false_eq_true, if_false, Option.map_eq_some_iff]
      constructor
      · rintro ⟨j', hj', rfl⟩
        obtain ⟨a, b, c⟩ := (ih checks.tail j').1 hj'
        refine ⟨by omega, by rw [getD_succ_eq_tail]; exact b, ?_⟩
        intro l hl
        cases l with
        | zero => rw [getD_zero_eq_headD]; simpa using hc
        | succ l' => rw [getD_succ_eq_tail]; exact c l' (by omega)
      · rintro ⟨h1, h2, h3⟩
        cases j with
        | zero =>
          rw [getD_zero_eq_headD] at h2
          exact absurd h2 hc
        | succ j' =>
          refine ⟨j', (ih checks.tail j').2 ⟨by omega, by rw [← getD_succ_eq_tail]; exact h2, ?_⟩, rfl⟩
          intro l hl
          rw [← getD_succ_eq_tail]
          exact h3 (l + 1) (by omega)

/-! ## one call of `attempt_displacement` -/

/-- the call returns `True` exactly when some attempt passes -/
theorem attemptLoop_fst (g : HCfg n ℝ) (sample : Bool) (old : St n ℝ) (reference start : ℝ) :
    ∀ (k : ℕ) (zs : List (Arr n ℝ)) (checks : List Bool) (c : HCtx n ℝ),
      (attemptLoop g sample old reference start k zs checks c).1 = (firstPass checks k).isSome := by
  intro k
  induction k with
  | zero => intro zs checks c; rfl
  | succ k ih =>
    intro zs checks c
    simp only [attemptLoop, firstPass]
    by_cases hc : checks.headD true = true
    · simp only [hc, if_true, Option.isSome_some]
    · simp only [hc, Bool.false_eq_true, if_false, Option.isSome_map]
      exact ih _ _ _

/-- the call succeeds in attempt `j = firstPass`: state and kinetic reference -/
theorem attemptLoop_pass (g : HCfg n ℝ) (old : St n ℝ) (reference start : ℝ) :
    ∀ (k : ℕ) (zs : List (Arr n ℝ)) (checks : List Bool) (c : HCtx n ℝ) (j : ℕ), c.q = old.q →
      firstPass checks k = some j →
      (attemptLoop g true old reference start k zs checks c).2.lastKE
          = (reference - start) + ekin g.m (g.draw old.q (zs.getD j Arr.zero)) ∧
      (⟨(attemptLoop g true old reference start k zs checks c).2.q,
        (attemptLoop g true old reference start k zs checks c).2.p⟩ : St n ℝ)
          = g.run ⟨old.q, g.draw old.q (zs.getD j Arr.zero)⟩ := by
  intro k zs checks c j hq hj
  have h1 : (attemptLoop g true old reference start k zs checks c).1 = true := by
    rw [attemptLoop_fst, hj]; rfl
  obtain ⟨j', hj', a, b, hke, hst⟩ := attemptLoop_fresh g old reference start k zs checks c
    (attemptLoop g true old reference start k zs checks c).2 hq (Prod.ext h1 rfl)
  have : firstPass checks k = some j' := (firstPass_some_iff checks k j').2 ⟨hj', a, b⟩
  rw [hj] at this
  cases this
  exact ⟨hke, hst⟩

/-- `attemptDisplacement` (momentum sampling on), successful in attempt `j` -/
theorem attemptDisplacement_pass (g : HCfg n ℝ) (k : ℕ) (zs : List (Arr n ℝ)) (checks : List Bool)
    (c : HCtx n ℝ) (j : ℕ) (hj : firstPass checks k = some j) :
    (attemptDisplacement g true k zs checks c).1 = true ∧
    (attemptDisplacement g true k zs checks c).2.lastKE
        = (c.lastKE - ekin g.m c.p) + ekin g.m (g.draw c.q (zs.getD j Arr.zero)) ∧
    (⟨(attemptDisplacement g true k zs checks c).2.q, (attemptDisplacement g true k zs checks c).2.p⟩ : St n ℝ)
        = g.run ⟨c.q, g.draw c.q (zs.getD j Arr.zero)⟩ := by
  refine ⟨?_, attemptLoop_pass g ⟨c.q, c.p⟩ c.lastKE (ekin g.m c.p) k zs checks c j rfl hj⟩
  simp only [attemptDisplacement]
  rw [attemptLoop_fst, hj]; rfl

/-- `attemptDisplacement`, every attempt vetoed: positions, momenta and the kinetic reference as found -/
theorem attemptDisplacement_none (g : HCfg n ℝ) (sample : Bool) (k : ℕ) (zs : List (Arr n ℝ))
    (checks : List Bool) (c : HCtx n ℝ) (hj : firstPass checks k = none) :
    (attemptDisplacement g sample k zs checks c).1 = false ∧
    (attemptDisplacement g sample k zs checks c).2.q = c.q ∧
    (attemptDisplacement g sample k zs checks c).2.p = c.p ∧
    (attemptDisplacement g sample k zs checks c).2.lastKE = c.lastKE := by
  have h1 : (attemptDisplacement g sample k zs checks c).1 = false := by
    simp only [attemptDisplacement]
    rw [attemptLoop_fst, hj]; rfl
  refine ⟨h1, ?_⟩
  exact attemptLoop_failed g sample ⟨c.q, c.p⟩ c.lastKE (ekin g.m c.p) k zs checks c
    (attemptDisplacement g sample k zs checks c).2 rfl rfl rfl (Prod.ext h1 rfl)

/-! ## the members' own total-energy changes -/

/-- total-energy change of one member's own trajectory: `H` after − `H` before, where `H` before is the
    potential energy of the positions the member found plus the kinetic energy of the momenta **it drew** in its
    successful attempt `j`; a member that moves positions only changes the potential energy; a member that
    failed changes nothing.  Written from `firstPass`, the draws and the integrator alone — not from what the
    move leaves in the context. -/
noncomputable def memberDeltaH (pe : Arr n ℝ → ℝ) : Member n ℝ → HCtx n ℝ → ℝ
  | .ham g k zs checks, c =>
    match firstPass checks k with
    | some j =>
      (pe (g.run ⟨c.q, g.draw c.q (zs.getD j Arr.zero)⟩).q
          + ekin g.m (g.run ⟨c.q, g.draw c.q (zs.getD j Arr.zero)⟩).p)
        - (pe c.q + ekin g.m (g.draw c.q (zs.getD j Arr.zero)))
    | none => 0
  | .disp (some q'), c => pe q' - pe c.q
  | .disp none, _ => 0

/-- the sum of the members' own total-energy changes, each member taken at the state the previous one left -/
noncomputable def compositeDeltaH (pe : Arr n ℝ → ℝ) : List (Member n ℝ) → HCtx n ℝ → ℝ
  | [], _ => 0
  | mem :: rest, c => memberDeltaH pe mem c + compositeDeltaH pe rest (memberCall mem c).2

/-- the masses a member's integrator and kinetic energies use are those of the atoms -/
def Member.massesAre (m : Col n ℝ) : Member n ℝ → Prop
  | .ham g _ _ _ => g.m = m
  | .disp _ => True

theorem St.mk_eq_iff {q p : Arr n ℝ} {s : St n ℝ} (h : (⟨q, p⟩ : St n ℝ) = s) : q = s.q ∧ p = s.p := by
  subst h; exact ⟨rfl, rfl⟩

/-- bookkeeping of one member: `PE + KE − last_kinetic_energy` grows by exactly the member's own
    total-energy change -/
theorem member_bookkeeping (pe : Arr n ℝ → ℝ) (m : Col n ℝ) (mem : Member n ℝ) (hm : mem.massesAre m)
    (c : HCtx n ℝ) :
    (pe (memberCall mem c).2.q + ekin m (memberCall mem c).2.p) - (memberCall mem c).2.lastKE
      = (pe c.q + ekin m c.p) - c.lastKE + memberDeltaH pe mem c := by
  cases mem with
  | ham g k zs checks =>
    have hm' : g.m = m := hm
    subst hm'
    simp only [memberCall, memberDeltaH]
    cases hj : firstPass checks k with
    | none =>
      obtain ⟨_, hq, hp, hk⟩ := attemptDisplacement_none g true k zs checks c hj
      rw [hq, hp, hk]; simp
    | some j =>
      obtain ⟨_, hk, hst⟩ := attemptDisplacement_pass g k zs checks c j hj
      obtain ⟨hq, hp⟩ := St.mk_eq_iff hst
      rw [hk, hq, hp]
      simp only
      ring
  | disp o =>
    cases o with
    | none => simp [memberCall, memberDeltaH]
    | some q' => simp only [memberCall, memberDeltaH]; ring

/-- bookkeeping of a composite: `PE + KE − last_kinetic_energy` grows by the sum of the members' own
    total-energy changes -/
theorem composite_bookkeeping (pe : Arr n ℝ → ℝ) (m : Col n ℝ) :
    ∀ (ms : List (Member n ℝ)) (_ : ∀ mem ∈ ms, mem.massesAre m) (c : HCtx n ℝ),
      (pe (compositeCall ms c).2.q + ekin m (compositeCall ms c).2.p) - (compositeCall ms c).2.lastKE
        = (pe c.q + ekin m c.p) - c.lastKE + compositeDeltaH pe ms c := by
  intro ms
  induction ms with
  | nil => intro _ c; simp [compositeCall, compositeDeltaH]
  | cons mem rest ih =>
    intro hm c
    simp only [compositeCall, compositeDeltaH]
    rw [ih (fun x hx => hm x (List.mem_cons_of_mem _ hx)),
      member_bookkeeping pe m mem (hm mem List.mem_cons_self)]
    ring

/-- a member that reports failure leaves positions, momenta and the kinetic reference as it found them -/
theorem memberCall_failed (mem : Member n ℝ) (c : HCtx n ℝ) (h : (memberCall mem c).1 = false) :
    (memberCall mem c).2.q = c.q ∧ (memberCall mem c).2.p = c.p ∧ (memberCall mem c).2.lastKE = c.lastKE := by
  cases mem with
  | ham g k zs checks =>
    simp only [memberCall] at h ⊢
    cases hj : firstPass checks k with
    | none =>
      obtain ⟨_, hq, hp, hk⟩ := attemptDisplacement_none g true k zs checks c hj
      exact ⟨hq, hp, hk⟩
    | some j =>
      have := (attemptDisplacement_pass g k zs checks c j hj).1
      rw [h] at this
      exact absurd this (by simp)
  | disp o =>
    cases o with
    | none => exact ⟨rfl, rfl, rfl⟩
    | some q' => simp [memberCall] at h

/-- a composite that reports failure (no member succeeded) leaves positions, momenta and the kinetic
    reference as it found them -/
theorem compositeCall_failed :
    ∀ (ms : List (Member n ℝ)) (c : HCtx n ℝ), (compositeCall ms c).1 = false →
      (compositeCall ms c).2.q = c.q ∧ (compositeCall ms c).2.p = c.p ∧
      (compositeCall ms c).2.lastKE = c.lastKE := by
  intro ms
  induction ms with
  | nil => intro c _; exact ⟨rfl, rfl, rfl⟩
  | cons mem rest ih =>
    intro c h
    simp only [compositeCall, Bool.or_eq_false_iff] at h ⊢
    obtain ⟨a1, a2, a3⟩ := memberCall_failed mem c h.1
    obtain ⟨b1, b2, b3⟩ := ih (memberCall mem c).2 h.2
    exact ⟨b1.trans a1, b2.trans a2, b3.trans a3⟩

end Verlet
