import QModel.RunLoop
/-! helper lemmas for C15 (run loop, observer schedule) -/
namespace RunLoop
variable {σ : Type}

/-! ## field projections of the elementary transitions -/

@[simp] theorem callObservers_stepCount (cfg : Cfg σ) (s : Sim σ) : (callObservers cfg s).stepCount = s.stepCount := rfl
@[simp] theorem callObservers_maxSteps (cfg : Cfg σ) (s : Sim σ) : (callObservers cfg s).maxSteps = s.maxSteps := rfl
@[simp] theorem callObservers_started (cfg : Cfg σ) (s : Sim σ) : (callObservers cfg s).started = s.started := rfl
@[simp] theorem callObservers_performed (cfg : Cfg σ) (s : Sim σ) : (callObservers cfg s).performed = s.performed := rfl
@[simp] theorem callObservers_st (cfg : Cfg σ) (s : Sim σ) : (callObservers cfg s).st = s.st := rfl
@[simp] theorem callObservers_trace (cfg : Cfg σ) (s : Sim σ) :
    (callObservers cfg s).trace = s.trace ++ callFrom s.stepCount s.st 0 cfg.intervals := rfl

@[simp] theorem writeHeader_stepCount (cfg : Cfg σ) (s : Sim σ) : (writeHeader cfg s).stepCount = s.stepCount := by
  unfold writeHeader; split <;> rfl
@[simp] theorem writeHeader_maxSteps (cfg : Cfg σ) (s : Sim σ) : (writeHeader cfg s).maxSteps = s.maxSteps := by
  unfold writeHeader; split <;> rfl
@[simp] theorem writeHeader_started (cfg : Cfg σ) (s : Sim σ) : (writeHeader cfg s).started = s.started := by
  unfold writeHeader; split <;> rfl
@[simp] theorem writeHeader_performed (cfg : Cfg σ) (s : Sim σ) : (writeHeader cfg s).performed = s.performed := by
  unfold writeHeader; split <;> rfl
@[simp] theorem writeHeader_st (cfg : Cfg σ) (s : Sim σ) : (writeHeader cfg s).st = s.st := by
  unfold writeHeader; split <;> rfl

@[simp] theorem doStep_stepCount (cfg : Cfg σ) (c : Bool) (s : Sim σ) : (doStep cfg c s).stepCount = s.stepCount := by
  unfold doStep; split <;> rfl
@[simp] theorem doStep_maxSteps (cfg : Cfg σ) (c : Bool) (s : Sim σ) : (doStep cfg c s).maxSteps = s.maxSteps := by
  unfold doStep; split <;> rfl
@[simp] theorem doStep_started (cfg : Cfg σ) (c : Bool) (s : Sim σ) : (doStep cfg c s).started = s.started := by
  unfold doStep; split <;> rfl
@[simp] theorem doStep_trace (cfg : Cfg σ) (c : Bool) (s : Sim σ) : (doStep cfg c s).trace = s.trace := by
  unfold doStep; split <;> rfl

@[simp] theorem tick_stepCount (cfg : Cfg σ) (c : Bool) (s : Sim σ) : (tick cfg c s).stepCount = s.stepCount + 1 := by
  simp [tick]
@[simp] theorem tick_maxSteps (cfg : Cfg σ) (c : Bool) (s : Sim σ) : (tick cfg c s).maxSteps = s.maxSteps := by
  simp [tick]
@[simp] theorem tick_started (cfg : Cfg σ) (c : Bool) (s : Sim σ) : (tick cfg c s).started = s.started := by
  simp [tick]

@[simp] theorem stepZero_stepCount (cfg : Cfg σ) (s : Sim σ) : (stepZero cfg s).stepCount = s.stepCount := by
  unfold stepZero; split
  · split <;> simp
  · rfl
@[simp] theorem stepZero_maxSteps (cfg : Cfg σ) (s : Sim σ) : (stepZero cfg s).maxSteps = s.maxSteps := by
  unfold stepZero; split
  · split <;> simp
  · rfl
@[simp] theorem stepZero_st (cfg : Cfg σ) (s : Sim σ) : (stepZero cfg s).st = s.st := by
  unfold stepZero; split
  · split <;> simp
  · rfl
@[simp] theorem stepZero_performed (cfg : Cfg σ) (s : Sim σ) : (stepZero cfg s).performed = s.performed := by
  unfold stepZero; split
  · split <;> simp
  · rfl

/-! ## the `while` loop is `n` iterations of its body -/

@[simp] theorem iter_stepCount (cfg : Cfg σ) (c : Bool) (n : Nat) (s : Sim σ) :
    (iter cfg c n s).stepCount = s.stepCount + n := by
  induction n generalizing s with
  | zero => rfl
  | succ n ih => simp [iter, ih]; omega

@[simp] theorem iter_maxSteps (cfg : Cfg σ) (c : Bool) (n : Nat) (s : Sim σ) :
    (iter cfg c n s).maxSteps = s.maxSteps := by
  induction n generalizing s with
  | zero => rfl
  | succ n ih => simp [iter, ih]

@[simp] theorem iter_started (cfg : Cfg σ) (c : Bool) (n : Nat) (s : Sim σ) :
    (iter cfg c n s).started = s.started := by
  induction n generalizing s with
  | zero => rfl
  | succ n ih => simp [iter, ih]

theorem loop_eq_iter (cfg : Cfg σ) (c : Bool) (fuel : Nat) (s : Sim σ) (h : s.stepCount + fuel = s.maxSteps) :
    loop cfg c fuel s = iter cfg c fuel s := by
  induction fuel generalizing s with
  | zero => rfl
  | succ n ih =>
    have hlt : s.stepCount < s.maxSteps := by omega
    simp only [loop, iter, hlt, if_true]
    exact ih _ (by simp; omega)

theorem iter_add (cfg : Cfg σ) (c : Bool) (a b : Nat) (s : Sim σ) :
    iter cfg c (a + b) s = iter cfg c b (iter cfg c a s) := by
  induction a generalizing s with
  | zero => simp [iter]
  | succ a ih => rw [Nat.succ_add]; simp only [iter]; exact ih _

/-- setting `max_steps` commutes with everything but the loop test -/
def setMax (m : Nat) (s : Sim σ) : Sim σ := { s with maxSteps := m }
/-- `validate_simulation` on the whole object -/
def validateSim (cfg : Cfg σ) (s : Sim σ) : Sim σ := { s with st := cfg.validate s.st }

theorem tick_setMax (cfg : Cfg σ) (c : Bool) (m : Nat) (s : Sim σ) :
    tick cfg c (setMax m s) = setMax m (tick cfg c s) := by
  unfold tick doStep setMax callObservers
  split <;> rfl

theorem iter_setMax (cfg : Cfg σ) (c : Bool) (m n : Nat) (s : Sim σ) :
    iter cfg c n (setMax m s) = setMax m (iter cfg c n s) := by
  induction n generalizing s with
  | zero => rfl
  | succ n ih => simp only [iter, tick_setMax, ih]

theorem stepZero_setMax (cfg : Cfg σ) (m : Nat) (s : Sim σ) :
    stepZero cfg (setMax m s) = setMax m (stepZero cfg s) := by
  unfold stepZero entersStepZero setMax callObservers writeHeader
  cases cfg.variant <;> cases cfg.logger <;> simp <;> split <;> rfl

@[simp] theorem setMax_setMax (m m' : Nat) (s : Sim σ) : setMax m' (setMax m s) = setMax m' s := rfl

/-- closed form of `irun` -/
theorem irunWith_eq (cfg : Cfg σ) (c : Bool) (n : Nat) (s : Sim σ) :
    irunWith cfg c n s = iter cfg c n (stepZero cfg (setMax (s.stepCount + n) (validateSim cfg s))) := by
  unfold irunWith
  simp only
  have : (stepZero cfg (setMax (s.stepCount + n) (validateSim cfg s))).maxSteps
       - (stepZero cfg (setMax (s.stepCount + n) (validateSim cfg s))).stepCount = n := by
    simp [setMax, validateSim]
  show loop cfg c ((stepZero cfg (setMax (s.stepCount + n) (validateSim cfg s))).maxSteps
       - (stepZero cfg (setMax (s.stepCount + n) (validateSim cfg s))).stepCount) _ = _
  rw [this]
  exact loop_eq_iter _ _ _ _ (by simp)

/-! ## when is the step-0 block skipped -/

/-- the step-0 block of a later `irun` will not be entered -/
def Past (cfg : Cfg σ) (s : Sim σ) : Prop :=
  match cfg.variant with
  | .coded => s.stepCount ≠ 0
  | .fixed => s.started = true ∨ s.stepCount ≠ 0

theorem stepZero_of_past (cfg : Cfg σ) (s : Sim σ) (h : Past cfg s) : stepZero cfg s = s := by
  unfold stepZero entersStepZero
  unfold Past at h
  cases hv : cfg.variant <;> simp only [hv] at h ⊢
  · simp [h]
  · rcases h with h | h <;> simp [h]

theorem past_iter (cfg : Cfg σ) (c : Bool) (n : Nat) (s : Sim σ) (h : Past cfg s) : Past cfg (iter cfg c n s) := by
  unfold Past at *
  cases hv : cfg.variant <;> simp only [hv] at h ⊢
  · simp; omega
  · rcases h with h | h
    · left; simp [h]
    · right; simp; omega

theorem past_setMax (cfg : Cfg σ) (m : Nat) (s : Sim σ) (h : Past cfg s) : Past cfg (setMax m s) := h

/-- after the fixed step-0 block the simulation is `Past` -/
theorem past_stepZero_fixed (cfg : Cfg σ) (s : Sim σ) (hv : cfg.variant = .fixed) : Past cfg (stepZero cfg s) := by
  unfold Past stepZero entersStepZero
  simp only [hv]
  by_cases h0 : s.stepCount = 0
  · cases hs : s.started <;> simp [h0, hs]
  · right; simp [h0]

/-- after the coded step-0 block the simulation is `Past` only if it is not at step 0 -/
theorem past_stepZero_coded (cfg : Cfg σ) (s : Sim σ) (h : s.stepCount ≠ 0) : Past cfg (stepZero cfg s) := by
  unfold Past
  cases hv : cfg.variant <;> simp [h]

/-! ## `validate_simulation` is a no-op on what it has produced -/

/-- `validate_simulation` does nothing on a state it has validated, and steps keep it that way -/
structure ValidateStable (cfg : Cfg σ) : Prop where
  idem : ∀ x, cfg.validate (cfg.validate x) = cfg.validate x
  step : ∀ k x, cfg.validate x = x → cfg.validate (cfg.stepFn k x) = cfg.stepFn k x

theorem tick_st_stable (cfg : Cfg σ) (hs : ValidateStable cfg) (c : Bool) (s : Sim σ)
    (h : cfg.validate s.st = s.st) : cfg.validate (tick cfg c s).st = (tick cfg c s).st := by
  unfold tick doStep
  split
  · simpa using hs.step _ _ h
  · simpa using h

theorem iter_st_stable (cfg : Cfg σ) (hs : ValidateStable cfg) (c : Bool) (n : Nat) (s : Sim σ)
    (h : cfg.validate s.st = s.st) : cfg.validate (iter cfg c n s).st = (iter cfg c n s).st := by
  induction n generalizing s with
  | zero => exact h
  | succ n ih => exact ih _ (tick_st_stable cfg hs c s h)

theorem validateSim_of_stable (cfg : Cfg σ) (s : Sim σ) (h : cfg.validate s.st = s.st) : validateSim cfg s = s := by
  unfold validateSim; rw [h]

/-- the general splitting lemma: a second `irun` continues the first one whenever the step-0 block is not
    re-entered -/
theorem irunWith_split (cfg : Cfg σ) (hs : ValidateStable cfg) (c : Bool) (a b : Nat) (s : Sim σ)
    (hp : Past cfg (stepZero cfg (setMax (s.stepCount + (a + b)) (validateSim cfg s))) ∨ 0 < a ∧ cfg.variant = .coded) :
    irunWith cfg c b (irunWith cfg c a s) = irunWith cfg c (a + b) s := by
  rw [irunWith_eq cfg c (a + b) s, iter_add, irunWith_eq cfg c a s]
  generalize hx : validateSim cfg s = x at hp
  have hxc : x.stepCount = s.stepCount := by rw [← hx]; rfl
  have hxst : cfg.validate x.st = x.st := by rw [← hx]; exact hs.idem _
  have hyc : (iter cfg c a (stepZero cfg (setMax (s.stepCount + a) x))).stepCount = s.stepCount + a := by
    simp [setMax, hxc]
  have hyst : cfg.validate (iter cfg c a (stepZero cfg (setMax (s.stepCount + a) x))).st
      = (iter cfg c a (stepZero cfg (setMax (s.stepCount + a) x))).st := by
    apply iter_st_stable cfg hs; simpa [setMax] using hxst
  have hm : setMax (s.stepCount + a + b) (iter cfg c a (stepZero cfg (setMax (s.stepCount + a) x)))
      = iter cfg c a (stepZero cfg (setMax (s.stepCount + a + b) x)) := by
    rw [← iter_setMax, ← stepZero_setMax, setMax_setMax]
  have hpast : Past cfg (iter cfg c a (stepZero cfg (setMax (s.stepCount + a + b) x))) := by
    rcases hp with hp | ⟨ha, hv⟩
    · apply past_iter; rw [Nat.add_assoc]; exact hp
    · unfold Past; simp only [hv]; simp [setMax, hxc]; omega
  rw [irunWith_eq cfg c b, validateSim_of_stable cfg _ hyst, hyc, hm, stepZero_of_past cfg _ hpast,
    Nat.add_assoc]

/-! ## the call log of one observer -/

@[simp] theorem callsOf_nil (i : Nat) : callsOf i ([] : List (Nat × Ev σ)) = [] := rfl
@[simp] theorem callsOf_append (i : Nat) (a b : List (Nat × Ev σ)) :
    callsOf i (a ++ b) = callsOf i a ++ callsOf i b := by simp [callsOf]
@[simp] theorem evsOf_nil (i : Nat) : evsOf i ([] : List (Nat × Ev σ)) = [] := rfl
@[simp] theorem evsOf_append (i : Nat) (a b : List (Nat × Ev σ)) :
    evsOf i (a ++ b) = evsOf i a ++ evsOf i b := by simp [evsOf]

@[simp] theorem fires_zero (k : Nat) : fires 0 k = false := by simp [fires]

theorem fires_pos (n k : Nat) (hn : 0 < n) : fires (n : Int) k = decide (k % n = 0) := by
  unfold fires
  have h1 : ((n : Int) > 0) := by omega
  have h2 : ¬ ((n : Int) < 0) := by omega
  simp only [h1, h2, decide_true, decide_false, Bool.true_and, Bool.false_and, Bool.or_false]
  rw [Bool.eq_iff_iff]
  simp only [beq_iff_eq, decide_eq_true_eq]
  constructor <;> intro h <;> omega

theorem fires_neg (n k : Nat) (hn : 0 < n) : fires (-(n : Int)) k = decide (k = n) := by
  unfold fires
  have h1 : ¬ (-(n : Int) > 0) := by omega
  have h2 : (-(n : Int) < 0) := by omega
  simp only [h1, h2, decide_true, decide_false, Bool.true_and, Bool.false_and, Bool.false_or]
  rw [Bool.eq_iff_iff]
  simp only [beq_iff_eq, decide_eq_true_eq, Int.natAbs_neg, Int.natAbs_natCast]
  omega

/-- observer `j`'s share of one `call_observers` sweep -/
theorem callsOf_callFrom (k : Nat) (st : σ) (j i : Nat) (ivs : List Int) :
    callsOf j (callFrom k st i ivs) = if i ≤ j ∧ fires (ivs.getD (j - i) 0) k = true then [k] else [] := by
  induction ivs generalizing i with
  | nil => simp [callFrom]
  | cons iv rest ih =>
    simp only [callFrom, callsOf_append, ih]
    by_cases hji : j = i
    · subst hji
      have : ¬ (j + 1 ≤ j) := by omega
      simp only [this, false_and, if_false, List.append_nil, Nat.sub_self, List.getD_cons_zero, Nat.le_refl, true_and]
      by_cases hf : fires iv k = true <;> simp [hf, callsOf]
    · by_cases hlt : i < j
      · have e : j - i = (j - (i + 1)) + 1 := by omega
        have h1 : i + 1 ≤ j := hlt
        have h2 : i ≤ j := by omega
        rw [e, List.getD_cons_succ]
        have : callsOf j (if fires iv k = true then [(i, Ev.call k st)] else []) = [] := by
          by_cases hf : fires iv k = true <;> simp [hf, callsOf]; omega
        simp [this, h1, h2]
      · have h1 : ¬ (i + 1 ≤ j) := by omega
        have h2 : ¬ (i ≤ j) := by omega
        have : callsOf j (if fires iv k = true then [(i, Ev.call k st)] else []) = [] := by
          by_cases hf : fires iv k = true <;> simp [hf, callsOf]; omega
        simp [this, h1, h2]

theorem callsOf_tick (cfg : Cfg σ) (c : Bool) (j : Nat) (s : Sim σ) :
    callsOf j (tick cfg c s).trace = callsOf j s.trace ++
      (if fires (cfg.intervals.getD j 0) (s.stepCount + 1) = true then [s.stepCount + 1] else []) := by
  simp [tick, callsOf_callFrom]

theorem callsOf_iter (cfg : Cfg σ) (c : Bool) (j n : Nat) (s : Sim σ) :
    callsOf j (iter cfg c n s).trace = callsOf j s.trace ++
      (List.range' (s.stepCount + 1) n).filter (fun k => fires (cfg.intervals.getD j 0) k) := by
  induction n generalizing s with
  | zero => simp [iter]
  | succ n ih =>
    simp only [iter, ih, callsOf_tick, tick_stepCount, List.range'_succ, List.filter_cons, List.append_assoc]
    split <;> simp

theorem callsOf_writeHeader (cfg : Cfg σ) (j : Nat) (s : Sim σ) :
    callsOf j (writeHeader cfg s).trace = callsOf j s.trace := by
  unfold writeHeader; split
  · simp [callsOf]
  · rfl

/-- the call log of observer `j` over one fresh `irun` of `n` steps: the steps `0 … n` at which the interval
    test holds, in increasing order -/
theorem callsOf_irun_fresh (cfg : Cfg σ) (c : Bool) (j n : Nat) (st : σ) :
    callsOf j (irunWith cfg c n (fresh st)).trace =
      (List.range (n + 1)).filter (fun k => fires (cfg.intervals.getD j 0) k) := by
  rw [irunWith_eq, callsOf_iter]
  have hz : (stepZero cfg (setMax ((fresh st).stepCount + n) (validateSim cfg (fresh st)))).stepCount = 0 := by
    simp [setMax, validateSim, fresh]
  rw [hz]
  have h0 : callsOf j (stepZero cfg (setMax ((fresh st).stepCount + n) (validateSim cfg (fresh st)))).trace
      = [0].filter (fun k => fires (cfg.intervals.getD j 0) k) := by
    unfold stepZero entersStepZero
    cases hv : cfg.variant <;>
      simp [setMax, validateSim, fresh, callsOf_writeHeader, callsOf_callFrom, List.filter_cons]
  rw [h0, ← List.filter_append]
  congr 1
  rw [List.range_eq_range', List.range'_succ]
  rfl

theorem filter_range_mod (n N : Nat) (k : Nat) :
    k ∈ (List.range (N + 1)).filter (fun k => decide (k % n = 0)) ↔ k ≤ N ∧ k % n = 0 := by
  simp [List.mem_filter, List.mem_range]; omega

theorem filter_range_eq (n N : Nat) :
    (List.range (N + 1)).filter (fun k => decide (k = n)) = if n ≤ N then [n] else [] := by
  induction N with
  | zero =>
    by_cases h : n = 0
    · subst h; simp
    · have : ¬ n ≤ 0 := by omega
      simp [this, List.filter_cons]; omega
  | succ N ih =>
    rw [List.range_succ, List.filter_append, ih]
    by_cases h1 : n ≤ N
    · have h2 : n ≤ N + 1 := by omega
      have h3 : ¬ (N + 1 = n) := by omega
      simp [h1, h2, h3]
    · by_cases h4 : n = N + 1
      · subst h4; simp
      · have h2 : ¬ n ≤ N + 1 := by omega
        have h3 : ¬ (N + 1 = n) := by omega
        simp [h1, h2, h3]

/-! ## events of the logger -/

/-- every event is an observer call (no header) -/
def RowsOnly (l : List (Nat × Ev σ)) : Prop := ∀ e ∈ l, e.2 ≠ Ev.header

theorem rowsOnly_callFrom (k : Nat) (st : σ) (i : Nat) (ivs : List Int) : RowsOnly (callFrom k st i ivs) := by
  induction ivs generalizing i with
  | nil => intro e he; simp [callFrom] at he
  | cons iv rest ih =>
    intro e he
    simp only [callFrom, List.mem_append] at he
    rcases he with he | he
    · by_cases hf : fires iv k = true
      · simp [hf] at he; subst he; simp
      · simp [hf] at he
    · exact ih _ e he

theorem rowsOnly_append {a b : List (Nat × Ev σ)} (ha : RowsOnly a) (hb : RowsOnly b) : RowsOnly (a ++ b) := by
  intro e he; rcases List.mem_append.mp he with h | h; exact ha e h; exact hb e h

theorem tick_trace_ext (cfg : Cfg σ) (c : Bool) (s : Sim σ) :
    ∃ t, (tick cfg c s).trace = s.trace ++ t ∧ RowsOnly t := by
  refine ⟨callFrom (s.stepCount + 1) (doStep cfg c s).st 0 cfg.intervals, ?_, rowsOnly_callFrom _ _ _ _⟩
  simp [tick]

theorem iter_trace_ext (cfg : Cfg σ) (c : Bool) (n : Nat) (s : Sim σ) :
    ∃ t, (iter cfg c n s).trace = s.trace ++ t ∧ RowsOnly t := by
  induction n generalizing s with
  | zero => exact ⟨[], by simp [iter], by intro e he; cases he⟩
  | succ n ih =>
    obtain ⟨t1, h1, r1⟩ := tick_trace_ext cfg c s
    obtain ⟨t2, h2, r2⟩ := ih (tick cfg c s)
    exact ⟨t1 ++ t2, by simp only [iter]; rw [h2, h1, List.append_assoc], rowsOnly_append r1 r2⟩

theorem evsOf_rowsOnly (i : Nat) (t : List (Nat × Ev σ)) (h : RowsOnly t) : ∀ e ∈ evsOf i t, e ≠ Ev.header := by
  intro e he
  simp only [evsOf, List.mem_filterMap] at he
  obtain ⟨x, hx, hxe⟩ := he
  by_cases hxi : x.1 = i
  · simp [hxi] at hxe; subst hxe; exact h x hx
  · simp [hxi] at hxe

/-- trace of a fresh `irun`: the header (if a default logger exists), then only observer calls -/
theorem irun_fresh_trace (cfg : Cfg σ) (c : Bool) (n : Nat) (st : σ) :
    ∃ t, (irunWith cfg c n (fresh st)).trace =
      (match cfg.logger with | some i => [(i, Ev.header)] | none => []) ++ t ∧ RowsOnly t := by
  rw [irunWith_eq]
  obtain ⟨t2, h2, r2⟩ := iter_trace_ext cfg c n (stepZero cfg (setMax ((fresh st).stepCount + n) (validateSim cfg (fresh st))))
  refine ⟨callFrom 0 (cfg.validate st) 0 cfg.intervals ++ t2, ?_, rowsOnly_append (rowsOnly_callFrom _ _ _ _) r2⟩
  rw [h2]
  unfold stepZero entersStepZero writeHeader
  cases hv : cfg.variant <;> cases hl : cfg.logger <;> simp [setMax, validateSim, fresh]

/-! ## number of executed step bodies -/

theorem tick_performed (cfg : Cfg σ) (c : Bool) (s : Sim σ) (h : cfg.kind = .eager ∨ c = true) :
    (tick cfg c s).performed = s.performed + 1 := by
  unfold tick doStep
  rcases h with h | h <;> simp [h]

theorem iter_performed (cfg : Cfg σ) (c : Bool) (n : Nat) (s : Sim σ) (h : cfg.kind = .eager ∨ c = true) :
    (iter cfg c n s).performed = s.performed + n := by
  induction n generalizing s with
  | zero => rfl
  | succ n ih => simp only [iter]; rw [ih, tick_performed cfg c s h]; omega

theorem iter_unconsumed (cfg : Cfg σ) (n : Nat) (s : Sim σ) (h : cfg.kind = .lazy) :
    (iter cfg false n s).performed = s.performed ∧ (iter cfg false n s).st = s.st := by
  induction n generalizing s with
  | zero => exact ⟨rfl, rfl⟩
  | succ n ih =>
    simp only [iter]
    obtain ⟨h1, h2⟩ := ih (tick cfg false s)
    rw [h1, h2]
    simp [tick, doStep, h]

/-! ## eager drivers ignore what the caller does with the yielded value -/

theorem tick_eager (cfg : Cfg σ) (h : cfg.kind = .eager) (c : Bool) (s : Sim σ) : tick cfg c s = tick cfg true s := by
  unfold tick doStep; simp [h]

theorem loop_eager (cfg : Cfg σ) (h : cfg.kind = .eager) (c : Bool) (fuel : Nat) (s : Sim σ) :
    loop cfg c fuel s = loop cfg true fuel s := by
  induction fuel generalizing s with
  | zero => rfl
  | succ n ih => simp only [loop, tick_eager cfg h c s, ih]

theorem irunWith_eager (cfg : Cfg σ) (h : cfg.kind = .eager) (c : Bool) (n : Nat) (s : Sim σ) :
    irunWith cfg c n s = irunWith cfg true n s := by
  unfold irunWith; simp only [loop_eager cfg h c]

end RunLoop
