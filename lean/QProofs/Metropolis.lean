import QModel.Metropolis
import Mathlib.Algebra.BigOperators.Fin
import Mathlib.Algebra.BigOperators.Ring.Finset
import Mathlib.Algebra.Order.BigOperators.Ring.Finset
import Mathlib.Data.Real.Basic
import Mathlib.Logic.Function.Iterate
import Mathlib.Tactic.Ring
import Mathlib.Tactic.FieldSimp
import Mathlib.Tactic.Linarith
import Mathlib.Tactic.NormNum
/-!
# Reversibility of the Metropolis–Hastings kernel (helper lemmas for C01)

* `min_ratio_swap`        — the core identity `a·min(1, b/a) = b·min(1, a/b)`;
* `metropolis_flow_symm`, `hastings_flow_symm` — detailed balance of the acceptance rules;
* `KOn s q a`             — the transition matrix on a finite set `s` of states of an arbitrary type (rejected mass on the
                            diagonal), `K = KOn univ` on a `Fintype`;
* `stationary_of_detailed_balance`, `K_row_sum`, `K_nonneg`, `K_reversible`, `stationary_iterate`;
* the bridge to the executable model of `QModel/Metropolis.lean` at the carrier `ℝ`
  (`kernel_eq_KOn`, `model_stationary`, `model_metropolis_stationary`, `model_hastings_stationary`).
-/

namespace Metro
open Finset

/-! ## the acceptance rules satisfy detailed balance -/

/-- the core identity of the Metropolis rule -/
theorem min_ratio_swap (a b : ℝ) (ha : 0 < a) (hb : 0 < b) : a * min 1 (b / a) = b * min 1 (a / b) := by
  rcases le_total a b with h | h
  · have h1 : 1 ≤ b / a := by rw [le_div_iff₀ ha]; linarith
    have h2 : a / b ≤ 1 := by rw [div_le_one hb]; exact h
    rw [min_eq_left h1, min_eq_right h2]; field_simp
  · have h1 : b / a ≤ 1 := by rw [div_le_one ha]; exact h
    have h2 : 1 ≤ a / b := by rw [le_div_iff₀ hb]; linarith
    rw [min_eq_right h1, min_eq_left h2]; field_simp

/-- symmetric proposal + `min(1, π y / π x)`: the flows `x → y` and `y → x` are equal -/
theorem metropolis_flow_symm {S : Type*} (π : S → ℝ) (q : S → S → ℝ) (hq : ∀ x y, q x y = q y x)
    (hπ : ∀ x, 0 < π x) (x y : S) :
    π x * q x y * min 1 (π y / π x) = π y * q y x * min 1 (π x / π y) := by
  rw [hq y x]
  have h := min_ratio_swap (π x) (π y) (hπ x) (hπ y)
  calc π x * q x y * min 1 (π y / π x) = q x y * (π x * min 1 (π y / π x)) := by ring
    _ = q x y * (π y * min 1 (π x / π y)) := by rw [h]
    _ = π y * q x y * min 1 (π x / π y) := by ring

/-- general Hastings form: proposal densities `g x y ≥ 0` (not necessarily symmetric, possibly zero) and
    `min(1, π y · g y x / (π x · g x y))` -/
theorem hastings_flow_symm {S : Type*} (π : S → ℝ) (g : S → S → ℝ) (hπ : ∀ x, 0 < π x)
    (hg : ∀ x y, 0 ≤ g x y) (x y : S) :
    π x * g x y * min 1 (π y * g y x / (π x * g x y))
      = π y * g y x * min 1 (π x * g x y / (π y * g y x)) := by
  rcases (hg x y).eq_or_lt with h1 | h1
  · rw [← h1]; simp
  rcases (hg y x).eq_or_lt with h2 | h2
  · rw [← h2]; simp
  exact min_ratio_swap (π x * g x y) (π y * g y x) (mul_pos (hπ x) h1) (mul_pos (hπ y) h2)

/-! ## the kernel with the rejected mass on the diagonal -/

variable {S : Type*} [DecidableEq S]

/-- transition matrix on the finite set `s`: `q x y · a x y` off the diagonal, `1 − Σ_{z ∈ s, z ≠ x} q x z · a x z` on it -/
noncomputable def KOn (s : Finset S) (q a : S → S → ℝ) (x y : S) : ℝ :=
  if x = y then 1 - ∑ z ∈ s.erase x, q x z * a x z else q x y * a x y

/-- one trial applied to a (not necessarily normalised) distribution -/
noncomputable def pushOn (s : Finset S) (k : S → S → ℝ) (p : S → ℝ) (y : S) : ℝ := ∑ x ∈ s, p x * k x y

theorem KOn_self (s : Finset S) (q a : S → S → ℝ) (x : S) :
    KOn s q a x x = 1 - ∑ z ∈ s.erase x, q x z * a x z := by simp [KOn]

theorem KOn_ne (s : Finset S) (q a : S → S → ℝ) {x y : S} (h : x ≠ y) : KOn s q a x y = q x y * a x y := by
  simp [KOn, h]

/-- every row sums to one: nothing is lost, the rejected mass stays at `x` -/
theorem KOn_row_sum (s : Finset S) (q a : S → S → ℝ) {x : S} (hx : x ∈ s) : ∑ y ∈ s, KOn s q a x y = 1 := by
  rw [← add_sum_erase s _ hx, KOn_self]
  have h : ∑ y ∈ s.erase x, KOn s q a x y = ∑ y ∈ s.erase x, q x y * a x y :=
    sum_congr rfl (fun y hy => KOn_ne s q a (ne_of_mem_erase hy).symm)
  rw [h]; ring

/-- **detailed balance ⇒ stationarity** on a finite set of states -/
theorem stationary_of_detailed_balance_on (s : Finset S) (π : S → ℝ) (q a : S → S → ℝ)
    (hdb : ∀ x ∈ s, ∀ y ∈ s, π x * (q x y * a x y) = π y * (q y x * a y x)) {y : S} (hy : y ∈ s) :
    ∑ x ∈ s, π x * KOn s q a x y = π y := by
  rw [← add_sum_erase s _ hy, KOn_self]
  have h : ∑ x ∈ s.erase y, π x * KOn s q a x y = ∑ x ∈ s.erase y, π y * (q y x * a y x) :=
    sum_congr rfl (fun x hx => by
      rw [KOn_ne s q a (ne_of_mem_erase hx), hdb x (mem_of_mem_erase hx) y hy])
  rw [h, ← mul_sum]; ring

/-- the kernel itself is reversible with respect to `π` -/
theorem KOn_reversible (s : Finset S) (π : S → ℝ) (q a : S → S → ℝ)
    (hdb : ∀ x ∈ s, ∀ y ∈ s, π x * (q x y * a x y) = π y * (q y x * a y x)) {x y : S} (hx : x ∈ s) (hy : y ∈ s) :
    π x * KOn s q a x y = π y * KOn s q a y x := by
  by_cases h : x = y
  · subst h; rfl
  · rw [KOn_ne s q a h, KOn_ne s q a (Ne.symm h), hdb x hx y hy]

/-- the kernel is a Markov matrix: entries are non-negative when `q` is sub-stochastic and `0 ≤ a ≤ 1` -/
theorem KOn_nonneg (s : Finset S) (q a : S → S → ℝ) (hq0 : ∀ x y, 0 ≤ q x y) (hq1 : ∀ x, ∑ y ∈ s, q x y ≤ 1)
    (ha0 : ∀ x y, 0 ≤ a x y) (ha1 : ∀ x y, a x y ≤ 1) (x y : S) : 0 ≤ KOn s q a x y := by
  by_cases h : x = y
  · subst h
    rw [KOn_self]
    have h1 : ∑ z ∈ s.erase x, q x z * a x z ≤ ∑ z ∈ s.erase x, q x z :=
      sum_le_sum (fun z _ => by nlinarith [hq0 x z, ha0 x z, ha1 x z])
    have h2 : ∑ z ∈ s.erase x, q x z ≤ ∑ z ∈ s, q x z :=
      sum_le_sum_of_subset_of_nonneg (erase_subset _ _) (fun z _ _ => hq0 x z)
    linarith [hq1 x]
  · rw [KOn_ne s q a h]; exact mul_nonneg (hq0 x y) (ha0 x y)

section fintype
variable [Fintype S]

/-- the transition matrix on a finite type -/
noncomputable def K (q a : S → S → ℝ) (x y : S) : ℝ := KOn univ q a x y

/-- one trial applied to a distribution -/
noncomputable def pushK (k : S → S → ℝ) (p : S → ℝ) : S → ℝ := fun y => ∑ x, p x * k x y

theorem K_self (q a : S → S → ℝ) (x : S) : K q a x x = 1 - ∑ z ∈ univ.erase x, q x z * a x z := KOn_self _ _ _ _
theorem K_ne (q a : S → S → ℝ) {x y : S} (h : x ≠ y) : K q a x y = q x y * a x y := KOn_ne _ _ _ h

theorem K_row_sum (q a : S → S → ℝ) (x : S) : ∑ y, K q a x y = 1 := KOn_row_sum univ q a (mem_univ x)

theorem stationary_of_detailed_balance (π : S → ℝ) (q a : S → S → ℝ)
    (hdb : ∀ x y, π x * (q x y * a x y) = π y * (q y x * a y x)) (y : S) :
    ∑ x, π x * K q a x y = π y :=
  stationary_of_detailed_balance_on univ π q a (fun x _ y _ => hdb x y) (mem_univ y)

theorem K_reversible (π : S → ℝ) (q a : S → S → ℝ)
    (hdb : ∀ x y, π x * (q x y * a x y) = π y * (q y x * a y x)) (x y : S) :
    π x * K q a x y = π y * K q a y x :=
  KOn_reversible univ π q a (fun x _ y _ => hdb x y) (mem_univ x) (mem_univ y)

theorem K_nonneg (q a : S → S → ℝ) (hq0 : ∀ x y, 0 ≤ q x y) (hq1 : ∀ x, ∑ y, q x y ≤ 1)
    (ha0 : ∀ x y, 0 ≤ a x y) (ha1 : ∀ x y, a x y ≤ 1) (x y : S) : 0 ≤ K q a x y :=
  KOn_nonneg univ q a hq0 hq1 ha0 ha1 x y

omit [DecidableEq S] in
/-- a stationary distribution stays stationary after any number of trials -/
theorem stationary_iterate (k : S → S → ℝ) (π : S → ℝ) (h : ∀ y, ∑ x, π x * k x y = π y) (n : ℕ) :
    (pushK k)^[n] π = π :=
  Function.iterate_fixed (funext h) n

/-- total mass is conserved by one trial (rows sum to one) -/
theorem pushK_mass (q a : S → S → ℝ) (p : S → ℝ) : ∑ y, pushK (K q a) p y = ∑ x, p x := by
  unfold pushK
  rw [sum_comm]
  exact sum_congr rfl (fun x _ => by rw [← mul_sum, K_row_sum, mul_one])

end fintype

/-! ## bridge to the executable model (`QModel/Metropolis.lean` at the carrier `ℝ`) -/

theorem sumTo_real (n : ℕ) (f : ℕ → ℝ) : sumTo n f = ∑ i ∈ range n, f i := by
  induction n with
  | zero => simp [sumTo]
  | succ k ih => rw [sumTo, ih, sum_range_succ]

theorem min1_real (r : ℝ) : min1 r = min 1 r := by
  unfold min1
  split_ifs with h
  · exact (min_eq_right h.le).symm
  · exact (min_eq_left (not_lt.mp h)).symm

theorem accMetropolis_real (w : ℕ → ℝ) (x y : ℕ) : accMetropolis w x y = min 1 (w y / w x) := min1_real _

theorem accHastings_real (w : ℕ → ℝ) (g : ℕ → ℕ → ℝ) (x y : ℕ) :
    accHastings w g x y = min 1 (w y * g y x / (w x * g x y)) := min1_real _

theorem leave_real (n : ℕ) (q a : ℕ → ℕ → ℝ) (x : ℕ) :
    leave n q a x = ∑ z ∈ (range n).erase x, q x z * a x z := by
  unfold leave
  rw [sumTo_real, ← filter_ne' (range n) x, sum_filter]
  exact sum_congr rfl (fun z _ => by by_cases h : z = x <;> simp [h])

/-- the model's transition matrix is the matrix `KOn (range n)` of the theorems -/
theorem kernel_eq_KOn (n : ℕ) (q a : ℕ → ℕ → ℝ) (x y : ℕ) : kernel n q a x y = KOn (range n) q a x y := by
  unfold kernel KOn
  rw [leave_real]

theorem push_real (n : ℕ) (k : ℕ → ℕ → ℝ) (p : ℕ → ℝ) (y : ℕ) : push n k p y = ∑ x ∈ range n, p x * k x y :=
  sumTo_real n _

/-- detailed balance on the states `< n` ⇒ the weights are stationary for the model's kernel -/
theorem model_stationary (n : ℕ) (w : ℕ → ℝ) (q a : ℕ → ℕ → ℝ)
    (hdb : ∀ x y, x < n → y < n → flow w q a x y = flow w q a y x) {y : ℕ} (hy : y < n) :
    push n (kernel n q a) w y = w y := by
  rw [push_real]
  simp only [kernel_eq_KOn]
  exact stationary_of_detailed_balance_on (range n) w q a
    (fun x hx y hy => hdb x y (mem_range.mp hx) (mem_range.mp hy)) (mem_range.mpr hy)

/-- the Metropolis rule with a symmetric proposal keeps positive weights stationary -/
theorem model_metropolis_stationary (n : ℕ) (w : ℕ → ℝ) (q : ℕ → ℕ → ℝ) (hw : ∀ x, 0 < w x)
    (hq : ∀ x y, q x y = q y x) {y : ℕ} (hy : y < n) :
    push n (kernel n q (accMetropolis w)) w y = w y := by
  refine model_stationary n w q _ (fun x y _ _ => ?_) hy
  unfold flow
  rw [accMetropolis_real, accMetropolis_real, ← mul_assoc, ← mul_assoc]
  exact metropolis_flow_symm w q hq hw x y

/-- the Hastings rule keeps positive weights stationary for any non-negative proposal matrix -/
theorem model_hastings_stationary (n : ℕ) (w : ℕ → ℝ) (g : ℕ → ℕ → ℝ) (hw : ∀ x, 0 < w x)
    (hg : ∀ x y, 0 ≤ g x y) {y : ℕ} (hy : y < n) :
    push n (kernel n g (accHastings w g)) w y = w y := by
  refine model_stationary n w g _ (fun x y _ _ => ?_) hy
  unfold flow
  rw [accHastings_real, accHastings_real, ← mul_assoc, ← mul_assoc]
  exact hastings_flow_symm w g hw hg x y

/-- every row of the model's kernel sums to one -/
theorem model_row_sum (n : ℕ) (q a : ℕ → ℕ → ℝ) {x : ℕ} (hx : x < n) : sumTo n (kernel n q a x) = 1 := by
  rw [sumTo_real]
  simp only [kernel_eq_KOn]
  exact KOn_row_sum (range n) q a (mem_range.mpr hx)

/-- the decision of one trial: the chain is at `y` when `u < a x y` and is still at `x` otherwise -/
theorem decideTrial_real (a : ℕ → ℕ → ℝ) (x y : ℕ) (u : ℝ) :
    (u < a x y → decideTrial a x y u = y) ∧ (¬ u < a x y → decideTrial a x y u = x) := by
  unfold decideTrial
  constructor <;> intro h <;> simp [h]

end Metro
