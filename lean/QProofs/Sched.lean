import QModel.Sched
import QProofs.Rng
import Mathlib.Data.List.Forall2
import Mathlib.Data.List.Perm.Subperm
import Mathlib.Data.List.Count
/-! Helper lemmas for C09 (move scheduling). -/
namespace Sched
open Rng (Script)

variable {ν : Type}

/-! ## the due filter and the forced list -/

theorem mem_dueList {t : Table ν} {step : Nat} {e : Entry ν} :
    e ∈ dueList t step ↔ e ∈ t ∧ step % e.interval = 0 := by
  simp [dueList]

theorem forced_cons (x : Entry ν) (d : Table ν) :
    forced (x :: d) = List.replicate x.minCount x ++ forced d := by
  simp [forced]

theorem mem_forced {d : Table ν} {e : Entry ν} (h : e ∈ forced d) : e ∈ d := by
  simp only [forced, List.mem_flatMap, List.mem_replicate] at h
  obtain ⟨x, hx, _, rfl⟩ := h
  exact hx

theorem forced_length (d : Table ν) : (forced d).length = minSum d := by
  induction d with
  | nil => rfl
  | cons x d ih => rw [forced_cons]; simp [minSum, ih] at *

/-- the forced list holds each due entry at least `minCount` times -/
theorem countP_forced (d : Table ν) (p : Entry ν → Bool) (e : Entry ν) (he : e ∈ d) (hp : p e = true) :
    e.minCount ≤ (forced d).countP p := by
  induction d with
  | nil => simp at he
  | cons x d ih =>
    rw [forced_cons, List.countP_append]
    rcases List.mem_cons.mp he with rfl | h
    · rw [List.countP_replicate]; simp [hp]
    · exact Nat.le_trans (ih h) (Nat.le_add_left _ _)

theorem minSum_dueList_le (t : Table ν) (step : Nat) : minSum (dueList t step) ≤ minSum t := by
  unfold minSum dueList
  induction t with
  | nil => simp
  | cons x t ih =>
    simp only [List.filter_cons]
    split <;> simp <;> omega

/-! ## `dict(zip(slots, forced))` -/

theorem lookupLast_some_mem {β : Type} (i : Nat) (m : List (Nat × β)) (b : β) (h : lookupLast i m = some b) :
    (i, b) ∈ m := by
  induction m with
  | nil => simp [lookupLast] at h
  | cons x m ih =>
    obtain ⟨j, c⟩ := x
    simp only [lookupLast] at h
    cases hr : lookupLast i m with
    | some b' => rw [hr] at h; cases h; exact List.mem_cons_of_mem _ (ih hr)
    | none =>
      rw [hr] at h
      by_cases hj : j = i
      · simp [hj] at h; subst h; subst hj; exact List.mem_cons_self
      · simp [hj] at h

theorem lookupLast_none_iff {β : Type} (i : Nat) (m : List (Nat × β)) :
    lookupLast i m = none ↔ i ∉ m.map Prod.fst := by
  induction m with
  | nil => simp [lookupLast]
  | cons x m ih =>
    obtain ⟨j, c⟩ := x
    simp only [lookupLast, List.map_cons, List.mem_cons, not_or]
    cases hr : lookupLast i m with
    | some b' =>
      have : i ∈ m.map Prod.fst := by
        by_contra hc; rw [← ih] at hc; rw [hc] at hr; cases hr
      simp [this]
    | none =>
      have hn := ih.mp hr
      by_cases hj : j = i
      · simp [hj]
      · simp [hj, hn, Ne.symm hj]

/-- with distinct keys the pair `(slots[j], fs[j])` is what the dict returns for `slots[j]` -/
theorem lookupLast_zip_nodup {β : Type} : ∀ (slots : List Nat) (fs : List β), slots.Nodup →
    slots.length = fs.length → ∀ (j : Nat) (h1 : j < slots.length) (h2 : j < fs.length),
    lookupLast slots[j] (List.zip slots fs) = some fs[j] := by
  intro slots
  induction slots with
  | nil => intro fs _ _ j h1; simp at h1
  | cons a slots ih =>
    intro fs hnd hl j h1 h2
    cases fs with
    | nil => simp at h2
    | cons f fs =>
      obtain ⟨ha, hnd'⟩ := List.nodup_cons.mp hnd
      have hl' : slots.length = fs.length := by simpa using hl
      cases j with
      | zero =>
        simp only [List.getElem_cons_zero, List.zip_cons_cons, lookupLast]
        have : lookupLast a (List.zip slots fs) = none := by
          rw [lookupLast_none_iff]; intro hm
          rw [List.map_fst_zip (by omega)] at hm; exact ha hm
        simp [this]
      | succ j =>
        simp only [List.getElem_cons_succ, List.zip_cons_cons, lookupLast]
        rw [ih fs hnd' hl' j (by simpa using h1) (by simpa using h2)]

/-! ## one cycle -/

/-- what `pickSlot` can return for the cycle `idx`, given that every draw comes from the script `S` -/
def SlotOK (d : Table ν) (m : List (Nat × Entry ν)) (S : Script) (idx : Nat) (sl : Slot ν) : Prop :=
  (∃ e, lookupLast idx m = some e ∧ sl.free = false ∧ sl.entry = e) ∨
  (lookupLast idx m = none ∧ sl.free = true ∧
    ∃ u i, u ∈ S ∧ Rng.choicePIdx (d.map (·.weight)) u = .ok i ∧ d[i]? = some sl.entry)

theorem pickSlot_spec (d : Table ν) (m : List (Nat × Entry ν)) (idx : Nat) (s s1 : Script) (sl : Slot ν)
    (h : pickSlot d m idx s = .ok (sl, s1)) :
    (∃ e, lookupLast idx m = some e ∧ sl = ⟨false, e⟩ ∧ s1 = s) ∨
    (lookupLast idx m = none ∧ sl.free = true ∧
      ∃ u i, s = u :: s1 ∧ Rng.choicePIdx (d.map (·.weight)) u = .ok i ∧ d[i]? = some sl.entry) := by
  unfold pickSlot at h
  cases hl : lookupLast idx m with
  | some e =>
    simp only [hl, Except.ok.injEq, Prod.mk.injEq] at h
    exact Or.inl ⟨e, rfl, h.1.symm, h.2.symm⟩
  | none =>
    right
    simp only [hl] at h
    cases hc : Rng.choiceP d (d.map (·.weight)) s with
    | error e => rw [hc] at h; cases h
    | ok p =>
      obtain ⟨e, s2⟩ := p
      simp only [hc, Except.ok.injEq, Prod.mk.injEq] at h
      obtain ⟨rfl, rfl⟩ := h
      obtain ⟨u, i, h1, h2, h3⟩ := Rng.choiceP_ok _ _ _ _ _ hc
      exact ⟨rfl, rfl, u, i, h1, h2, h3⟩

/-- a consumer only consumes: the script it hands back is a suffix of the one it got -/
def Consumes {β : Type} (k : ν → Script → Except Err (β × Script)) : Prop :=
  ∀ nm s b s', k nm s = .ok (b, s') → s' <:+ s

theorem noop_consumes : Consumes (noop (ν := ν)) := by
  intro nm s b s' h
  simp only [noop, Except.ok.injEq, Prod.mk.injEq] at h
  rw [h.2]; exact List.suffix_refl _

theorem SlotOK.mono {d : Table ν} {m : List (Nat × Entry ν)} {S S' : Script} {idx : Nat} {sl : Slot ν}
    (h : SlotOK d m S idx sl) (hs : ∀ u ∈ S, u ∈ S') : SlotOK d m S' idx sl := by
  rcases h with h | ⟨h1, h2, u, i, hu, h3⟩
  · exact Or.inl h
  · exact Or.inr ⟨h1, h2, u, i, hs u hu, h3⟩

/-! ## the loop -/

theorem fillM_spec {β : Type} (d : Table ν) (m : List (Nat × Entry ν)) (k : ν → Script → Except Err (β × Script))
    (hk : Consumes k) : ∀ (idxs : List Nat) (s : Script) (out : List (Slot ν × β)) (s' : Script),
    fillM d m k idxs s = .ok (out, s') →
      s' <:+ s ∧ List.Forall₂ (fun idx o => SlotOK d m s idx o.1) idxs out := by
  intro idxs
  induction idxs with
  | nil =>
    intro s out s' h
    simp only [fillM, Except.ok.injEq, Prod.mk.injEq] at h
    obtain ⟨rfl, rfl⟩ := h
    exact ⟨List.suffix_refl _, List.Forall₂.nil⟩
  | cons idx rest ih =>
    intro s out s' h
    simp only [fillM] at h
    cases hp : pickSlot d m idx s with
    | error e => simp [hp] at h
    | ok p1 =>
      obtain ⟨sl, s1⟩ := p1
      simp only [hp] at h
      cases hkk : k sl.entry.name s1 with
      | error e => simp [hkk] at h
      | ok p2 =>
        obtain ⟨b, s2⟩ := p2
        simp only [hkk] at h
        cases hf : fillM d m k rest s2 with
        | error e => simp [hf] at h
        | ok p3 =>
          obtain ⟨l, s3⟩ := p3
          simp only [hf, Except.ok.injEq, Prod.mk.injEq] at h
          obtain ⟨rfl, rfl⟩ := h
          obtain ⟨hs3, hall⟩ := ih s2 l s3 hf
          have hs2 : s2 <:+ s1 := hk _ _ _ _ hkk
          have hs1 : s1 <:+ s := by
            rcases pickSlot_spec d m idx s s1 sl hp with ⟨e, _, _, rfl⟩ | ⟨_, _, u, i, rfl, _⟩
            · exact List.suffix_refl _
            · exact List.suffix_cons _ _
          refine ⟨hs3.trans (hs2.trans hs1), List.Forall₂.cons ?_ ?_⟩
          · rcases pickSlot_spec d m idx s s1 sl hp with ⟨e, h1, rfl, rfl⟩ | ⟨h1, h2, u, i, rfl, h3, h4⟩
            · exact Or.inl ⟨e, h1, rfl, rfl⟩
            · exact Or.inr ⟨h1, h2, u, i, List.mem_cons_self, h3, h4⟩
          · refine hall.imp ?_
            intro a o ho
            exact ho.mono (fun u hu => (hs2.trans hs1).subset hu)

/-! ## the whole loop over `range maxCycles` with the dict built from the forced slots -/

theorem fillWith_get {β : Type} (d : Table ν) (c : Nat) (slots : List Nat)
    (k : ν → Script → Except Err (β × Script)) (hk : Consumes k) (s : Script)
    (out : List (Slot ν × β)) (s' : Script) (h : fillWith d c slots k s = .ok (out, s')) :
    slots.length = (forced d).length ∧ out.length = c ∧ s' <:+ s ∧
      ∀ (i : Nat) (hi : i < out.length), SlotOK d (List.zip slots (forced d)) s i out[i].1 := by
  unfold fillWith at h
  split at h
  · cases h
  · rename_i hl
    obtain ⟨hs, hall⟩ := fillM_spec d _ k hk _ _ _ _ h
    obtain ⟨hlen, hget⟩ := List.forall₂_iff_get.mp hall
    rw [List.length_range] at hlen
    refine ⟨not_not.mp hl, hlen.symm, hs, ?_⟩
    intro i hi
    have := hget i (by rw [List.length_range]; omega) hi
    simpa using this

/-- every cycle holds a due entry -/
theorem slotOK_mem {d : Table ν} {slots : List Nat} {S : Script} {idx : Nat} {sl : Slot ν}
    (h : SlotOK d (List.zip slots (forced d)) S idx sl) : sl.entry ∈ d := by
  rcases h with ⟨e, h1, _, h3⟩ | ⟨_, _, u, i, _, _, h3⟩
  · have := lookupLast_some_mem _ _ _ h1
    rw [h3]; exact mem_forced (List.of_mem_zip this).2
  · exact List.mem_of_getElem? h3

/-- a freely filled cycle never holds a weight-zero entry -/
theorem slotOK_free_pos {d : Table ν} {m : List (Nat × Entry ν)} {S : Script} {idx : Nat} {sl : Slot ν}
    (h : SlotOK d m S idx sl) (hfree : sl.free = true)
    (hw : ∀ e ∈ d, 0 ≤ e.weight) (hS : 0 < (d.map (·.weight)).sum) (hu : ∀ u ∈ S, 0 ≤ u) :
    0 < sl.entry.weight := by
  rcases h with ⟨e, _, h2, _⟩ | ⟨_, _, u, i, hu', h3, h4⟩
  · rw [hfree] at h2; cases h2
  · obtain ⟨hi, he⟩ := List.getElem?_eq_some_iff.mp h4
    have hw' : ∀ w ∈ d.map (·.weight), 0 ≤ w := by
      intro w hw''; obtain ⟨e, he', rfl⟩ := List.mem_map.mp hw''; exact hw e he'
    have := Rng.choicePIdx_pos_weight (d.map (·.weight)) u i hw' hS (hu u hu') (by simpa using hi) h3
    simpa [he] using this

theorem range_map_getElem? {α : Type} (l : List α) : (List.range l.length).map (fun i => l[i]?) = l.map some := by
  apply List.ext_getElem
  · simp
  · intro i h1 h2
    simp at h1
    simp [h1]

/-- counting over positions: `#{i < len | q l[i]}` is `countP q l` -/
theorem countP_range_getElem? {α : Type} (l : List α) (q : Option α → Bool) :
    (List.range l.length).countP (fun i => q l[i]?) = l.countP (fun x => q (some x)) := by
  have h1 : (List.range l.length).countP (fun i => q l[i]?)
      = ((List.range l.length).map (fun i => l[i]?)).countP q := by
    rw [List.countP_map]; rfl
  rw [h1, range_map_getElem?, List.countP_map]; rfl

/-- **minimum counts**: if the forced slots are distinct and inside the step, every due entry occupies at least
    `minCount` cycles -/
theorem fillWith_min_count {β : Type} (d : Table ν) (c : Nat) (slots : List Nat)
    (k : ν → Script → Except Err (β × Script)) (hk : Consumes k) (s : Script)
    (out : List (Slot ν × β)) (s' : Script) (h : fillWith d c slots k s = .ok (out, s'))
    (hnd : slots.Nodup) (hlt : ∀ i ∈ slots, i < c) (p : Entry ν → Bool) (e : Entry ν) (he : e ∈ d)
    (hp : p e = true) : e.minCount ≤ (out.map (·.1.entry)).countP p := by
  obtain ⟨hl, hc, _, hget⟩ := fillWith_get d c slots k hk s out s' h
  set ents := out.map (·.1.entry) with hents
  have hel : ents.length = c := by simp [hents, hc]
  let q : Option (Entry ν) → Bool := fun o => match o with | some x => p x | none => false
  -- the forced slots, read off the output, are the forced list
  have hmap : slots.map (fun i => ents[i]?) = (forced d).map some := by
    apply List.ext_getElem
    · simp [hl]
    · intro j h1 h2
      have hj : j < slots.length := by simpa using h1
      have hjf : j < (forced d).length := by omega
      have hsc : slots[j] < out.length := by rw [hc]; exact hlt _ (List.getElem_mem hj)
      have hlk := lookupLast_zip_nodup slots (forced d) hnd hl j hj hjf
      rcases hget slots[j] hsc with ⟨e', h1', _, h3'⟩ | ⟨h1', _⟩
      · rw [hlk] at h1'; cases h1'
        simp only [List.getElem_map]
        rw [List.getElem?_eq_getElem (by simpa [hents] using hsc)]
        simp [hents, h3']
      · rw [hlk] at h1'; cases h1'
  have hsub : List.Subperm slots (List.range c) :=
    List.subperm_of_subset hnd (fun i hi => List.mem_range.mpr (hlt i hi))
  have h1 := hsub.countP_le (fun i => q ents[i]?)
  have h2 : slots.countP (fun i => q ents[i]?) = (forced d).countP p := by
    have : slots.countP (fun i => q ents[i]?) = (slots.map (fun i => ents[i]?)).countP q := by
      rw [List.countP_map]; rfl
    rw [this, hmap, List.countP_map]; rfl
  have h3 : (List.range c).countP (fun i => q ents[i]?) = ents.countP p := by
    rw [← hel, countP_range_getElem? ents q]
  rw [h2, h3] at h1
  exact Nat.le_trans (countP_forced d p e he hp) h1

/-- which cycles are free: exactly those that are not forced slots -/
theorem fillWith_free_iff {β : Type} (d : Table ν) (c : Nat) (slots : List Nat)
    (k : ν → Script → Except Err (β × Script)) (hk : Consumes k) (s : Script)
    (out : List (Slot ν × β)) (s' : Script) (h : fillWith d c slots k s = .ok (out, s'))
    (i : Nat) (hi : i < out.length) : out[i].1.free = true ↔ i ∉ slots := by
  obtain ⟨hl, _, _, hget⟩ := fillWith_get d c slots k hk s out s' h
  have hz : (List.zip slots (forced d)).map Prod.fst = slots := List.map_fst_zip (by omega)
  rcases hget i hi with ⟨e, h1, h2, _⟩ | ⟨h1, h2, _⟩
  · have : i ∈ slots := by
      rw [← hz]; by_contra hc; rw [← lookupLast_none_iff] at hc; rw [hc] at h1; cases h1
    simp [h2, this]
  · rw [lookupLast_none_iff, hz] at h1
    simp [h2, h1]

/-! ## `yield_moves` as a whole -/

theorem run_ok_cases {β : Type} (t : Table ν) (c step : Nat) (k : ν → Script → Except Err (β × Script))
    (s : Script) (out : List (Slot ν × β)) (s' : Script) (h : run t c step k s = .ok (out, s')) :
    (dueList t step = [] ∧ out = [] ∧ s' = s) ∨
    (dueList t step ≠ [] ∧ ∃ slots s1,
      Rng.sampleNoRepl c (forced (dueList t step)).length s = .ok (slots, s1) ∧
      fillWith (dueList t step) c slots k s1 = .ok (out, s')) := by
  unfold run at h
  split at h
  · cases h
  · split at h
    · rename_i hd
      simp only [Except.ok.injEq, Prod.mk.injEq] at h
      exact Or.inl ⟨List.isEmpty_iff.mp hd, h.1.symm, h.2.symm⟩
    · rename_i hd
      right
      refine ⟨fun hc => hd (List.isEmpty_iff.mpr hc), ?_⟩
      cases hs : Rng.sampleNoRepl c (forced (dueList t step)).length s with
      | error e => rw [hs] at h; cases h
      | ok p =>
        obtain ⟨slots, s1⟩ := p
        rw [hs] at h
        exact ⟨slots, s1, rfl, h⟩

theorem run_zero_interval {β : Type} (t : Table ν) (c step : Nat) (k : ν → Script → Except Err (β × Script))
    (s : Script) (e : Entry ν) (he : e ∈ t) (h0 : e.interval = 0) : run t c step k s = .error .zeroDivision := by
  unfold run
  rw [if_pos]
  rw [List.any_eq_true]; exact ⟨e, he, by simp [h0]⟩

/-- number of cycles of `range c` that are not forced slots -/
theorem countP_not_mem_range (slots : List Nat) (c : Nat) (hnd : slots.Nodup) (hlt : ∀ i ∈ slots, i < c) :
    (List.range c).countP (fun i => decide (i ∉ slots)) + slots.length = c := by
  have h1 : (List.range c).countP (fun i => decide (i ∈ slots)) = slots.length := by
    rw [List.countP_eq_length_filter]
    apply List.Perm.length_eq
    rw [List.perm_ext_iff_of_nodup (List.nodup_range.filter _) hnd]
    intro a
    simp only [List.mem_filter, List.mem_range, decide_eq_true_eq]
    exact ⟨fun h => h.2, fun h => ⟨hlt a h, h⟩⟩
  have h2 := List.length_eq_countP_add_countP (fun i => decide (i ∈ slots)) (l := List.range c)
  rw [List.length_range, h1] at h2
  have h3 : (List.range c).countP (fun i => decide (i ∉ slots))
      = (List.range c).countP (fun a => ¬ (decide (a ∈ slots)) = true) := by
    apply List.countP_congr; intro x _; simp
  omega

/-- with valid weights and draws in `[0,1)` the loop succeeds as soon as the script holds one draw per free cycle -/
theorem fillM_noop_ok (d : Table ν) (m : List (Nat × Entry ν))
    (hw : ∀ e ∈ d, 0 ≤ e.weight) (hS : 0 < (d.map (·.weight)).sum) :
    ∀ (idxs : List Nat) (s : Script), (∀ u ∈ s, 0 ≤ u ∧ u < 1) →
      idxs.countP (fun i => (lookupLast i m).isNone) ≤ s.length →
      ∃ out s', fillM d m (noop (ν := ν)) idxs s = .ok (out, s') := by
  have hw' : ∀ w ∈ d.map (·.weight), 0 ≤ w := by
    intro w hw''; obtain ⟨e, he', rfl⟩ := List.mem_map.mp hw''; exact hw e he'
  intro idxs
  induction idxs with
  | nil => intro s _ _; exact ⟨[], s, rfl⟩
  | cons idx rest ih =>
    intro s hs hlen
    cases hl : lookupLast idx m with
    | some e =>
      have hlen' : rest.countP (fun i => (lookupLast i m).isNone) ≤ s.length := by
        rw [List.countP_cons] at hlen; omega
      obtain ⟨out, s', h⟩ := ih s hs hlen'
      exact ⟨(⟨false, e⟩, ()) :: out, s', by simp [fillM, pickSlot, hl, noop, h]⟩
    | none =>
      rw [List.countP_cons] at hlen
      simp only [hl, Option.isNone_none, if_true] at hlen
      cases s with
      | nil => simp at hlen
      | cons u s =>
        obtain ⟨h0, h1⟩ := hs u List.mem_cons_self
        obtain ⟨i, hi, hil⟩ := Rng.choicePIdx_total (d.map (·.weight)) u hw' hS h0 h1
        have hil' : i < d.length := by simpa using hil
        have hc := Rng.choiceP_of_idx d (d.map (·.weight)) u s i d[i] hi (List.getElem?_eq_getElem hil')
        obtain ⟨out, s', h⟩ := ih s (fun v hv => hs v (List.mem_cons_of_mem _ hv))
          (by simp at hlen; omega)
        exact ⟨(⟨true, d[i]⟩, ()) :: out, s', by simp [fillM, pickSlot, hl, hc, noop, h]⟩

/-- without a consumer, the `j`-th free cycle is a function of the `j`-th remaining draw alone, and nothing else
    is consumed: `s = pre ++ s'` with one element of `pre` per free cycle -/
theorem fillM_noop_draws (d : Table ν) (m : List (Nat × Entry ν)) :
    ∀ (idxs : List Nat) (s : Script) (out : List (Slot ν × Unit)) (s' : Script),
      fillM d m (noop (ν := ν)) idxs s = .ok (out, s') →
      ∃ pre, s = pre ++ s' ∧
        List.Forall₂ (fun u o => ∃ i, Rng.choicePIdx (d.map (·.weight)) u = .ok i ∧ d[i]? = some o.1.entry)
          pre (out.filter (fun o => o.1.free)) := by
  intro idxs
  induction idxs with
  | nil =>
    intro s out s' h
    simp only [fillM, Except.ok.injEq, Prod.mk.injEq] at h
    obtain ⟨rfl, rfl⟩ := h
    exact ⟨[], rfl, by simp⟩
  | cons idx rest ih =>
    intro s out s' h
    simp only [fillM] at h
    cases hp : pickSlot d m idx s with
    | error e => simp [hp] at h
    | ok p1 =>
      obtain ⟨sl, s1⟩ := p1
      have hn : ∀ (nm : ν) (z : Script), noop nm z = .ok ((), z) := fun _ _ => rfl
      simp only [hp, hn] at h
      cases hf : fillM d m noop rest s1 with
      | error e => simp [hf] at h
      | ok p3 =>
        obtain ⟨l, s3⟩ := p3
        simp only [hf, Except.ok.injEq, Prod.mk.injEq] at h
        obtain ⟨rfl, rfl⟩ := h
        obtain ⟨pre, hpre, hall⟩ := ih s1 l s3 hf
        rcases pickSlot_spec d m idx s s1 sl hp with ⟨e, _, rfl, rfl⟩ | ⟨_, h2, u, i, rfl, h3, h4⟩
        · exact ⟨pre, hpre, by simpa using hall⟩
        · refine ⟨u :: pre, by simp [hpre], ?_⟩
          simp only [List.filter_cons, h2, if_true]
          exact List.Forall₂.cons ⟨i, h3, h4⟩ hall

/-! ## the four clauses for `run` with any consumer -/

section run
variable {β : Type} (t : Table ν) (c step : Nat) (k : ν → Script → Except Err (β × Script)) (hk : Consumes k)
  (s : Script) (out : List (Slot ν × β)) (s' : Script) (h : run t c step k s = .ok (out, s'))
include hk h

theorem run_length : (dueList t step = [] → out = []) ∧ (dueList t step ≠ [] → out.length = c) := by
  rcases run_ok_cases t c step k s out s' h with ⟨h1, h2, _⟩ | ⟨h1, slots, s1, _, hf⟩
  · exact ⟨fun _ => h2, fun hn => absurd h1 hn⟩
  · exact ⟨fun hn => absurd hn h1, fun _ => (fillWith_get _ c slots k hk s1 out s' hf).2.1⟩

theorem run_suffix : s' <:+ s := by
  rcases run_ok_cases t c step k s out s' h with ⟨_, _, h3⟩ | ⟨_, slots, s1, hs, hf⟩
  · rw [h3]; exact List.suffix_refl _
  · obtain ⟨_, _, _, pre, hp, _⟩ := Rng.sampleNoRepl_spec _ _ _ _ _ hs
    have := (fillWith_get _ c slots k hk s1 out s' hf).2.2.1
    exact this.trans (hp ▸ List.suffix_append pre s1)

theorem run_due : ∀ o ∈ out, o.1.entry ∈ t ∧ step % o.1.entry.interval = 0 := by
  intro o ho
  rcases run_ok_cases t c step k s out s' h with ⟨_, h2, _⟩ | ⟨_, slots, s1, _, hf⟩
  · rw [h2] at ho; cases ho
  · obtain ⟨_, _, _, hget⟩ := fillWith_get _ c slots k hk s1 out s' hf
    obtain ⟨i, hi, rfl⟩ := List.getElem_of_mem ho
    exact mem_dueList.mp (slotOK_mem (hget i hi))

theorem run_min_count (p : Entry ν → Bool) (e : Entry ν) (he : e ∈ t) (hdue : step % e.interval = 0)
    (hp : p e = true) : e.minCount ≤ (out.map (·.1.entry)).countP p := by
  have hed : e ∈ dueList t step := mem_dueList.mpr ⟨he, hdue⟩
  rcases run_ok_cases t c step k s out s' h with ⟨h1, _, _⟩ | ⟨_, slots, s1, hs, hf⟩
  · rw [h1] at hed; cases hed
  · obtain ⟨_, hlt, hnd, _⟩ := Rng.sampleNoRepl_spec _ _ _ _ _ hs
    exact fillWith_min_count _ c slots k hk s1 out s' hf hnd hlt p e hed hp

theorem run_zero_weight (hw : ∀ e ∈ t, 0 ≤ e.weight)
    (hS : 0 < ((dueList t step).map (·.weight)).sum) (hu : ∀ u ∈ s, 0 ≤ u) :
    ∀ o ∈ out, o.1.free = true → 0 < o.1.entry.weight := by
  intro o ho hfree
  rcases run_ok_cases t c step k s out s' h with ⟨_, h2, _⟩ | ⟨_, slots, s1, hs, hf⟩
  · rw [h2] at ho; cases ho
  · obtain ⟨_, _, _, hget⟩ := fillWith_get _ c slots k hk s1 out s' hf
    obtain ⟨_, _, _, pre, hp, _⟩ := Rng.sampleNoRepl_spec _ _ _ _ _ hs
    obtain ⟨i, hi, rfl⟩ := List.getElem_of_mem ho
    refine slotOK_free_pos (hget i hi) hfree (fun e he => hw e (mem_dueList.mp he).1) hS ?_
    intro u hu'; exact hu u (by rw [hp]; exact List.mem_append_right _ hu')

/-- the number of forced cycles is the sum of the due minimum counts -/
theorem run_forced_count (hd : dueList t step ≠ []) :
    (out.filter (fun o => !o.1.free)).length = minSum (dueList t step) := by
  rcases run_ok_cases t c step k s out s' h with ⟨h1, _, _⟩ | ⟨_, slots, s1, hs, hf⟩
  · exact absurd h1 hd
  · obtain ⟨hl, hlt, hnd, _⟩ := Rng.sampleNoRepl_spec _ _ _ _ _ hs
    obtain ⟨_, hc, _, _⟩ := fillWith_get _ c slots k hk s1 out s' hf
    have hfi := fillWith_free_iff _ c slots k hk s1 out s' hf
    have h1 : (out.filter (fun o => !o.1.free)).length + (out.filter (fun o => o.1.free)).length = out.length := by
      rw [← List.countP_eq_length_filter, ← List.countP_eq_length_filter]
      have := List.length_eq_countP_add_countP (fun o : Slot ν × β => o.1.free) (l := out)
      have h3 : out.countP (fun o => !o.1.free) = out.countP (fun a => ¬ (a.1.free) = true) := by
        apply List.countP_congr; intro x _; simp
      omega
    have h2 : (out.filter (fun o => o.1.free)).length = (List.range c).countP (fun i => decide (i ∉ slots)) := by
      rw [← List.countP_eq_length_filter, ← hc]
      have := countP_range_getElem? out (fun o => match o with | some x => x.1.free | none => false)
      simp only at this
      rw [← this]
      apply List.countP_congr
      intro i hi
      have hi' : i < out.length := List.mem_range.mp hi
      simp only [List.getElem?_eq_getElem hi', decide_eq_true_eq]
      exact hfi i hi'
    have h3 := countP_not_mem_range slots c hnd hlt
    rw [forced_length] at hl
    omega

end run

/-! ## totality and exact consumption of `list(mc.yield_moves())` -/

theorem filter_free_add {β : Type} (out : List (Slot ν × β)) :
    (out.filter (fun o => !o.1.free)).length + (out.filter (fun o => o.1.free)).length = out.length := by
  rw [← List.countP_eq_length_filter, ← List.countP_eq_length_filter]
  have := List.length_eq_countP_add_countP (fun o : Slot ν × β => o.1.free) (l := out)
  have h3 : out.countP (fun o => !o.1.free) = out.countP (fun a => ¬ (a.1.free) = true) := by
    apply List.countP_congr; intro x _; simp
  omega

/-- under the property's quantifier the model does not fail: one draw per cycle suffices -/
theorem run_noop_ok (t : Table ν) (c step : Nat) (s : Script)
    (hint : ∀ e ∈ t, 1 ≤ e.interval) (hw : ∀ e ∈ t, 0 ≤ e.weight)
    (hS : dueList t step ≠ [] → 0 < ((dueList t step).map (·.weight)).sum)
    (hmin : minSum (dueList t step) ≤ c) (hu : ∀ u ∈ s, 0 ≤ u ∧ u < 1) (hlen : c ≤ s.length) :
    ∃ out s', run t c step (noop (ν := ν)) s = .ok (out, s') := by
  unfold run
  have h0 : t.any (fun e => e.interval == 0) = false := by
    rw [List.any_eq_false]; intro e he; have := hint e he; simp; omega
  rw [h0]
  by_cases hd : (dueList t step).isEmpty = true
  · simp [hd]
  · simp only [Bool.false_eq_true, if_false, hd]
    have hdne : dueList t step ≠ [] := fun hc => hd (List.isEmpty_iff.mpr hc)
    have hk : (forced (dueList t step)).length ≤ c := by rw [forced_length]; exact hmin
    obtain ⟨slots, s1, hs⟩ := Rng.sampleNoRepl_ok c _ s hk (by omega)
    obtain ⟨hl, hlt, hnd, pre, hp, hpl⟩ := Rng.sampleNoRepl_spec _ _ _ _ _ hs
    rw [hs]
    simp only
    unfold fillWith
    rw [if_neg (by simp [hl])]
    apply fillM_noop_ok _ _ (fun e he => hw e (mem_dueList.mp he).1) (hS hdne)
    · intro u hu'; exact hu u (by rw [hp]; exact List.mem_append_right _ hu')
    · have hz : (List.zip slots (forced (dueList t step))).map Prod.fst = slots :=
        List.map_fst_zip (by omega)
      have hcp : (List.range c).countP (fun i => (lookupLast i (List.zip slots (forced (dueList t step)))).isNone)
          = (List.range c).countP (fun i => decide (i ∉ slots)) := by
        apply List.countP_congr
        intro i _
        rw [Option.isNone_iff_eq_none, lookupLast_none_iff, hz]; simp
      rw [hcp]
      have h3 := countP_not_mem_range slots c hnd hlt
      have : s.length = pre.length + s1.length := by rw [hp]; simp
      omega

/-- a successful `list(mc.yield_moves())` with something due consumes exactly `maxCycles` draws:
    one per forced move for the slot sampling, one per free cycle -/
theorem run_noop_consumed (t : Table ν) (c step : Nat) (s : Script) (out : List (Slot ν × Unit)) (s' : Script)
    (h : run t c step (noop (ν := ν)) s = .ok (out, s')) (hd : dueList t step ≠ []) :
    s.length = s'.length + c := by
  have hfc := run_forced_count t c step noop noop_consumes s out s' h hd
  have hlen := (run_length t c step noop noop_consumes s out s' h).2 hd
  rcases run_ok_cases t c step noop s out s' h with ⟨h1, _, _⟩ | ⟨_, slots, s1, hs, hf⟩
  · exact absurd h1 hd
  · obtain ⟨hl, _, _, pre, hp, hpl⟩ := Rng.sampleNoRepl_spec _ _ _ _ _ hs
    unfold fillWith at hf
    split at hf
    · cases hf
    · obtain ⟨pre2, hp2, hall⟩ := fillM_noop_draws _ _ _ _ _ _ hf
      have h2 := hall.length_eq
      have h3 := filter_free_add out
      rw [forced_length] at hpl
      have : s.length = pre.length + (pre2.length + s'.length) := by rw [hp, hp2]; simp
      omega

/-! ## `add_move` -/

section addMove
variable [DecidableEq ν]

omit [DecidableEq ν] in
theorem minSum_cons (x : Entry ν) (t : Table ν) : minSum (x :: t) = x.minCount + minSum t := by
  simp [minSum]

/-- a new name: the sum of minimum counts grows by the new count -/
theorem minSum_upsert_new (e : Entry ν) (t : Table ν) (h : ∀ x ∈ t, x.name ≠ e.name) :
    minSum (upsert e t) = minSum t + e.minCount := by
  induction t with
  | nil => simp [upsert, minSum]
  | cons x t ih =>
    have hx : x.name ≠ e.name := h x (by simp)
    simp only [upsert, hx, if_false, minSum_cons]
    rw [ih (fun y hy => h y (by simp [hy]))]; omega

/-- an existing name: the old count is replaced by the new one -/
theorem minSum_upsert_replace (e : Entry ν) (t : Table ν) (old : Entry ν)
    (h : t.find? (fun x => decide (x.name = e.name)) = some old) :
    minSum (upsert e t) + old.minCount = minSum t + e.minCount := by
  induction t with
  | nil => simp at h
  | cons x t ih =>
    by_cases hx : x.name = e.name
    · simp only [List.find?_cons, hx, decide_true, Option.some.injEq] at h
      subst h
      simp only [upsert, hx, if_true, minSum_cons]; omega
    · simp only [List.find?_cons, hx, decide_false] at h
      simp only [upsert, hx, if_false, minSum_cons]
      have := ih h; omega

theorem minSum_upsert_le (e : Entry ν) (t : Table ν) : minSum (upsert e t) ≤ minSum t + e.minCount := by
  induction t with
  | nil => simp [upsert, minSum]
  | cons x t ih =>
    by_cases hx : x.name = e.name
    · simp only [upsert, hx, if_true, minSum_cons]; omega
    · simp only [upsert, hx, if_false, minSum_cons]; omega

/-- the dict keeps its keys unique, an existing key keeps its place and a new one goes to the end -/
theorem upsert_names (e : Entry ν) (t : Table ν) :
    (upsert e t).map (·.name) =
      if e.name ∈ t.map (·.name) then t.map (·.name) else t.map (·.name) ++ [e.name] := by
  induction t with
  | nil => simp [upsert]
  | cons x t ih =>
    by_cases hx : x.name = e.name
    · simp [upsert, hx]
    · have hx' : ¬ e.name = x.name := fun h => hx h.symm
      simp only [upsert, hx, if_false, List.map_cons, ih, List.mem_cons, hx', false_or]
      split <;> simp

theorem upsert_nodup (e : Entry ν) (t : Table ν) (h : (t.map (·.name)).Nodup) :
    ((upsert e t).map (·.name)).Nodup := by
  rw [upsert_names]
  split
  · exact h
  · rename_i hn
    exact List.nodup_append.mpr ⟨h, List.nodup_singleton _, by
      intro a ha b hb; simp at hb; subst hb; intro hab; subst hab; exact hn ha⟩

theorem mem_upsert (e : Entry ν) (t : Table ν) : e ∈ upsert e t := by
  induction t with
  | nil => simp [upsert]
  | cons x t ih =>
    by_cases hx : x.name = e.name
    · simp [upsert, hx]
    · simp [upsert, hx, ih]

theorem addMove_ok_iff (t : Table ν) (c : Nat) (e : Entry ν) (crit : Bool) :
    (∃ t', addMove t c e crit = .ok t') ↔ minSum t + e.minCount ≤ c ∧ crit = true := by
  unfold addMove
  by_cases h : minSum t + e.minCount > c
  · simp [h]
  · cases crit <;> simp [h] ; omega

theorem addMove_ok_inv (t t' : Table ν) (c : Nat) (e : Entry ν) (crit : Bool)
    (h : addMove t c e crit = .ok t') : t' = upsert e t ∧ minSum t' ≤ c := by
  unfold addMove at h
  split at h
  · cases h
  · split at h
    · cases h
    · cases h
      exact ⟨rfl, Nat.le_trans (minSum_upsert_le e t) (by omega)⟩

theorem addMoves_inv (c : Nat) : ∀ (ops : List (Entry ν × Bool)) (t : Table ν), minSum t ≤ c →
    minSum (addMoves c t ops) ≤ c := by
  intro ops
  induction ops with
  | nil => intro t h; exact h
  | cons op ops ih =>
    intro t h
    obtain ⟨e, cr⟩ := op
    simp only [addMoves]
    cases ha : addMove t c e cr with
    | error _ => exact ih t h
    | ok t' => exact ih t' (addMove_ok_inv t t' c e cr ha).2

theorem addMoves_nodup (c : Nat) : ∀ (ops : List (Entry ν × Bool)) (t : Table ν), (t.map (·.name)).Nodup →
    ((addMoves c t ops).map (·.name)).Nodup := by
  intro ops
  induction ops with
  | nil => intro t h; exact h
  | cons op ops ih =>
    intro t h
    obtain ⟨e, cr⟩ := op
    simp only [addMoves]
    cases ha : addMove t c e cr with
    | error _ => exact ih t h
    | ok t' =>
      apply ih t'
      rw [(addMove_ok_inv t t' c e cr ha).1]; exact upsert_nodup e t h

end addMove

end Sched
