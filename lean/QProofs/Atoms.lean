import QModel.Atoms
/-!
# Lemmas for C19 (core Lean only — no Mathlib import, so core-only files can import this)
-/
namespace RI
variable {α : Type}

/-! ## scatter / pick -/

theorem scatterGet_none_of_not_mem (idx : List Nat) (taken : List α) (k : Nat) (h : k ∉ idx) :
    scatterGet idx taken k = none := by
  induction idx generalizing taken with
  | nil => cases taken <;> rfl
  | cons a as ih =>
    cases taken with
    | nil => rfl
    | cons x xs =>
      have h1 : ¬ a = k := fun e => h (by simp [e])
      have h2 : k ∉ as := fun e => h (by simp [e])
      simp [scatterGet, ih xs h2, h1]

theorem scatterGet_isSome (idx : List Nat) (taken : List α) (k : Nat) (hk : k ∈ idx)
    (hl : idx.length ≤ taken.length) : ∃ x, scatterGet idx taken k = some x := by
  induction idx generalizing taken with
  | nil => cases hk
  | cons a as ih =>
    cases taken with
    | nil => simp at hl
    | cons x xs =>
      simp only [List.length_cons, Nat.add_le_add_iff_right] at hl
      simp only [scatterGet]
      by_cases hm : k ∈ as
      · obtain ⟨y, hy⟩ := ih xs hm hl
        exact ⟨y, by rw [hy]⟩
      · have ha : a = k := by
          rcases List.mem_cons.mp hk with h | h
          · exact h.symm
          · exact absurd h hm
        rw [scatterGet_none_of_not_mem as xs k hm]
        exact ⟨x, by simp [ha]⟩

theorem pick_cons (l : List α) (a : Nat) (as : List Nat) (ha : a < l.length) :
    pick l (a :: as) = l[a] :: pick l as := by
  simp [pick, ha]

theorem pick_length (l : List α) (idx : List Nat) (hv : ∀ i ∈ idx, i < l.length) :
    (pick l idx).length = idx.length := by
  induction idx with
  | nil => rfl
  | cons a as ih =>
    rw [pick_cons l a as (hv a (by simp))]
    simp [ih (fun i hi => hv i (by simp [hi]))]

/-- after `new[idx] = l[idx]` every assigned position holds its own original row — for ANY index list (repeats too) -/
theorem scatterGet_pick (l : List α) (idx : List Nat) (hv : ∀ i ∈ idx, i < l.length) (k : Nat) (hk : k ∈ idx) :
    scatterGet idx (pick l idx) k = l[k]? := by
  induction idx with
  | nil => cases hk
  | cons a as ih =>
    have ha : a < l.length := hv a (by simp)
    have hv' : ∀ i ∈ as, i < l.length := fun i hi => hv i (by simp [hi])
    rw [pick_cons l a as ha]
    simp only [scatterGet]
    by_cases hm : k ∈ as
    · rw [ih hv' hm]
      have : k < l.length := hv' k hm
      simp [this]
    · have hak : a = k := by
        rcases List.mem_cons.mp hk with h | h
        · exact h.symm
        · exact absurd h hm
      rw [scatterGet_none_of_not_mem as _ k hm]
      subst hak
      simp [ha]

/-! ## reinsert ∘ delete = id -/

theorem reinsert_delete_from (full : List α) (idx : List Nat) (hv : ∀ i ∈ idx, i < full.length) :
    ∀ (suf : List α) (k : Nat), full.drop k = suf →
      reinsertFrom idx (pick full idx) k suf.length (deleteFrom idx k suf) = suf := by
  intro suf
  induction suf with
  | nil => intro k _; simp [reinsertFrom]
  | cons x xs ih =>
    intro k hdrop
    have hk : full[k]? = some x := by
      have := congrArg (fun l => l[0]?) hdrop
      simpa [List.getElem?_drop] using this
    have hdrop' : full.drop (k+1) = xs := by
      have := congrArg List.tail hdrop
      simpa [List.tail_drop] using this
    simp only [List.length_cons, reinsertFrom, deleteFrom]
    by_cases hmem : k ∈ idx
    · simp only [hmem, if_true]
      rw [scatterGet_pick full idx hv k hmem, hk]
      simp [ih (k+1) hdrop']
    · simp only [hmem, if_false]
      simp [ih (k+1) hdrop']

/-- the rows kept by the mask delete are counted by the mask -/
theorem deleteFrom_length (idx : List Nat) (k : Nat) (l : List α) :
    (deleteFrom idx k l).length = ((List.range' k l.length).filter (fun p => decide (p ∉ idx))).length := by
  induction l generalizing k with
  | nil => simp [deleteFrom]
  | cons x xs ih =>
    simp only [deleteFrom, List.length_cons, List.range'_succ, List.filter_cons]
    by_cases hmem : k ∈ idx
    · simp [hmem, ih (k+1)]
    · simp [hmem, ih (k+1)]

theorem delete_length_mask (l : List α) (idx : List Nat) : (delete l idx).length = maskCount idx l.length :=
  deleteFrom_length idx 0 l

/-! ## counting: a duplicate-free index list inside `[0, n)` masks exactly `idx.length` positions -/

theorem filter_ne_length (L : List Nat) (a : Nat) (hn : L.Nodup) (ha : a ∈ L) :
    (L.filter (fun p => decide (p ≠ a))).length + 1 = L.length := by
  induction L with
  | nil => cases ha
  | cons b bs ih =>
    have hb : b ∉ bs := (List.nodup_cons.mp hn).1
    have hbs : bs.Nodup := (List.nodup_cons.mp hn).2
    by_cases hba : b = a
    · subst hba
      simp
      intro p hp e
      exact hb (e ▸ hp)
    · have ha' : a ∈ bs := by
        rcases List.mem_cons.mp ha with h | h
        · exact absurd h.symm hba
        · exact h
      have h := ih hbs ha'
      simp only [ne_eq, decide_not] at h ⊢
      simp [hba, h]

theorem filter_not_mem_length (L : List Nat) (hL : L.Nodup) (idx : List Nat) (hn : idx.Nodup)
    (hs : ∀ i ∈ idx, i ∈ L) :
    (L.filter (fun p => decide (p ∉ idx))).length + idx.length = L.length := by
  induction idx generalizing L with
  | nil => simp
  | cons a as ih =>
    have ha : a ∉ as := (List.nodup_cons.mp hn).1
    have has : as.Nodup := (List.nodup_cons.mp hn).2
    -- first remove `a`, then the rest
    have hsplit : L.filter (fun p => decide (p ∉ a :: as))
        = (L.filter (fun p => decide (p ≠ a))).filter (fun p => decide (p ∉ as)) := by
      rw [List.filter_filter]
      apply List.filter_congr
      intro p _
      simp [List.mem_cons, not_or, Bool.and_comm]
    have hL' : (L.filter (fun p => decide (p ≠ a))).Nodup := hL.filter _
    have hs' : ∀ i ∈ as, i ∈ L.filter (fun p => decide (p ≠ a)) := by
      intro i hi
      have : i ≠ a := fun e => ha (e ▸ hi)
      simp [List.mem_filter, hs i (by simp [hi]), this]
    have h1 := ih (L.filter (fun p => decide (p ≠ a))) hL' has hs'
    have h2 := filter_ne_length L a hL (hs a (by simp))
    rw [hsplit, List.length_cons]
    omega

theorem maskCount_add (idx : List Nat) (n : Nat) (hn : idx.Nodup) (hv : ∀ i ∈ idx, i < n) :
    maskCount idx n + idx.length = n := by
  have := filter_not_mem_length (List.range' 0 n) (List.nodup_range' (step := 1) (by omega)) idx hn
    (fun i hi => by simp [List.mem_range'_1, hv i hi])
  simpa [maskCount] using this

/-- **delete_length** -/
theorem delete_length (l : List α) (idx : List Nat) (hn : idx.Nodup) (hv : ∀ i ∈ idx, i < l.length) :
    (delete l idx).length + idx.length = l.length := by
  rw [delete_length_mask]; exact maskCount_add idx l.length hn hv

/-! ## length of the re-inserted array -/

theorem reinsertFrom_length (idx : List Nat) (taken : List α) (hl : idx.length ≤ taken.length) :
    ∀ (n k : Nat) (kept : List α),
      kept.length = ((List.range' k n).filter (fun p => decide (p ∉ idx))).length →
      (reinsertFrom idx taken k n kept).length = n := by
  intro n
  induction n with
  | zero => intro k kept _; simp [reinsertFrom]
  | succ n ih =>
    intro k kept hk
    simp only [List.range'_succ, List.filter_cons] at hk
    simp only [reinsertFrom]
    by_cases hmem : k ∈ idx
    · obtain ⟨x, hx⟩ := scatterGet_isSome idx taken k hmem hl
      simp only [hmem, if_true, hx]
      simp only [hmem, not_true_eq_false, decide_false] at hk
      simp [ih (k+1) kept (by simpa using hk)]
    · simp only [hmem, if_false]
      simp only [hmem, not_false_eq_true, decide_true, if_true, List.length_cons] at hk
      cases kept with
      | nil => simp at hk
      | cons x xs =>
        simp only [List.length_cons, Nat.add_right_cancel_iff] at hk
        simp [ih (k+1) xs hk]

/-- **reinsert_length** -/
theorem reinsert_length (kept taken : List α) (idx : List Nat) (hn : idx.Nodup)
    (hv : ∀ i ∈ idx, i < kept.length + taken.length) (hl : taken.length = idx.length) :
    (reinsert kept taken idx).length = kept.length + taken.length := by
  unfold reinsert
  apply reinsertFrom_length idx taken (by omega)
  have := maskCount_add idx (kept.length + taken.length) hn hv
  unfold maskCount at this
  omega

/-! ## `Except`-map -/

theorem mapE_map_ok {ε β γ : Type} (f : β → Except ε γ) (g : γ → β) (l : List γ)
    (h : ∀ x ∈ l, f (g x) = .ok x) : mapE f (l.map g) = .ok l := by
  induction l with
  | nil => rfl
  | cons x xs ih =>
    simp [mapE, h x (by simp), ih (fun y hy => h y (by simp [hy]))]

/-! ## indices -/

theorem normOne_lt (n : Nat) (i : Int) (a : Nat) (h : normOne n i = some a) : a < n := by
  unfold normOne at h
  split at h
  · split at h
    · cases h; assumption
    · cases h
  · split at h
    · cases h
      have : 0 < (-i).toNat := by omega
      omega
    · cases h

theorem normIdx_lt (n : Nat) (idx : List Int) (nidx : List Nat) (h : normIdx n idx = some nidx) :
    ∀ i ∈ nidx, i < n := by
  induction idx generalizing nidx with
  | nil => simp [normIdx] at h; subst h; simp
  | cons i is ih =>
    simp only [normIdx] at h
    cases h1 : normOne n i with
    | none => simp [h1] at h
    | some a =>
      cases h2 : normIdx n is with
      | none => simp [h1, h2] at h
      | some as =>
        simp [h1, h2] at h; subst h
        intro j hj
        rcases List.mem_cons.mp hj with e | e
        · subst e; exact normOne_lt n i _ h1
        · exact ih as h2 j e

theorem normIdx_length (n : Nat) (idx : List Int) (nidx : List Nat) (h : normIdx n idx = some nidx) :
    nidx.length = idx.length := by
  induction idx generalizing nidx with
  | nil => simp [normIdx] at h; subst h; rfl
  | cons i is ih =>
    simp only [normIdx] at h
    cases h1 : normOne n i with
    | none => simp [h1] at h
    | some a =>
      cases h2 : normIdx n is with
      | none => simp [h1, h2] at h
      | some as => simp [h1, h2] at h; subst h; simp [ih as h2]

/-! ## atoms level -/

/-- `atoms.arrays` of a real ASE `Atoms`: a dict (distinct names) of arrays that all have `len(atoms)` rows -/
structure WF (a : Atoms) (n : Nat) : Prop where
  names : (a.map Col.name).Nodup
  rows : ∀ c ∈ a, c.rows.length = n
  len : natoms a = n

theorem bcast_self (rows : List α) : bcast rows rows.length = some rows := by simp [bcast]

theorem findCol_map (a : Atoms) (g : Col → Col) (hg : ∀ c, (g c).name = c.name)
    (hn : (a.map Col.name).Nodup) (c : Col) (hc : c ∈ a) : findCol (a.map g) c.name = some (g c) := by
  induction a with
  | nil => cases hc
  | cons x xs ih =>
    simp only [List.map_cons, List.nodup_cons] at hn
    simp only [findCol, List.map_cons, List.find?_cons, hg]
    rcases List.mem_cons.mp hc with e | e
    · subst e; simp
    · have hne : x.name ≠ c.name := by
        intro h
        exact hn.1 (h ▸ List.mem_map.mpr ⟨c, e, rfl⟩)
      simp only [hne, decide_false]
      exact ih hn.2 e

theorem map_castVal_self (d : DType) (rows : List (List Int)) :
    (rows.map fun r => r.map (castVal d d)) = rows := by
  have : castVal d d = id := by funext v; simp [castVal]
  simp [this]

theorem natoms_map_add (a : Atoms) (n : Nat) (hw : WF a n) (nidx : List Nat) (hn : nidx.Nodup)
    (hv : ∀ i ∈ nidx, i < n) :
    natoms (a.map fun c => { c with rows := delete c.rows nidx })
      + natoms (a.map fun c => { c with rows := pick c.rows nidx }) = n := by
  cases a with
  | nil => simpa [natoms] using hw.len
  | cons c cs =>
    have hc : c.rows.length = n := hw.rows c (by simp)
    simp only [List.map_cons, natoms]
    rw [pick_length c.rows nidx (by simpa [hc] using hv)]
    have := delete_length c.rows nidx hn (by simpa [hc] using hv)
    omega

/-- first loop of `reinsert_atoms` on one array of the deleted atoms gives the original array back -/
theorem reinsertCol_delete (a : Atoms) (n : Nat) (hw : WF a n) (idx : List Int) (nidx : List Nat)
    (hi : normIdx n idx = some nidx) (dm : List Int) (c : Col) (hc : c ∈ a) :
    reinsertCol (a.map fun c => { c with rows := pick c.rows nidx }) n idx dm
      { c with rows := delete c.rows nidx } = .ok c := by
  have hv : ∀ i ∈ nidx, i < n := normIdx_lt n idx nidx hi
  have hlen : c.rows.length = n := hw.rows c hc
  have hf := findCol_map a (fun c => { c with rows := pick c.rows nidx }) (fun _ => rfl) hw.names c hc
  have hrt : reinsertFrom nidx (pick c.rows nidx) 0 n (delete c.rows nidx) = c.rows := by
    have := reinsert_delete_from c.rows nidx (by simpa [hlen] using hv) c.rows 0 (by simp)
    simpa [hlen, delete] using this
  have hb1 : bcast (delete c.rows nidx) (maskCount nidx n) = some (delete c.rows nidx) := by
    have := bcast_self (delete c.rows nidx)
    rwa [delete_length_mask, hlen] at this
  have hb2 : bcast (pick c.rows nidx) nidx.length = some (pick c.rows nidx) := by
    have := bcast_self (pick c.rows nidx)
    rwa [pick_length c.rows nidx (by simpa [hlen] using hv)] at this
  simp only [reinsertCol, lookupArr, hf, hi, map_castVal_self, hb1, hb2, hrt, ne_eq, not_true_eq_false, if_false]

theorem filter_new_nil (a : Atoms) (g h : Col → Col) (hg : ∀ c, (g c).name = c.name) (hh : ∀ c, (h c).name = c.name) :
    ((a.map h).filter fun t => (findCol (a.map g) t.name).isNone) = [] := by
  apply List.filter_eq_nil_iff.mpr
  intro t ht
  obtain ⟨c, hc, rfl⟩ := List.mem_map.mp ht
  have hs : (findCol (a.map g) (h c).name).isSome := by
    simp only [findCol, List.find?_isSome]
    exact ⟨g c, List.mem_map.mpr ⟨c, hc, rfl⟩, by simp [hg, hh]⟩
  cases hf : findCol (a.map g) (h c).name with
  | none => simp [hf] at hs
  | some x => simp

/-! ## labels -/

theorem setAll_length (arr : List Int) (mol : List Nat) (v : Int) : (setAll arr mol v).length = arr.length := by
  simp [setAll]

theorem setAll_get (arr : List Int) (mol : List Nat) (v : Int) (i : Nat) :
    (setAll arr mol v)[i]? = if i ∈ mol then arr[i]?.map (fun _ => v) else arr[i]? := by
  simp only [setAll, List.getElem?_map, List.getElem?_zipIdx]
  cases h : arr[i]? with
  | none => simp
  | some x => by_cases hm : i ∈ mol <;> simp [hm]

theorem labelFrom_length (r : Int × Int) (comps : List (List Nat)) (s : Nat) (arr : List Int) :
    (labelFrom r s comps arr).length = arr.length := by
  induction comps generalizing s arr with
  | nil => rfl
  | cons c cs ih =>
    simp only [labelFrom]
    rw [ih]
    split
    · exact setAll_length _ _ _
    · rfl

/-- a position that no admitted component contains keeps its value -/
theorem labelFrom_untouched (r : Int × Int) (comps : List (List Nat)) (s : Nat) (arr : List Int) (i : Nat)
    (h : ∀ c ∈ comps, admitted r c → i ∉ c) : (labelFrom r s comps arr)[i]? = arr[i]? := by
  induction comps generalizing s arr with
  | nil => rfl
  | cons c cs ih =>
    simp only [labelFrom]
    rw [ih _ _ (fun d hd => h d (by simp [hd]))]
    by_cases ha : admitted r c
    · have : i ∉ c := h c (by simp) ha
      simp [ha, setAll_get, this]
    · simp [ha]

/-- the loop, position by position: a position in the `k`-th component (components pairwise disjoint) ends with
    label `s + k` when the component is admitted and with its old value otherwise -/
theorem labelFrom_get (r : Int × Int) (comps : List (List Nat)) (s : Nat) (arr : List Int) (i k : Nat) (c : List Nat)
    (hd : comps.Pairwise (fun a b => ∀ j, j ∈ a → j ∉ b))
    (hk : comps[k]? = some c) (hi : i ∈ c) :
    (labelFrom r s comps arr)[i]? = if admitted r c then arr[i]?.map (fun _ => ((s + k : Nat) : Int)) else arr[i]? := by
  induction comps generalizing s arr k with
  | nil => simp at hk
  | cons c0 cs ih =>
    have hd0 : ∀ b ∈ cs, ∀ j, j ∈ c0 → j ∉ b := (List.pairwise_cons.mp hd).1
    have hds := (List.pairwise_cons.mp hd).2
    cases k with
    | zero =>
      simp only [List.getElem?_cons_zero, Option.some.injEq] at hk
      subst hk
      simp only [labelFrom]
      rw [labelFrom_untouched r cs (s+1) _ i (fun b hb _ => hd0 b hb i hi)]
      by_cases ha : admitted r c0
      · simp [ha, setAll_get, hi]
      · simp [ha]
    | succ k =>
      simp only [List.getElem?_cons_succ] at hk
      have hc : c ∈ cs := List.mem_of_getElem? hk
      have hi0 : i ∉ c0 := fun h0 => hd0 c hc i h0 hi
      simp only [labelFrom]
      rw [ih (s+1) _ k hds hk]
      have hsk : s + 1 + k = s + (k + 1) := by omega
      by_cases ha0 : admitted r c0
      · simp [ha0, setAll_get, hi0, hsk]
      · simp [ha0, hsk]

end RI
