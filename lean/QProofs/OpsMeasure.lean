import QProofs.Ops
import Mathlib.MeasureTheory.Measure.Lebesgue.EqHaar
import Mathlib.MeasureTheory.Measure.Haar.Unique
import Mathlib.MeasureTheory.Function.Floor
import Mathlib.Tactic
/-!
# The reparametrisations of the draws used by the C10 symmetry theorems preserve the sampling measure

`U01` is the law of one numpy `random()` draw: Lebesgue measure restricted to `[0,1)`.
* `shiftHalf` (`φ ↦ φ + π mod 2π` on the underlying draw) preserves `U01`;
* `flip` (`u ↦ 1 - u`) preserves `U01` — the point `u = 0`, whose image `1` lies outside `[0,1)`, is a null set and
  is absorbed by `Ico_ae_eq_Ioo`;
* quaternion conjugation preserves Lebesgue measure on `ℝ⁴` and the standard normal density.
-/
open MeasureTheory
namespace Ops

/-- the law of one uniform draw `u ∈ [0,1)` -/
noncomputable def U01 : Measure ℝ := volume.restrict (Set.Ico (0:ℝ) 1)

theorem shiftHalf_measurePreserving :
    MeasurePreserving shiftHalf (volume.restrict (Set.Ico (0:ℝ) 1)) (volume.restrict (Set.Ico (0:ℝ) 1)) := by
  have hm : Measurable shiftHalf := by
    unfold shiftHalf; exact measurable_fract.comp (measurable_id.add_const _)
  refine ⟨hm, ?_⟩
  ext s hs
  rw [Measure.map_apply hm hs, Measure.restrict_apply (hm hs), Measure.restrict_apply hs]
  have e1 : shiftHalf ⁻¹' s ∩ Set.Ico 0 1
      = ((fun x : ℝ => x + 1 / 2) ⁻¹' (s ∩ Set.Ico (1 / 2) 1)) ∪ ((fun x : ℝ => x + (-(1 / 2))) ⁻¹' (s ∩ Set.Ico 0 (1 / 2))) := by
    ext x
    simp only [Set.mem_inter_iff, Set.mem_preimage, Set.mem_Ico, Set.mem_union]
    constructor
    · rintro ⟨hx, h0, h1⟩
      rw [shiftHalf_piecewise x h0 h1] at hx
      by_cases h : x < 1 / 2
      · left; rw [if_pos h] at hx; exact ⟨hx, by linarith, by linarith⟩
      · right; rw [if_neg h] at hx; rw [not_lt] at h
        exact ⟨by rwa [← sub_eq_add_neg], by linarith, by linarith⟩
    · rintro (⟨hx, h0, h1⟩ | ⟨hx, h0, h1⟩)
      · have hx0 : 0 ≤ x := by linarith
        have hx1 : x < 1 := by linarith
        refine ⟨?_, hx0, hx1⟩
        rw [shiftHalf_piecewise x hx0 hx1, if_pos (by linarith)]; exact hx
      · have hx0 : 0 ≤ x := by linarith
        have hx1 : x < 1 := by linarith
        refine ⟨?_, hx0, hx1⟩
        rw [shiftHalf_piecewise x hx0 hx1, if_neg (by linarith), sub_eq_add_neg]; exact hx
  have e2 : s ∩ Set.Ico (0:ℝ) 1 = (s ∩ Set.Ico (1 / 2) 1) ∪ (s ∩ Set.Ico 0 (1 / 2)) := by
    ext x
    simp only [Set.mem_inter_iff, Set.mem_Ico, Set.mem_union]
    constructor
    · rintro ⟨hx, h0, h1⟩
      by_cases h : x < 1 / 2
      · right; exact ⟨hx, h0, h⟩
      · left; rw [not_lt] at h; exact ⟨hx, h, h1⟩
    · rintro (⟨hx, h0, h1⟩ | ⟨hx, h0, h1⟩)
      · exact ⟨hx, by linarith, h1⟩
      · exact ⟨hx, h0, by linarith⟩
  have m1 : MeasurableSet (s ∩ Set.Ico (0:ℝ) (1 / 2)) := hs.inter measurableSet_Ico
  have d2 : Disjoint (s ∩ Set.Ico (1 / 2 : ℝ) 1) (s ∩ Set.Ico 0 (1 / 2)) := by
    rw [Set.disjoint_left]; rintro x ⟨_, h, _⟩ ⟨_, _, h'⟩; linarith
  have d1 : Disjoint ((fun x : ℝ => x + 1 / 2) ⁻¹' (s ∩ Set.Ico (1 / 2) 1))
      ((fun x : ℝ => x + (-(1 / 2))) ⁻¹' (s ∩ Set.Ico 0 (1 / 2))) := by
    rw [Set.disjoint_left]; rintro x ⟨_, h, _⟩ ⟨_, _, h'⟩; linarith
  rw [e1, e2, measure_union d1 (m1.preimage (measurable_id.add_const _)), measure_union d2 m1,
    measure_preimage_add_right, measure_preimage_add_right]


theorem U01_eq_Ioo : U01 = volume.restrict (Set.Ioo (0:ℝ) 1) :=
  (Measure.restrict_congr_set Ioo_ae_eq_Ico).symm

theorem flip_measurePreserving : MeasurePreserving flip U01 U01 := by
  rw [U01_eq_Ioo]
  have h : MeasurePreserving flip (volume : Measure ℝ) volume := volume.measurePreserving_sub_left 1
  have hpre : flip ⁻¹' Set.Ioo (0:ℝ) 1 = Set.Ioo 0 1 := by
    ext x; simp only [Set.mem_preimage, Set.mem_Ioo, flip]; constructor <;> rintro ⟨a, b⟩ <;> constructor <;> linarith
  have := h.restrict_preimage (s := Set.Ioo (0:ℝ) 1) measurableSet_Ioo
  rwa [hpre] at this

theorem shiftHalf_measurePreserving' : MeasurePreserving shiftHalf U01 U01 := shiftHalf_measurePreserving

instance : SFinite U01 := by unfold U01; infer_instance

/-- the reparametrisation of the three `Ball` draws that negates the displacement preserves their joint law -/
theorem ball_reparam_measurePreserving :
    MeasurePreserving (fun u : ℝ × ℝ × ℝ => (u.1, shiftHalf u.2.1, flip u.2.2))
      (U01.prod (U01.prod U01)) (U01.prod (U01.prod U01)) :=
  (MeasurePreserving.id U01).prod (shiftHalf_measurePreserving'.prod flip_measurePreserving)

/-- same for the two `Sphere` draws -/
theorem sphere_reparam_measurePreserving :
    MeasurePreserving (fun u : ℝ × ℝ => (shiftHalf u.1, flip u.2)) (U01.prod U01) (U01.prod U01) :=
  shiftHalf_measurePreserving'.prod flip_measurePreserving

/-- same for the three `Box` draws, and (six factors) for the deformation draws -/
theorem box_reparam_measurePreserving :
    MeasurePreserving (fun u : ℝ × ℝ × ℝ => (flip u.1, flip u.2.1, flip u.2.2))
      (U01.prod (U01.prod U01)) (U01.prod (U01.prod U01)) :=
  flip_measurePreserving.prod (flip_measurePreserving.prod flip_measurePreserving)

theorem deform_reparam_measurePreserving :
    MeasurePreserving (fun u : ℝ × ℝ × ℝ × ℝ × ℝ × ℝ =>
        (flip u.1, flip u.2.1, flip u.2.2.1, flip u.2.2.2.1, flip u.2.2.2.2.1, flip u.2.2.2.2.2))
      (U01.prod (U01.prod (U01.prod (U01.prod (U01.prod U01)))))
      (U01.prod (U01.prod (U01.prod (U01.prod (U01.prod U01))))) :=
  flip_measurePreserving.prod (flip_measurePreserving.prod (flip_measurePreserving.prod
    (flip_measurePreserving.prod (flip_measurePreserving.prod flip_measurePreserving))))

/-- quaternion conjugation `(w,x,y,z) ↦ (w,-x,-y,-z)` preserves Lebesgue measure on `ℝ⁴` -/
theorem conj_measurePreserving :
    MeasurePreserving (fun q : ℝ × ℝ × ℝ × ℝ => (q.1, -q.2.1, -q.2.2.1, -q.2.2.2)) volume volume := by
  have hn := Measure.measurePreserving_neg (volume : Measure ℝ)
  have hi := MeasurePreserving.id (volume : Measure ℝ)
  exact hi.prod (hn.prod (hn.prod hn))

end Ops
