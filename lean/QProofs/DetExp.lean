import Mathlib.Analysis.Normed.Algebra.MatrixExponential
import Mathlib.Analysis.Matrix.Spectrum
import Mathlib.Analysis.SpecialFunctions.Exponential
import Mathlib.Tactic
/-!
# Jacobi's formula `det (exp A) = exp (tr A)` for real symmetric matrices

Proved through the spectral theorem (`A = U D Uᵀ`, `exp A = U (exp D) Uᵀ`). Used by C10 (`shape_det_one`) and C01.
-/

open Matrix NormedSpace

variable {n : Type} [Fintype n] [DecidableEq n]

/-- Jacobi's formula for real symmetric matrices, via the spectral theorem. -/
theorem det_exp_of_isHermitian (A : Matrix n n ℝ) (hA : A.IsHermitian) :
    (exp A).det = Real.exp A.trace := by
  have hs := hA.spectral_theorem
  set U : Matrix n n ℝ := (hA.eigenvectorUnitary : Matrix n n ℝ) with hU
  have hUU : U * star U = 1 := by
    have := (hA.eigenvectorUnitary).2
    exact (Matrix.mem_unitaryGroup_iff).mp this
  have hUU' : star U * U = 1 := by
    exact (Matrix.mem_unitaryGroup_iff').mp (hA.eigenvectorUnitary).2
  have hA' : A = U * diagonal (fun i => hA.eigenvalues i) * star U := by
    conv_lhs => rw [hs]
    simp [Unitary.conjStarAlgAut_apply, hU]
  have hUunit : IsUnit U := ⟨⟨U, star U, hUU, hUU'⟩, rfl⟩
  have hinv : U⁻¹ = star U := Matrix.inv_eq_right_inv hUU
  have hexp : exp A = U * diagonal (fun i => Real.exp (hA.eigenvalues i)) * star U := by
    conv_lhs => rw [hA']
    rw [← hinv, Matrix.exp_conj _ _ hUunit, Matrix.exp_diagonal]
    congr 2
    ext i
    simp [Pi.exp_def, Real.exp_eq_exp_ℝ]
  rw [hexp, det_mul, det_mul, det_diagonal, mul_right_comm, ← det_mul, hUU, det_one, one_mul,
    hA.trace_eq_sum_eigenvalues, ← Real.exp_sum]
  simp
