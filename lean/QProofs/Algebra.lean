import QModel.Algebra
/-! helper lemmas for C17 -/
namespace Alg

/-- class of the composite that a faithful algebra must return for the element list `ms` -/
def classify (kind : Nat → Kind) (ms : List Nat) : CType :=
  bif ms.all (fun i => decide (kind i = .disp)) then .cdisp
  else bif ms.all (fun i => decide (kind i = .exch)) then .cexch
  else .plain

theorem replicateList_ne_nil {α} (l : List α) (n : Nat) (h : l ≠ []) (hn : 0 < n) :
    replicateList l n ≠ [] := by
  cases n with
  | zero => omega
  | succ k => simp [replicateList, h]

theorem replicateList_mem {α} (l : List α) (n : Nat) (x : α) :
    x ∈ replicateList l n → x ∈ l := by
  induction n with
  | zero => simp [replicateList]
  | succ k ih => simp only [replicateList, List.mem_append]; rintro (h | h); exact h; exact ih h

theorem mem_replicateList {α} (l : List α) (n : Nat) (x : α) (hn : 0 < n) :
    x ∈ l → x ∈ replicateList l n := by
  cases n with
  | zero => omega
  | succ k => intro h; simp [replicateList, h]

theorem replicateList_singleton {α} (a : α) (n : Nat) : replicateList [a] n = List.replicate n a := by
  induction n with
  | zero => rfl
  | succ k ih => simp [replicateList, ih, List.replicate_succ]

theorem classify_congr (kind : Nat → Kind) (ms ms' : List Nat)
    (h : ∀ x, x ∈ ms ↔ x ∈ ms') : classify kind ms = classify kind ms' := by
  unfold classify
  have h1 : (ms.all fun i => kind i = .disp) = (ms'.all fun i => kind i = .disp) := by
    rw [Bool.eq_iff_iff]; simp only [List.all_eq_true]; constructor <;> intro H x hx
    · exact H x ((h x).2 hx)
    · exact H x ((h x).1 hx)
  have h2 : (ms.all fun i => kind i = .exch) = (ms'.all fun i => kind i = .exch) := by
    rw [Bool.eq_iff_iff]; simp only [List.all_eq_true]; constructor <;> intro H x hx
    · exact H x ((h x).2 hx)
    · exact H x ((h x).1 hx)
  rw [h1, h2]

private theorem classify_aux (a1 a2 b1 b2 A1 A2 B1 B2 : Bool)
    (ha : (a1 && a2) = false) (hb : (b1 && b2) = false) :
    (bif (a1 && A1) && (b1 && B1) then CType.cdisp
      else bif (a2 && A2) && (b2 && B2) then CType.cexch else CType.plain) =
    if (bif a1 && A1 then CType.cdisp else bif a2 && A2 then CType.cexch else CType.plain)
        = (bif b1 && B1 then CType.cdisp else bif b2 && B2 then CType.cexch else CType.plain)
    then (bif a1 && A1 then CType.cdisp else bif a2 && A2 then CType.cexch else CType.plain)
    else CType.plain := by
  cases a1 <;> cases a2 <;> cases b1 <;> cases b2 <;> cases A1 <;> cases A2 <;> cases B1 <;>
    cases B2 <;> simp_all

theorem classify_append (kind : Nat → Kind) (ms ms' : List Nat) (h : ms ≠ []) (h' : ms' ≠ []) :
    classify kind (ms ++ ms') =
      if classify kind ms = classify kind ms' then classify kind ms else .plain := by
  obtain ⟨a, as, rfl⟩ := List.exists_cons_of_ne_nil h
  obtain ⟨b, bs, rfl⟩ := List.exists_cons_of_ne_nil h'
  unfold classify
  simp only [List.all_append, List.all_cons]
  apply classify_aux
  · cases kind a <;> simp
  · cases kind b <;> simp

theorem classify_singleton (kind : Nat → Kind) (a : Nat) : classify kind [a] = (kind a).cmt := by
  unfold classify Kind.cmt; cases h : kind a <;> simp [h]

/-- the class of a value: the composite's class, or for a bare move its `composite_move_type` -/
def Val.cls (kind : Nat → Kind) : Val → CType
  | .base a => (kind a).cmt
  | .comp t _ => t

/-- all four branches of `__add__` are one rule -/
theorem add_eq (kind : Nat → Kind) (a b : Val) :
    add kind a b = if a.cls kind = b.cls kind then .comp (a.cls kind) (a.elems ++ b.elems)
                   else .comp .plain (a.elems ++ b.elems) := by
  cases a <;> cases b <;> simp only [add, Val.cls, Val.elems] <;> split <;> simp_all

/-- invariant of every value the algebra can produce -/
def Good (kind : Nat → Kind) (v : Val) : Prop :=
  v.elems ≠ [] ∧ v.cls kind = classify kind v.elems

theorem good_base (kind : Nat → Kind) (a : Nat) : Good kind (.base a) := by
  simp [Good, Val.elems, Val.cls, classify_singleton]

theorem add_good (kind : Nat → Kind) (a b : Val) (ha : Good kind a) (hb : Good kind b) :
    Good kind (add kind a b) ∧ (add kind a b).elems = a.elems ++ b.elems := by
  have hc := classify_append kind a.elems b.elems ha.1 hb.1
  rw [add_eq]
  unfold Good at *
  split <;> simp_all [Val.elems, Val.cls]

theorem mul_good (kind : Nat → Kind) (a : Val) (n : Int) (ha : Good kind a) :
    (n < 1 → mul kind a n = .error .badCount) ∧
    (1 ≤ n → ∃ v, mul kind a n = .ok v ∧ Good kind v ∧ v.elems = replicateList a.elems n.toNat) := by
  constructor
  · intro h; cases a <;> simp [mul, h]
  · intro h
    have hn : ¬ n < 1 := by omega
    have hpos : 0 < n.toNat := by omega
    have hmem : ∀ y, y ∈ replicateList a.elems n.toNat ↔ y ∈ a.elems :=
      fun y => ⟨replicateList_mem _ _ y, mem_replicateList _ _ y hpos⟩
    have hcl : classify kind (replicateList a.elems n.toNat) = classify kind a.elems :=
      classify_congr kind _ _ hmem
    have hne : replicateList a.elems n.toNat ≠ [] := replicateList_ne_nil _ _ ha.1 hpos
    cases a with
    | base x =>
      refine ⟨.comp (kind x).cmt (List.replicate n.toNat x), by simp [mul, hn], ?_, ?_⟩
      · simp only [Val.elems, replicateList_singleton] at hne hcl
        exact ⟨hne, by simp only [Val.cls, Val.elems, hcl, classify_singleton]⟩
      · simp [Val.elems, replicateList_singleton]
    | comp t ms =>
      refine ⟨.comp t (replicateList ms n.toNat), by simp [mul, hn], ?_, ?_⟩
      · simp only [Val.elems] at hne hcl
        refine ⟨hne, ?_⟩
        simp only [Val.cls, Val.elems, hcl]
        exact ha.2
      · simp [Val.elems]

end Alg
