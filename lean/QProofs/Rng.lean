import QModel.Rng
import Mathlib.Data.List.Nodup
import Mathlib.Data.Rat.Floor
import Mathlib.Tactic.Linarith
import Mathlib.Tactic.FieldSimp
import Mathlib.Tactic.Ring
import Mathlib.Algebra.BigOperators.Group.List.Basic
import Mathlib.Algebra.Order.BigOperators.Group.List
/-! Lemmas about the random oracle `QModel/Rng.lean`. -/
namespace Rng

/-! ## uniform index -/

theorem index_lt (u : Rat) {n : Nat} (hn : 0 < n) : index u n < n := by
  unfold index; omega

/-- for `0 ≤ u < 1` the index is `⌊u·n⌋` without clamping -/
theorem index_eq_floor (u : Rat) {n : Nat} (h0 : 0 ≤ u) (h1 : u < 1) (hn : 0 < n) :
    (index u n : Int) = ⌊u * (n : Rat)⌋ := by
  unfold index
  have hnq : (0 : Rat) < n := by exact_mod_cast hn
  have hpos : 0 ≤ ⌊u * (n : Rat)⌋ := Int.floor_nonneg.mpr (mul_nonneg h0 hnq.le)
  have hlt : ⌊u * (n : Rat)⌋ < n := by
    rw [Int.floor_lt]; push_cast; nlinarith
  have : (u * (n : Rat)).floor = ⌊u * (n : Rat)⌋ := rfl
  rw [this]; omega

/-- the set of draws that give index `i` is `[i/n, (i+1)/n)`: `choice` is uniform on its argument -/
theorem index_eq_iff (u : Rat) {n i : Nat} (h0 : 0 ≤ u) (h1 : u < 1) (hn : 0 < n) :
    index u n = i ↔ (i : Rat) / n ≤ u ∧ u < ((i : Rat) + 1) / n := by
  have hnq : (0 : Rat) < n := by exact_mod_cast hn
  have hf := index_eq_floor u h0 h1 hn
  rw [div_le_iff₀ hnq, lt_div_iff₀ hnq]
  constructor
  · intro h; subst h
    have h1 := Int.floor_le (u * (n : Rat))
    have h2 := Int.lt_floor_add_one (u * (n : Rat))
    rw [← hf] at h1 h2
    push_cast at h1 h2
    exact ⟨h1, h2⟩
  · rintro ⟨h1, h2⟩
    have : ⌊u * (n : Rat)⌋ = (i : Int) := by
      rw [Int.floor_eq_iff]; push_cast; exact ⟨h1, h2⟩
    rw [this] at hf; exact_mod_cast hf

/-! ## sampling without replacement -/

theorem sampleFrom_spec : ∀ (k : Nat) (rem : List Nat) (s : Script) (r : List Nat) (s' : Script),
    sampleFrom rem k s = .ok (r, s') →
      r.length = k ∧ (∀ x ∈ r, x ∈ rem) ∧ (rem.Nodup → r.Nodup) ∧ ∃ pre, s = pre ++ s' ∧ pre.length = k := by
  intro k
  induction k with
  | zero =>
    intro rem s r s' h
    simp only [sampleFrom, Except.ok.injEq, Prod.mk.injEq] at h
    obtain ⟨rfl, rfl⟩ := h
    exact ⟨rfl, by simp, fun _ => List.nodup_nil, [], rfl, rfl⟩
  | succ k ih =>
    intro rem s r s' h
    cases s with
    | nil => simp [sampleFrom] at h
    | cons u s =>
      simp only [sampleFrom] at h
      cases hx : rem[index u rem.length]? with
      | none => simp [hx] at h
      | some x =>
        simp only [hx] at h
        cases hr : sampleFrom (rem.eraseIdx (index u rem.length)) k s with
        | error e => simp [hr] at h
        | ok p =>
          obtain ⟨r', s2⟩ := p
          simp only [hr, Except.ok.injEq, Prod.mk.injEq] at h
          obtain ⟨rfl, rfl⟩ := h
          obtain ⟨hl, hm, hn, pre, hp, hpl⟩ := ih _ _ _ _ hr
          have hxmem : x ∈ rem := List.mem_of_getElem? hx
          refine ⟨by simp [hl], ?_, ?_, u :: pre, by simp [hp], by simp [hpl]⟩
          · intro y hy
            rcases List.mem_cons.mp hy with rfl | hy
            · exact hxmem
            · exact List.mem_of_mem_eraseIdx (hm y hy)
          · intro hnd
            refine List.nodup_cons.mpr ⟨?_, hn (hnd.eraseIdx _)⟩
            intro hxr
            have hmem := hm x hxr
            obtain ⟨hi, hxe⟩ := List.getElem?_eq_some_iff.mp hx
            rw [← hnd.erase_getElem _ hi, hxe] at hmem
            exact (hnd.mem_erase_iff.mp hmem).1 rfl

theorem sampleFrom_ok : ∀ (k : Nat) (rem : List Nat) (s : Script), k ≤ rem.length → k ≤ s.length →
    ∃ r s', sampleFrom rem k s = .ok (r, s') := by
  intro k
  induction k with
  | zero => intro rem s _ _; exact ⟨[], s, rfl⟩
  | succ k ih =>
    intro rem s hr hs
    cases s with
    | nil => simp at hs
    | cons u s =>
      have hlt : index u rem.length < rem.length := index_lt u (by omega)
      obtain ⟨r, s', h⟩ := ih (rem.eraseIdx (index u rem.length)) s
        (by rw [List.length_eraseIdx_of_lt hlt]; omega) (by simpa using hs)
      refine ⟨rem[index u rem.length] :: r, s', ?_⟩
      simp [sampleFrom, List.getElem?_eq_getElem hlt, h]

/-- **the `replace=False` property of the scripted rule**: `k` distinct indices below `n`, `k` draws consumed -/
theorem sampleNoRepl_spec (n k : Nat) (s : Script) (r : List Nat) (s' : Script)
    (h : sampleNoRepl n k s = .ok (r, s')) :
    r.length = k ∧ (∀ x ∈ r, x < n) ∧ r.Nodup ∧ ∃ pre, s = pre ++ s' ∧ pre.length = k := by
  unfold sampleNoRepl at h
  split at h
  · cases h
  · obtain ⟨hl, hm, hn, hp⟩ := sampleFrom_spec k _ s r s' h
    exact ⟨hl, fun x hx => List.mem_range.mp (hm x hx), hn List.nodup_range, hp⟩

theorem sampleNoRepl_ok (n k : Nat) (s : Script) (hk : k ≤ n) (hs : k ≤ s.length) :
    ∃ r s', sampleNoRepl n k s = .ok (r, s') := by
  unfold sampleNoRepl
  rw [if_neg (by omega)]
  exact sampleFrom_ok k _ s (by simpa using hk) hs

/-- numpy raises when more forced moves are requested than there are cycles -/
theorem sampleNoRepl_too_large (n k : Nat) (s : Script) (hk : n < k) :
    sampleNoRepl n k s = .error .sampleTooLarge := by
  unfold sampleNoRepl; rw [if_pos hk]

/-! ## weighted choice -/

theorem sum_map_div (ws : List Rat) (c : Rat) : (ws.map (· / c)).sum = ws.sum / c := by
  induction ws with
  | nil => simp
  | cons w ws ih => simp [ih, add_div]

theorem take_normalise_sum (ws : List Rat) (i : Nat) :
    ((normalise ws).take i).sum = (ws.take i).sum / ws.sum := by
  unfold normalise; rw [← List.map_take, sum_map_div]

theorem normalise_length (ws : List Rat) : (normalise ws).length = ws.length := by simp [normalise]

theorem normalise_nonneg (ws : List Rat) (hw : ∀ w ∈ ws, 0 ≤ w) (hS : 0 < ws.sum) :
    ∀ p ∈ normalise ws, 0 ≤ p := by
  intro p hp
  simp only [normalise, List.mem_map] at hp
  obtain ⟨w, hw', rfl⟩ := hp
  exact div_nonneg (hw w hw') hS.le

theorem take_sum_nonneg (ps : List Rat) (hp : ∀ p ∈ ps, 0 ≤ p) (i : Nat) : 0 ≤ (ps.take i).sum :=
  List.sum_nonneg (fun p h => hp p (List.mem_of_mem_take h))

/-- `searchsorted(u, side='right')` over the running sums: index `i` is returned exactly for
    `acc + Σ_{j<i} p_j ≤ u < acc + Σ_{j≤i} p_j` -/
theorem searchCum_eq_iff : ∀ (ps : List Rat) (acc u : Rat) (i : Nat), (∀ p ∈ ps, 0 ≤ p) → acc ≤ u →
    i < ps.length →
    (searchCum ps acc u = i ↔ acc + (ps.take i).sum ≤ u ∧ u < acc + (ps.take (i + 1)).sum) := by
  intro ps
  induction ps with
  | nil => intro acc u i _ _ hi; simp at hi
  | cons p ps ih =>
    intro acc u i hp hacc hi
    have hp0 : 0 ≤ p := hp p (by simp)
    have hps : ∀ q ∈ ps, 0 ≤ q := fun q hq => hp q (by simp [hq])
    cases i with
    | zero =>
      simp only [searchCum, List.take_zero, List.sum_nil, add_zero, List.take_succ_cons, List.sum_cons]
      by_cases h : u < acc + p
      · simp [h, hacc]
      · simp [h]
    | succ j =>
      simp only [searchCum, List.take_succ_cons, List.sum_cons]
      have hj : j < ps.length := by simpa using hi
      by_cases h : u < acc + p
      · have h0 := take_sum_nonneg ps hps j
        simp only [h, if_true]
        constructor
        · intro h'; omega
        · rintro ⟨h1, _⟩; linarith
      · simp only [h, if_false, Nat.add_right_cancel_iff]
        rw [ih (acc + p) u j hps (not_lt.mp h) hj]
        constructor <;> rintro ⟨h1, h2⟩ <;> constructor <;> linarith

/-- below the total the search stays inside the list -/
theorem searchCum_lt : ∀ (ps : List Rat) (acc u : Rat), acc ≤ u → u < acc + ps.sum →
    searchCum ps acc u < ps.length := by
  intro ps
  induction ps with
  | nil => intro acc u h0 h; simp at h; linarith
  | cons p ps ih =>
    intro acc u h0 h
    simp only [searchCum]
    by_cases h' : u < acc + p
    · simp [h']
    · simp only [h', if_false, List.length_cons, Nat.add_lt_add_iff_right]
      apply ih
      · exact not_lt.mp h'
      · simp only [List.sum_cons] at h; linarith

theorem checkP_none (ws : List Rat) (hw : ∀ w ∈ ws, 0 ≤ w) (hS : 0 < ws.sum) : checkP ws = none := by
  unfold checkP
  rw [if_neg hS.ne']
  have : (normalise ws).any (· < 0) = false := by
    rw [List.any_eq_false]
    intro p hp
    simpa using normalise_nonneg ws hw hS p hp
  simp [this]

/-- all weights zero (or cancelling): numpy's division by zero, `choice` raises — outside the property's quantifier -/
theorem checkP_zero_sum (ws : List Rat) (hS : ws.sum = 0) : checkP ws = some .probNaN := by
  unfold checkP; rw [if_pos hS]

theorem choicePIdx_ok (ws : List Rat) (u : Rat) (hw : ∀ w ∈ ws, 0 ≤ w) (hS : 0 < ws.sum) :
    choicePIdx ws u = .ok (searchCum (normalise ws) 0 u) := by
  unfold choicePIdx; rw [checkP_none ws hw hS]

/-- **the draws that select index `i`**: the interval `[Σ_{j<i} w_j / Σw, Σ_{j≤i} w_j / Σw)` -/
theorem choicePIdx_eq_iff (ws : List Rat) (u : Rat) (i : Nat) (hw : ∀ w ∈ ws, 0 ≤ w) (hS : 0 < ws.sum)
    (hu : 0 ≤ u) (hi : i < ws.length) :
    choicePIdx ws u = .ok i ↔ (ws.take i).sum / ws.sum ≤ u ∧ u < (ws.take (i + 1)).sum / ws.sum := by
  rw [choicePIdx_ok ws u hw hS]
  have h := searchCum_eq_iff (normalise ws) 0 u i (normalise_nonneg ws hw hS) hu
    (by rw [normalise_length]; exact hi)
  rw [take_normalise_sum, take_normalise_sum, zero_add, zero_add] at h
  constructor
  · intro h'; exact h.mp (by injection h')
  · intro h'; rw [h.mpr h']

/-- for a draw in `[0,1)` some index inside the list is chosen -/
theorem choicePIdx_total (ws : List Rat) (u : Rat) (hw : ∀ w ∈ ws, 0 ≤ w) (hS : 0 < ws.sum)
    (hu0 : 0 ≤ u) (hu1 : u < 1) : ∃ i, choicePIdx ws u = .ok i ∧ i < ws.length := by
  refine ⟨_, choicePIdx_ok ws u hw hS, ?_⟩
  rw [← normalise_length ws]
  apply searchCum_lt _ _ _ hu0
  have : (normalise ws).sum = 1 := by
    unfold normalise; rw [sum_map_div, div_self hS.ne']
  rw [this]; linarith

/-- a weight-zero entry is never chosen (for a draw `u ≥ 0`) -/
theorem choicePIdx_pos_weight (ws : List Rat) (u : Rat) (i : Nat) (hw : ∀ w ∈ ws, 0 ≤ w) (hS : 0 < ws.sum)
    (hu : 0 ≤ u) (hi : i < ws.length) (h : choicePIdx ws u = .ok i) : 0 < ws[i] := by
  obtain ⟨h1, h2⟩ := (choicePIdx_eq_iff ws u i hw hS hu hi).mp h
  have hlt : (ws.take i).sum / ws.sum < (ws.take (i + 1)).sum / ws.sum := lt_of_le_of_lt h1 h2
  rw [div_lt_div_iff_of_pos_right hS, List.sum_take_succ ws i hi] at hlt
  linarith

/-- length of the interval of draws selecting `i` -/
theorem choiceP_interval_length (ws : List Rat) (i : Nat) (hi : i < ws.length) :
    (ws.take (i + 1)).sum / ws.sum - (ws.take i).sum / ws.sum = ws[i] / ws.sum := by
  rw [List.sum_take_succ ws i hi]; ring

/-- `choiceP` is `choicePIdx` on the head of the script -/
theorem choiceP_eq {α : Type} (x : α) (xs : List α) (ws : List Rat) (u : Rat) (s : Script) :
    choiceP (x :: xs) ws (u :: s) =
      match choicePIdx ws u with
      | .error e => .error e
      | .ok i => match (x :: xs)[i]? with | some y => .ok (y, s) | none => .error .indexError := by
  unfold choiceP choicePIdx
  cases checkP ws <;> rfl

/-- a successful `choiceP` took the head of the script and returned the element at `choicePIdx` -/
theorem choiceP_ok {α : Type} (xs : List α) (ws : List Rat) (s s' : Script) (y : α)
    (h : choiceP xs ws s = .ok (y, s')) :
    ∃ u i, s = u :: s' ∧ choicePIdx ws u = .ok i ∧ xs[i]? = some y := by
  unfold choiceP at h
  cases xs with
  | nil => cases h
  | cons x xs =>
    unfold choicePIdx
    cases hc : checkP ws with
    | some e => rw [hc] at h; cases h
    | none =>
      rw [hc] at h
      cases s with
      | nil => cases h
      | cons u s =>
        cases hg : (x :: xs)[searchCum (normalise ws) 0 u]? with
        | none => simp only [hg] at h; cases h
        | some z =>
          simp only [hg, Except.ok.injEq, Prod.mk.injEq] at h
          obtain ⟨rfl, rfl⟩ := h
          exact ⟨u, _, rfl, rfl, hg⟩

theorem choiceP_of_idx {α : Type} (xs : List α) (ws : List Rat) (u : Rat) (s : Script) (i : Nat) (y : α)
    (hc : choicePIdx ws u = .ok i) (hy : xs[i]? = some y) : choiceP xs ws (u :: s) = .ok (y, s) := by
  cases xs with
  | nil => simp at hy
  | cons x xs =>
    rw [choiceP_eq, hc]; simp only [hy]

end Rng
