import QModel.FBDriver
import QProofs.RunLoopInv
/-!
# helper lemmas for the force-bias driver machine (C15f, C07f)

* the calculator results are fresh after `validate` (adaptive) and after every `step` (`fbStep_cache`, `step_cache`);
* `Fresh` is the invariant that makes `validate` a no-op (`validate_of_fresh`), kept by every step;
* which fields a step reads: `step_congr` (two states with the same persisted part and — for the adaptive class — the
  same calculator cache take the same step);
* `stepsFrom` algebra for `RunLoop` (`stepsFrom_add`, `run_prefix`).
-/
namespace RunLoop
variable {σ : Type}

theorem stepsFrom_add (cfg : Cfg σ) (k a b : Nat) (x : σ) :
    stepsFrom cfg k (a + b) x = stepsFrom cfg (k + a) b (stepsFrom cfg k a x) := by
  induction a generalizing k x with
  | zero => simp [stepsFrom]
  | succ a ih =>
    rw [Nat.succ_add]
    simp only [stepsFrom]
    rw [ih, Nat.add_assoc, Nat.add_comm 1 a]

theorem stepsFrom_succ (cfg : Cfg σ) (k n : Nat) (x : σ) :
    stepsFrom cfg k (n + 1) x = cfg.stepFn (k + n) (stepsFrom cfg k n x) := by
  rw [stepsFrom_add]; rfl

/-- the state after `n` steps of a run is reached through the state after `j ≤ n` steps of the same run -/
theorem run_prefix (cfg : Cfg σ) (j n : Nat) (hj : j ≤ n) (s : Sim σ) :
    (run cfg n s).st = stepsFrom cfg (s.stepCount + j) (n - j) (run cfg j s).st := by
  rw [run_st, run_st, ← stepsFrom_add]
  congr 1; omega

/-- one more step of the run -/
theorem run_succ_st (cfg : Cfg σ) (j : Nat) (s : Sim σ) :
    (run cfg (j + 1) s).st = cfg.stepFn (s.stepCount + j) (run cfg j s).st := by
  rw [run_st, run_st, stepsFrom_succ]

theorem run_maxSteps (cfg : Cfg σ) (n : Nat) (s : Sim σ) : (run cfg n s).maxSteps = s.stepCount + n := by
  unfold run
  cases cfg.kind <;> simp [irunWith_eq, setMax, validateSim]

/-- a property kept by every step holds along `stepsFrom` -/
theorem stepsFrom_inv (cfg : Cfg σ) (Q : σ → Prop) (hstep : ∀ k x, Q x → Q (cfg.stepFn k x)) (k n : Nat) (x : σ)
    (h : Q x) : Q (stepsFrom cfg k n x) := by
  induction n generalizing k x with
  | zero => exact h
  | succ n ih => exact ih _ _ (hstep _ _ h)

end RunLoop

set_option linter.unusedSectionVars false

namespace FBD
variable {α : Type} [Num α] [FB.Ops α] [∀ a b : α, Decidable (a < b)]

/-! ## the cache after `validate` and after a step -/

theorem fbStep_cache (env : Env α) (s : St α) : (fbStep env s).cache = some (fbStep env s).positions := by
  simp only [fbStep]
  split <;> rfl

/-- after a step the calculator results belong to the positions the step ended in -/
theorem step_cache (env : Env α) (k : Nat) (s : St α) : (step env k s).cache = some (step env k s).positions :=
  fbStep_cache env _

theorem validate_cache (s : St α) (ha : s.adaptive = true) : (validate s).cache = some (validate s).positions := by
  simp [validate, ha]

@[simp] theorem validate_positions (s : St α) : (validate s).positions = s.positions := by
  unfold validate; split <;> rfl
@[simp] theorem validate_adaptive (s : St α) : (validate s).adaptive = s.adaptive := by
  unfold validate; split <;> rfl

/-! ## what a step leaves alone -/

/-- the settings of the simulation -/
structure SameSettings (x y : St α) : Prop where
  natoms : x.natoms = y.natoms
  masses : x.masses = y.masses
  powers : x.powers = y.powers
  kT : x.kT = y.kT
  adaptive : x.adaptive = y.adaptive
  minDelta : x.minDelta = y.minDelta
  maxDelta : x.maxDelta = y.maxDelta
  refVar : x.refVar = y.refVar
  fn : x.fn = y.fn

theorem fbStep_settings (env : Env α) (s : St α) : SameSettings (fbStep env s) s := by
  simp only [fbStep]
  split <;> exact ⟨rfl, rfl, rfl, rfl, rfl, rfl, rfl, rfl, rfl⟩

theorem fbStep_delta (env : Env α) (s : St α) : (fbStep env s).delta = s.delta := by
  simp only [fbStep]
  split <;> rfl

theorem step_settings (env : Env α) (k : Nat) (s : St α) : SameSettings (step env k s) s := by
  unfold step
  split
  · have h := fbStep_settings env (updateDelta env s)
    exact ⟨h.natoms, h.masses, h.powers, h.kT, h.adaptive, h.minDelta, h.maxDelta, h.refVar, h.fn⟩
  · exact fbStep_settings env s

@[simp] theorem step_adaptive (env : Env α) (k : Nat) (s : St α) : (step env k s).adaptive = s.adaptive :=
  (step_settings env k s).adaptive

/-! ## the invariant -/

/-- the calculator results the adaptive class reads without checking belong to the current positions -/
def Fresh (s : St α) : Prop := s.adaptive = true → s.cache = some s.positions

theorem fresh_validate (s : St α) : Fresh (validate s) := by
  intro ha
  rw [validate_adaptive] at ha
  exact validate_cache s ha

theorem fresh_step (env : Env α) (k : Nat) (s : St α) : Fresh (step env k s) := fun _ => step_cache env k s

/-- on a fresh state `validate_simulation()` changes nothing -/
theorem validate_of_fresh (s : St α) (h : Fresh s) : validate s = s := by
  unfold validate
  split
  · next ha =>
    have hc := h ha
    cases s
    simp only at hc
    simp [hc]
  · rfl

/-! ## `update_delta` -/

theorem updateDelta_delta_some (env : Env α) (s : St α) (c : List α) (hc : s.cache = some c) :
    (updateDelta env s).delta = deltaFor env s c := by
  simp [updateDelta, calcResults, hc, deltaFor]

theorem updateDelta_delta_none (env : Env α) (s : St α) (hc : s.cache = none) :
    (updateDelta env s).delta = deltaFallback s := by
  simp [updateDelta, calcResults, hc, deltaFallback, AFB.forcesVariationCoef]

theorem step_delta_some (env : Env α) (k : Nat) (s : St α) (ha : s.adaptive = true) (c : List α)
    (hc : s.cache = some c) : (step env k s).delta = deltaFor env s c := by
  simp only [step, ha, if_true, fbStep_delta]
  exact updateDelta_delta_some env s c hc

theorem step_delta_none (env : Env α) (k : Nat) (s : St α) (ha : s.adaptive = true) (hc : s.cache = none) :
    (step env k s).delta = deltaFallback s := by
  simp only [step, ha, if_true, fbStep_delta]
  exact updateDelta_delta_none env s hc

theorem step_delta_plain (env : Env α) (k : Nat) (s : St α) (ha : s.adaptive = false) :
    (step env k s).delta = s.delta := by
  simp [step, ha, fbStep_delta]

/-- the formula behind `deltaFor`, entry by entry: `min + (max - min) * update(std(col)/mean|col|)` over the columns of
    the committee array -/
theorem deltaFor_formula (env : Env α) (s : St α) (c : List α) :
    deltaFor env s c = (AFB.columns (env.committee c)).map
      (fun col => s.minDelta + (s.maxDelta - s.minDelta) * AFB.update s.fn s.refVar (AFB.coefOfColumn col)) := by
  simp [deltaFor, AFB.adaptedList, AFB.forcesVariationCoef, AFB.adapted, AFB.delta, List.map_map, Function.comp_def]

/-! ## which fields a step reads -/

/-- the same persisted part, and — where it is read — the same calculator cache -/
def Rel (x y : St α) : Prop := persist x = persist y ∧ (x.adaptive = true → x.cache = y.cache)

/-- what two states with the same persisted part agree on -/
theorem persist_fields {x y : St α} (h : persist x = persist y) :
    x.positions = y.positions ∧ x.momenta = y.momenta ∧ x.delta = y.delta ∧ x.rngPos = y.rngPos ∧
    x.masses = y.masses ∧ x.powers = y.powers ∧ x.kT = y.kT ∧ x.adaptive = y.adaptive ∧ x.minDelta = y.minDelta ∧
    x.maxDelta = y.maxDelta ∧ x.refVar = y.refVar ∧ x.fn = y.fn ∧ x.natoms = y.natoms ∧ x.diverged = y.diverged :=
  ⟨by have := congrArg St.positions h; exact this, by have := congrArg St.momenta h; exact this,
   by have := congrArg St.delta h; exact this, by have := congrArg St.rngPos h; exact this,
   by have := congrArg St.masses h; exact this, by have := congrArg St.powers h; exact this,
   by have := congrArg St.kT h; exact this, by have := congrArg St.adaptive h; exact this,
   by have := congrArg St.minDelta h; exact this, by have := congrArg St.maxDelta h; exact this,
   by have := congrArg St.refVar h; exact this, by have := congrArg St.fn h; exact this,
   by have := congrArg St.natoms h; exact this, by have := congrArg St.diverged h; exact this⟩

theorem persist_persist (s : St α) : persist (persist s) = persist s := rfl

theorem persist_validate (s : St α) : persist (validate s) = persist s := by
  unfold validate; split <;> rfl

theorem persist_adaptive (s : St α) : (persist s).adaptive = s.adaptive := rfl

/-- **a step reads the persisted part and (adaptive class only) the cache**: related states take the same step —
    same persisted part afterwards, same observable view, same cache -/
theorem step_congr (env : Env α) (k : Nat) (x y : St α) (h : Rel x y) :
    persist (step env k x) = persist (step env k y) ∧ view (step env k x) = view (step env k y) ∧
    (step env k x).cache = (step env k y).cache := by
  obtain ⟨hp, hc⟩ := h
  cases x with
  | mk n1 p1 m1 ms1 pw1 d1 kT1 r1 c1 a1 mn1 mx1 rf1 f1 vc1 g1 z1 dv1 =>
  cases y with
  | mk n2 p2 m2 ms2 pw2 d2 kT2 r2 c2 a2 mn2 mx2 rf2 f2 vc2 g2 z2 dv2 =>
  simp only [persist, St.mk.injEq] at hp
  obtain ⟨rfl, rfl, rfl, rfl, rfl, rfl, rfl, rfl, -, rfl, rfl, rfl, rfl, rfl, -, -, -, rfl⟩ := hp
  cases a1 with
  | true =>
    have : c1 = c2 := hc rfl
    subst this
    simp only [step, if_true, updateDelta, fbStep, calcResults]
    first | exact ⟨trivial, trivial, trivial⟩ | (split <;> simp [persist, view])
  | false =>
    simp only [step, fbStep]
    simp only [Bool.false_eq_true, if_false]
    first | exact ⟨trivial, trivial, trivial⟩ | (split <;> simp [persist, view])

theorem rel_step (env : Env α) (k : Nat) (x y : St α) (h : Rel x y) : Rel (step env k x) (step env k y) :=
  ⟨(step_congr env k x y h).1, fun _ => (step_congr env k x y h).2.2⟩

/-- the state `run()` of the rebuilt simulation starts from is related to the state that was saved, provided that one
    was fresh -/
theorem rel_validate_persist (y : St α) (hy : Fresh y) : Rel (validate (persist y)) y := by
  refine ⟨by rw [persist_validate, persist_persist], fun ha => ?_⟩
  rw [validate_adaptive, persist_adaptive] at ha
  rw [validate_cache _ (by rw [persist_adaptive]; exact ha), hy ha, validate_positions]
  rfl

theorem rel_validate (x y : St α) (h : persist x = persist y) : Rel (validate x) (validate y) := by
  refine ⟨by rw [persist_validate, persist_validate, h], fun ha => ?_⟩
  rw [validate_adaptive] at ha
  have hay : y.adaptive = true := by
    have := congrArg St.adaptive h
    simp only [persist_adaptive] at this
    rw [← this]; exact ha
  have hpos : x.positions = y.positions := by
    have := congrArg St.positions h
    exact this
  rw [validate_cache x ha, validate_cache y hay, validate_positions, validate_positions, hpos]

theorem stepsFrom_rel (env : Env α) (ivs : List Int) (lg : Option Nat) (v : RunLoop.Variant) (k n : Nat)
    (x y : St α) (h : Rel x y) :
    Rel (RunLoop.stepsFrom (cfg env ivs lg v) k n x) (RunLoop.stepsFrom (cfg env ivs lg v) k n y) := by
  induction n generalizing k x y with
  | zero => exact h
  | succ n ih => exact ih _ _ _ (rel_step env k x y h)

theorem stepsFrom_fresh (env : Env α) (ivs : List Int) (lg : Option Nat) (v : RunLoop.Variant) (k n : Nat)
    (x : St α) (h : Fresh x) : Fresh (RunLoop.stepsFrom (cfg env ivs lg v) k n x) :=
  RunLoop.stepsFrom_inv (cfg env ivs lg v) Fresh (fun k x _ => fresh_step env k x) k n x h

theorem stepsFrom_adaptive (env : Env α) (ivs : List Int) (lg : Option Nat) (v : RunLoop.Variant) (k n : Nat)
    (x : St α) : (RunLoop.stepsFrom (cfg env ivs lg v) k n x).adaptive = x.adaptive := by
  induction n generalizing k x with
  | zero => rfl
  | succ n ih => simp only [RunLoop.stepsFrom]; rw [ih]; exact step_adaptive env k x

/-- the state a run leaves is fresh -/
theorem run_fresh (env : Env α) (ivs : List Int) (lg : Option Nat) (v : RunLoop.Variant) (n : Nat)
    (s : RunLoop.Sim (St α)) : Fresh (RunLoop.run (cfg env ivs lg v) n s).st := by
  rw [RunLoop.run_st]
  exact stepsFrom_fresh env ivs lg v _ _ _ (fresh_validate s.st)

theorem run_adaptive (env : Env α) (ivs : List Int) (lg : Option Nat) (v : RunLoop.Variant) (n : Nat)
    (s : RunLoop.Sim (St α)) : (RunLoop.run (cfg env ivs lg v) n s).st.adaptive = s.st.adaptive := by
  rw [RunLoop.run_st, stepsFrom_adaptive]
  exact validate_adaptive s.st

end FBD
