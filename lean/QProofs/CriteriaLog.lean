import QProofs.Criteria

/-!
# The grand-canonical prefactor accumulated as its logarithm

`GrandCanonicalCriteria.evaluate` (after the repair "the grand-canonical prefactor is accumulated as its logarithm") never
forms `V**δ`, `N!/(N+δ)!` or `Λ**(-3δ)`; it adds `δ·log V`, `∓ Σ log i` and `-3δ·log Λ`.  Over the reals, and for positive
volume, temperature, mass and constants, this is the logarithm of the product the textbook rule is written with
(`gcLogPrefactor_eq`), and `-inf` (`none`) exactly when more particles are deleted than the reservoir holds
(`gcLogPrefactor_none`); hence `gcEvaluate = gcEvaluateProd` (`gcEvaluate_eq_prod`) and every statement about the product
form carries over.
-/

namespace Crit
open Num

theorem divLoop_pos (acc : ℝ) (lo : ℤ) (n : ℕ) (ha : 0 < acc) (hl : 0 < lo) : 0 < divLoop acc lo n := by
  induction n generalizing acc lo with
  | zero => simpa [divLoop] using ha
  | succ n ih =>
    simp only [divLoop]
    apply ih
    · rw [Num.real_ofInt]
      have : (0 : ℝ) < (lo : ℝ) := by exact_mod_cast hl
      positivity
    · omega

theorem mulLoop_pos (acc : ℝ) (lo : ℤ) (n : ℕ) (ha : 0 < acc) (hl : 0 < lo) : 0 < mulLoop acc lo n := by
  induction n generalizing acc lo with
  | zero => simpa [mulLoop] using ha
  | succ n ih =>
    simp only [mulLoop]
    apply ih
    · rw [Num.real_ofInt]
      have : (0 : ℝ) < (lo : ℝ) := by exact_mod_cast hl
      positivity
    · omega

/-- the subtracting loop is the logarithm of the dividing loop -/
theorem logDivLoop_eq (acc a : ℝ) (lo : ℤ) (n : ℕ) (ha : 0 < a) (hl : 0 < lo) :
    logDivLoop acc lo n = acc + Real.log (divLoop a lo n) - Real.log a := by
  induction n generalizing acc a lo with
  | zero => simp [logDivLoop, divLoop]
  | succ n ih =>
    have hlr : (0 : ℝ) < (lo : ℝ) := by exact_mod_cast hl
    simp only [logDivLoop, divLoop]
    rw [ih (acc - Num.log (Num.ofInt lo)) (a / Num.ofInt lo) (lo + 1) (by rw [Num.real_ofInt]; positivity) (by omega)]
    simp only [Num.real_log, Num.real_ofInt]
    rw [Real.log_div ha.ne' hlr.ne']
    ring

/-- the adding loop is the logarithm of the multiplying loop while every factor is positive -/
theorem logMulLoop_eq (acc a : ℝ) (lo : ℤ) (n : ℕ) (ha : 0 < a) (hl : 0 < lo) :
    logMulLoop (some acc) lo n = some (acc + Real.log (mulLoop a lo n) - Real.log a) := by
  induction n generalizing acc a lo with
  | zero => simp [logMulLoop, mulLoop]
  | succ n ih =>
    have hlr : (0 : ℝ) < (lo : ℝ) := by exact_mod_cast hl
    simp only [logMulLoop, mulLoop, if_pos hl, Option.map_some]
    rw [ih (acc + Num.log (Num.ofInt lo)) (a * Num.ofInt lo) (lo + 1) (by rw [Num.real_ofInt]; positivity) (by omega)]
    simp only [Num.real_log, Num.real_ofInt]
    rw [Real.log_mul ha.ne' hlr.ne']
    congr 1
    ring

theorem logMulLoop_none (lo : ℤ) (n : ℕ) : logMulLoop (none : Option ℝ) lo n = none := by
  induction n generalizing lo with
  | zero => rfl
  | succ n ih =>
    simp only [logMulLoop]
    split <;> simpa using ih _

/-- a range that starts at or below 0 makes the logarithm `-inf` -/
theorem logMulLoop_nonpos (acc : Option ℝ) (lo : ℤ) (n : ℕ) (h1 : lo ≤ 0) (h2 : 0 < n) :
    logMulLoop acc lo n = none := by
  obtain ⟨m, rfl⟩ : ∃ m, n = m + 1 := ⟨n - 1, by omega⟩
  simp only [logMulLoop]
  rw [if_neg (by omega)]
  exact logMulLoop_none _ _

theorem factorialTerm_pos (N : ℕ) (δ : ℤ) (h : 0 ≤ (N : ℤ) + δ) : (0 : ℝ) < factorialTerm N δ := by
  unfold factorialTerm
  split
  · exact divLoop_pos _ _ _ (by simp) (by omega)
  · split
    · exact mulLoop_pos _ _ _ (by simp) (by omega)
    · simp

/-- `log Λ` as coded is the logarithm of the wavelength as coded before -/
theorem logDeBroglie_eq (k : Consts ℝ) (m T : ℝ) (hh : 0 < k.hplanck) (hk : 0 < k.kB) (hn : 0 < k.nav)
    (he : 0 < k.e) (hm : 0 < m) (hT : 0 < T) : logDeBroglie k m T = Real.log (deBroglie k m T) := by
  rw [deBroglie_real]
  unfold logDeBroglie
  simp only [Num.real_log, Num.real_half, Num.real_npow, Num.real_two, Num.real_pi, milli_real, e10_real]
  have hp := Real.pi_pos
  set c : ℝ := 2 * Real.pi * m * k.kB / k.nav * (1 / 1000) * k.e with hc
  have hcpos : 0 < c := by rw [hc]; positivity
  have e1 : 2 * Real.pi * m * k.kB * T / k.nav * (1 / 1000) * k.e = c * T := by rw [hc]; ring
  rw [e1]
  have hq : 0 < k.hplanck ^ 2 / (c * T) := by positivity
  rw [Real.log_mul (Real.sqrt_pos.mpr hq).ne' (by norm_num), Real.log_sqrt hq.le]
  have e2 : k.hplanck ^ 2 / (c * T) = k.hplanck ^ 2 / c / T := by field_simp
  rw [e2, Real.log_div (by positivity) hT.ne']
  ring

/-- **the logarithm that is accumulated is the logarithm of the product** -/
theorem gcLogPrefactor_eq (V lam : ℝ) (N : ℕ) (δ : ℤ) (hV : 0 < V) (hl : 0 < lam) (h : 0 ≤ (N : ℤ) + δ) :
    gcLogPrefactor V (Real.log lam) N δ = some (Real.log (gcPrefactor V lam N δ)) := by
  have hf := factorialTerm_pos N δ h
  have hVd : (0 : ℝ) < V ^ δ := zpow_pos hV _
  have hld : (0 : ℝ) < lam ^ (-3 * δ) := zpow_pos hl _
  have hlog : Real.log (gcPrefactor V lam N δ)
      = (δ : ℝ) * Real.log V + Real.log (factorialTerm N δ) - ((3 * δ : ℤ) : ℝ) * Real.log lam := by
    unfold gcPrefactor
    rw [ipow_real, ipow_real, Real.log_mul (mul_pos hVd hf).ne' hld.ne', Real.log_mul hVd.ne' hf.ne',
      Real.log_zpow, Real.log_zpow]
    push_cast
    ring
  rw [hlog]
  unfold gcLogPrefactor factorialTerm
  simp only [Num.real_log, Num.real_ofInt]
  split
  · rename_i hd
    simp only [Option.map_some]
    rw [logDivLoop_eq _ 1 _ _ one_pos (by omega)]
    simp
  · split
    · rename_i hd
      rw [logMulLoop_eq _ 1 _ _ one_pos (by omega)]
      simp
    · simp

/-- deleting more particles than the reservoir holds: `log_prefactor = -inf` -/
theorem gcLogPrefactor_none (V ll : ℝ) (N : ℕ) (δ : ℤ) (h : (N : ℤ) + δ < 0) : gcLogPrefactor V ll N δ = none := by
  unfold gcLogPrefactor
  have h1 : ¬ (0 < δ) := by omega
  have h2 : δ < 0 := by omega
  simp only [if_neg h1, if_pos h2]
  rw [logMulLoop_nonpos _ _ _ (by omega) (by omega)]
  rfl

/-- positivity hypotheses of the property's quantifier: constants, mass, temperature, accessible volume -/
structure GcPos (k : Consts ℝ) (c : Ctx ℝ) : Prop where
  h : 0 < k.hplanck
  kB : 0 < k.kB
  nav : 0 < k.nav
  e : 0 < k.e
  mass : 0 < c.exchangeMass
  T : 0 < c.temperature
  V : 0 < c.accessibleVolume

/-- **log form = product form**: for positive volume, temperature, mass and constants the decision of the code (prefactor
    accumulated as a logarithm) is the decision of the product form, for every `δ`, `N`, energy, `μ` and `u` -/
theorem gcEvaluate_eq_prod (k : Consts ℝ) (c : Ctx ℝ) (t : Trial ℝ) (u : ℝ) (hp : GcPos k c) :
    gcEvaluate k c t u = gcEvaluateProd k c t u := by
  have hlam := deBroglie_pos k c.exchangeMass c.temperature hp.h hp.kB hp.nav hp.e hp.mass hp.T
  have hmass : ¬ ¬ (Num.zero : ℝ) < c.exchangeMass := by simpa using hp.mass
  unfold gcEvaluate gcEvaluateProd gcLogPref gcAcceptFixed gcPref
  rw [if_neg hmass, logDeBroglie_eq k _ _ hp.h hp.kB hp.nav hp.e hp.mass hp.T]
  by_cases h : 0 ≤ (c.nExchange : ℤ) + c.particleDelta
  · rw [gcLogPrefactor_eq _ _ _ _ hp.V hlam h]
    have hpos : (Num.zero : ℝ) < gcPrefactor c.accessibleVolume (deBroglie k c.exchangeMass c.temperature)
        c.nExchange c.particleDelta := by
      unfold gcPrefactor
      rw [ipow_real, ipow_real, Num.real_zero]
      exact mul_pos (mul_pos (zpow_pos hp.V _) (factorialTerm_pos _ _ h)) (zpow_pos hlam _)
    rw [if_pos hpos]
    simp only [Num.real_log]
  · rw [gcLogPrefactor_none _ _ _ _ (by omega)]
    have hz : ¬ (Num.zero : ℝ) < gcPrefactor c.accessibleVolume (deBroglie k c.exchangeMass c.temperature)
        c.nExchange c.particleDelta := by
      unfold gcPrefactor
      rw [factorialTerm_zero _ _ (by omega)]
      simp
    rw [if_neg hz]

/-- `floatMax` over the reals -/
theorem floatMax_real : (floatMax : ℝ) = (2 - 1 / 2 ^ 52) * 2 ^ 1023 := by
  simp [floatMax]

theorem pyIPow_error_of_gt (x : ℝ) (k : ℤ) (h : floatMax < x ^ k) : pyIPow x k = .error .overflow := by
  unfold pyIPow
  rw [ipow_real, if_pos h]

theorem pyLog_ok (x : ℝ) (h : 0 < x) : pyLog x = .ok (Real.log x) := by
  unfold pyLog
  rw [if_pos (by simpa using h)]
  rfl

end Crit
