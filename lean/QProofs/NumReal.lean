import QModel.Num
import Mathlib.Analysis.SpecialFunctions.Log.Basic
import Mathlib.Analysis.SpecialFunctions.Sqrt
import Mathlib.Analysis.SpecialFunctions.Trigonometric.Basic
import Mathlib.Analysis.SpecialFunctions.Trigonometric.DerivHyp

/-! The proof carrier: `ℝ` with Mathlib's `exp`, `log`, `sqrt`, `tanh`, `sin`, `cos`, `π`. -/

noncomputable instance : Num ℝ where
  ofNat := fun n => (n : ℝ)
  exp := Real.exp
  log := Real.log
  sqrt := Real.sqrt
  tanh := Real.tanh
  sin := Real.sin
  cos := Real.cos
  pi := Real.pi

namespace Num
@[simp] theorem real_ofNat (n : ℕ) : (Num.ofNat n : ℝ) = (n : ℝ) := rfl
@[simp] theorem real_exp (x : ℝ) : Num.exp x = Real.exp x := rfl
@[simp] theorem real_log (x : ℝ) : Num.log x = Real.log x := rfl
@[simp] theorem real_sqrt (x : ℝ) : Num.sqrt x = Real.sqrt x := rfl
@[simp] theorem real_tanh (x : ℝ) : Num.tanh x = Real.tanh x := rfl
@[simp] theorem real_sin (x : ℝ) : Num.sin x = Real.sin x := rfl
@[simp] theorem real_cos (x : ℝ) : Num.cos x = Real.cos x := rfl
@[simp] theorem real_pi : (Num.pi : ℝ) = Real.pi := rfl
@[simp] theorem real_zero : (Num.zero : ℝ) = 0 := by simp [Num.zero]
@[simp] theorem real_one : (Num.one : ℝ) = 1 := by simp [Num.one]
@[simp] theorem real_two : (Num.two : ℝ) = 2 := by simp [Num.two]
@[simp] theorem real_half : (Num.half : ℝ) = 1 / 2 := by simp [Num.half]
@[simp] theorem real_npow (x : ℝ) (n : ℕ) : Num.npow x n = x ^ n := by
  induction n with
  | zero => simp [Num.npow]
  | succ k ih => simp [Num.npow, ih, pow_succ]
theorem real_ofInt (i : ℤ) : (Num.ofInt i : ℝ) = (i : ℝ) := by
  unfold Num.ofInt
  split
  · rename_i h
    simp only [real_ofNat]
    have h2 : ((i.natAbs : ℤ)) = -i := by omega
    have : ((i.natAbs : ℕ) : ℝ) = ((i.natAbs : ℤ) : ℝ) := (Int.cast_natCast _).symm
    rw [this, h2]; push_cast; ring
  · rename_i h
    simp only [real_ofNat]
    have h2 : ((i.natAbs : ℤ)) = i := by omega
    have : ((i.natAbs : ℕ) : ℝ) = ((i.natAbs : ℤ) : ℝ) := (Int.cast_natCast _).symm
    rw [this, h2]
end Num
