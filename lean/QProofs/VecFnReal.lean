import QModel.VecFn
import QProofs.NumReal
import Mathlib.Algebra.BigOperators.Fin
import Mathlib.Tactic.Ring
import Mathlib.Tactic.FinCases

/-! `VecFn` at the proof carrier `ℝ`: the model's left-to-right sums are `Finset` sums. -/

namespace VecFn
open Finset

theorem sumFin_real {m : ℕ} (f : Fin m → ℝ) : sumFin f = ∑ i, f i := by
  unfold sumFin
  induction m with
  | zero => simp
  | succ k ih =>
    rw [Fin.foldl_succ_last, Fin.sum_univ_castSucc, ← ih]

theorem sumAll_real {n : ℕ} (a : Arr n ℝ) : sumAll a = ∑ i, ∑ k, a i k := by
  unfold sumAll
  rw [sumFin_real]
  exact Finset.sum_congr rfl (fun i _ => sumFin_real _)

theorem sumRows_real {n : ℕ} (a : Arr n ℝ) (k : Fin 3) : sumRows a k = ∑ i, a i k := by
  unfold sumRows
  exact sumFin_real _

@[simp] theorem mk3_zero {α} (x y z : α) : mk3 x y z 0 = x := rfl
@[simp] theorem mk3_one {α} (x y z : α) : mk3 x y z 1 = y := rfl
@[simp] theorem mk3_two {α} (x y z : α) : mk3 x y z 2 = z := rfl

@[simp] theorem V3.get_zero {α} (v : V3 α) : v.get 0 = v.x := rfl
@[simp] theorem V3.get_one {α} (v : V3 α) : v.get 1 = v.y := rfl
@[simp] theorem V3.get_two {α} (v : V3 α) : v.get 2 = v.z := rfl

theorem V3.ext' {α} {u v : V3 α} (hx : u.x = v.x) (hy : u.y = v.y) (hz : u.z = v.z) : u = v := by
  cases u; cases v; simp_all

/-- a sum over the three components -/
theorem sum_fin3 (f : Fin 3 → ℝ) : ∑ k, f k = f 0 + f 1 + f 2 := by
  rw [Fin.sum_univ_three]

end VecFn
