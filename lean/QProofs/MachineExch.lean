import QProofs.MachineStatic
/-! exchange moves: what a rejected insertion / deletion undoes (C03), core list facts -/
namespace MM

theorem setPositions_self (rows : List Row) : setPositions rows (positions rows) = rows :=
  setPositions_of_strip rows rows rfl

/-- the constraint list is meaningful: indices in range, and a `FixAtoms` with no index does not exist -/
def FixedOK (a : AtomsS) : Prop :=
  match a.fixed with
  | none => True
  | some f => f ≠ [] ∧ ∀ i ∈ f, i < a.rows.length

theorem remapFixed_beyond (f idx : List Nat) (n : Nat) (hne : f ≠ []) (hf : ∀ i ∈ f, i < n)
    (hidx : ∀ j ∈ idx, n ≤ j) : remapFixed f idx = some f := by
  unfold remapFixed
  have h1 : f.filter (fun i => !idx.contains i) = f := by
    apply List.filter_eq_self.mpr
    intro i hi
    have := hf i hi
    simp only [Bool.not_eq_true', List.contains_eq_mem, decide_eq_false_iff_not]
    intro hm; have := hidx i hm; omega
  rw [h1]
  have h2 : f.map (fun i => i - (idx.eraseDups.filter (· < i)).length) = f := by
    refine (List.map_congr_left (g := id) ?_).trans (List.map_id f)
    intro i hi
    have hlt := hf i hi
    have : idx.eraseDups.filter (· < i) = [] := by
      apply List.filter_eq_nil_iff.mpr
      intro j hj
      have := hidx j (List.mem_eraseDups.mp hj)
      simp; omega
    simp [this]
  simp only [h2]
  show (if f.isEmpty = true then none else some f) = some f
  cases f with
  | nil => exact absurd rfl hne
  | cons x xs => simp

/-- deleting the last `k` rows of `X` gives `a` back when the first rows of `X` are those of `a` -/
theorem delete_tail (a X : AtomsS) (k : Nat) (hfx : FixedOK a) (hcell : X.cell = a.cell) (hfixed : X.fixed = a.fixed)
    (htake : X.rows.take a.rows.length = a.rows) (hlen : X.rows.length = a.rows.length + k) :
    X.delete ((List.range k).map (· + a.rows.length)) = a := by
  generalize hmv : (List.range k).map (· + a.rows.length) = mv
  have hmvge : ∀ j ∈ mv, a.rows.length ≤ j := by
    intro j hj; rw [← hmv] at hj; simp at hj; obtain ⟨x, _, rfl⟩ := hj; omega
  have hrows : deleteIdx X.rows mv = a.rows := by
    have hsplit : X.rows = a.rows ++ X.rows.drop a.rows.length := by
      have := (List.take_append_drop a.rows.length X.rows).symm
      rw [htake] at this; exact this
    have hdl : (X.rows.drop a.rows.length).length = k := by simp [hlen]
    rw [hsplit, ← hmv, ← hdl]
    exact delete_appended a.rows _
  unfold AtomsS.delete
  cases a with
  | mk rows cell fixed =>
    simp only at hrows hfixed hcell hmvge hfx ⊢
    cases X with
    | mk xr xc xf =>
      simp only at hrows hfixed hcell ⊢
      subst hfixed hcell
      simp only [hrows, AtomsS.mk.injEq, true_and]
      cases xf with
      | none => rfl
      | some f =>
        simp only [FixedOK] at hfx
        exact remapFixed_beyond f mv rows.length hfx.1 hfx.2 hmvge

/-- a vetoed insertion: deleting the freshly added rows gives the atoms back -/
theorem delete_after_extend (a : AtomsS) (new : List Row) (hfx : FixedOK a) :
    (a.extend new).delete ((List.range new.length).map (· + a.rows.length)) = a := by
  apply delete_tail a (a.extend new) new.length hfx rfl rfl
  · simp [AtomsS.extend]
  · simp [AtomsS.extend]

/-- a rejected insertion: deleting the freshly added (and displaced) rows gives the atoms back -/
theorem delete_after_insert (a : AtomsS) (new : List Row) (d : V3) (c : Bool) (hfx : FixedOK a) :
    (applyDisp (a.extend new) ((List.range new.length).map (· + a.rows.length)) d c).delete
        ((List.range new.length).map (· + a.rows.length)) = a := by
  apply delete_tail a (applyDisp (a.extend new) ((List.range new.length).map (· + a.rows.length)) d c)
    new.length hfx rfl rfl
  · apply List.ext_getElem?
    intro i
    by_cases hi : i < a.rows.length
    · rw [List.getElem?_take_of_lt hi, applyDisp_untouched]
      · simp [AtomsS.extend, List.getElem?_append_left hi]
      · intro hm; simp at hm; obtain ⟨x, _, hx⟩ := hm; omega
    · rw [List.getElem?_take_eq_none (by omega)]
      exact (List.getElem?_eq_none_iff.mpr (by omega)).symm
  · rw [applyDisp_length]; simp [AtomsS.extend]

theorem whereEq_nodup (labels : List Int) (l : Int) : (whereEq labels l).Nodup := by
  unfold whereEq
  have h : (labels.zipIdx.map (·.2)).Nodup := by
    have : labels.zipIdx.map (·.2) = List.range' 0 labels.length := by
      rw [List.zipIdx_eq_zip_range', List.map_snd_zip]; simp
    rw [this]; exact List.nodup_range'
  have hsub : ((labels.zipIdx.filter (fun p => p.1 = l)).map (·.2)).Sublist (labels.zipIdx.map (·.2)) :=
    List.Sublist.map _ List.filter_sublist
  exact List.Nodup.sublist hsub h

theorem whereEq_lt (labels : List Int) (l : Int) (i : Nat) (h : i ∈ whereEq labels l) : i < labels.length := by
  have := (whereEq_mem labels l i).1 h
  exact (List.getElem?_eq_some_iff.mp this).1

/-- a rejected deletion: re-inserting the saved rows at the saved indices and putting the saved constraints
    back gives the atoms back -/
theorem reinsert_after_delete (a : AtomsS) (idx : List Nat) (hn : idx.Nodup) (hv : ∀ i ∈ idx, i < a.rows.length) :
    reinsert (a.delete idx).rows (pick a.rows idx) idx = a.rows := by
  simp only [AtomsS.delete]
  exact reinsert_delete a.rows idx hn hv

end MM

namespace MM

theorem attemptAddition_spec (r : Nat) (s : State) (hfx : FixedOK s.atoms) :
    (attemptAddition r s).2.heap.length = s.heap.length ∧
    ctxCore (attemptAddition r s).2.ctx = ctxCore s.ctx ∧
    (((attemptAddition r s).1 = [] ∧ (attemptAddition r s).2.atoms = s.atoms) ∨
     ((attemptAddition r s).1 = addMoving (toAddOf (s.obj r) s.ctx) s.atoms.rows.length ∧
        ∃ d, (attemptAddition r s).2.atoms =
          applyDisp (s.atoms.extend (toAddOf (s.obj r) s.ctx))
            (addMoving (toAddOf (s.obj r) s.ctx) s.atoms.rows.length) d (s.obj r).applyConstraints)) := by
  have hsp := attemptDisplacement_spec { s.obj r with toAdd := some (toAddOf (s.obj r) s.ctx) } (addStart r s)
  have h1h : (addStart r s).heap.length = s.heap.length := by simp [addStart, State.setObj]
  have h1c : ctxCore (addStart r s).ctx = ctxCore s.ctx := rfl
  have h1a : (addStart r s).atoms = s.atoms.extend (toAddOf (s.obj r) s.ctx) := rfl
  have h1m : (addStart r s).ctx.moving = addMoving (toAddOf (s.obj r) s.ctx) s.atoms.rows.length := rfl
  obtain ⟨hh, hc, ha⟩ := hsp
  unfold attemptAddition
  simp only []
  by_cases hemp : (toAddOf (s.obj r) s.ctx).isEmpty = true
  · simp only [hemp, if_true]
    refine ⟨?_, ?_, Or.inl ⟨?_, ?_⟩⟩ <;> first | trivial | rfl | simp [State.setObj]
  simp only [hemp, Bool.false_eq_true, if_false]
  cases hok : (attemptDisplacement { s.obj r with toAdd := some (toAddOf (s.obj r) s.ctx) } (addStart r s)).1 with
  | true =>
    simp only [if_true]
    refine ⟨by rw [hh, h1h], by rw [hc, h1c], Or.inr ⟨?_, ?_⟩⟩
    · first | trivial | rfl
    rcases ha with ⟨hx, _⟩ | ⟨_, d, hd⟩
    · rw [hok] at hx; cases hx
    · exact ⟨d, by rw [hd, h1a, h1m]⟩
  | false =>
    simp only [Bool.false_eq_true, if_false]
    refine ⟨by rw [hh, h1h], by rw [hc, h1c], Or.inl ⟨?_, ?_⟩⟩
    · first | trivial | rfl
    rcases ha with ⟨_, hsame⟩ | ⟨hx, _⟩
    · rw [hsame, h1a]; exact delete_after_extend s.atoms _ hfx
    · rw [hok] at hx; cases hx

theorem attemptDeletion_spec (r : Nat) (s : State) :
    (attemptDeletion r s).2.heap.length = s.heap.length ∧ (attemptDeletion r s).2.ctx = s.ctx ∧
    (attemptDeletion r s).2.atoms = s.atoms ∧
    ((attemptDeletion r s).1 = [] ∨ ∃ l, (attemptDeletion r s).1 = whereEq (s.obj r).labels l) := by
  unfold attemptDeletion
  cases htd : (s.obj r).toDelete with
  | some l0 =>
    simp only [htd]
    by_cases hc : (uniqueLabels (s.obj r).labels).contains l0 = true
    · simp only [hc, if_true]
      exact ⟨by simp [State.setObj], by first | rfl | trivial, by first | rfl | trivial, Or.inr ⟨l0, by first | rfl | trivial | simp [htd]⟩⟩
    · simp only [hc, Bool.false_eq_true, if_false]
      exact ⟨by first | rfl | trivial, by first | rfl | trivial, by first | rfl | trivial, Or.inl (by first | rfl | trivial)⟩
  | none =>
    simp only [htd]
    by_cases hu : (uniqueLabels (s.obj r).labels).isEmpty = true
    · simp only [hu, if_true]
      refine ⟨?_, ?_, ?_, Or.inl ?_⟩ <;> first | trivial | rfl
    · simp only [hu, Bool.false_eq_true, if_false]
      exact ⟨by simp [State.setObj], rfl, rfl, Or.inr ⟨(choice (uniqueLabels (s.obj r).labels) 0 s.inp).1, by simp⟩⟩

theorem exchDecide_spec (r : Nat) (s : State) :
    (exchDecide r s).2.atoms = s.atoms ∧ (exchDecide r s).2.heap = s.heap ∧ (exchDecide r s).2.ctx = s.ctx := by
  unfold exchDecide
  simp only []
  split <;> simp

theorem clearExch_atoms (s : State) (r : Nat) :
    (clearExch s r).atoms = s.atoms ∧ (clearExch s r).ctx = s.ctx := ⟨rfl, rfl⟩

/-- what the grand-canonical revert needs to know about the state between trials -/
structure InvG (s : State) : Prop where
  lastPos : s.ctx.lastPos = positions s.atoms.rows
  noAdded : s.ctx.addedIdx = []
  noDeleted : s.ctx.deletedIdx = []
  noDeletedAtoms : s.ctx.deletedAtoms = []
  noSaved : s.ctx.savedFixed = none
  fixedOK : FixedOK s.atoms
  noSizes : s.ctx.addedSizes = []

/-- **rejected or failed single exchange move**: atoms, atom order, every column and the constraints are restored -/
theorem exch_not_accepted_restores (sim : Sim) (he : sim.ens = .grand) (r : Nat) (s : State) (hinv : InvG s)
    (hk : (s.obj r).kind = .exch) (hlab : (s.obj r).labels.length = s.atoms.rows.length)
    (hnew : toAddOf (s.obj r) s.ctx ≠ []) :
    (trial sim (.leaf r) false s).2.atoms = s.atoms := by
  simp only [trial, callTree, leafCall, hk, exchCall]
  obtain ⟨d1, d2, d3⟩ := exchDecide_spec r s
  rcases hdec : exchDecide r s with ⟨isAdd, s0⟩
  rw [hdec] at d1 d2 d3
  simp only [] at d1 d2 d3 ⊢
  have hobj : s0.obj r = s.obj r := by simp [State.obj, d2]
  cases isAdd with
  | true =>
    simp only [if_true, exchAdd]
    have hfx0 : FixedOK s0.atoms := by rw [d1]; exact hinv.fixedOK
    have hsp := attemptAddition_spec r s0 hfx0
    rw [hobj, d1, d3] at hsp
    rcases hadd : attemptAddition r s0 with ⟨idx, s1⟩
    rw [hadd] at hsp
    obtain ⟨_, hc, halt⟩ := hsp
    dsimp only at hc halt
    rcases halt with ⟨hidx, hat⟩ | ⟨hidx, d, hd⟩
    · -- vetoed insertion: failed trial
      simp only [hidx, List.isEmpty_nil, if_true, Bool.false_eq_true, if_false]
      exact hat
    · -- completed insertion, rejected by the criteria
      have hne : idx ≠ [] := by
        rw [hidx]; intro h
        have := congrArg List.length h
        simp [addMoving] at this
        exact hnew this
      have hie : idx.isEmpty = false := by cases idx <;> simp_all
      simp only [hie, Bool.false_eq_true, if_false, if_true, revertState, he, clearExch, State.setObj,
        recordAdded]
      have hadd0 : s1.ctx.addedIdx = [] := by
        have := congrArg Ctx.addedIdx hc; simp only [ctxCore] at this; rw [this, hinv.noAdded]
      have hdel0 : s1.ctx.deletedIdx = [] := by
        have := congrArg Ctx.deletedIdx hc; simp only [ctxCore] at this; rw [this, hinv.noDeleted]
      have hlp : s1.ctx.lastPos = positions s.atoms.rows := by
        have := congrArg Ctx.lastPos hc; simp only [ctxCore] at this; rw [this, hinv.lastPos]
      simp only [hadd0, hdel0, List.nil_append, hie, Bool.false_eq_true, if_false, List.isEmpty_nil, if_true, hlp]
      have hback : s1.atoms.delete idx = s.atoms := by
        rw [hd, hidx]; exact delete_after_insert s.atoms _ d _ hinv.fixedOK
      rw [hback]
      cases hs : s.atoms
      simp only [AtomsS.mk.injEq, and_true]
      have := setPositions_self s.atoms.rows
      rw [hs] at this; exact this
  | false =>
    simp only [Bool.false_eq_true, if_false, exchDel]
    obtain ⟨_, hc, ha, halt⟩ := attemptDeletion_spec r s0
    rcases hdl : attemptDeletion r s0 with ⟨idx, s1⟩
    rw [hdl] at hc ha halt
    simp only [] at hc ha halt
    rw [hobj] at halt
    by_cases hie : idx.isEmpty = true
    · simp only [hie, if_true, Bool.false_eq_true, if_false]
      rw [(clearExch_atoms s1 r).1, ha, d1]
    · have hie' : idx.isEmpty = false := by simpa using hie
      obtain ⟨l, hl⟩ : ∃ l, idx = whereEq (s.obj r).labels l := by
        rcases halt with h | h
        · rw [h] at hie; simp at hie
        · exact h
      have hnd : idx.Nodup := by rw [hl]; exact whereEq_nodup _ _
      have hv : ∀ i ∈ idx, i < s.atoms.rows.length := by
        intro i hi; rw [hl] at hi; rw [← hlab]; exact whereEq_lt _ _ _ hi
      have hs1a : s1.atoms = s.atoms := by rw [ha, d1]
      have hs1c : s1.ctx = s.ctx := by rw [hc, d3]
      simp only [hie', Bool.false_eq_true, if_false, if_true, revertState, he, clearExch, State.setObj,
        recordDeleted, saveFixed, hs1c, hs1a, hinv.noSaved, hinv.noAdded, hinv.noDeleted, hinv.noDeletedAtoms,
        List.nil_append, List.isEmpty_nil, hinv.lastPos, Option.getD_some]
      rw [reinsert_after_delete s.atoms idx hnd hv]
      cases hs : s.atoms
      simp only [AtomsS.delete, AtomsS.mk.injEq, and_true]
      have := setPositions_self s.atoms.rows
      rw [hs] at this
      simp only at this
      first | exact this | exact ⟨this, by simp⟩ | simpa using this

end MM
