import QProofs.Constraints
import Mathlib.LinearAlgebra.CrossProduct
import Mathlib.LinearAlgebra.Matrix.ToLinearEquiv

/-! Helper lemmas for the `FixRot` part of C12. -/

namespace Constr
open VecFn Verlet Finset

variable {n : ℕ}

/-- the model's `np.cross` is Mathlib's `crossProduct` -/
theorem cross_eq_crossProduct (u v : Fin 3 → ℝ) : cross u v = crossProduct u v := by
  funext k
  fin_cases k <;> simp [cross, cross_apply]

theorem cross_zero (u v : Fin 3 → ℝ) : cross u v 0 = u 1 * v 2 - u 2 * v 1 := rfl
theorem cross_one (u v : Fin 3 → ℝ) : cross u v 1 = u 2 * v 0 - u 0 * v 2 := rfl
theorem cross_two (u v : Fin 3 → ℝ) : cross u v 2 = u 0 * v 1 - u 1 * v 0 := rfl

/-- `A (A⁻¹ v) = v` for the adjugate inverse when `det A ≠ 0` -/
theorem mulVec3_inv3 (A : M3 ℝ) (hd : det3 A ≠ 0) (v : V3 ℝ) : mulVec3 A (mulVec3 (inv3 A) v) = v := by
  apply V3.ext' <;>
  · simp only [mulVec3, inv3]
    field_simp
    unfold det3
    ring

theorem angularMomentum_real (r p : Arr n ℝ) (k : Fin 3) :
    (angularMomentum r p).get k = ∑ i, cross (r i) (p i) k := by
  fin_cases k <;> simp [angularMomentum, sumFin_real]

/-- `Σ rᵢ × (mᵢ ω × rᵢ) = I ω` -/
theorem sum_cross_cross (m : Col n ℝ) (r : Arr n ℝ) (w : V3 ℝ) (k : Fin 3) :
    ∑ i, cross (r i) (fun a => cross w.get (r i) a * m i) k = (mulVec3 (inertia m r) w).get k := by
  fin_cases k <;>
  · simp only [mulVec3, inertia, sumFin_real, V3.get_zero, V3.get_one, V3.get_two, Fin.zero_eta, Fin.mk_one,
      Fin.reduceFinMk, cross_zero, cross_one, cross_two, Finset.sum_mul, ← Finset.sum_add_distrib]
    refine Finset.sum_congr rfl (fun i _ => ?_)
    ring

theorem toCom_real (m : Col n ℝ) (q : Arr n ℝ) (i : Fin n) (k : Fin 3) :
    toCom m q i k = q i k - (∑ j, m j * q j k) / ∑ j, m j := by
  simp [toCom, toComT, com_real]

/-- positions relative to the centre of mass have zero first moment -/
theorem toCom_centered (m : Col n ℝ) (q : Arr n ℝ) (hM : (∑ i, m i) ≠ 0) (k : Fin 3) :
    ∑ i, m i * toCom m q i k = 0 := by
  simp only [toCom_real, mul_sub, Finset.sum_sub_distrib, ← Finset.sum_mul]
  field_simp
  ring

theorem fixRotAdjust_apply (m : Col n ℝ) (q p : Arr n ℝ) (i : Fin n) (k : Fin 3) :
    fixRotAdjust m q p i k = p i k - cross (omega m (toCom m q) p).get (toCom m q i) k * m i := by
  simp [fixRotAdjust, fixRotAdjustT, toCom]

/-! ## non-collinear positions have an invertible inertia tensor -/

/-- all position vectors (relative to the origin used for `r`) lie on one line through that origin -/
def Collinear3 (r : Arr n ℝ) : Prop := ∃ u : Fin 3 → ℝ, u ≠ 0 ∧ ∀ i, cross u (r i) = 0

/-- an `M3` as a Mathlib matrix -/
def M3.toMatrix (A : M3 ℝ) : Matrix (Fin 3) (Fin 3) ℝ :=
  Matrix.of ![![A.r0.x, A.r0.y, A.r0.z], ![A.r1.x, A.r1.y, A.r1.z], ![A.r2.x, A.r2.y, A.r2.z]]

theorem det3_eq_det (A : M3 ℝ) : det3 A = A.toMatrix.det := by
  rw [Matrix.det_fin_three]
  simp [det3, M3.toMatrix]
  ring

theorem mulVec3_eq_mulVec (A : M3 ℝ) (w : Fin 3 → ℝ) :
    (mulVec3 A ⟨w 0, w 1, w 2⟩).get = Matrix.mulVec A.toMatrix w := by
  funext k
  fin_cases k <;> simp [mulVec3, M3.toMatrix, Matrix.mulVec, dotProduct, Fin.sum_univ_three]

theorem V3.get_mk (w : Fin 3 → ℝ) : (⟨w 0, w 1, w 2⟩ : V3 ℝ).get = w := by
  funext k
  fin_cases k <;> rfl

/-- `ωᵀ I ω = Σ mᵢ |ω × rᵢ|²` -/
theorem inertia_quadratic (m : Col n ℝ) (r : Arr n ℝ) (w : V3 ℝ) :
    ∑ k, w.get k * (mulVec3 (inertia m r) w).get k = ∑ i, m i * ∑ k, cross w.get (r i) k ^ 2 := by
  simp only [Fin.sum_univ_three, ← sum_cross_cross, cross_zero, cross_one, cross_two, Finset.mul_sum,
    ← Finset.sum_add_distrib]
  refine Finset.sum_congr rfl (fun i _ => ?_)
  ring

/-- masses `> 0` and positions not on one line ⇒ the inertia tensor is invertible -/
theorem inertia_det_ne_zero (m : Col n ℝ) (r : Arr n ℝ) (hm : ∀ i, 0 < m i) (hnc : ¬ Collinear3 r) :
    det3 (inertia m r) ≠ 0 := by
  intro hdet
  rw [det3_eq_det] at hdet
  obtain ⟨w, hw0, hw⟩ := Matrix.exists_mulVec_eq_zero_iff.mpr hdet
  rw [← mulVec3_eq_mulVec] at hw
  apply hnc
  refine ⟨w, hw0, fun i => ?_⟩
  have hq : ∑ i, m i * ∑ k, cross w (r i) k ^ 2 = 0 := by
    have := inertia_quadratic m r ⟨w 0, w 1, w 2⟩
    rw [hw, V3.get_mk] at this
    rw [← this]
    simp
  have hterm : ∀ i ∈ Finset.univ, 0 ≤ m i * ∑ k, cross w (r i) k ^ 2 := fun i _ =>
    mul_nonneg (hm i).le (Finset.sum_nonneg (fun k _ => sq_nonneg _))
  have hi := (Finset.sum_eq_zero_iff_of_nonneg hterm).mp hq i (Finset.mem_univ i)
  have hs : ∑ k, cross w (r i) k ^ 2 = 0 := by
    rcases mul_eq_zero.mp hi with h | h
    · exact absurd h (hm i).ne'
    · exact h
  have hk := (Finset.sum_eq_zero_iff_of_nonneg (fun k _ => sq_nonneg (cross w (r i) k))).mp hs
  funext k
  have := hk k (Finset.mem_univ k)
  simpa using this

end Constr
