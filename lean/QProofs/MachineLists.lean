import QModel.Machine
/-! list-level lemmas of the M-machine (core Lean only) -/
namespace MM

variable {α : Type}

/-! ### delete / pick / reinsert -/

theorem pick_get (l : List α) (idx : List Nat) (hv : ∀ i ∈ idx, i < l.length) (k : Nat) (hk : k ∈ idx) :
    (pick l idx)[idx.idxOf k]? = l[k]? := by
  induction idx with
  | nil => cases hk
  | cons a as ih =>
    have ha : a < l.length := hv a (by simp)
    simp only [pick, List.filterMap_cons]
    have : l[a]? = some l[a] := by simp [ha]
    rw [this]
    by_cases h : a = k
    · subst h; simp [List.idxOf_cons_self, ha]
    · have hk' : k ∈ as := by
        rcases List.mem_cons.mp hk with h' | h'
        · exact absurd h'.symm h
        · exact h'
      have : (a :: as).idxOf k = as.idxOf k + 1 := by
        have hb : (a == k) = false := by simp [h]
        simp [List.idxOf_cons, hb]
      rw [this]
      simp only [List.getElem?_cons_succ]
      exact ih (fun i hi => hv i (by simp [hi])) hk'

theorem reinsert_delete_from (full : List α) (idx : List Nat) (hv : ∀ i ∈ idx, i < full.length) :
    ∀ (suf : List α) (k : Nat), full.drop k = suf →
      reinsertFrom idx (pick full idx) k suf.length (deleteFrom idx k suf) = suf := by
  intro suf
  induction suf with
  | nil => intro k _; simp [reinsertFrom]
  | cons x xs ih =>
    intro k hdrop
    have hk : full[k]? = some x := by
      have := congrArg (fun l => l[0]?) hdrop
      simpa [List.getElem?_drop] using this
    have hdrop' : full.drop (k+1) = xs := by
      have := congrArg List.tail hdrop
      simpa [List.tail_drop] using this
    simp only [List.length_cons, reinsertFrom, deleteFrom]
    by_cases hmem : k ∈ idx
    · simp only [hmem, if_true]
      rw [pick_get full idx hv k hmem, hk]
      simp [ih (k+1) hdrop']
    · simp only [hmem, if_false]
      simp [ih (k+1) hdrop']

theorem filter_le_split (idx : List Nat) (hn : idx.Nodup) (k : Nat) :
    (idx.filter (fun i => decide (k ≤ i))).length =
      (idx.filter (fun i => decide (k + 1 ≤ i))).length + (if k ∈ idx then 1 else 0) := by
  induction idx with
  | nil => simp
  | cons a as iha =>
    have hn' := (List.nodup_cons.mp hn)
    have ih := iha hn'.2
    by_cases hak : a = k
    · subst hak
      have hna : a ∉ as := hn'.1
      simp only [hna, if_false, Nat.add_zero] at ih
      have h1 : ¬ (a + 1 ≤ a) := by omega
      simp [List.filter_cons, h1, ih]
    · have hka : ¬ k = a := fun h => hak h.symm
      by_cases h1 : k ≤ a
      · have h2 : k + 1 ≤ a := by omega
        simp only [List.filter_cons, h1, h2, decide_true, if_true, List.length_cons, List.mem_cons, hka, false_or]
        omega
      · have h2 : ¬ k + 1 ≤ a := by omega
        simp only [List.filter_cons, h1, h2, decide_false, List.mem_cons, hka, false_or]
        simpa using ih

theorem deleteFrom_length (idx : List Nat) (hn : idx.Nodup) :
    ∀ (l : List α) (k : Nat), (∀ i ∈ idx, i < k + l.length) →
      (deleteFrom idx k l).length + (idx.filter (fun i => k ≤ i)).length = l.length := by
  intro l
  induction l with
  | nil =>
    intro k h
    simp only [deleteFrom, List.length_nil, Nat.zero_add, List.length_eq_zero_iff, List.filter_eq_nil_iff]
    intro i hi; have := h i hi; simp at this; simp; omega
  | cons x xs ih =>
    intro k h
    have h' : ∀ i ∈ idx, i < (k+1) + xs.length := by intro i hi; have := h i hi; simp at this; omega
    have := ih (k+1) h'
    have hsplit : (idx.filter (fun i => decide (k ≤ i))).length =
        (idx.filter (fun i => decide (k + 1 ≤ i))).length + (if k ∈ idx then 1 else 0) :=
      filter_le_split idx hn k
    simp only [deleteFrom]
    split
    · rename_i hk; simp only [hk, if_true] at hsplit; simp only [List.length_cons]; omega
    · rename_i hk; simp only [hk, if_false] at hsplit; simp only [List.length_cons]; omega

theorem pick_length (l : List α) (idx : List Nat) (hv : ∀ i ∈ idx, i < l.length) :
    (pick l idx).length = idx.length := by
  induction idx with
  | nil => simp [pick]
  | cons a as ih =>
    have ha : a < l.length := hv a (by simp)
    have : l[a]? = some l[a] := by simp [ha]
    simp only [pick, List.filterMap_cons, this, List.length_cons]
    have := ih (fun i hi => hv i (by simp [hi]))
    simp only [pick] at this
    omega

/-- **reinsert ∘ delete = id** for every list and every duplicate-free index list, in any order -/
theorem reinsert_delete (l : List α) (idx : List Nat) (hn : idx.Nodup) (hv : ∀ i ∈ idx, i < l.length) :
    reinsert (deleteIdx l idx) (pick l idx) idx = l := by
  unfold reinsert deleteIdx
  have hlen : (deleteFrom idx 0 l).length + (pick l idx).length = l.length := by
    have := deleteFrom_length idx hn l 0 (by simpa using hv)
    rw [pick_length l idx hv]
    have hf : (idx.filter (fun i => decide (0 ≤ i))) = idx := by simp
    rw [hf] at this; exact this
  rw [hlen]
  exact reinsert_delete_from l idx hv l 0 (by simp)

/-- positions not listed are kept -/
theorem deleteFrom_none (idx : List Nat) :
    ∀ (l : List α) (k : Nat), (∀ i ∈ idx, i < k ∨ k + l.length ≤ i) → deleteFrom idx k l = l := by
  intro l
  induction l with
  | nil => intro k _; rfl
  | cons x xs ih =>
    intro k h
    have hk : k ∉ idx := by
      intro hm; have := h k hm; simp at this; omega
    simp only [deleteFrom, hk, if_false]
    rw [ih (k+1)]
    intro i hi; have := h i hi; simp at this; omega

/-- every listed position is dropped -/
theorem deleteFrom_all (idx : List Nat) :
    ∀ (l : List α) (k : Nat), (∀ i, k ≤ i → i < k + l.length → i ∈ idx) → deleteFrom idx k l = [] := by
  intro l
  induction l with
  | nil => intro k _; rfl
  | cons x xs ih =>
    intro k h
    have hk : k ∈ idx := h k (Nat.le_refl _) (by simp)
    simp only [deleteFrom, hk, if_true]
    exact ih (k+1) (fun i h1 h2 => h i (by omega) (by simp; omega))

theorem deleteFrom_append (idx : List Nat) (l m : List α) (k : Nat) :
    deleteFrom idx k (l ++ m) = deleteFrom idx k l ++ deleteFrom idx (k + l.length) m := by
  induction l generalizing k with
  | nil => simp [deleteFrom]
  | cons x xs ih =>
    simp only [List.cons_append, deleteFrom, List.length_cons]
    have : k + (xs.length + 1) = (k + 1) + xs.length := by omega
    rw [this]
    split <;> simp [ih (k+1)]

/-- deleting the indices of freshly appended rows gives the original rows back -/
theorem delete_appended (l new : List α) :
    deleteIdx (l ++ new) ((List.range new.length).map (· + l.length)) = l := by
  unfold deleteIdx
  rw [deleteFrom_append]
  rw [deleteFrom_none, deleteFrom_all]
  · simp
  · intro i h1 h2
    simp only [List.mem_map, List.mem_range]
    exact ⟨i - l.length, by omega, by omega⟩
  · intro i hi
    simp only [List.mem_map, List.mem_range] at hi
    obtain ⟨j, _, rfl⟩ := hi
    right; omega

end MM
