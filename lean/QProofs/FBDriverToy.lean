import QProofs.FBDriver
/-!
# a computable carrier for the witnesses and non-vacuity examples of C15f / C07f

The driver machine is generic over `[Num α] [FB.Ops α]`; the theorems quantify over every such `α`. To COMPUTE a concrete
run inside the kernel (`decide +kernel`) a carrier with decidable equality is needed: `Rat` with exact `+ - * /`, an exact
square root on squares of rationals, and first-order stand-ins for the transcendental functions
(`exp x = 1 + x`, `log x = (x - 1)/2`, `tanh x = x`, `pow x p = 1` if `p = 0` else `x`). With them

* the trial probability of `FB.trialProb` is `1 - |ζ|` for `γ ≠ 0` and `1` for `γ = 0` (a proper density on `[-1,1]`),
* both update functions are `v ↦ 1 - v/(2·ref)` (value 1 at 0, ½ at the reference variance, as the real ones).

Nothing is proved ABOUT these stand-ins; they only serve to exhibit concrete states on which the universally quantified
theorems are not vacuous and on which the repaired defects show.
-/
namespace FBD.Toy

def newton (n : Nat) : Nat → Nat → Nat
  | 0, r => r
  | f + 1, r => let r' := (r + n / r) / 2; if r' < r then newton n f r' else r

/-- integer square root (exact on perfect squares) -/
def sqrtNat (n : Nat) : Nat := if n = 0 then 0 else newton n (n.log2 + 2) n

/-- exact on squares of rationals -/
def sqrtRat (q : Rat) : Rat := (sqrtNat q.num.toNat : Rat) / (sqrtNat q.den : Rat)

instance : Num Rat where
  ofNat := fun n => (n : Rat)
  exp := fun x => 1 + x
  log := fun x => (x - 1) / 2
  sqrt := sqrtRat
  tanh := fun x => x
  sin := fun _ => 0
  cos := fun _ => 1
  pi := 3

instance : FB.Ops Rat where
  ltb a b := decide (a < b)
  neb a b := decide (a ≠ b)
  pow x p := if p = 0 then 1 else x

/-- one atom in a harmonic well centred at (1,1,1); two committee members `F` and `F·(1+x)`: the spread depends on the
    configuration. The generator returns the listed numbers, then `1/4` for ever (`ζ = u = 1/4` is always accepted);
    step 1 needs a second round for its third coordinate (`ζ = 0` is never accepted). -/
def env : Env Rat where
  forces pos := pos.map (fun x => -(x - 1))
  committee pos := [pos.map (fun x => -(x - 1)), pos.map (fun x => -(x - 1) * (1 + x))]
  stream i := [1/2, -1/4, 0, 1/4, 1/2, 0, 1/4, 1/2, -1/2, 1/8, 1/4, 1/3, 1/16, 0].getD i (1/4)
  fuel := 10

/-- a generator that returns `0` for ever: `ζ = 0` is never accepted, every rejection loop runs out of fuel -/
def envStuck : Env Rat := { env with stream := fun _ => 0, fuel := 3 }

def st0 (ad : Bool) : St Rat :=
  { natoms := 1, positions := [2, 3, 1/2], momenta := [0, 0, 0], masses := [4, 4, 4], powers := [1, 1, 1],
    delta := [1/2, 1/2, 1/2], kT := 1, rngPos := 0, cache := none, adaptive := ad, minDelta := 1/10, maxDelta := 1,
    refVar := 1/2, fn := .tanh, varCoef := [], gamma := [], zeta := [], diverged := false }

/-- a logger every step, an observer every second step -/
def c : RunLoop.Cfg (St Rat) := cfg env [1, 2] (some 0) .fixed

/-- the configuration the user moves the atom to between two runs -/
def moved : List Rat := [3, 1/2, 2]

end FBD.Toy
