import QProofs.MachineCall
/-!
# What a restart keeps: dead fields of the M-machine at a trial boundary (C07)

`persist s` is the state rebuilt by `from_dict` from the file `to_dict` wrote at a trial boundary: the transient
fields of the move objects (`to_displace_labels`, `displaced_labels`, `to_delete_label`, `to_add_atoms`) and of the
context (`_moving_indices`, `_added_*`, `_deleted_*`, `particle_delta`, saved constraints) are back at their
constructor defaults; everything else (atoms, generator = `inp`, labels, parameters, `last_*`, counter, template) is
kept.

The core of this file is a congruence: `callTree` and `trial` respect the relation `Rel g` = "equal up to DEAD fields"

* `MoveObj.displaced` (written by `dispCall` before `compDispLoop` reads it),
* `Ctx.moving` (written by `dispCall` / `addStart` before `attemptDisplacement` reads it),
* `Ctx.addedAtoms` (only ever appended to and cleared),
* and, for `g = false` (drivers other than the grand-canonical one), every exchange book-keeping field of the context
  (`addedIdx`, `deletedIdx`, `deletedAtoms`, `delta`, `savedFixed`: only `ctxSave .grand` / `revertState .grand`
  read them).

The congruence holds for EVERY tree (exchange members and composites included) and every script.
-/
namespace MM

deriving instance DecidableEq for Inputs
deriving instance DecidableEq for State

/-! ## the restarted state -/

/-- a move object as `from_dict` rebuilds it -/
def persistObj (m : MoveObj) : MoveObj :=
  { m with toDisplace := none, displaced := none, toDelete := none, toAdd := none }

/-- a context as `from_dict` rebuilds it -/
def persistCtx (c : Ctx) : Ctx :=
  { c with moving := [], addedIdx := [], addedAtoms := [], addedSizes := [], deletedIdx := [], deletedAtoms := [],
           delta := 0, savedFixed := none }

/-- the state a restart rebuilds from the file written at a trial boundary -/
def persist (s : State) : State :=
  { s with heap := s.heap.map persistObj, ctx := persistCtx s.ctx }

/-- same atoms, same generator / script, same stored part -/
structure Eqv (s s' : State) : Prop where
  atoms : s.atoms = s'.atoms
  inp : s.inp = s'.inp
  pers : persist s = persist s'

theorem Eqv.refl (s : State) : Eqv s s := ⟨rfl, rfl, rfl⟩
theorem Eqv.symm {s s' : State} (h : Eqv s s') : Eqv s' s := ⟨h.atoms.symm, h.inp.symm, h.pers.symm⟩
theorem Eqv.trans {a b c : State} (h1 : Eqv a b) (h2 : Eqv b c) : Eqv a c :=
  ⟨h1.atoms.trans h2.atoms, h1.inp.trans h2.inp, h1.pers.trans h2.pers⟩

theorem eqv_iff (s s' : State) : Eqv s s' ↔ persist s = persist s' :=
  ⟨fun h => h.pers, fun h => ⟨(congrArg State.atoms h : (persist s).atoms = (persist s').atoms),
    (congrArg State.inp h : (persist s).inp = (persist s').inp), h⟩⟩

/-! ## equality up to dead fields -/

/-- forget `displaced_labels` -/
def eObj (m : MoveObj) : MoveObj := { m with displaced := none }

/-- forget the dead context fields; `g = false`: also the exchange book-keeping (dead outside the grand-canonical driver) -/
def eCtx (g : Bool) (c : Ctx) : Ctx :=
  if g then { c with moving := [], addedAtoms := [] } else persistCtx c

structure Rel (g : Bool) (s s' : State) : Prop where
  atoms : s.atoms = s'.atoms
  inp : s.inp = s'.inp
  heap : s.heap.map eObj = s'.heap.map eObj
  ctx : eCtx g s.ctx = eCtx g s'.ctx

theorem Rel.refl (g : Bool) (s : State) : Rel g s s := ⟨rfl, rfl, rfl, rfl⟩
theorem Rel.symm {g : Bool} {s s' : State} (h : Rel g s s') : Rel g s' s :=
  ⟨h.atoms.symm, h.inp.symm, h.heap.symm, h.ctx.symm⟩
theorem Rel.trans {g : Bool} {a b c : State} (h1 : Rel g a b) (h2 : Rel g b c) : Rel g a c :=
  ⟨h1.atoms.trans h2.atoms, h1.inp.trans h2.inp, h1.heap.trans h2.heap, h1.ctx.trans h2.ctx⟩

theorem Rel.heap_len {g : Bool} {s s' : State} (h : Rel g s s') : s.heap.length = s'.heap.length := by
  have := congrArg List.length h.heap
  simpa using this

theorem eObj_default : eObj { kind := .user } = { kind := .user } := rfl

theorem Rel.obj {g : Bool} {s s' : State} (h : Rel g s s') (r : Nat) : eObj (s.obj r) = eObj (s'.obj r) := by
  have := congrArg (fun l => l[r]?) h.heap
  simp only [List.getElem?_map] at this
  simp only [State.obj, List.getD_eq_getElem?_getD]
  cases h1 : s.heap[r]? <;> cases h2 : s'.heap[r]? <;> simp_all

theorem eObj_eq {m m' : MoveObj} (h : eObj m = eObj m') : m' = { m with displaced := m'.displaced } := by
  cases m; cases m'
  simp only [eObj, MoveObj.mk.injEq] at h ⊢
  obtain ⟨h1, h2, h3, h4, _, h6, h7, h8, h9, h10, h11, h12⟩ := h
  exact ⟨h1.symm, h2.symm, h3.symm, h4.symm, trivial, h6.symm, h7.symm, h8.symm, h9.symm, h10.symm, h11.symm, h12.symm⟩

theorem eObj_kind {m m' : MoveObj} (h : eObj m = eObj m') : m.kind = m'.kind := by
  have := congrArg MoveObj.kind h; exact this
theorem eObj_labels {m m' : MoveObj} (h : eObj m = eObj m') : m.labels = m'.labels := by
  have := congrArg MoveObj.labels h; exact this
theorem eObj_defaultLabel {m m' : MoveObj} (h : eObj m = eObj m') : m.defaultLabel = m'.defaultLabel := by
  have := congrArg MoveObj.defaultLabel h; exact this
theorem eObj_toDisplace {m m' : MoveObj} (h : eObj m = eObj m') : m.toDisplace = m'.toDisplace := by
  have := congrArg MoveObj.toDisplace h; exact this
theorem eObj_toDelete {m m' : MoveObj} (h : eObj m = eObj m') : m.toDelete = m'.toDelete := by
  have := congrArg MoveObj.toDelete h; exact this
theorem eObj_toAdd {m m' : MoveObj} (h : eObj m = eObj m') : m.toAdd = m'.toAdd := by
  have := congrArg MoveObj.toAdd h; exact this
theorem eObj_bias {m m' : MoveObj} (h : eObj m = eObj m') : m.bias = m'.bias := by
  have := congrArg MoveObj.bias h; exact this
theorem eObj_maxAttempts {m m' : MoveObj} (h : eObj m = eObj m') : m.maxAttempts = m'.maxAttempts := by
  have := congrArg MoveObj.maxAttempts h; exact this
theorem eObj_applyConstraints {m m' : MoveObj} (h : eObj m = eObj m') : m.applyConstraints = m'.applyConstraints := by
  have := congrArg MoveObj.applyConstraints h; exact this
theorem eObj_scaleAtoms {m m' : MoveObj} (h : eObj m = eObj m') : m.scaleAtoms = m'.scaleAtoms := by
  have := congrArg MoveObj.scaleAtoms h; exact this
theorem eObj_userResult {m m' : MoveObj} (h : eObj m = eObj m') : m.userResult = m'.userResult := by
  have := congrArg MoveObj.userResult h; exact this

theorem map_set_eObj (h h' : List MoveObj) (r : Nat) (m m' : MoveObj) (hh : h.map eObj = h'.map eObj)
    (hm : eObj m = eObj m') : (h.set r m).map eObj = (h'.set r m').map eObj := by
  rw [List.map_set, List.map_set, hh, hm]

theorem Rel.setObj {g : Bool} {s s' : State} (h : Rel g s s') (r : Nat) {m m' : MoveObj} (hm : eObj m = eObj m') :
    Rel g (s.setObj r m) (s'.setObj r m') :=
  ⟨h.atoms, h.inp, map_set_eObj _ _ r m m' h.heap hm, h.ctx⟩

theorem obj_setObj' (s : State) (r : Nat) (m : MoveObj) :
    (s.setObj r m).obj r = if r < s.heap.length then m else { kind := .user } := by
  by_cases h : r < s.heap.length
  · simp [State.obj, State.setObj, List.getD_eq_getElem?_getD, h]
  · simp [State.obj, State.setObj, List.getD_eq_getElem?_getD, h]

/-- changing the generator on both sides -/
theorem Rel.withInp {g : Bool} {s s' : State} (h : Rel g s s') (i : Inputs) :
    Rel g { s with inp := i } { s' with inp := i } := ⟨h.atoms, rfl, h.heap, h.ctx⟩

theorem eCtx_moving (g : Bool) (c : Ctx) (x : List Nat) : eCtx g { c with moving := x } = eCtx g c := by
  cases g <;> rfl

/-- overwriting `_moving_indices` on both sides -/
theorem Rel.withMoving {g : Bool} {s s' : State} (h : Rel g s s') (x y : List Nat) :
    Rel g { s with ctx := { s.ctx with moving := x } } { s' with ctx := { s'.ctx with moving := y } } :=
  ⟨h.atoms, h.inp, h.heap, by rw [eCtx_moving, eCtx_moving]; exact h.ctx⟩

/-! ## `DisplacementMove` -/

theorem attemptDisplacement_eq (m : MoveObj) (s : State) :
    attemptDisplacement m s =
      ((attemptLoop s.ctx.moving m.applyConstraints (positions s.atoms.rows) m.maxAttempts s.atoms s.inp).1,
       { s with atoms := (attemptLoop s.ctx.moving m.applyConstraints (positions s.atoms.rows) m.maxAttempts s.atoms s.inp).2.1,
                inp := (attemptLoop s.ctx.moving m.applyConstraints (positions s.atoms.rows) m.maxAttempts s.atoms s.inp).2.2 }) := rfl

/-- `attempt_displacement` reads `_moving_indices` (which its callers have just written), the atoms, the generator,
    and the move's `apply_constraints` / `max_attempts` -/
theorem attemptDisplacement_congr {g : Bool} {m m' : MoveObj} {s s' : State} (hm : eObj m = eObj m') (h : Rel g s s')
    (hmv : s.ctx.moving = s'.ctx.moving) :
    (attemptDisplacement m s).1 = (attemptDisplacement m' s').1 ∧
    Rel g (attemptDisplacement m s).2 (attemptDisplacement m' s').2 := by
  have e1 : m.applyConstraints = m'.applyConstraints := eObj_applyConstraints hm
  have e2 : m.maxAttempts = m'.maxAttempts := eObj_maxAttempts hm
  rw [attemptDisplacement_eq, attemptDisplacement_eq, e1, e2, h.atoms, h.inp, hmv]
  exact ⟨rfl, rfl, rfl, h.heap, h.ctx⟩

theorem dispCore_eq (r : Nat) (m1 : MoveObj) (s1 : State) :
    dispCore r m1 s1 =
      let s2 : State := { s1 with ctx := { s1.ctx with moving := whereEq m1.labels (m1.toDisplace.getD 0) } }
      if (attemptDisplacement m1 s2).1 then
        (true, (attemptDisplacement m1 s2).2.setObj r { m1 with displaced := m1.toDisplace, toDisplace := none })
      else (false, (attemptDisplacement m1 s2).2.setObj r { m1 with toDisplace := none, displaced := none }) := rfl

theorem attemptDisplacement_heap_len (m : MoveObj) (s : State) :
    (attemptDisplacement m s).2.heap.length = s.heap.length := rfl

theorem dispCore_congr {g : Bool} (r : Nat) {m m' : MoveObj} {s s' : State} (hm : eObj m = eObj m') (h : Rel g s s') :
    (dispCore r m s).1 = (dispCore r m' s').1 ∧ Rel g (dispCore r m s).2 (dispCore r m' s').2 ∧
    ((dispCore r m s).2.obj r).displaced = ((dispCore r m' s').2.obj r).displaced := by
  have e1 : m.labels = m'.labels := eObj_labels hm
  have e2 : m.toDisplace = m'.toDisplace := eObj_toDisplace hm
  have hlen := h.heap_len
  rw [dispCore_eq, dispCore_eq]
  simp only []
  have hc := attemptDisplacement_congr (g := g) (m := m) (m' := m')
    (s := { s with ctx := { s.ctx with moving := whereEq m.labels (m.toDisplace.getD 0) } })
    (s' := { s' with ctx := { s'.ctx with moving := whereEq m'.labels (m'.toDisplace.getD 0) } })
    hm (h.withMoving _ _) (by simp only [e1, e2])
  rw [← hc.1]
  obtain ⟨d, hd⟩ : ∃ d, m' = { m with displaced := d } := ⟨_, eObj_eq hm⟩
  subst hd
  split
  · refine ⟨rfl, hc.2.setObj r rfl, ?_⟩
    rw [obj_setObj', obj_setObj', attemptDisplacement_heap_len, attemptDisplacement_heap_len, hlen]
  · refine ⟨rfl, hc.2.setObj r rfl, ?_⟩
    rw [obj_setObj', obj_setObj', attemptDisplacement_heap_len, attemptDisplacement_heap_len, hlen]

/-- `DisplacementMove.__call__`: `displaced_labels` is overwritten on every path before anybody reads it -/
theorem dispCall_congr {g : Bool} (r : Nat) {s s' : State} (h : Rel g s s') :
    (dispCall r s).1 = (dispCall r s').1 ∧ Rel g (dispCall r s).2 (dispCall r s').2 ∧
    ((dispCall r s).2.obj r).displaced = ((dispCall r s').2.obj r).displaced := by
  have hm := h.obj r
  have e1 := eObj_labels hm
  have e2 := eObj_toDisplace hm
  have hlen := h.heap_len
  rw [dispCall_eq, dispCall_eq, ← e2, ← e1, ← h.inp]
  cases htd : (s.obj r).toDisplace with
  | some l =>
    simp only []
    split
    · exact dispCore_congr r hm h
    · obtain ⟨d, hd⟩ : ∃ d, s'.obj r = { s.obj r with displaced := d } := ⟨_, eObj_eq hm⟩
      refine ⟨rfl, h.setObj r (by rw [hd]), ?_⟩
      rw [obj_setObj', obj_setObj', hlen]
      split <;> rfl
  | none =>
    simp only []
    split
    · obtain ⟨d, hd⟩ : ∃ d, s'.obj r = { s.obj r with displaced := d } := ⟨_, eObj_eq hm⟩
      refine ⟨rfl, h.setObj r (by rw [hd]), ?_⟩
      rw [obj_setObj', obj_setObj', hlen]
      split <;> rfl
    · exact dispCore_congr r (by rw [eObj_eq hm]; rfl) (h.withInp _)

/-! ## context fields that are NOT dead -/

theorem eCtx_lastPos {g : Bool} {c c' : Ctx} (h : eCtx g c = eCtx g c') : c.lastPos = c'.lastPos := by
  have := congrArg Ctx.lastPos h; cases g <;> exact this
theorem eCtx_lastCell {g : Bool} {c c' : Ctx} (h : eCtx g c = eCtx g c') : c.lastCell = c'.lastCell := by
  have := congrArg Ctx.lastCell h; cases g <;> exact this
theorem eCtx_lastMom {g : Bool} {c c' : Ctx} (h : eCtx g c = eCtx g c') : c.lastMom = c'.lastMom := by
  have := congrArg Ctx.lastMom h; cases g <;> exact this
theorem eCtx_nExch {g : Bool} {c c' : Ctx} (h : eCtx g c = eCtx g c') : c.nExch = c'.nExch := by
  have := congrArg Ctx.nExch h; cases g <;> exact this
theorem eCtx_template {g : Bool} {c c' : Ctx} (h : eCtx g c = eCtx g c') : c.template = c'.template := by
  have := congrArg Ctx.template h; cases g <;> exact this
theorem eCtx_addedIdx {c c' : Ctx} (h : eCtx true c = eCtx true c') : c.addedIdx = c'.addedIdx := by
  have := congrArg Ctx.addedIdx h; exact this
theorem eCtx_addedSizes {c c' : Ctx} (h : eCtx true c = eCtx true c') : c.addedSizes = c'.addedSizes := by
  have := congrArg Ctx.addedSizes h; exact this
theorem eCtx_deletedIdx {c c' : Ctx} (h : eCtx true c = eCtx true c') : c.deletedIdx = c'.deletedIdx := by
  have := congrArg Ctx.deletedIdx h; exact this
theorem eCtx_deletedAtoms {c c' : Ctx} (h : eCtx true c = eCtx true c') : c.deletedAtoms = c'.deletedAtoms := by
  have := congrArg Ctx.deletedAtoms h; exact this
theorem eCtx_delta {c c' : Ctx} (h : eCtx true c = eCtx true c') : c.delta = c'.delta := by
  have := congrArg Ctx.delta h; exact this
theorem eCtx_savedFixed {c c' : Ctx} (h : eCtx true c = eCtx true c') : c.savedFixed = c'.savedFixed := by
  have := congrArg Ctx.savedFixed h; exact this

theorem eCtx_true_eq {c c' : Ctx} (h : eCtx true c = eCtx true c') :
    c' = { c with moving := c'.moving, addedAtoms := c'.addedAtoms } := by
  cases c; cases c'
  simp only [eCtx, if_true, Ctx.mk.injEq] at h ⊢
  obtain ⟨h1, h2, h3, _, h5, _, h6, h7, h8, h9, h10, h11, h12⟩ := h
  exact ⟨h1.symm, h2.symm, h3.symm, trivial, h5.symm, trivial, h6.symm, h7.symm, h8.symm, h9.symm, h10.symm, h11.symm, h12.symm⟩

theorem eCtx_recordAdded {g : Bool} {c c' : Ctx} (h : eCtx g c = eCtx g c') (idx : List Nat) (rows : List Row) :
    eCtx g (recordAdded c idx rows) = eCtx g (recordAdded c' idx rows) := by
  cases g
  · exact h
  · rw [eCtx_true_eq h]; rfl

theorem eCtx_recordDeleted {g : Bool} {c c' : Ctx} (h : eCtx g c = eCtx g c') (a : AtomsS) (idx : List Nat) :
    eCtx g (recordDeleted c a idx) = eCtx g (recordDeleted c' a idx) := by
  cases g
  · cases hs : c.savedFixed <;> cases hs' : c'.savedFixed <;>
      simp only [eCtx, recordDeleted, saveFixed, hs, hs', persistCtx, Bool.false_eq_true, if_false] at h ⊢ <;> exact h
  · rw [eCtx_true_eq h]
    cases hs : c.savedFixed <;> simp only [eCtx, recordDeleted, saveFixed, hs, if_true]

/-! ## `ExchangeMove` -/

theorem toAddOf_rel_congr {g : Bool} {m m' : MoveObj} {c c' : Ctx} (hm : eObj m = eObj m') (hc : eCtx g c = eCtx g c') :
    toAddOf m c = toAddOf m' c' := by
  unfold toAddOf
  rw [eObj_toAdd hm, eCtx_template hc]

theorem addStart_congr {g : Bool} (r : Nat) {s s' : State} (h : Rel g s s') :
    Rel g (addStart r s) (addStart r s') ∧ (addStart r s).ctx.moving = (addStart r s').ctx.moving := by
  have hm := h.obj r
  have hn := toAddOf_rel_congr hm h.ctx
  unfold addStart
  simp only []
  rw [← hn, ← h.atoms]
  refine ⟨⟨rfl, h.inp, map_set_eObj _ _ r _ _ h.heap ?_, ?_⟩, rfl⟩
  · rw [eObj_eq hm]; rfl
  · rw [eCtx_moving, eCtx_moving]; exact h.ctx

theorem attemptAddition_congr {g : Bool} (r : Nat) {s s' : State} (h : Rel g s s') :
    (attemptAddition r s).1 = (attemptAddition r s').1 ∧ Rel g (attemptAddition r s).2 (attemptAddition r s').2 := by
  have hm := h.obj r
  have hn := toAddOf_rel_congr hm h.ctx
  obtain ⟨ha, hmv⟩ := addStart_congr r h
  have hc := attemptDisplacement_congr (g := g)
    (m := { s.obj r with toAdd := some (toAddOf (s.obj r) s.ctx) })
    (m' := { s'.obj r with toAdd := some (toAddOf (s'.obj r) s'.ctx) }) (by rw [← hn, eObj_eq hm]; rfl) ha hmv
  unfold attemptAddition
  simp only []
  rw [← hn]
  by_cases hemp : (toAddOf (s.obj r) s.ctx).isEmpty = true
  · simp only [hemp, if_true]
    refine ⟨trivial, ?_⟩
    -- the early return keeps atoms and context, and stores the (empty) species on the object like `addStart`
    refine ⟨h.atoms, h.inp, ?_, h.ctx⟩
    have := ha.heap
    unfold addStart at this
    simp only [] at this
    rw [← hn] at this
    exact this
  simp only [hemp, Bool.false_eq_true, if_false]
  rw [← h.atoms]
  have hc1 := hc.1
  rw [← hn] at hc1
  rw [← hc1]
  split
  · exact ⟨rfl, hc.2⟩
  · exact ⟨rfl, congrArg (fun a => AtomsS.delete a _) hc.2.atoms, hc.2.inp, hc.2.heap, hc.2.ctx⟩

theorem attemptDeletion_eq (r : Nat) (s : State) :
    attemptDeletion r s =
      match (s.obj r).toDelete with
      | some l =>
        if (uniqueLabels (s.obj r).labels).contains l then (whereEq (s.obj r).labels l, s.setObj r (s.obj r)) else ([], s)
      | none =>
        if (uniqueLabels (s.obj r).labels).isEmpty then ([], s)
        else (whereEq (s.obj r).labels (choice (uniqueLabels (s.obj r).labels) 0 s.inp).1,
              ({ s with inp := (choice (uniqueLabels (s.obj r).labels) 0 s.inp).2 } : State).setObj r
                { s.obj r with toDelete := some (choice (uniqueLabels (s.obj r).labels) 0 s.inp).1 }) := by
  unfold attemptDeletion
  cases h : (s.obj r).toDelete with
  | some l =>
    simp only [h]
    by_cases hc : (uniqueLabels (s.obj r).labels).contains l = true
    · simp only [hc, if_true, h, Option.getD_some]
    · simp only [hc, Bool.false_eq_true, if_false]
  | none =>
    simp only [h]
    by_cases hu : (uniqueLabels (s.obj r).labels).isEmpty = true
    · simp only [hu, if_true]
    · simp only [hu, Bool.false_eq_true, if_false, Option.getD_some]

theorem attemptDeletion_congr {g : Bool} (r : Nat) {s s' : State} (h : Rel g s s') :
    (attemptDeletion r s).1 = (attemptDeletion r s').1 ∧ Rel g (attemptDeletion r s).2 (attemptDeletion r s').2 := by
  have hm := h.obj r
  rw [attemptDeletion_eq, attemptDeletion_eq, ← eObj_toDelete hm, ← eObj_labels hm, ← h.inp]
  cases htd : (s.obj r).toDelete with
  | some l =>
    simp only []
    split
    · exact ⟨rfl, h.setObj r hm⟩
    · exact ⟨rfl, h⟩
  | none =>
    simp only []
    split
    · exact ⟨rfl, h⟩
    · exact ⟨rfl, (h.withInp _).setObj r (by rw [eObj_eq hm]; rfl)⟩

theorem exchDecide_congr {g : Bool} (r : Nat) {s s' : State} (h : Rel g s s') :
    (exchDecide r s).1 = (exchDecide r s').1 ∧ Rel g (exchDecide r s).2 (exchDecide r s').2 := by
  have hm := h.obj r
  unfold exchDecide
  simp only []
  rw [← eObj_toAdd hm, ← eObj_toDelete hm, ← eObj_bias hm, ← h.inp]
  split
  · exact ⟨rfl, h.withInp _⟩
  · exact ⟨rfl, h⟩

theorem clearExch_congr {g : Bool} (r : Nat) {s s' : State} (h : Rel g s s') :
    Rel g (clearExch s r) (clearExch s' r) := by
  unfold clearExch
  exact h.setObj r (by rw [eObj_eq (h.obj r)]; rfl)

theorem exchAdd_eq (r : Nat) (s0 : State) :
    exchAdd r s0 =
      if (attemptAddition r s0).1.isEmpty then (false, clearExch (attemptAddition r s0).2 r)
      else (true, clearExch { (attemptAddition r s0).2 with
              ctx := recordAdded (attemptAddition r s0).2.ctx (attemptAddition r s0).1 (attemptAddition r s0).2.atoms.rows } r) := rfl

theorem exchDel_eq (r : Nat) (s0 : State) :
    exchDel r s0 =
      if (attemptDeletion r s0).1.isEmpty then (false, clearExch (attemptDeletion r s0).2 r)
      else (true, clearExch { (attemptDeletion r s0).2 with
              ctx := recordDeleted (attemptDeletion r s0).2.ctx (attemptDeletion r s0).2.atoms (attemptDeletion r s0).1,
              atoms := (attemptDeletion r s0).2.atoms.delete (attemptDeletion r s0).1 } r) := rfl

theorem exchCall_eq (r : Nat) (s : State) :
    exchCall r s = if (exchDecide r s).1 then exchAdd r (exchDecide r s).2 else exchDel r (exchDecide r s).2 := rfl

theorem exchAdd_congr {g : Bool} (r : Nat) {s s' : State} (h : Rel g s s') :
    (exchAdd r s).1 = (exchAdd r s').1 ∧ Rel g (exchAdd r s).2 (exchAdd r s').2 := by
  obtain ⟨h1, h2⟩ := attemptAddition_congr r h
  rw [exchAdd_eq, exchAdd_eq, ← h1, ← h2.atoms]
  split
  · exact ⟨rfl, clearExch_congr r h2⟩
  · exact ⟨rfl, clearExch_congr r ⟨h2.atoms, h2.inp, h2.heap, eCtx_recordAdded h2.ctx _ _⟩⟩

theorem exchDel_congr {g : Bool} (r : Nat) {s s' : State} (h : Rel g s s') :
    (exchDel r s).1 = (exchDel r s').1 ∧ Rel g (exchDel r s).2 (exchDel r s').2 := by
  obtain ⟨h1, h2⟩ := attemptDeletion_congr r h
  rw [exchDel_eq, exchDel_eq, ← h1, ← h2.atoms]
  split
  · exact ⟨rfl, clearExch_congr r h2⟩
  · exact ⟨rfl, clearExch_congr r ⟨rfl, h2.inp, h2.heap, eCtx_recordDeleted h2.ctx _ _⟩⟩

/-- `ExchangeMove.__call__` -/
theorem exchCall_congr {g : Bool} (r : Nat) {s s' : State} (h : Rel g s s') :
    (exchCall r s).1 = (exchCall r s').1 ∧ Rel g (exchCall r s).2 (exchCall r s').2 := by
  obtain ⟨h1, h2⟩ := exchDecide_congr r h
  rw [exchCall_eq, exchCall_eq, ← h1]
  split
  · exact exchAdd_congr r h2
  · exact exchDel_congr r h2

/-! ## cell / Hamiltonian / user moves, and a move object called on its own -/

theorem cellCall_eq (r : Nat) (s : State) :
    cellCall r s =
      ((cellLoop (s.obj r).scaleAtoms s.atoms.cell (positions s.atoms.rows) (s.obj r).maxAttempts s.atoms s.inp).1,
       { s with atoms := (cellLoop (s.obj r).scaleAtoms s.atoms.cell (positions s.atoms.rows) (s.obj r).maxAttempts s.atoms s.inp).2.1,
                inp := (cellLoop (s.obj r).scaleAtoms s.atoms.cell (positions s.atoms.rows) (s.obj r).maxAttempts s.atoms s.inp).2.2 }) := rfl

theorem hamCall_eq (r : Nat) (s : State) :
    hamCall r s =
      ((hamLoop (positions s.atoms.rows) (momenta s.atoms.rows) (s.obj r).maxAttempts s.atoms s.inp).1,
       { s with atoms := (hamLoop (positions s.atoms.rows) (momenta s.atoms.rows) (s.obj r).maxAttempts s.atoms s.inp).2.1,
                inp := (hamLoop (positions s.atoms.rows) (momenta s.atoms.rows) (s.obj r).maxAttempts s.atoms s.inp).2.2 }) := rfl

theorem cellCall_congr {g : Bool} (r : Nat) {s s' : State} (h : Rel g s s') :
    (cellCall r s).1 = (cellCall r s').1 ∧ Rel g (cellCall r s).2 (cellCall r s').2 := by
  have hm := h.obj r
  rw [cellCall_eq, cellCall_eq, ← eObj_scaleAtoms hm, ← eObj_maxAttempts hm, ← h.atoms, ← h.inp]
  exact ⟨rfl, rfl, rfl, h.heap, h.ctx⟩

theorem hamCall_congr {g : Bool} (r : Nat) {s s' : State} (h : Rel g s s') :
    (hamCall r s).1 = (hamCall r s').1 ∧ Rel g (hamCall r s).2 (hamCall r s').2 := by
  have hm := h.obj r
  rw [hamCall_eq, hamCall_eq, ← eObj_maxAttempts hm, ← h.atoms, ← h.inp]
  exact ⟨rfl, rfl, rfl, h.heap, h.ctx⟩

theorem leafCall_congr {g : Bool} (r : Nat) {s s' : State} (h : Rel g s s') :
    (leafCall r s).1 = (leafCall r s').1 ∧ Rel g (leafCall r s).2 (leafCall r s').2 := by
  have hm := h.obj r
  unfold leafCall
  rw [← eObj_kind hm, ← eObj_userResult hm]
  cases (s.obj r).kind with
  | disp => exact ⟨(dispCall_congr r h).1, (dispCall_congr r h).2.1⟩
  | exch => exact exchCall_congr r h
  | cell => exact cellCall_congr r h
  | ham => exact hamCall_congr r h
  | user => exact ⟨rfl, h⟩

/-! ## composites -/

/-- the state in which `CompositeDisplacementMove.__call__` calls member `r`: target pre-selected among the labels not yet displaced -/
def compDispPre (r : Nat) (acc : List (Option Int)) (s : State) : State :=
  ({ s with inp := (choice (setdiff (uniqueLabels (s.obj r).labels) (acc.filterMap id)) 0 s.inp).2 } : State).setObj r
    { s.obj r with toDisplace := some (choice (setdiff (uniqueLabels (s.obj r).labels) (acc.filterMap id)) 0 s.inp).1 }

theorem compDispLoop_cons (r : Nat) (rs : List Nat) (acc : List (Option Int)) (s : State) :
    compDispLoop (r :: rs) acc s =
      if (setdiff (uniqueLabels (s.obj r).labels) (acc.filterMap id)).isEmpty then
        compDispLoop rs (acc ++ [none]) (s.setObj r { s.obj r with toDisplace := none })
      else
        compDispLoop rs
          (acc ++ [if (dispCall r (compDispPre r acc s)).1 then ((dispCall r (compDispPre r acc s)).2.obj r).displaced else none])
          (dispCall r (compDispPre r acc s)).2 := by
  rw [compDispLoop]
  rfl

theorem compDispPre_congr {g : Bool} (r : Nat) (acc : List (Option Int)) {s s' : State} (h : Rel g s s') :
    Rel g (compDispPre r acc s) (compDispPre r acc s') := by
  have hm := h.obj r
  unfold compDispPre
  rw [← eObj_labels hm, ← h.inp]
  exact (h.withInp _).setObj r (by rw [eObj_eq hm]; rfl)

/-- `CompositeDisplacementMove.__call__`: reads `displaced_labels` of a member only right after calling it -/
theorem compDispLoop_congr {g : Bool} (rs : List Nat) (acc : List (Option Int)) {s s' : State} (h : Rel g s s') :
    (compDispLoop rs acc s).1 = (compDispLoop rs acc s').1 ∧ Rel g (compDispLoop rs acc s).2 (compDispLoop rs acc s').2 := by
  induction rs generalizing acc s s' with
  | nil => exact ⟨rfl, h⟩
  | cons r rs ih =>
    have hm := h.obj r
    rw [compDispLoop_cons, compDispLoop_cons, ← eObj_labels hm]
    split
    · exact ih _ (h.setObj r (by rw [eObj_eq hm]; rfl))
    · obtain ⟨c1, c2, c3⟩ := dispCall_congr r (compDispPre_congr r acc h)
      rw [← c1, ← c3]
      exact ih _ c2

theorem compDispCall_congr {g : Bool} (rs : List Nat) {s s' : State} (h : Rel g s s') :
    (compDispCall rs s).1 = (compDispCall rs s').1 ∧ Rel g (compDispCall rs s).2.2 (compDispCall rs s').2.2 := by
  obtain ⟨h1, h2⟩ := compDispLoop_congr rs [] h
  have e : ∀ x : State, compDispCall rs x =
      (decide (((compDispLoop rs [] x).1.filterMap id).length > 0), (compDispLoop rs [] x).1, (compDispLoop rs [] x).2) :=
    fun _ => rfl
  rw [e, e, ← h1]
  exact ⟨rfl, h2⟩

theorem compExchAddLoop_step (r : Nat) (rs : List Nat) (ok : Bool) (s : State) :
    compExchAddLoop (r :: rs) ok s =
      compExchAddLoop rs (if (attemptAddition r s).1.isEmpty then ok else true)
        (clearExch (if (attemptAddition r s).1.isEmpty then (attemptAddition r s).2
          else { (attemptAddition r s).2 with
                  ctx := recordAdded (attemptAddition r s).2.ctx (attemptAddition r s).1 (attemptAddition r s).2.atoms.rows }) r) := by
  rw [compExchAddLoop]
  rcases attemptAddition r s with ⟨idx, s1⟩
  simp only []
  by_cases hi : idx.isEmpty = true
  · simp only [hi, if_true]
  · simp only [hi, if_false, Bool.false_eq_true]

theorem compExchAddLoop_congr {g : Bool} (rs : List Nat) (ok : Bool) {s s' : State} (h : Rel g s s') :
    (compExchAddLoop rs ok s).1 = (compExchAddLoop rs ok s').1 ∧
    Rel g (compExchAddLoop rs ok s).2 (compExchAddLoop rs ok s').2 := by
  induction rs generalizing ok s s' with
  | nil => exact ⟨rfl, h⟩
  | cons r rs ih =>
    obtain ⟨h1, h2⟩ := attemptAddition_congr r h
    rw [compExchAddLoop_step, compExchAddLoop_step, ← h1, ← h2.atoms]
    split
    · exact ih _ (clearExch_congr r h2)
    · have h3 : Rel g
          { (attemptAddition r s).2 with
              ctx := recordAdded (attemptAddition r s).2.ctx (attemptAddition r s).1 (attemptAddition r s).2.atoms.rows }
          { (attemptAddition r s').2 with
              ctx := recordAdded (attemptAddition r s').2.ctx (attemptAddition r s).1 (attemptAddition r s).2.atoms.rows } :=
        ⟨h2.atoms, h2.inp, h2.heap, eCtx_recordAdded h2.ctx _ _⟩
      exact ih _ (clearExch_congr r h3)

theorem compExchDelLoop_congr {g : Bool} (rs : List Nat) (labs : List Int) (idx : List Nat) {s s' : State}
    (h : Rel g s s') :
    (compExchDelLoop rs labs idx s).1 = (compExchDelLoop rs labs idx s').1 ∧
    (compExchDelLoop rs labs idx s).2.1 = (compExchDelLoop rs labs idx s').2.1 ∧
    Rel g (compExchDelLoop rs labs idx s).2.2 (compExchDelLoop rs labs idx s').2.2 := by
  induction rs generalizing labs idx s s' with
  | nil => exact ⟨rfl, rfl, h⟩
  | cons r rs ih =>
    have hm := h.obj r
    rw [compExchDelLoop_cons, compExchDelLoop_cons, ← eObj_labels hm, ← h.inp]
    split
    · exact ih _ _ (clearExch_congr r h)
    · exact ih _ _ ((clearExch_congr r h).withInp _)

theorem saveFixed_congr {g : Bool} {c c' : Ctx} (h : eCtx g c = eCtx g c') (a : AtomsS) :
    eCtx g (saveFixed c a) = eCtx g (saveFixed c' a) := by
  cases g
  · cases hs : c.savedFixed <;> cases hs' : c'.savedFixed <;>
      simp only [eCtx, saveFixed, hs, hs', persistCtx, Bool.false_eq_true, if_false] at h ⊢ <;> exact h
  · rw [eCtx_true_eq h]
    cases hs : c.savedFixed <;> simp only [eCtx, saveFixed, hs, if_true]

theorem compExchCall_eq (rs : List Nat) (bias : Nat) (s : State) :
    compExchCall rs bias s =
      if s.inp.draw.1 < bias then compExchAddLoop rs false { s with inp := s.inp.draw.2 }
      else
        if (compExchDelLoop rs [] [] { s with inp := s.inp.draw.2 }).2.1.isEmpty then
          (false, (compExchDelLoop rs [] [] { s with inp := s.inp.draw.2 }).2.2)
        else
          (true, { (compExchDelLoop rs [] [] { s with inp := s.inp.draw.2 }).2.2 with
            ctx := { saveFixed (compExchDelLoop rs [] [] { s with inp := s.inp.draw.2 }).2.2.ctx
                        (compExchDelLoop rs [] [] { s with inp := s.inp.draw.2 }).2.2.atoms with
                      deletedIdx := (compExchDelLoop rs [] [] { s with inp := s.inp.draw.2 }).2.1,
                      deletedAtoms := (saveFixed (compExchDelLoop rs [] [] { s with inp := s.inp.draw.2 }).2.2.ctx
                        (compExchDelLoop rs [] [] { s with inp := s.inp.draw.2 }).2.2.atoms).deletedAtoms ++
                        pick (compExchDelLoop rs [] [] { s with inp := s.inp.draw.2 }).2.2.atoms.rows
                          (compExchDelLoop rs [] [] { s with inp := s.inp.draw.2 }).2.1,
                      delta := (saveFixed (compExchDelLoop rs [] [] { s with inp := s.inp.draw.2 }).2.2.ctx
                        (compExchDelLoop rs [] [] { s with inp := s.inp.draw.2 }).2.2.atoms).delta -
                          ((compExchDelLoop rs [] [] { s with inp := s.inp.draw.2 }).1.eraseDups.length : Int) },
            atoms := (compExchDelLoop rs [] [] { s with inp := s.inp.draw.2 }).2.2.atoms.delete
                        (compExchDelLoop rs [] [] { s with inp := s.inp.draw.2 }).2.1 }) := rfl

/-- the book-keeping a composite deletion writes -/
theorem eCtx_compDel {g : Bool} {c c' : Ctx} (h : eCtx g c = eCtx g c') (idx : List Nat) (rows : List Row) (k : Int) :
    eCtx g { c with deletedIdx := idx, deletedAtoms := c.deletedAtoms ++ rows, delta := c.delta - k } =
    eCtx g { c' with deletedIdx := idx, deletedAtoms := c'.deletedAtoms ++ rows, delta := c'.delta - k } := by
  cases g
  · exact h
  · rw [eCtx_true_eq h]; rfl

/-- `CompositeExchangeMove.__call__` -/
theorem compExchCall_congr {g : Bool} (rs : List Nat) (bias : Nat) {s s' : State} (h : Rel g s s') :
    (compExchCall rs bias s).1 = (compExchCall rs bias s').1 ∧
    Rel g (compExchCall rs bias s).2 (compExchCall rs bias s').2 := by
  rw [compExchCall_eq, compExchCall_eq, ← h.inp]
  split
  · exact compExchAddLoop_congr rs false (h.withInp _)
  · obtain ⟨h1, h2, h3⟩ := compExchDelLoop_congr rs [] [] (h.withInp s.inp.draw.2)
    rw [← h1, ← h2, ← h3.atoms]
    split
    · exact ⟨rfl, h3⟩
    · exact ⟨rfl, rfl, h3.inp, h3.heap, eCtx_compDel (saveFixed_congr h3.ctx _) _ _ _⟩

/-- `CompositeMove.__call__` -/
theorem plainLoop_congr {g : Bool} (rs : List Nat) (ok : Bool) {s s' : State} (h : Rel g s s') :
    (plainLoop rs ok s).1 = (plainLoop rs ok s').1 ∧ Rel g (plainLoop rs ok s).2 (plainLoop rs ok s').2 := by
  induction rs generalizing ok s s' with
  | nil => exact ⟨rfl, h⟩
  | cons r rs ih =>
    obtain ⟨h1, h2⟩ := leafCall_congr r h
    have e : ∀ x : State, plainLoop (r :: rs) ok x = plainLoop rs (ok || (leafCall r x).1) (leafCall r x).2 := fun _ => rfl
    rw [e, e, ← h1]
    exact ih _ h2

/-- **the move call of a trial respects equality up to dead fields** — every tree, every script -/
theorem callTree_congr {g : Bool} (t : Tree) {s s' : State} (h : Rel g s s') :
    (callTree t s).1 = (callTree t s').1 ∧ Rel g (callTree t s).2 (callTree t s').2 := by
  cases t with
  | leaf r => exact leafCall_congr r h
  | compDisp rs => exact compDispCall_congr rs h
  | compExch rs b => exact compExchCall_congr rs b h
  | plain rs => exact plainLoop_congr rs false h

/-! ## the drivers: `save_state`, `revert_state`, one trial -/

theorem getD_eObj {h h' : List MoveObj} (hh : h.map eObj = h'.map eObj) (r : Nat) :
    eObj (h.getD r { kind := .user }) = eObj (h'.getD r { kind := .user }) := by
  have := congrArg (fun l => l[r]?) hh
  simp only [List.getElem?_map] at this
  simp only [List.getD_eq_getElem?_getD]
  cases h1 : h[r]? <;> cases h2 : h'[r]? <;> simp_all

theorem notifyRefs_congr (rs added removed : List Nat) {h h' : List MoveObj} (hh : h.map eObj = h'.map eObj) :
    (notifyRefs rs added removed h).map eObj = (notifyRefs rs added removed h').map eObj := by
  induction rs generalizing h h' with
  | nil => exact hh
  | cons r rs ih =>
    have hm := getD_eObj hh r
    simp only [notifyRefs]
    rw [← eObj_kind hm]
    split
    · exact ih (map_set_eObj _ _ r _ _ hh (by rw [eObj_eq hm]; rfl))
    · exact ih hh

theorem notifyParts_congr (rs sizes added removed : List Nat) {h h' : List MoveObj} (hh : h.map eObj = h'.map eObj) :
    (notifyParts rs sizes added removed h).map eObj = (notifyParts rs sizes added removed h').map eObj := by
  induction sizes generalizing added h h' with
  | nil => exact notifyRefs_congr _ _ _ hh
  | cons n ns ih =>
    cases ns with
    | nil => exact notifyRefs_congr _ _ _ hh
    | cons m ms =>
      simp only [notifyParts]
      exact ih _ (notifyRefs_congr _ _ _ hh)

theorem eCtx_lastPos_set {g : Bool} {c c' : Ctx} (h : eCtx g c = eCtx g c') (x : List V3) :
    eCtx g { c with lastPos := x } = eCtx g { c' with lastPos := x } := by
  cases g
  · have h1 := eCtx_lastCell h; have h2 := eCtx_lastMom h; have h3 := eCtx_nExch h; have h4 := eCtx_template h
    simp only [eCtx, persistCtx, Bool.false_eq_true, if_false, h1, h2, h3, h4]
  · rw [eCtx_true_eq h]; rfl

theorem eCtx_lastMom_set {g : Bool} {c c' : Ctx} (h : eCtx g c = eCtx g c') (x : List V3) :
    eCtx g { c with lastMom := x } = eCtx g { c' with lastMom := x } := by
  cases g
  · have h1 := eCtx_lastCell h; have h2 := eCtx_lastPos h; have h3 := eCtx_nExch h; have h4 := eCtx_template h
    simp only [eCtx, persistCtx, Bool.false_eq_true, if_false, h1, h2, h3, h4]
  · rw [eCtx_true_eq h]; rfl

theorem eCtx_lastCell_set {g : Bool} {c c' : Ctx} (h : eCtx g c = eCtx g c') (x : V3) :
    eCtx g { c with lastCell := x } = eCtx g { c' with lastCell := x } := by
  cases g
  · have h1 := eCtx_lastMom h; have h2 := eCtx_lastPos h; have h3 := eCtx_nExch h; have h4 := eCtx_template h
    simp only [eCtx, persistCtx, Bool.false_eq_true, if_false, h1, h2, h3, h4]
  · rw [eCtx_true_eq h]; rfl

/-- `context.save_state()`; the grand-canonical one reads `particle_delta`, hence `g = true` for it -/
theorem ctxSave_congr {g : Bool} (ens : Ensemble) (hg : g = false → ens ≠ .grand) {s s' : State} (h : Rel g s s') :
    Rel g (ctxSave ens s) (ctxSave ens s') := by
  refine ⟨h.atoms, h.inp, h.heap, ?_⟩
  have hc := h.ctx
  cases ens with
  | base => simp only [ctxSave]; rw [← h.atoms]; exact eCtx_lastPos_set hc _
  | canonical => simp only [ctxSave]; rw [← h.atoms]; exact eCtx_lastPos_set hc _
  | hamiltonian => simp only [ctxSave]; rw [← h.atoms]; exact eCtx_lastMom_set (eCtx_lastPos_set hc _) _
  | isobaric => simp only [ctxSave]; rw [← h.atoms]; exact eCtx_lastCell_set (eCtx_lastPos_set hc _) _
  | grand =>
    cases g
    · exact absurd rfl (hg rfl)
    · simp only [ctxSave]; rw [← h.atoms, eCtx_true_eq hc]

/-- `save_state()` of the driver; the grand-canonical one reads `_added_indices` / `_deleted_indices` -/
theorem saveState_congr {g : Bool} (sim : Sim) (hg : g = false → sim.ens ≠ .grand) {s s' : State} (h : Rel g s s') :
    Rel g (saveState sim s) (saveState sim s') := by
  unfold saveState
  cases he : sim.ens with
  | base => exact h
  | canonical => exact ctxSave_congr _ (by simp) h
  | hamiltonian => exact ctxSave_congr _ (by simp) h
  | isobaric => exact ctxSave_congr _ (by simp) h
  | grand =>
    cases g
    · exact absurd he (hg rfl)
    · simp only []
      refine ctxSave_congr .grand (by simp) ⟨h.atoms, h.inp, ?_, h.ctx⟩
      rw [← eCtx_addedIdx h.ctx, ← eCtx_deletedIdx h.ctx, ← eCtx_addedSizes h.ctx]
      exact notifyParts_congr _ _ _ _ h.heap

/-- `revert_state()` of the driver; the grand-canonical one reads `_added_indices`, `_deleted_indices`,
    `_deleted_atoms` and the saved constraints -/
theorem revertState_congr {g : Bool} (sim : Sim) (hg : g = false → sim.ens ≠ .grand) {s s' : State} (h : Rel g s s') :
    Rel g (revertState sim s) (revertState sim s') := by
  have hc := h.ctx
  unfold revertState
  cases he : sim.ens with
  | base => exact h
  | canonical =>
    simp only []
    rw [← h.atoms, ← eCtx_lastPos hc]
    exact ⟨rfl, h.inp, h.heap, hc⟩
  | hamiltonian =>
    simp only []
    rw [← h.atoms, ← eCtx_lastPos hc, ← eCtx_lastMom hc]
    exact ⟨rfl, h.inp, h.heap, hc⟩
  | isobaric =>
    simp only []
    rw [← h.atoms, ← eCtx_lastPos hc, ← eCtx_lastCell hc]
    exact ⟨rfl, h.inp, h.heap, hc⟩
  | grand =>
    cases g
    · exact absurd he (hg rfl)
    · simp only []
      rw [← h.atoms, eCtx_true_eq hc]
      exact ⟨rfl, h.inp, h.heap, rfl⟩

/-- **one trial respects equality up to dead fields**: same outcome, related final states.
    `g = true` (exchange book-keeping must agree) is only needed for the grand-canonical driver. -/
theorem trial_congr {g : Bool} (sim : Sim) (hg : g = false → sim.ens ≠ .grand) (t : Tree) (v : Bool) {s s' : State}
    (h : Rel g s s') :
    (trial sim t v s).1 = (trial sim t v s').1 ∧ Rel g (trial sim t v s).2 (trial sim t v s').2 := by
  obtain ⟨h1, h2⟩ := callTree_congr t h
  have e : ∀ x : State, trial sim t v x =
      if (callTree t x).1 then
        (if v then (.accepted, saveState sim (callTree t x).2) else (.rejected, revertState sim (callTree t x).2))
      else (.failed, (callTree t x).2) := fun _ => rfl
  rw [e, e, ← h1]
  split
  · split
    · exact ⟨rfl, saveState_congr sim hg h2⟩
    · exact ⟨rfl, revertState_congr sim hg h2⟩
  · exact ⟨rfl, h2⟩

/-! ## `persist` only changes dead fields of a boundary state -/

/-- no user pre-selection pending on any move object -/
def NoPresel (s : State) : Prop :=
  ∀ m ∈ s.heap, m.toDisplace = none ∧ m.toDelete = none ∧ m.toAdd = none

/-- the exchange book-keeping of the context is empty (what `save_state` / `revert_state` / `reset` leave) -/
instance (s : State) : Decidable (NoPresel s) := by unfold NoPresel; infer_instance

structure CtxClean (c : Ctx) : Prop where
  noAdded : c.addedIdx = []
  noSizes : c.addedSizes = []
  noDeleted : c.deletedIdx = []
  noDeletedAtoms : c.deletedAtoms = []
  delta0 : c.delta = 0
  noSaved : c.savedFixed = none

theorem eObj_persistObj (m : MoveObj) (h : m.toDisplace = none ∧ m.toDelete = none ∧ m.toAdd = none) :
    eObj (persistObj m) = eObj m := by
  cases m
  simp only at h
  obtain ⟨h1, h2, h3⟩ := h
  subst h1; subst h2; subst h3
  rfl

theorem eCtx_persistCtx (g : Bool) (c : Ctx) (h : g = true → CtxClean c) : eCtx g (persistCtx c) = eCtx g c := by
  cases g
  · rfl
  · obtain ⟨h1, h0, h2, h3, h4, h5⟩ := h rfl
    cases c
    simp only at h1 h0 h2 h3 h4 h5
    subst h1; subst h0; subst h2; subst h3; subst h4; subst h5
    rfl

/-- at a boundary state the restarted state differs from the running one in dead fields only -/
theorem rel_persist (g : Bool) (s : State) (hp : NoPresel s) (hc : g = true → CtxClean s.ctx) :
    Rel g (persist s) s := by
  refine ⟨rfl, rfl, ?_, eCtx_persistCtx g s.ctx hc⟩
  show (s.heap.map persistObj).map eObj = s.heap.map eObj
  rw [List.map_map]
  apply List.map_congr_left
  intro m hm
  exact eObj_persistObj m (hp m hm)

theorem persistObj_eObj (m : MoveObj) : persistObj (eObj m) = persistObj m := rfl

theorem persistCtx_eCtx (g : Bool) (c : Ctx) : persistCtx (eCtx g c) = persistCtx c := by
  cases g <;> rfl

/-- states equal up to dead fields write the same restart file -/
theorem Rel.eqv {g : Bool} {s s' : State} (h : Rel g s s') : Eqv s s' := by
  refine ⟨h.atoms, h.inp, ?_⟩
  have hh : s.heap.map persistObj = s'.heap.map persistObj := by
    have := congrArg (List.map persistObj) h.heap
    simpa only [List.map_map, Function.comp_def, persistObj_eObj] using this
  have hc : persistCtx s.ctx = persistCtx s'.ctx := by
    have := congrArg persistCtx h.ctx
    rwa [persistCtx_eCtx, persistCtx_eCtx] at this
  unfold persist
  rw [hh, hc, h.atoms, h.inp]

theorem persist_idem (s : State) : persist (persist s) = persist s := by
  unfold persist
  simp only [List.map_map]
  congr 1

/-- a state whose transient fields are all at their defaults is its own restart -/
theorem persist_self (s : State) (hh : ∀ m ∈ s.heap, persistObj m = m) (hc : persistCtx s.ctx = s.ctx) :
    persist s = s := by
  unfold persist
  rw [hc, List.map_congr_left hh, List.map_id']

/-! ## no pre-selection is left pending by a trial

Every call clears what it consumed: `register_success` / `register_failure` reset `to_displace_labels`,
`ExchangeMove.__call__` resets `to_add_atoms` / `to_delete_label`, the composite calls do it member by member.
Hence "no user pre-selection pending" holds at EVERY boundary of a run that started without one. -/

def Idle (m : MoveObj) : Prop := m.toDisplace = none ∧ m.toDelete = none ∧ m.toAdd = none

theorem idle_default : Idle { kind := .user } := ⟨rfl, rfl, rfl⟩

/-- every object but the one at `r` is idle -/
def IdleBut (r : Nat) (h : List MoveObj) : Prop := ∀ m ∈ h.set r { kind := .user }, Idle m

theorem NoPresel.idleBut {s : State} (h : NoPresel s) (r : Nat) : IdleBut r s.heap := by
  intro m hm
  rcases List.mem_or_eq_of_mem_set hm with h1 | h1
  · exact h m h1
  · rw [h1]; exact idle_default

theorem NoPresel.obj {s : State} (h : NoPresel s) (r : Nat) : Idle (s.obj r) := by
  simp only [State.obj, List.getD_eq_getElem?_getD]
  cases hr : s.heap[r]? with
  | none => exact idle_default
  | some m => exact h m (List.mem_of_getElem? hr)

theorem idleBut_set {r : Nat} {h : List MoveObj} (m : MoveObj) : IdleBut r (h.set r m) ↔ IdleBut r h := by
  unfold IdleBut
  rw [List.set_set]

theorem noPresel_of_set {r : Nat} {h : List MoveObj} {m : MoveObj} (hb : IdleBut r h) (hm : Idle m) :
    ∀ x ∈ h.set r m, Idle x := by
  intro x hx
  have : h.set r m = (h.set r { kind := .user }).set r m := by rw [List.set_set]
  rw [this] at hx
  rcases List.mem_or_eq_of_mem_set hx with h1 | h1
  · exact hb x h1
  · rw [h1]; exact hm

theorem obj_ge (s : State) (r : Nat) (h : ¬ r < s.heap.length) : s.obj r = { kind := .user } := by
  simp [State.obj, List.getD_eq_getElem?_getD, h]

/-- the heaps agree except (possibly) at `r` -/
def AgreeOff (r : Nat) (s s' : State) : Prop := s'.heap = s.heap.set r (s'.obj r)

theorem set_obj_self (s : State) (r : Nat) : s.heap.set r (s.obj r) = s.heap := by
  by_cases hlt : r < s.heap.length
  · apply List.ext_getElem?
    intro i
    by_cases hi : r = i
    · subst hi; simp [State.obj, hlt, List.getD_eq_getElem?_getD]
    · simp [hi]
  · exact List.set_eq_of_length_le (by omega)

theorem AgreeOff.refl (r : Nat) (s : State) : AgreeOff r s s := (set_obj_self s r).symm

theorem AgreeOff.of_heap_eq {r : Nat} {s s' : State} (h : s'.heap = s.heap) : AgreeOff r s s' := by
  unfold AgreeOff
  rw [← h]; exact (set_obj_self s' r).symm

theorem AgreeOff.trans {r : Nat} {a b c : State} (h1 : AgreeOff r a b) (h2 : AgreeOff r b c) : AgreeOff r a c := by
  unfold AgreeOff at *
  rw [h2, h1, List.set_set]

theorem AgreeOff.setObj (r : Nat) (s : State) (m : MoveObj) : AgreeOff r s (s.setObj r m) := by
  unfold AgreeOff
  rw [obj_setObj']
  split
  · rfl
  · rename_i h
    show s.heap.set r m = s.heap.set r _
    rw [List.set_eq_of_length_le (by omega), List.set_eq_of_length_le (by omega)]

theorem AgreeOff.len {r : Nat} {s s' : State} (h : AgreeOff r s s') : s'.heap.length = s.heap.length := by
  unfold AgreeOff at h
  rw [h]; simp

theorem noPresel_of_agree {r : Nat} {s s' : State} (h : AgreeOff r s s') (hb : IdleBut r s.heap)
    (hi : Idle (s'.obj r)) : NoPresel s' := by
  unfold AgreeOff at h
  intro x hx
  rw [h] at hx
  exact noPresel_of_set hb hi x hx

theorem AgreeOff.idleBut {r : Nat} {s s' : State} (h : AgreeOff r s s') (hb : IdleBut r s.heap) : IdleBut r s'.heap := by
  unfold AgreeOff at h
  rw [h, idleBut_set]; exact hb

theorem setObj_at {r : Nat} {s X : State} (hX : AgreeOff r s X) (M : MoveObj) :
    AgreeOff r s (X.setObj r M) ∧
    ((X.setObj r M).obj r = M ∨ ((X.setObj r M).obj r = { kind := .user } ∧ s.obj r = { kind := .user })) := by
  refine ⟨hX.trans (AgreeOff.setObj r X M), ?_⟩
  rw [obj_setObj']
  split
  · exact Or.inl rfl
  · rename_i h
    exact Or.inr ⟨rfl, obj_ge s r (by rw [← hX.len]; exact h)⟩

theorem dispCore_shape (r : Nat) (m1 : MoveObj) (s1 : State) :
    ∃ (X : State) (M : MoveObj), (dispCore r m1 s1).2 = X.setObj r M ∧ X.heap = s1.heap ∧ M.toDisplace = none ∧
      M.toDelete = m1.toDelete ∧ M.toAdd = m1.toAdd := by
  rw [dispCore_eq]
  simp only []
  split <;> exact ⟨_, _, rfl, rfl, rfl, rfl, rfl⟩

theorem dispCall_shape (r : Nat) (s : State) :
    ∃ (X : State) (M : MoveObj), (dispCall r s).2 = X.setObj r M ∧ X.heap = s.heap ∧ M.toDisplace = none ∧
      M.toDelete = (s.obj r).toDelete ∧ M.toAdd = (s.obj r).toAdd := by
  rw [dispCall_eq]
  cases htd : (s.obj r).toDisplace with
  | some l =>
    simp only []
    split
    · exact dispCore_shape r (s.obj r) s
    · exact ⟨_, _, rfl, rfl, rfl, rfl, rfl⟩
  | none =>
    simp only []
    split
    · exact ⟨_, _, rfl, rfl, rfl, rfl, rfl⟩
    · exact dispCore_shape r _ _

/-- `DisplacementMove.__call__` touches only its own object, and leaves no target pending on it -/
theorem dispCall_at (r : Nat) (s : State) :
    AgreeOff r s (dispCall r s).2 ∧ ((dispCall r s).2.obj r).toDisplace = none ∧
    ((dispCall r s).2.obj r).toDelete = (s.obj r).toDelete ∧ ((dispCall r s).2.obj r).toAdd = (s.obj r).toAdd := by
  obtain ⟨X, M, h1, h2, h3, h4, h5⟩ := dispCall_shape r s
  rw [h1]
  obtain ⟨a1, a2⟩ := setObj_at (AgreeOff.of_heap_eq (r := r) h2) M
  refine ⟨a1, ?_⟩
  rcases a2 with a2 | ⟨a2, a3⟩
  · rw [a2]; exact ⟨h3, h4, h5⟩
  · rw [a2, a3]; exact ⟨rfl, rfl, rfl⟩

theorem dispCall_noPresel (r : Nat) (s : State) (hb : IdleBut r s.heap) (h1 : (s.obj r).toDelete = none)
    (h2 : (s.obj r).toAdd = none) : NoPresel (dispCall r s).2 := by
  obtain ⟨a, b, c, d⟩ := dispCall_at r s
  exact noPresel_of_agree a hb ⟨b, by rw [c, h1], by rw [d, h2]⟩

theorem noPresel_setObj {s : State} (hp : NoPresel s) (r : Nat) {m : MoveObj} (hm : Idle m) : NoPresel (s.setObj r m) :=
  noPresel_of_set (hp.idleBut r) hm

theorem compDispLoop_noPresel (rs : List Nat) (acc : List (Option Int)) (s : State) (hp : NoPresel s) :
    NoPresel (compDispLoop rs acc s).2 := by
  induction rs generalizing acc s with
  | nil => exact hp
  | cons r rs ih =>
    have hi := hp.obj r
    rw [compDispLoop_cons]
    split
    · exact ih _ _ (noPresel_setObj hp r ⟨rfl, hi.2.1, hi.2.2⟩)
    · apply ih
      obtain ⟨a1, a2⟩ := setObj_at (r := r) (s := s)
        (X := ({ s with inp := (choice (setdiff (uniqueLabels (s.obj r).labels) (acc.filterMap id)) 0 s.inp).2 } : State))
        (AgreeOff.of_heap_eq rfl)
        { s.obj r with toDisplace := some (choice (setdiff (uniqueLabels (s.obj r).labels) (acc.filterMap id)) 0 s.inp).1 }
      have hb : IdleBut r (compDispPre r acc s).heap := a1.idleBut (hp.idleBut r)
      have hf : ((compDispPre r acc s).obj r).toDelete = none ∧ ((compDispPre r acc s).obj r).toAdd = none := by
        unfold compDispPre
        rcases a2 with a2 | ⟨a2, _⟩
        · rw [a2]; exact ⟨hi.2.1, hi.2.2⟩
        · rw [a2]; exact ⟨rfl, rfl⟩
      exact dispCall_noPresel r _ hb hf.1 hf.2

/-! exchange moves -/

theorem attemptAddition_at (r : Nat) (s : State) :
    AgreeOff r s (attemptAddition r s).2 ∧ ((attemptAddition r s).2.obj r).toDisplace = (s.obj r).toDisplace ∧
    ((attemptAddition r s).2.obj r).toDelete = (s.obj r).toDelete := by
  have hh : (attemptAddition r s).2.heap = (s.setObj r { s.obj r with toAdd := some (toAddOf (s.obj r) s.ctx) }).heap := by
    unfold attemptAddition
    simp only []
    split
    · rfl
    · split <;> rfl
  obtain ⟨a1, a2⟩ := setObj_at (AgreeOff.refl r s) { s.obj r with toAdd := some (toAddOf (s.obj r) s.ctx) }
  have e : (attemptAddition r s).2.obj r = (s.setObj r { s.obj r with toAdd := some (toAddOf (s.obj r) s.ctx) }).obj r := by
    simp only [State.obj, hh]
  refine ⟨a1.trans (AgreeOff.of_heap_eq hh), ?_⟩
  rw [e]
  rcases a2 with a2 | ⟨a2, a3⟩
  · rw [a2]; exact ⟨rfl, rfl⟩
  · rw [a2, a3]; exact ⟨rfl, rfl⟩

theorem attemptDeletion_at (r : Nat) (s : State) :
    AgreeOff r s (attemptDeletion r s).2 ∧ ((attemptDeletion r s).2.obj r).toDisplace = (s.obj r).toDisplace := by
  rw [attemptDeletion_eq]
  cases htd : (s.obj r).toDelete with
  | some l =>
    simp only []
    split
    · obtain ⟨a1, a2⟩ := setObj_at (AgreeOff.refl r s) (s.obj r)
      refine ⟨a1, ?_⟩
      rcases a2 with a2 | ⟨a2, a3⟩
      · simp only []; rw [a2]
      · simp only []; rw [a2, a3]
    · exact ⟨AgreeOff.refl r s, rfl⟩
  | none =>
    simp only []
    split
    · exact ⟨AgreeOff.refl r s, rfl⟩
    · obtain ⟨a1, a2⟩ := setObj_at (r := r) (s := s)
        (X := ({ s with inp := (choice (uniqueLabels (s.obj r).labels) 0 s.inp).2 } : State)) (AgreeOff.of_heap_eq rfl)
        { s.obj r with toDelete := some (choice (uniqueLabels (s.obj r).labels) 0 s.inp).1 }
      refine ⟨a1, ?_⟩
      rcases a2 with a2 | ⟨a2, a3⟩
      · simp only []; rw [a2]
      · simp only []; rw [a2, a3]

theorem clearExch_at {r : Nat} {s X : State} (hX : AgreeOff r s X) (hd : (X.obj r).toDisplace = (s.obj r).toDisplace) :
    AgreeOff r s (clearExch X r) ∧ ((clearExch X r).obj r).toDisplace = (s.obj r).toDisplace ∧
    ((clearExch X r).obj r).toDelete = none ∧ ((clearExch X r).obj r).toAdd = none := by
  unfold clearExch
  obtain ⟨a1, a2⟩ := setObj_at hX { X.obj r with toAdd := none, toDelete := none }
  refine ⟨a1, ?_⟩
  rcases a2 with a2 | ⟨a2, a3⟩
  · rw [a2]; exact ⟨hd, rfl, rfl⟩
  · rw [a2, a3]; exact ⟨rfl, rfl, rfl⟩

theorem exchDecide_heap (r : Nat) (s : State) : (exchDecide r s).2.heap = s.heap := by
  unfold exchDecide
  simp only []
  split <;> rfl

/-- `ExchangeMove.__call__` touches only its own object and clears `to_add_atoms` / `to_delete_label` -/
theorem exchCall_at (r : Nat) (s : State) :
    AgreeOff r s (exchCall r s).2 ∧ ((exchCall r s).2.obj r).toDisplace = (s.obj r).toDisplace ∧
    ((exchCall r s).2.obj r).toDelete = none ∧ ((exchCall r s).2.obj r).toAdd = none := by
  have h0 := exchDecide_heap r s
  have hobj : (exchDecide r s).2.obj r = s.obj r := by simp only [State.obj, h0]
  have ag0 : AgreeOff r s (exchDecide r s).2 := AgreeOff.of_heap_eq h0
  rw [exchCall_eq]
  split
  · obtain ⟨b1, b2, _⟩ := attemptAddition_at r (exchDecide r s).2
    rw [exchAdd_eq]
    split
    · exact clearExch_at (ag0.trans b1) (by rw [b2, hobj])
    · exact clearExch_at (X := { (attemptAddition r (exchDecide r s).2).2 with ctx := _ })
        (ag0.trans (b1.trans (AgreeOff.of_heap_eq rfl))) (by rw [← hobj, ← b2]; rfl)
  · obtain ⟨b1, b2⟩ := attemptDeletion_at r (exchDecide r s).2
    rw [exchDel_eq]
    split
    · exact clearExch_at (ag0.trans b1) (by rw [b2, hobj])
    · exact clearExch_at (X := { (attemptDeletion r (exchDecide r s).2).2 with ctx := _, atoms := _ })
        (ag0.trans (b1.trans (AgreeOff.of_heap_eq rfl))) (by rw [← hobj, ← b2]; rfl)

theorem exchCall_noPresel (r : Nat) (s : State) (hp : NoPresel s) : NoPresel (exchCall r s).2 := by
  obtain ⟨a, b, c, d⟩ := exchCall_at r s
  exact noPresel_of_agree a (hp.idleBut r) ⟨by rw [b]; exact (hp.obj r).1, c, d⟩

theorem leafCall_noPresel (r : Nat) (s : State) (hp : NoPresel s) : NoPresel (leafCall r s).2 := by
  unfold leafCall
  cases (s.obj r).kind with
  | disp => exact dispCall_noPresel r s (hp.idleBut r) (hp.obj r).2.1 (hp.obj r).2.2
  | exch => exact exchCall_noPresel r s hp
  | cell => exact hp
  | ham => exact hp
  | user => exact hp

theorem plainLoop_noPresel (rs : List Nat) (ok : Bool) (s : State) (hp : NoPresel s) :
    NoPresel (plainLoop rs ok s).2 := by
  induction rs generalizing ok s with
  | nil => exact hp
  | cons r rs ih =>
    have e : plainLoop (r :: rs) ok s = plainLoop rs (ok || (leafCall r s).1) (leafCall r s).2 := rfl
    rw [e]
    exact ih _ _ (leafCall_noPresel r s hp)

/-! ### `CompositeExchangeMove.__call__`: the members' pre-selections are dropped, whatever was there at entry

The composite draws its own targets. A one-shot pre-selection (`to_add_atoms`, `to_delete_label`) placed on a MEMBER
is gone after the call on every exit path of both branches (repaired code; the pinned code kept it, see
`pinned_compExch_keeps_preselection` in QProps/C03e.lean). Nothing is assumed about the heap at entry. -/

/-- what a composite exchange call does to the transient fields of the move objects: every member has lost both
    exchange pre-selections, every other object is untouched, `to_displace_labels` is touched nowhere -/
structure MembersCleared (rs : List Nat) (s s' : State) : Prop where
  len : s'.heap.length = s.heap.length
  on : ∀ r ∈ rs, (s'.obj r).toAdd = none ∧ (s'.obj r).toDelete = none
  off : ∀ r, r ∉ rs → s'.obj r = s.obj r
  disp : ∀ r, (s'.obj r).toDisplace = (s.obj r).toDisplace

theorem obj_of_heap (s s' : State) (h : s'.heap = s.heap) (r : Nat) : s'.obj r = s.obj r := by
  simp only [State.obj, h]

theorem MembersCleared.nil {s s' : State} (h : s'.heap = s.heap) : MembersCleared [] s s' :=
  ⟨by rw [h], fun r hr => absurd hr (by simp), fun r _ => obj_of_heap s s' h r, fun r => by rw [obj_of_heap s s' h r]⟩

theorem AgreeOff.obj_ne {r : Nat} {s s' : State} (h : AgreeOff r s s') (r' : Nat) (hne : r' ≠ r) :
    s'.obj r' = s.obj r' := by
  unfold AgreeOff at h
  simp only [State.obj, List.getD_eq_getElem?_getD]
  rw [h, List.getElem?_set_ne (Ne.symm hne)]

/-- one member's turn (`s → s1`: only cell `r` touched, both exchange pre-selections dropped on it), then the rest
    of the loop (`s1' → s2`, where `s1'` has the heap of `s1`) -/
theorem MembersCleared.cons {r : Nat} {rs : List Nat} {s s1 s1' s2 : State}
    (hag : AgreeOff r s s1) (hd : (s1.obj r).toDisplace = (s.obj r).toDisplace)
    (hdel : (s1.obj r).toDelete = none) (hadd : (s1.obj r).toAdd = none)
    (hh : s1'.heap = s1.heap) (h : MembersCleared rs s1' s2) : MembersCleared (r :: rs) s s2 := by
  have e : ∀ x, s1'.obj x = s1.obj x := obj_of_heap s1 s1' hh
  refine ⟨by rw [h.len, hh, hag.len], ?_, ?_, ?_⟩
  · intro x hx
    by_cases hxr : x ∈ rs
    · exact h.on x hxr
    · have hx' : x = r := by
        rcases List.mem_cons.mp hx with h1 | h1
        · exact h1
        · exact absurd h1 hxr
      subst hx'
      rw [h.off x hxr, e]
      exact ⟨hadd, hdel⟩
  · intro x hx
    have h1 : x ≠ r := fun hc => hx (by simp [hc])
    have h2 : x ∉ rs := fun hc => hx (by simp [hc])
    rw [h.off x h2, e, hag.obj_ne x h1]
  · intro x
    rw [h.disp x, e]
    by_cases h1 : x = r
    · subst h1; exact hd
    · rw [hag.obj_ne x h1]

theorem compExchAddLoop_cleared (rs : List Nat) (ok : Bool) (s : State) :
    MembersCleared rs s (compExchAddLoop rs ok s).2 := by
  induction rs generalizing ok s with
  | nil => exact MembersCleared.nil rfl
  | cons r rs ih =>
    obtain ⟨b1, b2, _⟩ := attemptAddition_at r s
    rw [compExchAddLoop_step]
    split
    · obtain ⟨c1, c2, c3, c4⟩ := clearExch_at b1 b2
      exact MembersCleared.cons c1 c2 c3 c4 rfl (ih _ _)
    · obtain ⟨c1, c2, c3, c4⟩ := clearExch_at
        (X := { (attemptAddition r s).2 with
          ctx := recordAdded (attemptAddition r s).2.ctx (attemptAddition r s).1 (attemptAddition r s).2.atoms.rows })
        (b1.trans (AgreeOff.of_heap_eq rfl)) (by rw [← b2]; rfl)
      exact MembersCleared.cons c1 c2 c3 c4 rfl (ih _ _)

theorem compExchDelLoop_cleared (rs : List Nat) (labs : List Int) (idx : List Nat) (s : State) :
    MembersCleared rs s (compExchDelLoop rs labs idx s).2.2 := by
  induction rs generalizing labs idx s with
  | nil => exact MembersCleared.nil rfl
  | cons r rs ih =>
    obtain ⟨c1, c2, c3, c4⟩ := clearExch_at (AgreeOff.refl r s) rfl
    rw [compExchDelLoop_cons]
    split
    · exact MembersCleared.cons c1 c2 c3 c4 rfl (ih _ _ _)
    · exact MembersCleared.cons
        (s1' := { clearExch s r with inp := (choice (setdiff (uniqueLabels (s.obj r).labels) labs) 0 s.inp).2 })
        c1 c2 c3 c4 rfl (ih _ _ _)

theorem MembersCleared.of_heap_eq {rs : List Nat} {s s0 s' s0' : State} (h : MembersCleared rs s s')
    (h0 : s0.heap = s.heap) (h1 : s0'.heap = s'.heap) : MembersCleared rs s0 s0' := by
  have e0 := obj_of_heap s s0 h0
  have e1 := obj_of_heap s' s0' h1
  exact ⟨by rw [h1, h0, h.len], fun r hr => by rw [e1]; exact h.on r hr, fun r hr => by rw [e1, e0]; exact h.off r hr,
    fun r => by rw [e1, e0]; exact h.disp r⟩

/-- **the composite exchange call drops the members' pre-selections**, in both branches and on every exit path -/
theorem compExchCall_cleared (rs : List Nat) (bias : Nat) (s : State) :
    MembersCleared rs s (compExchCall rs bias s).2 := by
  rw [compExchCall_eq]
  split
  · exact (compExchAddLoop_cleared rs false { s with inp := s.inp.draw.2 }).of_heap_eq rfl rfl
  · have hh := compExchDelLoop_cleared rs [] [] { s with inp := s.inp.draw.2 }
    split
    · exact hh.of_heap_eq rfl rfl
    · exact hh.of_heap_eq rfl rfl

theorem noPresel_of_objs {s : State} (h : ∀ r, Idle (s.obj r)) : NoPresel s := by
  intro m hm
  obtain ⟨r, hr⟩ := List.getElem?_of_mem hm
  have := h r
  simp only [State.obj, List.getD_eq_getElem?_getD, hr, Option.getD_some] at this
  exact this

/-- after the call nothing is pending anywhere, provided nothing was pending on the objects the call does not touch
    (and no `to_displace_labels` on a member: an exchange move never reads or resets it) -/
theorem noPresel_of_cleared {rs : List Nat} {s s' : State} (h : MembersCleared rs s s')
    (hoff : ∀ r, r ∉ rs → Idle (s.obj r)) (hdisp : ∀ r ∈ rs, (s.obj r).toDisplace = none) : NoPresel s' := by
  apply noPresel_of_objs
  intro r
  by_cases hr : r ∈ rs
  · exact ⟨by rw [h.disp r]; exact hdisp r hr, (h.on r hr).2, (h.on r hr).1⟩
  · rw [h.off r hr]; exact hoff r hr

theorem compExchCall_noPresel (rs : List Nat) (bias : Nat) (s : State) (hp : NoPresel s) :
    NoPresel (compExchCall rs bias s).2 :=
  noPresel_of_cleared (compExchCall_cleared rs bias s) (fun r _ => hp.obj r) (fun r _ => (hp.obj r).1)

/-- no move call leaves a pre-selection pending -/
theorem callTree_noPresel (t : Tree) (s : State) (hp : NoPresel s) : NoPresel (callTree t s).2 := by
  cases t with
  | leaf r => exact leafCall_noPresel r s hp
  | compDisp rs => exact compDispLoop_noPresel rs [] s hp
  | compExch rs b => exact compExchCall_noPresel rs b s hp
  | plain rs => exact plainLoop_noPresel rs false s hp

theorem notifyRefs_idle (rs added removed : List Nat) (h : List MoveObj) (hp : ∀ m ∈ h, Idle m) :
    ∀ m ∈ notifyRefs rs added removed h, Idle m := by
  induction rs generalizing h with
  | nil => exact hp
  | cons r rs ih =>
    simp only [notifyRefs]
    split
    · apply ih
      intro m hm
      rcases List.mem_or_eq_of_mem_set hm with h1 | h1
      · exact hp m h1
      · rw [h1]
        have : Idle (h.getD r { kind := .user }) := by
          simp only [List.getD_eq_getElem?_getD]
          cases hr : h[r]? with
          | none => exact idle_default
          | some m' => exact hp m' (List.mem_of_getElem? hr)
        exact this
    · exact ih h hp

theorem notifyParts_idle (rs sizes added removed : List Nat) (h : List MoveObj) (hp : ∀ m ∈ h, Idle m) :
    ∀ m ∈ notifyParts rs sizes added removed h, Idle m := by
  induction sizes generalizing added h with
  | nil => exact notifyRefs_idle _ _ _ _ hp
  | cons n ns ih =>
    cases ns with
    | nil => exact notifyRefs_idle _ _ _ _ hp
    | cons m ms =>
      simp only [notifyParts]
      exact ih _ _ (notifyRefs_idle _ _ _ _ hp)

theorem saveState_noPresel (sim : Sim) (s : State) (hp : NoPresel s) : NoPresel (saveState sim s) := by
  unfold saveState
  cases sim.ens with
  | base => exact hp
  | canonical => exact hp
  | hamiltonian => exact hp
  | isobaric => exact hp
  | grand => exact notifyParts_idle _ _ _ _ _ hp

theorem revertState_noPresel (sim : Sim) (s : State) (hp : NoPresel s) : NoPresel (revertState sim s) := by
  unfold revertState
  cases sim.ens <;> exact hp

/-- **every trial ends with no pre-selection pending**, whatever the tree, the driver and the outcome -/
theorem trial_noPresel (sim : Sim) (t : Tree) (v : Bool) (s : State) (hp : NoPresel s) :
    NoPresel (trial sim t v s).2 := by
  have h := callTree_noPresel t s hp
  have e : trial sim t v s =
      if (callTree t s).1 then
        (if v then (.accepted, saveState sim (callTree t s).2) else (.rejected, revertState sim (callTree t s).2))
      else (.failed, (callTree t s).2) := rfl
  rw [e]
  split
  · split
    · exact saveState_noPresel sim _ h
    · exact revertState_noPresel sim _ h
  · exact h

/-! ### the drivers do not touch the exchange pre-selections of any move object -/

theorem notifyRefs_transient (rs added removed : List Nat) (h : List MoveObj) (r : Nat) :
    ((notifyRefs rs added removed h).getD r { kind := .user }).toAdd = (h.getD r { kind := .user }).toAdd ∧
    ((notifyRefs rs added removed h).getD r { kind := .user }).toDelete = (h.getD r { kind := .user }).toDelete := by
  induction rs generalizing h with
  | nil => exact ⟨rfl, rfl⟩
  | cons a as ih =>
    simp only [notifyRefs]
    split
    · obtain ⟨i1, i2⟩ := ih (h.set a (onAtomsChangedObj (h.getD a { kind := .user }) added removed))
      rw [i1, i2]
      by_cases har : a = r
      · subst har
        by_cases hlt : a < h.length
        · simp [List.getD_eq_getElem?_getD, hlt, onAtomsChangedObj]
        · rw [List.set_eq_of_length_le (by omega)]; exact ⟨rfl, rfl⟩
      · simp [List.getD_eq_getElem?_getD, List.getElem?_set_ne har]
    · exact ih h


theorem notifyParts_transient (rs sizes added removed : List Nat) (h : List MoveObj) (r : Nat) :
    ((notifyParts rs sizes added removed h).getD r { kind := .user }).toAdd = (h.getD r { kind := .user }).toAdd ∧
    ((notifyParts rs sizes added removed h).getD r { kind := .user }).toDelete = (h.getD r { kind := .user }).toDelete := by
  induction sizes generalizing added h with
  | nil => exact notifyRefs_transient _ _ _ _ r
  | cons n ns ih =>
    cases ns with
    | nil => exact notifyRefs_transient _ _ _ _ r
    | cons m ms =>
      simp only [notifyParts]
      obtain ⟨a1, a2⟩ := ih (added.drop n) (notifyRefs rs (added.take n) [] h)
      obtain ⟨b1, b2⟩ := notifyRefs_transient rs (added.take n) [] h r
      exact ⟨a1.trans b1, a2.trans b2⟩

theorem saveState_transient (sim : Sim) (s : State) (r : Nat) :
    ((saveState sim s).obj r).toAdd = (s.obj r).toAdd ∧ ((saveState sim s).obj r).toDelete = (s.obj r).toDelete := by
  unfold saveState
  cases sim.ens with
  | base => exact ⟨rfl, rfl⟩
  | canonical => exact ⟨rfl, rfl⟩
  | hamiltonian => exact ⟨rfl, rfl⟩
  | isobaric => exact ⟨rfl, rfl⟩
  | grand => exact notifyParts_transient _ _ _ _ s.heap r

theorem revertState_obj (sim : Sim) (s : State) (r : Nat) : (revertState sim s).obj r = s.obj r := by
  unfold revertState
  cases sim.ens <;> rfl

/-- whatever the verdict, the step after the move call keeps `to_add_atoms` / `to_delete_label` of every object -/
theorem trial_transient (sim : Sim) (t : Tree) (v : Bool) (s : State) (r : Nat) :
    ((trial sim t v s).2.obj r).toAdd = ((callTree t s).2.obj r).toAdd ∧
    ((trial sim t v s).2.obj r).toDelete = ((callTree t s).2.obj r).toDelete := by
  have e : trial sim t v s =
      if (callTree t s).1 then
        (if v then (.accepted, saveState sim (callTree t s).2) else (.rejected, revertState sim (callTree t s).2))
      else (.failed, (callTree t s).2) := rfl
  rw [e]
  split
  · split
    · exact saveState_transient sim _ r
    · rw [revertState_obj]; exact ⟨rfl, rfl⟩
  · exact ⟨rfl, rfl⟩

end MM
