import QProofs.MachineLists
/-! displacement-level lemmas of the M-machine: locality (C11) and restoration by positions (C03) -/
namespace MM

/-- everything of a row except its position -/
def strip (r : Row) : V3 × List Int := (r.mom, r.aux)

theorem setPositions_of_strip : ∀ (rows' rows : List Row), rows'.map strip = rows.map strip →
    setPositions rows' (positions rows) = rows
  | [], [], _ => rfl
  | [], _ :: _, h => by simp at h
  | _ :: _, [], h => by simp at h
  | r' :: rs', r :: rs, h => by
    simp only [List.map_cons, List.cons.injEq] at h
    have ih := setPositions_of_strip rs' rs h.2
    simp only [setPositions, positions, List.map_cons, List.zipWith_cons_cons, List.cons.injEq]
    refine ⟨?_, ih⟩
    cases r'; cases r; simp_all [strip]

theorem applyDisp_cell (a : AtomsS) (mv : List Nat) (d : V3) (c : Bool) :
    (applyDisp a mv d c).cell = a.cell ∧ (applyDisp a mv d c).fixed = a.fixed := ⟨rfl, rfl⟩

theorem applyDisp_length (a : AtomsS) (mv : List Nat) (d : V3) (c : Bool) :
    (applyDisp a mv d c).rows.length = a.rows.length := by
  simp [applyDisp]

theorem applyDisp_get (a : AtomsS) (mv : List Nat) (d : V3) (c : Bool) (i : Nat) :
    (applyDisp a mv d c).rows[i]? = a.rows[i]?.map (fun r =>
      if mv.contains i && !(c && isFixed a i) then { r with pos := V3.add r.pos d } else r) := by
  simp only [applyDisp, List.getElem?_map, List.getElem?_zipIdx]
  cases h : a.rows[i]? <;> simp

/-- **locality**: a row that is not selected keeps everything, position included -/
theorem applyDisp_untouched (a : AtomsS) (mv : List Nat) (d : V3) (c : Bool) (i : Nat) (h : i ∉ mv) :
    (applyDisp a mv d c).rows[i]? = a.rows[i]? := by
  rw [applyDisp_get]
  cases a.rows[i]? <;> simp [h]

/-- a selected row that no constraint pins moves by exactly `d` -/
theorem applyDisp_moved (a : AtomsS) (mv : List Nat) (d : V3) (c : Bool) (i : Nat) (r : Row)
    (h : i ∈ mv) (hf : (c && isFixed a i) = false) (hr : a.rows[i]? = some r) :
    (applyDisp a mv d c).rows[i]? = some { r with pos := V3.add r.pos d } := by
  rw [applyDisp_get, hr]
  have : mv.contains i = true := by simpa using h
  simp only [Option.map_some, this, hf, Bool.not_false, Bool.and_self, if_true]

/-- with constraints applied a fixed row never moves -/
theorem applyDisp_fixed (a : AtomsS) (mv : List Nat) (d : V3) (i : Nat) (hf : isFixed a i = true) :
    (applyDisp a mv d true).rows[i]? = a.rows[i]? := by
  rw [applyDisp_get]
  cases a.rows[i]? <;> simp [hf]

theorem applyDisp_strip (a : AtomsS) (mv : List Nat) (d : V3) (c : Bool) :
    (applyDisp a mv d c).rows.map strip = a.rows.map strip := by
  apply List.ext_getElem?
  intro i
  simp only [List.getElem?_map, applyDisp_get]
  cases a.rows[i]? with
  | none => rfl
  | some r => simp only [Option.map_some]; split <;> simp [strip]

theorem restore_after_disp (a : AtomsS) (mv : List Nat) (d : V3) (c : Bool) :
    ({ (applyDisp a mv d c) with rows := setPositions (applyDisp a mv d c).rows (positions a.rows) } : AtomsS) = a := by
  have h := setPositions_of_strip _ _ (applyDisp_strip a mv d c)
  cases a
  simp only [AtomsS.mk.injEq]
  exact ⟨h, rfl, rfl⟩

/-- the retry loop either gives up with the atoms exactly as they were, or returns one displacement of the selection -/
theorem attemptLoop_spec (mv : List Nat) (c : Bool) (n : Nat) (a : AtomsS) (i : Inputs) :
    let res := attemptLoop mv c (positions a.rows) n a i
    (res.1 = false ∧ res.2.1 = a) ∨ (res.1 = true ∧ ∃ d, res.2.1 = applyDisp a mv d c) := by
  induction n generalizing i with
  | zero => simp [attemptLoop]
  | succ k ih =>
    rcases hop : i.op with ⟨d, i1⟩
    rcases hck : i1.check with ⟨ok, i2⟩
    simp only [attemptLoop, hop, hck]
    cases ok with
    | true => right; exact ⟨rfl, d, rfl⟩
    | false =>
      simp only [Bool.false_eq_true, if_false]
      rw [restore_after_disp]
      exact ih _

/-! ### label helpers -/

theorem insertSorted_mem (x y : Int) (l : List Int) : y ∈ insertSorted x l ↔ y = x ∨ y ∈ l := by
  induction l with
  | nil => simp [insertSorted]
  | cons z zs ih =>
    simp only [insertSorted]
    split
    · simp
    · split
      · rename_i h; subst h; simp
      · simp [ih]; constructor <;> intro h <;> rcases h with h | h | h <;> simp_all

theorem uniqueLabels_mem (labels : List Int) (x : Int) : x ∈ uniqueLabels labels ↔ x ∈ labels ∧ 0 ≤ x := by
  unfold uniqueLabels
  generalize hf : labels.filter (· ≥ 0) = f
  have : ∀ y, y ∈ f ↔ y ∈ labels ∧ 0 ≤ y := by intro y; rw [← hf]; simp
  rw [← this]
  clear this hf
  induction f with
  | nil => simp
  | cons z zs ih => simp [List.foldr_cons, insertSorted_mem, ih]

theorem whereEq_mem (labels : List Int) (l : Int) (i : Nat) : i ∈ whereEq labels l ↔ labels[i]? = some l := by
  unfold whereEq
  simp only [List.mem_map, List.mem_filter, decide_eq_true_eq]
  constructor
  · rintro ⟨⟨x, j⟩, ⟨hm, hx⟩, rfl⟩
    rw [List.mem_zipIdx_iff_getElem?] at hm
    simp at hm hx
    subst hx
    exact hm
  · intro h
    obtain ⟨hlt, hget⟩ := List.getElem?_eq_some_iff.mp h
    refine ⟨(l, i), ⟨?_, rfl⟩, rfl⟩
    rw [List.mem_zipIdx_iff_getElem?]
    simpa using h

theorem choice_mem {α} (xs : List α) (dflt : α) (i : Inputs) (h : xs ≠ []) : (choice xs dflt i).1 ∈ xs := by
  unfold choice
  have hl : 0 < xs.length := List.length_pos_iff.mpr h
  have : i.draw.1 % xs.length < xs.length := Nat.mod_lt _ hl
  simp only [List.getD_eq_getElem?_getD]
  rw [List.getElem?_eq_getElem this]
  simp

end MM
