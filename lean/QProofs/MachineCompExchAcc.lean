import QProofs.MachineCompExch
import QProofs.MachineHistory
/-!
`CompositeExchangeMove`: what an ACCEPTED composite insertion / deletion leaves behind (C05).

* insertion loop: `addSucc`, `addNext`, `compExchAddCount` (number of members whose insertion succeeded),
  `compExchAddLoop_acc` (rows, recorded indices, `delta`, heap after the loop);
* deletion loop: `DelInv`, `compExchDelLoop_inv` (the collected labels are pairwise distinct non-negative labels in use,
  an atom is collected iff it carries one of them);
* notification: `notify_aligned` (label arrays after `save_state`).
-/
namespace MM

/-! ### one member of a composite insertion -/

/-- did the insertion attempted by member `r` in state `s` succeed (= was not vetoed)? -/
def addSucc (r : Nat) (s : State) : Bool := !(attemptAddition r s).1.isEmpty

/-- the state after member `r` of a composite insertion had its turn -/
def addNext (r : Nat) (s : State) : State := (compExchAddLoop [r] false s).2

/-- the number of members of a composite insertion whose insertion succeeded -/
def compExchAddCount : List Nat → State → Nat
  | [], _ => 0
  | r :: rs, s => (if addSucc r s then 1 else 0) + compExchAddCount rs (addNext r s)

theorem compExchAddLoop_cons (r : Nat) (rs : List Nat) (ok : Bool) (s : State) :
    compExchAddLoop (r :: rs) ok s = compExchAddLoop rs (ok || addSucc r s) (addNext r s) := by
  simp only [compExchAddLoop, addSucc, addNext]
  rcases attemptAddition r s with ⟨idx, s1⟩
  simp only []
  cases h : idx.isEmpty <;> simp

theorem toAddOf_ne_nil' (m : MoveObj) (c : Ctx) (h : c.template ≠ []) : toAddOf m c ≠ [] := by
  unfold toAddOf
  cases hm : m.toAdd with
  | none => exact h
  | some rows =>
    simp only []
    split
    · exact h
    · rename_i hne; intro hn; rw [hn] at hne; simp at hne

theorem attemptAddition_heap_eq (r : Nat) (s : State) :
    (attemptAddition r s).2.heap = s.heap.set r { s.obj r with toAdd := some (toAddOf (s.obj r) s.ctx) } := by
  have hsp := attemptDisplacement_spec { s.obj r with toAdd := some (toAddOf (s.obj r) s.ctx) } (addStart r s)
  have h1 : (addStart r s).heap = s.heap.set r { s.obj r with toAdd := some (toAddOf (s.obj r) s.ctx) } := rfl
  unfold attemptAddition
  simp only []
  split
  · rfl
  · split
    · rw [hsp.1, h1]
    · simp only []; rw [hsp.1, h1]

/-- the heap after a member's turn: only its one-shot pre-selections (`to_add_atoms`, `to_delete_label`) are cleared -/
theorem addNext_heap (r : Nat) (s : State) :
    (addNext r s).heap = s.heap.set r { s.obj r with toAdd := none, toDelete := none } := by
  have hh := attemptAddition_heap_eq r s
  simp only [addNext, compExchAddLoop]
  rcases hadd : attemptAddition r s with ⟨idx, s1⟩
  rw [hadd] at hh
  simp only [] at hh ⊢
  have key : ∀ s2 : State, s2.heap = s1.heap →
      (clearExch s2 r).heap = s.heap.set r { s.obj r with toAdd := none, toDelete := none } := by
    intro s2 h2
    simp only [clearExch, State.setObj, State.obj, h2, hh]
    by_cases hlt : r < s.heap.length
    · simp [List.getD_eq_getElem?_getD, hlt]
    · rw [List.set_eq_of_length_le (by simp; omega), List.set_eq_of_length_le (by omega),
        List.set_eq_of_length_le (by omega)]
  split
  · exact key _ rfl
  · exact key _ rfl

theorem addNext_heapStatic (r : Nat) (s : State) : HeapStatic s.heap (addNext r s).heap := by
  rw [addNext_heap]
  exact heapStatic_set s.heap r _ ⟨rfl, rfl, rfl⟩

/-- after a member's turn every object proposes what it proposed before, or the template -/
theorem addNext_toAddOf (r r' : Nat) (s : State) (c : Ctx) :
    toAddOf ((addNext r s).obj r') c = toAddOf (s.obj r') c ∨ toAddOf ((addNext r s).obj r') c = c.template := by
  simp only [State.obj, addNext_heap]
  by_cases hrr : r = r'
  · subst hrr
    by_cases hlt : r < s.heap.length
    · right
      simp [List.getD_eq_getElem?_getD, hlt, toAddOf]
    · left
      rw [List.set_eq_of_length_le (by omega)]
  · left
    simp [List.getD_eq_getElem?_getD, hrr]

/-- one member's turn: either vetoed (atoms and bookkeeping as before) or its rows were appended and recorded,
    and `particle_delta` went up by one -/
theorem addNext_spec (a0 : AtomsS) (c0 : Ctx) (hfx : FixedOK a0) (r : Nat) (s : State) (K : Nat)
    (h : AddInv a0 c0 s K) (hnew : toAddOf (s.obj r) s.ctx ≠ []) :
    (addSucc r s = false ∧ AddInv a0 c0 (addNext r s) K ∧ (addNext r s).ctx.delta = s.ctx.delta) ∨
    (addSucc r s = true ∧ AddInv a0 c0 (addNext r s) (K + (toAddOf (s.obj r) s.ctx).length) ∧
      (addNext r s).ctx.delta = s.ctx.delta + 1) := by
  have hfs := fixedOK_of_addInv a0 c0 s K h hfx
  have hsp := attemptAddition_spec r s hfs
  simp only [addSucc, addNext, compExchAddLoop]
  rcases hadd : attemptAddition r s with ⟨idx, s1⟩
  rw [hadd] at hsp
  obtain ⟨_, hc, halt⟩ := hsp
  dsimp only at hc halt ⊢
  have hcore1 : ctxCore { s1.ctx with addedIdx := [], addedAtoms := [], addedSizes := [], delta := 0 } =
      ctxCore { c0 with addedIdx := [], addedAtoms := [], addedSizes := [], delta := 0 } := by
    rw [← h.core]
    simp only [ctxCore] at hc ⊢
    cases hs1 : s1.ctx; cases hs : s.ctx
    rw [hs1, hs] at hc
    simp only [Ctx.mk.injEq] at hc ⊢
    simp_all
  have hadded1 : s1.ctx.addedIdx = s.ctx.addedIdx := by
    have := congrArg Ctx.addedIdx hc; simpa [ctxCore] using this
  have hdelta1 : s1.ctx.delta = s.ctx.delta := by
    have := congrArg Ctx.delta hc; simpa [ctxCore] using this
  have hsizes1 : s1.ctx.addedSizes = s.ctx.addedSizes := by
    have := congrArg Ctx.addedSizes hc; simpa [ctxCore] using this
  rcases halt with ⟨hidx, hat⟩ | ⟨hidx, d, hd⟩
  · -- vetoed
    left
    simp only [hidx, List.isEmpty_nil, if_true, Bool.not_true, true_and]
    refine ⟨⟨?_, ?_, ?_, ?_, ?_, ?_, fun hk => by show s1.ctx.addedSizes = _; rw [hsizes1]; exact h.sizes0 hk,
      by show s1.ctx.addedSizes.sum = _; rw [hsizes1]; exact h.sizesSum,
      by show ∀ n ∈ s1.ctx.addedSizes, _; rw [hsizes1]; exact h.sizesPos⟩, ?_⟩
    · show s1.atoms.cell = a0.cell; rw [hat]; exact h.cell
    · show s1.atoms.fixed = a0.fixed; rw [hat]; exact h.fixed
    · show s1.atoms.rows.take a0.rows.length = a0.rows; rw [hat]; exact h.take
    · show s1.atoms.rows.length = a0.rows.length + K; rw [hat]; exact h.len
    · show s1.ctx.addedIdx = _; rw [hadded1]; exact h.added
    · exact hcore1
    · show s1.ctx.delta = s.ctx.delta; exact hdelta1
  · -- inserted
    right
    generalize hnw : toAddOf (s.obj r) s.ctx = new at hidx hd hnew
    have hne : idx ≠ [] := by
      rw [hidx]; intro hx
      have := congrArg List.length hx
      simp [addMoving] at this
      exact hnew this
    have hie' : idx.isEmpty = false := by cases idx <;> simp_all
    simp only [hie', Bool.false_eq_true, if_false, Bool.not_false, true_and]
    have hpos : 0 < new.length := List.length_pos_iff.mpr hnew
    have hidxlen : idx.length = new.length := by rw [hidx]; simp [addMoving]
    refine ⟨⟨?_, ?_, ?_, ?_, ?_, ?_, fun hk => by omega, ?_, ?_⟩, ?_⟩
    · show s1.atoms.cell = a0.cell; rw [hd]; exact h.cell
    · show s1.atoms.fixed = a0.fixed; rw [hd]; exact h.fixed
    · show s1.atoms.rows.take a0.rows.length = a0.rows
      refine Eq.trans ?_ h.take
      apply List.ext_getElem?
      intro i
      by_cases hi : i < a0.rows.length
      · rw [List.getElem?_take_of_lt hi, List.getElem?_take_of_lt hi, hd, applyDisp_untouched]
        · have : i < s.atoms.rows.length := by rw [h.len]; omega
          simp [AtomsS.extend, List.getElem?_append_left this]
        · intro hm
          simp only [addMoving, List.mem_map, List.mem_range] at hm
          obtain ⟨x, _, hx⟩ := hm
          rw [h.len] at hx; omega
      · rw [List.getElem?_take_eq_none (by omega), List.getElem?_take_eq_none (by omega)]
    · show s1.atoms.rows.length = a0.rows.length + (K + new.length)
      rw [hd, applyDisp_length]; simp [AtomsS.extend, h.len]; omega
    · show (recordAdded s1.ctx idx s1.atoms.rows).addedIdx = _
      simp only [recordAdded, hadded1, h.added, hidx, addMoving, h.len]
      exact range_shift K new.length a0.rows.length
    · show ctxCore { (recordAdded s1.ctx idx s1.atoms.rows) with addedIdx := [], addedAtoms := [], addedSizes := [], delta := 0 } = _
      rw [← hcore1]
      simp [recordAdded, ctxCore]
    · show (recordAdded s1.ctx idx s1.atoms.rows).addedSizes.sum = _
      simp only [recordAdded, hsizes1, List.sum_append, List.sum_cons, List.sum_nil, hidxlen, h.sizesSum]
      omega
    · show ∀ n ∈ (recordAdded s1.ctx idx s1.atoms.rows).addedSizes, _
      intro n hn
      simp only [recordAdded, hsizes1, List.mem_append, List.mem_singleton] at hn
      rcases hn with hn | hn
      · exact h.sizesPos n hn
      · right; rw [hn, hidxlen]; exact hpos
    · show (recordAdded s1.ctx idx s1.atoms.rows).delta = s.ctx.delta + 1
      simp [recordAdded, hdelta1]


theorem addInv_template (a0 : AtomsS) (c0 : Ctx) (s : State) (K : Nat) (h : AddInv a0 c0 s K) :
    s.ctx.template = c0.template := by
  have := congrArg Ctx.template h.core; simpa [ctxCore] using this

theorem toAddOf_congr (m : MoveObj) (c c' : Ctx) (h : c'.template = c.template) : toAddOf m c' = toAddOf m c := by
  simp [toAddOf, h]

/-! ### the whole composite insertion -/

/-- **composite insertion loop**: the original rows stay an untouched prefix, `K'` new rows follow and are exactly the
    recorded added indices; `particle_delta` went up by the number of members whose insertion succeeded; the call
    reports success iff at least one did; no label array was touched. -/
theorem compExchAddLoop_acc (a0 : AtomsS) (c0 : Ctx) (hfx : FixedOK a0) (htm : c0.template ≠ [])
    (rs : List Nat) (ok : Bool) (s : State) (K : Nat) (h : AddInv a0 c0 s K) :
    ∃ K', AddInv a0 c0 (compExchAddLoop rs ok s).2 K' ∧
      K + compExchAddCount rs s ≤ K' ∧ (compExchAddCount rs s = 0 → K' = K) ∧
      (compExchAddLoop rs ok s).2.ctx.delta = s.ctx.delta + (compExchAddCount rs s : Int) ∧
      HeapStatic s.heap (compExchAddLoop rs ok s).2.heap ∧
      (compExchAddLoop rs ok s).1 = (ok || decide (0 < compExchAddCount rs s)) ∧
      (∀ k, c0.template.length = k → (∀ r ∈ rs, (toAddOf (s.obj r) s.ctx).length = k) →
        K' = K + k * compExchAddCount rs s) := by
  induction rs generalizing ok s K with
  | nil =>
    refine ⟨K, h, ?_, fun _ => rfl, ?_, HeapStatic.refl _, ?_, fun k _ _ => ?_⟩ <;>
      simp [compExchAddLoop, compExchAddCount]
  | cons r rs ih =>
    rw [compExchAddLoop_cons]
    have htm_s : s.ctx.template = c0.template := addInv_template a0 c0 s K h
    have hnew : toAddOf (s.obj r) s.ctx ≠ [] := toAddOf_ne_nil' _ _ (by rw [htm_s]; exact htm)
    have hheap1 := addNext_heapStatic r s
    -- the uniform-size hypothesis is inherited by the next state
    have hunif : ∀ k, c0.template.length = k → (∀ r' ∈ r :: rs, (toAddOf (s.obj r') s.ctx).length = k) →
        ∀ K1, AddInv a0 c0 (addNext r s) K1 →
        ∀ r' ∈ rs, (toAddOf ((addNext r s).obj r') (addNext r s).ctx).length = k := by
      intro k hk hall K1 h1 r' hr'
      have ht1 : (addNext r s).ctx.template = s.ctx.template := by
        rw [addInv_template a0 c0 _ K1 h1, htm_s]
      rw [toAddOf_congr _ s.ctx _ ht1]
      rcases addNext_toAddOf r r' s s.ctx with hx | hx
      · rw [hx]; exact hall r' (by simp [hr'])
      · rw [hx, htm_s]; exact hk
    rcases addNext_spec a0 c0 hfx r s K h hnew with ⟨hs, h1, hd1⟩ | ⟨hs, h1, hd1⟩
    · rw [hs]
      obtain ⟨K', i1, i2, i3, i4, i5, i6, i7⟩ := ih (ok || false) (addNext r s) K h1
      refine ⟨K', i1, ?_, ?_, ?_, hheap1.trans i5, ?_, ?_⟩
      · simp only [compExchAddCount, hs]; simpa using i2
      · simp only [compExchAddCount, hs]; simpa using i3
      · simp only [compExchAddCount, hs]; rw [i4, hd1]; simp
      · simp only [compExchAddCount, hs]; rw [i6]; simp
      · intro k hk hall
        simp only [compExchAddCount, hs]
        have := i7 k hk (hunif k hk hall K h1)
        simpa using this
    · rw [hs]
      obtain ⟨K', i1, i2, i3, i4, i5, i6, i7⟩ :=
        ih (ok || true) (addNext r s) (K + (toAddOf (s.obj r) s.ctx).length) h1
      have hpos : 0 < (toAddOf (s.obj r) s.ctx).length := List.length_pos_iff.mpr hnew
      refine ⟨K', i1, ?_, ?_, ?_, hheap1.trans i5, ?_, ?_⟩
      · simp only [compExchAddCount, hs, if_true]; omega
      · simp only [compExchAddCount, hs, if_true]; intro hx; omega
      · simp only [compExchAddCount, hs, if_true]; rw [i4, hd1]; push_cast; omega
      · simp only [compExchAddCount, hs, if_true]; rw [i6]
        have : 0 < 1 + compExchAddCount rs (addNext r s) := by omega
        simp [this]
      · intro k hk hall
        simp only [compExchAddCount, hs, if_true]
        have := i7 k hk (hunif k hk hall _ h1)
        rw [this, hall r (by simp), Nat.mul_add]; omega


/-! ### the composite deletion: which labels, which atoms -/

theorem nodup_eraseDupsG {α} [BEq α] [LawfulBEq α] : ∀ (n : Nat) (l : List α), l.length ≤ n → l.eraseDups.Nodup
  | 0, l, h => by
    have : l = [] := List.eq_nil_of_length_eq_zero (by omega)
    subst this; simp
  | n+1, [], _ => by simp
  | n+1, a :: as, h => by
    rw [List.eraseDups_cons]
    have hlen : (as.filter fun b => !b == a).length ≤ n := by
      have := List.length_filter_le (fun b => !b == a) as
      simp at h; omega
    refine List.nodup_cons.mpr ⟨?_, nodup_eraseDupsG n _ hlen⟩
    intro hm
    have := List.mem_eraseDups.mp hm
    simp at this

theorem eraseDups_of_nodupG {α} [BEq α] [LawfulBEq α] (l : List α) (hn : l.Nodup) : l.eraseDups = l := by
  induction l with
  | nil => rfl
  | cons x xs ih =>
    rw [List.eraseDups_cons]
    have hx := (List.nodup_cons.mp hn)
    have : (xs.filter fun b => !b == x) = xs := by
      apply List.filter_eq_self.mpr
      intro y hy; simp; intro h; subst h; exact hx.1 hy
    rw [this, ih hx.2]

/-- duplicate-free lists with the same elements have the same length -/
theorem nodup_length_eq {α} (l m : List α) (hl : l.Nodup) (hm : m.Nodup) (h : ∀ x, x ∈ l ↔ x ∈ m) :
    l.length = m.length := by
  have h1 := (List.subperm_of_subset hl (fun x hx => (h x).1 hx)).length_le
  have h2 := (List.subperm_of_subset hm (fun x hx => (h x).2 hx)).length_le
  omega

/-- the number of distinct values of `xs` is the length of any duplicate-free list with the same elements -/
theorem distinct_count {α} [BEq α] [LawfulBEq α] (xs m : List α) (hm : m.Nodup) (h : ∀ x, x ∈ xs ↔ x ∈ m) :
    xs.eraseDups.length = m.length :=
  nodup_length_eq _ _ (nodup_eraseDupsG xs.length xs (Nat.le_refl _)) hm
    (fun x => by rw [List.mem_eraseDups]; exact h x)

/-- what a composite deletion has collected so far (members sharing the labelling `L`): pairwise distinct non-negative
    labels in use, and exactly the atoms carrying one of them, each once -/
structure DelInv (L : List Int) (labs : List Int) (idx : List Nat) : Prop where
  labsNodup : labs.Nodup
  idxNodup : idx.Nodup
  inUse : ∀ l ∈ labs, l ∈ L ∧ 0 ≤ l
  mem : ∀ i, i ∈ idx ↔ ∃ l ∈ labs, L[i]? = some l
  len : idx.length = (labs.map (fun l => (whereEq L l).length)).sum

theorem DelInv.nil (L : List Int) : DelInv L [] [] :=
  ⟨List.nodup_nil, List.nodup_nil, by simp, by simp, by simp⟩

theorem DelInv.valid {L : List Int} {labs : List Int} {idx : List Nat} (h : DelInv L labs idx) :
    ∀ i ∈ idx, i < L.length := by
  intro i hi
  obtain ⟨l, _, hl⟩ := (h.mem i).1 hi
  exact (List.getElem?_eq_some_iff.mp hl).1

/-- every collected label really removes an atom -/
theorem DelInv.label_has_atom {L : List Int} {labs : List Int} {idx : List Nat} (h : DelInv L labs idx) :
    ∀ l ∈ labs, ∃ i ∈ idx, L[i]? = some l := by
  intro l hl
  obtain ⟨i, hi⟩ := List.getElem?_of_mem (h.inUse l hl).1
  exact ⟨i, (h.mem i).2 ⟨l, hl, hi⟩, hi⟩

theorem DelInv.idx_nil_iff {L : List Int} {labs : List Int} {idx : List Nat} (h : DelInv L labs idx) :
    idx = [] ↔ labs = [] := by
  constructor
  · intro hx
    cases labs with
    | nil => rfl
    | cons l ls =>
      obtain ⟨i, hi, _⟩ := h.label_has_atom l (by simp)
      rw [hx] at hi; cases hi
  · intro hx
    cases idx with
    | nil => rfl
    | cons i is =>
      obtain ⟨l, hl, _⟩ := (h.mem i).1 (by simp)
      rw [hx] at hl; cases hl

/-- the labels carried by the collected atoms are exactly the collected labels -/
theorem DelInv.labels_of_idx {L : List Int} {labs : List Int} {idx : List Nat} (h : DelInv L labs idx) (x : Int) :
    x ∈ idx.map (fun i => L.getD i 0) ↔ x ∈ labs := by
  simp only [List.mem_map]
  constructor
  · rintro ⟨i, hi, rfl⟩
    obtain ⟨l, hl, hget⟩ := (h.mem i).1 hi
    simp [List.getD_eq_getElem?_getD, hget, hl]
  · intro hx
    obtain ⟨i, hi, hget⟩ := h.label_has_atom x hx
    exact ⟨i, hi, by simp [List.getD_eq_getElem?_getD, hget]⟩

/-- **the number of DISTINCT labels whose atoms were removed** is the number of collected labels -/
theorem DelInv.distinct {L : List Int} {labs : List Int} {idx : List Nat} (h : DelInv L labs idx) :
    ((idx.map (fun i => L.getD i 0)).eraseDups).length = labs.length :=
  distinct_count _ _ h.labsNodup h.labels_of_idx

/-- every label carried by at least one atom: at least as many atoms as particles are removed -/
theorem DelInv.length_le {L : List Int} {labs : List Int} {idx : List Nat} (h : DelInv L labs idx) :
    labs.length ≤ idx.length := by
  rw [h.len]
  have hin := h.inUse
  clear h
  induction labs with
  | nil => simp
  | cons l ls ih =>
    have hl : 0 < (whereEq L l).length := by
      obtain ⟨i, hi⟩ := List.getElem?_of_mem (hin l (by simp)).1
      exact List.length_pos_iff.mpr (List.ne_nil_of_mem ((whereEq_mem L l i).2 hi))
    have := ih (fun l' h' => hin l' (by simp [h']))
    simp only [List.map_cons, List.sum_cons, List.length_cons]
    omega

/-- single-atom particles: as many atoms as particles are removed -/
theorem DelInv.length_eq {L : List Int} {labs : List Int} {idx : List Nat} (h : DelInv L labs idx)
    (h1 : ∀ l ∈ labs, (whereEq L l).length = 1) : idx.length = labs.length := by
  rw [h.len]
  clear h
  induction labs with
  | nil => simp
  | cons l ls ih =>
    have := ih (fun l' h' => h1 l' (by simp [h']))
    simp only [List.map_cons, List.sum_cons, List.length_cons, h1 l (by simp)]
    omega

theorem compExchDelLoop_inv (L : List Int) (rs : List Nat) (labs : List Int) (idx : List Nat) (s : State)
    (hL : ∀ r ∈ rs, (s.obj r).labels = L) (h : DelInv L labs idx) :
    DelInv L (compExchDelLoop rs labs idx s).1 (compExchDelLoop rs labs idx s).2.1 := by
  induction rs generalizing labs idx s with
  | nil => simpa [compExchDelLoop] using h
  | cons r rs ih =>
    have hLr : (s.obj r).labels = L := hL r (by simp)
    have hL' : ∀ (i : Inputs), ∀ r' ∈ rs, (({ clearExch s r with inp := i } : State).obj r').labels = L := by
      intro i r' h'
      have e : ({ clearExch s r with inp := i } : State).obj r' = (clearExch s r).obj r' := rfl
      rw [e, clearExch_obj_labels]; exact hL r' (by simp [h'])
    rw [compExchDelLoop_cons]
    split
    · exact ih labs idx (clearExch s r) (hL' s.inp) h
    · rename_i hcand
      have hne : setdiff (uniqueLabels (s.obj r).labels) labs ≠ [] := by
        intro hx; rw [hx] at hcand; simp at hcand
      have hmem := choice_mem _ 0 s.inp hne
      rcases hch : choice (setdiff (uniqueLabels (s.obj r).labels) labs) 0 s.inp with ⟨l, i⟩
      rw [hch] at hmem
      simp only [] at hmem ⊢
      simp only [setdiff, List.mem_filter] at hmem
      have hlnot : l ∉ labs := by simpa using hmem.2
      have hluse : l ∈ L ∧ 0 ≤ l := by rw [← hLr]; exact (uniqueLabels_mem _ _).1 hmem.1
      apply ih (labs ++ [l]) (idx ++ whereEq (s.obj r).labels l) { clearExch s r with inp := i }
      · exact hL' i
      · rw [hLr]
        refine ⟨?_, ?_, ?_, ?_, ?_⟩
        · rw [List.nodup_append]
          refine ⟨h.labsNodup, by simp, ?_⟩
          intro a ha b hb hab
          simp at hb; subst hb; subst hab; exact hlnot ha
        · rw [List.nodup_append]
          refine ⟨h.idxNodup, whereEq_nodup _ _, ?_⟩
          intro a ha b hb hab
          subst hab
          obtain ⟨l', hl', hget⟩ := (h.mem a).1 ha
          have := (whereEq_mem _ _ _).1 hb
          rw [hget] at this
          cases this
          exact hlnot hl'
        · intro l' hl'
          rcases List.mem_append.mp hl' with hx | hx
          · exact h.inUse l' hx
          · simp at hx; subst hx; exact hluse
        · intro j
          rw [List.mem_append, h.mem j, whereEq_mem]
          constructor
          · rintro (⟨l', hl', hget⟩ | hget)
            · exact ⟨l', by simp [hl'], hget⟩
            · exact ⟨l, by simp, hget⟩
          · rintro ⟨l', hl', hget⟩
            rcases List.mem_append.mp hl' with hx | hx
            · exact Or.inl ⟨l', hx, hget⟩
            · simp at hx; subst hx; exact Or.inr hget
        · simp [List.length_append, h.len, List.sum_append]

/-! ### label arrays after the notification of `save_state` -/

/-- an aligned label-bearing object of the notified list is aligned again after the notification -/
theorem notify_aligned (refs added removed : List Nat) (heap : List MoveObj) (n : Nat) (hnd : refs.Nodup)
    (hn : removed.Nodup) (hv : ∀ i ∈ removed, i < n + added.length) (r : Nat) (hr : r ∈ refs)
    (hlt : r < heap.length) (hlb : labelBearing (heap.getD r { kind := .user }).kind = true)
    (hlen : (heap.getD r { kind := .user }).labels.length = n) :
    ((notifyRefs refs added removed heap).getD r { kind := .user }).labels.length + removed.length =
      n + added.length := by
  rw [notifyRefs_spec refs added removed heap hnd r]
  simp only [hr, hlt, hlb, and_self, if_true]
  have := onAtomsChanged_length (heap.getD r { kind := .user }) added removed hn (by rw [hlen]; exact hv)
  rw [hlen] at this
  exact this

/-- kinds are not changed by the notification -/
theorem notify_kind (refs added removed : List Nat) (heap : List MoveObj) (r : Nat) :
    ((notifyRefs refs added removed heap).getD r { kind := .user }).kind = (heap.getD r { kind := .user }).kind :=
  (notifyRefs_shape refs added removed heap).2 r


/-- the same for the per-particle notifications -/
theorem notifyParts_kind (refs sizes added removed : List Nat) (heap : List MoveObj) (r : Nat) :
    ((notifyParts refs sizes added removed heap).getD r { kind := .user }).kind = (heap.getD r { kind := .user }).kind :=
  (notifyParts_shape refs sizes added removed heap).2 r

theorem notifyParts_aligned (refs sizes added removed : List Nat) (heap : List MoveObj) (n : Nat) (hnd : refs.Nodup)
    (hn : removed.Nodup) (hv : ∀ i ∈ removed, i < n + added.length) (r : Nat) (hr : r ∈ refs)
    (hlt : r < heap.length) (hlb : labelBearing (heap.getD r { kind := .user }).kind = true)
    (hlen : (heap.getD r { kind := .user }).labels.length = n) :
    ((notifyParts refs sizes added removed heap).getD r { kind := .user }).labels.length + removed.length =
      n + added.length := by
  induction sizes generalizing added heap n with
  | nil => exact notify_aligned refs added removed heap n hnd hn hv r hr hlt hlb hlen
  | cons k ks ih =>
    cases ks with
    | nil => exact notify_aligned refs added removed heap n hnd hn hv r hr hlt hlb hlen
    | cons m ms =>
      simp only [notifyParts]
      have h1 := notify_aligned refs (added.take k) [] heap n hnd List.nodup_nil (by simp) r hr hlt hlb hlen
      simp only [List.length_nil, Nat.add_zero] at h1
      have hsplit : (added.take k).length + (added.drop k).length = added.length := by
        rw [← List.length_append, List.take_append_drop]
      have hlt' : r < (notifyRefs refs (added.take k) [] heap).length := by
        rw [(notifyRefs_shape _ _ _ _).1]; exact hlt
      have hlb' : labelBearing ((notifyRefs refs (added.take k) [] heap).getD r { kind := .user }).kind = true := by
        rw [notify_kind]; exact hlb
      have := ih (added.drop k) (notifyRefs refs (added.take k) [] heap) (n + (added.take k).length)
        (by intro i hi; have := hv i hi; omega) hlt' hlb' h1
      omega

/-- the per-particle notifications, seen from one label-bearing object -/
def onPartsObj (m : MoveObj) : List Nat → List Nat → List Nat → MoveObj
  | [], added, removed => onAtomsChangedObj m added removed
  | [_], added, removed => onAtomsChangedObj m added removed
  | n :: k :: ks, added, removed => onPartsObj (onAtomsChangedObj m (added.take n) []) (k :: ks) (added.drop n) removed

theorem onPartsObj_static (m : MoveObj) (sizes added removed : List Nat) :
    (onPartsObj m sizes added removed).kind = m.kind ∧ (onPartsObj m sizes added removed).defaultLabel = m.defaultLabel := by
  induction sizes generalizing m added with
  | nil => exact ⟨(onAtomsChanged_static m added removed).1, (onAtomsChanged_static m added removed).2⟩
  | cons n ns ih =>
    cases ns with
    | nil => exact ⟨(onAtomsChanged_static m added removed).1, (onAtomsChanged_static m added removed).2⟩
    | cons k ks =>
      simp only [onPartsObj]
      obtain ⟨a, b⟩ := ih (onAtomsChangedObj m (added.take n) []) (added.drop n)
      exact ⟨a.trans (onAtomsChanged_static m _ _).1, b.trans (onAtomsChanged_static m _ _).2⟩

theorem onPartsObj_labels_congr (m m' : MoveObj) (sizes a r : List Nat) (hl : m'.labels = m.labels)
    (hd : m'.defaultLabel = m.defaultLabel) :
    (onPartsObj m' sizes a r).labels = (onPartsObj m sizes a r).labels := by
  induction sizes generalizing m m' a with
  | nil => simp [onPartsObj, onAtomsChangedObj, hl, hd]
  | cons n ns ih =>
    cases ns with
    | nil => simp [onPartsObj, onAtomsChangedObj, hl, hd]
    | cons k ks =>
      simp only [onPartsObj]
      apply ih
      · simp [onAtomsChangedObj, hl, hd]
      · rw [(onAtomsChanged_static m' _ _).2, (onAtomsChanged_static m _ _).2, hd]

theorem onPartsObj_nil (m : MoveObj) : onPartsObj m [] [] [] = m := by
  simp [onPartsObj, onAtomsChangedObj]

/-! #### which labels the per-particle notifications give -/

theorem maxFrom_le (acc M : Int) (l : List Int) (ha : acc ≤ M) (hl : ∀ x ∈ l, x ≤ M) : maxFrom acc l ≤ M := by
  induction l generalizing acc with
  | nil => simpa [maxFrom] using ha
  | cons x xs ih =>
    simp only [maxFrom]
    have hx := hl x (List.mem_cons_self ..)
    have hxs : ∀ y ∈ xs, y ≤ M := fun y hy => hl y (List.mem_cons_of_mem _ hy)
    by_cases h : x > acc
    · simp only [h, if_true]; exact ih x hx hxs
    · simp only [h, if_false]; exact ih acc ha hxs

theorem newLabel_eq (labels : List Int) : newLabel labels none = maxFrom (-1) (uniqueLabels labels) + 1 := by
  unfold newLabel
  simp only []
  split
  · rename_i h
    have : uniqueLabels labels = [] := by simpa using h
    rw [this]; rfl
  · rfl

/-- after `n > 0` rows got the fresh label, the next fresh label is one more -/
theorem newLabel_after (labels : List Int) (n : Nat) (hn : 0 < n) :
    newLabel (labels ++ List.replicate n (newLabel labels none)) none = newLabel labels none + 1 := by
  generalize hL : newLabel labels none = L
  have hL0 : 0 ≤ L := by rw [← hL]; exact newLabel_nonneg labels
  rw [newLabel_eq (labels ++ List.replicate n L)]
  congr 1
  apply Int.le_antisymm
  · apply maxFrom_le _ _ _ (by omega)
    intro x hx
    obtain ⟨hmem, h0⟩ := (uniqueLabels_mem _ x).1 hx
    rcases List.mem_append.mp hmem with h | h
    · have := newLabel_fresh labels x h h0; rw [hL] at this; omega
    · rw [(List.mem_replicate.mp h).2]; exact Int.le_refl _
  · apply maxFrom_ge_mem
    apply (uniqueLabels_mem _ L).2
    exact ⟨List.mem_append_right _ (List.mem_replicate.mpr ⟨by omega, rfl⟩), hL0⟩

/-- the labels of `k` inserted particles when no label is configured: `fresh`, `fresh + 1`, … — one per particle -/
def partLabels (fresh : Int) : List Nat → List Int
  | [] => []
  | n :: ns => List.replicate n fresh ++ partLabels (fresh + 1) ns

/-- **every inserted particle gets ONE label, and distinct particles get DISTINCT (consecutive fresh) labels**: with sizes
    `n₁ … n_k` (all positive, together as many as the added rows) the per-particle notifications append
    `n₁` times `fresh`, `n₂` times `fresh + 1`, … to the label array of a move without configured label -/
theorem onPartsObj_insert_labels (m : MoveObj) (hd : m.defaultLabel = none) (sizes added : List Nat)
    (hne : sizes ≠ []) (hpos : ∀ n ∈ sizes, 0 < n) (hsum : sizes.sum = added.length) :
    (onPartsObj m sizes added []).labels = m.labels ++ partLabels (newLabel m.labels none) sizes := by
  induction sizes generalizing m added with
  | nil => exact absurd rfl hne
  | cons n ns ih =>
    have hn : 0 < n := hpos n (List.mem_cons_self ..)
    cases ns with
    | nil =>
      have hlen : added.length = n := by simpa using hsum.symm
      have hane : added.isEmpty = false := by cases added <;> simp_all
      simp [onPartsObj, onAtomsChangedObj, hane, hd, hlen, partLabels]
    | cons k ks =>
      simp only [onPartsObj]
      have hsum' : (k :: ks).sum = (added.drop n).length := by
        simp only [List.sum_cons, List.length_drop] at hsum ⊢; omega
      have htake : (added.take n).length = n := by
        simp only [List.length_take, List.sum_cons] at hsum ⊢; omega
      have htne : (added.take n).isEmpty = false := by
        cases h : added.take n with
        | nil => rw [h] at htake; simp at htake; omega
        | cons _ _ => rfl
      have hm1 : (onAtomsChangedObj m (added.take n) []).labels
          = m.labels ++ List.replicate n (newLabel m.labels none) := by
        simp [onAtomsChangedObj, htne, hd, htake]
      have hd1 : (onAtomsChangedObj m (added.take n) []).defaultLabel = none := by
        rw [(onAtomsChanged_static m _ _).2, hd]
      rw [ih (onAtomsChangedObj m (added.take n) []) hd1 (added.drop n) (by simp)
        (fun x hx => hpos x (List.mem_cons_of_mem _ hx)) hsum', hm1, newLabel_after m.labels n hn]
      simp [partLabels, List.append_assoc]

/-- the labels of consecutive particles are consecutive: nothing is shared between two particles -/
theorem partLabels_cons (fresh : Int) (n : Nat) (ns : List Nat) :
    partLabels fresh (n :: ns) = List.replicate n fresh ++ partLabels (fresh + 1) ns := rfl

theorem partLabels_ge (fresh : Int) (sizes : List Nat) : ∀ x ∈ partLabels fresh sizes, fresh ≤ x := by
  induction sizes generalizing fresh with
  | nil => intro x hx; cases hx
  | cons n ns ih =>
    intro x hx
    rcases List.mem_append.mp hx with h | h
    · rw [(List.mem_replicate.mp h).2]; exact Int.le_refl _
    · have := ih (fresh + 1) x h; omega

/-- the label of the first particle occurs in no later particle -/
theorem partLabels_first_fresh (fresh : Int) (n : Nat) (ns : List Nat) : fresh ∉ partLabels (fresh + 1) ns := by
  intro h
  have := partLabels_ge (fresh + 1) ns fresh h
  omega

/-- what the per-particle notifications do to object `r` -/
theorem notifyParts_spec (rs sizes added removed : List Nat) (h : List MoveObj) (hn : rs.Nodup) (r : Nat) :
    (notifyParts rs sizes added removed h).getD r { kind := .user } =
      if r ∈ rs ∧ r < h.length ∧ labelBearing (h.getD r { kind := .user }).kind = true
      then onPartsObj (h.getD r { kind := .user }) sizes added removed
      else h.getD r { kind := .user } := by
  induction sizes generalizing added h with
  | nil => exact notifyRefs_spec rs added removed h hn r
  | cons n ns ih =>
    cases ns with
    | nil => exact notifyRefs_spec rs added removed h hn r
    | cons k ks =>
      simp only [notifyParts, onPartsObj]
      rw [ih, (notifyRefs_shape _ _ _ _).1, notify_kind, notifyRefs_spec rs (added.take n) [] h hn r]
      by_cases hc : r ∈ rs ∧ r < h.length ∧ labelBearing (h.getD r { kind := .user }).kind = true
      · simp only [hc, and_self, if_true]
      · simp only [hc, if_false]

/-! ### the composite call, from a clean context -/

/-- members of the composite insertion drawn in `s` whose insertion succeeded -/
def compExchInserted (rs : List Nat) (s : State) : Nat := compExchAddCount rs { s with inp := s.inp.draw.2 }

/-- the labels a composite deletion drawn in `s` selects, and the atoms it removes -/
def compExchDelLabels (rs : List Nat) (s : State) : List Int :=
  (compExchDelLoop rs [] [] { s with inp := s.inp.draw.2 }).1
def compExchDelIdx (rs : List Nat) (s : State) : List Nat :=
  (compExchDelLoop rs [] [] { s with inp := s.inp.draw.2 }).2.1

theorem compExch_insertion_call (rs : List Nat) (b : Nat) (s : State) (hinv : InvG s) (htm : s.ctx.template ≠ [])
    (hadd : s.inp.draw.1 < b) :
    ∃ K', AddInv s.atoms s.ctx (callTree (.compExch rs b) s).2 K' ∧
      compExchInserted rs s ≤ K' ∧ (compExchInserted rs s = 0 → K' = 0) ∧
      (callTree (.compExch rs b) s).2.ctx.delta = s.ctx.delta + (compExchInserted rs s : Int) ∧
      HeapStatic s.heap (callTree (.compExch rs b) s).2.heap ∧
      ((callTree (.compExch rs b) s).1 = true ↔ 0 < compExchInserted rs s) ∧
      (∀ k, s.ctx.template.length = k → (∀ r ∈ rs, (toAddOf (s.obj r) s.ctx).length = k) →
        K' = k * compExchInserted rs s) := by
  have h0 : AddInv s.atoms s.ctx ({ s with inp := s.inp.draw.2 } : State) 0 := by
    refine ⟨rfl, rfl, ?_, by simp, ?_, rfl, fun _ => rfl, by simp, fun n hn => .inl hn⟩
    · simp
    · simpa using hinv.noAdded
  have hcall : callTree (.compExch rs b) s = compExchAddLoop rs false { s with inp := s.inp.draw.2 } := by
    simp only [callTree, compExchCall]
    rcases hd : s.inp.draw with ⟨d, i⟩
    rw [hd] at hadd
    simp only [] at hadd ⊢
    simp [hadd]
  obtain ⟨K', i1, i2, i3, i4, i5, i6, i7⟩ :=
    compExchAddLoop_acc s.atoms s.ctx hinv.fixedOK htm rs false _ 0 h0
  rw [hcall]
  refine ⟨K', i1, by simpa [compExchInserted] using i2, by simpa [compExchInserted] using i3, i4, i5,
    by rw [i6]; simp [compExchInserted], ?_⟩
  intro k hk hall
  have := i7 k hk hall
  simpa [compExchInserted] using this

theorem compExch_deletion_call (rs : List Nat) (b : Nat) (s : State) (L : List Int)
    (hL : ∀ r ∈ rs, (s.obj r).labels = L) (hdel : ¬ s.inp.draw.1 < b) :
    DelInv L (compExchDelLabels rs s) (compExchDelIdx rs s) ∧
    HeapStatic s.heap (callTree (.compExch rs b) s).2.heap ∧
    (callTree (.compExch rs b) s).1 = !(compExchDelIdx rs s).isEmpty ∧
    (compExchDelIdx rs s = [] →
      (callTree (.compExch rs b) s).2.atoms = s.atoms ∧ (callTree (.compExch rs b) s).2.ctx = s.ctx) ∧
    (compExchDelIdx rs s ≠ [] →
      (callTree (.compExch rs b) s).2.atoms = s.atoms.delete (compExchDelIdx rs s) ∧
      (callTree (.compExch rs b) s).2.ctx =
        { saveFixed s.ctx s.atoms with
            deletedIdx := compExchDelIdx rs s,
            deletedAtoms := (saveFixed s.ctx s.atoms).deletedAtoms ++ pick s.atoms.rows (compExchDelIdx rs s),
            delta := (saveFixed s.ctx s.atoms).delta - ((compExchDelLabels rs s).length : Int) }) := by
  have hinv := compExchDelLoop_inv L rs [] [] ({ s with inp := s.inp.draw.2 } : State) (fun r h => hL r h)
    (DelInv.nil L)
  obtain ⟨ha, hc, hh⟩ := compExchDelLoop_state rs [] [] ({ s with inp := s.inp.draw.2 } : State)
  simp only [compExchDelLabels, compExchDelIdx, callTree, compExchCall]
  rcases hd : s.inp.draw with ⟨d, i⟩
  rw [hd] at hdel hinv ha hc hh
  simp only [] at hdel hinv ha hc hh ⊢
  simp only [hdel, if_false]
  rcases hres : compExchDelLoop rs [] [] ({ s with inp := i } : State) with ⟨labs, idx, s1⟩
  rw [hres] at ha hc hh hinv
  simp only [] at ha hc hh hinv ⊢
  refine ⟨hinv, ?_, ?_, ?_, ?_⟩
  · split <;> exact hh
  · split
    · rename_i hx; simp [hx]
    · rename_i hx; simp [hx]
  · intro hx; simp only [hx, List.isEmpty_nil, if_true]; exact ⟨ha, hc⟩
  · intro hx
    have hie : idx.isEmpty = false := by cases idx <;> simp_all
    simp only [hie, Bool.false_eq_true, if_false, ha, hc, eraseDups_of_nodupG labs hinv.labsNodup, and_self]

end MM
