import QModel.Adaptive
import QProofs.NumReal
/-!
Helper lemmas for C18 (adaptive force-bias step length): closed forms of the two update functions over `ℝ`,
their anchors, monotonicity and limits, and the sign facts about the committee statistics.
-/
namespace AFB
open Filter Topology

/-! ## `1 - tanh x = 2 / (exp (2x) + 1)` and the anchors -/

theorem one_sub_tanh (x : ℝ) : 1 - Real.tanh x = 2 / (Real.exp (2 * x) + 1) := by
  rw [Real.tanh_eq]
  have h1 : Real.exp (2 * x) = Real.exp x * Real.exp x := by rw [← Real.exp_add]; ring_nf
  have h2 : Real.exp (-x) = (Real.exp x)⁻¹ := Real.exp_neg x
  have hp := Real.exp_pos x
  rw [h1, h2]
  field_simp
  ring

theorem log_three_pos : 0 < Real.log 3 := Real.log_pos (by norm_num)
theorem log_two_pos : 0 < Real.log 2 := Real.log_pos (by norm_num)

/-- `tanh(atanh ½) = ½` with `atanh ½ = ½·log 3` -/
theorem tanh_half_log_three : Real.tanh (Real.log 3 * (1 / 2)) = 1 / 2 := by
  have h := one_sub_tanh (Real.log 3 * (1 / 2))
  have e : 2 * (Real.log 3 * (1 / 2)) = Real.log 3 := by ring
  rw [e, Real.exp_log (by norm_num : (0 : ℝ) < 3)] at h
  linarith [h, (by norm_num : (2 : ℝ) / (3 + 1) = 1 / 2)]

/-- `exp(-log 2) = ½` -/
theorem exp_neg_log_two : Real.exp (-Real.log 2) = 1 / 2 := by
  rw [Real.exp_neg, Real.exp_log (by norm_num : (0 : ℝ) < 2)]; norm_num

@[simp] theorem atanhHalf_real : (atanhHalf : ℝ) = Real.log 3 * (1 / 2) := by
  simp [atanhHalf]

@[simp] theorem log2_real : (log2 : ℝ) = Real.log 2 := by simp [log2]

/-- `math.atanh(0.5)` really is the inverse hyperbolic tangent of ½ -/
theorem tanh_atanhHalf : Real.tanh (atanhHalf : ℝ) = 1 / 2 := by
  rw [atanhHalf_real]; exact tanh_half_log_three

/-! ## closed forms of the update functions over `ℝ` -/

theorem tanhUpdate_eq (ref v : ℝ) :
    tanhUpdate ref v = 2 / (Real.exp (v / ref * Real.log 3) + 1) := by
  simp only [tanhUpdate, Num.real_one, Num.real_tanh, atanhHalf_real]
  rw [one_sub_tanh]
  have e : 2 * (v / ref * (Real.log 3 * (1 / 2))) = v / ref * Real.log 3 := by ring
  rw [e]

theorem expUpdate_eq (ref v : ℝ) : expUpdate ref v = Real.exp (-(v / ref * Real.log 2)) := by
  simp only [expUpdate, log2_real, Num.real_exp]
  have e : -v / ref * Real.log 2 = -(v / ref * Real.log 2) := by ring
  rw [e]

theorem scaled_nonneg {ref v c : ℝ} (hr : 0 < ref) (hv : 0 ≤ v) (hc : 0 < c) : 0 ≤ v / ref * c :=
  mul_nonneg (div_nonneg hv hr.le) hc.le

theorem scaled_mono {ref v w c : ℝ} (hr : 0 < ref) (hc : 0 < c) (h : v ≤ w) :
    v / ref * c ≤ w / ref * c :=
  mul_le_mul_of_nonneg_right (div_le_div_of_nonneg_right h hr.le) hc.le

theorem scaled_strictMono {ref v w c : ℝ} (hr : 0 < ref) (hc : 0 < c) (h : v < w) :
    v / ref * c < w / ref * c :=
  mul_lt_mul_of_pos_right (div_lt_div_of_pos_right h hr) hc

theorem tendsto_scaled {ref c : ℝ} (hr : 0 < ref) (hc : 0 < c) :
    Tendsto (fun v : ℝ => v / ref * c) atTop atTop := by
  have e : (fun v : ℝ => v / ref * c) = fun v => v * (c / ref) := by
    funext v; field_simp
  rw [e]
  exact tendsto_id.atTop_mul_const (div_pos hc hr)

/-! ### tanh -/

theorem tanhUpdate_pos (ref v : ℝ) : 0 < tanhUpdate ref v := by
  rw [tanhUpdate_eq]; positivity

theorem tanhUpdate_le_one {ref v : ℝ} (hr : 0 < ref) (hv : 0 ≤ v) : tanhUpdate ref v ≤ 1 := by
  rw [tanhUpdate_eq]
  have h := Real.one_le_exp (scaled_nonneg hr hv log_three_pos)
  rw [div_le_one (by positivity)]
  linarith

theorem tanhUpdate_zero (ref : ℝ) : tanhUpdate ref 0 = 1 := by
  rw [tanhUpdate_eq]; norm_num

theorem tanhUpdate_ref {ref : ℝ} (hr : ref ≠ 0) : tanhUpdate ref ref = 1 / 2 := by
  rw [tanhUpdate_eq, div_self hr, one_mul, Real.exp_log (by norm_num : (0 : ℝ) < 3)]; norm_num

theorem tanhUpdate_antitone {ref : ℝ} (hr : 0 < ref) : Antitone (tanhUpdate ref) := by
  intro v w h
  rw [tanhUpdate_eq, tanhUpdate_eq]
  have h1 := Real.exp_le_exp.mpr (scaled_mono hr log_three_pos h)
  have hp := Real.exp_pos (v / ref * Real.log 3)
  exact div_le_div_of_nonneg_left (by norm_num) (by positivity) (by linarith)

theorem tanhUpdate_strictAnti {ref : ℝ} (hr : 0 < ref) : StrictAnti (tanhUpdate ref) := by
  intro v w h
  rw [tanhUpdate_eq, tanhUpdate_eq]
  have h1 := Real.exp_lt_exp.mpr (scaled_strictMono hr log_three_pos h)
  have hp := Real.exp_pos (v / ref * Real.log 3)
  exact div_lt_div_of_pos_left (by norm_num) (by positivity) (by linarith)

theorem tanhUpdate_tendsto {ref : ℝ} (hr : 0 < ref) :
    Tendsto (tanhUpdate ref) atTop (𝓝 0) := by
  have e : tanhUpdate ref = fun v => 2 / (Real.exp (v / ref * Real.log 3) + 1) := by
    funext v; exact tanhUpdate_eq ref v
  rw [e]
  have h1 : Tendsto (fun v : ℝ => Real.exp (v / ref * Real.log 3)) atTop atTop :=
    Real.tendsto_exp_atTop.comp (tendsto_scaled hr log_three_pos)
  have h2 : Tendsto (fun v : ℝ => Real.exp (v / ref * Real.log 3) + 1) atTop atTop :=
    tendsto_atTop_add_const_right _ 1 h1
  exact (tendsto_const_nhds (x := (2 : ℝ))).div_atTop h2

/-! ### exp -/

theorem expUpdate_pos (ref v : ℝ) : 0 < expUpdate ref v := by
  rw [expUpdate_eq]; exact Real.exp_pos _

theorem expUpdate_le_one {ref v : ℝ} (hr : 0 < ref) (hv : 0 ≤ v) : expUpdate ref v ≤ 1 := by
  rw [expUpdate_eq, ← Real.exp_zero]
  exact Real.exp_le_exp.mpr (by linarith [scaled_nonneg hr hv log_two_pos])

theorem expUpdate_zero (ref : ℝ) : expUpdate ref 0 = 1 := by
  rw [expUpdate_eq]; norm_num

theorem expUpdate_ref {ref : ℝ} (hr : ref ≠ 0) : expUpdate ref ref = 1 / 2 := by
  rw [expUpdate_eq, div_self hr, one_mul, exp_neg_log_two]

theorem expUpdate_antitone {ref : ℝ} (hr : 0 < ref) : Antitone (expUpdate ref) := by
  intro v w h
  rw [expUpdate_eq, expUpdate_eq]
  exact Real.exp_le_exp.mpr (by linarith [scaled_mono hr log_two_pos h])

theorem expUpdate_strictAnti {ref : ℝ} (hr : 0 < ref) : StrictAnti (expUpdate ref) := by
  intro v w h
  rw [expUpdate_eq, expUpdate_eq]
  exact Real.exp_lt_exp.mpr (by linarith [scaled_strictMono hr log_two_pos h])

theorem expUpdate_tendsto {ref : ℝ} (hr : 0 < ref) :
    Tendsto (expUpdate ref) atTop (𝓝 0) := by
  have e : expUpdate ref = fun v => Real.exp (-(v / ref * Real.log 2)) := by
    funext v; exact expUpdate_eq ref v
  rw [e]
  exact Real.tendsto_exp_neg_atTop_nhds_zero.comp (tendsto_scaled hr log_two_pos)

/-! ### both, by cases on the update function -/

theorem update_pos (u : UpdateFn) (ref v : ℝ) : 0 < update u ref v := by
  cases u
  · exact tanhUpdate_pos ref v
  · exact expUpdate_pos ref v

theorem update_le_one (u : UpdateFn) {ref v : ℝ} (hr : 0 < ref) (hv : 0 ≤ v) : update u ref v ≤ 1 := by
  cases u
  · exact tanhUpdate_le_one hr hv
  · exact expUpdate_le_one hr hv

theorem update_zero (u : UpdateFn) (ref : ℝ) : update u ref 0 = 1 := by
  cases u
  · exact tanhUpdate_zero ref
  · exact expUpdate_zero ref

theorem update_ref (u : UpdateFn) {ref : ℝ} (hr : ref ≠ 0) : update u ref ref = 1 / 2 := by
  cases u
  · exact tanhUpdate_ref hr
  · exact expUpdate_ref hr

theorem update_antitone (u : UpdateFn) {ref : ℝ} (hr : 0 < ref) : Antitone (update u ref) := by
  cases u
  · exact tanhUpdate_antitone hr
  · exact expUpdate_antitone hr

theorem update_strictAnti (u : UpdateFn) {ref : ℝ} (hr : 0 < ref) : StrictAnti (update u ref) := by
  cases u
  · exact tanhUpdate_strictAnti hr
  · exact expUpdate_strictAnti hr

theorem update_tendsto (u : UpdateFn) {ref : ℝ} (hr : 0 < ref) :
    Tendsto (update u ref) atTop (𝓝 0) := by
  cases u
  · exact tanhUpdate_tendsto hr
  · exact expUpdate_tendsto hr

theorem adapted_real (u : UpdateFn) (dmin dmax ref v : ℝ) :
    adapted u dmin dmax ref v = dmin + (dmax - dmin) * update u ref v := rfl

/-! ## committee statistics over `ℝ` -/

theorem foldl_add_real (l : List ℝ) (a : ℝ) : l.foldl (· + ·) a = a + l.sum := by
  induction l generalizing a with
  | nil => simp
  | cons x xs ih => rw [List.foldl_cons, ih, List.sum_cons, add_assoc]

theorem sum_real (l : List ℝ) : sum l = l.sum := by
  have h := foldl_add_real l 0
  simp only [zero_add] at h
  simpa [sum] using h

theorem list_sum_nonneg (l : List ℝ) (h : ∀ x ∈ l, 0 ≤ x) : 0 ≤ l.sum := by
  induction l with
  | nil => simp
  | cons x xs ih =>
    rw [List.sum_cons]
    exact add_nonneg (h x (by simp)) (ih (fun y hy => h y (by simp [hy])))

theorem list_sum_eq_zero (l : List ℝ) (h : ∀ x ∈ l, 0 ≤ x) (hs : l.sum = 0) : ∀ x ∈ l, x = 0 := by
  induction l with
  | nil => simp
  | cons x xs ih =>
    rw [List.sum_cons] at hs
    have hx : 0 ≤ x := h x (by simp)
    have hxs : 0 ≤ xs.sum := list_sum_nonneg xs (fun y hy => h y (by simp [hy]))
    have hx0 : x = 0 := by linarith
    have hs0 : xs.sum = 0 := by linarith
    intro y hy
    rcases List.mem_cons.mp hy with rfl | hy
    · exact hx0
    · exact ih (fun z hz => h z (by simp [hz])) hs0 y hy

theorem list_sum_of_all_zero (l : List ℝ) (h : ∀ x ∈ l, x = 0) : l.sum = 0 := by
  induction l with
  | nil => simp
  | cons x xs ih =>
    rw [List.sum_cons, h x (by simp), ih (fun y hy => h y (by simp [hy]))]; simp

theorem absN_real [∀ a b : ℝ, Decidable (a < b)] (x : ℝ) : absN x = |x| := by
  unfold absN
  simp only [Num.real_zero]
  split_ifs with h
  · exact (abs_of_neg h).symm
  · exact (abs_of_nonneg (not_lt.mp h)).symm

theorem mean_real (l : List ℝ) : mean l = l.sum / (l.length : ℝ) := by
  simp [mean, sum_real]

theorem std_real (l : List ℝ) :
    std l = Real.sqrt ((l.map (fun x => (x - mean l) * (x - mean l))).sum / (l.length : ℝ)) := by
  simp [std, sum_real]

theorem std_nonneg (l : List ℝ) : 0 ≤ std l := by
  rw [std_real]; exact Real.sqrt_nonneg _

theorem std1_nonneg (l : List ℝ) : 0 ≤ std1 l := by
  unfold std1; exact Real.sqrt_nonneg _

/-! ### numpy's pairwise summation computes the sum (over `ℝ`, where addition is associative) -/

theorem zipWith_add_sum (r c : List ℝ) (h : r.length = c.length) :
    (List.zipWith (· + ·) r c).sum = r.sum + c.sum := by
  induction r generalizing c with
  | nil =>
    cases c with
    | nil => simp
    | cons y ys => simp at h
  | cons x xs ih =>
    cases c with
    | nil => simp at h
    | cons y ys =>
      simp only [List.zipWith_cons_cons, List.sum_cons]
      rw [ih ys (by simpa using h)]; ring

theorem sum_take_add_drop (l : List ℝ) (n : ℕ) : (l.take n).sum + (l.drop n).sum = l.sum := by
  rw [← List.sum_append, List.take_append_drop]

theorem accum8_sum (k : ℕ) (r rest : List ℝ) (hr : r.length = 8) (hrest : rest.length = 8 * k) :
    (accum8 r rest k).sum = r.sum + rest.sum ∧ (accum8 r rest k).length = 8 := by
  induction k generalizing r rest with
  | zero =>
    have : rest = [] := by simpa using hrest
    simp [accum8, hr, this]
  | succ k ih =>
    simp only [accum8]
    have ht : (rest.take 8).length = 8 := by simp [hrest]
    have hd : (rest.drop 8).length = 8 * k := by simp [hrest]; omega
    have hz : (List.zipWith (· + ·) r (rest.take 8)).length = 8 := by simp [hr, ht]
    obtain ⟨h1, h2⟩ := ih _ _ hz hd
    refine ⟨?_, h2⟩
    rw [h1, zipWith_add_sum _ _ (by rw [hr, ht]), ← sum_take_add_drop rest 8]; ring

theorem combine8_sum (l : List ℝ) (h : l.length = 8) : combine8 l = l.sum := by
  rcases l with _ | ⟨a, _ | ⟨b, _ | ⟨c, _ | ⟨d, _ | ⟨e, _ | ⟨f, _ | ⟨g, _ | ⟨i, _ | ⟨j, t⟩⟩⟩⟩⟩⟩⟩⟩⟩ <;>
    simp at h
  simp only [combine8, List.sum_cons, List.sum_nil]; ring

theorem blockSum_real (l : List ℝ) (h8 : 8 ≤ l.length) : blockSum l = l.sum := by
  unfold blockSum
  set m := l.length - l.length % 8 with hm
  have hm8 : 8 ≤ m := by omega
  have hmn : m ≤ l.length := by omega
  have hk : 8 * (m / 8 - 1) = m - 8 := by omega
  have ht : (l.take 8).length = 8 := by simp; omega
  have hrest : ((l.take m).drop 8).length = 8 * (m / 8 - 1) := by simp; omega
  obtain ⟨h1, h2⟩ := accum8_sum (m / 8 - 1) (l.take 8) ((l.take m).drop 8) ht hrest
  rw [foldl_add_real, combine8_sum _ h2, h1]
  have e : l.take 8 = (l.take m).take 8 := by rw [List.take_take]; congr 1; omega
  rw [e, sum_take_add_drop (l.take m) 8, sum_take_add_drop l m]

theorem pairwiseSum_real (fuel : ℕ) (l : List ℝ) : pairwiseSum fuel l = l.sum := by
  induction fuel generalizing l with
  | zero => simp [pairwiseSum, foldl_add_real]
  | succ k ih =>
    simp only [pairwiseSum]
    split_ifs with h1 h2
    · simp [foldl_add_real]
    · exact blockSum_real l (by omega)
    · rw [ih, ih, sum_take_add_drop]

/-- `np.add.reduce` of a 1-D array is the sum -/
theorem sum1_real (l : List ℝ) : sum1 l = l.sum := by
  simp [sum1, pairwiseSum_real]

/-- the model's 1-D `np.std` is the population standard deviation -/
theorem std1_real (l : List ℝ) :
    std1 l = Real.sqrt ((l.map (fun x => (x - l.sum / (l.length : ℝ)) * (x - l.sum / (l.length : ℝ)))).sum
      / (l.length : ℝ)) := by
  simp [std1, sum1_real]

theorem meanAbs_real [∀ a b : ℝ, Decidable (a < b)] (l : List ℝ) :
    meanAbs l = (l.map (fun x => |x|)).sum / (l.length : ℝ) := by
  have e : l.map absN = l.map (fun x => |x|) := List.map_congr_left (fun x _ => absN_real x)
  simp [meanAbs, mean_real, e]

theorem meanAbs_nonneg [∀ a b : ℝ, Decidable (a < b)] (l : List ℝ) : 0 ≤ meanAbs l := by
  rw [meanAbs_real]
  apply div_nonneg _ (Nat.cast_nonneg _)
  apply list_sum_nonneg
  intro x hx
  obtain ⟨y, _, rfl⟩ := List.mem_map.mp hx
  exact abs_nonneg y

/-- a coordinate on which every committee member predicts exactly zero force: numerator and denominator of the
    variation coefficient both vanish (Python: `0.0/0.0 = nan`, never `inf`) -/
theorem std_eq_zero_of_meanAbs_eq_zero [∀ a b : ℝ, Decidable (a < b)] (l : List ℝ)
    (h : meanAbs l = 0) : std l = 0 := by
  rw [meanAbs_real] at h
  rw [std_real]
  rcases div_eq_zero_iff.mp h with hs | hn
  · have hall : ∀ x ∈ l, x = 0 := by
      have h0 := list_sum_eq_zero (l.map (fun x => |x|))
        (by intro x hx; obtain ⟨y, _, rfl⟩ := List.mem_map.mp hx; exact abs_nonneg y) hs
      intro x hx
      exact abs_eq_zero.mp (h0 |x| (List.mem_map.mpr ⟨x, hx, rfl⟩))
    have hm : mean l = 0 := by
      rw [mean_real, list_sum_of_all_zero l hall]; simp
    have hz : (l.map (fun x => (x - mean l) * (x - mean l))).sum = 0 := by
      apply list_sum_of_all_zero
      intro y hy
      obtain ⟨x, hx, rfl⟩ := List.mem_map.mp hy
      rw [hm, hall x hx]; simp
    rw [hz]; simp
  · rw [hn]; simp

/-- the denominator vanishes only when every member's force on that coordinate is zero -/
theorem meanAbs_eq_zero_iff [∀ a b : ℝ, Decidable (a < b)] (l : List ℝ) (hl : l ≠ []) :
    meanAbs l = 0 ↔ ∀ x ∈ l, x = 0 := by
  rw [meanAbs_real]
  have hn : (l.length : ℝ) ≠ 0 := by
    have : l.length ≠ 0 := by simpa [List.length_eq_zero_iff] using hl
    exact_mod_cast this
  constructor
  · intro h
    rcases div_eq_zero_iff.mp h with hs | hn'
    · have h0 := list_sum_eq_zero (l.map (fun x => |x|))
        (by intro x hx; obtain ⟨y, _, rfl⟩ := List.mem_map.mp hx; exact abs_nonneg y) hs
      intro x hx
      exact abs_eq_zero.mp (h0 |x| (List.mem_map.mpr ⟨x, hx, rfl⟩))
    · exact absurd hn' hn
  · intro hall
    have : (l.map (fun x => |x|)).sum = 0 := by
      apply list_sum_of_all_zero
      intro y hy
      obtain ⟨x, hx, rfl⟩ := List.mem_map.mp hy
      rw [hall x hx]; simp
    rw [this]; simp

/-- over the reals the guarded quotient is the plain quotient (`x / 0 = 0` in Lean); the guard matters in `Float` -/
theorem coefOfColumn_eq_raw [∀ a b : ℝ, Decidable (a < b)] (col : List ℝ) : coefOfColumn col = coefOfColumnRaw col := by
  unfold coefOfColumn coefOfColumnRaw
  split
  · rfl
  · rename_i h
    have h0 : meanAbs col = 0 := le_antisymm (not_lt.mp (by simpa using h)) (meanAbs_nonneg col)
    rw [h0]; simp

theorem coefOfColumn_nonneg [∀ a b : ℝ, Decidable (a < b)] (col : List ℝ) : 0 ≤ coefOfColumn col := by
  rw [coefOfColumn_eq_raw]
  exact div_nonneg (std_nonneg col) (meanAbs_nonneg col)

theorem forcesVariationCoef_nonneg [∀ a b : ℝ, Decidable (a < b)] (ref : ℝ) (hr : 0 ≤ ref)
    (natoms : ℕ) (clc : Option (Results ℝ)) :
    ∀ v ∈ forcesVariationCoef ref natoms clc, 0 ≤ v := by
  intro v hv
  unfold forcesVariationCoef at hv
  split at hv
  · rw [List.eq_of_mem_replicate hv]; exact hr
  · split at hv
    · rw [List.eq_of_mem_replicate hv]; exact hr
    · obtain ⟨c, _, rfl⟩ := List.mem_map.mp hv
      exact coefOfColumn_nonneg c

theorem energyVariationCoef_nonneg (ref : ℝ) (hr : 0 ≤ ref) (natoms : ℕ) (clc : Option (Results ℝ)) :
    0 ≤ energyVariationCoef ref natoms clc := by
  unfold energyVariationCoef
  split
  · exact hr
  · split
    · exact hr
    · exact div_nonneg (std1_nonneg _) (by simp)

end AFB
