import QModel.LogTable
import Mathlib.Tactic.IntervalCases
import Mathlib.Tactic.Ring

/-! helper lemmas about the logger's field table (`QModel/LogTable.lean`) -/

namespace LogT

/-! ### padding -/

@[simp] theorem spaces_length (n : Nat) : (spaces n).length = n := by simp [spaces]

theorem pad_length (a : Align) (w : Nat) (s : Str) : (pad a w s).length = max w s.length := by
  cases a <;> simp [pad] <;> omega

theorem pad_length_of_le (a : Align) (w : Nat) (s : Str) (h : s.length ≤ w) : (pad a w s).length = w := by
  rw [pad_length]; omega

theorem mem_spaces {c : Char} {n : Nat} (h : c ∈ spaces n) : c = ' ' := by
  simp [spaces] at h; exact h.2

/-- padding adds blanks only -/
theorem mem_pad {c : Char} {a : Align} {w : Nat} {s : Str} (h : c ∈ pad a w s) : c ∈ s ∨ c = ' ' := by
  cases a <;> simp only [pad, List.mem_append] at h
  · rcases h with h | h
    · exact .inl h
    · exact .inr (mem_spaces h)
  · rcases h with h | h
    · exact .inr (mem_spaces h)
    · exact .inl h
  · rcases h with (h | h) | h
    · exact .inr (mem_spaces h)
    · exact .inl h
    · exact .inr (mem_spaces h)

/-! ### `str(int)` has no newline -/

theorem digit_ne_newline (d : Nat) (h : d < 10) : Char.ofNat (48 + d) ≠ '\n' := by
  interval_cases d <;> decide

theorem natDigits_noNL (n : Nat) (acc : Str) (hacc : '\n' ∉ acc) : '\n' ∉ natDigits n acc := by
  induction n using Nat.strongRecOn generalizing acc with
  | _ n ih =>
    rw [natDigits]
    split
    · rename_i h
      intro hm
      rcases List.mem_cons.mp hm with hm | hm
      · exact digit_ne_newline n h hm.symm
      · exact hacc hm
    · rename_i h
      apply ih (n / 10) (by omega)
      intro hm
      rcases List.mem_cons.mp hm with hm | hm
      · exact digit_ne_newline (n % 10) (by omega) hm.symm
      · exact hacc hm

theorem intRepr_noNL (i : Int) : '\n' ∉ intRepr i := by
  cases i with
  | ofNat n => exact natDigits_noNL n [] (by simp)
  | negSucc n =>
    simp only [intRepr]
    intro hm
    rcases List.mem_cons.mp hm with hm | hm
    · exact absurd hm (by decide)
    · exact natDigits_noNL (n + 1) [] (by simp) hm

/-! ### rendered values, widths -/

/-- a value as text, before padding -/
def render : Val → Str
  | .str s => s
  | .int i => intRepr i

/-- every placeholder has an explicit width and its argument, once rendered, fits into it -/
def FitsArgs : List Seg → List Val → Prop
  | [], _ => True
  | .lit _ :: r, vs => FitsArgs r vs
  | .hole _ :: _, [] => False
  | .hole sp :: r, v :: vs => (∃ w, sp.width = some w ∧ (render v).length ≤ w) ∧ FitsArgs r vs

/-- literal text plus the widths of the placeholders -/
def totalWidth : List Seg → Nat
  | [] => 0
  | .lit s :: r => s.length + totalWidth r
  | .hole sp :: r => sp.width.getD 0 + totalWidth r

theorem fmtVal_length {sp : Spec} {v : Val} {c : Str} {w : Nat} (hw : sp.width = some w)
    (hfit : (render v).length ≤ w) (h : fmtVal sp v = .ok c) : c.length = w := by
  cases v with
  | str s =>
    simp only [fmtVal] at h
    split at h
    · cases h
      simpa [hw] using pad_length_of_le _ w s hfit
    · cases h
  | int i =>
    simp only [fmtVal] at h
    split at h
    · cases h
      simpa [hw] using pad_length_of_le _ w (intRepr i) hfit
    · cases h

theorem map_ok {α β : Type} {x : Except Err α} {g : α → β} {b : β} (h : x.map g = .ok b) :
    ∃ a, x = .ok a ∧ g a = b := by
  cases x with
  | error e => cases h
  | ok a => exact ⟨a, rfl, by simpa [Except.map] using h⟩

/-- **the width of a cell is fixed by its format** when every argument fits -/
theorem fmt_length (segs : List Seg) (vs : List Val) (c : Str) (hf : FitsArgs segs vs) (h : fmt segs vs = .ok c) :
    c.length = totalWidth segs := by
  induction segs generalizing vs c with
  | nil => simp [fmt] at h; subst h; rfl
  | cons sg r ih =>
    cases sg with
    | lit s =>
      simp only [fmt] at h
      obtain ⟨c', h1, rfl⟩ := map_ok h
      simp [totalWidth, ih vs c' hf h1]
    | hole sp =>
      cases vs with
      | nil => exact absurd hf (by simp [FitsArgs])
      | cons v vs =>
        obtain ⟨⟨w, hw, hfit⟩, hr⟩ := hf
        simp only [fmt] at h
        split at h
        · cases h
        · rename_i cv hcv
          obtain ⟨c', h1, rfl⟩ := map_ok h
          simp [totalWidth, hw, ih vs c' hr h1, fmtVal_length hw hfit hcv]

/-- when every argument fits, formatting does not raise for want of arguments, and only for a wrong type code -/
theorem totalWidth_autoHeader (segs : List Seg) (h : ∀ sp, Seg.hole sp ∈ segs → sp.width.isSome) :
    totalWidth (autoHeader segs) = totalWidth segs := by
  induction segs with
  | nil => rfl
  | cons sg r ih =>
    have ihr := ih (fun sp hsp => h sp (List.mem_cons_of_mem _ hsp))
    cases sg with
    | lit s => simp [autoHeader, totalWidth, ihr]
    | hole sp =>
      have hw := h sp (List.mem_cons_self ..)
      obtain ⟨w, hw⟩ := Option.isSome_iff_exists.mp hw
      simp [autoHeader, totalWidth, hdrSpec, hw, ihr]

theorem widths_of_fits (segs : List Seg) (vs : List Val) (hf : FitsArgs segs vs) :
    ∀ sp, Seg.hole sp ∈ segs → sp.width.isSome := by
  induction segs generalizing vs with
  | nil => intro sp h; cases h
  | cons sg r ih =>
    intro sp hsp
    cases sg with
    | lit s =>
      rcases List.mem_cons.mp hsp with h | h
      · cases h
      · exact ih vs hf sp h
    | hole sp' =>
      cases vs with
      | nil => exact absurd hf (by simp [FitsArgs])
      | cons v vs =>
        obtain ⟨⟨w, hw, _⟩, hr⟩ := hf
        rcases List.mem_cons.mp hsp with h | h
        · cases h; simp [hw]
        · exact ih vs hr sp h

/-! ### no newline inside a cell -/

def SegsNoNL (segs : List Seg) : Prop := ∀ s, Seg.lit s ∈ segs → '\n' ∉ s

def ValNoNL : Val → Prop
  | .str s => '\n' ∉ s
  | .int _ => True

theorem fmtVal_noNL {sp : Spec} {v : Val} {c : Str} (hv : ValNoNL v) (h : fmtVal sp v = .ok c) : '\n' ∉ c := by
  cases v with
  | str s =>
    simp only [fmtVal] at h
    split at h
    · cases h
      intro hm
      rcases mem_pad hm with hm | hm
      · exact hv hm
      · exact absurd hm (by decide)
    · cases h
  | int i =>
    simp only [fmtVal] at h
    split at h
    · cases h
      intro hm
      rcases mem_pad hm with hm | hm
      · exact intRepr_noNL i hm
      · exact absurd hm (by decide)
    · cases h

theorem fmt_noNL (segs : List Seg) (vs : List Val) (c : Str) (hs : SegsNoNL segs) (hv : ∀ v ∈ vs, ValNoNL v)
    (h : fmt segs vs = .ok c) : '\n' ∉ c := by
  induction segs generalizing vs c with
  | nil => simp [fmt] at h; subst h; simp
  | cons sg r ih =>
    have hr : SegsNoNL r := fun s hs' => hs s (List.mem_cons_of_mem _ hs')
    cases sg with
    | lit s =>
      simp only [fmt] at h
      obtain ⟨c', h1, rfl⟩ := map_ok h
      intro hm
      rcases List.mem_append.mp hm with hm | hm
      · exact hs s (List.mem_cons_self ..) hm
      · exact ih vs c' hr hv h1 hm
    | hole sp =>
      cases vs with
      | nil => simp [fmt] at h
      | cons v vs =>
        simp only [fmt] at h
        split at h
        · cases h
        · rename_i cv hcv
          obtain ⟨c', h1, rfl⟩ := map_ok h
          intro hm
          rcases List.mem_append.mp hm with hm | hm
          · exact fmtVal_noNL (hv v (List.mem_cons_self ..)) hcv hm
          · exact ih vs c' hr (fun x hx => hv x (List.mem_cons_of_mem _ hx)) h1 hm

theorem joinBlank_noNL (cs : List Str) (h : ∀ c ∈ cs, '\n' ∉ c) : '\n' ∉ joinBlank cs := by
  induction cs with
  | nil => simp [joinBlank]
  | cons c r ih =>
    cases r with
    | nil => simpa [joinBlank] using h c (List.mem_cons_self ..)
    | cons d r' =>
      simp only [joinBlank]
      intro hm
      rcases List.mem_append.mp hm with hm | hm
      · exact h c (List.mem_cons_self ..) hm
      · rcases List.mem_cons.mp hm with hm | hm
        · exact absurd hm (by decide)
        · exact ih (fun x hx => h x (List.mem_cons_of_mem _ hx)) hm

/-- the length of a joined line is decided by the lengths of its cells -/
theorem joinBlank_length (cs : List Str) : (joinBlank cs).length = (cs.map List.length).sum + (cs.length - 1) := by
  induction cs with
  | nil => rfl
  | cons c r ih =>
    cases r with
    | nil => simp [joinBlank]
    | cons d r' =>
      simp only [joinBlank, List.length_append, List.length_cons, ih]
      simp
      omega

/-! ### cells of a table -/

theorem mapE_ok_length {α β : Type} (g : α → Except Err β) (l : List α) (out : List β) (h : mapE g l = .ok out) :
    out.length = l.length := by
  induction l generalizing out with
  | nil => simp [mapE] at h; subst h; rfl
  | cons a r ih =>
    simp only [mapE] at h
    split at h
    · cases h
    · obtain ⟨o, h1, rfl⟩ := map_ok h
      simp [ih o h1]

theorem mapE_ok_forall {α β : Type} (g : α → Except Err β) (l : List α) (out : List β) (h : mapE g l = .ok out) :
    List.Forall₂ (fun a b => g a = .ok b) l out := by
  induction l generalizing out with
  | nil => simp [mapE] at h; subst h; exact .nil
  | cons a r ih =>
    simp only [mapE] at h
    split at h
    · cases h
    · rename_i b hb
      obtain ⟨o, h1, rfl⟩ := map_ok h
      exact .cons hb (ih o h1)

theorem rowCells_ok_length (t : Table) (vs : List Vals) (out : List Str) (h : rowCells t vs = .ok out) :
    out.length = t.length := by
  induction t generalizing vs out with
  | nil => simp [rowCells] at h; subst h; rfl
  | cons f r ih =>
    simp only [rowCells] at h
    split at h
    · cases h
    · obtain ⟨o, h1, rfl⟩ := map_ok h
      simp [ih _ o h1]

/-! ### the dictionary -/

theorem upsert_keys (f : Field) (t : Table) :
    (upsert f t).map (·.key) = if f.key ∈ t.map (·.key) then t.map (·.key) else t.map (·.key) ++ [f.key] := by
  induction t with
  | nil => simp [upsert]
  | cons g r ih =>
    simp only [upsert]
    by_cases hg : g.key = f.key
    · simp [hg]
    · have hg' : ¬ f.key = g.key := fun h => hg h.symm
      simp only [hg, if_false, List.map_cons, ih, List.mem_cons, hg', false_or]
      split <;> simp

theorem upsert_mem (f : Field) (t : Table) : f ∈ upsert f t := by
  induction t with
  | nil => simp [upsert]
  | cons g r ih =>
    simp only [upsert]
    split
    · exact List.mem_cons_self ..
    · exact List.mem_cons_of_mem _ ih

theorem upsert_nodup (f : Field) (t : Table) (h : (t.map (·.key)).Nodup) : ((upsert f t).map (·.key)).Nodup := by
  rw [upsert_keys]
  split
  · exact h
  · rename_i hn
    rw [List.nodup_append]
    refine ⟨h, by simp, ?_⟩
    intro a ha b hb
    simp at hb
    subst hb
    exact fun hab => hn (hab ▸ ha)

theorem upsert_length (f : Field) (t : Table) :
    (upsert f t).length = if f.key ∈ t.map (·.key) then t.length else t.length + 1 := by
  have := congrArg List.length (upsert_keys f t)
  simp only [List.length_map] at this
  rw [this]
  split <;> simp

end LogT
