import QModel.Criteria
import QProofs.NumReal
import Mathlib.Analysis.SpecialFunctions.Pow.Real
import Mathlib.LinearAlgebra.Matrix.NonsingularInverse
import Mathlib.LinearAlgebra.Matrix.Trace
import Mathlib.Data.Nat.Factorial.Basic
import Mathlib.Tactic.Ring
import Mathlib.Tactic.FieldSimp
import Mathlib.Tactic.Linarith
import Mathlib.Tactic.NormNum
/-! helper lemmas for C02 (acceptance criteria) over `ℝ` -/

namespace Crit
open Real

/-! ### the Metropolis comparison -/

theorem expMax_real : (expMax : ℝ) = 709782712893384 / 1000000000000 := by
  simp [expMax]

theorem expMax_pos : (0 : ℝ) < expMax := by
  rw [expMax_real]; norm_num

theorem acceptFixed_true_iff (u e : ℝ) :
    acceptFixed u e = true ↔ (0 ≤ e ∨ u < Real.exp e) := by
  unfold acceptFixed
  by_cases h : (0 : ℝ) ≤ e
  · simp [h]
  · simp [h]

theorem min_one_exp_of_nonneg {e : ℝ} (h : 0 ≤ e) : min 1 (Real.exp e) = 1 :=
  min_eq_left (Real.one_le_exp h)

theorem min_one_exp_of_neg {e : ℝ} (h : e < 0) : min 1 (Real.exp e) = Real.exp e :=
  min_eq_right (le_of_lt (Real.exp_lt_one_iff.mpr h))

/-- the fixed rule is the textbook rule `u < min(1, exp e)` for every `u < 1` -/
theorem acceptFixed_iff_min (u e : ℝ) (hu : u < 1) :
    acceptFixed u e = true ↔ u < min 1 (Real.exp e) := by
  rw [acceptFixed_true_iff]
  by_cases h : (0 : ℝ) ≤ e
  · rw [min_one_exp_of_nonneg h]; simp [h, hu]
  · have h' : e < 0 := lt_of_not_ge h
    rw [min_one_exp_of_neg h']; simp [h]

theorem pyExp_ok_of_le (e : ℝ) (h : e ≤ expMax) : pyExp e = .ok (Real.exp e) := by
  unfold pyExp; simp [not_lt.mpr h]

theorem pyExp_error_of_gt (e : ℝ) (h : expMax < e) : pyExp e = .error .overflow := by
  unfold pyExp; simp [h]

/-! ### exponents -/

theorem canonicalExponent_real (dE kT : ℝ) : canonicalExponent dE kT = -dE / kT := rfl

theorem isobaricExponent_real (dE P Vn Vo kT : ℝ) (N : ℕ) :
    isobaricExponent dE P Vn Vo kT N
      = -(dE + P * (Vn - Vo)) / kT + ((N : ℝ) + 1) * Real.log (Vn / Vo) := by
  simp [isobaricExponent]

/-- `exp (x + (N+1)·log r) = exp x · r^(N+1)` for `r > 0` -/
theorem exp_add_mul_log (x r : ℝ) (N : ℕ) (hr : 0 < r) :
    Real.exp (x + ((N : ℝ) + 1) * Real.log r) = Real.exp x * r ^ (N + 1) := by
  rw [Real.exp_add]
  congr 1
  rw [mul_comm, Real.exp_mul, Real.exp_log hr]
  norm_cast

/-! ### bridge from the 9-tuples to Mathlib matrices -/

/-- the Mathlib matrix of a 9-tuple -/
def Mat3.toM (A : Mat3 ℝ) : Matrix (Fin 3) (Fin 3) ℝ :=
  !![A.a00, A.a01, A.a02; A.a10, A.a11, A.a12; A.a20, A.a21, A.a22]

namespace Mat3

theorem toM_eye : (eye : Mat3 ℝ).toM = 1 := by
  ext i j; fin_cases i <;> fin_cases j <;> simp [toM, eye]

theorem toM_transpose (A : Mat3 ℝ) : A.transpose.toM = A.toM.transpose := by
  ext i j; fin_cases i <;> fin_cases j <;> simp [toM, transpose]

theorem toM_sub (A B : Mat3 ℝ) : (sub A B).toM = A.toM - B.toM := by
  ext i j; fin_cases i <;> fin_cases j <;> simp [toM, sub]

theorem toM_smul (c : ℝ) (A : Mat3 ℝ) : (smul c A).toM = c • A.toM := by
  ext i j; fin_cases i <;> fin_cases j <;> simp [toM, smul]

theorem toM_mul (A B : Mat3 ℝ) : (mul A B).toM = A.toM * B.toM := by
  ext i j; fin_cases i <;> fin_cases j <;>
    simp [toM, mul, Matrix.mul_apply, Fin.sum_univ_three]

theorem trace_toM (A : Mat3 ℝ) : trace A = A.toM.trace := by
  simp [toM, trace, Matrix.trace, Fin.sum_univ_three]

theorem det_toM (A : Mat3 ℝ) : det A = A.toM.det := by
  simp [toM, det, Matrix.det_fin_three]; ring

private theorem row_one (D : ℝ) (hD : D ≠ 0) (a b c x y z : ℝ) (h : a * x + b * y + c * z = D) :
    a * (x / D) + b * (y / D) + c * (z / D) = 1 := by
  have e : a * (x / D) + b * (y / D) + c * (z / D) = (a * x + b * y + c * z) / D := by ring
  rw [e, h, div_self hD]

private theorem row_zero (D : ℝ) (a b c x y z : ℝ) (h : a * x + b * y + c * z = 0) :
    a * (x / D) + b * (y / D) + c * (z / D) = 0 := by
  have e : a * (x / D) + b * (y / D) + c * (z / D) = (a * x + b * y + c * z) / D := by ring
  rw [e, h, zero_div]

theorem mul_inv_self (A : Mat3 ℝ) (h : det A ≠ 0) : mul A (inv A) = eye := by
  have h' := h
  unfold det at h'
  simp only [mul, inv, eye, det, Mat3.mk.injEq, Num.real_one, Num.real_zero]
  refine ⟨?_, ?_, ?_, ?_, ?_, ?_, ?_, ?_, ?_⟩ <;>
    first
      | exact row_one _ h' _ _ _ _ _ _ (by ring)
      | exact row_zero _ _ _ _ _ _ _ (by ring)

theorem toM_mul_inv (A : Mat3 ℝ) (h : det A ≠ 0) : A.toM * (inv A).toM = 1 := by
  rw [← toM_mul, mul_inv_self A h, toM_eye]

/-- the adjugate/determinant inverse of the model is Mathlib's matrix inverse -/
theorem toM_inv (A : Mat3 ℝ) (h : det A ≠ 0) : (inv A).toM = (A.toM)⁻¹ :=
  (Matrix.inv_eq_right_inv (toM_mul_inv A h)).symm

theorem det_transpose (A : Mat3 ℝ) : det A.transpose = det A := by
  simp [det, transpose]; ring

end Mat3

/-! ### isotension: strain and stress work in Mathlib matrix terms -/

open Matrix in
/-- the strain matrix the code computes, `0.5*(inv(h₀ᵀ) @ hᵀ @ h₀ @ inv(h₀) − 1)`, as a Mathlib matrix -/
noncomputable def strainM (cur old : Matrix (Fin 3) (Fin 3) ℝ) : Matrix (Fin 3) (Fin 3) ℝ :=
  (1 / 2 : ℝ) • ((oldᵀ)⁻¹ * curᵀ * old * old⁻¹ - 1)

theorem codedStrain_toM (cur old : Mat3 ℝ) (h : Mat3.det old ≠ 0) :
    (codedStrain cur old).toM = strainM cur.toM old.toM := by
  have ht : Mat3.det old.transpose ≠ 0 := by rwa [Mat3.det_transpose]
  simp only [codedStrain, strainM, Mat3.toM_smul, Mat3.toM_sub, Mat3.toM_mul, Mat3.toM_inv _ h,
    Mat3.toM_inv _ ht, Mat3.toM_transpose, Mat3.toM_eye, Num.real_half]

open Matrix in
/-- DESIGN §7 row 2b: because of the factor `h₀ @ inv(h₀)` the coded strain is `½((h·h₀⁻¹)ᵀ − 1)`,
    linear in the new cell — not the Lagrangian strain `½(FᵀF − 1)` -/
theorem strainM_eq (cur old : Matrix (Fin 3) (Fin 3) ℝ) (h : old.det ≠ 0) :
    strainM cur old = (1 / 2 : ℝ) • ((cur * old⁻¹)ᵀ - 1) := by
  have hu : IsUnit old.det := isUnit_iff_ne_zero.mpr h
  unfold strainM
  rw [Matrix.mul_assoc _ old, Matrix.mul_nonsing_inv old hu, Matrix.mul_one, Matrix.transpose_mul,
    Matrix.transpose_nonsing_inv]

theorem isotensionElastic_toM (P Vn Vo : ℝ) (S strain : Mat3 ℝ) :
    isotensionElastic P Vn Vo S strain
      = P * (Vn - Vo) + Vo * Matrix.trace ((S.toM - P • (1 : Matrix (Fin 3) (Fin 3) ℝ)) * strain.toM) := by
  simp only [isotensionElastic, Mat3.trace_toM, Mat3.toM_mul, Mat3.toM_sub, Mat3.toM_smul, Mat3.toM_eye]

theorem isotensionExponent_real (dE P Vn Vo kT : ℝ) (N : ℕ) (S cur old : Mat3 ℝ) :
    isotensionExponent dE P Vn Vo kT N S cur old
      = -(dE + isotensionElastic P Vn Vo S (codedStrain cur old)) / kT
        + ((N : ℝ) + 1) * Real.log (Vn / Vo) := by
  simp [isotensionExponent]

/-- a purely hydrostatic stress does no extra work, whatever the strain -/
theorem isotensionElastic_hydrostatic (P Vn Vo : ℝ) (strain : Mat3 ℝ) :
    isotensionElastic P Vn Vo (Mat3.smul P Mat3.eye) strain = P * (Vn - Vo) := by
  simp [isotensionElastic, Mat3.trace, Mat3.mul, Mat3.sub, Mat3.smul, Mat3.eye]

/-! ### grand canonical: integer powers, the factorial loops, the thermal wavelength -/

theorem ipow_real (x : ℝ) (k : ℤ) : ipow x k = x ^ k := by
  unfold ipow
  split
  · rename_i h
    obtain ⟨n, hn⟩ : ∃ n : ℕ, k = -(n : ℤ) := ⟨k.natAbs, by omega⟩
    subst hn
    simp [zpow_neg]
  · rename_i h
    obtain ⟨n, hn⟩ : ∃ n : ℕ, k = (n : ℤ) := ⟨k.natAbs, by omega⟩
    subst hn
    simp

/-- `for i in range(N+1, N+1+n): acc /= i` leaves `acc · N!/(N+n)!` -/
theorem divLoop_closed (acc : ℝ) (N n : ℕ) :
    divLoop acc ((N : ℤ) + 1) n = acc * (N.factorial : ℝ) / ((N + n).factorial : ℝ) := by
  induction n generalizing acc N with
  | zero =>
    have : ((N.factorial : ℕ) : ℝ) ≠ 0 := by exact_mod_cast Nat.factorial_ne_zero N
    simp only [divLoop, Nat.add_zero]
    field_simp
  | succ n ih =>
    have e : (N : ℤ) + 1 + 1 = ((N + 1 : ℕ) : ℤ) + 1 := by push_cast; ring
    have c : (Num.ofInt ((N : ℤ) + 1) : ℝ) = (N : ℝ) + 1 := by rw [Num.real_ofInt]; push_cast; ring
    simp only [divLoop]
    rw [e, ih, c]
    have h1 : ((N : ℝ) + 1) ≠ 0 := by positivity
    have h2 : (((N + 1 + n).factorial : ℕ) : ℝ) ≠ 0 := by exact_mod_cast Nat.factorial_ne_zero _
    have h3 : N + (n + 1) = N + 1 + n := by omega
    rw [h3, Nat.factorial_succ]
    push_cast
    field_simp

/-- `for i in range(M+1, M+1+n): acc *= i` leaves `acc · (M+n)!/M!` -/
theorem mulLoop_closed (acc : ℝ) (M n : ℕ) :
    mulLoop acc ((M : ℤ) + 1) n = acc * ((M + n).factorial : ℝ) / (M.factorial : ℝ) := by
  induction n generalizing acc M with
  | zero =>
    have : ((M.factorial : ℕ) : ℝ) ≠ 0 := by exact_mod_cast Nat.factorial_ne_zero M
    simp only [mulLoop, Nat.add_zero]
    field_simp
  | succ n ih =>
    have e : (M : ℤ) + 1 + 1 = ((M + 1 : ℕ) : ℤ) + 1 := by push_cast; ring
    have c : (Num.ofInt ((M : ℤ) + 1) : ℝ) = (M : ℝ) + 1 := by rw [Num.real_ofInt]; push_cast; ring
    simp only [mulLoop]
    rw [e, ih, c]
    have h1 : ((M : ℝ) + 1) ≠ 0 := by positivity
    have h2 : (((M).factorial : ℕ) : ℝ) ≠ 0 := by exact_mod_cast Nat.factorial_ne_zero _
    have h3 : M + (n + 1) = M + 1 + n := by omega
    rw [h3, Nat.factorial_succ M]
    push_cast
    field_simp

/-- a multiplying loop whose range contains 0 leaves 0 -/
theorem mulLoop_zero (acc : ℝ) (lo : ℤ) (n : ℕ) (h1 : lo ≤ 0) (h2 : 0 < lo + n) :
    mulLoop acc lo n = 0 := by
  induction n generalizing acc lo with
  | zero => omega
  | succ n ih =>
    simp only [mulLoop]
    by_cases h0 : lo = 0
    · subst h0
      have z : ∀ (m : ℕ) (l : ℤ), mulLoop (0 : ℝ) l m = 0 := by
        intro m
        induction m with
        | zero => intro l; rfl
        | succ m ihm => intro l; simp only [mulLoop, zero_mul]; exact ihm _
      have : (Num.ofInt (0 : ℤ) : ℝ) = 0 := by rw [Num.real_ofInt]; simp
      rw [this, mul_zero]; exact z _ _
    · exact ih _ _ (by omega) (by push_cast at h2 ⊢; omega)

/-- the two loops give `N!/(N+δ)!` whenever `N + δ ≥ 0` -/
theorem factorialTerm_closed (N : ℕ) (δ : ℤ) (h : 0 ≤ (N : ℤ) + δ) :
    (factorialTerm N δ : ℝ) = (N.factorial : ℝ) / ((((N : ℤ) + δ).toNat).factorial : ℝ) := by
  unfold factorialTerm
  split
  · rename_i hd
    obtain ⟨n, rfl⟩ : ∃ n : ℕ, δ = (n : ℤ) := ⟨δ.toNat, by omega⟩
    have e : ((N : ℤ) + (n : ℤ)).toNat = N + n := by omega
    rw [e, Int.toNat_natCast, divLoop_closed]
    simp
  · split
    · rename_i hd
      obtain ⟨M, hM⟩ : ∃ M : ℕ, (N : ℤ) + δ = (M : ℤ) := ⟨((N : ℤ) + δ).toNat, by omega⟩
      obtain ⟨n, hn⟩ : ∃ n : ℕ, -δ = (n : ℤ) := ⟨(-δ).toNat, by omega⟩
      have hN : M + n = N := by omega
      rw [hM, hn, Int.toNat_natCast, Int.toNat_natCast, mulLoop_closed, hN]
      simp
    · rename_i h1 h2
      have hδ : δ = 0 := by omega
      subst hδ
      have : ((N.factorial : ℕ) : ℝ) ≠ 0 := by exact_mod_cast Nat.factorial_ne_zero N
      simp only [add_zero, Int.toNat_natCast, Num.real_one]
      field_simp

/-- deleting more particles than there are: the range contains 0 and the factor vanishes -/
theorem factorialTerm_zero (N : ℕ) (δ : ℤ) (h : (N : ℤ) + δ < 0) : (factorialTerm N δ : ℝ) = 0 := by
  unfold factorialTerm
  have h1 : ¬ (0 < δ) := by omega
  have h2 : δ < 0 := by omega
  rw [if_neg h1, if_pos h2]
  apply mulLoop_zero
  · omega
  · have : (((-δ).toNat : ℕ) : ℤ) = -δ := by omega
    rw [this]; omega

theorem factorialTerm_insert (N : ℕ) : (factorialTerm N 1 : ℝ) = 1 / ((N : ℝ) + 1) := by
  rw [factorialTerm_closed N 1 (by omega)]
  have e : ((N : ℤ) + 1).toNat = N + 1 := by omega
  have : ((N.factorial : ℕ) : ℝ) ≠ 0 := by exact_mod_cast Nat.factorial_ne_zero N
  have h1 : ((N : ℝ) + 1) ≠ 0 := by positivity
  rw [e, Nat.factorial_succ]
  push_cast
  field_simp

theorem factorialTerm_delete (N : ℕ) : (factorialTerm N (-1) : ℝ) = (N : ℝ) := by
  unfold factorialTerm
  have e : (N : ℤ) + -1 + 1 = (N : ℤ) := by ring
  simp [mulLoop, e, Num.real_ofInt]

theorem gcPrefactor_insert (V lam : ℝ) (N : ℕ) :
    gcPrefactor V lam N 1 = V / (lam ^ 3 * ((N : ℝ) + 1)) := by
  unfold gcPrefactor
  rw [ipow_real, ipow_real, factorialTerm_insert]
  have : (-3 * (1 : ℤ)) = -((3 : ℕ) : ℤ) := by norm_num
  rw [this, zpow_neg, zpow_natCast, zpow_one]
  rw [div_eq_mul_inv, div_eq_mul_inv, mul_inv]
  ring

theorem gcPrefactor_delete (V lam : ℝ) (N : ℕ) :
    gcPrefactor V lam N (-1) = lam ^ 3 * (N : ℝ) / V := by
  unfold gcPrefactor
  rw [ipow_real, ipow_real, factorialTerm_delete]
  have : (-3 * (-1 : ℤ)) = ((3 : ℕ) : ℤ) := by norm_num
  rw [this, zpow_natCast, zpow_neg, zpow_one, div_eq_mul_inv]
  ring

theorem gcExponential_real (dE mu kT : ℝ) (δ : ℤ) :
    gcExponential dE mu kT δ = ((δ : ℝ) * mu - dE) / kT := by
  simp [gcExponential, Num.real_ofInt]

theorem milli_real : (milli : ℝ) = 1 / 1000 := by simp [milli]
theorem e10_real : (e10 : ℝ) = 10000000000 := by simp [e10]

theorem deBroglie_real (k : Consts ℝ) (m T : ℝ) :
    deBroglie k m T
      = Real.sqrt (k.hplanck ^ 2 / (2 * Real.pi * m * k.kB * T / k.nav * (1 / 1000) * k.e)) * 10000000000 := by
  simp [deBroglie, milli_real, e10_real]

/-- positivity of the wavelength for positive constants, mass and temperature -/
theorem deBroglie_pos (k : Consts ℝ) (m T : ℝ) (hh : 0 < k.hplanck) (hk : 0 < k.kB) (hn : 0 < k.nav)
    (he : 0 < k.e) (hm : 0 < m) (hT : 0 < T) : 0 < deBroglie k m T := by
  rw [deBroglie_real]
  have hp := Real.pi_pos
  have : 0 < k.hplanck ^ 2 / (2 * Real.pi * m * k.kB * T / k.nav * (1 / 1000) * k.e) := by positivity
  have := Real.sqrt_pos.mpr this
  positivity

/-- the grand-canonical decision is `u < min(1, prefactor · exp(exponential))` for `u ∈ [0,1)` -/
theorem gcAcceptFixed_iff (u pref expo : ℝ) (hu0 : 0 ≤ u) (hu1 : u < 1) :
    gcAcceptFixed u pref expo = true ↔ u < min 1 (pref * Real.exp expo) := by
  unfold gcAcceptFixed
  by_cases hp : (0 : ℝ) < pref
  · have hp' : (Num.zero : ℝ) < pref := by simpa using hp
    rw [if_pos hp', acceptFixed_iff_min _ _ hu1]
    simp only [Num.real_log]
    rw [Real.exp_add, Real.exp_log hp, mul_comm]
  · have hp' : ¬ (Num.zero : ℝ) < pref := by simpa using hp
    rw [if_neg hp']
    have : pref * Real.exp expo ≤ 0 :=
      mul_nonpos_of_nonpos_of_nonneg (not_lt.mp hp) (Real.exp_pos _).le
    have h2 : min 1 (pref * Real.exp expo) ≤ 0 := le_trans (min_le_right _ _) this
    constructor
    · intro h; cases h
    · intro h; exact absurd (lt_of_lt_of_le h h2) (not_lt.mpr hu0)

end Crit
