import QProofs.MachineTree
/-! composite displacement without vetoes: every member moves a fresh particle until none is left (C11) -/
namespace MM

/-- the user's `check_move` never vetoes in this script -/
def NoVeto (i : Inputs) : Prop := ∀ c ∈ i.checks, c = true

theorem noVeto_draw (i : Inputs) (h : NoVeto i) : NoVeto i.draw.2 := by
  unfold Inputs.draw; split <;> exact h

theorem noVeto_op (i : Inputs) (h : NoVeto i) : NoVeto i.op.2 := by
  unfold Inputs.op; split <;> exact h

theorem noVeto_check (i : Inputs) (h : NoVeto i) : i.check.1 = true ∧ NoVeto i.check.2 := by
  unfold Inputs.check
  split
  · exact ⟨rfl, h⟩
  · rename_i d ds hc
    refine ⟨h d (by rw [hc]; simp), ?_⟩
    intro c hcm; exact h c (by rw [hc]; simp [hcm])

theorem noVeto_choice {α} (xs : List α) (d : α) (i : Inputs) (h : NoVeto i) : NoVeto (choice xs d i).2 := by
  unfold choice; exact noVeto_draw i h

theorem attemptLoop_noVeto (mv : List Nat) (c : Bool) (old : List V3) (n : Nat) (a : AtomsS) (i : Inputs)
    (hn : 0 < n) (h : NoVeto i) :
    (attemptLoop mv c old n a i).1 = true ∧ NoVeto (attemptLoop mv c old n a i).2.2 := by
  cases n with
  | zero => omega
  | succ k =>
    rcases hop : i.op with ⟨d, i1⟩
    have h1 : NoVeto i1 := by have := noVeto_op i h; rw [hop] at this; exact this
    obtain ⟨hc, h2⟩ := noVeto_check i1 h1
    rcases hck : i1.check with ⟨ok, i2⟩
    rw [hck] at hc h2
    simp only [] at hc h2
    subst hc
    simp only [attemptLoop, hop, hck, if_true]
    exact ⟨by first | rfl | trivial, h2⟩

/-- without vetoes a displacement move with a pre-selected ELIGIBLE target always succeeds -/
theorem dispCall_noVeto (r : Nat) (s : State) (l : Int) (hl : (s.obj r).toDisplace = some l)
    (hel : l ∈ uniqueLabels (s.obj r).labels)
    (hm : 0 < (s.obj r).maxAttempts) (h : NoVeto s.inp) :
    (dispCall r s).1 = true ∧ NoVeto (dispCall r s).2.inp := by
  rw [dispCall_eq]
  have hc : (uniqueLabels (s.obj r).labels).contains l = true := by simpa using hel
  simp only [hl, hc, if_true, dispCore, Option.getD_some, attemptDisplacement]
  have := attemptLoop_noVeto (whereEq (s.obj r).labels l) (s.obj r).applyConstraints (positions s.atoms.rows)
    (s.obj r).maxAttempts s.atoms s.inp hm h
  rcases hres : attemptLoop (whereEq (s.obj r).labels l) (s.obj r).applyConstraints (positions s.atoms.rows)
    (s.obj r).maxAttempts s.atoms s.inp with ⟨ok, a, i⟩
  rw [hres] at this
  simp only [] at this
  obtain ⟨hok, hnv⟩ := this
  subst hok
  simp only [if_true]
  exact ⟨by first | rfl | trivial, hnv⟩

theorem compDispLoop_acc_sub (rs : List Nat) (acc : List (Option Int)) (s : State) (x : Int)
    (hx : some x ∈ acc) : x ∈ (compDispLoop rs acc s).1.filterMap id := by
  induction rs generalizing acc s with
  | nil => simp only [compDispLoop, List.mem_filterMap, id]; exact ⟨some x, hx, rfl⟩
  | cons r rs ih =>
    simp only [compDispLoop]
    split
    · exact ih _ _ (by simp [hx])
    · rcases hch : choice (setdiff (uniqueLabels (s.obj r).labels) (acc.filterMap id)) 0 s.inp with ⟨l, i⟩
      simp only []
      rcases hdc : dispCall r (({ s with inp := i } : State).setObj r { s.obj r with toDisplace := some l })
        with ⟨ok, s2⟩
      simp only []
      exact ih _ _ (by simp [hx])

theorem setdiff_nil_mono (u acc acc' : List Int) (h : setdiff u acc = []) (hsub : ∀ x ∈ acc, x ∈ acc') :
    setdiff u acc' = [] := by
  unfold setdiff at h ⊢
  rw [List.filter_eq_nil_iff] at h ⊢
  intro x hx
  have := h x hx
  simp only [Bool.not_eq_true, Bool.not_eq_false', List.contains_eq_mem, decide_eq_true_eq] at this ⊢
  exact hsub x this

/-- **composite_count**: if the geometric check never vetoes and all members share one labelling `L`, then either every
    member displaced a particle, or every eligible particle was displaced — i.e. the composite moves
    `min(n, eligible)` particles (with `composite_no_repeat`: pairwise distinct ones). -/
theorem compDispLoop_count_noVeto (L : List Int) (rs : List Nat) (acc : List (Option Int)) (s : State)
    (hrs : ∀ r ∈ rs, r < s.heap.length) (hL : ∀ r ∈ rs, (s.obj r).labels = L)
    (hm : ∀ r ∈ rs, 0 < (s.obj r).maxAttempts) (hnv : NoVeto s.inp) :
    ((compDispLoop rs acc s).1.filterMap id).length = (acc.filterMap id).length + rs.length ∨
    setdiff (uniqueLabels L) ((compDispLoop rs acc s).1.filterMap id) = [] := by
  induction rs generalizing acc s with
  | nil => left; simp [compDispLoop]
  | cons r rs ih =>
    have hr : r < s.heap.length := hrs r (by simp)
    have hLr : (s.obj r).labels = L := hL r (by simp)
    simp only [compDispLoop]
    split
    · -- no candidate left: stays so
      rename_i hcand
      rw [hLr] at hcand
      right
      have hnil : setdiff (uniqueLabels L) (acc.filterMap id) = [] := by
        cases h : setdiff (uniqueLabels L) (acc.filterMap id) with
        | nil => rfl
        | cons a as => rw [h] at hcand; simp at hcand
      -- the displaced list only grows
      have hsub : ∀ x ∈ acc.filterMap id,
          x ∈ (compDispLoop rs (acc ++ [none]) (s.setObj r { s.obj r with toDisplace := none })).1.filterMap id := by
        intro x hx
        exact compDispLoop_acc_sub rs (acc ++ [none]) _ x (by
          have : some x ∈ acc := by simpa using hx
          simp [this])
      exact setdiff_nil_mono _ _ _ hnil hsub
    · rename_i hcand
      rcases hch : choice (setdiff (uniqueLabels (s.obj r).labels) (acc.filterMap id)) 0 s.inp with ⟨l, i⟩
      simp only []
      have hnvi : NoVeto i := by
        have := noVeto_choice (setdiff (uniqueLabels (s.obj r).labels) (acc.filterMap id)) 0 s.inp hnv
        rw [hch] at this; exact this
      generalize hs1 : (({ s with inp := i } : State).setObj r { s.obj r with toDisplace := some l }) = s1
      have k1 : CallKeeps s s1 := by
        rw [← hs1]
        have : CallKeeps ({ s with inp := i } : State)
            (({ s with inp := i } : State).setObj r { s.obj r with toDisplace := some l }) :=
          setObj_keeps _ r _ rfl rfl rfl
        exact ⟨this.heap_len, this.labels, this.kinds, this.atts, this.ctx, this.pos⟩
      have hr1 : r < s1.heap.length := by rw [k1.heap_len]; exact hr
      have hobj1 : s1.obj r = { s.obj r with toDisplace := some l } := by
        rw [← hs1]; exact obj_setObj _ _ _ (by simpa using hr)
      have hinp1 : s1.inp = i := by rw [← hs1]; rfl
      have hel : l ∈ uniqueLabels (s.obj r).labels := by
        have hne : setdiff (uniqueLabels (s.obj r).labels) (acc.filterMap id) ≠ [] := by
          intro h0; rw [h0] at hcand; simp at hcand
        have hmem := choice_mem _ 0 s.inp hne
        rw [hch] at hmem
        exact (List.mem_filter.1 hmem).1
      have hdc := dispCall_noVeto r s1 l (by rw [hobj1]) (by rw [hobj1]; exact hel)
        (by rw [hobj1]; exact hm r (by simp)) (by rw [hinp1]; exact hnvi)
      have hsp := dispCall_spec r s1 hr1
      have k2 := dispCall_keeps r s1 hr1
      rcases hcall : dispCall r s1 with ⟨ok, s2⟩
      rw [hcall] at hdc hsp k2
      simp only [] at hdc hsp k2 ⊢
      obtain ⟨hok, hnv2⟩ := hdc
      subst hok
      obtain ⟨l', d, _, hdis, _⟩ := hsp.ok_atoms rfl
      have k12 := k1.trans k2
      have := ih (acc ++ [if true = true then (s2.obj r).displaced else none]) s2
        (fun r' h' => by rw [k12.heap_len]; exact hrs r' (by simp [h']))
        (fun r' h' => by rw [k12.labels r']; exact hL r' (by simp [h']))
        (fun r' h' => by
          have := hm r' (by simp [h'])
          rw [k12.atts r']; exact this)
        hnv2
      simp only [if_true, hdis, List.filterMap_append, List.filterMap_cons, id, List.filterMap_nil,
        List.length_append, List.length_cons, List.length_nil] at this ⊢
      rcases this with h | h
      · left; omega
      · right; exact h

end MM
