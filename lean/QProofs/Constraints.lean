import QModel.FixRot
import QProofs.Verlet

/-! Helper lemmas for C12: any quantity `J` of the positions that `adjust_positions` pins to its old value
    is invariant under every history of trials. -/

namespace Constr
open VecFn Verlet Finset

variable {n : ℕ} {β : Type}

section generic
variable (J : Arr n ℝ → β) (c : Cons n ℝ) (hJ : ∀ old new, J (c.adjPos old new).get = J old)
include hJ

theorem step_J (F : Arr n ℝ → Arr n ℝ) (m : Col n ℝ) (dt : ℝ) (s : St n ℝ) (f : Arr n ℝ) :
    J (step c true F m dt s f).1.q = J s.q := by
  simp only [step, setPositions, if_true, Tab.get_tab]
  exact hJ _ _

theorem loop_J (F : Arr n ℝ → Arr n ℝ) (m : Col n ℝ) (dt : ℝ) (k : ℕ) (x : St n ℝ × Arr n ℝ) :
    J (loop c true F m dt k x).1.q = J x.1.q := by
  induction k generalizing x with
  | zero => rfl
  | succ j ih => rw [loop, ih, step_J J c hJ]

theorem integrate_J (F : Arr n ℝ → Arr n ℝ) (m : Col n ℝ) (dt : ℝ) (steps : ℕ) (s : St n ℝ) :
    J (integrate c true F m dt steps s).q = J s.q := by
  unfold integrate
  rw [loop_J J c hJ]

theorem attemptLoop_J (g : HCfg n ℝ) (hg : g.cons = c) (ha : g.apply = true) (sample : Bool) (old : St n ℝ)
    (reference start : ℝ) :
    ∀ (k : ℕ) (zs : List (Arr n ℝ)) (checks : List Bool) (x : HCtx n ℝ), J x.q = J old.q →
      J (attemptLoop g sample old reference start k zs checks x).2.q = J old.q := by
  intro k
  induction k with
  | zero => intro zs checks x hx; exact hx
  | succ k ih =>
    intro zs checks x hx
    simp only [attemptLoop]
    split
    · simp only [HCfg.run, hg, ha]
      rw [integrate_J J c hJ]
      cases sample <;> simpa using hx
    · exact ih _ _ _ rfl

theorem dispLoop_J (old : Arr n ℝ) :
    ∀ (k : ℕ) (ts : List (Arr n ℝ)) (checks : List Bool) (q : Arr n ℝ), J q = J old →
      J (dispLoop c true old k ts checks q).2 = J old := by
  intro k
  induction k with
  | zero => intro ts checks q hq; exact hq
  | succ k ih =>
    intro ts checks q hq
    simp only [dispLoop, setPositions, if_true]
    split
    · rw [hJ]; exact hq
    · exact ih _ _ _ rfl

theorem dispComposite_J : ∀ (es : List (Elem n ℝ)) (q : Arr n ℝ), J (dispComposite c true es q).2 = J q := by
  intro es
  induction es with
  | nil => intro q; rfl
  | cons e es ih =>
    intro q
    simp only [dispComposite]
    rw [ih, dispAttempt, dispLoop_J J c hJ q _ _ _ q rfl]

omit hJ in
theorem ham_sel (s : Sys n ℝ) (r : Bool × HCtx n ℝ) (accept : Bool) (j0 : β) (hr : J r.2.q = j0)
    (h2 : J s.lastQ = j0) :
    J (if r.1 then (if accept then ({ q := r.2.q, p := r.2.p, lastQ := r.2.q, lastP := r.2.p } : Sys n ℝ)
        else { s with q := s.lastQ, p := s.lastP }) else { s with q := r.2.q, p := r.2.p }).q = j0 ∧
    J (if r.1 then (if accept then ({ q := r.2.q, p := r.2.p, lastQ := r.2.q, lastP := r.2.p } : Sys n ℝ)
        else { s with q := s.lastQ, p := s.lastP }) else { s with q := r.2.q, p := r.2.p }).lastQ = j0 := by
  obtain ⟨b, x⟩ := r
  cases b <;> cases accept <;> simp_all

theorem runTrial_J (F : Arr n ℝ → Arr n ℝ) (m : Col n ℝ) (t : Trial n ℝ) (s : Sys n ℝ) (j0 : β)
    (h1 : J s.q = j0) (h2 : J s.lastQ = j0) :
    J (runTrial c true F m t s).q = j0 ∧ J (runTrial c true F m t s).lastQ = j0 := by
  cases t with
  | disp moves accept =>
    have h := dispComposite_J J c hJ moves s.q
    simp only [runTrial]
    split
    · split
      · exact ⟨by rw [h, h1], by rw [h, h1]⟩
      · exact ⟨h2, h2⟩
    · exact ⟨by rw [h, h1], h2⟩
  | ham dt steps kT ndof forced maxAttempts zs checks accept =>
    have h := attemptLoop_J J c hJ ⟨c, true, F, m, dt, steps, kT, ndof, forced⟩ rfl rfl true ⟨s.q, s.p⟩
      Num.zero (ekin m s.p) maxAttempts zs checks ⟨s.q, s.p, Num.zero, s.q, s.q⟩ rfl
    exact ham_sel J s _ accept j0 (h.trans h1) h2
  | fb disp shaped =>
    simp only [runTrial, setPositions, if_true]
    exact ⟨by rw [hJ, h1], h2⟩

theorem runHistory_J (F : Arr n ℝ → Arr n ℝ) (m : Col n ℝ) (j0 : β) :
    ∀ (h : List (Trial n ℝ)) (s : Sys n ℝ), J s.q = j0 → J s.lastQ = j0 →
      J (runHistory c true F m h s).q = j0 ∧ J (runHistory c true F m h s).lastQ = j0 := by
  intro h
  induction h with
  | nil => intro s h1 h2; exact ⟨h1, h2⟩
  | cons t ts ih =>
    intro s h1 h2
    obtain ⟨a, b⟩ := runTrial_J J c hJ F m t s j0 h1 h2
    exact ih _ a b

end generic

/-! ## the two ASE constraints -/

/-- the fixed rows of a position array (what `FixAtoms` pins) -/
def fixedRows (fixed : Fin n → Bool) (q : Arr n ℝ) : Arr n ℝ := fun i k => if fixed i then q i k else 0

theorem fixAtoms_pins (fixed : Fin n → Bool) (old new : Arr n ℝ) :
    fixedRows fixed ((fixAtoms fixed : Cons n ℝ).adjPos old new).get = fixedRows fixed old := by
  funext i k
  cases h : fixed i <;> simp [fixedRows, fixAtoms, h]

theorem com_real (m : Col n ℝ) (q : Arr n ℝ) (k : Fin 3) :
    (com m q).get k = (∑ i, m i * q i k) / ∑ i, m i := by
  fin_cases k <;> simp [com, sumFin_real]

theorem com_ext {m : Col n ℝ} {q q' : Arr n ℝ} (h : ∀ k, (com m q).get k = (com m q').get k) :
    com m q = com m q' :=
  V3.ext' (h 0) (h 1) (h 2)

theorem fixCom_pins (m : Col n ℝ) (hM : (∑ i, m i) ≠ 0) (old new : Arr n ℝ) :
    com m ((fixCom m).adjPos old new).get = com m old := by
  apply com_ext
  intro k
  have hk : ∀ i, ((fixCom m).adjPos old new).get i k = new i k + ((com m old).get k - (com m new).get k) := by
    intro i
    fin_cases k <;> simp [fixCom]
  rw [com_real, com_real]
  simp only [hk, com_real, mul_add, Finset.sum_add_distrib, ← Finset.sum_mul]
  field_simp
  ring

end Constr
