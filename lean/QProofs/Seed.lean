import QModel.Seed
import QProofs.MachineCall
/-! helper lemmas for C06: the run as a function of its stream, its tie to `MM.trial`, and what one displacement
    trial does with the part of the stream it consumes (core Lean only) -/
namespace Seed
open MM

/-! ## the run -/

theorem runFrom_length (cfg : Config) (n : Nat) (s : State) : (runFrom cfg n s).1.length = n := by
  induction n generalizing s with
  | zero => rfl
  | succ k ih => simp [runFrom, ih]

/-- running `k + m` steps is running `k` steps and then `m` more from where the first `k` ended -/
theorem runFrom_add (cfg : Config) (k m : Nat) (s : State) :
    runFrom cfg (k + m) s =
      ((runFrom cfg k s).1 ++ (runFrom cfg m (runFrom cfg k s).2).1, (runFrom cfg m (runFrom cfg k s).2).2) := by
  induction k generalizing s with
  | zero => simp [runFrom]
  | succ j ih =>
    have : j + 1 + m = (j + m) + 1 := by omega
    rw [this]
    simp only [runFrom, ih, List.cons_append]

/-- the event of step `k + 1` is the head of what follows the first `k` events -/
theorem run_split (cfg : Config) (st : Stream) (k m : Nat) (hk : cfg.steps = k + (m + 1)) :
    run cfg st = (runFrom cfg k (initState cfg st)).1 ++
      ((step cfg (runFrom cfg k (initState cfg st)).2).1 ::
        (runFrom cfg m (step cfg (runFrom cfg k (initState cfg st)).2).2).1) := by
  simp only [run, hk, runFrom_add, runFrom]

/-- two runs whose `k+1`-th events differ are different runs -/
theorem run_ne_of_step_ne (cfg : Config) (a b : Stream) (k m : Nat) (hk : cfg.steps = k + (m + 1))
    (h : (step cfg (runFrom cfg k (initState cfg a)).2).1 ≠ (step cfg (runFrom cfg k (initState cfg b)).2).1) :
    run cfg a ≠ run cfg b := by
  rw [run_split cfg a k m hk, run_split cfg b k m hk]
  intro heq
  have hlen : (runFrom cfg k (initState cfg a)).1.length = (runFrom cfg k (initState cfg b)).1.length := by
    rw [runFrom_length, runFrom_length]
  have h2 := (List.append_inj heq hlen).2
  exact h (List.cons.inj h2).1

/-! ## `SameButStream` -/

theorem SameButStream.refl (s : State) : SameButStream s s := ⟨rfl, rfl, rfl, rfl⟩

theorem SameButStream.symm {s t : State} (h : SameButStream s t) : SameButStream t s :=
  ⟨h.1.symm, h.2.1.symm, h.2.2.1.symm, h.2.2.2.symm⟩

theorem SameButStream.obj {s t : State} (h : SameButStream s t) (r : Nat) : s.obj r = t.obj r := by
  simp only [State.obj, h.2.1]

theorem draw_checks (i : Inputs) : i.draw.2.checks = i.checks ∧ i.draw.2.ops = i.ops := by
  unfold Inputs.draw; cases i.draws <;> exact ⟨rfl, rfl⟩

theorem op_checks (i : Inputs) : i.op.2.checks = i.checks ∧ i.op.2.draws = i.draws := by
  unfold Inputs.op; cases i.ops <;> exact ⟨rfl, rfl⟩

theorem choice_checks {α} (xs : List α) (d : α) (i : Inputs) :
    (choice xs d i).2.checks = i.checks ∧ (choice xs d i).2.ops = i.ops := by
  simp only [choice]; exact draw_checks i

/-- selecting the table entry changes nothing but the stream -/
theorem selectEntry_same (table : List Entry) (s : State) : SameButStream (selectEntry table s).2 s := by
  cases table with
  | nil => exact SameButStream.refl s
  | cons e es => exact ⟨rfl, rfl, rfl, (draw_checks s.inp).1⟩

theorem SameButStream.trans {s t u : State} (h1 : SameButStream s t) (h2 : SameButStream t u) : SameButStream s u :=
  ⟨h1.1.trans h2.1, h1.2.1.trans h2.2.1, h1.2.2.1.trans h2.2.2.1, h1.2.2.2.trans h2.2.2.2⟩

/-- before the first step two simulations of one configuration differ in nothing but their streams -/
theorem initState_same (cfg : Config) (a b : Stream) : SameButStream (initState cfg a) (initState cfg b) := by
  simp only [initState, validate]
  cases cfg.sim.ens <;> exact ⟨rfl, rfl, rfl, rfl⟩

/-! ## the step is `MM.trial` with the verdict computed from the stream -/

theorem saveState_inp (sim : Sim) (s : State) (i : Inputs) :
    saveState sim { s with inp := i } = { saveState sim s with inp := i } := by
  unfold saveState
  cases sim.ens <;> simp only [ctxSave]

theorem revertState_inp (sim : Sim) (s : State) (i : Inputs) :
    revertState sim { s with inp := i } = { revertState sim s with inp := i } := by
  unfold revertState
  cases sim.ens <;> simp only []

theorem saveState_atoms (sim : Sim) (s : State) : (saveState sim s).atoms = s.atoms := by
  unfold saveState
  cases sim.ens <;> simp only [ctxSave]

/-- `tryEntry` is one `MM.trial` of the M-machine whose criteria verdict is `accept` applied to the next draw of
    the stream, the atoms before the trial and the atoms after the move; the only difference is that the draw has
    been popped -/
theorem tryEntry_trial (cfg : Config) (e : Entry) (s0 : State) :
    let r := callTree e.tree s0
    let v := cfg.accept r.2.inp.draw.1 s0.atoms r.2.atoms
    let t := trial cfg.sim e.tree v s0
    (tryEntry cfg e s0).1 = { moved := some (e.name, t.1), atoms := t.2.atoms } ∧
    (tryEntry cfg e s0).2 = { t.2 with inp := if r.1 then r.2.inp.draw.2 else r.2.inp } := by
  simp only [tryEntry, trial]
  rcases hr : callTree e.tree s0 with ⟨ok, s1⟩
  cases ok with
  | false => simp
  | true =>
    simp only [if_true]
    by_cases hv : cfg.accept s1.inp.draw.1 s0.atoms s1.atoms = true
    · simp [hv, saveState_inp]
    · simp [hv, revertState_inp]

/-! ## one displacement trial and the part of the stream it consumes -/

/-- the label a displacement move without pre-selection picks from the stream in state `s` -/
def dispLabel (r : Nat) (s : State) : Int := (choice (uniqueLabels (s.obj r).labels) 0 s.inp).1

/-- the operation result it then applies -/
def dispOp (r : Nat) (s : State) : V3 := (choice (uniqueLabels (s.obj r).labels) 0 s.inp).2.op.1

/-- a displacement move with something to move, at least one attempt and a first `check_move` verdict "fine":
    the call succeeds and moves exactly the rows carrying the picked label by the drawn operation result -/
theorem dispCall_first_attempt (r : Nat) (s : State)
    (hpre : (s.obj r).toDisplace = none)
    (hu : (uniqueLabels (s.obj r).labels).isEmpty = false)
    (hatt : (s.obj r).maxAttempts ≠ 0)
    (hck : s.inp.check.1 = true) :
    (dispCall r s).1 = true ∧
    (dispCall r s).2.atoms =
      applyDisp s.atoms (whereEq (s.obj r).labels (dispLabel r s)) (dispOp r s) (s.obj r).applyConstraints := by
  rw [dispCall_eq]
  simp only [hpre, hu, Bool.false_eq_true, if_false]
  obtain ⟨n, hn⟩ := Nat.exists_eq_succ_of_ne_zero hatt
  have hck' : ((choice (uniqueLabels (s.obj r).labels) 0 s.inp).2.op.2).check.1 = true := by
    have h1 := (op_checks (choice (uniqueLabels (s.obj r).labels) 0 s.inp).2).1
    have h2 := (choice_checks (uniqueLabels (s.obj r).labels) (0 : Int) s.inp).1
    have : ((choice (uniqueLabels (s.obj r).labels) 0 s.inp).2.op.2).checks = s.inp.checks := h1.trans h2
    unfold Inputs.check at hck ⊢
    rw [this]
    cases hc : s.inp.checks with
    | nil => rfl
    | cons c cs => rw [hc] at hck; exact hck
  simp only [dispCore, attemptDisplacement, hn, attemptLoop, Option.getD_some, hck', if_true, dispLabel, dispOp]
  exact ⟨trivial, rfl⟩

theorem v3_add_ne_self (p d : V3) (h : d ≠ V3.zero) : V3.add p d ≠ p := by
  obtain ⟨p1, p2, p3⟩ := p
  obtain ⟨d1, d2, d3⟩ := d
  intro heq
  apply h
  simp only [V3.add, Prod.mk.injEq] at heq
  obtain ⟨h1, h2, h3⟩ := heq
  simp only [V3.zero, Prod.mk.injEq]
  omega

theorem v3_add_left_cancel (p d d' : V3) (h : V3.add p d = V3.add p d') : d = d' := by
  obtain ⟨p1, p2, p3⟩ := p
  obtain ⟨d1, d2, d3⟩ := d
  obtain ⟨e1, e2, e3⟩ := d'
  simp only [V3.add, Prod.mk.injEq] at h ⊢
  omega

/-- same selection, different operation results: a selected, unpinned row ends up in two different places -/
theorem applyDisp_ne_of_op (a : AtomsS) (mv : List Nat) (d d' : V3) (c : Bool) (i : Nat)
    (hi : i ∈ mv) (hlt : i < a.rows.length) (hf : (c && isFixed a i) = false) (hd : d ≠ d') :
    applyDisp a mv d c ≠ applyDisp a mv d' c := by
  intro heq
  have hr : a.rows[i]? = some a.rows[i] := List.getElem?_eq_getElem hlt
  have h1 := applyDisp_moved a mv d c i _ hi hf hr
  have h2 := applyDisp_moved a mv d' c i _ hi hf hr
  rw [heq, h2] at h1
  have h3 := congrArg Row.pos (Option.some.inj h1)
  exact hd (v3_add_left_cancel _ _ _ h3.symm)

/-- different selections: a row selected (and unpinned) on one side only is moved on one side only -/
theorem applyDisp_ne_of_sel (a : AtomsS) (mv mv' : List Nat) (d d' : V3) (c : Bool) (i : Nat)
    (hi : i ∈ mv) (hni : i ∉ mv') (hlt : i < a.rows.length) (hf : (c && isFixed a i) = false)
    (hd : d ≠ V3.zero) :
    applyDisp a mv d c ≠ applyDisp a mv' d' c := by
  intro heq
  have hr : a.rows[i]? = some a.rows[i] := List.getElem?_eq_getElem hlt
  have h1 := applyDisp_moved a mv d c i _ hi hf hr
  have h2 := applyDisp_untouched a mv' d' c i hni
  rw [heq, h2, hr] at h1
  have h3 := congrArg Row.pos (Option.some.inj h1)
  exact v3_add_ne_self _ _ hd h3.symm

/-! ## the seed -/

theorem effectiveSeedRaw_some (n fresh : Nat) : effectiveSeedRaw (some n) fresh = if n = 0 then fresh else n := by
  by_cases h : n = 0 <;> simp [effectiveSeedRaw, truthy, h]

end Seed
