import QProofs.MachineExch
/-! label bookkeeping (C05): `on_atoms_changed`, notification of each distinct object exactly once -/
namespace MM

theorem maxFrom_ge_acc (acc : Int) (l : List Int) : acc ≤ maxFrom acc l := by
  induction l generalizing acc with
  | nil => simp [maxFrom]
  | cons x xs ih =>
    simp only [maxFrom]
    by_cases h : x > acc
    · simp only [h, if_true]; have := ih x; omega
    · simp only [h, if_false]; exact ih acc

theorem maxFrom_ge_mem (acc : Int) (l : List Int) : ∀ x ∈ l, x ≤ maxFrom acc l := by
  induction l generalizing acc with
  | nil => simp
  | cons y ys ih =>
    intro x hx
    simp only [maxFrom]
    rcases List.mem_cons.mp hx with h | h
    · subst h
      by_cases hc : x > acc
      · simp only [hc, if_true]; exact maxFrom_ge_acc x ys
      · simp only [hc, if_false]; have := maxFrom_ge_acc acc ys; omega
    · exact ih _ x h

/-- an automatically assigned label is larger than every non-negative label in use -/
theorem newLabel_fresh (labels : List Int) (x : Int) (hx : x ∈ labels) (h0 : 0 ≤ x) :
    x < newLabel labels none := by
  have hm : x ∈ uniqueLabels labels := (uniqueLabels_mem labels x).2 ⟨hx, h0⟩
  unfold newLabel
  simp only []
  have hne : (uniqueLabels labels).isEmpty = false := by
    cases h : uniqueLabels labels with
    | nil => rw [h] at hm; cases hm
    | cons a as => rfl
  simp only [hne, Bool.false_eq_true, if_false]
  have := maxFrom_ge_mem (-1) (uniqueLabels labels) x hm
  omega

theorem newLabel_nonneg (labels : List Int) : 0 ≤ newLabel labels none := by
  unfold newLabel
  simp only []
  split
  · omega
  · have := maxFrom_ge_acc (-1) (uniqueLabels labels); omega

/-- a configured label (0 and negative ones included) is honoured verbatim -/
theorem newLabel_configured (labels : List Int) (l : Int) : newLabel labels (some l) = l := rfl

theorem deleteIdx_length (l : List Int) (idx : List Nat) (hn : idx.Nodup) (hv : ∀ i ∈ idx, i < l.length) :
    (deleteIdx l idx).length + idx.length = l.length := by
  have := deleteFrom_length idx hn l 0 (by simpa using hv)
  have hf : (idx.filter (fun i => decide (0 ≤ i))) = idx := by simp
  rw [hf] at this; exact this

/-- length bookkeeping of `on_atoms_changed`: `added` new rows, `removed` (distinct, valid) rows dropped -/
theorem onAtomsChanged_length (m : MoveObj) (added removed : List Nat) (hn : removed.Nodup)
    (hv : ∀ i ∈ removed, i < m.labels.length + added.length) :
    (onAtomsChangedObj m added removed).labels.length + removed.length = m.labels.length + added.length := by
  unfold onAtomsChangedObj
  simp only []
  generalize hl1 : (if added.isEmpty then m.labels
      else m.labels ++ List.replicate added.length (newLabel m.labels m.defaultLabel)) = l1
  have hlen1 : l1.length = m.labels.length + added.length := by
    rw [← hl1]; split
    · rename_i h; have : added = [] := by simpa using h
      simp [this]
    · simp
  by_cases hr : removed.isEmpty = true
  · have : removed = [] := by simpa using hr
    simp [hr, this, hlen1]
  · simp only [hr, Bool.false_eq_true, if_false]
    rw [← hlen1]
    exact deleteIdx_length l1 removed hn (by rw [hlen1]; exact hv)

/-- the atoms of one inserted particle all get one label; it is the configured label, or a fresh non-negative one -/
theorem onAtomsChanged_added_labels (m : MoveObj) (added : List Nat) (hne : added ≠ []) :
    (onAtomsChangedObj m added []).labels =
      m.labels ++ List.replicate added.length (newLabel m.labels m.defaultLabel) := by
  unfold onAtomsChangedObj
  have : added.isEmpty = false := by cases added <;> simp_all
  simp [this]

theorem onAtomsChanged_static (m : MoveObj) (added removed : List Nat) :
    (onAtomsChangedObj m added removed).kind = m.kind ∧
    (onAtomsChangedObj m added removed).defaultLabel = m.defaultLabel := ⟨rfl, rfl⟩

/-- every distinct reference is notified exactly once; everything else is untouched -/
theorem notifyRefs_spec (rs added removed : List Nat) (h : List MoveObj) (hn : rs.Nodup) (r : Nat) :
    (notifyRefs rs added removed h).getD r { kind := .user } =
      if r ∈ rs ∧ r < h.length ∧ labelBearing (h.getD r { kind := .user }).kind = true
      then onAtomsChangedObj (h.getD r { kind := .user }) added removed
      else h.getD r { kind := .user } := by
  induction rs generalizing h with
  | nil => simp [notifyRefs]
  | cons a as ih =>
    have hna : a ∉ as := (List.nodup_cons.mp hn).1
    have hn' : as.Nodup := (List.nodup_cons.mp hn).2
    simp only [notifyRefs]
    by_cases hlb : labelBearing (h.getD a { kind := .user }).kind = true
    · simp only [hlb, if_true]
      rw [ih _ hn']
      by_cases hra : r = a
      · subst hra
        simp only [hna, false_and, if_false, List.mem_cons, true_or, true_and]
        by_cases hlt : r < h.length
        · have hlb' : labelBearing h[r].kind = true := by
            simpa [List.getD_eq_getElem?_getD, hlt] using hlb
          simp [hlt, hlb', List.getD_eq_getElem?_getD, List.getElem?_set]
        · have : h.set r (onAtomsChangedObj (h.getD r { kind := .user }) added removed) = h := by
            apply List.set_eq_of_length_le; omega
          simp [hlt, this]
      · have hget : (h.set a (onAtomsChangedObj (h.getD a { kind := .user }) added removed)).getD r { kind := .user }
            = h.getD r { kind := .user } := by
          simp [List.getD_eq_getElem?_getD, List.getElem?_set, Ne.symm hra]
        simp only [hget, List.length_set, List.mem_cons, hra, false_or]
    · simp only [hlb, Bool.false_eq_true, if_false]
      rw [ih _ hn']
      by_cases hra : r = a
      · subst hra
        have hlb' : ¬ labelBearing (h.getD r { kind := .user }).kind = true := hlb
        simp only [hna, false_and, if_false, List.mem_cons, true_or, true_and, hlb', and_false]
        simp
      · simp [List.mem_cons, hra]

theorem nodup_eraseDups : ∀ (n : Nat) (l : List Nat), l.length ≤ n → l.eraseDups.Nodup
  | 0, l, h => by
    have : l = [] := List.eq_nil_of_length_eq_zero (by omega)
    subst this; simp
  | n+1, [], _ => by simp
  | n+1, a :: as, h => by
    rw [List.eraseDups_cons]
    have hlen : (as.filter fun b => !b == a).length ≤ n := by
      have := List.length_filter_le (fun b => !b == a) as
      simp at h; omega
    refine List.nodup_cons.mpr ⟨?_, nodup_eraseDups n _ hlen⟩
    intro hm
    have := List.mem_eraseDups.mp hm
    simp at this

theorem nodup_eraseDups' (l : List Nat) : l.eraseDups.Nodup := nodup_eraseDups l.length l (Nat.le_refl _)

end MM
