import QModel.Serial
/-! Helper lemmas for the serialization model: association lists built by `emitSect`, positional
    restoration of the settings, and the mutual induction over object trees (C08 / C07). -/
namespace Ser

variable {V : Type}

/-! ### `emitSect` as an association list -/

theorem keys_emitSect (sect : Sect) : ∀ (ss : List Setting) (vs : List V), vs.length = ss.length →
    keys (emitSect sect ss vs) = ss.filterMap (fun s => s.keyIn sect)
  | [], [], _ => rfl
  | [], _ :: _, h => by simp at h
  | _ :: _, [], h => by simp at h
  | s :: ss, v :: vs, h => by
    have ih := keys_emitSect sect ss vs (by simpa using h)
    cases hk : s.keyIn sect <;> simp [emitSect, hk, keys] at ih ⊢ <;> exact ih

/-- `lookup` in a section = the first setting (with its value) that emits under that key -/
theorem lookup_emitSect (sect : Sect) (k : String) : ∀ (ss : List Setting) (vs : List V),
    (emitSect sect ss vs).lookup k =
      ((ss.zip vs).find? (fun p => p.1.keyIn sect == some k)).map (·.2)
  | [], _ => by simp [emitSect]
  | _ :: _, [] => by simp [emitSect]
  | s :: ss, v :: vs => by
    have ih := lookup_emitSect sect k ss vs
    cases hk : s.keyIn sect with
    | none => simp [emitSect, hk, List.zip_cons_cons, ih]
    | some k' =>
      by_cases hkk : k = k'
      · subst hkk; simp [emitSect, hk, List.zip_cons_cons]
      · have h1 : (k == k') = false := by simpa using hkk
        have h2 : (some k' == some k) = false := by
          simp; exact fun h => hkk h.symm
        simp [emitSect, hk, List.lookup, h1, List.zip_cons_cons, h2, ih]

theorem map_eq_of_zip {α β} (f : α → β) : ∀ (l : List α) (vs : List β), vs.length = l.length →
    (∀ p ∈ l.zip vs, f p.1 = p.2) → l.map f = vs
  | [], [], _, _ => rfl
  | [], _ :: _, h, _ => by simp at h
  | _ :: _, [], h, _ => by simp at h
  | a :: l, v :: vs, h, hp => by
    have h0 : f a = v := hp (a, v) (by simp)
    have ih := map_eq_of_zip f l vs (by simpa using h) (fun p hm => hp p (by simp [hm]))
    simp [h0, ih]

/-- in a zip with a list whose images under `g` are pairwise distinct, the first component's image fixes the pair -/
theorem zip_unique {α β γ} (g : α → γ) : ∀ (l : List α) (vs : List β), (l.map g).Nodup →
    ∀ p ∈ l.zip vs, ∀ q ∈ l.zip vs, g p.1 = g q.1 → p = q
  | [], _, _, p, hp, _, _, _ => by simp at hp
  | _ :: _, [], _, p, hp, _, _, _ => by simp at hp
  | a :: l, v :: vs, hn, p, hp, q, hq, hg => by
    simp only [List.map_cons, List.nodup_cons] at hn
    simp only [List.zip_cons_cons, List.mem_cons] at hp hq
    have memfst : ∀ r ∈ l.zip vs, g r.1 ∈ l.map g := fun r hr =>
      List.mem_map.mpr ⟨r.1, (List.of_mem_zip hr).1, rfl⟩
    rcases hp with hp | hp <;> rcases hq with hq | hq
    · rw [hp, hq]
    · exfalso; subst hp; exact hn.1 (hg ▸ memfst q hq)
    · exfalso; subst hq; exact hn.1 (hg ▸ memfst p hp)
    · exact zip_unique g l vs hn.2 p hp q hq hg

/-! ### what well-formedness says, as propositions -/

structure WF (reg : Reg) (c : Spec) : Prop where
  registered : reg.lookup c.name = some c
  known : c.impl ≠ .unknown
  names : (c.settings.map (·.name)).Nodup
  attrs : (c.settings.map (fun s => (s.onCtx, s.attr))).Nodup
  slotNames : (c.slots.map (·.name)).Nodup
  settings : ∀ s ∈ c.settings, s.emit ≠ [] ∧ ∀ pl ∈ s.emit, placeOk c s pl = true
  slots : ∀ sl ∈ c.slots, Slot.wf c sl = true
  disjoint : ∀ sl ∈ c.slots, ∀ s ∈ c.settings, s.name ≠ sl.name
  ctor : ctorWf c = true
  top : topWf c = true

theorem wf_iff (reg : Reg) (c : Spec) : wf reg c = true ↔ WF reg c := by
  constructor
  · intro h
    simp only [wf, Bool.and_eq_true, decide_eq_true_eq, List.all_eq_true, Spec.registeredOk,
      beq_iff_eq, bne_iff_ne, ne_eq, Setting.wf, List.isEmpty_eq_false_iff,
      List.any_eq_false, Bool.not_eq_eq_eq_not, Bool.not_true] at h
    obtain ⟨⟨⟨⟨⟨⟨⟨⟨⟨h1, h2⟩, h3⟩, h4⟩, h5⟩, h6⟩, h7⟩, h8⟩, h9⟩, h10⟩ := h
    exact ⟨h1, h2, h3, h4, h5, fun s hs => ⟨(h6 s hs).1, (h6 s hs).2⟩, h7,
      fun sl hsl s hs => by simpa using h8 sl hsl s hs, h9, h10⟩
  · intro h
    simp only [wf, Bool.and_eq_true, decide_eq_true_eq, List.all_eq_true, Spec.registeredOk,
      beq_iff_eq, bne_iff_ne, ne_eq, Setting.wf, List.isEmpty_eq_false_iff,
      List.any_eq_false, Bool.not_eq_eq_eq_not, Bool.not_true]
    exact ⟨⟨⟨⟨⟨⟨⟨⟨⟨h.registered, h.known⟩, h.names⟩, h.attrs⟩, h.slotNames⟩,
      fun s hs => ⟨(h.settings s hs).1, (h.settings s hs).2⟩⟩, h.slots⟩,
      fun sl hsl s hs => by simpa using h.disjoint sl hsl s hs⟩, h.ctor⟩, h.top⟩

/-! ### restoring one setting -/

theorem keyIn_mem {s : Setting} {sect : Sect} {k : String} (h : s.keyIn sect = some k) :
    (sect, k) ∈ s.emit := by
  unfold Setting.keyIn at h
  cases hf : s.emit.find? (fun p => p.1 == sect) with
  | none => simp [hf] at h
  | some pl =>
    simp only [hf, Option.map_some, Option.some.injEq] at h
    have hm := List.mem_of_find?_eq_some hf
    have hp := List.find?_some hf
    have : pl = (sect, k) := by
      cases pl with | mk a b => simp at hp h; simp [hp, h]
    exact this ▸ hm

theorem keyIn_some_of_mem {s : Setting} {sect : Sect} {k : String} (h : (sect, k) ∈ s.emit) :
    ∃ k', s.keyIn sect = some k' := by
  unfold Setting.keyIn
  cases hf : s.emit.find? (fun p => p.1 == sect) with
  | none =>
    have := List.find?_eq_none.mp hf (sect, k) h
    simp at this
  | some pl => exact ⟨pl.2, rfl⟩

/-- if only `(s, v)` may emit under key `k` in a section, the lookup gives `v` exactly when `s` does -/
theorem lookup_owner (sect : Sect) (k : String) (ss : List Setting) (vs : List V) (s : Setting) (v : V)
    (hm : (s, v) ∈ ss.zip vs)
    (own : ∀ q ∈ ss.zip vs, q.1.keyIn sect = some k → q = (s, v)) :
    (emitSect sect ss vs).lookup k = if s.keyIn sect = some k then some v else none := by
  rw [lookup_emitSect]
  cases hf : (ss.zip vs).find? (fun p => p.1.keyIn sect == some k) with
  | none =>
    have := List.find?_eq_none.mp hf (s, v) hm
    have hne : ¬ s.keyIn sect = some k := by simpa using this
    simp [hne]
  | some q =>
    have hq := List.mem_of_find?_eq_some hf
    have hp : q.1.keyIn sect = some k := by simpa using List.find?_some hf
    have := own q hq hp
    subst this
    simp [hp]

theorem topKey_name {a b : Setting} {k : String} (ha : topKeyOf a = some k) (hb : topKeyOf b = some k) :
    a.name = b.name := by
  unfold topKeyOf at ha hb
  split at ha <;> split at hb <;> simp_all

/-- after `from_dict` of `to_dict`, every setting of a well-formed class has its old value -/
theorem restore1_emit (reg : Reg) (scale : V → V) (dflt : Spec → Setting → V) (c : Spec) (h : WF reg c)
    (vals : List V) (s : Setting) (v : V) (hm : (s, v) ∈ c.settings.zip vals) :
    restore1 scale dflt c (emitSect .kwargs c.settings vals) (emitSect .attributes c.settings vals)
      (emitSect .context c.settings vals) (emitSect .top c.settings vals) s = v := by
  have hs : s ∈ c.settings := (List.of_mem_zip hm).1
  obtain ⟨hne, hpl⟩ := h.settings s hs
  have okOf : ∀ q ∈ c.settings.zip vals, ∀ sect k, q.1.keyIn sect = some k → placeOk c q.1 (sect, k) = true :=
    fun q hq sect k hk => (h.settings q.1 (List.of_mem_zip hq).1).2 _ (keyIn_mem hk)
  -- kwargs
  have hkw := lookup_owner .kwargs s.name c.settings vals s v hm (by
    intro q hq hk
    have := okOf q hq _ _ hk
    simp only [placeOk, Bool.and_eq_true, beq_iff_eq] at this
    exact zip_unique (·.name) _ _ h.names q hq (s, v) hm this.1.1.2.symm)
  -- attributes
  have hat := lookup_owner .attributes s.attr c.settings vals s v hm
  -- context
  have hcx := lookup_owner .context s.attr c.settings vals s v hm
  -- the four sources
  have own_at : s.onCtx = false → ∀ q ∈ c.settings.zip vals, q.1.keyIn .attributes = some s.attr → q = (s, v) := by
    intro hso q hq hk
    have := okOf q hq _ _ hk
    simp only [placeOk, Bool.and_eq_true, beq_iff_eq, Bool.not_eq_true'] at this
    exact zip_unique (fun s => (s.onCtx, s.attr)) _ _ h.attrs q hq (s, v) hm
      (by simp [this.1.1.2, hso, this.1.2.symm])
  have own_cx : s.onCtx = true → ∀ q ∈ c.settings.zip vals, q.1.keyIn .context = some s.attr → q = (s, v) := by
    intro hso q hq hk
    have := okOf q hq _ _ hk
    simp only [placeOk, Bool.and_eq_true, beq_iff_eq] at this
    exact zip_unique (fun s => (s.onCtx, s.attr)) _ _ h.attrs q hq (s, v) hm
      (by simp [this.1.2, hso, this.2.symm])
  have own_tp : ∀ k, topKeyOf s = some k → ∀ q ∈ c.settings.zip vals, q.1.keyIn .top = some k → q = (s, v) := by
    intro k hk0 q hq hk
    have := okOf q hq _ _ hk
    simp only [placeOk, Bool.and_eq_true, beq_iff_eq] at this
    exact zip_unique (·.name) _ _ h.names q hq (s, v) hm (topKey_name this.2 hk0)
  -- each source is `some v` or `none`
  have e_kw : srcKw scale (emitSect .kwargs c.settings vals) s
      = if s.isParam ∧ s.keyIn .kwargs = some s.name then some v else none := by
    unfold srcKw
    rw [hkw]
    by_cases hp : s.isParam = true <;> by_cases hk : s.keyIn .kwargs = some s.name <;> simp [hp, hk]
    have := hpl _ (keyIn_mem hk)
    simp only [placeOk, Bool.and_eq_true, beq_iff_eq] at this
    simp [this.1.2, Conv.apply]
  have e_tp : srcTop c (emitSect .top c.settings vals) s
      = if c.impl.readsTop ∧ ∃ k, topKeyOf s = some k ∧ s.keyIn .top = some k then some v else none := by
    unfold srcTop
    by_cases hr : c.impl.readsTop = true
    · cases ht : topKeyOf s with
      | none => simp [hr]
      | some k =>
        simp only [hr, if_true, true_and, Option.bind_some]
        rw [lookup_owner .top k c.settings vals s v hm (own_tp k ht)]
        by_cases hk : s.keyIn .top = some k <;> simp [hk]
    · simp [hr]
  have e_at : srcAt c (emitSect .attributes c.settings vals) s
      = if (c.impl.setsAttributes && !s.onCtx) = true ∧ s.keyIn .attributes = some s.attr then some v else none := by
    by_cases hg : (c.impl.setsAttributes && !s.onCtx) = true
    · have hso : s.onCtx = false := by simp at hg; exact hg.2
      unfold srcAt
      rw [if_pos hg, hat (own_at hso)]
      by_cases hk : s.keyIn .attributes = some s.attr <;> simp [hk, hg]
    · simp [srcAt, hg]
  have e_cx : srcCx c (emitSect .context c.settings vals) s
      = if (c.impl.readsContext && s.onCtx) = true ∧ s.keyIn .context = some s.attr then some v else none := by
    by_cases hg : (c.impl.readsContext && s.onCtx) = true
    · have hso : s.onCtx = true := by simp at hg; exact hg.2
      unfold srcCx
      rw [if_pos hg, hcx (own_cx hso)]
      by_cases hk : s.keyIn .context = some s.attr <;> simp [hk, hg]
    · simp [srcCx, hg]
  simp only [restore1, e_kw, e_tp, e_at, e_cx]
  -- at least one source is present: the first emitted place
  obtain ⟨pl, hplm⟩ := List.exists_mem_of_ne_nil _ hne
  obtain ⟨k', hk'⟩ := keyIn_some_of_mem (s := s) (sect := pl.1) (k := pl.2) hplm
  have hok := hpl _ (keyIn_mem hk')
  cases hsect : pl.1 with
  | kwargs =>
    rw [hsect] at hk' hok
    simp only [placeOk, Bool.and_eq_true, beq_iff_eq] at hok
    have hk : s.keyIn .kwargs = some s.name := by rw [hk', hok.1.1.2]
    have hp : s.isParam = true := hok.1.1.1
    simp only [hp, hk, and_self, if_true]
    split <;> split <;> split <;> simp
  | attributes =>
    rw [hsect] at hk' hok
    simp only [placeOk, Bool.and_eq_true, beq_iff_eq, Bool.not_eq_true'] at hok
    have hk : s.keyIn .attributes = some s.attr := by rw [hk', hok.1.2]
    have hg : (c.impl.setsAttributes && !s.onCtx) = true := by simp [hok.1.1.1, hok.1.1.2]
    simp only [hg, hk, and_self, if_true]
    split <;> simp
  | context =>
    rw [hsect] at hk' hok
    simp only [placeOk, Bool.and_eq_true, beq_iff_eq] at hok
    have hk : s.keyIn .context = some s.attr := by rw [hk', hok.2]
    have hg : (c.impl.readsContext && s.onCtx) = true := by simp [hok.1.1, hok.1.2]
    simp only [hg, hk, and_self, if_true]
    simp
  | top =>
    rw [hsect] at hk' hok
    simp only [placeOk, Bool.and_eq_true, beq_iff_eq] at hok
    have hex : c.impl.readsTop = true ∧ ∃ k, topKeyOf s = some k ∧ s.keyIn .top = some k :=
      ⟨hok.1, k', hok.2, hk'⟩
    simp only [hex, and_self, if_true]
    split <;> split <;> simp

/-! ### the checks of `from_dict` pass on what `to_dict` of a well-formed class emits -/

theorem ctorCheck_ok (c : Spec) (ks : List String) (h1 : ∀ k ∈ ks, c.ctorAccepts.contains k = true)
    (h2 : ∀ r ∈ c.ctorRequired, ks.contains r = true) : ctorCheck c ks = .ok () := by
  unfold ctorCheck
  have e1 : ks.find? (fun k => !c.ctorAccepts.contains k) = none :=
    List.find?_eq_none.mpr (fun k hk => by simpa using h1 k hk)
  have e2 : c.ctorRequired.find? (fun r => !ks.contains r) = none :=
    List.find?_eq_none.mpr (fun r hr => by simpa using h2 r hr)
  rw [e1, e2]

theorem mem_sectKeys {c : Spec} {sect : Sect} {k : String} (h : k ∈ sectKeys c sect) :
    ∃ s ∈ c.settings, (sect, k) ∈ s.emit := by
  unfold sectKeys at h
  obtain ⟨s, hs, hk⟩ := List.mem_filterMap.mp h
  exact ⟨s, hs, keyIn_mem hk⟩

theorem slot?_mem {c : Spec} {n : String} {sl : Slot} (h : c.slot? n = some sl) : sl ∈ c.slots ∧ sl.name = n := by
  unfold Spec.slot? at h
  exact ⟨List.mem_of_find?_eq_some h, by simpa using List.find?_some h⟩

theorem slotWf_emit {c : Spec} {sl : Slot} (h : Slot.wf c sl = true) : sl.handled = true ∧ sl.emit.isSome = true := by
  unfold Slot.wf at h
  simp only [Bool.and_eq_true] at h
  refine ⟨h.1.1.1, ?_⟩
  have := h.2
  cases hs : sl.shape <;> cases he : sl.emit <;> simp [hs, he] at this ⊢

theorem slotWf_kw {c : Spec} {sl : Slot} (h : Slot.wf c sl = true) (he : sl.emit = some .kwargs) :
    c.ctorAccepts.contains sl.name = true := by
  unfold Slot.wf at h
  simp only [Bool.and_eq_true] at h
  have := h.2
  cases hs : sl.shape <;> simp [hs, he] at this <;> simpa using this

/-- the slots of the children of a well-typed object -/
theorem kids_slot {reg : Reg} {c : Spec} : ∀ (ks : Kids V), Kids.conf reg c ks = true →
    ∀ n ∈ ks.slots, ∃ sl, c.slot? n = some sl
  | .nil, _, n, hn => by simp [Kids.slots] at hn
  | .cons slot key o rest, h, n, hn => by
    rw [Kids.conf] at h
    simp only [Bool.and_eq_true] at h
    simp only [Kids.slots, List.mem_cons] at hn
    rcases hn with hn | hn
    · subst hn
      cases hs : c.slot? n with
      | none => simp [hs] at h
      | some sl => exact ⟨sl, rfl⟩
    · exact kids_slot rest h.2 n hn

theorem toDKids_slots {reg : Reg} {c : Spec} (hc : WF reg c) : ∀ (ks : Kids V), Kids.conf reg c ks = true →
    (toDKids c ks).slots = ks.slots
  | .nil, _ => by simp [toDKids, Kids.slots, DKids.slots]
  | .cons slot key o rest, h => by
    have hsl := kids_slot (.cons slot key o rest) h slot (by simp [Kids.slots])
    obtain ⟨sl, hsl⟩ := hsl
    have hem : c.slotEmitted slot = true := by
      unfold Spec.slotEmitted; rw [hsl]; exact (slotWf_emit (hc.slots sl (slot?_mem hsl).1)).2
    rw [Kids.conf] at h
    simp only [Bool.and_eq_true] at h
    rw [toDKids, if_pos hem, DKids.slots, Kids.slots, toDKids_slots hc rest h.2]

theorem pre_ok {reg : Reg} (c : Spec) (hc : WF reg c) (vals : List V) (hlen : vals.length = c.settings.length)
    (slots : List String) (hsl : ∀ n ∈ slots, ∃ sl, c.slot? n = some sl)
    (hreq : ∀ r ∈ c.ctorRequired, (sectKeys c .kwargs).contains r = true ∨ (kwSlotKeys c slots).contains r = true) :
    (do topCheck c (keys (emitSect (V := V) .top c.settings vals))
        ctorCheck c (keys (emitSect .kwargs c.settings vals) ++ kwSlotKeys c slots ++ c.impl.supplies) : Except Err Unit) = .ok () := by
  rw [keys_emitSect _ _ _ hlen, keys_emitSect _ _ _ hlen]
  have ht : topCheck c (c.settings.filterMap fun s => s.keyIn .top) = .ok () := by
    unfold topCheck
    have := hc.top
    unfold topWf at this
    by_cases hr : c.impl.readsTop = true
    · simp only [hr, Bool.not_true, Bool.false_or, Bool.and_eq_true] at this
      simp only [sectKeys] at this
      simp only [hr, if_true, this.1, this.2, Bool.not_true, Bool.false_eq_true, if_false]
    · simp [hr]
  rw [ht]
  show ctorCheck c _ = .ok ()
  apply ctorCheck_ok
  · intro k hk
    rcases List.mem_append.mp hk with hk | hk
    rotate_left
    · have := hc.ctor
      unfold ctorWf at this
      simp only [Bool.and_eq_true, List.all_eq_true] at this
      exact this.1.2 k hk
    rcases List.mem_append.mp hk with hk | hk
    · obtain ⟨s, hs, hm⟩ := mem_sectKeys (c := c) (sect := .kwargs) hk
      have := (hc.settings s hs).2 _ hm
      simp only [placeOk, Bool.and_eq_true] at this
      exact this.2
    · unfold kwSlotKeys at hk
      obtain ⟨hk1, hk2⟩ := List.mem_filter.mp hk
      obtain ⟨sl, hs⟩ := hsl k hk1
      rw [hs] at hk2
      have := slotWf_kw (hc.slots sl (slot?_mem hs).1) (by simpa using hk2)
      rw [(slot?_mem hs).2] at this
      exact this
  · intro r hr
    rcases hreq r hr with h | h
    · simp only [sectKeys] at h
      simp only [List.contains_eq_mem, List.mem_append, decide_eq_true_eq] at h ⊢
      exact Or.inl (Or.inl h)
    · simp only [List.contains_eq_mem, List.mem_append, decide_eq_true_eq] at h ⊢
      exact Or.inl (Or.inr h)

theorem post_ok {reg : Reg} (c : Spec) (hc : WF reg c) (vals : List V) (hlen : vals.length = c.settings.length) :
    attrCheck c (keys (emitSect (V := V) .attributes c.settings vals)) = .ok () := by
  rw [keys_emitSect _ _ _ hlen]
  unfold attrCheck
  by_cases hg : (c.impl.setsAttributes && !c.openAttrs) = true
  · rw [if_pos hg]
    have : (c.settings.filterMap fun s => s.keyIn .attributes).find? (fun k => !c.settable.contains k) = none := by
      apply List.find?_eq_none.mpr
      intro k hk
      obtain ⟨s, hs, hm⟩ := mem_sectKeys (c := c) (sect := .attributes) hk
      have := (hc.settings s hs).2 _ hm
      simp only [placeOk, Bool.and_eq_true, Bool.or_eq_true] at this
      simp only [Bool.and_eq_true, Bool.not_eq_true'] at hg
      rcases this.2 with h | h
      · rw [hg.2] at h; cases h
      · simpa using h
    rw [this]
  · rw [if_neg hg]

/-! ### the round trip, by mutual induction over the object tree -/

theorem conf_mk {reg : Reg} {c : Spec} {vals : List V} {kids : Kids V} (h : Obj.conf reg (.mk c vals kids) = true) :
    WF reg c ∧ vals.length = c.settings.length ∧ Kids.conf reg c kids = true ∧
    ∀ r ∈ c.ctorRequired, (sectKeys c .kwargs).contains r = true ∨ (kwSlotKeys c kids.slots).contains r = true := by
  rw [Obj.conf] at h
  simp only [Bool.and_eq_true, beq_iff_eq, List.all_eq_true, Bool.or_eq_true] at h
  exact ⟨(wf_iff reg c).mp h.1.1.1, h.1.1.2, h.1.2, h.2⟩

mutual
  theorem roundtrip_obj (reg : Reg) (scale : V → V) (dflt : Spec → Setting → V) :
      ∀ (o : Obj V), Obj.conf reg o = true → fromDict reg scale dflt (toDict o) = .ok o
    | .mk c vals kids, h => by
      obtain ⟨hc, hlen, hk, hreq⟩ := conf_mk h
      have hkids := roundtrip_kids reg scale dflt c hc kids hk
      have hslots := toDKids_slots hc kids hk
      have hpre := pre_ok c hc vals hlen kids.slots (kids_slot kids hk) hreq
      have hpost := post_ok c hc vals hlen
      have hvals : c.settings.map (restore1 scale dflt c (emitSect .kwargs c.settings vals)
          (emitSect .attributes c.settings vals) (emitSect .context c.settings vals)
          (emitSect .top c.settings vals)) = vals :=
        map_eq_of_zip _ _ _ hlen (fun p hp => restore1_emit reg scale dflt c hc vals p.1 p.2 hp)
      have hknown : (c.impl == Impl.unknown) = false := by simpa using hc.known
      rw [toDict, fromDict, hc.registered]
      simp only [hknown, Bool.false_eq_true, if_false, hslots, hpre, hpost, hkids, hvals]
      split <;> rfl
  theorem roundtrip_kids (reg : Reg) (scale : V → V) (dflt : Spec → Setting → V) (c : Spec) (hc : WF reg c) :
      ∀ (ks : Kids V), Kids.conf reg c ks = true → fromKids reg scale dflt c (toDKids c ks) = .ok ks
    | .nil, _ => by simp [toDKids, fromKids]
    | .cons slot key o rest, h => by
      obtain ⟨sl, hsl⟩ := kids_slot (.cons slot key o rest) h slot (by simp [Kids.slots])
      have hslw := hc.slots sl (slot?_mem hsl).1
      have hem : c.slotEmitted slot = true := by
        unfold Spec.slotEmitted; rw [hsl]; exact (slotWf_emit hslw).2
      rw [Kids.conf] at h
      simp only [Bool.and_eq_true, hsl] at h
      have ho := roundtrip_obj reg scale dflt o h.1.2
      have hr := roundtrip_kids reg scale dflt c hc rest h.2
      have hname : (toDict o).name = o.spec.name := by cases o; simp [toDict, Dict.name, Obj.spec]
      have hreg : reg.lookup o.spec.name = some o.spec := by
        cases o with | mk c' v' k' => exact (conf_mk h.1.2).1.registered
      rw [toDKids, if_pos hem, fromKids, hsl]
      simp only [(slotWf_emit hslw).1, Bool.not_true, Bool.false_eq_true, if_false, hname, hreg, h.1.1, ho, hr]
end

end Ser
