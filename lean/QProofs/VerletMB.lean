import QProofs.Verlet
import Mathlib.Probability.Moments.Variance
import Mathlib.Probability.Distributions.Gaussian.Real

/-! Helper lemmas for the Maxwell–Boltzmann part of C14. -/

namespace Verlet
open VecFn Finset MeasureTheory ProbabilityTheory

variable {n : ℕ}

theorem mbDraw_real (m : Col n ℝ) (kT : ℝ) (z : Arr n ℝ) (i : Fin n) (k : Fin 3) :
    mbDraw m kT z i k = z i k * Real.sqrt (m i * kT) := rfl

theorem eps15_real : (eps15 : ℝ) = 1 / 10 ^ 15 := by
  simp [eps15]; norm_num

/-- rescaling all momenta by `c` multiplies the kinetic energy by `c²` -/
theorem ekin_scale (m : Col n ℝ) (p : Arr n ℝ) (c : ℝ) :
    ekin m (fun i k => p i k * c) = c ^ 2 * ekin m p := by
  simp only [ekin, sumAll_real, Num.real_half, Finset.mul_sum]
  refine Finset.sum_congr rfl (fun i _ => Finset.sum_congr rfl (fun a _ => ?_))
  ring

/-- the momenta left by `maxwell_boltzmann_distribution` when no constraint is attached -/
theorem maxwellBoltzmann_none (m : Col n ℝ) (kT ndof : ℝ) (forced : Bool) (q z : Arr n ℝ) :
    maxwellBoltzmann Cons.none m kT ndof forced q z
      = fun i k => mbDraw m kT z i k * mbScale kT ndof forced (ekin m (mbDraw m kT z)) := by
  simp [maxwellBoltzmann, maxwellBoltzmannT]

theorem mbScale_not_forced (kT ndof ke : ℝ) : mbScale kT ndof false ke = 1 := by
  simp [mbScale]

/-- `scale² = T / (T_real + 1e-15)` -/
theorem mbScale_forced_sq (kT ndof ke : ℝ) (h : 0 ≤ kT / (2 * ke / ndof + 1 / 10 ^ 15)) :
    mbScale kT ndof true ke ^ 2 = kT / (2 * ke / ndof + 1 / 10 ^ 15) := by
  simp only [mbScale, if_true, Num.real_sqrt, Num.real_two, eps15_real]
  exact Real.sq_sqrt h

/-- law of one momentum component when the normal draw has law `N(0,1)` -/
theorem gaussian_scaled (c : ℝ) (hc : 0 ≤ c) :
    (gaussianReal 0 1).map (fun z => z * Real.sqrt c) = gaussianReal 0 ⟨c, hc⟩ := by
  rw [gaussianReal_map_mul_const]
  congr 1
  · simp
  · ext
    simp [Real.sq_sqrt hc]
    rfl

end Verlet
