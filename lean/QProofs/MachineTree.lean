import QProofs.MachinePos
/-! call-level facts for cell / Hamiltonian / user moves and for composites without exchange members -/
namespace MM

theorem cellCall_spec (r : Nat) (s : State) :
    (cellCall r s).2.heap = s.heap ∧ (cellCall r s).2.ctx = s.ctx ∧
    (((cellCall r s).1 = false ∧ (cellCall r s).2.atoms = s.atoms) ∨
     ((cellCall r s).1 = true ∧ ∃ f, (cellCall r s).2.atoms = deform s.atoms f (s.obj r).scaleAtoms)) := by
  have h := cellLoop_spec (s.obj r).scaleAtoms (s.obj r).maxAttempts s.atoms s.inp
  simp only [cellCall]
  rcases hres : cellLoop (s.obj r).scaleAtoms s.atoms.cell (positions s.atoms.rows) (s.obj r).maxAttempts s.atoms s.inp
    with ⟨ok, a, i⟩
  simp only [hres] at h
  refine ⟨?_, ?_, ?_⟩ <;> first | trivial | rfl | exact h

theorem hamCall_spec (r : Nat) (s : State) :
    (hamCall r s).2.heap = s.heap ∧ (hamCall r s).2.ctx = s.ctx ∧
    (((hamCall r s).1 = false ∧ (hamCall r s).2.atoms = s.atoms) ∨
     ((hamCall r s).1 = true ∧ AuxOnly s.atoms (hamCall r s).2.atoms)) := by
  have h := hamLoop_spec (s.obj r).maxAttempts s.atoms s.inp
  simp only [hamCall]
  rcases hres : hamLoop (positions s.atoms.rows) (momenta s.atoms.rows) (s.obj r).maxAttempts s.atoms s.inp
    with ⟨ok, a, i⟩
  simp only [hres] at h
  refine ⟨?_, ?_, ?_⟩ <;> first | trivial | rfl | exact h

/-- kinds whose call changes positions only -/
def posKind (k : Kind) : Bool := k = .disp || k = .user

theorem leafCall_keeps (r : Nat) (s : State) (hr : r < s.heap.length) (hk : posKind (s.obj r).kind = true) :
    CallKeeps s (leafCall r s).2 := by
  unfold leafCall
  cases hkk : (s.obj r).kind <;> simp [posKind, hkk] at hk
  · exact dispCall_keeps r s hr
  · exact CallKeeps.refl s

/-- a failed position-only leaf leaves the atoms exactly as they were -/
theorem leafCall_fail (r : Nat) (s : State) (hr : r < s.heap.length) (hk : posKind (s.obj r).kind = true)
    (hf : (leafCall r s).1 = false) : (leafCall r s).2.atoms = s.atoms := by
  unfold leafCall at hf ⊢
  cases hkk : (s.obj r).kind <;> simp [posKind, hkk] at hk
  · simp only [hkk] at hf ⊢
    exact ((dispCall_spec r s hr).fail_atoms hf).1
  · rfl

theorem plainLoop_keeps (rs : List Nat) (ok : Bool) (s : State)
    (hrs : ∀ r ∈ rs, r < s.heap.length) (hk : ∀ r ∈ rs, posKind (s.obj r).kind = true) :
    CallKeeps s (plainLoop rs ok s).2 := by
  induction rs generalizing ok s with
  | nil => exact CallKeeps.refl s
  | cons r rs ih =>
    have hr : r < s.heap.length := hrs r (by simp)
    simp only [plainLoop]
    have k1 := leafCall_keeps r s hr (hk r (by simp))
    rcases hlc : leafCall r s with ⟨ok1, s1⟩
    rw [hlc] at k1
    simp only []
    refine k1.trans (ih _ s1 ?_ ?_)
    · intro r' h'; rw [k1.heap_len]; exact hrs r' (by simp [h'])
    · intro r' h'; rw [k1.kinds r']; exact hk r' (by simp [h'])

end MM

namespace MM

theorem plainLoop_fail (rs : List Nat) (s : State)
    (hrs : ∀ r ∈ rs, r < s.heap.length) (hk : ∀ r ∈ rs, posKind (s.obj r).kind = true) (ok : Bool)
    (hf : (plainLoop rs ok s).1 = false) : ok = false ∧ (plainLoop rs ok s).2.atoms = s.atoms := by
  induction rs generalizing ok s with
  | nil => exact ⟨by simpa [plainLoop] using hf, rfl⟩
  | cons r rs ih =>
    have hr : r < s.heap.length := hrs r (by simp)
    simp only [plainLoop] at hf ⊢
    have k1 := leafCall_keeps r s hr (hk r (by simp))
    have hfail := leafCall_fail r s hr (hk r (by simp))
    rcases hlc : leafCall r s with ⟨ok1, s1⟩
    rw [hlc] at k1 hfail hf
    simp only [] at hf hfail ⊢
    have := ih s1 (fun r' h' => by rw [k1.heap_len]; exact hrs r' (by simp [h']))
      (fun r' h' => by rw [k1.kinds r']; exact hk r' (by simp [h'])) (ok || ok1) hf
    have hb : ok = false ∧ ok1 = false := by
      cases ok <;> cases ok1 <;> simp_all
    exact ⟨hb.1, by rw [this.2, hfail hb.2]⟩

theorem compDispLoop_count (rs : List Nat) (acc : List (Option Int)) (s : State)
    (hrs : ∀ r ∈ rs, r < s.heap.length) :
    (acc.filterMap id).length ≤ ((compDispLoop rs acc s).1.filterMap id).length ∧
    (((compDispLoop rs acc s).1.filterMap id).length = (acc.filterMap id).length →
      (compDispLoop rs acc s).2.atoms = s.atoms) := by
  induction rs generalizing acc s with
  | nil => simp [compDispLoop]
  | cons r rs ih =>
    have hr : r < s.heap.length := hrs r (by simp)
    simp only [compDispLoop]
    split
    · have := ih (acc ++ [none]) (s.setObj r { s.obj r with toDisplace := none })
        (fun r' h' => by simp only [State.setObj, List.length_set]; exact hrs r' (by simp [h']))
      simpa [State.setObj] using this
    · rcases hch : choice (setdiff (uniqueLabels (s.obj r).labels) (acc.filterMap id)) 0 s.inp with ⟨l, i⟩
      simp only []
      generalize hs1 : (({ s with inp := i } : State).setObj r { s.obj r with toDisplace := some l }) = s1
      have hlen1 : s1.heap.length = s.heap.length := by rw [← hs1]; simp [State.setObj]
      have hat1 : s1.atoms = s.atoms := by rw [← hs1]; rfl
      have hr1 : r < s1.heap.length := by rw [hlen1]; exact hr
      have hsp := dispCall_spec r s1 hr1
      rcases hdc : dispCall r s1 with ⟨ok, s2⟩
      rw [hdc] at hsp
      simp only []
      have hrs2 : ∀ r' ∈ rs, r' < s2.heap.length := by
        intro r' h'; rw [hsp.heap_len, hlen1]; exact hrs r' (by simp [h'])
      cases ok with
      | false =>
        have := ih (acc ++ [none]) s2 hrs2
        have ha2 : s2.atoms = s.atoms := by rw [(hsp.fail_atoms rfl).1, hat1]
        simp only [Bool.false_eq_true, if_false]
        simp only [List.filterMap_append, List.filterMap_cons, id, List.filterMap_nil, List.append_nil] at this ⊢
        exact ⟨this.1, fun h => by rw [this.2 h, ha2]⟩
      | true =>
        obtain ⟨l', d, _, hdis, _⟩ := hsp.ok_atoms rfl
        have := ih (acc ++ [some l']) s2 hrs2
        simp only [if_true, hdis]
        simp only [List.filterMap_append, List.filterMap_cons, id, List.filterMap_nil, List.length_append,
          List.length_cons, List.length_nil] at this ⊢
        exact ⟨by omega, fun h => by omega⟩

theorem compDispCall_fail (rs : List Nat) (s : State) (hrs : ∀ r ∈ rs, r < s.heap.length)
    (hf : (compDispCall rs s).1 = false) : (compDispCall rs s).2.2.atoms = s.atoms := by
  have h := compDispLoop_count rs [] s hrs
  simp only [compDispCall, decide_eq_false_iff_not, Nat.not_lt, Nat.le_zero] at hf ⊢
  apply h.2
  simpa using hf

/-- trees whose call only moves atoms (no insertion, deletion, cell or momentum change) -/
def PosTree (s : State) : Tree → Prop
  | .leaf r => posKind (s.obj r).kind = true
  | .compDisp _ => True
  | .plain rs => ∀ r ∈ rs, posKind (s.obj r).kind = true
  | .compExch _ _ => False

theorem callTree_keeps (t : Tree) (s : State) (hrs : ∀ r ∈ t.refs, r < s.heap.length) (ht : PosTree s t) :
    CallKeeps s (callTree t s).2 := by
  cases t with
  | leaf r => exact leafCall_keeps r s (hrs r (by simp [Tree.refs])) ht
  | compDisp rs => exact compDispLoop_keeps rs [] s (fun r h => hrs r (by simpa [Tree.refs] using h))
  | plain rs => exact plainLoop_keeps rs false s (fun r h => hrs r (by simpa [Tree.refs] using h)) ht
  | compExch rs b => exact absurd ht (by simp [PosTree])

theorem callTree_fail (t : Tree) (s : State) (hrs : ∀ r ∈ t.refs, r < s.heap.length) (ht : PosTree s t)
    (hf : (callTree t s).1 = false) : (callTree t s).2.atoms = s.atoms := by
  cases t with
  | leaf r => exact leafCall_fail r s (hrs r (by simp [Tree.refs])) ht hf
  | compDisp rs => exact compDispCall_fail rs s (fun r h => hrs r (by simpa [Tree.refs] using h)) hf
  | plain rs =>
    exact (plainLoop_fail rs s (fun r h => hrs r (by simpa [Tree.refs] using h)) ht false hf).2
  | compExch rs b => exact absurd ht (by simp [PosTree])

end MM
