import QProofs.MachinePos
/-! call-level facts for cell / Hamiltonian / user moves and for composites without exchange members -/
namespace MM

theorem cellCall_spec (r : Nat) (s : State) :
    (cellCall r s).2.heap = s.heap ∧ (cellCall r s).2.ctx = s.ctx ∧
    (((cellCall r s).1 = false ∧ (cellCall r s).2.atoms = s.atoms) ∨
     ((cellCall r s).1 = true ∧ ∃ f, (cellCall r s).2.atoms = deform s.atoms f (s.obj r).scaleAtoms)) := by
  have h := cellLoop_spec (s.obj r).scaleAtoms (s.obj r).maxAttempts s.atoms s.inp
  simp only [cellCall]
  rcases hres : cellLoop (s.obj r).scaleAtoms s.atoms.cell (positions s.atoms.rows) (s.obj r).maxAttempts s.atoms s.inp
    with ⟨ok, a, i⟩
  simp only [hres] at h
  refine ⟨?_, ?_, ?_⟩ <;> first | trivial | rfl | exact h

theorem hamCall_spec (r : Nat) (s : State) :
    (hamCall r s).2.heap = s.heap ∧ (hamCall r s).2.ctx = s.ctx ∧
    (((hamCall r s).1 = false ∧ (hamCall r s).2.atoms = s.atoms) ∨
     ((hamCall r s).1 = true ∧ AuxOnly s.atoms (hamCall r s).2.atoms)) := by
  have h := hamLoop_spec (s.obj r).maxAttempts s.atoms s.inp
  simp only [hamCall]
  rcases hres : hamLoop (positions s.atoms.rows) (momenta s.atoms.rows) (s.obj r).maxAttempts s.atoms s.inp
    with ⟨ok, a, i⟩
  simp only [hres] at h
  refine ⟨?_, ?_, ?_⟩ <;> first | trivial | rfl | exact h

/-- kinds whose call changes positions only -/
def posKind (k : Kind) : Bool := k = .disp || k = .user

theorem leafCall_keeps (r : Nat) (s : State) (hr : r < s.heap.length) (hk : posKind (s.obj r).kind = true) :
    CallKeeps s (leafCall r s).2 := by
  unfold leafCall
  cases hkk : (s.obj r).kind <;> simp [posKind, hkk] at hk
  · exact dispCall_keeps r s hr
  · exact CallKeeps.refl s

/-- a failed position-only leaf leaves the atoms exactly as they were -/
theorem leafCall_fail (r : Nat) (s : State) (hr : r < s.heap.length) (hk : posKind (s.obj r).kind = true)
    (hf : (leafCall r s).1 = false) : (leafCall r s).2.atoms = s.atoms := by
  unfold leafCall at hf ⊢
  cases hkk : (s.obj r).kind <;> simp [posKind, hkk] at hk
  · simp only [hkk] at hf ⊢
    exact ((dispCall_spec r s hr).fail_atoms hf).1
  · rfl

theorem plainLoop_keeps (rs : List Nat) (ok : Bool) (s : State)
    (hrs : ∀ r ∈ rs, r < s.heap.length) (hk : ∀ r ∈ rs, posKind (s.obj r).kind = true)
    (hkind : ∀ (s' : State) r, CallKeeps s s' → (s'.obj r).kind = (s.obj r).kind) :
    CallKeeps s (plainLoop rs ok s).2 := by
  induction rs generalizing ok s with
  | nil => exact CallKeeps.refl s
  | cons r rs ih =>
    have hr : r < s.heap.length := hrs r (by simp)
    simp only [plainLoop]
    have k1 := leafCall_keeps r s hr (hk r (by simp))
    rcases hlc : leafCall r s with ⟨ok1, s1⟩
    rw [hlc] at k1
    simp only []
    refine k1.trans (ih _ s1 ?_ ?_ ?_)
    · intro r' h'; rw [k1.heap_len]; exact hrs r' (by simp [h'])
    · intro r' h'; rw [hkind s1 r' k1]; exact hk r' (by simp [h'])
    · intro s' r' k'; rw [hkind s' r' (k1.trans k'), hkind s1 r' k1]

end MM
