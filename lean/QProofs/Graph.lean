import QModel.Graph
import Mathlib.Logic.Relation
import Mathlib.Data.List.Perm.Subperm
import Mathlib.Data.Set.Card
/-!
# Lemmas for C19g — `componentsOf` computes the connected components, in networkx's order

`Adj n pairs` = "bonded" (a listed pair in either direction, both ends nodes `< n`);
`Conn n pairs` = its reflexive-transitive closure (`Relation.ReflTransGen`).

* `mem_reach`          : for `i < n`, `j ∈ reach n pairs i ↔ Conn n pairs i j` (`n` rounds of expansion reach the fixed point:
                         every round that is not yet closed adds a node, and there are only `n` nodes);
* `reach_eq_of_conn`   : connected nodes have literally the same `reach` list (ascending, duplicate-free);
* `compsFrom_*`        : the loop invariants of networkx's enumeration;
* `componentsOf_*`     : cover / bound / pairwise disjoint / sorted / `componentsOf_conn` / `componentsOf_order`.
-/
namespace RI

/-- bonded: a listed pair in either direction, both ends nodes of the graph -/
def Adj (n : Nat) (pairs : List (Nat × Nat)) (i j : Nat) : Prop :=
  i < n ∧ j < n ∧ ((i, j) ∈ pairs ∨ (j, i) ∈ pairs)

/-- connected through bonded neighbours: the reflexive-transitive closure of `Adj` -/
def Conn (n : Nat) (pairs : List (Nat × Nat)) : Nat → Nat → Prop := Relation.ReflTransGen (Adj n pairs)

variable {n : Nat} {pairs : List (Nat × Nat)}

/-! ## the relation -/

theorem Adj.symm {i j : Nat} (h : Adj n pairs i j) : Adj n pairs j i :=
  ⟨h.2.1, h.1, h.2.2.symm⟩

theorem Conn.refl (i : Nat) : Conn n pairs i i := Relation.ReflTransGen.refl

theorem Conn.trans {i j k : Nat} (h1 : Conn n pairs i j) (h2 : Conn n pairs j k) : Conn n pairs i k :=
  Relation.ReflTransGen.trans h1 h2

theorem Conn.symm {i j : Nat} (h : Conn n pairs i j) : Conn n pairs j i := by
  induction h with
  | refl => exact Conn.refl _
  | tail _ hbc ih => exact Relation.ReflTransGen.head hbc.symm ih

theorem Conn.lt {i j : Nat} (h : Conn n pairs i j) (hi : i < n) : j < n := by
  induction h with
  | refl => exact hi
  | tail _ hbc _ => exact hbc.2.1

theorem Conn.lt_iff {i j : Nat} (h : Conn n pairs i j) : i < n ↔ j < n :=
  ⟨h.lt, h.symm.lt⟩

/-- a node `≥ n` (not a node of the graph) is connected to itself only -/
theorem Conn.eq_of_not_lt {i j : Nat} (h : Conn n pairs i j) (hi : ¬ i < n) : i = j := by
  induction h with
  | refl => rfl
  | tail _ hbc ih => subst ih; exact absurd hbc.1 hi

theorem adjB_iff (i j : Nat) : adjB pairs i j = true ↔ ((i, j) ∈ pairs ∨ (j, i) ∈ pairs) := by
  unfold adjB
  simp only [List.any_eq_true, Bool.or_eq_true, Bool.and_eq_true, beq_iff_eq]
  constructor
  · rintro ⟨⟨a, b⟩, hm, h⟩
    rcases h with ⟨h1, h2⟩ | ⟨h1, h2⟩
    · simp only at h1 h2; subst h1; subst h2; exact Or.inl hm
    · simp only at h1 h2; subst h1; subst h2; exact Or.inr hm
  · rintro (h | h)
    · exact ⟨(i, j), h, Or.inl ⟨rfl, rfl⟩⟩
    · exact ⟨(j, i), h, Or.inr ⟨rfl, rfl⟩⟩

/-! ## neighbour expansion -/

theorem mem_expand (s : List Nat) (j : Nat) :
    j ∈ expand n pairs s ↔ j < n ∧ ∃ i ∈ s, i = j ∨ ((i, j) ∈ pairs ∨ (j, i) ∈ pairs) := by
  unfold expand
  simp only [List.mem_filter, List.mem_range, List.any_eq_true, Bool.or_eq_true, beq_iff_eq, adjB_iff]

theorem expand_lt (s : List Nat) (j : Nat) (h : j ∈ expand n pairs s) : j < n :=
  ((mem_expand s j).1 h).1

theorem expand_sorted (s : List Nat) : (expand n pairs s).Pairwise (· < ·) :=
  List.Pairwise.filter _ List.pairwise_lt_range

theorem expand_nodup (s : List Nat) : (expand n pairs s).Nodup :=
  (expand_sorted s).imp (fun h => Nat.ne_of_lt h)

/-- `s` is closed under neighbour expansion -/
def Closed (n : Nat) (pairs : List (Nat × Nat)) (s : List Nat) : Prop := ∀ j, j ∈ expand n pairs s → j ∈ s

theorem expandN_lt (i : Nat) (hi : i < n) (k j : Nat) (h : j ∈ expandN n pairs k [i]) : j < n := by
  cases k with
  | zero => simp only [expandN, List.mem_singleton] at h; omega
  | succ k => exact expand_lt _ j h

theorem expandN_nodup (i k : Nat) : (expandN n pairs k [i]).Nodup := by
  cases k with
  | zero => simp [expandN]
  | succ k => exact expand_nodup _

theorem expandN_mono (i : Nat) (hi : i < n) (k j : Nat) (h : j ∈ expandN n pairs k [i]) :
    j ∈ expandN n pairs (k+1) [i] := by
  show j ∈ expand n pairs (expandN n pairs k [i])
  exact (mem_expand _ j).2 ⟨expandN_lt i hi k j h, j, h, Or.inl rfl⟩

theorem expandN_start (i : Nat) (hi : i < n) (k : Nat) : i ∈ expandN n pairs k [i] := by
  induction k with
  | zero => simp [expandN]
  | succ k ih => exact expandN_mono i hi k i ih

/-- every node found is connected to the start -/
theorem expandN_sound (i : Nat) (hi : i < n) (k j : Nat) (h : j ∈ expandN n pairs k [i]) : Conn n pairs i j := by
  induction k generalizing j with
  | zero =>
    simp only [expandN, List.mem_singleton] at h
    subst h; exact Conn.refl _
  | succ k ih =>
    obtain ⟨hj, a, ha, hor⟩ := (mem_expand _ j).1 h
    rcases hor with rfl | hb
    · exact ih a ha
    · exact Relation.ReflTransGen.tail (ih a ha) ⟨expandN_lt i hi k a ha, hj, hb⟩

theorem closed_step (s : List Nat) (h : Closed n pairs s) : Closed n pairs (expand n pairs s) := by
  intro j hj
  obtain ⟨hjn, a, ha, hor⟩ := (mem_expand _ j).1 hj
  exact (mem_expand _ j).2 ⟨hjn, a, h a ha, hor⟩

/-- after `k` rounds the set is closed or has more than `k` members -/
theorem closed_or_grows (i : Nat) (hi : i < n) (k : Nat) :
    Closed n pairs (expandN n pairs k [i]) ∨ k + 1 ≤ (expandN n pairs k [i]).length := by
  induction k with
  | zero => right; simp [expandN]
  | succ k ih =>
    rcases ih with hc | hlen
    · exact Or.inl (closed_step _ hc)
    · by_cases hc : Closed n pairs (expandN n pairs k [i])
      · exact Or.inl (closed_step _ hc)
      · right
        unfold Closed at hc
        obtain ⟨x, hx⟩ := Classical.not_forall.1 hc
        obtain ⟨hx1, hx2⟩ := Classical.not_imp.1 hx
        have hnd : (x :: expandN n pairs k [i]).Nodup := List.nodup_cons.2 ⟨hx2, expandN_nodup i k⟩
        have hsub : (x :: expandN n pairs k [i]) ⊆ expandN n pairs (k+1) [i] := by
          intro y hy
          rcases List.mem_cons.1 hy with rfl | hy
          · exact hx1
          · exact expandN_mono i hi k y hy
        have := (hnd.subperm hsub).length_le
        simp only [List.length_cons] at this
        omega

theorem expandN_length_le (i : Nat) (hi : i < n) (k : Nat) : (expandN n pairs k [i]).length ≤ n := by
  have hsub : expandN n pairs k [i] ⊆ List.range n := fun j hj => List.mem_range.2 (expandN_lt i hi k j hj)
  have := ((expandN_nodup i k).subperm hsub).length_le
  simpa using this

/-- `n` rounds reach the fixed point -/
theorem reach_closed (i : Nat) (hi : i < n) : Closed n pairs (reach n pairs i) := by
  rcases closed_or_grows (pairs := pairs) i hi n with h | h
  · exact h
  · have := expandN_length_le (pairs := pairs) i hi n
    omega

/-- **mem_reach**: `reach n pairs i` is the set of nodes connected to `i` -/
theorem mem_reach (i : Nat) (hi : i < n) (j : Nat) : j ∈ reach n pairs i ↔ Conn n pairs i j := by
  constructor
  · exact expandN_sound i hi n j
  · intro h
    induction h with
    | refl => exact expandN_start i hi n
    | tail _ hbc ih =>
      exact reach_closed i hi _ ((mem_expand _ _).2 ⟨hbc.2.1, _, ih, Or.inr hbc.2.2⟩)

theorem self_mem_reach (i : Nat) (hi : i < n) : i ∈ reach n pairs i := (mem_reach i hi i).2 (Conn.refl i)

theorem reach_sorted (i : Nat) : (reach n pairs i).Pairwise (· < ·) := by
  unfold reach
  cases n with
  | zero => simp [expandN]
  | succ m => exact expand_sorted _

theorem reach_nodup (i : Nat) : (reach n pairs i).Nodup :=
  (reach_sorted i).imp (fun h => Nat.ne_of_lt h)

/-- connected nodes have the same `reach` list (not only the same members) -/
theorem reach_eq_of_conn (i a : Nat) (hi : i < n) (h : Conn n pairs i a) : reach n pairs a = reach n pairs i := by
  have ha : a < n := h.lt hi
  have hmem : ∀ x, x ∈ reach n pairs a ↔ x ∈ reach n pairs i := fun x => by
    rw [mem_reach a ha, mem_reach i hi]
    exact ⟨fun hx => h.trans hx, fun hx => h.symm.trans hx⟩
  cases n with
  | zero => omega
  | succ m =>
    unfold reach expandN expand at hmem ⊢
    apply List.filter_congr
    intro x hx
    have := hmem x
    simp only [List.mem_filter, hx, true_and] at this
    exact Bool.eq_iff_iff.2 this

/-- any duplicate-free list of exactly the nodes connected to `i` has as many entries as `reach n pairs i` -/
theorem class_length (i : Nat) (hi : i < n) (c : List Nat) (hn : c.Nodup) (hc : ∀ k, k ∈ c ↔ Conn n pairs i k) :
    c.length = (reach n pairs i).length := by
  apply Nat.le_antisymm
  · exact (hn.subperm (fun k hk => (mem_reach i hi k).2 ((hc k).1 hk))).length_le
  · exact ((reach_nodup i).subperm (fun k hk => (hc k).2 ((mem_reach i hi k).1 hk))).length_le

/-- the number of nodes connected to `i` -/
theorem class_ncard (i : Nat) (hi : i < n) : Set.ncard {k | Conn n pairs i k} = (reach n pairs i).length := by
  have : {k | Conn n pairs i k} = ((reach n pairs i).toFinset : Set Nat) := by
    ext k; simp [mem_reach i hi k]
  rw [this, Set.ncard_coe_finset, List.toFinset_card_of_nodup (reach_nodup i)]

/-! ## networkx's enumeration loop -/

/-- `seen` is a union of connected components -/
def SeenClosed (n : Nat) (pairs : List (Nat × Nat)) (seen : List Nat) : Prop :=
  ∀ a b, a ∈ seen → Conn n pairs a b → b ∈ seen

theorem seenClosed_nil : SeenClosed n pairs [] := fun _ _ h => absurd h List.not_mem_nil

theorem seenClosed_append (seen : List Nat) (a : Nat) (ha : a < n) (h : SeenClosed n pairs seen) :
    SeenClosed n pairs (reach n pairs a ++ seen) := by
  intro x y hx hxy
  rcases List.mem_append.1 hx with hx | hx
  · exact List.mem_append_left _ ((mem_reach a ha y).2 (((mem_reach a ha x).1 hx).trans hxy))
  · exact List.mem_append_right _ (h x y hx hxy)

/-- every component listed is the `reach` of a node of `todo` not seen before -/
theorem compsFrom_mem (todo seen c : List Nat) (h : c ∈ compsFrom n pairs todo seen) :
    ∃ i ∈ todo, i ∉ seen ∧ c = reach n pairs i := by
  induction todo generalizing seen with
  | nil => simp [compsFrom] at h
  | cons a rest ih =>
    unfold compsFrom at h
    by_cases ha : a ∈ seen
    · rw [if_pos ha] at h
      obtain ⟨i, hi, hs, hc⟩ := ih seen h
      exact ⟨i, List.mem_cons_of_mem _ hi, hs, hc⟩
    · rw [if_neg ha] at h
      rcases List.mem_cons.1 h with rfl | h
      · exact ⟨a, List.mem_cons_self, ha, rfl⟩
      · obtain ⟨i, hi, hs, hc⟩ := ih _ h
        exact ⟨i, List.mem_cons_of_mem _ hi, fun hm => hs (List.mem_append_right _ hm), hc⟩

/-- every node of `todo` not seen before ends up in a listed component -/
theorem compsFrom_cover (todo seen : List Nat) (hlt : ∀ i ∈ todo, i < n) (i : Nat) (hi : i ∈ todo) (hs : i ∉ seen) :
    ∃ c ∈ compsFrom n pairs todo seen, i ∈ c := by
  induction todo generalizing seen with
  | nil => cases hi
  | cons a rest ih =>
    have hrest : ∀ i ∈ rest, i < n := fun i hi => hlt i (List.mem_cons_of_mem _ hi)
    unfold compsFrom
    by_cases ha : a ∈ seen
    · rw [if_pos ha]
      rcases List.mem_cons.1 hi with rfl | hi
      · exact absurd ha hs
      · exact ih seen hrest hi hs
    · rw [if_neg ha]
      by_cases hr : i ∈ reach n pairs a
      · exact ⟨_, List.mem_cons_self, hr⟩
      · rcases List.mem_cons.1 hi with rfl | hi
        · exact absurd (self_mem_reach i (hlt i List.mem_cons_self)) hr
        · obtain ⟨c, hc, hic⟩ := ih (reach n pairs a ++ seen) hrest hi
            (fun hm => (List.mem_append.1 hm).elim hr hs)
          exact ⟨c, List.mem_cons_of_mem _ hc, hic⟩

/-- listed components avoid the nodes seen before -/
theorem compsFrom_not_seen (todo seen : List Nat) (hlt : ∀ i ∈ todo, i < n) (hcl : SeenClosed n pairs seen)
    (c : List Nat) (hc : c ∈ compsFrom n pairs todo seen) (j : Nat) (hj : j ∈ c) : j ∉ seen := by
  obtain ⟨i, hi, hs, rfl⟩ := compsFrom_mem todo seen c hc
  intro hm
  exact hs (hcl j i hm ((mem_reach i (hlt i hi) j).1 hj).symm)

theorem compsFrom_pairwise (todo seen : List Nat) (hlt : ∀ i ∈ todo, i < n) (hcl : SeenClosed n pairs seen) :
    (compsFrom n pairs todo seen).Pairwise (fun a b => ∀ j, j ∈ a → j ∉ b) := by
  induction todo generalizing seen with
  | nil => simp [compsFrom]
  | cons a rest ih =>
    have hrest : ∀ i ∈ rest, i < n := fun i hi => hlt i (List.mem_cons_of_mem _ hi)
    unfold compsFrom
    by_cases ha : a ∈ seen
    · rw [if_pos ha]; exact ih seen hrest hcl
    · rw [if_neg ha]
      have hcl' := seenClosed_append seen a (hlt a List.mem_cons_self) hcl
      refine List.pairwise_cons.2 ⟨?_, ih _ hrest hcl'⟩
      intro c hc j hj hjc
      exact compsFrom_not_seen rest _ hrest hcl' c hc j hjc (List.mem_append_left _ hj)

/-- the loop over `a, a+1, …, n-1` when everything below `a` has been seen: the `k`-th component listed contains the
    smallest node that is neither seen nor in an earlier component -/
theorem compsFrom_order (len a : Nat) (han : a + len = n) (seen : List Nat) (hcl : SeenClosed n pairs seen)
    (hbelow : ∀ j, j < a → j ∈ seen) (k : Nat) (c : List Nat)
    (hk : (compsFrom n pairs (List.range' a len) seen)[k]? = some c) :
    ∃ m ∈ c, m ∉ seen ∧ (∀ c' ∈ (compsFrom n pairs (List.range' a len) seen).take k, m ∉ c') ∧
      ∀ j, j < n → j ∉ seen → (∀ c' ∈ (compsFrom n pairs (List.range' a len) seen).take k, j ∉ c') → m ≤ j := by
  induction len generalizing a seen k with
  | zero => simp [compsFrom] at hk
  | succ len ih =>
    rw [List.range'_succ] at hk ⊢
    unfold compsFrom at hk ⊢
    by_cases ha : a ∈ seen
    · rw [if_pos ha] at hk ⊢
      refine ih (a+1) (by omega) seen hcl (fun j hj => ?_) k hk
      by_cases hja : j = a
      · subst hja; exact ha
      · exact hbelow j (by omega)
    · rw [if_neg ha] at hk ⊢
      have han' : a < n := by omega
      cases k with
      | zero =>
        simp only [List.getElem?_cons_zero, Option.some.injEq] at hk
        subst hk
        refine ⟨a, self_mem_reach a han', ha, by simp, fun j _ hjs _ => ?_⟩
        apply Classical.byContradiction
        intro hlt
        exact hjs (hbelow j (by omega))
      | succ k =>
        simp only [List.getElem?_cons_succ] at hk
        have hcl' := seenClosed_append seen a han' hcl
        obtain ⟨m, hmc, hms, hmt, hmin⟩ := ih (a+1) (by omega) (reach n pairs a ++ seen) hcl' (fun j hj => by
          by_cases hja : j = a
          · subst hja; exact List.mem_append_left _ (self_mem_reach j han')
          · exact List.mem_append_right _ (hbelow j (by omega))) k hk
        refine ⟨m, hmc, fun h => hms (List.mem_append_right _ h), ?_, ?_⟩
        · intro c' hc'
          simp only [List.take_succ_cons, List.mem_cons] at hc'
          rcases hc' with rfl | hc'
          · exact fun h => hms (List.mem_append_left _ h)
          · exact hmt c' hc'
        · intro j hjn hjs hjt
          simp only [List.take_succ_cons, List.mem_cons, forall_eq_or_imp] at hjt
          exact hmin j hjn (fun h => (List.mem_append.1 h).elim hjt.1 hjs) hjt.2

/-! ## `componentsOf` -/

theorem range_lt : ∀ i ∈ List.range n, i < n := fun _ h => List.mem_range.1 h

/-- every listed component is the `reach` of one of its members -/
theorem componentsOf_mem (c : List Nat) (h : c ∈ componentsOf n pairs) : ∃ a, a < n ∧ c = reach n pairs a := by
  obtain ⟨a, ha, _, hc⟩ := compsFrom_mem _ _ c h
  exact ⟨a, List.mem_range.1 ha, hc⟩

theorem componentsOf_cover (i : Nat) (hi : i < n) : ∃ c ∈ componentsOf n pairs, i ∈ c :=
  compsFrom_cover _ _ range_lt i (List.mem_range.2 hi) List.not_mem_nil

theorem componentsOf_bound (c : List Nat) (hc : c ∈ componentsOf n pairs) (i : Nat) (hi : i ∈ c) : i < n := by
  obtain ⟨a, ha, rfl⟩ := componentsOf_mem c hc
  exact ((mem_reach a ha i).1 hi).lt ha

theorem componentsOf_disjoint : (componentsOf n pairs).Pairwise (fun a b => ∀ j, j ∈ a → j ∉ b) :=
  compsFrom_pairwise _ _ range_lt seenClosed_nil

/-- every component is listed ascending -/
theorem componentsOf_sorted (c : List Nat) (hc : c ∈ componentsOf n pairs) : c.Pairwise (· < ·) := by
  obtain ⟨a, _, rfl⟩ := componentsOf_mem c hc
  exact reach_sorted a

theorem componentsOf_nodup (c : List Nat) (hc : c ∈ componentsOf n pairs) : c.Nodup :=
  (componentsOf_sorted c hc).imp (fun h => Nat.ne_of_lt h)

/-- the component listed for `i` is `reach n pairs i` itself -/
theorem componentsOf_eq_reach (c : List Nat) (hc : c ∈ componentsOf n pairs) (i : Nat) (hi : i ∈ c) :
    c = reach n pairs i := by
  obtain ⟨a, ha, rfl⟩ := componentsOf_mem c hc
  have hc := (mem_reach a ha i).1 hi
  exact reach_eq_of_conn a i ha hc |>.symm

theorem reach_mem_componentsOf (i : Nat) (hi : i < n) : reach n pairs i ∈ componentsOf n pairs := by
  obtain ⟨c, hc, hic⟩ := componentsOf_cover (pairs := pairs) i hi
  rwa [← componentsOf_eq_reach c hc i hic]

end RI
