#!/venv/bin/python
"""Find, for every recorded KNOWN finding, an input on which the real code shows it, and store it in the corpus
(harness/corpus/<property>/<suite>/<slug>.json). Corpus cases run first in every check, so the KNOWN-FINDING line of a
listed finding is printed on every run of the unchanged tree, not only when the random sample happens to hit it.

    mkcorpus.py [C03 C04 …]      (default: every property with a `known` entry)
"""
from __future__ import annotations

import fnmatch
import importlib
import json
import os
import re
import sys
import warnings

sys.path.insert(0, os.path.dirname(os.path.abspath(__file__)))
warnings.simplefilter("ignore")
import common  # noqa: E402


def main():
    known = [k for k in json.loads(common.KNOWN.read_text()) if k["status"] == "known"]
    props = [a.upper() for a in sys.argv[1:]] or sorted({k["property"] for k in known})
    for prop in props:
        common.PROP[0] = prop
        mod = importlib.import_module(f"props.{prop.lower()}")
        want = [k["signature"] for k in known if k["property"] == prop]
        have = set()
        suites = mod.suites("quick")
        for seed in range(1, 60):
            if len(have) == len(want):
                break
            for s in suites:
                rng = common.sub_rng(seed, s.name, "gen")
                for case in s.cases(rng, "quick"):
                    try:
                        obs = s.real(case)
                    except Exception:  # noqa: BLE001
                        continue
                    sigs = [sig for sig, _ in s.oracle(case, obs)]
                    scope = s.known_scope(case) if hasattr(s, "known_scope") else None
                    for pat in want:
                        if pat in have:
                            continue
                        # the check attributes a signature to the FIRST listed entry it matches: take a witness whose
                        # signature is attributed to this very entry
                        if any(fnmatch.fnmatchcase(sig, pat) and (common.match_known(prop, sig) or {}).get("signature") == pat
                               for sig in sigs):
                            d = common.CORPUS / prop / s.name
                            d.mkdir(parents=True, exist_ok=True)
                            slug = re.sub(r"[^A-Za-z0-9]+", "-", pat).strip("-")[:60]
                            (d / f"known-{slug}.json").write_text(json.dumps(
                                {"why": f"witness of the known finding {pat}", "signatures": sigs[:4], "scope": scope,
                                 "case": case}, indent=1, sort_keys=True))
                            have.add(pat)
                            print(f"{prop} {s.name}: {pat} <- seed {seed}: {sigs[:2]}")
                if len(have) == len(want):
                    break
        for pat in want:
            if pat not in have:
                print(f"{prop}: NO witness found for {pat}")


if __name__ == "__main__":
    main()
