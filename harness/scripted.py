"""Scripted and recording random generators (DESIGN.md §2.2) — the Python twin of `lean/QModel/Rng.lean`.

`ScriptedRNG(script, normals)` stands in for the `numpy.random.Generator` that quansino keeps in `mc._rng` /
`context.rng`.  It consumes a *script* — a list of floats in [0, 1) — from left to right with exactly the rules
of the Lean oracle:

* `random()`                       one draw `u`;
* `uniform(lo, hi)`                one draw, `lo + (hi - lo) * u`            (numpy's formula, bit for bit);
* `integers(lo, hi)`               one draw, `lo + floor(u * (hi - lo))`     (`Rng.index`, exact rational arithmetic);
* `choice(a)`                      one draw, `a[floor(u * len(a))]`          (`Rng.choice`);
* `choice(a, p=p)`                 one draw, `a[(cumsum(p)/cumsum(p)[-1]).searchsorted(u, side='right')]`
                                   — numpy's own algorithm for a scalar draw     (`Rng.choiceP`);
* `choice(a, size=k, replace=False)`  k draws, successive pops from the remaining list:
                                   `i = floor(u * len(rem)); out.append(rem.pop(i))`   (`Rng.sampleNoRepl`).
                                   numpy uses a permutation-based algorithm instead; only "k distinct elements of a"
                                   is assumed of it (and checked by the twin test of C09);
* `standard_normal()` / `normal()` values from the separate list `normals`.

A `size=` argument repeats the scalar rule in C order.  Every call is logged in `.log` as
`(method, args-summary, result)`.  A draw method that is not listed here raises `AttributeError` and is recorded in
`.unknown`, so a caller can report "the code started to use a draw method the oracle does not model" as a broken
correspondence instead of silently emulating it.  Running out of script raises `ScriptExhausted`.

`RecordingRNG(generator)` wraps a real `numpy.random.Generator`, delegates everything and logs each call and result.
"""

from __future__ import annotations

from fractions import Fraction
from math import floor

import numpy as np


class ScriptExhausted(Exception):
    """the script (or the list of normals) has no draw left"""


def _shape(size):
    if size is None:
        return None
    if isinstance(size, (int, np.integer)):
        return (int(size),)
    return tuple(int(s) for s in size)


def _count(shape):
    n = 1
    for s in shape:
        n *= s
    return n


def index_of(u: float, n: int) -> int:
    """`Rng.index`: floor(u * n) in exact arithmetic, clamped to n - 1 (n >= 1)"""
    return min(floor(Fraction(u) * n), n - 1)


class _ScriptedBitGenerator:
    """enough of `Generator.bit_generator` for `to_dict()` / `from_dict()`: the state is the script position"""

    def __init__(self, owner):
        self._owner = owner

    @property
    def state(self):
        return {"bit_generator": "Scripted", "pos": self._owner.pos, "npos": self._owner.npos}

    @state.setter
    def state(self, value):
        self._owner.pos = int(value["pos"])
        self._owner.npos = int(value["npos"])


class ScriptedRNG:
    def __init__(self, script=(), normals=()):
        self.script = [float(u) for u in script]
        for u in self.script:
            if not (0.0 <= u < 1.0):
                raise ValueError(f"script element {u!r} outside [0, 1)")
        self.normals = [float(z) for z in normals]
        self.pos = 0
        self.npos = 0
        self.log: list[tuple] = []
        self.unknown: list[str] = []
        self.bit_generator = _ScriptedBitGenerator(self)

    # ------------------------------------------------------------------ the stream
    def _pop(self) -> float:
        if self.pos >= len(self.script):
            raise ScriptExhausted(f"script of {len(self.script)} draws exhausted")
        u = self.script[self.pos]
        self.pos += 1
        return u

    def _popn(self) -> float:
        if self.npos >= len(self.normals):
            raise ScriptExhausted(f"list of {len(self.normals)} normals exhausted")
        z = self.normals[self.npos]
        self.npos += 1
        return z

    @property
    def consumed(self) -> int:
        return self.pos

    def remaining(self) -> list[float]:
        return self.script[self.pos:]

    def _fill(self, size, one):
        shape = _shape(size)
        if shape is None:
            return one()
        vals = [one() for _ in range(_count(shape))]
        return np.array(vals).reshape(shape)

    def _rec(self, name, args, result):
        r = result.tolist() if isinstance(result, np.ndarray) else (result.item() if isinstance(result, np.generic) else result)
        self.log.append((name, args, r))
        return result

    # ------------------------------------------------------------------ modelled draw methods
    def random(self, size=None):
        out = self._fill(size, self._pop)
        return self._rec("random", {"size": _shape(size)}, out)

    def uniform(self, low=0.0, high=1.0, size=None):
        if np.ndim(low) or np.ndim(high):
            raise TypeError("ScriptedRNG.uniform: array-valued bounds are not modelled")
        lo, hi = float(low), float(high)
        out = self._fill(size, lambda: lo + (hi - lo) * self._pop())
        return self._rec("uniform", {"low": lo, "high": hi, "size": _shape(size)}, out)

    def standard_normal(self, size=None):
        out = self._fill(size, self._popn)
        return self._rec("standard_normal", {"size": _shape(size)}, out)

    def normal(self, loc=0.0, scale=1.0, size=None):
        lo, sc = float(loc), float(scale)
        out = self._fill(size, lambda: lo + sc * self._popn())
        return self._rec("normal", {"loc": lo, "scale": sc, "size": _shape(size)}, out)

    def integers(self, low, high=None, size=None, dtype=np.int64, endpoint=False):
        if high is None:
            low, high = 0, low
        lo, hi = int(low), int(high) + (1 if endpoint else 0)
        if hi <= lo:
            raise ValueError("low >= high")
        out = self._fill(size, lambda: lo + index_of(self._pop(), hi - lo))
        if isinstance(out, np.ndarray):
            out = out.astype(dtype)
        else:
            out = np.dtype(dtype).type(out)
        return self._rec("integers", {"low": lo, "high": hi, "size": _shape(size)}, out)

    def choice(self, a, size=None, replace=True, p=None, axis=0, shuffle=True):
        if axis != 0:
            raise TypeError("ScriptedRNG.choice: axis != 0 is not modelled")
        arr = np.arange(a) if isinstance(a, (int, np.integer)) else np.asarray(a)
        if arr.ndim == 0:
            raise ValueError("a must be a sequence or an integer, not a scalar")
        n = arr.shape[0]
        shape = _shape(size)
        k = 1 if shape is None else _count(shape)
        if n == 0 and k != 0:
            raise ValueError("a cannot be empty unless no samples are taken")
        cdf = None
        if p is not None:
            pa = np.asarray(p, dtype=float)
            if pa.ndim != 1:
                raise ValueError("p must be 1-dimensional")
            if pa.size != n:
                raise ValueError("a and p must have same size")
            if np.isnan(pa.sum()):
                raise ValueError("Probabilities contain NaN")
            if np.any(pa < 0):
                raise ValueError("Probabilities are not non-negative")
            if abs(float(pa.sum()) - 1.0) > float(np.sqrt(np.finfo(np.float64).eps)):
                raise ValueError("Probabilities do not sum to 1.")
            cdf = pa.cumsum()
            cdf /= cdf[-1]
        if replace or k <= 1 and shape is None:
            if cdf is not None:
                def one():
                    return int(cdf.searchsorted(self._pop(), side="right"))
            else:
                def one():
                    return index_of(self._pop(), n)
            idx = one() if shape is None else [one() for _ in range(k)]
        else:
            if p is not None:
                raise TypeError("ScriptedRNG.choice: replace=False together with p is not modelled")
            if k > n:
                raise ValueError("Cannot take a larger sample than population when replace is False")
            rem = list(range(n))
            idx = []
            for _ in range(k):
                idx.append(rem.pop(index_of(self._pop(), len(rem))))
        if shape is None:
            out = arr[idx]
        else:
            out = arr[np.asarray(idx, dtype=np.int64)].reshape(shape + arr.shape[1:])
        return self._rec(
            "choice",
            {"n": n, "size": shape, "replace": bool(replace), "p": None if p is None else [float(x) for x in np.asarray(p)]},
            out,
        )

    # ------------------------------------------------------------------ anything else is a broken correspondence
    def __getattr__(self, name):
        if name.startswith("__") or name in ("script", "normals", "pos", "npos", "log", "unknown", "bit_generator"):
            raise AttributeError(name)
        self.__dict__.setdefault("unknown", []).append(name)
        raise AttributeError(f"ScriptedRNG: generator method {name!r} is not modelled by the random oracle (Rng.lean)")


class RecordingRNG:
    """a real `numpy.random.Generator` whose every method call is logged as `(method, args, kwargs, result)`"""

    def __init__(self, generator_or_seed=None):
        if isinstance(generator_or_seed, np.random.Generator):
            gen = generator_or_seed
        else:
            gen = np.random.Generator(np.random.PCG64(generator_or_seed))
        object.__setattr__(self, "_gen", gen)
        object.__setattr__(self, "log", [])

    def __getattr__(self, name):
        attr = getattr(self._gen, name)
        if not callable(attr):
            return attr

        def wrapped(*args, **kwargs):
            result = attr(*args, **kwargs)
            keep = result.copy() if isinstance(result, np.ndarray) else result
            self.log.append((name, args, kwargs, keep))
            return result

        wrapped.__name__ = name
        return wrapped

    def __setattr__(self, name, value):
        if name in ("_gen", "log"):
            object.__setattr__(self, name, value)
        else:
            setattr(self._gen, name, value)

    @property
    def generator(self):
        return self._gen

    def calls(self, name=None):
        return [c for c in self.log if name is None or c[0] == name]
