"""Python twin of the M-machine (lean/QModel/Machine.lean): drives the REAL quansino drivers, moves and
contexts with scripted generator / operation / check_move / criteria objects on real ASE Atoms, and renders the
same canonical snapshot string as `MM.snapshot`.  Used by C03, C05, C11 (and C04, C20 with extras).
"""
from __future__ import annotations

import copy
import hashlib
import warnings

import numpy as np

import common

def start_run(mc):
    """a new run() starts here — through the REAL entry point (a run of zero steps), so that what the driver does before
    the first step of every run (validate_simulation(), the step-0 block) is the code's own, not a call of the harness"""
    with warnings.catch_warnings():
        warnings.simplefilter("ignore")
        mc.run(0)


AUX = ["numbers", "tags", "uid", "initial_charges"]  # + the two columns of the 2-D array "c2"


class ScriptError(Exception):
    pass


class ScriptedRNG:
    """hands out the trial's draws: random() = d/1000, choice(a) = a[d % len(a)]; anything else is unknown"""

    def __init__(self):
        self.draws = []
        self.log = []

    def _pop(self):
        return self.draws.pop(0) if self.draws else 0

    def random(self, size=None):
        if size is not None:
            raise ScriptError("random(size)")
        d = self._pop()
        self.log.append(("random", d))
        return d / 1000.0

    def choice(self, a, size=None, replace=True, p=None):
        if size is not None or p is not None:
            raise ScriptError("choice(size/p)")
        a = np.asarray(a)
        d = self._pop()
        self.log.append(("choice", len(a), d))
        return a[d % len(a)]

    def __getattr__(self, name):
        raise ScriptError(f"generator method {name} is not part of the modelled oracle")


class Streams:
    def __init__(self):
        self.ops = []
        self.checks = []
        self.nops = 0
        self.nchecks = 0

    def op(self):
        self.nops += 1
        return self.ops.pop(0) if self.ops else [0, 0, 0]

    def check(self):
        self.nchecks += 1
        return self.checks.pop(0) if self.checks else True


class ScriptedOp:
    def __init__(self, streams, kind):
        self.streams = streams
        self.kind = kind

    def calculate(self, context):
        v = self.streams.op()
        if self.kind == "cell":
            return np.diag(np.array(v, dtype=float))
        return np.array([v], dtype=float)

    def to_dict(self):
        return {"name": "ScriptedOp"}


class ScriptedIntegrator:
    """positions (constraints applied) and momenta += d"""

    def __init__(self, streams):
        self.streams = streams

    def integrate(self, context):
        atoms = context.atoms
        d = np.array(self.streams.op(), dtype=float)
        atoms.set_positions(atoms.positions + d, apply_constraint=True)
        atoms.set_array("momenta", atoms.get_momenta() + d, float, (3,))

    def to_dict(self):
        return {"name": "ScriptedIntegrator"}


def make_distribution(streams):
    def distribution(context):
        v = np.array(streams.op(), dtype=float)
        n = len(context.atoms)
        context.atoms.set_array("momenta", np.tile(v, (n, 1)), float, (3,))

    return distribution


class UserMove:
    """a bare user move: protocol methods only, inherits from nothing"""

    def __init__(self, result=True):
        self.result = result
        self.notifications = []

    def __call__(self, context):
        return self.result

    def on_atoms_changed(self, added_indices, removed_indices):
        self.notifications.append(([int(i) for i in added_indices], [int(i) for i in removed_indices]))

    def on_cell_changed(self, new_cell):
        self.notifications.append(("cell",))

    def to_dict(self):
        return {"name": "UserMove", "kwargs": {"result": self.result}}

    @classmethod
    def from_dict(cls, data):
        return cls(**data.get("kwargs", {}))


def make_calc():
    from ase.calculators.calculator import Calculator, all_changes

    class QuadCalc(Calculator):
        """ASE-protocol caching calculator, integer-exact energy, evaluation counter"""

        implemented_properties = ["energy", "forces"]

        def __init__(self):
            super().__init__()
            self.nevals = 0

        def calculate(self, atoms=None, properties=None, system_changes=all_changes):
            super().calculate(atoms, properties, system_changes)
            self.nevals += 1
            p = self.atoms.positions
            self.results = {"energy": float((p**2).sum() + self.atoms.cell.array.trace()), "forces": -2 * p}

    return QuadCalc()


def build_atoms(case):
    from ase import Atoms
    from ase.constraints import FixAtoms

    rows = case["rows"]
    n = len(rows)
    pos = np.array([r[0:3] for r in rows], dtype=float).reshape(n, 3)
    if n and (sum(r[6] for r in rows) + n) % 3 == 0:
        pos[pos == 0.0] = -0.0          # zeros of a mirrored or negated structure carry a sign bit
    a = Atoms(numbers=[r[6] for r in rows], positions=pos, cell=np.diag(case["cell"]).astype(float),
              pbc=True)
    a.set_array("momenta", np.array([r[3:6] for r in rows], dtype=float).reshape(n, 3), float, (3,))
    a.set_tags([r[7] for r in rows])
    a.set_array("uid", np.array([r[8] for r in rows], dtype=np.int64))
    a.set_initial_charges(np.array([r[9] for r in rows], dtype=float))
    a.set_array("c2", np.array([r[10:12] for r in rows], dtype=float).reshape(n, 2))
    if case.get("constraint") == "fixcom":
        from ase.constraints import FixCom

        a.set_constraint(FixCom())  # a collective constraint: adjusting one atom shifts all the others
    elif case["fixed"] is not None:
        a.set_constraint(FixAtoms(indices=list(case["fixed"])))
    return a


def build_template(case):
    from ase import Atoms

    rows = case["template"]
    t = Atoms(numbers=[r[6] for r in rows], positions=[r[0:3] for r in rows])
    # only some columns are present on the template: ASE's extend zero-fills the others
    if any(r[7] for r in rows):
        t.set_tags([r[7] for r in rows])
    if rows and case.get("template_extra") and not any(e.get("swap") for e in case.get("table", [])):
        # the species carries a per-atom array the system does not have (`ase.build.molecule("O2")` comes with
        # initial_magmoms): ASE's extend creates it on the system, zero-filled — a rejected or failed insertion must take
        # it away again (it used to stay: the repaired finding of DESIGN 12.8i)
        t.set_initial_magnetic_moments([1.0] * len(rows))
    return t


def rows_of(atoms):
    n = len(atoms)
    mom = atoms.get_momenta() if "momenta" in atoms.arrays else np.zeros((n, 3))
    out = []
    for i in range(n):
        aux = []
        aux.append(int(atoms.numbers[i]))
        for name in ("tags", "uid", "initial_charges"):
            aux.append(_int(atoms.arrays[name][i]) if name in atoms.arrays else 0)
        if "c2" in atoms.arrays:
            aux += [_int(x) for x in atoms.arrays["c2"][i]]
        else:
            aux += [0, 0]
        out.append([_int(x) for x in atoms.positions[i]] + [_int(x) for x in mom[i]] + aux)
    return out


def _int(x):
    f = float(x)
    if f != f or f in (float("inf"), float("-inf")):
        raise ScriptError(f"non-finite value {x}")
    if f != int(f):
        raise ScriptError(f"non-integer value {x!r} where the model is integer-exact")
    return int(f)


def s_ints(l):
    l = list(l)
    return ":".join(str(int(x)) for x in l) if l else "-"


def s_rows(rows):
    return ";".join(s_ints(r) for r in rows) if rows else "-"


def s_opt(x):
    return "n" if x is None else str(int(x))


KINDCHAR = {"disp": "D", "exch": "X", "cell": "C", "ham": "H", "user": "U"}


def label_array(o):
    """the labels as the user hands them over: a Python list or an integer array of any width; unsigned only when no label
    is negative (a negative default label or automatic labels must still come out right after insertions)"""
    dt = o.get("label_dtype", "int64")
    if dt == "list":
        return [int(x) for x in o["labels"]]
    if dt.startswith("u") and any(x < 0 for x in o["labels"]):
        dt = "int64"
    return np.array(o["labels"], dtype=dt)


class Sim:
    """a real quansino simulation assembled from a case dictionary"""

    def __init__(self, case, calc_factory=make_calc, pre_validate=None):
        import quansino.mc  # noqa: F401  (import order, see C08)
        from quansino.mc.canonical import Canonical, HamiltonianCanonical
        from quansino.mc.core import MonteCarlo
        from quansino.mc.criteria import BaseCriteria
        from quansino.mc.gcmc import GrandCanonical
        from quansino.mc.isobaric import Isobaric
        from quansino.mc.isotension import Isotension
        from quansino.moves.cell import CellMove
        from quansino.moves.composite import CompositeMove
        from quansino.moves.displacement import (
            CompositeDisplacementMove,
            DisplacementMove,
            HamiltonianDisplacementMove,
        )
        from quansino.moves.exchange import CompositeExchangeMove, ExchangeMove

        self.case = case
        self.streams = Streams()
        self.rng = ScriptedRNG()
        self.atoms = build_atoms(case)
        self.calc = calc_factory()
        self.atoms.calc = self.calc
        ens = case["ens"]
        self.template = build_template(case) if case.get("template") else None
        kw = dict(seed=1, max_cycles=1)
        if ens == "base":
            mc = MonteCarlo(self.atoms, **kw)
        elif ens == "canonical":
            mc = Canonical(self.atoms, temperature=300.0, **kw)
        elif ens == "hamiltonian":
            mc = HamiltonianCanonical(self.atoms, temperature=300.0, **kw)
        elif ens == "isobaric":
            cls = Isotension if case.get("isotension") else Isobaric
            mc = cls(self.atoms, temperature=300.0, pressure=0.0, **kw)
        elif ens == "grand":
            mc = GrandCanonical(self.atoms, exchange_atoms=self.template, temperature=300.0,
                                number_of_exchange_particles=case.get("nexch", 0), **kw)
        else:
            raise ValueError(ens)
        self.mc = mc
        common.set_rng(mc, self.rng)
        mc.context.rng = self.rng
        streams = self.streams

        def check(*_a, **_k):
            return streams.check()

        class ScriptedCriteria(BaseCriteria):
            verdict = True

            def evaluate(self, context):
                context.atoms.get_potential_energy()
                return self.verdict

        self.criteria_cls = ScriptedCriteria
        self.objs = []
        for o in case["objs"]:
            k = o["kind"]
            if k == "disp":
                m = DisplacementMove(label_array(o), operation=ScriptedOp(streams, "disp"),
                                     apply_constraints=o["apply_constraints"])
            elif k == "exch":
                m = ExchangeMove(label_array(o), operation=ScriptedOp(streams, "disp"),
                                 bias_towards_insert=o["bias"] / 1000.0, apply_constraints=o["apply_constraints"])
            elif k == "cell":
                m = CellMove(operation=ScriptedOp(streams, "cell"), scale_atoms=o["scale_atoms"],
                             apply_constraints=o["apply_constraints"])
            elif k == "ham":
                m = HamiltonianDisplacementMove(distribution=make_distribution(streams),
                                                operation=ScriptedIntegrator(streams))
            elif k == "user":
                m = UserMove(o["user_result"])
            if k != "user":
                m.max_attempts = o["max_attempts"]
                m.check_move = check
            if k in ("disp", "exch"):
                m.default_label = o["default_label"]
            self.objs.append(m)
        self.criteria = {}
        self.tops = {}
        for e in case["table"]:
            oid = e["oid"]
            if oid in self.tops:
                top = self.tops[oid]
            else:
                t = e["tree"]
                if t[0] == "L":
                    top = self.objs[t[1]]
                elif t[0] == "D":
                    top = CompositeDisplacementMove([self.objs[r] for r in t[1]])
                elif t[0] == "X":
                    top = CompositeExchangeMove([self.objs[r] for r in t[1]])
                    top.bias_towards_insert = t[2] / 1000.0
                elif t[0] == "P":
                    top = CompositeMove([self.objs[r] for r in t[1]])
                self.tops[oid] = top
            crit = ScriptedCriteria()
            self.criteria[e["name"]] = crit
            mc.add_move(top, criteria=crit, name=e["name"])
        self.tracker = None
        if ens == "grand":
            # a bare user move that is never scheduled: it receives the documented notifications (C05 oracle)
            self.tracker = UserMove(True)
            mc.add_move(self.tracker, criteria=ScriptedCriteria(), name="_tracker")
        self.current = None
        mc.yield_moves = lambda: iter([self.current])
        if pre_validate is not None:
            pre_validate(self)
        start_run(mc)

    # ------------------------------------------------------------------ running

    def replace_entry(self, name):
        """the user replaces the move of a table entry by a fresh, identically configured object under the SAME name
        (`mc.moves[name].move = new`): from then on the new object is the one that runs and is notified"""
        from quansino.moves.displacement import DisplacementMove
        from quansino.moves.exchange import ExchangeMove

        st = self.mc.moves[name]
        old = st.move
        i = next((k for k, o in enumerate(self.objs) if o is old), None)
        if i is None or type(old) not in (DisplacementMove, ExchangeMove):
            return
        if type(old) is ExchangeMove:
            new = ExchangeMove(np.array(old.labels, copy=True), operation=old.operation,
                               bias_towards_insert=old.bias_towards_insert, apply_constraints=old.apply_constraints)
        else:
            new = DisplacementMove(np.array(old.labels, copy=True), operation=old.operation,
                                   apply_constraints=old.apply_constraints)
        new.max_attempts = old.max_attempts
        new.check_move = old.check_move
        new.default_label = old.default_label
        st.move = new
        self.objs[i] = new
        for oid, top in list(self.tops.items()):
            if top is old:
                self.tops[oid] = new

    def run_trial(self, tr):
        if tr.get("replace"):
            self.replace_entry(tr["name"])
        self.rng.draws = list(tr["draws"])
        self.streams.ops = [list(v) for v in tr["ops"]]
        self.streams.checks = [bool(c) for c in tr["checks"]]
        for p in tr.get("presel", []):
            o = self.objs[p[0]]
            if p[1] == "D":
                o.to_displace_labels = p[2]
            elif p[1] == "X":
                o.to_delete_label = p[2]
            elif p[1] == "A":
                o.to_add_atoms = self.mc.context.exchange_atoms.copy()
            elif p[1] == "B":
                # a species of another size than the template (two copies of it): still ONE particle
                o.to_add_atoms = self.mc.context.exchange_atoms.copy() + self.mc.context.exchange_atoms.copy()
        self.current = tr["name"]
        self.criteria[tr["name"]].verdict = bool(tr["verdict"])
        for _ in self.mc.step():
            pass
        self.mc.step_count += 1          # as `irun` does after every step: the simulation has a history when the next run starts
        (name, verdict), = self.mc.move_history
        return {True: "T", False: "F", None: "N"}[verdict]

    # ------------------------------------------------------------------ observing

    def fixed(self):
        cons = self.atoms.constraints
        if not cons or type(cons[0]).__name__ != "FixAtoms":
            return None
        return [int(i) for i in cons[0].index]

    def obj_str(self, o, kind):
        if kind not in ("disp", "exch"):
            return "-"
        ta = getattr(o, "to_add_atoms", None)
        td = getattr(o, "to_delete_label", None)
        return "/".join([s_ints(o.labels), s_opt(o.to_displace_labels), s_opt(o.displaced_labels), s_opt(td),
                         "A" if ta is not None else "n"])

    def snapshot(self, outcome):
        a = self.atoms
        c = self.mc.context
        cell = a.cell.array
        offdiag = cell - np.diag(np.diag(cell))
        if np.any(offdiag != 0):
            raise ScriptError("cell is no longer diagonal")
        f = self.fixed()
        last_pos = getattr(c, "last_positions", None)
        lp = s_ints(_int(x) for x in np.asarray(last_pos).ravel()) if last_pos is not None else "-"
        lc = getattr(c, "last_cell", None)
        lcs = s_ints(_int(x) for x in np.diag(np.asarray(lc))) if (lc is not None and self.case["ens"] == "isobaric") else "0:0:0"
        lm = getattr(c, "last_momenta", None)
        lms = s_ints(_int(x) for x in np.asarray(lm).ravel()) if (lm is not None and self.case["ens"] == "hamiltonian") else "-"
        added = s_ints(getattr(c, "_added_indices", []))
        deleted = s_ints(getattr(c, "_deleted_indices", []))
        delta = int(getattr(c, "particle_delta", 0))
        nex = int(getattr(c, "number_of_exchange_particles", 0))
        tmpl = getattr(c, "exchange_atoms", None)
        ts = s_rows(rows_of_template(tmpl)) if (tmpl is not None and self.case["ens"] == "grand") else "-"
        objs = ";".join(self.obj_str(o, oc["kind"]) for o, oc in zip(self.objs, self.case["objs"]))
        return (f"{outcome} c={s_ints(_int(x) for x in np.diag(cell))} f={'none' if f is None else s_ints(f)} "
                f"r={s_rows(rows_of(a))} h={objs} x={lp}|{lcs}|{lms}|{added}|{deleted}|{delta}|{nex} t={ts}")

    def full_state(self):
        """everything C03 speaks about, for the before/after oracle (no model involved)"""
        a = self.atoms
        return {
            "arrays": {k: (str(v.dtype), v.tolist()) for k, v in sorted(a.arrays.items())},
            # bit for bit: equal VALUES are not enough (-0.0 == 0.0, and the sign of a zero shows in every file written)
            "bits": {k: hashlib.sha1(np.ascontiguousarray(v).tobytes()).hexdigest()[:16] for k, v in sorted(a.arrays.items())}
                    | {"cell": hashlib.sha1(np.ascontiguousarray(a.cell.array).tobytes()).hexdigest()[:16]},
            "cell": a.cell.array.tolist(),
            "pbc": a.pbc.tolist(),
            "fixed": self.fixed(),
            "nconstraints": len(a.constraints),
            "labels": [o.labels.tolist() if hasattr(o, "labels") else None for o in self.objs],
            "presel": [[_n(getattr(o, "to_displace_labels", None)), _n(getattr(o, "to_delete_label", None)),
                        getattr(o, "to_add_atoms", None) is not None] for o in self.objs],
            "template": None if self.template is None else {k: v.tolist() for k, v in sorted(self.mc.context.exchange_atoms.arrays.items())},
            # Hamiltonian contexts: between trials the kinetic reference is the kinetic energy of the momenta the atoms carry
            # (nothing of an abandoned trajectory stays in it)
            "ke_reference_current": None if not hasattr(self.mc.context, "last_kinetic_energy") or "momenta" not in a.arrays
            else bool(abs(float(self.mc.context.last_kinetic_energy) - float(a.get_kinetic_energy()))
                      <= 1e-9 * max(1.0, abs(float(a.get_kinetic_energy())))),
            "ctx": {"added": [int(i) for i in getattr(self.mc.context, "_added_indices", [])],
                    "deleted": [int(i) for i in getattr(self.mc.context, "_deleted_indices", [])],
                    "delta": int(getattr(self.mc.context, "particle_delta", 0)),
                    "nexch": int(getattr(self.mc.context, "number_of_exchange_particles", 0))},
        }


def _n(x):
    return None if x is None else int(x)


def rows_of_template(t):
    n = len(t)
    out = []
    for i in range(n):
        tag = int(t.arrays["tags"][i]) if "tags" in t.arrays else 0
        out.append([_int(x) for x in t.positions[i]] + [0, 0, 0] + [int(t.numbers[i]), tag, 0, 0, 0, 0])
    return out


# ----------------------------------------------------------------------- protocol line


def tree_str(t):
    if t[0] == "L":
        return f"L{t[1]}"
    if t[0] == "D":
        return "D" + ":".join(map(str, t[1]))
    if t[0] == "P":
        return "P" + ":".join(map(str, t[1]))
    return "X" + ":".join(map(str, [t[2], *t[1]]))


def model_line(case):
    objs = []
    for o in case["objs"]:
        objs.append(",".join([KINDCHAR[o["kind"]], s_ints(o.get("labels", [])), s_opt(o.get("default_label")),
                              str(o.get("bias", 500)), str(o.get("max_attempts", 1)),
                              str(int(o.get("apply_constraints", True))), str(int(o.get("scale_atoms", True))),
                              str(int(o.get("user_result", True)))]))
    ents = [f"{e['name']}={e['oid']}={tree_str(e['tree'])}" for e in case["table"]]
    trials = []
    for tr in case["trials"]:
        pres = "+".join(f"{p[0]}/{p[1]}/{p[2]}" if p[1] not in ("A", "B") else f"{p[0]}/{p[1]}" for p in tr.get("presel", [])) or "-"
        ops = s_ints(x for v in tr["ops"] for x in v)
        trials.append(",".join([tr["name"], str(int(tr["verdict"])), s_ints(tr["draws"]), ops,
                                s_ints(int(c) for c in tr["checks"]), pres]))
    fixed = "none" if case["fixed"] is None else s_ints(case["fixed"])
    lastmom = s_ints(x for r in case["rows"] for x in r[3:6]) if case["ens"] == "hamiltonian" else "-"
    tmpl = s_rows(case["template"]) if case.get("template") and case["ens"] == "grand" else "-"
    return " ".join(["mm", case["ens"], "A", s_ints(case["cell"]), fixed, s_rows(case["rows"]), "T", tmpl,
                     "N", str(case.get("nexch", 0)), "M", lastmom, "H", *objs, "E", *ents, "R", *trials])


def run_real(case, calc_factory=make_calc, hooks=None, snap=True):
    """run every trial on the real code; returns snapshots, per-trial before/after full states"""
    sim = Sim(case, calc_factory)
    out = {"snapshots": [], "outcomes": [], "before": [], "after": [], "rnglog": [], "consumed": [], "extra": []}
    for k, tr in enumerate(case["trials"]):
        if hooks and "pre" in hooks:
            hooks["pre"](sim, k, out)       # e.g. a run boundary: the user edits the atoms, the next run() validates
        before = sim.full_state()
        if hooks and "before" in hooks:
            hooks["before"](sim, tr)
        sim.streams.nops = sim.streams.nchecks = 0
        sim.rng.log = []
        try:
            o = sim.run_trial(tr)
        except Exception as ex:  # noqa: BLE001  (recorded, judged by the oracle)
            import traceback

            out["exception"] = type(ex).__name__
            out["message"] = str(ex)[:300]
            out["exception_at"] = len(out["outcomes"])
            out["trace"] = traceback.format_exc()[-1200:]
            break
        out["outcomes"].append(o)
        if snap:
            out["snapshots"].append(sim.snapshot(o))
        out["before"].append(before)
        out["after"].append(sim.full_state())
        out["rnglog"].append(list(sim.rng.log))
        out["consumed"].append([len(sim.rng.log), sim.streams.nops, sim.streams.nchecks])
        extra = {"displaced": [_n(getattr(ob, "displaced_labels", None)) if not isinstance(getattr(ob, "displaced_labels", None), list) else None
                               for ob in sim.objs],
                 "comp": {}, "notif": []}
        for oid, top in sim.tops.items():
            dl = getattr(top, "displaced_labels", None)
            if isinstance(dl, list):
                extra["comp"][str(oid)] = {"displaced": [_n(x) for x in dl], "nmoved": int(top.number_of_moved_particles)}
        if sim.tracker is not None:
            extra["notif"] = [n for n in sim.tracker.notifications]
            sim.tracker.notifications = []
        out.setdefault("extra", []).append(extra)
        if hooks and "after" in hooks:
            hooks["after"](sim, tr, o, out)
    out["sim"] = sim
    return out


# ----------------------------------------------------------------------- case generation


def gen_labels(rng, n, scheme=None):
    scheme = scheme or rng.choice(["arange", "arange", "pairs", "negatives", "scrambled", "allneg"])
    if scheme == "arange":
        return list(range(n))
    if scheme == "pairs":
        return [i // 2 for i in range(n)]
    if scheme == "negatives":
        return [(-1 if rng.random() < 0.35 else i) for i in range(n)]
    if scheme == "scrambled":
        pool = [rng.choice([0, 2, 2, 5, 7, 7, 9, -1, -3]) for _ in range(n)]
        return pool
    return [-1] * n


def gen_case(rng, ens, tier, max_trials=None):
    n = rng.randint(2, 6)
    zs = [rng.choice([1, 8, 29]) for _ in range(n)]
    rows = []
    for i in range(n):
        rows.append([rng.randint(-5, 5) for _ in range(3)] + [rng.randint(-3, 3) for _ in range(3)]
                    + [zs[i], rng.randint(0, 4), 100 + i, rng.randint(-2, 2), rng.randint(0, 9), rng.randint(0, 9)])
    cell = [rng.randint(8, 12) for _ in range(3)]
    fixed = None
    if rng.random() < 0.45:
        k = rng.randint(1, max(1, n // 2))
        fixed = sorted(rng.sample(range(n), k))
    case = {"ens": ens, "rows": rows, "cell": cell, "fixed": fixed}
    if ens == "grand":
        k = rng.choice([1, 1, 2, 1, 1, 2, 1, 0])      # 0: no exchange atoms configured (the driver's default)
        case["template"] = [[rng.randint(-2, 2) for _ in range(3)] + [0, 0, 0] + [rng.choice([1, 8]), rng.choice([0, 0, 3]), 0, 0, 0, 0]
                            for _ in range(k)]
        case["nexch"] = rng.randint(0, 5)
    if ens == "isobaric":
        case["isotension"] = rng.random() < 0.4
    kinds = {"base": ["user"], "canonical": ["disp", "disp", "disp", "user"], "hamiltonian": ["ham", "ham", "disp"],
             "isobaric": ["disp", "cell", "cell"], "grand": ["disp", "exch", "exch", "exch", "user"]}[ens]
    nobj = rng.randint(1, 4)
    shared_labels = gen_labels(rng, n)
    shared_default = rng.choice([None, None, None, 0, 7, -1])
    homogeneous = rng.random() < 0.7
    objs = []
    for _ in range(nobj):
        k = rng.choice(kinds)
        o = {"kind": k, "labels": [], "default_label": None, "bias": 500, "max_attempts": rng.choice([1, 1, 2, 3]),
             "apply_constraints": rng.random() < 0.8, "scale_atoms": rng.random() < 0.7, "user_result": rng.random() < 0.7}
        if k in ("disp", "exch"):
            o["label_dtype"] = rng.choice(["int64", "int64", "int64", "int32", "int16", "uint16", "uint8", "list"])
            o["labels"] = list(shared_labels) if homogeneous else gen_labels(rng, n)
            o["default_label"] = shared_default if homogeneous else rng.choice([None, None, None, 0, 7, -1])
            o["bias"] = rng.choice([500, 500, 0, 1000, 300])
        if k == "ham":
            o["max_attempts"] = rng.choice([1, 2])
        objs.append(o)
    case["objs"] = objs
    table = []
    names = "abcdef"
    nent = rng.randint(1, 3)
    oid = 0
    for j in range(nent):
        pick = rng.random()
        idx = list(range(nobj))
        disp = [i for i in idx if objs[i]["kind"] == "disp"]
        exch = [i for i in idx if objs[i]["kind"] == "exch"]
        if pick < 0.45 or (not disp and not exch):
            tree = ["L", rng.choice(idx)]
        elif pick < 0.65 and disp:
            r = rng.choice(disp)
            rs = [r] * rng.randint(2, 3) if (rng.random() < 0.5 or not homogeneous) else [rng.choice(disp) for _ in range(rng.randint(2, 4))]
            tree = ["D", rs]
        elif pick < 0.85 and exch:
            r = rng.choice(exch)
            rs = [r] * rng.randint(2, 3) if (rng.random() < 0.5 or not homogeneous) else [rng.choice(exch) for _ in range(rng.randint(2, 3))]
            tree = ["X", rs, rng.choice([500, 0, 1000])]
        else:
            rs = [rng.choice(idx) for _ in range(rng.randint(2, 3))]
            if any(objs[r]["kind"] == "exch" for r in rs) and rng.random() < 0.85:
                # an exchange move next to another label-bearing move inside one *plain* composite: recorded
                # defect (known finding: labels/indices go stale inside the composite), keep it rare
                x = next(r for r in rs if objs[r]["kind"] == "exch")
                rs = [r for r in rs if objs[r]["kind"] == "user"] + [x]
                rng.shuffle(rs)
            if sum(objs[r]["kind"] == "exch" for r in rs) >= 2 and rng.random() < 0.85:
                # two exchange moves inside one *plain* composite: recorded defect (known finding), keep it rare
                first = True
                for q, r in enumerate(rs):
                    if objs[r]["kind"] == "exch":
                        if not first:
                            rs[q] = rng.choice(disp) if disp else rs[0]
                        first = False
                if sum(objs[r]["kind"] == "exch" for r in rs) >= 2:
                    rs = rs[:1]
            tree = ["P", rs]
        if table and rng.random() < 0.12:
            e = rng.choice(table)
            table.append({"name": names[j], "oid": e["oid"], "tree": e["tree"]})
        elif tree[0] == "L":
            table.append({"name": names[j], "oid": 1000 + tree[1], "tree": tree})  # identity of the leaf object
        else:
            table.append({"name": names[j], "oid": oid, "tree": tree})
            oid += 1
    for e in list(table):
        if e["tree"][0] == "X" and rng.random() < 0.6:
            # a member of a composite exchange move is ALSO scheduled on its own, under another table name (the same
            # object, as in `mc.add_move(m, name="single"); mc.add_move(m * 2, name="composite")`): whatever the composite
            # leaves pending on the member (a one-shot pre-selection) would be consumed by the member's next trial
            r = rng.choice(e["tree"][1])
            if not any(t["name"] == f"x{r}" for t in table):
                table.append({"name": f"x{r}", "oid": 1000 + r, "tree": ["L", r]})
    if ens == "grand":
        xs = [i for i in range(nobj) if objs[i]["kind"] == "exch"]
        if len(xs) >= 2 and case.get("template") and rng.random() < 0.35:
            # a SWAP: a plain composite whose first member deletes a pre-selected particle and whose second member
            # inserts a pre-selected species (net particle change 0 or ±0); unlike two un-directed exchange moves in a
            # plain composite (recorded finding) this works on the pinned tree and must keep working
            x0, x1 = rng.sample(xs, 2)
            table.append({"name": "swap", "oid": oid, "tree": ["P", [x0, x1]], "swap": True})
            oid += 1
    case["table"] = table
    nt = max_trials or (rng.randint(3, 10) if tier == "quick" else rng.randint(5, 25))
    trials = []
    ncell = 0
    for _ in range(nt):
        e = rng.choice(table)
        has_cell = any(objs[r]["kind"] == "cell" for r in tree_refs(e["tree"]))
        if has_cell:
            # valid both as scale factors and as displacement vectors; keep integer cells small
            ncell += 1
            ops = [[(rng.choice([1, 1, 2]) if ncell <= 6 else 1) for _ in range(3)] for _ in range(12)]
        else:
            ops = [[rng.randint(-3, 3) for _ in range(3)] for _ in range(12)]
        pv = rng.random()
        tr = {"name": e["name"], "verdict": pv < 0.5, "draws": [rng.randrange(1000) for _ in range(10)], "ops": ops,
              "checks": [rng.random() < 0.7 for _ in range(12)], "presel": []}
        # boundary of the insertion/deletion coin: `random() < bias` with the draw exactly AT the bias (-> deletion)
        xrefs = [r for r in tree_refs(e["tree"]) if objs[r]["kind"] == "exch"]
        if xrefs and rng.random() < 0.15:
            b = e["tree"][2] if e["tree"][0] == "X" else objs[xrefs[0]].get("bias", 500)
            if 0 < b < 1000:
                tr["draws"][0] = b + rng.choice([0, 0, -1, 1])
        if rng.random() < 0.12:
            refs = [r for r in tree_refs(e["tree"]) if objs[r]["kind"] in ("disp", "exch")]
            if refs and e["tree"][0] == "L":
                r = refs[0]
                lab = rng.choice(objs[r]["labels"] + [99]) if objs[r]["labels"] else 0
                if objs[r]["kind"] == "disp":
                    tr["presel"].append([r, "D", lab])
                else:
                    tr["presel"].append(rng.choice([[r, "A"], [r, "B"], [r, "X", lab], [r, "X", lab]]))
        if rng.random() < 0.1 and e["tree"][0] == "D":
            # a target pre-selected on a member of a composite displacement move (the composite draws its own)
            r = rng.choice(tree_refs(e["tree"]))
            if objs[r]["labels"]:
                tr["presel"].append([r, "D", rng.choice(objs[r]["labels"])])
        if e["tree"][0] == "X" and rng.random() < 0.3:
            # one-shot pre-selections (`to_delete_label`, `to_add_atoms`) placed on MEMBERS of a composite exchange move
            # before a trial of the composite: the composite draws its own targets (a pre-selected species is inserted
            # by the insertion branch), and none of them may be left on a member afterwards — accepted, rejected or failed
            for r in rng.sample(sorted(set(e["tree"][1])), rng.randint(1, len(set(e["tree"][1])))):
                lab = rng.choice(objs[r]["labels"] + [99]) if objs[r]["labels"] else 0
                tr["presel"].append(rng.choice([[r, "X", lab], [r, "X", lab], [r, "A"], [r, "B"]]))
        if (e["tree"][0] == "L" and objs[e["tree"][1]]["kind"] in ("disp", "exch") and rng.random() < 0.06
                and sum(1 for t in table if e["tree"][1] in tree_refs(t["tree"])) == 1):
            tr["replace"] = True        # the entry's move object is replaced by an identical fresh one before this trial
        if e.get("swap"):
            x0, x1 = e["tree"][1]
            lab = rng.choice(objs[x0]["labels"] + [99]) if objs[x0]["labels"] else 0
            tr["presel"] = [[x0, "X", lab], [x1, rng.choice(["A", "A", "B"])]]
        trials.append(tr)
    case["trials"] = trials
    if rng.random() < 0.12:
        # labels are identifiers, not small numbers: the same case with every non-negative label shifted by 10^6 (close
        # large identifiers are still different particles)
        big = 10**6
        for o in objs:
            o["labels"] = [l + big if l >= 0 else l for l in o["labels"]]
            if o.get("label_dtype") in ("int16", "uint16", "uint8"):
                o["label_dtype"] = "int64"     # (identifiers of that size do not fit the narrow dtypes)
            if o.get("default_label") is not None and o["default_label"] >= 0:
                o["default_label"] += big
        for tr in trials:
            for p in tr["presel"]:
                if len(p) == 3 and p[2] is not None and p[2] >= 0:
                    p[2] += big
        case["big_labels"] = True
    return case


def tree_refs(t):
    return [t[1]] if t[0] == "L" else list(t[1])
