"""Harness self-test run by MANIFEST.setup_cmd: model driver answers, MANIFEST validates."""
import json
import subprocess
import sys
from pathlib import Path

sys.path.insert(0, str(Path(__file__).resolve().parent))
import common

out = common.run_model(["alg DDX A L 0 L 1", "nonsense"])
assert out == ["ok CompositeDisplacementMove 0,1", "bad-op"], out
m = json.loads((common.VERIF / "MANIFEST.json").read_text())
assert m["version"] == 1 and m["checks"]
try:
    r = subprocess.run(["python3-vt", "-c", (
        "import json,jsonschema,sys;"
        "jsonschema.validate(json.load(open('/verif/MANIFEST.json')),json.load(open('/root/.vp/MANIFEST.schema.json')))")],
        capture_output=True, text=True, timeout=60)
    if r.returncode != 0 and "No such file" not in r.stderr:
        print(r.stderr[-500:])
        sys.exit(1)
except FileNotFoundError:
    pass
print("selftest ok")
