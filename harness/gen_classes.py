"""Translator (DESIGN §3 T, §6 C08): class specs of the live quansino package -> lean/QGen/Classes.lean.

Walks every module under `quansino`, finds every *serializable component* by the mechanical rule of DESIGN
§6 C08 — a class with both `to_dict` and `from_dict` that is not a `typing.Protocol`, not `inspect.isabstract`
and whose action method is not the inherited do-nothing stub (`BaseOperation.calculate`, `BaseMove.__call__`,
`BaseIntegrator.integrate`); drivers are included for the simulation-level clause — and extracts for each:

* the name(s) under which the registry holds it, the runtime protocols it satisfies;
* constructor parameters (through `**kwargs` forwarding up the MRO), which ones are required;
* the **settings**: constructor parameters + tunables (public, non-callable instance attributes set by
  `__init__` that persist; for drivers also the public settable properties, the public attributes of the
  context, the generator state and the step counter), with the attribute each is stored in and the
  conversion the constructor applies (`Verlet`: `dt -> dt*fs`);
* by **differential probing** of instances — one probe with every setting at a distinct non-default
  sentinel, and for each setting a second probe that differs in that setting only — the key paths at which
  `to_dict()` emits each setting (or that it does not);
* the child slots (operation of a move, moves of a composite, operations of a `CompositeOperation`,
  move + criteria of a `MoveStorage`, move table of a driver), where they are emitted, and under which
  protocols `from_dict` accepts a child (observed by recording `get_typed_class` calls and by offering a
  child of every kind);
* how `todict` (the method ASE's JSON encoder calls) is bound along the MRO.

Excluded by name from the tunables (reasons are part of the rule, DESIGN §6 C08):
"""
from __future__ import annotations

import quansino.mc  # noqa: F401  (first: import-order defect C08 #15 on unfixed trees)

import copy
import importlib
import os
import inspect
import pkgutil
import sys
import warnings
from pathlib import Path

import numpy as np
from ase import Atoms
from ase.units import fs

import quansino
from quansino import registry as qregistry
from quansino.integrators.core import BaseIntegrator
from quansino.mc.driver import Driver
from quansino.moves.core import BaseMove
from quansino.operations.core import BaseOperation
from quansino.protocols import Criteria, Integrator, Move, Operation
from quansino.utils.moves import MoveStorage

VERIF = Path(__file__).resolve().parent.parent
OUT = Path(os.environ.get("VERIF_LEAN_DIR", VERIF / "lean")) / "QGen" / "Classes.lean"

# ---------------------------------------------------------------------------------- the exclusion rule

EXCLUDED = {
    # per-call transients, documented as "reset after each move"
    "to_displace_labels": "per-call transient (reset after each move)",
    "displaced_labels": "per-call transient (reset after each move)",
    "to_add_atoms": "per-call transient (reset after each move)",
    "to_delete_label": "per-call transient (reset after each move)",
    # caches derived from another attribute
    "unique_labels": "cache derived from `labels`",
    # references
    "context": "reference to the simulation context",
    "composite_move_type": "reference to a class",
    # callables
    "check_move": "callable",
    "distribution": "callable",
}
# drivers: DESIGN §9.1 — observers and files are deliberately not serialised; the rest is recomputed
DRIVER_EXCLUDED = {
    "logfile": "observer (files are deliberately not serialised)",
    "trajectory": "observer (files are deliberately not serialised)",
    "restart_file": "observer (files are deliberately not serialised)",
    "default_logger": "observer",
    "default_trajectory": "observer",
    "default_restart": "observer",
    "file_manager": "observer manager",
    "move_history": "documented transient (history of the current step)",
    "acceptance_rate": "statistic recomputed by every step",
    "gamma": "recomputed by every step",
    "variation_coef": "recomputed by every step",
    "max_steps": "run control, set by every irun()",
    "schemes": "table of callables",
    "update_functions": "table of callables",
    "context": "reference (its attributes are settings of their own)",
    "moves": "child slot",
}
CONTEXT_EXCLUDED = {
    "atoms": "reference to the atoms of the driver",
    "rng": "reference to the generator of the driver",
    "particle_delta": "per-trial bookkeeping, reset by save_state/revert_state",
}
# the simulation-level list of the property text (C08) -> setting names
SIM_LEVEL = {
    "temperature", "pressure", "external_stress", "chemical_potential", "number_of_exchange_particles",
    "accessible_volume", "exchange_atoms", "max_cycles", "seed", "rng_state", "step_count",
}
__doc__ += "".join(f"  {k:28s} {v}\n" for k, v in {**EXCLUDED, **DRIVER_EXCLUDED, **CONTEXT_EXCLUDED}.items())

KINDS = ["operation", "integrator", "criteria", "move", "storage", "driver"]
PROTOCOLS = {"operation": Operation, "integrator": Integrator, "criteria": Criteria, "move": Move}
IMPLS = {
    "BaseOperation.from_dict": "plain", "BaseIntegrator.from_dict": "plain", "BaseCriteria.from_dict": "plain",
    "BaseMove.from_dict": "baseMove", "CompositeMove.from_dict": "compositeMove",
    "CompositeOperation.from_dict": "compositeOperation", "MoveStorage.from_dict": "moveStorage",
    "MonteCarlo.from_dict": "monteCarlo", "ForceBias.from_dict": "forceBias",
}


# ---------------------------------------------------------------------------------- discovery


def the_registry() -> dict:
    return qregistry.__dict__["__class_registry"]


def all_classes() -> dict[type, str]:
    seen: dict[type, str] = {}
    for mi in pkgutil.walk_packages(quansino.__path__, "quansino."):
        m = importlib.import_module(mi.name)
        for c in vars(m).values():
            if inspect.isclass(c) and c.__module__ == m.__name__:
                seen[c] = m.__name__
    return seen


def is_component(c: type) -> bool:
    if not (hasattr(c, "to_dict") and hasattr(c, "from_dict")):
        return False
    if getattr(c, "_is_protocol", False) or inspect.isabstract(c):
        return False
    if getattr(c, "calculate", None) is BaseOperation.calculate:
        return False
    if getattr(c, "__call__", None) is BaseMove.__call__:
        return False
    if getattr(c, "integrate", None) is BaseIntegrator.integrate:
        return False
    return True


_DISCOVERED: list[type] | None = None


def discover(refresh: bool = False) -> list[type]:
    global _DISCOVERED
    if _DISCOVERED is None or refresh:
        _DISCOVERED = sorted((c for c in all_classes() if is_component(c)), key=lambda c: (c.__name__, c.__module__))
    return _DISCOVERED


def implements(c: type, proto) -> bool:
    """`issubclass(c, proto)`; runtime protocols with data members refuse `issubclass` (TypeError): then compare the
    method members structurally, so that the translator still produces a table and the real round trips can judge"""
    try:
        return issubclass(c, proto)
    except TypeError:
        members = getattr(proto, "__protocol_attrs__", None) or set()
        methods = [a for a in members if callable(getattr(proto, a, None))]
        return bool(methods) and all(callable(getattr(c, a, None)) for a in methods)


def protos_of(c: type) -> list[str]:
    out = [k for k, p in PROTOCOLS.items() if implements(c, p)]
    if issubclass(c, MoveStorage):
        out.append("storage")
    if issubclass(c, Driver):
        out.append("driver")
    return out


def kind_of(c: type) -> str:
    p = protos_of(c)
    for k in ("driver", "storage", "move", "criteria", "integrator", "operation"):
        if k in p:
            return k
    return "operation"


# ---------------------------------------------------------------------------------- constructor signature


def ctor_params(c: type) -> tuple[list[inspect.Parameter], list[str]]:
    """parameters `c(...)` may accept as keywords: its own, and — when it takes `**kwargs` — those of the next
    `__init__` up the MRO (candidates; `validate_forwarded` tries them).  Returns (params, names of forwarded)"""
    out: dict[str, inspect.Parameter] = {}
    forwarded: list[str] = []
    mro = [k for k in c.__mro__ if "__init__" in k.__dict__ and k is not object]
    follow = True
    first = True
    for k in mro:
        if not follow:
            break
        follow = False
        try:
            sig = inspect.signature(k.__dict__["__init__"])
        except (TypeError, ValueError):
            break
        for name, p in list(sig.parameters.items())[1:]:
            if p.kind is inspect.Parameter.VAR_KEYWORD:
                follow = True
            elif p.kind is inspect.Parameter.VAR_POSITIONAL:
                continue
            elif name not in out:
                out[name] = p
                if not first:
                    forwarded.append(name)
        first = False
    return list(out.values()), forwarded


# ---------------------------------------------------------------------------------- sentinels


class Unknown:
    """no sentinel could be built for this parameter (annotation not understood)"""


def ann_text(p: inspect.Parameter) -> str:
    a = p.annotation
    return "" if a is inspect.Parameter.empty else (a if isinstance(a, str) else getattr(a, "__name__", repr(a)))


def slot_kind(name: str, ann: str) -> tuple[str, str] | None:
    """(shape, kind) if the parameter holds child components"""
    a = ann.replace(" ", "")
    if "Callable" in a:
        return None
    if a.startswith("list["):
        if "Move" in a:
            return ("list", "move")
        if "Operation" in a:
            return ("list", "operation")
        return None
    if "IntegratorType" in a or a.startswith("Integrator"):
        return ("single", "integrator")
    if "OperationType" in a or a.startswith("Operation") or a.startswith("BaseOperation"):
        return ("single", "operation")
    if "CriteriaType" in a or a.startswith("Criteria"):
        return ("single", "criteria")
    if "MoveType" in a or a.startswith("Move|") or a == "Move":
        return ("single", "move")
    return None


def value_sentinel(name: str, ann: str, default, idx: int, alt: bool):
    """a non-default value of the right type for a plain parameter; `alt` gives a second, different one"""
    a = ann.replace(" ", "")
    j = idx + (17 if alt else 0)
    has_default = default is not inspect.Parameter.empty
    if "Callable" in a:
        return Unknown
    if has_default and isinstance(default, bool):
        return (not default) if not alt else default
    if has_default and isinstance(default, int):
        return default + 3 + 5 * j
    if has_default and isinstance(default, float):
        return (abs(default) + 0.125) * (1.25 + j / 16)
    if has_default and isinstance(default, str):
        if "Literal[" in a:
            opts = [o.strip("'\" ") for o in a[a.index("Literal[") + 8:].split("]")[0].split(",")]
            others = [o for o in opts if o != default]
            if others and not alt:
                return others[0]
            return default if alt else default + "x"
        return default + ("x" if not alt else "y")
    # no usable default: go by the annotation
    if "NDArray[np.bool" in a:
        m = np.zeros((3, 3), dtype=bool)
        m[j % 3, (j + 1) % 3] = True
        m[(j + 2) % 3, (j + 2) % 3] = True
        return m
    if "Stress" in a:
        return np.arange(9, dtype=float).reshape(3, 3) * 0.001 + 0.0001 * (j + 1)
    if "IntegerArray" in a:
        return np.array([0, 1, 1, -1]) if not alt else np.array([2, 0, -1, 0])
    if "Atoms" in a:
        return Atoms("He" if not alt else "Ne", positions=[[0.25 * (j + 1), 0.0, 0.5]], cell=[5.0, 6.0, 7.0], pbc=True)
    if a.startswith("bool"):
        return not alt
    if a.startswith("int"):
        return 4 + 5 * j
    if a.startswith("float"):
        return 0.375 + j / 16
    if a.startswith("str"):
        return f"s{j}"
    return Unknown


class NoFalsy:
    """the type of this setting has no falsy value that the constructor would accept"""


def falsy_param(name: str, ann: str, default):
    """a *falsy* value of the right type for a constructor parameter (`x or default` / `if value:` patterns in a
    to_dict or a constructor only bite on falsy values): 0, 0.0, False, "", an empty / all-zero array"""
    a = ann.replace(" ", "")
    has_default = default is not inspect.Parameter.empty
    if "Callable" in a or "Literal[" in a:
        return NoFalsy
    if has_default and isinstance(default, bool):
        return False
    if has_default and isinstance(default, int):
        return 0
    if has_default and isinstance(default, float):
        return 0.0
    if has_default and isinstance(default, str):
        return ""
    if "NDArray[np.bool" in a:
        return np.zeros((3, 3), dtype=bool)
    if "Stress" in a:
        return np.zeros((3, 3))
    if "IntegerArray" in a:
        return np.array([], dtype=int)
    if "Atoms" in a:
        return Atoms() if has_default else NoFalsy
    if a.startswith("bool"):
        return False
    if a.startswith("int"):
        return 0
    if a.startswith("float"):
        return 0.0
    if a.startswith("str"):
        return ""
    return NoFalsy


def falsy_tunable(value):
    if isinstance(value, (bool, np.bool_)):
        return False
    if isinstance(value, (int, np.integer)) or value is None:
        return 0
    if isinstance(value, (float, np.floating)):
        return 0.0
    if isinstance(value, str):
        return ""
    if isinstance(value, Atoms):
        return Atoms()
    if isinstance(value, np.ndarray):
        return np.zeros_like(value)
    if isinstance(value, dict):
        return {}
    if hasattr(value, "array") and hasattr(value, "copy"):  # ase Cell
        z = value.copy()
        z.array[:] = 0.0
        return z
    return NoFalsy


def same(a, b) -> bool:
    """equality of two setting values (arrays, Atoms, dicts, scalars), type-aware for bools"""
    try:
        if isinstance(a, Atoms) or isinstance(b, Atoms):
            return isinstance(a, Atoms) and isinstance(b, Atoms) and len(a) == len(b) and bool(a == b)
        if isinstance(a, np.ndarray) or isinstance(b, np.ndarray) or \
                (hasattr(a, "__array__") and hasattr(b, "__array__") and not isinstance(a, (np.generic,))):
            x, y = np.asarray(a), np.asarray(b)
            return x.shape == y.shape and (x.dtype.kind == "b") == (y.dtype.kind == "b") and bool(np.array_equal(x, y))
        if isinstance(a, dict) and isinstance(b, dict):
            return a.keys() == b.keys() and all(same(a[k], b[k]) for k in a)
        if isinstance(a, (list, tuple)) and isinstance(b, (list, tuple)):
            return len(a) == len(b) and all(same(x, y) for x, y in zip(a, b))
        if isinstance(a, (bool, np.bool_)) or isinstance(b, (bool, np.bool_)):
            return isinstance(a, (bool, np.bool_)) and isinstance(b, (bool, np.bool_)) and bool(a) == bool(b)
        if a is None or b is None:
            return a is None and b is None
        if isinstance(a, float) and isinstance(b, float) and a != a and b != b:
            return True
        return bool(a == b)
    except Exception:
        return False


# ---------------------------------------------------------------------------------- probe instances


def small_atoms() -> Atoms:
    a = Atoms("Cu4", positions=[[0, 0, 0], [1.8, 1.8, 0], [1.8, 0, 1.8], [0, 1.8, 1.8]], cell=[3.6, 3.7, 3.8], pbc=True)
    a.set_momenta(np.arange(12, dtype=float).reshape(4, 3) * 0.01)
    return a


REPRESENTATIVE = {  # a registered class of every kind, offered to every child slot to observe the typed lookup
    "operation": "Ball", "integrator": "Verlet", "criteria": "CanonicalCriteria", "move": "DisplacementMove",
    "storage": "MoveStorage",
}


def representative(kind: str):
    from quansino.integrators.displacement import Verlet
    from quansino.mc.criteria import CanonicalCriteria
    from quansino.moves.displacement import DisplacementMove
    from quansino.operations.displacement import Ball

    if kind == "operation":
        return Ball(0.0625)
    if kind == "integrator":
        return Verlet(0.5, 7, False)
    if kind == "criteria":
        return CanonicalCriteria()
    if kind == "move":
        return DisplacementMove(np.array([0, 1, 1, -1]), Ball(0.0625))
    if kind == "storage":
        return MoveStorage(representative("move"), representative("criteria"), 2, 0.5, 0)
    raise KeyError(kind)


def instance_attrs(obj) -> list[str]:
    names: set[str] = set()
    for k in type(obj).__mro__:
        sl = k.__dict__.get("__slots__", ())
        names |= set((sl,) if isinstance(sl, str) else sl)
    if hasattr(obj, "__dict__"):
        names |= set(vars(obj))
    names.discard("__weakref__")
    names.discard("__dict__")
    out = []
    for n in sorted(names):
        try:
            getattr(obj, n)
        except AttributeError:
            continue
        out.append(n)
    return out


def settable_properties(c: type) -> list[str]:
    out = []
    for k in c.__mro__:
        for n, v in k.__dict__.items():
            if isinstance(v, property) and v.fset is not None and not n.startswith("_") and n not in out:
                out.append(n)
    return sorted(out)


class Probe:
    """one probe instance of a class plus what was put into it"""

    def __init__(self, cls):
        self.cls = cls
        self.obj = None
        self.args: dict[str, object] = {}       # ctor arguments given
        self.children: dict[str, object] = {}   # slot name -> child / list of children
        self.set_after: dict[str, object] = {}  # tunables set by setattr after construction


def build(cls: type, spec: dict, override: dict | None = None, alt_children: dict | None = None,
          explicit: bool = False) -> Probe:
    """an instance with every setting at its sentinel; `override`: setting name -> value (differential probe);
    `alt_children`: slot -> child(ren) to use instead of the representative ones; `explicit`: use exactly the
    children given (an absent list slot is empty, an absent optional slot is left to the constructor)"""
    override = override or {}
    pr = Probe(cls)
    kwargs = {}
    for s in spec["settings"]:
        if s["is_param"] and s["sentinel"] is not Unknown:
            kwargs[s["name"]] = copy.deepcopy(override.get(s["name"], s["sentinel"]))
    if spec["kind"] == "driver" and "atoms" not in kwargs:
        kwargs["atoms"] = copy.deepcopy(override.get("atoms", small_atoms()))
    for sl in spec["slots"]:
        if not sl["is_param"]:
            continue
        ch = (alt_children or {}).get(sl["name"])
        if ch is None and explicit:
            if sl["shape"] == "list":
                ch = []
            elif sl["required"]:
                raise ValueError(f"{cls.__name__}: required child slot {sl['name']} missing")
            else:
                continue
        elif ch is None:
            ch = representative(sl["probe_kind"])
            if sl["shape"] == "list":
                ch = [ch, representative(sl["probe_kind"])]
        kwargs[sl["name"]] = ch
        pr.children[sl["name"]] = ch
    with warnings.catch_warnings():
        warnings.simplefilter("ignore")
        obj = cls(**kwargs)
        for s in spec["settings"]:
            if not s["is_param"] and s["sentinel"] is not Unknown and not s.get("special"):
                v = copy.deepcopy(override.get(s["name"], s["sentinel"]))
                tgt = obj.context if s["on_ctx"] else obj
                setattr(tgt, s["attr"], v)
                pr.set_after[s["name"]] = v
        for s in spec["settings"]:
            if s.get("special") == "rng_state":
                n = override.get("rng_state", s["sentinel"])
                _sim_rng(obj).random(n)  # advance the generator: a non-default state
        if spec["kind"] == "driver" and hasattr(obj, "add_move") and "moves" in {sl["name"] for sl in spec["slots"]}:
            st = (alt_children or {}).get("moves")
            if st is None and explicit:
                st = {}
            if st is None:
                st = {"probe_a": representative("storage"), "probe_b": representative("storage")}
            for name, storage in st.items():
                obj.moves[name] = storage
            pr.children["moves"] = st
    pr.obj = obj
    pr.args = kwargs
    return pr


def _sim_rng(obj):
    """the simulation's generator, found by type (robust to the private name it is kept under)"""
    import numpy as _np

    for v in vars(obj).values():
        if isinstance(v, _np.random.Generator):
            return v
    return obj._rng


def documented_attributes(klass) -> set[str]:
    """names listed in the "Attributes" section of the class docstring (numpydoc)"""
    doc = klass.__dict__.get("__doc__") or ""
    out, inside = set(), False
    lines = doc.splitlines()
    for i, ln in enumerate(lines):
        t = ln.strip()
        if t in ("Attributes", "Attributes:"):
            inside = True
            continue
        if inside and i + 1 < len(lines) and set(lines[i + 1].strip()) == {"-"} and t and t != "Attributes":
            inside = False      # next section header
        if inside and ":" in t and not t.startswith("-"):
            name = t.split(":", 1)[0].strip()
            if name.isidentifier():
                out.add(name)
    return out


def read_setting(obj, s: dict):
    if s.get("special") == "rng_state":
        return _sim_rng(obj).bit_generator.state
    tgt = obj.context if s["on_ctx"] else obj
    return getattr(tgt, s["attr"])


def sections(d: dict) -> dict[str, dict]:
    top = {k: v for k, v in d.items() if k not in ("name", "kwargs", "attributes", "context", "moves")}
    return {"kwargs": dict(d.get("kwargs", {})), "attributes": dict(d.get("attributes", {})),
            "context": dict(d.get("context", {})), "top": top}


# ---------------------------------------------------------------------------------- spec extraction


def find_storage(obj, ctx, sentinel, obj2=None, ctx2=None, sentinel2=None) -> tuple[str, bool, str] | None:
    """(attr, on_ctx, conv) of the attribute that holds a constructor argument; with a second probe
    (`obj2`, built with `sentinel2` for this argument only) the attribute must follow the argument"""
    def follows(a, tgt2, conv):
        if obj2 is None:
            return True
        if tgt2 is None or not hasattr(tgt2, a):
            return False
        v2 = getattr(tgt2, a)
        return same(v2, sentinel2) if conv == "id" else (isinstance(v2, float) and v2 == sentinel2 * fs)

    for tgt, tgt2, on_ctx in ((obj, obj2, False), (ctx, ctx2, True)):
        if tgt is None:
            continue
        for a in instance_attrs(tgt):
            if same(getattr(tgt, a), sentinel) and follows(a, tgt2, "id"):
                return a, on_ctx, "id"
    if isinstance(sentinel, (int, float)) and not isinstance(sentinel, bool):
        for a in instance_attrs(obj):
            v = getattr(obj, a)
            if isinstance(v, float) and v == sentinel * fs and follows(a, obj2, "mulFs"):
                return a, False, "mulFs"
    return None


def validate_forwarded(cls: type, params: list[inspect.Parameter], forwarded: list[str]) -> list[inspect.Parameter]:
    """a parameter of a parent constructor reached through `**kwargs` is accepted only if the class does not
    already pass it itself (`AdaptiveForceBias` passes `delta` positionally): try each one"""
    if not forwarded:
        return params
    own = [p for p in params if p.name not in forwarded]

    def minimal(extra: inspect.Parameter | None):
        kw = {}
        for i, p in enumerate(own + ([extra] if extra is not None else [])):
            if p.default is not inspect.Parameter.empty and p is not extra:
                continue
            ann = ann_text(p)
            sk = slot_kind(p.name, ann)
            if p.name == "atoms":
                kw[p.name] = small_atoms()
            elif sk is not None:
                ch = representative(sk[1])
                kw[p.name] = [ch] if sk[0] == "list" else ch
            else:
                v = value_sentinel(p.name, ann, p.default, i + 1, False)
                if v is Unknown:
                    if p is extra:
                        return None
                    continue
                kw[p.name] = v
        return kw

    keep = list(own)
    for p in params:
        if p.name not in forwarded:
            continue
        kw = minimal(p)
        if kw is None:
            keep.append(p)  # cannot try it (no sentinel): keep the candidate
            continue
        try:
            with warnings.catch_warnings():
                warnings.simplefilter("ignore")
                cls(**kw)
            keep.append(p)
        except TypeError:
            pass
        except Exception:
            keep.append(p)
    return keep


def todict_binding(c: type) -> list[dict]:
    out = []
    for k in c.__mro__:
        if k is object:
            continue
        e = {"cls": k.__name__, "defines_to_dict": "to_dict" in k.__dict__, "todict": None}
        if "todict" in k.__dict__:
            f = k.__dict__["todict"]
            owner = next((q.__name__ for q in c.__mro__ if q.__dict__.get("to_dict") is f), None)
            if owner is not None:
                e["todict"] = ("aliasOf", owner)
            elif inspect.isfunction(f) and "to_dict" in f.__code__.co_names:
                e["todict"] = ("dynamic",)
            else:
                e["todict"] = ("opaque",)
        out.append(e)
    return out


def extract(cls: type) -> dict:
    reg = the_registry()
    kind = kind_of(cls)
    params, forwarded = ctor_params(cls)
    params = validate_forwarded(cls, params, forwarded)
    spec: dict = {
        "name": cls.__name__, "module": cls.__module__, "kind": kind,
        "registered": sorted(n for n, v in reg.items() if v is cls),
        "protos": protos_of(cls),
        "impl": IMPLS.get(getattr(cls.from_dict, "__func__", cls.from_dict).__qualname__, "unknown"),
        "from_dict_impl": getattr(cls.from_dict, "__func__", cls.from_dict).__qualname__,
        "ctor_accepts": [p.name for p in params],
        "ctor_required": [p.name for p in params if p.default is inspect.Parameter.empty],
        "settings": [], "slots": [], "excluded": {}, "notes": [],
    }
    is_driver = kind == "driver"
    # --- constructor parameters: slot, excluded, or plain setting
    idx = 0
    for p in params:
        ann = ann_text(p)
        if p.name in EXCLUDED or (is_driver and p.name in DRIVER_EXCLUDED):
            spec["excluded"][p.name] = EXCLUDED.get(p.name) or DRIVER_EXCLUDED[p.name]
            continue
        if is_driver and p.name == "atoms":
            continue  # positional, serialised at top level: added below
        sk = slot_kind(p.name, ann)
        if sk is not None:
            spec["slots"].append({"name": p.name, "shape": sk[0], "probe_kind": sk[1], "is_param": True,
                                  "required": p.default is inspect.Parameter.empty})
            continue
        idx += 1
        sent = value_sentinel(p.name, ann, p.default, idx, False)
        alt = value_sentinel(p.name, ann, p.default, idx, True)
        if p.default is not inspect.Parameter.empty and alt is not Unknown and not isinstance(p.default, bool) \
                and p.default is not None and not same(p.default, sent):
            alt = p.default  # the differential probe goes back to the default where there is one
        spec["settings"].append({"name": p.name, "attr": None, "on_ctx": False, "is_param": True, "conv": "id",
                                 "has_default": p.default is not inspect.Parameter.empty,
                                 "default": NoFalsy if p.default is inspect.Parameter.empty else p.default,
                                 "sentinel": sent, "alt": alt, "falsy": falsy_param(p.name, ann, p.default), "emit": []})
    if is_driver and hasattr(cls, "add_move"):
        spec["slots"].append({"name": "moves", "shape": "dict", "probe_kind": "storage", "is_param": False,
                              "required": False})
    # driver convenience parameters that take a move end up in the move table: they are not slots of their own
    if is_driver:
        conv = [sl for sl in spec["slots"] if sl["is_param"] and sl["probe_kind"] == "move"]
        for sl in conv:
            spec["excluded"][sl["name"]] = "convenience parameter: the move is stored in the move table (slot `moves`)"
        spec["slots"] = [sl for sl in spec["slots"] if sl not in conv]
        spec["ctor_required"] = [r for r in spec["ctor_required"] if r != "atoms"]
    # --- a first instance to find where the parameters are stored and which tunables exist
    pr = build(cls, spec)
    obj = pr.obj
    ctx = getattr(obj, "context", None) if is_driver else None
    for s in spec["settings"]:
        if s["sentinel"] is Unknown:
            spec["notes"].append(f"no sentinel for parameter {s['name']}")
            continue
        obj2 = ctx2 = None
        if s["alt"] is not Unknown:
            try:
                pr2 = build(cls, spec, override={s["name"]: s["alt"]})
                obj2 = pr2.obj
                ctx2 = getattr(obj2, "context", None) if is_driver else None
            except Exception:
                obj2 = None
        st = find_storage(obj, ctx, s["sentinel"], obj2, ctx2, s["alt"])
        if st is None:
            spec["notes"].append(f"parameter {s['name']} is not stored in any attribute")
            s["attr"] = s["name"]
        else:
            s["attr"], s["on_ctx"], s["conv"] = st
    for sl in spec["slots"]:
        ch = pr.children.get(sl["name"])
        sl["attr"] = next((a for a in instance_attrs(obj) if getattr(obj, a) is ch), sl["name"])
        if sl["is_param"] and sl["required"] is False:
            try:
                with warnings.catch_warnings():
                    warnings.simplefilter("ignore")
                    kw = {k: v for k, v in pr.args.items() if k != sl["name"]}
                    d = getattr(cls(**kw), sl["attr"])
                sl["dflt"] = kind_of(type(d)) if d is not None and not isinstance(d, (list, dict)) else None
            except Exception:
                sl["dflt"] = None
        else:
            sl["dflt"] = None
    # --- tunables
    taken = {(s["on_ctx"], s["attr"]) for s in spec["settings"]} | {(False, sl["attr"]) for sl in spec["slots"]}
    prop_names = settable_properties(cls) if is_driver else []

    def add_tunable(name: str, attr: str, on_ctx: bool, value):
        nonlocal idx
        idx += 1
        sent, alt = tunable_sentinels(value, idx)
        spec["settings"].append({"name": name, "attr": attr, "on_ctx": on_ctx, "is_param": False, "conv": "id",
                                 "has_default": True, "default": copy.deepcopy(value), "sentinel": sent, "alt": alt,
                                 "falsy": falsy_tunable(value), "emit": []})
        taken.add((on_ctx, attr))

    for a in instance_attrs(obj):
        if a.startswith("_") or (False, a) in taken:
            continue
        if a in EXCLUDED or (is_driver and a in DRIVER_EXCLUDED):
            spec["excluded"][a] = EXCLUDED.get(a) or DRIVER_EXCLUDED[a]
            continue
        v = getattr(obj, a)
        if callable(v):
            spec["excluded"][a] = "callable"
            continue
        if hasattr(v, "to_dict") and hasattr(type(v), "from_dict"):
            sub = [t for t in instance_attrs(v) if not t.startswith("_") and not callable(getattr(v, t))]
            if not sub:
                spec["excluded"][a] = "parameterless helper object"
                continue
        if is_driver and a == "atoms":
            continue
        add_tunable(a, a, False, v)
    # class-level attributes that the class's own docstring lists under "Attributes" (ForceBias.gamma_max_value): the user
    # tunes them on the instance, they are configuration like any other — unless annotated ClassVar (per-class tables)
    for klass in type(obj).__mro__:
        if not getattr(klass, "__module__", "").startswith("quansino"):
            continue
        documented = documented_attributes(klass)
        ann = getattr(klass, "__annotations__", {})
        for a, v in list(vars(klass).items()):
            if a.startswith("_") or a not in documented or (False, a) in taken:
                continue
            if callable(v) or isinstance(v, (property, classmethod, staticmethod)) or "ClassVar" in str(ann.get(a, "")):
                continue
            if a in EXCLUDED or (is_driver and a in DRIVER_EXCLUDED):
                continue
            add_tunable(a, a, False, getattr(obj, a))
    if is_driver:
        for a in prop_names:
            if a in DRIVER_EXCLUDED:
                spec["excluded"][a] = DRIVER_EXCLUDED[a]
                continue
            v = getattr(obj, a)
            # a property that forwards to a context attribute or to a stored parameter is that setting
            fwd = find_storage(obj, ctx, v) if not isinstance(v, (bool, type(None))) else None
            if any(s["name"] == a for s in spec["settings"]):
                continue
            if fwd is not None and (fwd[1], fwd[0]) in taken:
                continue
            if fwd is not None and fwd[1]:
                add_tunable(a, fwd[0], True, v)
            else:
                add_tunable(a, a, False, v)
        if ctx is not None:
            for a in instance_attrs(ctx):
                if a.startswith("_") or (True, a) in taken:
                    continue
                if a in CONTEXT_EXCLUDED:
                    spec["excluded"]["context." + a] = CONTEXT_EXCLUDED[a]
                    continue
                v = getattr(ctx, a)
                if callable(v):
                    continue
                add_tunable(a, a, True, v)
        # positional atoms, generator state
        spec["settings"].append({"name": "atoms", "attr": "atoms", "on_ctx": False, "is_param": True, "conv": "id",
                                 "has_default": False, "sentinel": small_atoms(), "alt": small_atoms() * (1, 1, 2),
                                 "falsy": NoFalsy, "emit": []})
        spec["settings"].append({"name": "rng_state", "attr": "<generator>.bit_generator.state", "on_ctx": False,
                                 "is_param": False, "conv": "id", "has_default": True, "sentinel": 5, "alt": 11,
                                 "falsy": 0, "special": "rng_state", "emit": []})
    for s in spec["settings"]:
        s["sim"] = (not is_driver) or s["is_param"] or s["name"] in SIM_LEVEL
    spec["settings"].sort(key=lambda s: s["name"])
    spec["slots"].sort(key=lambda s: s["name"])
    # --- instance facts
    spec["open_attrs"] = hasattr(obj, "__dict__")
    spec["settable"] = [a for a in instance_attrs(obj)] if not spec["open_attrs"] else []
    spec["mro"] = todict_binding(cls)
    probe_emission(cls, spec)
    probe_slots(cls, spec)
    return spec


def tunable_sentinels(value, idx: int):
    if isinstance(value, (bool, np.bool_)):
        return (not bool(value)), bool(value)
    if isinstance(value, (int, np.integer)):
        return int(value) + 3 + idx, int(value) + 40 + idx
    if isinstance(value, (float, np.floating)):
        v = float(value)
        v = 0.0 if v != v else v
        return (abs(v) + 0.125) * (1.25 + idx / 16), (abs(v) + 0.125) * (2.5 + idx / 16)
    if value is None:
        return 3 + idx, 40 + idx
    if isinstance(value, str):
        return value + "x", value + "y"
    if isinstance(value, Atoms):
        return (Atoms("He", positions=[[0.25 * idx, 0, 0.5]], cell=[5.0, 6.0, 7.0], pbc=True),
                Atoms("Ne", positions=[[0.5, 0.25 * idx, 0]], cell=[5.0, 6.0, 7.0], pbc=True))
    if isinstance(value, np.ndarray):
        if value.dtype.kind == "b":
            a = value.copy(); a.flat[idx % a.size] = ~a.flat[idx % a.size]
            b = value.copy(); b.flat[(idx + 1) % b.size] = ~b.flat[(idx + 1) % b.size]
            return a, b
        a = np.array(value, dtype=value.dtype, copy=True)
        b = np.array(value, dtype=value.dtype, copy=True)
        if a.size:
            a.flat[idx % a.size] += 1
            b.flat[(idx + 1) % b.size] += 2
        return a, b
    if isinstance(value, dict):
        return {**value, "probe": 0.5 + idx}, {**value, "probe": 1.5 + idx}
    if hasattr(value, "array") and hasattr(value, "copy"):  # ase Cell
        a = value.copy(); a.array[0, 0] += 0.25 + idx / 16
        b = value.copy(); b.array[1, 1] += 0.5 + idx / 16
        return a, b
    return Unknown, Unknown


def probe_emission(cls: type, spec: dict) -> None:
    """differential probing: where does to_dict() emit each setting?"""
    with warnings.catch_warnings():
        warnings.simplefilter("ignore")
        base = build(cls, spec)
        d0 = sections(base.obj.to_dict())
        spec["dict_keys"] = {k: sorted(v) for k, v in d0.items()}
        for s in spec["settings"]:
            if s["sentinel"] is Unknown or s["alt"] is Unknown:
                continue
            try:
                other = build(cls, spec, override={s["name"]: s["alt"]})
            except Exception as e:  # the alternative value is not accepted: fall back to value matching only
                spec["notes"].append(f"differential probe of {s['name']} failed: {type(e).__name__}")
                other = None
            v0 = read_setting(base.obj, s)
            d1 = sections(other.obj.to_dict()) if other is not None else None
            v1 = read_setting(other.obj, s) if other is not None else None
            ctor0 = base.args.get(s["name"]) if s["is_param"] else None
            for sect, entries in d0.items():
                for key, val in entries.items():
                    if not (same(val, v0) or (ctor0 is not None and same(val, ctor0))):
                        continue
                    if d1 is not None:
                        if key not in d1[sect] or same(d1[sect][key], val):
                            continue  # does not follow the setting
                        if not same(d1[sect][key], v1) and not (s["is_param"] and same(d1[sect][key], other.args.get(s["name"]))):
                            continue
                    if s["conv"] != "id" and sect == "kwargs" and same(val, v0) and not same(val, ctor0):
                        spec["notes"].append(f"{s['name']}: stored (converted) value emitted under kwargs")
                        s.setdefault("bad_places", []).append([sect, key])
                        continue
                    s["emit"].append([sect, key])
            s["emit"].sort()
            check_falsy_emission(cls, spec, s)
        used = {(sect, key) for s in spec["settings"] for sect, key in s["emit"]}
        slot_keys = {sl["name"] for sl in spec["slots"]}
        spec["extra_kwargs"] = sorted(k for k in d0["kwargs"] if ("kwargs", k) not in used and k not in slot_keys)
        # per class of the MRO: what its own to_dict yields on this instance
        for e in spec["mro"]:
            e["emits"] = []
            if not e["defines_to_dict"]:
                continue
            k = next(q for q in cls.__mro__ if q.__name__ == e["cls"])
            try:
                dk = sections(k.__dict__["to_dict"](base.obj))
            except Exception:
                continue
            e["emits"] = sorted([sect, key] for sect, ent in dk.items() for key in ent)


def check_falsy_emission(cls: type, spec: dict, s: dict) -> None:
    """the model takes the emission places of a setting to be independent of its value: probe once more with a
    falsy value (0, 0.0, False, "", empty array).  If a place vanishes or holds something else *and* the real
    round trip then loses the value, the setting counts as not emitted (`x or default`, `if value:` patterns)"""
    fv = s.get("falsy", NoFalsy)
    if fv is NoFalsy or not s["emit"]:
        return
    try:
        pr = build(cls, spec, override={s["name"]: fv})
        d = sections(pr.obj.to_dict())
        stored = read_setting(pr.obj, s)
    except Exception as e:  # the falsy value is not a legal value of this setting
        s["falsy"] = NoFalsy
        spec["notes"].append(f"{s['name']}: falsy probe not constructible ({type(e).__name__})")
        return
    if s.get("special") != "rng_state" and not same(stored, fv) and s["conv"] == "id":
        # the constructor itself replaced the falsy value (`x or default`): a parameter that cannot hold it
        spec["notes"].append(f"{s['name']}: the constructor does not keep the falsy value {fv!r} (stores {stored!r})")
        s["ctor_drops_falsy"] = True
    bad = [(sect, key) for sect, key in s["emit"] if key not in d[sect] or not same(d[sect][key], stored)]
    if not bad:
        return
    try:
        from ase.io.jsonio import decode, encode

        new = cls.from_dict(decode(encode(pr.obj.to_dict())))
        restored = same(read_setting(new, s), stored)
    except Exception:
        restored = False
    if restored:
        spec["notes"].append(f"{s['name']}: not emitted at {bad} when falsy, but restored (equal to the default)")
    else:
        spec["notes"].append(f"{s['name']}: emission depends on the value — lost at {bad} for the falsy value {fv!r}")
        s["value_dependent"] = True
        s["emit"] = []


def deep_same(a, b) -> bool:
    if isinstance(a, dict) and isinstance(b, dict):
        return a.keys() == b.keys() and all(deep_same(a[k], b[k]) for k in a)
    if isinstance(a, list) and isinstance(b, list):
        return len(a) == len(b) and all(deep_same(x, y) for x, y in zip(a, b))
    return same(a, b)


class LookupRecorder:
    """records every get_typed_class(name, base) made while a from_dict runs"""

    def __init__(self):
        self.calls: list[tuple[str, str]] = []
        self.saved = []

    def __enter__(self):
        real = qregistry.get_typed_class

        def rec(name, base):
            self.calls.append((name, getattr(base, "__name__", repr(base))))
            return real(name, base)

        for m in list(sys.modules.values()):
            if m is not None and getattr(m, "__name__", "").startswith("quansino") and \
                    getattr(m, "get_typed_class", None) is real and m is not qregistry:
                self.saved.append((m, real))
                m.get_typed_class = rec
        return self

    def __exit__(self, *a):
        for m, real in self.saved:
            m.get_typed_class = real


PROTO_OF_NAME = {"Operation": "operation", "Integrator": "integrator", "Criteria": "criteria", "Move": "move",
                 "MoveStorage": "storage"}


def probe_slots(cls: type, spec: dict) -> None:
    """where are the children emitted, does from_dict rebuild them, under which protocols?"""
    with warnings.catch_warnings():
        warnings.simplefilter("ignore")
        base = build(cls, spec)
        d = base.obj.to_dict()
        for sl in spec["slots"]:
            ch = base.children.get(sl["name"])
            if sl["shape"] == "single":
                want = ch.to_dict()
            elif sl["shape"] == "list":
                want = [c.to_dict() for c in ch]
            else:
                want = {k: v.to_dict() for k, v in ch.items()}
            if sl["name"] in d.get("kwargs", {}) and deep_same(d["kwargs"][sl["name"]], want):
                sl["emit"] = "kwargs"
            elif sl["name"] in d and deep_same(d[sl["name"]], want):
                sl["emit"] = "top"
            else:
                sl["emit"] = None
            # typed lookups: offer a registered child of every kind
            sl["lookup"], sl["handled"] = [], False
            if sl["emit"] is None:
                continue
            for kind in ("operation", "integrator", "criteria", "move", "storage"):
                cand = representative(kind)
                cd = cand.to_dict()
                dd = copy.deepcopy(d)
                holder = dd["kwargs"] if sl["emit"] == "kwargs" else dd
                holder[sl["name"]] = cd if sl["shape"] == "single" else ([cd] if sl["shape"] == "list" else {"probe_a": cd})
                with LookupRecorder() as rec:
                    rejected = False
                    try:
                        cls.from_dict(dd)
                    except TypeError as e:
                        rejected = "subclass" in str(e) and f"`{cd['name']}`" in str(e)
                    except Exception:
                        pass
                mine = [b for n, b in rec.calls if n == cd["name"]]
                if mine:
                    sl["handled"] = True
                    if not rejected:
                        sl["lookup"].append(kind)
            sl["lookup"].sort(key=KINDS.index)


# ---------------------------------------------------------------------------------- rendering


def q(s: str) -> str:
    return '"' + s.replace("\\", "\\\\").replace('"', '\\"') + '"'


def lst(xs) -> str:
    return "[" + ", ".join(xs) + "]"


def render_spec(sp: dict) -> str:
    L = []
    L.append(f"/-- `{sp['module']}.{sp['name']}` (from_dict: `{sp['from_dict_impl']}`) -/")
    L.append(f"def c{sp['lean_id']} : Spec where")
    L.append(f"  name := {q(sp['name'])}")
    L.append(f"  kind := .{sp['kind']}")
    L.append(f"  registered := {lst(q(n) for n in sp['registered'])}")
    L.append(f"  protos := {lst('.' + k for k in sp['protos'])}")
    L.append(f"  impl := .{sp['impl']}")
    L.append(f"  ctorAccepts := {lst(q(n) for n in sp['ctor_accepts'])}")
    L.append(f"  ctorRequired := {lst(q(n) for n in sp['ctor_required'])}")
    L.append("  settings := [")
    rows = []
    for s in sp["settings"]:
        emit = lst(f"(.{a}, {q(b)})" for a, b in s["emit"])
        rows.append(f"    ⟨{q(s['name'])}, {q(s['attr'] or s['name'])}, {str(s['on_ctx']).lower()}, "
                    f"{str(s['is_param']).lower()}, .{s['conv']}, {str(s['sim']).lower()}, {emit}⟩")
    L.append(",\n".join(rows))
    L.append("  ]")
    L.append("  slots := [")
    rows = []
    for sl in sp["slots"]:
        emit = "none" if sl["emit"] is None else f"(some .{sl['emit']})"
        dflt = "none" if sl.get("dflt") is None else f"(some .{sl['dflt']})"
        rows.append(f"    ⟨{q(sl['name'])}, .{sl['shape']}, {emit}, {str(sl['handled']).lower()}, "
                    f"{lst('.' + k for k in sl['lookup'])}, {dflt}⟩")
    L.append(",\n".join(rows))
    L.append("  ]")
    L.append(f"  extraKwargs := {lst(q(n) for n in sp['extra_kwargs'])}")
    L.append(f"  openAttrs := {str(sp['open_attrs']).lower()}")
    L.append(f"  settable := {lst(q(n) for n in sp['settable'])}")
    L.append("  mro := [")
    rows = []
    for e in sp["mro"]:
        if e["todict"] is None:
            td = "none"
        elif e["todict"][0] == "aliasOf":
            td = f"(some (.aliasOf {q(e['todict'][1])}))"
        else:
            td = f"(some .{e['todict'][0]})"
        em = lst(f"(.{a}, {q(b)})" for a, b in e["emits"]) if sp["kind"] == "driver" else "[]"
        rows.append(f"    ⟨{q(e['cls'])}, {str(e['defines_to_dict']).lower()}, {td}, {em}⟩")
    L.append(",\n".join(rows))
    L.append("  ]")
    if sp["excluded"]:
        L.append("-- excluded: " + "; ".join(f"{k} ({v})" for k, v in sorted(sp["excluded"].items())))
    for n in sp["notes"]:
        L.append(f"-- note: {n}")
    return "\n".join(L)


def render(specs: list[dict]) -> str:
    L = ["import QModel.Serial",
         "/-! GENERATED by harness/gen_classes.py from the live quansino package — do not edit;",
         "    regenerated on every run of the C08 / C07 checks.  One `Spec` per concrete serializable class",
         "    found by introspection (DESIGN §6 C08). -/",
         "namespace QGen", "open Ser", ""]
    for i, sp in enumerate(specs):
        sp["lean_id"] = i
        L.append(render_spec(sp))
        L.append("")
    L.append("/-- every concrete serializable class of the package -/")
    L.append("def classes : List Spec := " + lst(f"c{i}" for i in range(len(specs))))
    L.append("")
    L.append("/-- the registry: registered name ↦ class -/")
    L.append("def registry : Reg := regOf classes")
    L.append("")
    L.append("end QGen")
    return "\n".join(L) + "\n"


def extract_safe(cls: type) -> dict:
    """a class that cannot even be probed still gets a (not well-formed) entry, so that it is flagged"""
    try:
        return extract(cls)
    except Exception as e:  # noqa: BLE001
        return {"name": cls.__name__, "module": cls.__module__, "kind": kind_of(cls),
                "registered": sorted(n for n, v in the_registry().items() if v is cls), "protos": protos_of(cls),
                "impl": "unknown", "from_dict_impl": "?", "ctor_accepts": [], "ctor_required": [], "settings": [],
                "slots": [], "excluded": {}, "extra_kwargs": [], "open_attrs": True, "settable": [], "mro": [],
                "notes": [f"introspection failed: {type(e).__name__}: {str(e)[:200]}"], "broken": True}


_CACHE: list[dict] | None = None


def specs(refresh: bool = False) -> list[dict]:
    """the specs of the live package (extracted once per process)"""
    global _CACHE
    if _CACHE is None or refresh:
        _CACHE = [extract_safe(c) for c in discover()]
    return _CACHE


def generate(out: Path | None = None) -> list[dict]:
    specs_ = specs(refresh=True)
    return write(specs_, out)


def write(specs: list[dict], out: Path | None = None) -> list[dict]:
    text = render(specs)
    out = out or OUT
    out.parent.mkdir(parents=True, exist_ok=True)
    if not out.exists() or out.read_text() != text:
        try:
            import common

            with common.lean_lock(shared=False):
                out.write_text(text)
        except ImportError:
            out.write_text(text)
    return specs


def main() -> int:
    import argparse

    ap = argparse.ArgumentParser()
    ap.add_argument("--out")
    ap.add_argument("--show", action="store_true")
    a = ap.parse_args()
    specs = generate(Path(a.out) if a.out else None)
    print(f"{len(specs)} classes")
    if a.show:
        for sp in specs:
            print(sp["name"], sp["kind"], "reg=", sp["registered"], "impl=", sp["impl"])
            for s in sp["settings"]:
                print("   ", s["name"], "->", ("ctx." if s["on_ctx"] else "") + str(s["attr"]), s["conv"],
                      "param" if s["is_param"] else "tunable", "emit=", s["emit"])
            for sl in sp["slots"]:
                print("    slot", sl["name"], sl["shape"], "emit=", sl["emit"], "handled=", sl["handled"],
                      "lookup=", sl["lookup"], "dflt=", sl.get("dflt"))
            for n in sp["notes"]:
                print("    note:", n)
    return 0


if __name__ == "__main__":
    sys.exit(main())
