#!/venv/bin/python
"""Run registered checks against a seeded change:  seedtest.py <patch.diff> <Cxx> [<Cyy> …] [--tier quick]

Applies the patch to /repo (git apply), runs the quick (or given) tier of the named checks, prints one line per check
(exit status, VIOLATION lines) and ALWAYS undoes the patch (git checkout -- .). Never commits anything in /repo.
"""
from __future__ import annotations

import subprocess
import sys
import time

REPO = "/repo"


def sh(cmd, **kw):
    return subprocess.run(cmd, shell=True, capture_output=True, text=True, **kw)


def main():
    args = [a for a in sys.argv[1:] if not a.startswith("--")]
    tier = "quick"
    if "--tier" in sys.argv:
        tier = sys.argv[sys.argv.index("--tier") + 1]
        args = [a for a in args if a != tier]
    patch, props = args[0], args[1:]
    st = sh(f"git -C {REPO} status --porcelain --untracked-files=no").stdout.strip()
    if st:
        print("refusing: /repo has uncommitted changes:\n" + st)
        return 2
    r = sh(f"git -C {REPO} apply {patch}")
    if r.returncode != 0:
        print("patch does not apply:", r.stderr[:500])
        return 2
    results = {}
    try:
        for p in props:
            t0 = time.time()
            r = sh(f"cd /verif && /venv/bin/python harness/qcheck.py {p} --tier {tier}", timeout=3600)
            viol = [ln for ln in r.stdout.splitlines() if ln.startswith("VIOLATION")]
            results[p] = (r.returncode, viol)
            print(f"{p}: exit {r.returncode} in {time.time() - t0:.0f}s; {len(viol)} VIOLATION line(s)")
            for v in viol[:3]:
                print("   ", v)
            if r.returncode not in (0, 1):
                print(r.stdout[-1500:], r.stderr[-1500:])
    finally:
        sh(f"git -C {REPO} checkout -- .")
        left = sh(f"git -C {REPO} status --porcelain --untracked-files=no").stdout.strip()
        if left:
            print("WARNING: /repo not clean after undo:", left)
    return 0 if all(rc == 1 for rc, _ in results.values()) else 1


if __name__ == "__main__":
    sys.exit(main())
