"""prints the table of seeded changes (from seeded/*/meta.json + notes) for DESIGN.md §12.6"""
import json, glob, re
rows=[]
for f in sorted(glob.glob('/verif/seeded/*/meta.json')):
    m=json.load(open(f)); d=f.rsplit('/',1)[0]
    notes=open(d+'/notes.md').read() if __import__('os').path.exists(d+'/notes.md') else ''
    diff=open(d+'/patch.diff').read()
    files=sorted(set(re.findall(r'^\+\+\+ b/src/quansino/(\S+)',diff,flags=re.M)))
    caught=m.get('caught_by',[])
    sig=''
    for p,c in m.get('checks',{}).items():
        if c.get('first_signature'): sig=c['first_signature']; break
    rows.append((m['name'],m['property'],', '.join(files),'superseded' if m.get('superseded') else ('yes' if m.get('confirmed') else 'NO'),', '.join(caught) or '—',sig[:70]))
print('| seed | property | files touched | confirmed | caught by (quick tier) | first signature |')
print('|---|---|---|---|---|---|')
for r in rows: print('| '+' | '.join(r)+' |')
