"""Shared helpers of the C14 / C12 checks: analytic force-field calculators (ASE `Calculator` subclasses whose
formulas are the ones of `QModel/Verlet.lean`), protocol encoders for `(n,3)` arrays, random systems."""
from __future__ import annotations

import math

import numpy as np
from ase import Atoms
from ase.calculators.calculator import Calculator, all_changes

import common

# ----------------------------------------------------------------------------- protocol encoding


def enc_arr(a) -> str:
    return common.fl(np.asarray(a, float).reshape(-1))


def enc_col(a) -> str:
    return common.fl(np.asarray(a, float).reshape(-1))


def dec_arr(tok: str, n: int) -> np.ndarray:
    return np.array(common.lf(tok), float).reshape(n, 3)


def enc_arrs(arrs) -> str:
    arrs = list(arrs)
    return ";".join(enc_arr(a) for a in arrs) if arrs else "-"


def enc_checks(cs) -> str:
    cs = list(cs)
    return "".join("1" if c else "0" for c in cs) if cs else "-"


def enc_ff(spec: dict) -> str:
    k = spec["kind"]
    if k == "zero":
        return "zero"
    if k == "harm":
        return "harm:" + enc_col(spec["k"]) + ":" + enc_arr(spec["ctr"])
    if k == "quart":
        return "quart:" + enc_col(spec["k"]) + ":" + enc_col(spec["g"]) + ":" + enc_arr(spec["ctr"])
    if k == "morse":
        return "morse:" + ":".join(common.fbits(spec[x]) for x in ("D", "a", "r0"))
    raise ValueError(k)


def enc_cons(spec: dict, n: int) -> str:
    k = spec["kind"]
    if k == "fixatoms":
        fixed = set(spec["indices"])
        return "fixatoms:" + "".join("1" if i in fixed else "0" for i in range(n))
    return k  # none / fixcom / fixrot


# ----------------------------------------------------------------------------- calculators


class FFCalc(Calculator):
    """Analytic force field.  The arithmetic follows `QModel/Verlet.lean` operation by operation so that the
    `Float` model and this calculator agree to the last few bits."""

    implemented_properties = ["energy", "forces"]

    def __init__(self, spec: dict):
        super().__init__()
        self.spec = spec
        self.ncalc = 0

    def calculate(self, atoms=None, properties=("energy",), system_changes=all_changes):
        super().calculate(atoms, properties, system_changes)
        self.ncalc += 1
        q = self.atoms.positions
        e, f = ff_eval(self.spec, q)
        self.results = {"energy": e, "forces": f}


def ff_eval(spec, q):
    kind = spec["kind"]
    n = len(q)
    if kind == "zero":
        return 0.0, np.zeros((n, 3))
    if kind == "harm":
        k = np.asarray(spec["k"], float)[:, None]
        x = q - np.asarray(spec["ctr"], float)
        return float(0.5 * np.sum(k * (x * x))), -k * x
    if kind == "quart":
        k = np.asarray(spec["k"], float)[:, None]
        g = np.asarray(spec["g"], float)[:, None]
        x = q - np.asarray(spec["ctr"], float)
        e = float(np.sum(0.5 * k * x * x + 0.25 * g * (x * x) * (x * x)))
        return e, -k * x - g * (x * x * x)
    if kind == "morse":
        D, a, r0 = float(spec["D"]), float(spec["a"]), float(spec["r0"])
        f = np.zeros((n, 3))
        e = 0.0
        for i in range(n):
            acc = [0.0, 0.0, 0.0]
            for j in range(n):
                if i == j:
                    for c in range(3):
                        acc[c] = acc[c] + 0.0
                    continue
                dx = float(q[i, 0] - q[j, 0])
                dy = float(q[i, 1] - q[j, 1])
                dz = float(q[i, 2] - q[j, 2])
                r = math.sqrt(dx * dx + dy * dy + dz * dz)
                ex = math.exp(-(a * (r - r0)))
                pref = -(2.0 * D * a * (1.0 - ex) * ex)
                for c in range(3):
                    acc[c] = acc[c] + pref * (float(q[i, c] - q[j, c]) / r)
                if j > i:
                    e += D * (1.0 - ex) ** 2
            f[i] = acc
        return e, f
    raise ValueError(kind)


# ----------------------------------------------------------------------------- random systems

SYMBOLS = ["H", "C", "O", "Al", "Cu", "Ag", "Au", "Ar"]


def rand_positions(rng, n, spacing=2.6, jitter=0.35):
    """n points on a jittered cubic grid: no two atoms closer than ~ spacing - 2*jitter"""
    side = 1
    while side**3 < n:
        side += 1
    cells = [(i, j, k) for i in range(side) for j in range(side) for k in range(side)]
    rng.shuffle(cells)
    pts = []
    for c in cells[:n]:
        pts.append([spacing * c[d] + rng.uniform(-jitter, jitter) for d in range(3)])
    return pts


def rand_ff(rng, n, positions, kinds=("harm", "quart", "morse")):
    kind = rng.choice(list(kinds))
    if kind == "harm":
        return {"kind": "harm", "k": [rng.uniform(0.2, 8.0) for _ in range(n)],
                "ctr": [[x + rng.uniform(-0.3, 0.3) for x in p] for p in positions]}
    if kind == "quart":
        return {"kind": "quart", "k": [rng.uniform(0.0, 4.0) for _ in range(n)],
                "g": [rng.uniform(0.5, 20.0) for _ in range(n)],
                "ctr": [[x + rng.uniform(-0.3, 0.3) for x in p] for p in positions]}
    if kind == "morse":
        return {"kind": "morse", "D": rng.uniform(0.05, 0.6), "a": rng.uniform(0.8, 1.8), "r0": rng.uniform(2.3, 3.0)}
    return {"kind": "zero"}


def make_atoms(case) -> Atoms:
    """Atoms from a case dict with keys symbols, positions, masses (optional), momenta (optional), cell (optional)"""
    atoms = Atoms(case["symbols"], positions=np.array(case["positions"], float))
    if case.get("cell") is not None:
        atoms.set_cell(case["cell"])
        atoms.pbc = bool(case.get("pbc", False))
    if case.get("masses") is not None:
        atoms.set_masses(np.array(case["masses"], float))
    if case.get("momenta") is not None:
        atoms.set_momenta(np.array(case["momenta"], float), apply_constraint=False)
    return atoms


def omega_max(spec, masses, positions):
    """a rough upper bound of the highest angular frequency (ASE time units) for choosing a stable dt"""
    m = np.asarray(masses, float)
    if spec["kind"] == "harm":
        return float(np.sqrt(np.max(np.asarray(spec["k"]) / m)))
    if spec["kind"] == "quart":
        # curvature k + 3 g x^2 with |x| up to ~1
        return float(np.sqrt(np.max((np.asarray(spec["k"]) + 3.0 * np.asarray(spec["g"]) * 0.6**2) / m)))
    if spec["kind"] == "morse":
        n = len(m)
        return float(np.sqrt(2.0 * spec["D"] * spec["a"] ** 2 * 2 * min(n, 8) / np.min(m)))
    return 1.0
