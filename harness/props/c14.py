"""C14 — Hamiltonian proposals are reversible and correctly thermalised (DESIGN §6 C14)."""
from __future__ import annotations

import math

import numpy as np

import common
from props import hmc_common as H

ID = "C14"
LEAN_MODULES = ["QProps.C14", "QProps.C14g", "QProps.C14k"]
THEOREMS = [
    "Verlet.verlet1_energy_local",
    "Verlet.verlet_energy_error_quadratic",
    "Verlet.verlet_energy_error_quadratic_contDiff",
    "Verlet.verlet_energy_error_quadratic_general",
    "Verlet.verlet_energy_error_quadratic_general_contDiff",
    "Verlet.verlet_cos_energy_error_quadratic",
    "Verlet.verlet_quartic_energy_error_quadratic",
    "Verlet.verlet_phi_coordinate",
    "Verlet.verlet_reversible",
    "Verlet.verlet_shadow_harmonic",
    "Verlet.energy_error_quadratic_partial",
    "Verlet.mb_mean_zero",
    "Verlet.mb_variance",
    "Verlet.mb_normal",
    "Verlet.mb_forced_temperature",
    "Verlet.ke_reference_fresh",
    "Verlet.attempt_failed_restores",
    # QProps/C14k.lean: the kinetic reference of Hamiltonian moves inside composites
    "Verlet.reference_established",
    "Verlet.reference_between_trials",
    "Verlet.ke_reference_carried",
    "Verlet.vetoed_member_leaves_reference",
    "Verlet.failed_member_leaves_reference",
    "Verlet.composite_energy_change",
    "Verlet.composite_energy_change_any_reference",
    "Verlet.two_members_energy_change",
    "Verlet.pinned_second_member_overwrites_reference",
    "Verlet.pinned_vetoed_member_leaks",
]
RULE = (
    "real Verlet.integrate / maxwell_boltzmann_distribution / HamiltonianDisplacementMove / HamiltonianCanonical on real "
    "ase.Atoms (1-8 atoms, random masses 1-200 amu, thermal momenta 50-2000 K) with analytic calculators (harmonic wells, "
    "component-wise quartic wells, pairwise Morse, free flight) and EMT clusters; dt chosen as 0.02-0.5 of 1/omega_max, "
    "0-100 (quick) / 0-300 (thorough) steps, both values of apply_constraints; scripted normal draws and check_move "
    "verdicts (max_attempts 1-4), the kinetic reference at entry current or carrying an arbitrary amount; composites "
    "holding Hamiltonian members (ham*2, ham*3, ham+ham, displacement member before/after/between, members whose "
    "check_move vetoes every attempt or at random) run under HamiltonianCanonical with the real "
    "HamiltonianCanonicalCriteria, every call of the composite replayed in the model; a case is non-trivial when at "
    "least one integration step or one draw happens"
)
ASSUMPTIONS = [
    "theorems are over the reals; IEEE rounding is absorbed by the stated tolerances (reversal: 1e-9*scale plus the "
    "cancellation budget eps*steps*m*|q|/dt of the coded momentum recomputation)",
    "energy-error order for general smooth potentials is supported numerically only (energy_error_quadratic_partial is harmonic)",
    "numpy's standard_normal is taken to be N(0,1); mb_* theorems are conditional on that law",
    "ASE Atoms.set_positions/set_momenta/get_forces/get_kinetic_energy/get_number_of_degrees_of_freedom as read in ase 3.x",
]

EPS = 2.220446049250313e-16
SYMS = ["Cu", "Ag", "Au", "Al"]


def _import():
    import quansino.mc  # noqa: F401  (import order, C08)
    from ase.units import fs, kB
    from quansino.integrators.displacement import Verlet
    from quansino.mc.contexts import HamiltonianDisplacementContext
    from quansino.moves.displacement import HamiltonianDisplacementMove
    from quansino.utils.dynamics import maxwell_boltzmann_distribution

    return dict(fs=fs, kB=kB, Verlet=Verlet, Ctx=HamiltonianDisplacementContext,
                Move=HamiltonianDisplacementMove, mb=maxwell_boltzmann_distribution)


KB = 8.617330337217213e-05  # ase.units.kB
FS = 0.09822694788464063  # ase.units.fs (only used to pick dt; the model is given integrator.dt itself)


def gen_system(rng, nmax=6, kinds=("harm", "quart", "morse", "zero"), emt=False, bulk=False):
    n = rng.randint(1, nmax)
    cell = None
    if emt and bulk:
        # a small fcc crystal: at thermal amplitudes no pair crosses EMT's hard neighbour cut-off (which lies between
        # two neighbour shells), so the force field is smooth along the trajectory, as the property text requires
        from ase.build import bulk as _bulk
        from ase.data import atomic_masses, atomic_numbers

        sym = rng.choice(SYMS)
        a = _bulk(sym, cubic=True).repeat((2, 2, 1) if nmax < 32 else (2, 2, 2))
        syms = list(a.get_chemical_symbols())
        n = len(syms)
        pos = (a.positions + np.array([[rng.uniform(-0.03, 0.03) for _ in range(3)] for _ in range(n)])).tolist()
        cell = a.cell.array.tolist()
        masses = None
        ff = {"kind": "emt"}
        mlist = [float(atomic_masses[atomic_numbers[s]]) for s in syms]
        wmax = 0.45
    elif emt:
        n = rng.randint(2, max(2, nmax))
        syms = [rng.choice(SYMS) for _ in range(n)]
        pos = H.rand_positions(rng, n, spacing=2.7, jitter=0.2)
        masses = None
        ff = {"kind": "emt"}
        from ase.data import atomic_masses, atomic_numbers

        mlist = [float(atomic_masses[atomic_numbers[s]]) for s in syms]
        wmax = 0.45  # ~ 7 THz * 2 pi in ASE units is 0.43
    else:
        syms = ["Cu"] * n
        pos = H.rand_positions(rng, n)
        mlist = [rng.choice([1.008, 12.011, 63.546, 196.97, rng.uniform(1.0, 200.0)]) for _ in range(n)]
        masses = mlist
        ff = H.rand_ff(rng, n, pos, kinds=kinds)
        wmax = H.omega_max(ff, mlist, pos)
    T = rng.choice([50.0, 300.0, 300.0, 1000.0, 2000.0]) if cell is None else rng.choice([50.0, 150.0, 300.0])
    mom = [[rng.gauss(0.0, 1.0) * math.sqrt(m * KB * T) for _ in range(3)] for m in mlist]
    out = {"symbols": syms, "positions": pos, "masses": masses, "momenta": mom, "ff": ff, "wmax": wmax, "T": T}
    if cell is not None:
        out["cell"] = cell
        out["pbc"] = True
    return out


def attach_calc(atoms, ff):
    if ff["kind"] == "emt":
        from ase.calculators.emt import EMT

        atoms.calc = EMT()
    else:
        atoms.calc = H.FFCalc(ff)


def exc_oracle(prefix, obs):
    if "exception" in obs:
        return [(f"{prefix}:exception:{obs['exception']}", obs.get("message", ""))]
    return None


# ============================================================================ 1. integrator vs Float model



def make_verlet(q, dt_fs, steps, apply=True):
    """a Verlet integrator with time step dt_fs, built in one of three documented ways chosen from the case values:
    the constructor, assignment of `dt`/`max_steps` on a live object, or the dictionary round trip"""
    V = q["Verlet"]
    mode = int(round(abs(dt_fs) * 1e6) + steps) % 3
    if mode == 0:
        return V(dt=dt_fs, max_steps=steps, apply_constraints=apply)
    if mode == 1:
        v = V(dt=0.37, max_steps=7, apply_constraints=not apply)
        v.dt = dt_fs * q["fs"]
        v.max_steps = steps
        v.apply_constraints = apply
        return v
    return V.from_dict(V(dt=dt_fs, max_steps=steps, apply_constraints=apply).to_dict())


def remember_results(ctx, atoms, where):
    """what a driver leaves in the context: results (forces included) remembered by `save_state()` — for the current
    configuration ("here") or for another one ("elsewhere": e.g. the last accepted state, while the integrator is asked
    to start from a different point). The integrator must use the forces of the configuration it starts from."""
    if where == "none":
        return
    q0, p0 = atoms.get_positions(), atoms.get_momenta()
    if where == "elsewhere":
        atoms.positions = q0 + 0.05 * np.sin(np.arange(q0.size).reshape(q0.shape) + 1.0)
    atoms.get_forces()
    import warnings

    with warnings.catch_warnings():
        warnings.simplefilter("ignore")
        ctx.save_state()
    atoms.positions = q0
    atoms.set_array("momenta", p0, float, (3,))


class VerletModel(common.Suite):
    """real Verlet.integrate(context) on analytic force fields == the Lean Float model"""

    name = "verlet-model"

    def cases(self, rng, tier):
        k = 100 if tier == "quick" else 1500
        for _ in range(k):
            s = gen_system(rng, nmax=5 if tier == "quick" else 8)
            frac = rng.choice([0.02, 0.1, 0.25, 0.5])
            s["dt_fs"] = frac / s["wmax"] / FS
            s["steps"] = rng.choice([0, 1, 1, 2, 3, 5, 10, 20, 40])
            s["apply"] = rng.random() < 0.6
            s["remembered"] = rng.choice(["none", "here", "elsewhere", "elsewhere"])
            s["reused"] = rng.random() < 0.35
            yield s

    def real(self, case):
        q = _import()
        atoms = H.make_atoms(case)
        attach_calc(atoms, case["ff"])
        ctx = q["Ctx"](atoms, np.random.default_rng(0))
        remember_results(ctx, atoms, case.get("remembered", "none"))
        integ = make_verlet(q, case["dt_fs"], case["steps"], case["apply"])
        if case.get("reused"):
            # the integrator object has already served: the same number of atoms with OTHER masses (the same move used on a
            # second system, `set_masses` between two trials); what it integrates now are the atoms it is given now
            warm = H.make_atoms(case)
            warm.set_masses(np.asarray(warm.get_masses()) * 3.7)
            attach_calc(warm, case["ff"])
            integ.integrate(q["Ctx"](warm, np.random.default_rng(1)))
            atoms.calc.ncalc = 0
        integ.integrate(ctx)
        return {"dt": integ.dt, "q": atoms.get_positions().tolist(), "p": atoms.get_momenta().tolist(),
                "ncalc": atoms.calc.ncalc}

    def model_lines(self, case):
        q = _import()
        n = len(case["symbols"])
        dt = case["dt_fs"] * q["fs"]
        return [" ".join(["verlet", str(n), "none", "1" if case["apply"] else "0", common.fbits(dt), str(case["steps"]),
                          H.enc_col(case["masses"]), H.enc_arr(case["positions"]), H.enc_arr(case["momenta"]),
                          H.enc_ff(case["ff"])])]

    def model_obs(self, case, outs):
        w = outs[0].split()
        if w[0] != "ok":
            return {"bad": outs[0]}
        n = len(case["symbols"])
        return {"q": H.dec_arr(w[1], n).tolist(), "p": H.dec_arr(w[2], n).tolist()}

    def compare(self, case, real, model):
        if "exception" in real or "bad" in model:
            return [f"real={real.get('exception')} model={model.get('bad')}"]
        rq, rp, mq, mp = (np.array(x) for x in (real["q"], real["p"], model["q"], model["p"]))
        qmax = max(1.0, float(np.abs(rq).max()))
        pmax = max(1.0, float(np.abs(rp).max()))
        mmax = max(case["masses"])
        tol_q = 1e-10 * qmax
        tol_p = 1e-10 * pmax + 1e3 * EPS * max(1, case["steps"]) * mmax * qmax / real["dt"]
        d = []
        if np.abs(rq - mq).max() > tol_q:
            d.append(f"positions differ by {np.abs(rq - mq).max():.3e} (tol {tol_q:.1e})")
        if np.abs(rp - mp).max() > tol_p:
            d.append(f"momenta differ by {np.abs(rp - mp).max():.3e} (tol {tol_p:.1e})")
        return d

    def oracle(self, case, obs):
        e = exc_oracle("verlet", obs)
        if e:
            return e
        out = []
        # one force evaluation before the loop and one per step (the calculator caches unchanged positions)
        if not np.all(np.isfinite(np.array(obs["q"]))) or not np.all(np.isfinite(np.array(obs["p"]))):
            out.append((f"verlet:non-finite:{case['ff']['kind']}", "non-finite positions or momenta inside the stability range"))
        return out

    def classify(self, case, obs):
        if case["steps"] == 0:
            return None
        return (f"{case['ff']['kind']}:apply={int(case['apply'])}:steps={'1' if case['steps'] == 1 else ('2-5' if case['steps'] <= 5 else '>5')}"
                f":remembered={case.get('remembered', 'none')}")


# ============================================================================ 2. reversal experiment (oracle)


class Reversal(common.Suite):
    """integrate n steps, negate momenta, integrate n steps, negate: back at the start up to rounding"""

    name = "reversal"

    def cases(self, rng, tier):
        k = 60 if tier == "quick" else 600
        smax = 100 if tier == "quick" else 300
        for i in range(k):
            emt = (i % 4 == 3)
            s = gen_system(rng, nmax=6 if not emt else (16 if tier == "quick" else 32), kinds=("harm", "quart", "morse"), emt=emt, bulk=True)
            frac = rng.choice([0.05, 0.1, 0.2, 0.4])
            s["dt_fs"] = frac / s["wmax"] / FS
            s["steps"] = rng.choice([1, 2, 5, 10, 25, 50, smax])
            if s["ff"]["kind"] == "morse":
                # hot Morse clusters are chaotic: rounding errors grow like exp(lambda t); keep the trajectory short
                # enough that this amplification stays far below the 1e-9 tolerance
                s["steps"] = min(s["steps"], 100)
            s["apply"] = rng.random() < 0.7
            # rigid bonds (ASE FixBondLengths): the position correction of the drift is NOT the projection applied to the
            # momenta, so the integrator has to feed it back into the half-step momenta (RATTLE) to stay reversible
            s["bonds"] = None
            if i % 5 == 2 and len(s["symbols"]) >= 3 and not emt:
                s["bonds"] = [[0, 1], [1, 2]] if rng.random() < 0.6 else [[0, 1]]
                s["apply"] = True
                s["steps"] = min(s["steps"], 25)
                s["dt_fs"] = s["dt_fs"] * 0.5
            yield s

    def real(self, case):
        q = _import()
        atoms = H.make_atoms(case)
        attach_calc(atoms, case["ff"])
        if case.get("bonds"):
            from ase.constraints import FixBondLengths

            atoms.set_constraint(FixBondLengths(case["bonds"]))
            atoms.set_momenta(atoms.get_momenta())        # momenta consistent with the constraint
        ctx = q["Ctx"](atoms, np.random.default_rng(0))
        integ = make_verlet(q, case["dt_fs"], case["steps"], case["apply"])
        if case["steps"] % 2:
            remember_results(ctx, atoms, "here")      # the backward leg then starts away from the remembered state
        q0, p0 = atoms.get_positions(), atoms.get_momenta()
        integ.integrate(ctx)
        q1, p1 = atoms.get_positions(), atoms.get_momenta()
        atoms.set_momenta(-atoms.get_momenta(), apply_constraint=False)
        integ.integrate(ctx)
        atoms.set_momenta(-atoms.get_momenta(), apply_constraint=False)
        q2, p2 = atoms.get_positions(), atoms.get_momenta()
        return {"dt": integ.dt, "err_q": float(np.abs(q2 - q0).max()), "err_p": float(np.abs(p2 - p0).max()),
                "moved": float(np.abs(q1 - q0).max()),
                "qmax": float(max(np.abs(q0).max(), np.abs(q1).max())),
                "pmax": float(max(np.abs(p0).max(), np.abs(p1).max())),
                "mmax": float(atoms.get_masses().max())}

    def oracle(self, case, obs):
        e = exc_oracle("reversal", obs)
        if e:
            return e
        out = []
        tol_q = 1e-9 * max(1.0, obs["qmax"])
        # momenta: 1e-9 relative + the rounding budget of `(positions' - positions) * m / dt` (eps*|q|*m/dt per step)
        tol_p = 1e-9 * max(obs["pmax"], 1e-12) + 100 * EPS * 2 * case["steps"] * obs["mmax"] * max(1.0, obs["qmax"]) / obs["dt"]
        key = f"{case['ff']['kind']}:apply={int(case['apply'])}" + (":rigid-bonds" if case.get("bonds") else "")
        if case.get("bonds"):
            tol_q, tol_p = 1e-7 * max(1.0, obs["qmax"]), 1e-6 * max(obs["pmax"], 1e-12) + tol_p   # SHAKE iterates to 1e-13 per step
        if not (obs["err_q"] <= tol_q):
            out.append((f"reversal:positions:{key}", f"|q_back - q_0| = {obs['err_q']:.3e} > {tol_q:.1e} after {case['steps']} steps"))
        if not (obs["err_p"] <= tol_p):
            out.append((f"reversal:momenta:{key}", f"|p_back - p_0| = {obs['err_p']:.3e} > {tol_p:.1e} after {case['steps']} steps"))
        return out

    def classify(self, case, obs):
        if obs.get("moved", 0.0) == 0.0:
            return None
        return (f"{case['ff']['kind']}:apply={int(case['apply'])}:steps={'<=5' if case['steps'] <= 5 else ('<=50' if case['steps'] <= 50 else '>50')}"
                + (":rigid-bonds" if case.get("bonds") else ""))


# ============================================================================ 3. order of the energy error (oracle)


class EnergyOrder(common.Suite):
    """max |E(t) - E(0)| over a fixed time span for dt, dt/2, dt/4, ...: slope 2 in log-log"""

    name = "energy-order"

    def cases(self, rng, tier):
        k = 16 if tier == "quick" else 120
        for i in range(k):
            emt = (i % 8 == 7) if tier == "quick" else (i % 4 == 3)
            s = gen_system(rng, nmax=5 if not emt else (16 if tier == "quick" else 32), kinds=("harm", "quart", "morse"), emt=emt, bulk=True)
            s["dt0_fs"] = 0.25 / s["wmax"] / FS
            s["n0"] = 16
            s["levels"] = 4 if tier == "quick" else 5
            s["window"] = [1.5, 2.5] if tier == "quick" else [1.8, 2.2]
            yield s

    def real(self, case):
        q = _import()
        errs, dts = [], []
        for lev in range(case["levels"]):
            atoms = H.make_atoms(case)
            attach_calc(atoms, case["ff"])
            ctx = q["Ctx"](atoms, np.random.default_rng(0))
            integ = make_verlet(q, case["dt0_fs"] / 2**lev, 1)
            e0 = atoms.get_total_energy()
            worst = 0.0
            for _ in range(case["n0"] * 2**lev):
                integ.integrate(ctx)
                worst = max(worst, abs(atoms.get_total_energy() - e0))
            errs.append(worst)
            dts.append(integ.dt)
        ekin = float(atoms.get_kinetic_energy())
        slope = None
        if all(e > 0 for e in errs):
            x = np.log(np.array(dts))
            y = np.log(np.array(errs))
            slope = float(np.polyfit(x, y, 1)[0])
        return {"dts": dts, "errs": errs, "slope": slope, "e0": float(e0), "ekin": ekin}

    def oracle(self, case, obs):
        e = exc_oracle("energy-order", obs)
        if e:
            return e
        errs = obs["errs"]
        floor = 1e-11 * max(1.0, abs(obs["e0"]))
        if max(errs) <= floor:
            return []  # nothing measurable (e.g. a particle at rest at the bottom of its well)
        lo, hi = case["window"]
        if obs["slope"] is None or min(errs) <= floor:
            # the finest levels hit the rounding floor: use the levels above it
            good = [(d, e_) for d, e_ in zip(obs["dts"], errs) if e_ > 100 * floor]
            if len(good) < 3:
                return []
            slope = float(np.polyfit(np.log([g[0] for g in good]), np.log([g[1] for g in good]), 1)[0])
        else:
            slope = obs["slope"]
        if not (lo <= slope <= hi):
            return [(f"energy-order:{case['ff']['kind']}", f"fitted order {slope:.3f} outside [{lo}, {hi}]; errors {errs} for dt {obs['dts']}")]
        return []

    def classify(self, case, obs):
        s = obs.get("slope")
        if s is None or max(obs["errs"]) <= 1e-11 * max(1.0, abs(obs["e0"])):
            return None  # nothing measurable (free flight, particle at rest)
        return f"{case['ff']['kind']}:order={s:.1f}"


# ============================================================================ 4. Maxwell-Boltzmann refresh


class ScriptedRNG:
    """stands for `context.rng`: hands out the scripted normal draws; any other use is an AttributeError"""

    def __init__(self, zs, us=()):
        self.zs = [np.array(z, float) for z in zs]
        self.us = list(us)
        self.calls = []

    def standard_normal(self, size=None):
        z = self.zs.pop(0)
        self.calls.append(("standard_normal", tuple(size) if size is not None else None))
        if size is not None and tuple(size) != z.shape:
            raise ValueError(f"scripted draw has shape {z.shape}, asked for {size}")
        return z.copy()

    def random(self):
        self.calls.append(("random", None))
        return self.us.pop(0) if self.us else 0.5


def set_constraint(atoms, spec):
    from ase.constraints import FixAtoms, FixCom

    if spec["kind"] == "fixatoms":
        atoms.set_constraint(FixAtoms(indices=spec["indices"]))
    elif spec["kind"] == "fixcom":
        atoms.set_constraint(FixCom())
    elif spec["kind"] == "fixrot":
        from quansino.constraints import FixRot

        atoms.set_constraint(FixRot())


class MaxwellBoltzmann(common.Suite):
    name = "maxwell-boltzmann"

    def cases(self, rng, tier):
        k = 150 if tier == "quick" else 2000
        for i in range(k):
            n = rng.randint(1, 8)
            masses = [rng.choice([1.008, 12.011, 63.546, rng.uniform(1.0, 200.0)]) for _ in range(n)]
            r = rng.random()
            cons = {"kind": "none"}
            if r > 0.7 and n >= 2:
                cons = rng.choice([{"kind": "fixatoms", "indices": sorted(rng.sample(range(n), rng.randint(1, n - 1)))},
                                   {"kind": "fixcom"}])
            yield {"kind": "scripted", "symbols": ["Cu"] * n, "positions": H.rand_positions(rng, n), "masses": masses,
                   "T": rng.choice([1.0, 50.0, 300.0, 1000.0, rng.uniform(0.1, 5000.0)]),
                   "forced": rng.random() < 0.5, "cons": cons,
                   "z": [[rng.gauss(0, 1) for _ in range(3)] for _ in range(n)]}
        for i in range(2 if tier == "quick" else 12):
            n = 3000
            yield {"kind": "stat", "n": n, "seed": rng.randrange(2**32), "T": rng.choice([10.0, 300.0, 2500.0]),
                   "mass_seed": rng.randrange(2**32)}

    def real(self, case):
        q = _import()
        if case["kind"] == "stat":
            n = case["n"]
            from ase import Atoms

            mr = np.random.default_rng(case["mass_seed"])
            atoms = Atoms(["Cu"] * n, positions=np.zeros((n, 3)))
            atoms.set_masses(mr.uniform(1.0, 200.0, n))
            ctx = q["Ctx"](atoms, np.random.default_rng(case["seed"]))
            ctx.temperature = case["T"]
            q["mb"](ctx)
            zz = atoms.get_momenta() / np.sqrt(atoms.get_masses() * case["T"] * q["kB"])[:, None]
            return {"mean": float(zz.mean()), "var": float((zz**2).mean()), "m4": float((zz**4).mean()), "count": int(zz.size)}
        atoms = H.make_atoms(case)
        set_constraint(atoms, case["cons"])
        rng = ScriptedRNG([case["z"]])
        ctx = q["Ctx"](atoms, rng)
        ctx.temperature = case["T"]
        q["mb"](ctx, forced=case["forced"])
        p = atoms.get_momenta()
        ndof = int(atoms.get_number_of_degrees_of_freedom())
        return {"p": p.tolist(), "kT": case["T"] * q["kB"], "ndof": ndof, "ke": float(atoms.get_kinetic_energy()),
                "calls": [c[0] for c in rng.calls]}

    def model_lines(self, case):
        if case["kind"] != "scripted":
            return []
        q = _import()
        n = len(case["symbols"])
        ndof = 3 * n - (3 * len(case["cons"]["indices"]) if case["cons"]["kind"] == "fixatoms" else (3 if case["cons"]["kind"] == "fixcom" else 0))
        return [" ".join(["mbdist", str(n), H.enc_cons(case["cons"], n), "1" if case["forced"] else "0",
                          common.fbits(case["T"] * q["kB"]), str(ndof), H.enc_col(case["masses"]),
                          H.enc_arr(case["positions"]), H.enc_arr(case["z"])])]

    def model_obs(self, case, outs):
        w = outs[0].split()
        if w[0] != "ok":
            return {"bad": outs[0]}
        return {"p": H.dec_arr(w[1], len(case["symbols"])).tolist()}

    def compare(self, case, real, model):
        if "exception" in real or "bad" in model:
            return [f"real={real.get('exception')} model={model.get('bad')}"]
        rp, mp = np.array(real["p"]), np.array(model["p"])
        scale = max(1e-300, float(np.abs(rp).max()), float(np.abs(mp).max()))
        if np.abs(rp - mp).max() > 1e-10 * scale:
            return [f"momenta differ by {np.abs(rp - mp).max():.3e} (scale {scale:.2e})"]
        return []

    def oracle(self, case, obs):
        e = exc_oracle("mb", obs)
        if e:
            return e
        out = []
        if case["kind"] == "stat":
            N = obs["count"]
            if abs(obs["mean"]) > 7.0 / math.sqrt(N):
                out.append(("mb:stat:mean", f"mean of p/sqrt(m kT) = {obs['mean']:.4f} over {N} components"))
            if abs(obs["var"] - 1.0) > 7.0 * math.sqrt(2.0 / N):
                out.append(("mb:stat:variance", f"variance of p/sqrt(m kT) = {obs['var']:.4f} over {N} components (expected 1)"))
            if abs(obs["m4"] - 3.0) > 7.0 * math.sqrt(96.0 / N):
                out.append(("mb:stat:kurtosis", f"fourth moment {obs['m4']:.3f} (normal: 3)"))
            return out
        if case["cons"]["kind"] != "none":
            return out
        p = np.array(obs["p"])
        m = np.array(case["masses"])[:, None]
        z = np.array(case["z"])
        kT = obs["kT"]
        if not case["forced"]:
            want = z * np.sqrt(m * kT)
            if np.abs(p - want).max() > 1e-12 * max(1e-300, np.abs(want).max()):
                out.append(("mb:unforced:not-z-sqrt-mkT", f"momenta differ from z*sqrt(m kT) by {np.abs(p - want).max():.3e}"))
        else:
            raw = z * np.sqrt(m * kT)
            t_real = 2.0 * (0.5 * np.sum(raw * raw / m)) / obs["ndof"]
            t_new = 2.0 * (0.5 * np.sum(p * p / m)) / obs["ndof"]
            if t_real > 0 and abs(t_new - kT) > kT * (1e-15 / t_real) + 1e-12 * kT:
                out.append(("mb:forced:temperature", f"kinetic temperature {t_new:.17g} vs target {kT:.17g} (T_real {t_real:.3e})"))
        return out

    def classify(self, case, obs):
        if case["kind"] == "stat":
            return "stat"
        return f"{case['cons']['kind']}:forced={int(case['forced'])}"


# ============================================================================ 5. the move: which kinetic energy is stored


def ke_of(p, masses):
    p = np.asarray(p, float)
    return float(0.5 * np.sum(p * p / np.asarray(masses, float)[:, None]))


class HMove(common.Suite):
    """real HamiltonianDisplacementMove.attempt_displacement with scripted draws and check_move verdicts"""

    name = "hamiltonian-move"

    def cases(self, rng, tier):
        k = 120 if tier == "quick" else 1500
        for _ in range(k):
            s = gen_system(rng, nmax=5)
            s["dt_fs"] = rng.choice([0.05, 0.2, 0.4]) / s["wmax"] / FS
            s["steps"] = rng.choice([0, 1, 2, 5, 10])
            s["apply"] = rng.random() < 0.7
            s["max_attempts"] = rng.randint(1, 4)
            s["checks"] = [rng.random() < 0.5 for _ in range(rng.randint(0, 5))]
            s["forced"] = rng.random() < 0.3
            s["sample"] = rng.random() < 0.85
            n = len(s["symbols"])
            s["zs"] = [[[rng.gauss(0, 1) for _ in range(3)] for _ in range(n)] for _ in range(s["max_attempts"])]
            # the kinetic reference at entry: that of a context just constructed (= the kinetic energy of the momenta the
            # atoms carry), or one that already carries what earlier members of a composite did (any other number)
            s["ref_offset"] = None if rng.random() < 0.6 else rng.uniform(-2.0, 2.0) * KB * s["T"]
            yield s

    def real(self, case):
        q = _import()
        atoms = H.make_atoms(case)
        attach_calc(atoms, case["ff"])
        rng = ScriptedRNG(case["zs"])
        ctx = q["Ctx"](atoms, rng)
        ctx.temperature = case["T"]
        if case.get("ref_offset") is not None:
            ctx.last_kinetic_energy = ke_of(case["momenta"], case["masses"]) + case["ref_offset"]
        ref0 = float(ctx.last_kinetic_energy)
        drawn = []

        def dist(c):
            # what `functools.partial(maxwell_boltzmann_distribution, forced=…)` or a lambda does: the callable's own
            # return value reaches the move
            r = q["mb"](c, forced=case["forced"])
            drawn.append(c.atoms.get_momenta())
            return r

        mv = q["Move"](distribution=dist, operation=q["Verlet"](dt=case["dt_fs"], max_steps=case["steps"],
                                                                 apply_constraints=case["apply"]))
        mv.max_attempts = case["max_attempts"]
        verdicts = list(case["checks"])
        asked = []

        def check(*_a, **_k):
            v = verdicts.pop(0) if verdicts else True
            asked.append(v)
            return v

        mv.check_move = check
        q0, p0 = atoms.get_positions(), atoms.get_momenta()
        ok = mv.attempt_displacement(ctx, sample_momenta=case["sample"])
        return {"ok": bool(ok), "q": atoms.get_positions().tolist(), "p": atoms.get_momenta().tolist(),
                "last_ke": float(ctx.last_kinetic_energy), "drawn_ke": [ke_of(d, case["masses"]) for d in drawn],
                "ref0": ref0, "ke0": ke_of(case["momenta"], case["masses"]),
                "asked": asked, "restored": bool(np.array_equal(atoms.get_positions(), q0) and np.array_equal(atoms.get_momenta(), p0)),
                "kT": case["T"] * q["kB"], "dt": mv.operation.dt}

    def model_lines(self, case):
        q = _import()
        n = len(case["symbols"])
        return [" ".join(["hmove", str(n), "none", "1" if case["apply"] else "0", common.fbits(case["dt_fs"] * q["fs"]),
                          str(case["steps"]), H.enc_col(case["masses"]), H.enc_arr(case["positions"]),
                          H.enc_arr(case["momenta"]), H.enc_ff(case["ff"]), common.fbits(case["T"] * q["kB"]), str(3 * n),
                          "1" if case["forced"] else "0", "1" if case["sample"] else "0", str(case["max_attempts"]),
                          H.enc_arrs(case["zs"]), H.enc_checks(case["checks"]),
                          "-" if case.get("ref_offset") is None else
                          common.fbits(ke_of(case["momenta"], case["masses"]) + case["ref_offset"])])]

    def model_obs(self, case, outs):
        w = outs[0].split()
        if w[0] != "ok":
            return {"bad": outs[0]}
        n = len(case["symbols"])
        return {"ok": w[1] == "true", "q": H.dec_arr(w[2], n).tolist(), "p": H.dec_arr(w[3], n).tolist(),
                "last_ke": common.bitsf(w[4])}

    def compare(self, case, real, model):
        if "exception" in real or "bad" in model:
            return [f"real={real.get('exception')} model={model.get('bad')}"]
        d = []
        if real["ok"] != model["ok"]:
            d.append(f"result real={real['ok']} model={model['ok']}")
        rq, rp, mq, mp = (np.array(x) for x in (real["q"], real["p"], model["q"], model["p"]))
        qmax = max(1.0, float(np.abs(rq).max()))
        pmax = max(1.0, float(np.abs(rp).max()))
        tol_p = 1e-10 * pmax + 1e3 * EPS * max(1, case["steps"]) * max(case["masses"]) * qmax / real["dt"]
        if np.abs(rq - mq).max() > 1e-10 * qmax:
            d.append(f"positions differ by {np.abs(rq - mq).max():.3e}")
        if np.abs(rp - mp).max() > tol_p:
            d.append(f"momenta differ by {np.abs(rp - mp).max():.3e}")
        kscale = max([abs(x) for x in (real.get("ref0", 0.0), real.get("ke0", 0.0), model["last_ke"]) if not math.isnan(x)] + [0.0])
        if not common.close(real["last_ke"], model["last_ke"], 1e-10, 1e-12 * kscale):
            d.append(f"last_kinetic_energy real={real['last_ke']!r} model={model['last_ke']!r}")
        return d

    def oracle(self, case, obs):
        e = exc_oracle("hmove", obs)
        if e:
            return e
        out = []
        # expected attempt in which the call succeeds: the first verdict that is not a veto
        verd = (list(case["checks"]) + [True] * case["max_attempts"])[: case["max_attempts"]]
        first = next((i for i, v in enumerate(verd) if v), None)
        if (first is not None) != obs["ok"]:
            out.append(("hmove:result", f"verdicts {verd} but the call returned {obs['ok']}"))
            return out
        # the reference at entry minus the kinetic energy at entry: 0 for a move on its own (ke_reference_fresh), what
        # earlier members of a composite did otherwise (ke_reference_carried)
        carried = 0.0 if case.get("ref_offset") is None else case["ref_offset"]
        kscale = max([abs(x) for x in (obs.get("ref0", 0.0), obs.get("ke0", 0.0), *obs["drawn_ke"]) if not math.isnan(x)] + [1e-300])
        if obs["ok"] and case["sample"]:
            if len(obs["drawn_ke"]) != first + 1:
                out.append(("hmove:draw-count", f"{len(obs['drawn_ke'])} draws for success in attempt {first}"))
            elif not abs(obs["last_ke"] - (carried + obs["drawn_ke"][-1])) <= 1e-12 * kscale:
                which = [i for i, k in enumerate(obs["drawn_ke"]) if abs(carried + k - obs["last_ke"]) <= 1e-12 * kscale]
                if carried:
                    out.append(("hmove:reference-not-carried",
                                f"entered with last_kinetic_energy = kinetic energy of the current momenta + {carried!r} (what earlier "
                                f"members of a composite did); after a successful draw of kinetic energy {obs['drawn_ke'][-1]!r} it is "
                                f"{obs['last_ke']!r}, not {carried + obs['drawn_ke'][-1]!r}"))
                else:
                    out.append((f"hmove:stale-kinetic-energy:attempt={first}",
                                f"last_kinetic_energy {obs['last_ke']!r} is not the kinetic energy {obs['drawn_ke'][-1]!r} of the "
                                f"momenta drawn in the successful attempt (matches draws {which})"))
        if "ref0" in obs and (not obs["ok"] or not case["sample"]):
            # nothing of an abandoned draw stays behind; without sampling the reference is not touched at all
            r0, r1 = obs["ref0"], obs["last_ke"]
            if not ((math.isnan(r0) and math.isnan(r1)) or r0 == r1):
                out.append((f"hmove:reference-not-restored:ok={int(obs['ok'])}:sample={int(case['sample'])}",
                            f"last_kinetic_energy was {r0!r} at entry and is {r1!r} after a call that "
                            + ("failed (every attempt vetoed)" if not obs["ok"] else "drew no momenta")))
        if not obs["ok"] and not obs["restored"]:
            out.append(("hmove:failed-not-restored", "every attempt vetoed but positions/momenta differ from the start"))
        return out

    def classify(self, case, obs):
        if "ok" not in obs:
            return "exception"
        return (f"ok={int(obs['ok'])}:attempts={len(obs['asked'])}:sample={int(case['sample'])}:forced={int(case['forced'])}"
                f":reference={'current' if case.get('ref_offset') is None else 'carried'}")


# ============================================================================ 6. the driver: energy seen by the criteria


class HMCDriver(common.Suite):
    """real HamiltonianCanonical runs: at every criteria evaluation, context.last_kinetic_energy is the kinetic
    energy of the momenta drawn in the attempt that produced the proposal"""

    name = "hmc-driver"

    def cases(self, rng, tier):
        k = 10 if tier == "quick" else 80
        for i in range(k):
            emt = i % 5 == 4
            s = gen_system(rng, nmax=5, kinds=("harm", "quart", "morse"), emt=emt)
            s["dt_fs"] = rng.choice([0.1, 0.3, 1.0, 1.6]) / s["wmax"] / FS
            s["steps"] = rng.choice([1, 3, 8])
            s["nsteps"] = 10 if tier == "quick" else 40
            s["seed"] = rng.randrange(1, 2**31)
            s["veto_p"] = rng.choice([0.0, 0.3, 0.6])
            s["veto_seed"] = rng.randrange(2**31)
            s["max_attempts"] = rng.randint(1, 3)
            yield s

    def real(self, case):
        q = _import()
        import random as _r

        from quansino.mc.canonical import HamiltonianCanonical

        atoms = H.make_atoms(case)
        attach_calc(atoms, case["ff"])
        masses = atoms.get_masses()
        drawn = []

        def dist(c):
            r = q["mb"](c)
            drawn.append(ke_of(c.atoms.get_momenta(), masses))
            return r

        mv = q["Move"](distribution=dist, operation=q["Verlet"](dt=case["dt_fs"], max_steps=case["steps"]))
        mv.max_attempts = case["max_attempts"]
        vr = _r.Random(case["veto_seed"])
        mv.check_move = lambda *_a, **_k: vr.random() >= case["veto_p"]
        mc = HamiltonianCanonical(atoms, temperature=case["T"], default_displacement_move=mv, seed=case["seed"], max_cycles=1)
        crit = mc.moves["default_displacement_move"].criteria
        orig = crit.evaluate
        seen = []

        def ev(ctx):
            seen.append((float(ctx.last_kinetic_energy), drawn[-1] if drawn else None, len(drawn)))
            return orig(ctx)

        crit.evaluate = ev
        hist = []
        aborted = None
        try:
            for _ in mc.srun(case["nsteps"]):
                hist.append(mc.move_history[-1][1] if mc.move_history else None)
        except OverflowError as ex:  # math.exp overflow in the criteria: a defect of C02, not of this property
            aborted = type(ex).__name__
        return {"seen": seen, "history": [None if h is None else bool(h) for h in hist], "ndraws": len(drawn),
                "aborted": aborted}

    def oracle(self, case, obs):
        e = exc_oracle("hmc-driver", obs)
        if e:
            return e
        for i, (last, fresh, _nd) in enumerate(obs["seen"]):
            if fresh is None or not common.close(last, fresh, 1e-12):
                return [("hmc-driver:stale-kinetic-energy", f"criteria evaluation {i}: last_kinetic_energy {last!r}, fresh draw {fresh!r}")]
        return []

    def classify(self, case, obs):
        h = obs.get("history", [])
        if not h:
            return "exception" if "exception" in obs else None
        return f"{case['ff']['kind']}:acc={sum(1 for x in h if x)}:rej={sum(1 for x in h if x is False)}:fail={sum(1 for x in h if x is None)}"


# ============================================================================ 7. Hamiltonian moves inside composites


SHAPES = ["ham*2", "ham*2", "ham*3", "ham+ham", "ham+ham", "disp+ham", "ham+disp", "ham+vetoed", "vetoed+ham",
          "disp+vetoed", "vetoed+disp", "ham+disp+ham", "ham+flaky", "flaky*2", "vetoed"]


class RecordingGenerator:
    """delegates to the simulation's numpy Generator; records the normal draws (the momentum refresh) and the uniform
    numbers (the acceptance test)"""

    def __init__(self, gen, zs, us):
        self._gen, self._zs, self._us = gen, zs, us

    def standard_normal(self, *a, **k):
        z = self._gen.standard_normal(*a, **k)
        self._zs.append(np.array(z, float))
        return z

    def random(self, *a, **k):
        u = self._gen.random(*a, **k)
        if not a and not k:
            self._us.append(float(u))
        return u

    def __getattr__(self, name):
        return getattr(self._gen, name)


def _snap(ctx):
    a = ctx.atoms
    return {"q": a.get_positions().tolist(), "p": a.get_momenta().tolist(), "last_ke": float(ctx.last_kinetic_energy)}


class HMCComposite(common.Suite):
    """real HamiltonianCanonical + the real HamiltonianCanonicalCriteria on composites holding Hamiltonian members
    (`ham * k`, `ham + ham`, displacement members before/after, members whose check_move vetoes every attempt):
    the energy difference the acceptance test uses equals the sum of the members' own total-energy changes, computed
    here from the recorded positions and momenta with the analytic potential (never from the context); a member that
    failed leaves positions, momenta and the kinetic reference as it found them; the decision is the Metropolis
    decision for that sum and the recorded uniform number.  Each call of the composite is also replayed in the Lean
    model (`hcomp`: draws, verdicts and displaced positions as recorded)."""

    name = "hmc-composites"

    def cases(self, rng, tier):
        k = 30 if tier == "quick" else 240
        for i in range(k):
            s = gen_system(rng, nmax=4, kinds=("harm", "quart", "morse", "zero"))
            s["shape"] = SHAPES[i % len(SHAPES)] if i < 2 * len(SHAPES) else rng.choice(SHAPES)
            s["hams"] = []
            for _ in range(3):
                s["hams"].append({"dt_fs": rng.choice([0.1, 0.3, 0.8]) / s["wmax"] / FS, "steps": rng.choice([1, 2, 5]),
                                  "max_attempts": rng.randint(1, 3), "veto_seed": rng.randrange(2**31)})
            s["nsteps"] = 6 if tier == "quick" else 15
            s["seed"] = rng.randrange(1, 2**31)
            yield s

    # -- the composite named by case["shape"], built with the package's own `+` and `*`
    def build(self, q, case, log, cur):
        import random as _r

        from quansino.moves.composite import CompositeMove
        from quansino.moves.displacement import DisplacementMove

        n = len(case["symbols"])
        masses = np.array(case["masses"], float)
        made = {"n": 0}

        def recording(cls):
            class Recorded(cls):
                def __call__(self, context):
                    if cur.get("start") is None:
                        cur["start"] = _snap(context)
                        cur["start"]["last_pe"] = float(context.last_potential_energy)
                    rec = {"tag": self.tag, "kind": self.kind, "enter": _snap(context), "attempts": []}
                    if self.kind == "ham":
                        rec.update(steps=self.spec["steps"], max_attempts=self.max_attempts)
                    cur["members"].append(rec)
                    self.rec = rec
                    ok = super().__call__(context)
                    rec["ok"] = bool(ok)
                    rec["exit"] = _snap(context)
                    return ok

            Recorded.__name__ = cls.__name__
            Recorded.__qualname__ = cls.__qualname__
            return Recorded

        def ham(mode):
            spec = case["hams"][made["n"] % len(case["hams"])]
            made["n"] += 1

            def dist(c):
                r = q["mb"](c)
                mv.rec["attempts"].append({"drawn": c.atoms.get_momenta().tolist(), "z": log["zs"][-1].tolist(),
                                           "ke_after_draw": float(c.last_kinetic_energy)})
                return r

            mv = recording(q["Move"])(distribution=dist, operation=q["Verlet"](dt=spec["dt_fs"], max_steps=spec["steps"]))
            mv.tag, mv.kind, mv.spec = f"ham{made['n']}:{mode}", "ham", spec
            mv.max_attempts = spec["max_attempts"]
            vr = _r.Random(spec["veto_seed"])

            def check(context, *_a, **_k):
                v = {"never": True, "always": False}.get(mode)
                if v is None:
                    v = vr.random() >= 0.5
                mv.rec["attempts"][-1].update(verdict=v, q=context.atoms.get_positions().tolist(),
                                              p=context.atoms.get_momenta().tolist())
                return v

            mv.check_move = check
            return mv

        def disp():
            made["n"] += 1
            mv = recording(DisplacementMove)(np.arange(n))
            mv.tag, mv.kind = f"disp{made['n']}", "disp"
            return mv

        shape = case["shape"]
        if shape.startswith("ham*"):
            return ham("never") * int(shape[4:])
        if shape == "flaky*2":
            return ham("flaky") * 2
        parts = []
        for w in shape.split("+"):
            parts.append(disp() if w == "disp" else ham({"ham": "never", "vetoed": "always", "flaky": "flaky"}[w]))
        if len(parts) == 1:
            return CompositeMove(parts)
        comp = parts[0]
        for m in parts[1:]:
            comp = comp + m
        return comp

    def real(self, case):
        q = _import()
        from quansino.mc.canonical import HamiltonianCanonical
        from quansino.mc.criteria import HamiltonianCanonicalCriteria

        atoms = H.make_atoms(case)
        attach_calc(atoms, case["ff"])
        log = {"zs": [], "us": []}
        cur = {"start": None, "members": []}
        comp = self.build(q, case, log, cur)
        mc = HamiltonianCanonical(atoms, temperature=case["T"], seed=case["seed"], max_cycles=1)
        crit = HamiltonianCanonicalCriteria()
        mc.add_move(comp, criteria=crit, name="composite")
        common.set_rng(mc, RecordingGenerator(common.get_rng(mc), log["zs"], log["us"]), context=True)
        orig = crit.evaluate

        def ev(ctx):
            cur["eval"] = {"q": atoms.get_positions().tolist(), "p": atoms.get_momenta().tolist(),
                           "last_ke": float(ctx.last_kinetic_energy), "last_pe": float(ctx.last_potential_energy),
                           "total": float(atoms.get_total_energy())}
            nu = len(log["us"])
            v = orig(ctx)
            cur["eval"]["u"] = log["us"][nu] if len(log["us"]) == nu + 1 else None
            return v

        crit.evaluate = ev
        trials = []
        aborted = None
        try:
            for _ in mc.srun(case["nsteps"]):
                v = mc.move_history[-1][1] if mc.move_history else None
                cur["verdict"] = None if v is None else bool(v)
                cur["after"] = _snap(mc.context)
                trials.append(dict(cur))
                cur.clear()
                cur.update(start=None, members=[])
        except OverflowError as ex:  # math.exp overflow in the criteria: a defect of C02, not of this property
            aborted = type(ex).__name__
        obs = {"trials": trials, "kT": case["T"] * q["kB"], "aborted": aborted,
               "types": [type(comp).__name__, len(comp.moves)],
               "dts": {m.tag: m.operation.dt for m in comp.moves if m.kind == "ham"}}
        if not hasattr(self, "_obs"):
            self._obs = {}
        self._obs[common.dumps(case)] = obs
        return obs

    # -- independent bookkeeping
    @staticmethod
    def member_delta(case, mem):
        """total-energy change of the member's own trajectory: H after - H before, H before = potential energy of the
        positions it started from + kinetic energy of the momenta it drew; a displacement member changes the potential
        energy only; a failed member changes nothing"""
        if not mem["ok"]:
            return 0.0
        pe = lambda x: float(H.ff_eval(case["ff"], np.array(x, float))[0])  # noqa: E731
        if mem["kind"] == "disp":
            return pe(mem["exit"]["q"]) - pe(mem["enter"]["q"])
        a = mem["attempts"][-1]
        return (pe(mem["exit"]["q"]) + ke_of(mem["exit"]["p"], case["masses"])) - (pe(mem["enter"]["q"]) + ke_of(a["drawn"], case["masses"]))

    def oracle(self, case, obs):
        e = exc_oracle("hmc-composite", obs)
        if e:
            return e
        out = []
        shape = case["shape"]
        kT = obs["kT"]
        for ti, t in enumerate(obs["trials"]):
            for mem in t["members"]:
                if mem["ok"]:
                    continue
                # C03: a member that failed leaves nothing of its abandoned draws behind
                if mem["exit"]["q"] != mem["enter"]["q"] or mem["exit"]["p"] != mem["enter"]["p"]:
                    out.append((f"hmc-composite:failed-member-not-restored:{shape}",
                                f"trial {ti}: member {mem['tag']} failed but positions/momenta differ from those it found"))
                elif not common.close(mem["exit"]["last_ke"], mem["enter"]["last_ke"], 1e-12):
                    drawn = [ke_of(a["drawn"], case["masses"]) for a in mem["attempts"]]
                    out.append((f"hmc-composite:abandoned-draw-in-kinetic-reference:{shape}",
                                f"trial {ti}: member {mem['tag']} failed (all {len(mem['attempts'])} attempts vetoed, positions and "
                                f"momenta restored) but context.last_kinetic_energy went from {mem['enter']['last_ke']!r} to "
                                f"{mem['exit']['last_ke']!r}; kinetic energies of its abandoned draws: {drawn}"))
            if "eval" not in t:
                if t["verdict"] is None and t["start"] is not None and not common.close(t["after"]["last_ke"], t["start"]["last_ke"], 1e-12) \
                        and not any(s.startswith("hmc-composite:abandoned") for s, _ in out):
                    out.append((f"hmc-composite:abandoned-draw-in-kinetic-reference:{shape}",
                                f"trial {ti} failed as a whole but context.last_kinetic_energy changed"))
                continue
            ev = t["eval"]
            want = sum(self.member_delta(case, mem) for mem in t["members"])
            used = ev["total"] - ev["last_pe"] - ev["last_ke"]
            scale = max(1e-3, abs(ev["total"]), abs(ev["last_pe"]), abs(ev["last_ke"]))
            if not abs(used - want) <= 1e-9 * scale:
                parts = [(mem["tag"], mem["ok"], self.member_delta(case, mem)) for mem in t["members"]]
                out.append((f"hmc-composite:energy-difference:{shape}",
                            f"trial {ti}: the acceptance test uses E_new - last_potential_energy - last_kinetic_energy = {used!r}, the "
                            f"members' total-energy changes add up to {want!r} (members: {parts}; kT = {kT:.4g})"))
            elif ev.get("u") is not None and t["verdict"] is not None:
                x = -want / kT
                expect = True if x >= 0 else ev["u"] < math.exp(x)
                border = x < 0 and abs(ev["u"] - math.exp(x)) <= 1e-6 * math.exp(x) + 1e-300
                if expect != t["verdict"] and not border:
                    out.append((f"hmc-composite:decision:{shape}",
                                f"trial {ti}: total-energy change {want!r}, u = {ev['u']!r}, exp(-dH/kT) = {math.exp(min(x, 0.0))!r} "
                                f"but the trial was {'accepted' if t['verdict'] else 'rejected'}"))
            if len(out) >= 3:
                break
        # one signature per kind is enough
        seen, uniq = set(), []
        for s_, m_ in out:
            if s_ not in seen:
                seen.add(s_)
                uniq.append((s_, m_))
        return uniq

    # -- the model replays every call of the composite
    def model_lines(self, case):
        obs = getattr(self, "_obs", {}).get(common.dumps(case))
        if not obs or "trials" not in obs:
            return []
        n = len(case["symbols"])
        lines = []
        for t in obs["trials"]:
            if t["start"] is None:
                continue
            mems = []
            for mem in t["members"]:
                if mem["kind"] == "disp":
                    mems.append("D/" + (H.enc_arr(mem["exit"]["q"]) if mem["ok"] else "fail"))
                else:
                    mems.append("/".join(["H", "1", common.fbits(obs["dts"][mem["tag"]]), str(mem["steps"]), "0",
                                          str(mem["max_attempts"]), H.enc_arrs([a["z"] for a in mem["attempts"]]),
                                          H.enc_checks([a["verdict"] for a in mem["attempts"]])]))
            lines.append(" ".join(["hcomp", str(n), "none", H.enc_col(case["masses"]), H.enc_arr(t["start"]["q"]),
                                   H.enc_arr(t["start"]["p"]), H.enc_ff(case["ff"]), common.fbits(obs["kT"]), str(3 * n),
                                   common.fbits(t["start"]["last_ke"]), "|".join(mems)]))
        return lines

    def model_obs(self, case, outs):
        return {"outs": outs}

    def compare(self, case, real, model):
        if "exception" in real:
            return []
        n = len(case["symbols"])
        d = []
        ts = [t for t in real["trials"] if t["start"] is not None]
        for i, (t, o) in enumerate(zip(ts, model["outs"])):
            w = o.split()
            if w[0] != "ok":
                d.append(f"trial {i}: model answered {o[:60]}")
                continue
            end = t["members"][-1]["exit"]
            ok = any(mem["ok"] for mem in t["members"])
            if (w[1] == "true") != ok:
                d.append(f"trial {i}: composite returned {ok}, model {w[1]}")
            rq, rp = np.array(end["q"]), np.array(end["p"])
            mq, mp = H.dec_arr(w[2], n), H.dec_arr(w[3], n)
            qmax = max(1.0, float(np.abs(rq).max()))
            pmax = max(1.0, float(np.abs(rp).max()))
            dtmin = min(real["dts"].values()) if real["dts"] else 1.0
            tol_p = 1e-9 * pmax + 1e3 * EPS * 15 * max(case["masses"]) * qmax / dtmin
            if np.abs(rq - mq).max() > 1e-9 * qmax:
                d.append(f"trial {i}: positions differ by {np.abs(rq - mq).max():.3e}")
            if np.abs(rp - mp).max() > tol_p:
                d.append(f"trial {i}: momenta differ by {np.abs(rp - mp).max():.3e}")
            mk = common.bitsf(w[4])
            kscale = max(abs(end["last_ke"]), ke_of(end["p"], case["masses"]), 1e-6)
            if not (math.isnan(mk) and math.isnan(end["last_ke"])) and not abs(mk - end["last_ke"]) <= 1e-8 * kscale:
                d.append(f"trial {i}: last_kinetic_energy after the composite: real {end['last_ke']!r}, model {mk!r}")
            if len(d) >= 4:
                break
        return d

    def classify(self, case, obs):
        ts = obs.get("trials")
        if not ts:
            return "exception" if "exception" in obs else None
        return (f"{case['shape']}:{case['ff']['kind']}:acc={sum(1 for t in ts if t['verdict'])}:rej={sum(1 for t in ts if t['verdict'] is False)}"
                f":fail={sum(1 for t in ts if t['verdict'] is None)}")


def suites(tier):
    return [VerletModel(), Reversal(), EnergyOrder(), MaxwellBoltzmann(), HMove(), HMCDriver(), HMCComposite()]
