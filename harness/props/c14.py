"""C14 — Hamiltonian proposals are reversible and correctly thermalised (DESIGN §6 C14)."""
from __future__ import annotations

import math

import numpy as np

import common
from props import hmc_common as H

ID = "C14"
LEAN_MODULES = ["QProps.C14", "QProps.C14g"]
THEOREMS = [
    "Verlet.verlet1_energy_local",
    "Verlet.verlet_energy_error_quadratic",
    "Verlet.verlet_energy_error_quadratic_contDiff",
    "Verlet.verlet_energy_error_quadratic_general",
    "Verlet.verlet_energy_error_quadratic_general_contDiff",
    "Verlet.verlet_cos_energy_error_quadratic",
    "Verlet.verlet_quartic_energy_error_quadratic",
    "Verlet.verlet_phi_coordinate",
    "Verlet.verlet_reversible",
    "Verlet.verlet_shadow_harmonic",
    "Verlet.energy_error_quadratic_partial",
    "Verlet.mb_mean_zero",
    "Verlet.mb_variance",
    "Verlet.mb_normal",
    "Verlet.mb_forced_temperature",
    "Verlet.ke_reference_fresh",
    "Verlet.attempt_failed_restores",
]
RULE = (
    "real Verlet.integrate / maxwell_boltzmann_distribution / HamiltonianDisplacementMove / HamiltonianCanonical on real "
    "ase.Atoms (1-8 atoms, random masses 1-200 amu, thermal momenta 50-2000 K) with analytic calculators (harmonic wells, "
    "component-wise quartic wells, pairwise Morse, free flight) and EMT clusters; dt chosen as 0.02-0.5 of 1/omega_max, "
    "0-100 (quick) / 0-300 (thorough) steps, both values of apply_constraints; scripted normal draws and check_move "
    "verdicts (max_attempts 1-4); a case is non-trivial when at least one integration step or one draw happens"
)
ASSUMPTIONS = [
    "theorems are over the reals; IEEE rounding is absorbed by the stated tolerances (reversal: 1e-9*scale plus the "
    "cancellation budget eps*steps*m*|q|/dt of the coded momentum recomputation)",
    "energy-error order for general smooth potentials is supported numerically only (energy_error_quadratic_partial is harmonic)",
    "numpy's standard_normal is taken to be N(0,1); mb_* theorems are conditional on that law",
    "ASE Atoms.set_positions/set_momenta/get_forces/get_kinetic_energy/get_number_of_degrees_of_freedom as read in ase 3.x",
]

EPS = 2.220446049250313e-16
SYMS = ["Cu", "Ag", "Au", "Al"]


def _import():
    import quansino.mc  # noqa: F401  (import order, C08)
    from ase.units import fs, kB
    from quansino.integrators.displacement import Verlet
    from quansino.mc.contexts import HamiltonianDisplacementContext
    from quansino.moves.displacement import HamiltonianDisplacementMove
    from quansino.utils.dynamics import maxwell_boltzmann_distribution

    return dict(fs=fs, kB=kB, Verlet=Verlet, Ctx=HamiltonianDisplacementContext,
                Move=HamiltonianDisplacementMove, mb=maxwell_boltzmann_distribution)


KB = 8.617330337217213e-05  # ase.units.kB
FS = 0.09822694788464063  # ase.units.fs (only used to pick dt; the model is given integrator.dt itself)


def gen_system(rng, nmax=6, kinds=("harm", "quart", "morse", "zero"), emt=False, bulk=False):
    n = rng.randint(1, nmax)
    cell = None
    if emt and bulk:
        # a small fcc crystal: at thermal amplitudes no pair crosses EMT's hard neighbour cut-off (which lies between
        # two neighbour shells), so the force field is smooth along the trajectory, as the property text requires
        from ase.build import bulk as _bulk
        from ase.data import atomic_masses, atomic_numbers

        sym = rng.choice(SYMS)
        a = _bulk(sym, cubic=True).repeat((2, 2, 1) if nmax < 32 else (2, 2, 2))
        syms = list(a.get_chemical_symbols())
        n = len(syms)
        pos = (a.positions + np.array([[rng.uniform(-0.03, 0.03) for _ in range(3)] for _ in range(n)])).tolist()
        cell = a.cell.array.tolist()
        masses = None
        ff = {"kind": "emt"}
        mlist = [float(atomic_masses[atomic_numbers[s]]) for s in syms]
        wmax = 0.45
    elif emt:
        n = rng.randint(2, max(2, nmax))
        syms = [rng.choice(SYMS) for _ in range(n)]
        pos = H.rand_positions(rng, n, spacing=2.7, jitter=0.2)
        masses = None
        ff = {"kind": "emt"}
        from ase.data import atomic_masses, atomic_numbers

        mlist = [float(atomic_masses[atomic_numbers[s]]) for s in syms]
        wmax = 0.45  # ~ 7 THz * 2 pi in ASE units is 0.43
    else:
        syms = ["Cu"] * n
        pos = H.rand_positions(rng, n)
        mlist = [rng.choice([1.008, 12.011, 63.546, 196.97, rng.uniform(1.0, 200.0)]) for _ in range(n)]
        masses = mlist
        ff = H.rand_ff(rng, n, pos, kinds=kinds)
        wmax = H.omega_max(ff, mlist, pos)
    T = rng.choice([50.0, 300.0, 300.0, 1000.0, 2000.0]) if cell is None else rng.choice([50.0, 150.0, 300.0])
    mom = [[rng.gauss(0.0, 1.0) * math.sqrt(m * KB * T) for _ in range(3)] for m in mlist]
    out = {"symbols": syms, "positions": pos, "masses": masses, "momenta": mom, "ff": ff, "wmax": wmax, "T": T}
    if cell is not None:
        out["cell"] = cell
        out["pbc"] = True
    return out


def attach_calc(atoms, ff):
    if ff["kind"] == "emt":
        from ase.calculators.emt import EMT

        atoms.calc = EMT()
    else:
        atoms.calc = H.FFCalc(ff)


def exc_oracle(prefix, obs):
    if "exception" in obs:
        return [(f"{prefix}:exception:{obs['exception']}", obs.get("message", ""))]
    return None


# ============================================================================ 1. integrator vs Float model



def make_verlet(q, dt_fs, steps, apply=True):
    """a Verlet integrator with time step dt_fs, built in one of three documented ways chosen from the case values:
    the constructor, assignment of `dt`/`max_steps` on a live object, or the dictionary round trip"""
    V = q["Verlet"]
    mode = int(round(abs(dt_fs) * 1e6) + steps) % 3
    if mode == 0:
        return V(dt=dt_fs, max_steps=steps, apply_constraints=apply)
    if mode == 1:
        v = V(dt=0.37, max_steps=7, apply_constraints=not apply)
        v.dt = dt_fs * q["fs"]
        v.max_steps = steps
        v.apply_constraints = apply
        return v
    return V.from_dict(V(dt=dt_fs, max_steps=steps, apply_constraints=apply).to_dict())


def remember_results(ctx, atoms, where):
    """what a driver leaves in the context: results (forces included) remembered by `save_state()` — for the current
    configuration ("here") or for another one ("elsewhere": e.g. the last accepted state, while the integrator is asked
    to start from a different point). The integrator must use the forces of the configuration it starts from."""
    if where == "none":
        return
    q0, p0 = atoms.get_positions(), atoms.get_momenta()
    if where == "elsewhere":
        atoms.positions = q0 + 0.05 * np.sin(np.arange(q0.size).reshape(q0.shape) + 1.0)
    atoms.get_forces()
    import warnings

    with warnings.catch_warnings():
        warnings.simplefilter("ignore")
        ctx.save_state()
    atoms.positions = q0
    atoms.set_array("momenta", p0, float, (3,))


class VerletModel(common.Suite):
    """real Verlet.integrate(context) on analytic force fields == the Lean Float model"""

    name = "verlet-model"

    def cases(self, rng, tier):
        k = 100 if tier == "quick" else 1500
        for _ in range(k):
            s = gen_system(rng, nmax=5 if tier == "quick" else 8)
            frac = rng.choice([0.02, 0.1, 0.25, 0.5])
            s["dt_fs"] = frac / s["wmax"] / FS
            s["steps"] = rng.choice([0, 1, 1, 2, 3, 5, 10, 20, 40])
            s["apply"] = rng.random() < 0.6
            s["remembered"] = rng.choice(["none", "here", "elsewhere", "elsewhere"])
            yield s

    def real(self, case):
        q = _import()
        atoms = H.make_atoms(case)
        attach_calc(atoms, case["ff"])
        ctx = q["Ctx"](atoms, np.random.default_rng(0))
        remember_results(ctx, atoms, case.get("remembered", "none"))
        integ = make_verlet(q, case["dt_fs"], case["steps"], case["apply"])
        integ.integrate(ctx)
        return {"dt": integ.dt, "q": atoms.get_positions().tolist(), "p": atoms.get_momenta().tolist(),
                "ncalc": atoms.calc.ncalc}

    def model_lines(self, case):
        q = _import()
        n = len(case["symbols"])
        dt = case["dt_fs"] * q["fs"]
        return [" ".join(["verlet", str(n), "none", "1" if case["apply"] else "0", common.fbits(dt), str(case["steps"]),
                          H.enc_col(case["masses"]), H.enc_arr(case["positions"]), H.enc_arr(case["momenta"]),
                          H.enc_ff(case["ff"])])]

    def model_obs(self, case, outs):
        w = outs[0].split()
        if w[0] != "ok":
            return {"bad": outs[0]}
        n = len(case["symbols"])
        return {"q": H.dec_arr(w[1], n).tolist(), "p": H.dec_arr(w[2], n).tolist()}

    def compare(self, case, real, model):
        if "exception" in real or "bad" in model:
            return [f"real={real.get('exception')} model={model.get('bad')}"]
        rq, rp, mq, mp = (np.array(x) for x in (real["q"], real["p"], model["q"], model["p"]))
        qmax = max(1.0, float(np.abs(rq).max()))
        pmax = max(1.0, float(np.abs(rp).max()))
        mmax = max(case["masses"])
        tol_q = 1e-10 * qmax
        tol_p = 1e-10 * pmax + 1e3 * EPS * max(1, case["steps"]) * mmax * qmax / real["dt"]
        d = []
        if np.abs(rq - mq).max() > tol_q:
            d.append(f"positions differ by {np.abs(rq - mq).max():.3e} (tol {tol_q:.1e})")
        if np.abs(rp - mp).max() > tol_p:
            d.append(f"momenta differ by {np.abs(rp - mp).max():.3e} (tol {tol_p:.1e})")
        return d

    def oracle(self, case, obs):
        e = exc_oracle("verlet", obs)
        if e:
            return e
        out = []
        # one force evaluation before the loop and one per step (the calculator caches unchanged positions)
        if not np.all(np.isfinite(np.array(obs["q"]))) or not np.all(np.isfinite(np.array(obs["p"]))):
            out.append((f"verlet:non-finite:{case['ff']['kind']}", "non-finite positions or momenta inside the stability range"))
        return out

    def classify(self, case, obs):
        if case["steps"] == 0:
            return None
        return (f"{case['ff']['kind']}:apply={int(case['apply'])}:steps={'1' if case['steps'] == 1 else ('2-5' if case['steps'] <= 5 else '>5')}"
                f":remembered={case.get('remembered', 'none')}")


# ============================================================================ 2. reversal experiment (oracle)


class Reversal(common.Suite):
    """integrate n steps, negate momenta, integrate n steps, negate: back at the start up to rounding"""

    name = "reversal"

    def cases(self, rng, tier):
        k = 60 if tier == "quick" else 600
        smax = 100 if tier == "quick" else 300
        for i in range(k):
            emt = (i % 4 == 3)
            s = gen_system(rng, nmax=6 if not emt else (16 if tier == "quick" else 32), kinds=("harm", "quart", "morse"), emt=emt, bulk=True)
            frac = rng.choice([0.05, 0.1, 0.2, 0.4])
            s["dt_fs"] = frac / s["wmax"] / FS
            s["steps"] = rng.choice([1, 2, 5, 10, 25, 50, smax])
            if s["ff"]["kind"] == "morse":
                # hot Morse clusters are chaotic: rounding errors grow like exp(lambda t); keep the trajectory short
                # enough that this amplification stays far below the 1e-9 tolerance
                s["steps"] = min(s["steps"], 100)
            s["apply"] = rng.random() < 0.7
            # rigid bonds (ASE FixBondLengths): the position correction of the drift is NOT the projection applied to the
            # momenta, so the integrator has to feed it back into the half-step momenta (RATTLE) to stay reversible
            s["bonds"] = None
            if i % 5 == 2 and len(s["symbols"]) >= 3 and not emt:
                s["bonds"] = [[0, 1], [1, 2]] if rng.random() < 0.6 else [[0, 1]]
                s["apply"] = True
                s["steps"] = min(s["steps"], 25)
                s["dt_fs"] = s["dt_fs"] * 0.5
            yield s

    def real(self, case):
        q = _import()
        atoms = H.make_atoms(case)
        attach_calc(atoms, case["ff"])
        if case.get("bonds"):
            from ase.constraints import FixBondLengths

            atoms.set_constraint(FixBondLengths(case["bonds"]))
            atoms.set_momenta(atoms.get_momenta())        # momenta consistent with the constraint
        ctx = q["Ctx"](atoms, np.random.default_rng(0))
        integ = make_verlet(q, case["dt_fs"], case["steps"], case["apply"])
        if case["steps"] % 2:
            remember_results(ctx, atoms, "here")      # the backward leg then starts away from the remembered state
        q0, p0 = atoms.get_positions(), atoms.get_momenta()
        integ.integrate(ctx)
        q1, p1 = atoms.get_positions(), atoms.get_momenta()
        atoms.set_momenta(-atoms.get_momenta(), apply_constraint=False)
        integ.integrate(ctx)
        atoms.set_momenta(-atoms.get_momenta(), apply_constraint=False)
        q2, p2 = atoms.get_positions(), atoms.get_momenta()
        return {"dt": integ.dt, "err_q": float(np.abs(q2 - q0).max()), "err_p": float(np.abs(p2 - p0).max()),
                "moved": float(np.abs(q1 - q0).max()),
                "qmax": float(max(np.abs(q0).max(), np.abs(q1).max())),
                "pmax": float(max(np.abs(p0).max(), np.abs(p1).max())),
                "mmax": float(atoms.get_masses().max())}

    def oracle(self, case, obs):
        e = exc_oracle("reversal", obs)
        if e:
            return e
        out = []
        tol_q = 1e-9 * max(1.0, obs["qmax"])
        # momenta: 1e-9 relative + the rounding budget of `(positions' - positions) * m / dt` (eps*|q|*m/dt per step)
        tol_p = 1e-9 * max(obs["pmax"], 1e-12) + 100 * EPS * 2 * case["steps"] * obs["mmax"] * max(1.0, obs["qmax"]) / obs["dt"]
        key = f"{case['ff']['kind']}:apply={int(case['apply'])}" + (":rigid-bonds" if case.get("bonds") else "")
        if case.get("bonds"):
            tol_q, tol_p = 1e-7 * max(1.0, obs["qmax"]), 1e-6 * max(obs["pmax"], 1e-12) + tol_p   # SHAKE iterates to 1e-13 per step
        if not (obs["err_q"] <= tol_q):
            out.append((f"reversal:positions:{key}", f"|q_back - q_0| = {obs['err_q']:.3e} > {tol_q:.1e} after {case['steps']} steps"))
        if not (obs["err_p"] <= tol_p):
            out.append((f"reversal:momenta:{key}", f"|p_back - p_0| = {obs['err_p']:.3e} > {tol_p:.1e} after {case['steps']} steps"))
        return out

    def classify(self, case, obs):
        if obs.get("moved", 0.0) == 0.0:
            return None
        return (f"{case['ff']['kind']}:apply={int(case['apply'])}:steps={'<=5' if case['steps'] <= 5 else ('<=50' if case['steps'] <= 50 else '>50')}"
                + (":rigid-bonds" if case.get("bonds") else ""))


# ============================================================================ 3. order of the energy error (oracle)


class EnergyOrder(common.Suite):
    """max |E(t) - E(0)| over a fixed time span for dt, dt/2, dt/4, ...: slope 2 in log-log"""

    name = "energy-order"

    def cases(self, rng, tier):
        k = 16 if tier == "quick" else 120
        for i in range(k):
            emt = (i % 8 == 7) if tier == "quick" else (i % 4 == 3)
            s = gen_system(rng, nmax=5 if not emt else (16 if tier == "quick" else 32), kinds=("harm", "quart", "morse"), emt=emt, bulk=True)
            s["dt0_fs"] = 0.25 / s["wmax"] / FS
            s["n0"] = 16
            s["levels"] = 4 if tier == "quick" else 5
            s["window"] = [1.5, 2.5] if tier == "quick" else [1.8, 2.2]
            yield s

    def real(self, case):
        q = _import()
        errs, dts = [], []
        for lev in range(case["levels"]):
            atoms = H.make_atoms(case)
            attach_calc(atoms, case["ff"])
            ctx = q["Ctx"](atoms, np.random.default_rng(0))
            integ = make_verlet(q, case["dt0_fs"] / 2**lev, 1)
            e0 = atoms.get_total_energy()
            worst = 0.0
            for _ in range(case["n0"] * 2**lev):
                integ.integrate(ctx)
                worst = max(worst, abs(atoms.get_total_energy() - e0))
            errs.append(worst)
            dts.append(integ.dt)
        ekin = float(atoms.get_kinetic_energy())
        slope = None
        if all(e > 0 for e in errs):
            x = np.log(np.array(dts))
            y = np.log(np.array(errs))
            slope = float(np.polyfit(x, y, 1)[0])
        return {"dts": dts, "errs": errs, "slope": slope, "e0": float(e0), "ekin": ekin}

    def oracle(self, case, obs):
        e = exc_oracle("energy-order", obs)
        if e:
            return e
        errs = obs["errs"]
        floor = 1e-11 * max(1.0, abs(obs["e0"]))
        if max(errs) <= floor:
            return []  # nothing measurable (e.g. a particle at rest at the bottom of its well)
        lo, hi = case["window"]
        if obs["slope"] is None or min(errs) <= floor:
            # the finest levels hit the rounding floor: use the levels above it
            good = [(d, e_) for d, e_ in zip(obs["dts"], errs) if e_ > 100 * floor]
            if len(good) < 3:
                return []
            slope = float(np.polyfit(np.log([g[0] for g in good]), np.log([g[1] for g in good]), 1)[0])
        else:
            slope = obs["slope"]
        if not (lo <= slope <= hi):
            return [(f"energy-order:{case['ff']['kind']}", f"fitted order {slope:.3f} outside [{lo}, {hi}]; errors {errs} for dt {obs['dts']}")]
        return []

    def classify(self, case, obs):
        s = obs.get("slope")
        if s is None or max(obs["errs"]) <= 1e-11 * max(1.0, abs(obs["e0"])):
            return None  # nothing measurable (free flight, particle at rest)
        return f"{case['ff']['kind']}:order={s:.1f}"


# ============================================================================ 4. Maxwell-Boltzmann refresh


class ScriptedRNG:
    """stands for `context.rng`: hands out the scripted normal draws; any other use is an AttributeError"""

    def __init__(self, zs, us=()):
        self.zs = [np.array(z, float) for z in zs]
        self.us = list(us)
        self.calls = []

    def standard_normal(self, size=None):
        z = self.zs.pop(0)
        self.calls.append(("standard_normal", tuple(size) if size is not None else None))
        if size is not None and tuple(size) != z.shape:
            raise ValueError(f"scripted draw has shape {z.shape}, asked for {size}")
        return z.copy()

    def random(self):
        self.calls.append(("random", None))
        return self.us.pop(0) if self.us else 0.5


def set_constraint(atoms, spec):
    from ase.constraints import FixAtoms, FixCom

    if spec["kind"] == "fixatoms":
        atoms.set_constraint(FixAtoms(indices=spec["indices"]))
    elif spec["kind"] == "fixcom":
        atoms.set_constraint(FixCom())
    elif spec["kind"] == "fixrot":
        from quansino.constraints import FixRot

        atoms.set_constraint(FixRot())


class MaxwellBoltzmann(common.Suite):
    name = "maxwell-boltzmann"

    def cases(self, rng, tier):
        k = 150 if tier == "quick" else 2000
        for i in range(k):
            n = rng.randint(1, 8)
            masses = [rng.choice([1.008, 12.011, 63.546, rng.uniform(1.0, 200.0)]) for _ in range(n)]
            r = rng.random()
            cons = {"kind": "none"}
            if r > 0.7 and n >= 2:
                cons = rng.choice([{"kind": "fixatoms", "indices": sorted(rng.sample(range(n), rng.randint(1, n - 1)))},
                                   {"kind": "fixcom"}])
            yield {"kind": "scripted", "symbols": ["Cu"] * n, "positions": H.rand_positions(rng, n), "masses": masses,
                   "T": rng.choice([1.0, 50.0, 300.0, 1000.0, rng.uniform(0.1, 5000.0)]),
                   "forced": rng.random() < 0.5, "cons": cons,
                   "z": [[rng.gauss(0, 1) for _ in range(3)] for _ in range(n)]}
        for i in range(2 if tier == "quick" else 12):
            n = 3000
            yield {"kind": "stat", "n": n, "seed": rng.randrange(2**32), "T": rng.choice([10.0, 300.0, 2500.0]),
                   "mass_seed": rng.randrange(2**32)}

    def real(self, case):
        q = _import()
        if case["kind"] == "stat":
            n = case["n"]
            from ase import Atoms

            mr = np.random.default_rng(case["mass_seed"])
            atoms = Atoms(["Cu"] * n, positions=np.zeros((n, 3)))
            atoms.set_masses(mr.uniform(1.0, 200.0, n))
            ctx = q["Ctx"](atoms, np.random.default_rng(case["seed"]))
            ctx.temperature = case["T"]
            q["mb"](ctx)
            zz = atoms.get_momenta() / np.sqrt(atoms.get_masses() * case["T"] * q["kB"])[:, None]
            return {"mean": float(zz.mean()), "var": float((zz**2).mean()), "m4": float((zz**4).mean()), "count": int(zz.size)}
        atoms = H.make_atoms(case)
        set_constraint(atoms, case["cons"])
        rng = ScriptedRNG([case["z"]])
        ctx = q["Ctx"](atoms, rng)
        ctx.temperature = case["T"]
        q["mb"](ctx, forced=case["forced"])
        p = atoms.get_momenta()
        ndof = int(atoms.get_number_of_degrees_of_freedom())
        return {"p": p.tolist(), "kT": case["T"] * q["kB"], "ndof": ndof, "ke": float(atoms.get_kinetic_energy()),
                "calls": [c[0] for c in rng.calls]}

    def model_lines(self, case):
        if case["kind"] != "scripted":
            return []
        q = _import()
        n = len(case["symbols"])
        ndof = 3 * n - (3 * len(case["cons"]["indices"]) if case["cons"]["kind"] == "fixatoms" else (3 if case["cons"]["kind"] == "fixcom" else 0))
        return [" ".join(["mbdist", str(n), H.enc_cons(case["cons"], n), "1" if case["forced"] else "0",
                          common.fbits(case["T"] * q["kB"]), str(ndof), H.enc_col(case["masses"]),
                          H.enc_arr(case["positions"]), H.enc_arr(case["z"])])]

    def model_obs(self, case, outs):
        w = outs[0].split()
        if w[0] != "ok":
            return {"bad": outs[0]}
        return {"p": H.dec_arr(w[1], len(case["symbols"])).tolist()}

    def compare(self, case, real, model):
        if "exception" in real or "bad" in model:
            return [f"real={real.get('exception')} model={model.get('bad')}"]
        rp, mp = np.array(real["p"]), np.array(model["p"])
        scale = max(1e-300, float(np.abs(rp).max()), float(np.abs(mp).max()))
        if np.abs(rp - mp).max() > 1e-10 * scale:
            return [f"momenta differ by {np.abs(rp - mp).max():.3e} (scale {scale:.2e})"]
        return []

    def oracle(self, case, obs):
        e = exc_oracle("mb", obs)
        if e:
            return e
        out = []
        if case["kind"] == "stat":
            N = obs["count"]
            if abs(obs["mean"]) > 7.0 / math.sqrt(N):
                out.append(("mb:stat:mean", f"mean of p/sqrt(m kT) = {obs['mean']:.4f} over {N} components"))
            if abs(obs["var"] - 1.0) > 7.0 * math.sqrt(2.0 / N):
                out.append(("mb:stat:variance", f"variance of p/sqrt(m kT) = {obs['var']:.4f} over {N} components (expected 1)"))
            if abs(obs["m4"] - 3.0) > 7.0 * math.sqrt(96.0 / N):
                out.append(("mb:stat:kurtosis", f"fourth moment {obs['m4']:.3f} (normal: 3)"))
            return out
        if case["cons"]["kind"] != "none":
            return out
        p = np.array(obs["p"])
        m = np.array(case["masses"])[:, None]
        z = np.array(case["z"])
        kT = obs["kT"]
        if not case["forced"]:
            want = z * np.sqrt(m * kT)
            if np.abs(p - want).max() > 1e-12 * max(1e-300, np.abs(want).max()):
                out.append(("mb:unforced:not-z-sqrt-mkT", f"momenta differ from z*sqrt(m kT) by {np.abs(p - want).max():.3e}"))
        else:
            raw = z * np.sqrt(m * kT)
            t_real = 2.0 * (0.5 * np.sum(raw * raw / m)) / obs["ndof"]
            t_new = 2.0 * (0.5 * np.sum(p * p / m)) / obs["ndof"]
            if t_real > 0 and abs(t_new - kT) > kT * (1e-15 / t_real) + 1e-12 * kT:
                out.append(("mb:forced:temperature", f"kinetic temperature {t_new:.17g} vs target {kT:.17g} (T_real {t_real:.3e})"))
        return out

    def classify(self, case, obs):
        if case["kind"] == "stat":
            return "stat"
        return f"{case['cons']['kind']}:forced={int(case['forced'])}"


# ============================================================================ 5. the move: which kinetic energy is stored


def ke_of(p, masses):
    p = np.asarray(p, float)
    return float(0.5 * np.sum(p * p / np.asarray(masses, float)[:, None]))


class HMove(common.Suite):
    """real HamiltonianDisplacementMove.attempt_displacement with scripted draws and check_move verdicts"""

    name = "hamiltonian-move"

    def cases(self, rng, tier):
        k = 120 if tier == "quick" else 1500
        for _ in range(k):
            s = gen_system(rng, nmax=5)
            s["dt_fs"] = rng.choice([0.05, 0.2, 0.4]) / s["wmax"] / FS
            s["steps"] = rng.choice([0, 1, 2, 5, 10])
            s["apply"] = rng.random() < 0.7
            s["max_attempts"] = rng.randint(1, 4)
            s["checks"] = [rng.random() < 0.5 for _ in range(rng.randint(0, 5))]
            s["forced"] = rng.random() < 0.3
            s["sample"] = rng.random() < 0.85
            n = len(s["symbols"])
            s["zs"] = [[[rng.gauss(0, 1) for _ in range(3)] for _ in range(n)] for _ in range(s["max_attempts"])]
            yield s

    def real(self, case):
        q = _import()
        atoms = H.make_atoms(case)
        attach_calc(atoms, case["ff"])
        rng = ScriptedRNG(case["zs"])
        ctx = q["Ctx"](atoms, rng)
        ctx.temperature = case["T"]
        drawn = []

        def dist(c):
            # what `functools.partial(maxwell_boltzmann_distribution, forced=…)` or a lambda does: the callable's own
            # return value reaches the move
            r = q["mb"](c, forced=case["forced"])
            drawn.append(c.atoms.get_momenta())
            return r

        mv = q["Move"](distribution=dist, operation=q["Verlet"](dt=case["dt_fs"], max_steps=case["steps"],
                                                                 apply_constraints=case["apply"]))
        mv.max_attempts = case["max_attempts"]
        verdicts = list(case["checks"])
        asked = []

        def check(*_a, **_k):
            v = verdicts.pop(0) if verdicts else True
            asked.append(v)
            return v

        mv.check_move = check
        q0, p0 = atoms.get_positions(), atoms.get_momenta()
        ok = mv.attempt_displacement(ctx, sample_momenta=case["sample"])
        return {"ok": bool(ok), "q": atoms.get_positions().tolist(), "p": atoms.get_momenta().tolist(),
                "last_ke": float(ctx.last_kinetic_energy), "drawn_ke": [ke_of(d, case["masses"]) for d in drawn],
                "asked": asked, "restored": bool(np.array_equal(atoms.get_positions(), q0) and np.array_equal(atoms.get_momenta(), p0)),
                "kT": case["T"] * q["kB"], "dt": mv.operation.dt}

    def model_lines(self, case):
        q = _import()
        n = len(case["symbols"])
        return [" ".join(["hmove", str(n), "none", "1" if case["apply"] else "0", common.fbits(case["dt_fs"] * q["fs"]),
                          str(case["steps"]), H.enc_col(case["masses"]), H.enc_arr(case["positions"]),
                          H.enc_arr(case["momenta"]), H.enc_ff(case["ff"]), common.fbits(case["T"] * q["kB"]), str(3 * n),
                          "1" if case["forced"] else "0", "1" if case["sample"] else "0", str(case["max_attempts"]),
                          H.enc_arrs(case["zs"]), H.enc_checks(case["checks"])])]

    def model_obs(self, case, outs):
        w = outs[0].split()
        if w[0] != "ok":
            return {"bad": outs[0]}
        n = len(case["symbols"])
        return {"ok": w[1] == "true", "q": H.dec_arr(w[2], n).tolist(), "p": H.dec_arr(w[3], n).tolist(),
                "last_ke": common.bitsf(w[4])}

    def compare(self, case, real, model):
        if "exception" in real or "bad" in model:
            return [f"real={real.get('exception')} model={model.get('bad')}"]
        d = []
        if real["ok"] != model["ok"]:
            d.append(f"result real={real['ok']} model={model['ok']}")
        rq, rp, mq, mp = (np.array(x) for x in (real["q"], real["p"], model["q"], model["p"]))
        qmax = max(1.0, float(np.abs(rq).max()))
        pmax = max(1.0, float(np.abs(rp).max()))
        tol_p = 1e-10 * pmax + 1e3 * EPS * max(1, case["steps"]) * max(case["masses"]) * qmax / real["dt"]
        if np.abs(rq - mq).max() > 1e-10 * qmax:
            d.append(f"positions differ by {np.abs(rq - mq).max():.3e}")
        if np.abs(rp - mp).max() > tol_p:
            d.append(f"momenta differ by {np.abs(rp - mp).max():.3e}")
        if not common.close(real["last_ke"], model["last_ke"], 1e-10):
            d.append(f"last_kinetic_energy real={real['last_ke']!r} model={model['last_ke']!r}")
        return d

    def oracle(self, case, obs):
        e = exc_oracle("hmove", obs)
        if e:
            return e
        out = []
        # expected attempt in which the call succeeds: the first verdict that is not a veto
        verd = (list(case["checks"]) + [True] * case["max_attempts"])[: case["max_attempts"]]
        first = next((i for i, v in enumerate(verd) if v), None)
        if (first is not None) != obs["ok"]:
            out.append(("hmove:result", f"verdicts {verd} but the call returned {obs['ok']}"))
            return out
        if obs["ok"] and case["sample"]:
            if len(obs["drawn_ke"]) != first + 1:
                out.append(("hmove:draw-count", f"{len(obs['drawn_ke'])} draws for success in attempt {first}"))
            elif not common.close(obs["last_ke"], obs["drawn_ke"][-1], 1e-12):
                which = [i for i, k in enumerate(obs["drawn_ke"]) if common.close(k, obs["last_ke"], 1e-12)]
                out.append((f"hmove:stale-kinetic-energy:attempt={first}",
                            f"last_kinetic_energy {obs['last_ke']!r} is not the kinetic energy {obs['drawn_ke'][-1]!r} of the "
                            f"momenta drawn in the successful attempt (matches draws {which})"))
        if not obs["ok"] and not obs["restored"]:
            out.append(("hmove:failed-not-restored", "every attempt vetoed but positions/momenta differ from the start"))
        return out

    def classify(self, case, obs):
        if "ok" not in obs:
            return "exception"
        return f"ok={int(obs['ok'])}:attempts={len(obs['asked'])}:sample={int(case['sample'])}:forced={int(case['forced'])}"


# ============================================================================ 6. the driver: energy seen by the criteria


class HMCDriver(common.Suite):
    """real HamiltonianCanonical runs: at every criteria evaluation, context.last_kinetic_energy is the kinetic
    energy of the momenta drawn in the attempt that produced the proposal"""

    name = "hmc-driver"

    def cases(self, rng, tier):
        k = 10 if tier == "quick" else 80
        for i in range(k):
            emt = i % 5 == 4
            s = gen_system(rng, nmax=5, kinds=("harm", "quart", "morse"), emt=emt)
            s["dt_fs"] = rng.choice([0.1, 0.3, 1.0, 1.6]) / s["wmax"] / FS
            s["steps"] = rng.choice([1, 3, 8])
            s["nsteps"] = 10 if tier == "quick" else 40
            s["seed"] = rng.randrange(1, 2**31)
            s["veto_p"] = rng.choice([0.0, 0.3, 0.6])
            s["veto_seed"] = rng.randrange(2**31)
            s["max_attempts"] = rng.randint(1, 3)
            yield s

    def real(self, case):
        q = _import()
        import random as _r

        from quansino.mc.canonical import HamiltonianCanonical

        atoms = H.make_atoms(case)
        attach_calc(atoms, case["ff"])
        masses = atoms.get_masses()
        drawn = []

        def dist(c):
            r = q["mb"](c)
            drawn.append(ke_of(c.atoms.get_momenta(), masses))
            return r

        mv = q["Move"](distribution=dist, operation=q["Verlet"](dt=case["dt_fs"], max_steps=case["steps"]))
        mv.max_attempts = case["max_attempts"]
        vr = _r.Random(case["veto_seed"])
        mv.check_move = lambda *_a, **_k: vr.random() >= case["veto_p"]
        mc = HamiltonianCanonical(atoms, temperature=case["T"], default_displacement_move=mv, seed=case["seed"], max_cycles=1)
        crit = mc.moves["default_displacement_move"].criteria
        orig = crit.evaluate
        seen = []

        def ev(ctx):
            seen.append((float(ctx.last_kinetic_energy), drawn[-1] if drawn else None, len(drawn)))
            return orig(ctx)

        crit.evaluate = ev
        hist = []
        aborted = None
        try:
            for _ in mc.srun(case["nsteps"]):
                hist.append(mc.move_history[-1][1] if mc.move_history else None)
        except OverflowError as ex:  # math.exp overflow in the criteria: a defect of C02, not of this property
            aborted = type(ex).__name__
        return {"seen": seen, "history": [None if h is None else bool(h) for h in hist], "ndraws": len(drawn),
                "aborted": aborted}

    def oracle(self, case, obs):
        e = exc_oracle("hmc-driver", obs)
        if e:
            return e
        for i, (last, fresh, _nd) in enumerate(obs["seen"]):
            if fresh is None or not common.close(last, fresh, 1e-12):
                return [("hmc-driver:stale-kinetic-energy", f"criteria evaluation {i}: last_kinetic_energy {last!r}, fresh draw {fresh!r}")]
        return []

    def classify(self, case, obs):
        h = obs.get("history", [])
        if not h:
            return "exception" if "exception" in obs else None
        return f"{case['ff']['kind']}:acc={sum(1 for x in h if x)}:rej={sum(1 for x in h if x is False)}:fail={sum(1 for x in h if x is None)}"


def suites(tier):
    return [VerletModel(), Reversal(), EnergyOrder(), MaxwellBoltzmann(), HMove(), HMCDriver()]
