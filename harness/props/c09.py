"""C09 — move scheduling honours interval, probability and minimum count (DESIGN §6 C09).

Suites
* yield-moves   real `MonteCarlo.yield_moves()` driven by `ScriptedRNG` vs the Lean model `Sched.yieldTrace`
                (names, free/forced flag of every cycle, draws consumed, error kind) + the property oracle;
* step          real `MonteCarlo.step()` with probe moves/criteria that consume draws of the same stream, vs `Sched.step`
                (move_history and draws consumed) + oracle on len(move_history);
* add-move      sequences of real `add_move` calls vs `Sched.addMoves` + oracle (refusal of over-commit, invariant);
* rng-twin      the random oracle: numpy `Generator(PCG64)` vs `ScriptedRNG` vs `Rng.lean`
                (choice(p=…), choice(a), choice(replace=False), integers, random, uniform; stream lock-step);
* frequency     real PCG64 generator, no scripting: the four clauses on thousands of steps, and a chi-square test of the
                free-slot frequencies against the weights (gate p < 1e-9 on each of 3 seeds).
"""
from __future__ import annotations

import math
from fractions import Fraction

import common

ID = "C09"
LEAN_MODULES = ["QProps.C09"]
THEOREMS = [
    "Sched.yield_length",
    "Sched.step_history_length",
    "Sched.yield_due",
    "Sched.step_due",
    "Sched.yield_min_count_of_distinct_slots",
    "Sched.yield_min_count",
    "Sched.step_min_count",
    "Sched.zero_weight_never_free",
    "Sched.weights_of_any_numeric_type",
    "Sched.integer_weights_raised_pinned",
    "Sched.default_cycles_pos",
    "Sched.default_cycles_given",
    "Sched.default_step_attempts_a_move",
    "Sched.default_cycles_pinned_empty_box",
    "Sched.forced_cycles_count",
    "Sched.free_slot_measure",
    "Sched.free_slots_independent_draws",
    "Sched.yield_total",
    "Sched.yield_zero_interval",
    "Sched.yield_overcommitted_raises",
    "Sched.yield_all_zero_weights_raises",
    "Sched.addMove_refuses_overcommit",
    "Sched.addMove_refuses_single",
    "Sched.addMove_accepts_iff",
    "Sched.addMove_inv_step",
    "Sched.addMove_inv",
    "Sched.addMove_replace_conservative",
    "Rng.sampleNoRepl_spec",
    "Rng.index_eq_iff",
]
RULE = (
    "move tables of 1-12 moves (intervals 1-7, weights from a pool of exactly representable floats with zeros, minimum "
    "counts summing to <= cycles), cycles 1-40, steps 0-60, scripts of draws k/2^21 with odd k (half of the free draws "
    "placed next to a boundary of the cumulative weights), plus a malformed stream (interval 0, all due weights zero, "
    "negative weights, over-committed tables written directly into mc.moves); add_move sequences of 1-14 calls with name "
    "reuse and missing criteria; a case is non-trivial when at least one move is due / one call is made; distinct = "
    "distinct (table, cycles, step, script) tuples"
)
ASSUMPTIONS = [
    "numpy Generator: random() in [0,1); scalar choice(a, p=p) = a[cumsum(p).searchsorted(random(), 'right')] on one draw; "
    "choice(a) = a[integers(0, len(a))] on one stream element; choice(size=k, replace=False) returns k distinct elements "
    "(all four re-checked against PCG64 by the rng-twin suite on every run)",
    "independence/uniformity of the stream elements (probability statements are 'length of the set of draws')",
    "weights are rationals in the model; the harness feeds floats that are exactly these rationals and keeps scripted draws "
    ">= 2^-22/sum(w) away from the cumulative-weight boundaries, so float rounding in p /= sum(p) cannot change a decision",
    "minimum counts are natural numbers (a negative minimum_count passes the add_move guard and is outside the model)",
]

DEN = 1 << 21
WEIGHT_POOL = [0.0, 0.0, 0.0, 1.0, 1.0, 1.0, 2.0, 3.0, 0.5, 0.25, 1.5, 0.1, 0.3, 0.7, 10.0, 0.001]


def frac(x) -> Fraction:
    return Fraction(x)


def rs(q: Fraction) -> str:
    return f"{q.numerator}/{q.denominator}" if q.denominator != 1 else str(q.numerator)


def rl(qs) -> str:
    qs = list(qs)
    return ",".join(rs(frac(q)) for q in qs) if qs else "-"


def nl(xs) -> str:
    xs = list(xs)
    return ",".join(str(int(x)) for x in xs) if xs else "-"


def odd_draw(rng) -> float:
    return (2 * rng.randrange(DEN // 2) + 1) / DEN


def near(q: Fraction, side: int) -> float:
    """an odd/2^21 draw in [0,1) next to the rational q, just below (side=-1) or just above (side=+1)"""
    n = math.floor(q * DEN)
    if side < 0:
        k = n if n % 2 == 1 else n - 1
        if Fraction(k, DEN) >= q:
            k -= 2
    else:
        k = n + 1 if (n + 1) % 2 == 1 else n + 2
    k = max(1, min(DEN - 1, k))
    return k / DEN


def due_idx(table, step):
    return [i for i, m in enumerate(table) if m["interval"] != 0 and step % m["interval"] == 0]


def gen_table(rng, nmax=12, cmax=40, valid=True):
    n = min(rng.choice([1, 1, 2, 2, 3, 3, 4, 5, 6, 8, 12]), nmax)
    cycles = rng.choice([1, 1, 2, 3, 4, 5, 6, 8, 10, 12, 16, 25, 40])
    cycles = min(cycles, cmax)
    table = []
    budget = cycles if rng.random() < 0.8 else rng.randint(0, cycles)
    for i in range(n):
        interval = rng.choice([1, 1, 1, 2, 2, 3, 4, 5, 6, 7])
        w = rng.choice(WEIGHT_POOL)
        if rng.random() < 0.5 and budget > 0:
            m = rng.randint(0, min(budget, rng.choice([1, 2, 3, cycles])))
        else:
            m = 0
        budget -= m
        table.append({"name": f"m{i}", "interval": interval, "weight": w, "min": m})
    rng.shuffle(table)
    for i, m in enumerate(table):
        m["name"] = f"m{i}"
    if rng.random() < 0.15:
        # weights given as Python integers (`probability=1`): a weight is a weight, whatever its numeric type
        for m in table:
            m["weight"] = int(rng.choice([0, 1, 1, 2, 3]))
    return table, cycles


def make_script(rng, table, cycles, step, extra=0):
    """k sampling draws, then one draw per cycle (generous), half of them next to a cumulative-weight boundary"""
    d = due_idx(table, step)
    ws = [frac(table[i]["weight"]) for i in d]
    tot = sum(ws)
    k = sum(table[i]["min"] for i in d)
    script = [odd_draw(rng) for _ in range(k)]
    bounds = []
    if d and tot > 0:
        acc = Fraction(0)
        for w in ws:
            acc += w
            if 0 < acc / tot < 1:
                bounds.append(acc / tot)
    for _ in range(cycles + extra):
        if bounds and rng.random() < 0.5:
            script.append(near(rng.choice(bounds), rng.choice([-1, 1])))
        else:
            script.append(odd_draw(rng))
    return script


class _Crit:
    def evaluate(self, context):
        return True


def build_mc(table, cycles, via_add_move=True):
    import quansino.mc  # noqa: F401  (import order: see C08)
    from ase import Atoms
    from quansino.mc.core import MonteCarlo
    from quansino.utils.moves import MoveStorage

    mc = MonteCarlo(Atoms("H"), max_cycles=cycles, seed=1)
    for m in table:
        if via_add_move:
            mc.add_move(m.get("move", object()), criteria=m.get("criteria", _Crit()), name=m["name"],
                        interval=m["interval"], probability=m["weight"], minimum_count=m["min"])
        else:
            mc.moves[m["name"]] = MoveStorage(move=m.get("move", object()), criteria=m.get("criteria", _Crit()),
                                              interval=m["interval"], probability=m["weight"], minimum_count=m["min"])
    return mc


def table_valid(table, cycles, step):
    """the property's quantifier"""
    if any(m["interval"] < 1 or m["weight"] < 0 or m["min"] < 0 for m in table):
        return False
    if sum(m["min"] for m in table) > cycles:
        return False
    d = due_idx(table, step)
    if d and sum(table[i]["weight"] for i in d) <= 0:
        return False
    return True


def err_kind(e: Exception) -> str:
    msg = str(e)
    n = type(e).__name__
    if n == "ZeroDivisionError":
        return "ZeroDivisionError"
    if n == "ValueError":
        low = msg.lower()
        if "nan" in low:
            return "ValueError:nan"
        if "non-negative" in low:
            return "ValueError:negative"
        if "larger sample" in low:
            return "ValueError:sample-too-large"
        if "forced moves exceeds" in low:
            return "ValueError:overcommit"
        if "no criteria" in low:
            return "ValueError:nocriteria"
        return "ValueError:" + msg[:40]
    return n


def table_tokens(table):
    return [nl(m["interval"] for m in table), rl(m["weight"] for m in table), nl(m["min"] for m in table)]


def check_clauses(table, cycles, step, names, prefix):
    """clauses 1-3 of the property on a yielded list of names (no reference to the model)"""
    out = []
    byname = {m["name"]: m for m in table}
    d = due_idx(table, step)
    if not d:
        if names:
            out.append((f"{prefix}:yielded-when-nothing-due", f"step {step}: {names[:6]}"))
        return out
    if len(names) != cycles:
        out.append((f"{prefix}:length", f"{len(names)} names for max_cycles={cycles}"))
    for nm in names:
        m = byname.get(nm)
        if m is None:
            out.append((f"{prefix}:unknown-name", repr(nm)))
            break
        if step % m["interval"] != 0:
            out.append((f"{prefix}:not-due", f"{nm} (interval {m['interval']}) yielded at step {step}"))
            break
    for i in d:
        m = table[i]
        if names.count(m["name"]) < m["min"]:
            out.append((f"{prefix}:min-count", f"{m['name']} occurs {names.count(m['name'])} < minimum_count {m['min']}"))
            break
    return out


# ------------------------------------------------------------------------------------------------ yield-moves
class YieldMoves(common.Suite):
    name = "yield-moves"

    def cases(self, rng, tier):
        n = 3000 if tier == "quick" else 40000
        for j in range(n):
            r = rng.random()
            table, cycles = gen_table(rng)
            step = rng.randint(0, 60) if rng.random() < 0.8 else rng.choice([0, 0, 1, 2, 6, 12, 30, 60, 420])
            kind = "valid"
            if r < 0.03:
                kind = "interval0"
                rng.choice(table)["interval"] = 0
            elif r < 0.08:
                kind = "zero-weights"
                for m in table:
                    m["weight"] = 0.0
            elif r < 0.11:
                kind = "negative-weight"  # dyadic weights only: the float sum is then exact, as in the model
                for m in table:
                    m["weight"] = rng.choice([0.0, 1.0, 2.0, 3.0, 0.5, 0.25, 1.5])
                rng.choice(table)["weight"] = -rng.choice([1.0, 0.5, 2.0])
            elif r < 0.15:
                kind = "overcommitted"
                rng.choice(table)["min"] += cycles + rng.randint(0, 2)
            script = make_script(rng, table, cycles, step)
            case = {"kind": kind, "table": table, "cycles": cycles, "step": step, "script": script}
            if kind == "valid" and rng.random() < 0.25:
                # the table has ALREADY scheduled steps with other weights; the weights of the case are then written
                # into the entries (in place, or by replacing the entry): the schedule follows the weights as they are now
                case["preuse"] = {"weights": [rng.choice([1.0, 2.0, 0.5, 3.0]) for _ in table],
                                  "how": rng.choice(["attribute", "attribute", "entry"]), "calls": rng.choice([1, 2, 3])}
            yield case

    def real(self, case):
        from scripted import ScriptedRNG

        table, cycles, step = case["table"], case["cycles"], case["step"]
        valid_for_add = all(m["min"] >= 0 for m in table) and sum(m["min"] for m in table) <= cycles
        pre = case.get("preuse")
        if pre:
            import numpy as np
            from quansino.utils.moves import MoveStorage

            mc = build_mc([{**m, "weight": w} for m, w in zip(table, pre["weights"])], cycles, via_add_move=valid_for_add)
            mc.step_count = step
            common.set_rng(mc, np.random.default_rng(7))
            mc.context.rng = common.get_rng(mc)
            for _ in range(pre["calls"]):
                list(mc.yield_moves())
            for m in table:
                if pre["how"] == "attribute":
                    mc.moves[m["name"]].probability = m["weight"]
                else:
                    old = mc.moves[m["name"]]
                    mc.moves[m["name"]] = MoveStorage(move=old.move, criteria=old.criteria, interval=old.interval,
                                                      probability=m["weight"], minimum_count=old.minimum_count)
        else:
            mc = build_mc(table, cycles, via_add_move=valid_for_add)
        rng = ScriptedRNG(case["script"])
        common.set_rng(mc, rng)
        mc.context.rng = rng
        mc.step_count = step
        try:
            names = [str(x) for x in mc.yield_moves()]
        except AttributeError as e:
            if rng.unknown:
                return {"result": "unmodelled-draw", "method": rng.unknown[-1]}
            raise e
        except (ValueError, ZeroDivisionError) as e:
            return {"result": "err", "error": err_kind(e)}
        forced_idx = None
        for c in rng.log:
            if c[0] == "choice" and c[1]["replace"] is False:
                forced_idx = [int(i) for i in (c[2] if isinstance(c[2], list) else [c[2]])]
                break
        flags = None
        if forced_idx is not None and len(names) == cycles:
            flags = [0 if i in forced_idx else 1 for i in range(cycles)]
        return {"result": "ok", "names": names, "flags": flags, "consumed": rng.consumed,
                "calls": [c[0] + (":p" if c[1].get("p") is not None else ":norepl" if c[1].get("replace") is False else "")
                          for c in rng.log][:3]}

    def model_lines(self, case):
        return [" ".join(["yield", str(case["cycles"]), str(case["step"]), *table_tokens(case["table"]),
                          rl(case["script"])])]

    def model_obs(self, case, outs):
        w = outs[0].split()
        if w[0] == "err":
            return {"result": "err", "error": w[1]}
        if w[0] != "ok":
            return {"result": outs[0]}
        ids = [] if w[1] == "-" else [int(x) for x in w[1].split(",")]
        flags = [] if w[2] == "-" else [int(x) for x in w[2].split(",")]
        obs = {"result": "ok", "names": [case["table"][i]["name"] for i in ids], "consumed": int(w[3])}
        if ids:
            obs["flags"] = flags
        return obs

    def oracle(self, case, obs):
        table, cycles, step = case["table"], case["cycles"], case["step"]
        if "exception" in obs:
            return [("yield:unexpected-exception:" + obs["exception"], obs["message"])]
        if not table_valid(table, cycles, step):
            return []  # outside the quantifier: nothing is demanded
        if obs["result"] == "unmodelled-draw":
            return []  # the code uses a generator method the oracle does not know: a broken tie, not a violation
        if obs["result"] != "ok":
            return [("yield:valid-table-raised:" + obs.get("error", obs["result"]),
                     f"cycles={cycles} step={step} table={table}")]
        names = obs["names"]
        out = check_clauses(table, cycles, step, names, "yield")
        # weight-zero moves are never chosen freely: they occupy forced cycles only
        d = due_idx(table, step)
        for i in d:
            m = table[i]
            if m["weight"] == 0 and names.count(m["name"]) > m["min"]:
                out.append(("yield:zero-weight-chosen-freely",
                            f"{m['name']} (weight 0, minimum_count {m['min']}) occurs {names.count(m['name'])} times"))
                break
        if obs.get("flags") is not None:
            byname = {m["name"]: m for m in table}
            for nm, fl in zip(names, obs["flags"]):
                if fl == 1 and nm in byname and byname[nm]["weight"] == 0:
                    out.append(("yield:zero-weight-in-free-slot", f"{nm} in a cycle that is not a forced slot"))
                    break
        return out

    def classify(self, case, obs):
        d = due_idx(case["table"], case["step"])
        if case["kind"] != "valid":
            return f"{case['kind']}:{obs.get('error', obs.get('result'))}"
        if not d:
            return None
        k = sum(case["table"][i]["min"] for i in d)
        zero = any(case["table"][i]["weight"] == 0 for i in d)
        return (f"due={min(len(d), 4)}{'+' if len(d) > 4 else ''},forced={'0' if k == 0 else 'all' if k == case['cycles'] else 'some'},"
                f"zero-weight={'y' if zero else 'n'}")


# ------------------------------------------------------------------------------------------------ step
class _ProbeMove:
    def __init__(self, ndraws, succeed):
        self.ndraws, self.succeed = ndraws, succeed

    def __call__(self, context):
        for _ in range(self.ndraws):
            context.rng.random()
        return self.succeed


class _ProbeCriteria:
    def evaluate(self, context):
        return bool(context.rng.random() < 0.5)


class Step(common.Suite):
    name = "step"

    def cases(self, rng, tier):
        n = 600 if tier == "quick" else 8000
        for _ in range(n):
            table, cycles = gen_table(rng, cmax=16)
            for m in table:  # keep this suite inside the quantifier
                if m["weight"] == 0 and rng.random() < 0.5:
                    m["weight"] = 1.0
            step = rng.randint(0, 30)
            d = due_idx(table, step)
            if d and sum(table[i]["weight"] for i in d) <= 0:
                table[d[0]]["weight"] = 2.0
            nd = [rng.choice([0, 0, 1, 2, 3]) for _ in table]
            succ = [1 if rng.random() < 0.7 else 0 for _ in table]
            script = make_script(rng, table, cycles, step, extra=cycles * 4 + 4)
            # the free draws are interleaved with the moves' draws, so boundary placement is only approximate here
            yield {"table": table, "cycles": cycles, "step": step, "script": script, "ndraws": nd, "succ": succ}

    def real(self, case):
        from scripted import ScriptedRNG

        table = [dict(m) for m in case["table"]]
        for m, nd, sc in zip(table, case["ndraws"], case["succ"]):
            m["move"] = _ProbeMove(nd, bool(sc))
            m["criteria"] = _ProbeCriteria()
        mc = build_mc(table, case["cycles"])
        rng = ScriptedRNG(case["script"])
        common.set_rng(mc, rng)
        mc.context.rng = rng
        mc.step_count = case["step"]
        mc.move_history = [("stale", True)]
        try:
            yielded = [str(x) for x in mc.step()]
        except AttributeError:
            if rng.unknown:
                return {"result": "unmodelled-draw", "method": rng.unknown[-1]}
            raise
        hist = [[str(nm), 2 if acc is None else int(bool(acc))] for nm, acc in mc.move_history]
        return {"result": "ok", "names": [h[0] for h in hist], "verdicts": [h[1] for h in hist], "yielded": yielded,
                "consumed": rng.consumed}

    def model_lines(self, case):
        return [" ".join(["step", str(case["cycles"]), str(case["step"]), *table_tokens(case["table"]),
                          rl(case["script"]), nl(case["ndraws"]), nl(case["succ"])])]

    def model_obs(self, case, outs):
        w = outs[0].split()
        if w[0] != "ok":
            return {"result": outs[0]}
        ids = [] if w[1] == "-" else [int(x) for x in w[1].split(",")]
        return {"result": "ok", "names": [case["table"][i]["name"] for i in ids],
                "verdicts": [] if w[2] == "-" else [int(x) for x in w[2].split(",")], "consumed": int(w[3])}

    def oracle(self, case, obs):
        if "exception" in obs:
            return [("step:unexpected-exception:" + obs["exception"], obs["message"])]
        if obs["result"] == "unmodelled-draw":
            return []  # broken tie, not a violation (the frequency suite runs the real generator)
        out = check_clauses(case["table"], case["cycles"], case["step"], obs["names"], "step")
        if obs["yielded"] != obs["names"]:
            out.append(("step:history-differs-from-yielded", f"{obs['yielded'][:5]} vs {obs['names'][:5]}"))
        for nm, v in zip(obs["names"], obs["verdicts"]):
            i = [m["name"] for m in case["table"]].index(nm)
            if (v == 2) != (case["succ"][i] == 0):
                out.append(("step:verdict-none-mismatch", f"{nm}: verdict {v}, move succeeded={case['succ'][i]}"))
                break
        return out

    def classify(self, case, obs):
        d = due_idx(case["table"], case["step"])
        if obs.get("result") != "ok":
            return str(obs.get("result", "exception"))
        if not d:
            return "nothing-due"
        vs = set(obs.get("verdicts", []))
        return f"due={min(len(d), 3)},verdicts={''.join(str(v) for v in sorted(vs))}"


# ------------------------------------------------------------------------------------------------ add-move
class AddMove(common.Suite):
    name = "add-move"

    def cases(self, rng, tier):
        n = 1500 if tier == "quick" else 20000
        for _ in range(n):
            cycles = rng.choice([1, 2, 3, 4, 5, 8, 12, 40])
            nnames = rng.randint(1, 6)
            malformed = rng.random() < 0.04
            ops = []
            for _ in range(rng.randint(1, 14)):
                r = rng.random()
                m = rng.choice([0, 0, 1, 1, 2, 3, cycles, cycles + 1, max(cycles - 1, 0), rng.randint(0, cycles + 2)])
                op = {"name": rng.randrange(nnames), "interval": rng.randint(1, 7), "weight": rng.choice(WEIGHT_POOL),
                      "min": m, "crit": 0 if r < 0.08 else 1}
                if malformed and r > 0.7:
                    op["min"] = -rng.randint(1, 3)  # malformed: outside the model
                ops.append(op)
            yield {"cycles": cycles, "ops": ops}

    def real(self, case):
        import quansino.mc  # noqa: F401
        from ase import Atoms
        from quansino.mc.core import MonteCarlo

        mc = MonteCarlo(Atoms("H"), max_cycles=case["cycles"], seed=1)
        codes, sums = [], []
        for op in case["ops"]:
            before = {k: (v.interval, v.probability, v.minimum_count) for k, v in mc.moves.items()}
            try:
                mc.add_move(object(), criteria=_Crit() if op["crit"] else None, name=f"n{op['name']}",
                            interval=op["interval"], probability=op["weight"], minimum_count=op["min"])
                codes.append(0)
            except ValueError as e:
                k = err_kind(e)
                codes.append(1 if k == "ValueError:overcommit" else 2 if k == "ValueError:nocriteria" else 9)
                after = {k2: (v.interval, v.probability, v.minimum_count) for k2, v in mc.moves.items()}
                if after != before or list(after) != list(before):
                    codes[-1] = 8  # a refused call changed the table
            sums.append(sum(v.minimum_count for v in mc.moves.values()))
        return {"codes": codes, "sums": sums, "names": [int(k[1:]) for k in mc.moves],
                "intervals": [v.interval for v in mc.moves.values()],
                "mins": [v.minimum_count for v in mc.moves.values()]}

    def modelled(self, case):
        return all(op["min"] >= 0 for op in case["ops"])

    def model_lines(self, case):
        if not self.modelled(case):
            return []
        ops = [f"{op['name']}:{op['interval']}:{rs(frac(op['weight']))}:{op['min']}:{op['crit']}" for op in case["ops"]]
        return [" ".join(["addmoves", str(case["cycles"]), *ops])]

    def model_obs(self, case, outs):
        w = outs[0].split()
        if w[0] != "ok":
            return {"codes": outs[0]}
        p = lambda s: [] if s == "-" else [int(x) for x in s.split(",")]  # noqa: E731
        return {"codes": p(w[1]), "names": p(w[2]), "intervals": p(w[3]), "mins": p(w[4])}

    def oracle(self, case, obs):
        if "exception" in obs:
            return [("addmove:unexpected-exception:" + obs["exception"], obs["message"])]
        if not self.modelled(case):
            return []
        out = []
        cur: dict[int, int] = {}
        for op, code, s in zip(case["ops"], obs["codes"], obs["sums"]):
            others = sum(v for k, v in cur.items() if k != op["name"])
            overcommits = others + op["min"] > case["cycles"]
            if code == 8:
                out.append(("addmove:refused-call-changed-table", str(op)))
            if overcommits and code == 0:
                out.append(("addmove:overcommit-accepted", f"{op} with current minimum counts {cur}, cycles {case['cycles']}"))
            if code == 0:
                cur[op["name"]] = op["min"]
            if code == 1 and sum(cur.values()) + op["min"] <= case["cycles"] and op["name"] not in cur:
                out.append(("addmove:fitting-new-move-refused", f"{op} with {cur}, cycles {case['cycles']}"))
            if s > case["cycles"]:
                out.append(("addmove:invariant-broken", f"sum of minimum counts {s} > cycles {case['cycles']}"))
            if s != sum(cur.values()):
                out.append(("addmove:table-not-updated", f"sum {s} expected {sum(cur.values())}"))
            if out:
                break
        return out

    def classify(self, case, obs):
        if not self.modelled(case):
            return "malformed:negative-count"
        cur: dict[int, int] = {}
        keys = set()
        for op, code in zip(case["ops"], obs.get("codes", [])):
            if code == 0:
                keys.add("replace" if op["name"] in cur else "new")
                cur[op["name"]] = op["min"]
            elif code == 1:
                others = sum(v for k, v in cur.items() if k != op["name"])
                keys.add("refused-conservative-replace" if others + op["min"] <= case["cycles"] else "refused")
            elif code == 2:
                keys.add("nocriteria")
        return "+".join(sorted(keys)) or "none"


# ------------------------------------------------------------------------------------------------ rng-twin
class RngTwin(common.Suite):
    """numpy Generator(PCG64) vs ScriptedRNG vs Rng.lean — validates the oracle assumptions of DESIGN §2.2"""

    name = "rng-twin"

    def cases(self, rng, tier):
        n = 300 if tier == "quick" else 3000
        for _ in range(n):
            kind = rng.choice(["choicep", "choicep", "choice", "sample", "integers", "uniform"])
            case = {"kind": kind, "seed": rng.randrange(2**32), "n": rng.randint(1, 12)}
            if kind == "choicep":
                ws = [rng.choice(WEIGHT_POOL) for _ in range(case["n"])]
                if sum(ws) == 0:
                    ws[rng.randrange(len(ws))] = 1.0
                case["weights"] = ws
                case["draws"] = rng.randint(1, 8)
            elif kind == "sample":
                case["n"] = rng.randint(1, 40)
                case["k"] = rng.randint(0, case["n"])
            elif kind == "integers":
                case["lo"] = rng.randint(0, 5)
                case["draws"] = rng.randint(1, 6)
            elif kind == "uniform":
                case["lo"] = rng.choice([-1.0, 0.0, -0.3, 2.5])
                case["hi"] = case["lo"] + rng.choice([1.0, 2.0, 0.1, 6.283185307179586])
                case["shape"] = rng.choice([None, [1], [3], [1, 3], [6]])
            else:
                case["draws"] = rng.randint(1, 6)
            yield case

    @staticmethod
    def _us(case, n):
        import numpy as np

        return [float(u) for u in np.random.Generator(np.random.PCG64(case["seed"])).random(n)]

    def real(self, case):
        import numpy as np
        from scripted import ScriptedRNG

        g1 = np.random.Generator(np.random.PCG64(case["seed"]))
        g2 = np.random.Generator(np.random.PCG64(case["seed"]))
        kind, n = case["kind"], case["n"]
        obs = {"numpy_agrees": True, "lockstep": True}
        if kind == "choicep":
            p = np.array(case["weights"], dtype=float)
            p /= np.sum(p)
            us = g1.random(case["draws"])
            np_picks = [int(g2.choice(np.arange(n), p=p)) for _ in range(case["draws"])]
            cdf = np.cumsum(p)
            cdf /= cdf[-1]
            formula = [int(cdf.searchsorted(u, side="right")) for u in us]
            sc = ScriptedRNG(us)
            sc_picks = [int(sc.choice([f"m{i}" for i in range(n)], p=p)[1:]) for _ in range(case["draws"])]
            obs["picks"] = sc_picks
            obs["numpy_agrees"] = np_picks == formula == sc_picks
            obs["numpy"] = np_picks
        elif kind == "choice":
            a = [f"m{i}" for i in range(n)]
            np_picks = [str(g1.choice(a)) for _ in range(case["draws"])]
            via_int = [a[int(g2.integers(0, n))] for _ in range(case["draws"])]
            obs["numpy_agrees"] = np_picks == via_int
            us = self._us(case, case["draws"])
            sc = ScriptedRNG(us)
            obs["picks"] = [int(sc.choice(a)[1:]) for _ in range(case["draws"])]
        elif kind == "sample":
            res = g1.choice(np.arange(n), size=case["k"], replace=False)
            lst = [int(x) for x in res]
            obs["numpy_agrees"] = (len(lst) == case["k"] and len(set(lst)) == len(lst)
                                   and all(0 <= x < n for x in lst) and res.dtype.kind == "i")
            obs["numpy"] = lst
            us = self._us(case, case["k"])
            sc = ScriptedRNG(us)
            picks = [int(x) for x in sc.choice(np.arange(n), size=case["k"], replace=False)]
            obs["picks"] = picks
            obs["consumed"] = sc.consumed
        elif kind == "integers":
            us = self._us(case, case["draws"])
            sc = ScriptedRNG(us)
            obs["picks"] = [int(sc.integers(case["lo"], case["lo"] + n)) for _ in range(case["draws"])]
            np_ints = [int(g1.integers(case["lo"], case["lo"] + n)) for _ in range(case["draws"])]
            obs["numpy_agrees"] = all(case["lo"] <= x < case["lo"] + n for x in np_ints)
        else:  # uniform / random
            shape = None if case["shape"] is None else tuple(case["shape"])
            cnt = 1 if shape is None else int(np.prod(shape))
            us = g1.random(cnt)
            want = g2.uniform(case["lo"], case["hi"], size=shape)
            sc = ScriptedRNG(us)
            got = sc.uniform(case["lo"], case["hi"], size=shape)
            same = np.array_equal(np.asarray(want), np.asarray(got)) and np.shape(want) == np.shape(got)
            r1 = ScriptedRNG(us).random(shape)
            same = same and np.array_equal(np.asarray(r1).ravel(), us) and np.shape(r1) == np.shape(want)
            obs["numpy_agrees"] = bool(same)
            obs["picks"] = [0]
        if kind in ("choicep", "choice", "uniform"):  # the two generators must have consumed the same stream
            obs["lockstep"] = bool(g1.random() == g2.random())
        return obs

    def model_lines(self, case):
        kind, n = case["kind"], case["n"]
        if kind == "choicep":
            us = self._us(case, case["draws"])
            return [f"rng choicep {rl(case['weights'])} {rl([u])}" for u in us]
        if kind == "choice":
            return [f"rng choice {n} {rl([u])}" for u in self._us(case, case["draws"])]
        if kind == "sample":
            return [f"rng sample {n} {case['k']} {rl(self._us(case, case['k']))}"]
        if kind == "integers":
            return [f"rng integers {case['lo']} {case['lo'] + n} {rl([u])}" for u in self._us(case, case["draws"])]
        return ["rng index 0 1"]

    def model_obs(self, case, outs):
        obs = {"numpy_agrees": True, "lockstep": True}
        if case["kind"] == "sample":
            w = outs[0].split()
            obs["picks"] = [] if w[1] == "-" else [int(x) for x in w[1].split(",")]
            obs["consumed"] = int(w[2])
        else:
            obs["picks"] = [int(o.split()[1]) if o.startswith("ok") else o for o in outs]
        return obs

    def classify(self, case, obs):
        return case["kind"]


# ------------------------------------------------------------------------------------------------ frequency
class Frequency(common.Suite):
    """genuine PCG64 randomness: clauses on every step, chi-square of the free-slot frequencies (search aid)"""

    name = "frequency"
    P_GATE = 1e-9

    def cases(self, rng, tier):
        n = 12 if tier == "quick" else 60
        for _ in range(n):
            table, cycles = gen_table(rng, nmax=6)
            cycles = max(cycles, 4)
            for m in table:
                if rng.random() < 0.3:
                    m["interval"] = 1
            # stay inside the quantifier at every step: some always-due move has a positive weight
            table[0]["interval"], table[0]["weight"] = 1, rng.choice([1.0, 0.5, 2.0])
            yield {"table": table, "cycles": cycles, "steps": 400 if tier == "quick" else 1000,
                   "seeds": [rng.randrange(2**31) for _ in range(3)]}

    def real(self, case):
        import numpy as np
        from scipy.stats import chi2
        from scripted import RecordingRNG

        table, cycles = case["table"], case["cycles"]
        fails = []
        pvals = []
        methods = set()
        for seed in case["seeds"]:
            mc = build_mc(table, cycles)
            rec = RecordingRNG(np.random.Generator(np.random.PCG64(seed)))
            common.set_rng(mc, rec)
            mc.context.rng = rec
            # free-slot counts pooled per set of due moves (the weights are renormalised over the due moves)
            pools: dict[tuple, list] = {}
            for step in range(case["steps"]):
                mc.step_count = step
                names = [str(x) for x in mc.yield_moves()]
                fails += check_clauses(table, cycles, step, names, "freq")
                d = due_idx(table, step)
                for i in d:
                    m = table[i]
                    if m["weight"] == 0 and names.count(m["name"]) > m["min"]:
                        fails.append(("freq:zero-weight-chosen-freely",
                                      f"seed {seed} step {step}: {m['name']} x{names.count(m['name'])}, minimum_count {m['min']}"))
                pool = pools.setdefault(tuple(d), [0] * len(d))
                for j, i in enumerate(d):
                    pool[j] += names.count(table[i]["name"]) - table[i]["min"]
                if fails:
                    break
            methods |= {c[0] for c in rec.log}
            stat, dof = 0.0, 0
            for d, pool in pools.items():
                ws = [table[i]["weight"] for i in d]
                tot, nfree = sum(ws), sum(pool)
                exp = [nfree * w / tot for w in ws]
                cats = [(o, e) for o, e in zip(pool, exp) if e >= 5]
                if len(cats) >= 2 and nfree > 0:
                    stat += sum((o - e) ** 2 / e for o, e in cats)
                    dof += len(cats) - 1
            pvals.append(float(chi2.sf(stat, dof)) if dof > 0 else 1.0)
        return {"fails": [list(f) for f in fails[:3]], "pvalues": pvals, "methods": sorted(methods)}

    def oracle(self, case, obs):
        if "exception" in obs:
            return [("freq:unexpected-exception:" + obs["exception"], obs["message"])]
        out = [(f[0], f[1]) for f in obs["fails"]]
        if obs["pvalues"] and all(p < self.P_GATE for p in obs["pvalues"]):
            out.append(("freq:free-slots-not-proportional-to-weights",
                        f"chi-square p-values {obs['pvalues']} on seeds {case['seeds']} for table {case['table']}"))
        return out

    def classify(self, case, obs):
        ps = obs.get("pvalues", [])
        return "p>=1e-3" if ps and min(ps) >= 1e-3 else "p<1e-3"


class RunDueness(common.Suite):
    """the scheduling clauses observed through the public run()/srun()/irun() entry points over SEVERAL consecutive
    calls (so that a schedule kept relative to the start of a run, a cached due-list, … shows): probe moves record the
    step at which they are attempted; genuine PCG64 randomness; oracle only"""

    name = "run-dueness"

    def cases(self, rng, tier):
        n = 120 if tier == "quick" else 2500
        for _ in range(n):
            k = rng.randint(1, 5)
            cyc = rng.randint(1, 8) if rng.random() < 0.9 else 0     # zero cycles per step: a step that attempts nothing
            table = []
            left = cyc
            for j in range(k):
                mn = rng.randint(0, min(2, left)) if rng.random() < 0.5 else 0
                left -= mn
                table.append({"name": f"m{j}", "interval": rng.choice([1, 1, 2, 3, 4, 5, 7]),
                              "weight": rng.choice([0.0, 0.0, 1.0, 0.5, 2.0, 3.0]), "min": mn})
            if all(t["weight"] == 0.0 for t in table):
                table[0]["weight"] = 1.0
            for t in table:  # a due set whose weights are all zero is outside the property's quantifier
                if t["weight"] == 0.0 and t["min"] == 0 and rng.random() < 0.5:
                    t["weight"] = 1.0
            segs = [rng.randint(0, 7) for _ in range(rng.randint(1, 4))]
            # the scheduler is inherited by every Monte Carlo driver; the table entries of Isobaric/Isotension/GrandCanonical
            # that carry the DEFAULT names are ordinary entries once the user has configured them
            driver = rng.choice(["base", "base", "canonical", "isobaric", "isotension", "grand"])
            if driver in ("isobaric", "isotension") and len(table) >= 1:
                table[0]["name"] = "default_cell_move"
                if len(table) >= 2:
                    table[1]["name"] = "default_displacement_move"
            if driver == "grand" and len(table) >= 1:
                table[0]["name"] = "default_exchange_move"
            yield {"cycles": cyc, "table": table, "segs": segs, "seed": rng.randrange(2**31), "driver": driver,
                   "entry": rng.choice(["run", "srun", "irun"]), "roundtrip": rng.random() < 0.35}

    def real(self, case):
        import warnings

        import quansino.mc  # noqa: F401
        from ase import Atoms
        from quansino.mc.core import MonteCarlo

        from quansino.registry import register_class

        log = []
        sim = [None]

        class Probe:
            def __init__(self, name, _sim=None):
                self.name = name

            def __call__(self, context):
                log.append((self.name, int(sim[0].step_count)))
                return False

            def on_atoms_changed(self, a, r):
                pass

            def on_cell_changed(self, c):
                pass

            def to_dict(self):
                return {"name": "VerifProbeMove", "kwargs": {"name": self.name}}

            @classmethod
            def from_dict(cls, data):
                return cls(**data["kwargs"])

        class ProbeCrit(_Crit):
            def to_dict(self):
                return {"name": "VerifProbeCriteria"}

            @classmethod
            def from_dict(cls, data):
                return cls()

        register_class(Probe, "VerifProbeMove")
        register_class(ProbeCrit, "VerifProbeCriteria")

        with warnings.catch_warnings():
            warnings.simplefilter("ignore")
            drv = case.get("driver", "base")
            if drv == "base":
                mc = MonteCarlo(Atoms("H"), max_cycles=case["cycles"], seed=case["seed"])
                cls = MonteCarlo
            else:
                import machine
                from quansino.mc.canonical import Canonical
                from quansino.mc.gcmc import GrandCanonical
                from quansino.mc.isobaric import Isobaric
                from quansino.mc.isotension import Isotension

                at = Atoms("Cu2", positions=[[0, 0, 0], [2, 1, 0]], cell=[8, 8, 8], pbc=True)
                at.calc = machine.make_calc()
                kw = dict(temperature=300.0, max_cycles=case["cycles"], seed=case["seed"])
                if drv == "canonical":
                    cls = Canonical
                    mc = cls(at, **kw)
                elif drv in ("isobaric", "isotension"):
                    cls = Isobaric if drv == "isobaric" else Isotension
                    mc = cls(at, pressure=0.0, **kw)
                else:
                    cls = GrandCanonical
                    mc = cls(at, Atoms("Cu"), chemical_potential=0.0, number_of_exchange_particles=2, **kw)
            for t in case["table"]:
                mc.add_move(Probe(t["name"], sim), criteria=ProbeCrit(), name=t["name"], interval=t["interval"],
                            probability=t["weight"], minimum_count=t["min"])
            if case.get("roundtrip"):
                # the schedule must survive the documented dictionary round trip (e.g. a restart)
                from ase.io.jsonio import decode, encode

                mc = cls.from_dict(decode(encode(mc.to_dict())))
                if drv != "base":
                    import machine

                    mc.atoms.calc = machine.make_calc()
            sim[0] = mc
            skipped = []
            for n in case["segs"]:
                try:
                    if case["entry"] == "run":
                        mc.run(n)
                    elif case["entry"] == "srun":
                        for _ in mc.srun(n):
                            pass
                    else:
                        for st in mc.irun(n):
                            for _ in st:
                                pass
                except ValueError as ex:  # numpy: probabilities contain NaN (all due weights zero): outside the quantifier
                    skipped.append(str(ex)[:60])
                    break
        return {"log": log, "steps": int(mc.step_count), "skipped": skipped}

    def oracle(self, case, obs):
        if "exception" in obs:
            return [("run-dueness:exception:" + obs["exception"], obs["message"])]
        if obs["skipped"]:
            return []
        out = []
        tab = {t["name"]: t for t in case["table"]}
        per_step = {}
        for name, st in obs["log"]:
            per_step.setdefault(st, []).append(name)
            if st % tab[name]["interval"] != 0:
                out.append(("run-dueness:not-due", f"{name} (interval {tab[name]['interval']}) attempted at step {st}; segments {case['segs']}"))
        for st in range(sum(case["segs"])):
            due = [t for t in case["table"] if st % t["interval"] == 0]
            got = per_step.get(st, [])
            if not due:
                if got:
                    out.append(("run-dueness:attempt-without-due-move", f"step {st}: {got}"))
                continue
            if len(got) != case["cycles"]:
                out.append(("run-dueness:cycle-count", f"step {st}: {len(got)} attempts for {case['cycles']} cycles"))
            for t in due:
                c = got.count(t["name"])
                if c < t["min"]:
                    out.append(("run-dueness:min-count", f"step {st}: {t['name']} attempted {c} < {t['min']} times"))
                if t["weight"] == 0.0 and c > t["min"]:
                    out.append(("run-dueness:zero-weight-chosen", f"step {st}: weight-0 move {t['name']} attempted {c} > min {t['min']}"))
        return out[:6]

    def classify(self, case, obs):
        return f"segs={len(case['segs'])}:{case['entry']}:{'restored' if case.get('roundtrip') else 'fresh'}:{case.get('driver', 'base')}"


# ------------------------------------------------------------------------------------------------ default cycles
class DefaultCycles(common.Suite):
    """the number of cycles a simulation is built with: `max_cycles` as given, `max(len(atoms), 1)` when left out (the
    empty box of a grand-canonical run included); one step with a probe move that is due then attempts that many"""

    name = "default-cycles"

    def cases(self, rng, tier):
        n = 60 if tier == "quick" else 600
        for i in range(n):
            natoms = 0 if i % 4 == 0 else rng.randint(0, 6)
            given = None if i % 3 != 2 else rng.randint(1, 7)
            yield {"natoms": natoms, "given": given, "cls": rng.choice(["MonteCarlo", "Canonical", "GrandCanonical", "Isobaric", "HamiltonianCanonical", "Isotension"]),
                   "seed": rng.randrange(2**31)}

    def real(self, case):
        import warnings

        import numpy as np
        from ase import Atoms
        from ase.calculators.calculator import Calculator, all_changes
        from quansino.mc.canonical import Canonical
        from quansino.mc.core import MonteCarlo
        from quansino.mc.gcmc import GrandCanonical
        from quansino.mc.isobaric import Isobaric

        class Zero(Calculator):
            implemented_properties = ("energy", "forces", "stress")

            def calculate(self, atoms=None, properties=("energy",), system_changes=all_changes):
                super().calculate(atoms, properties, system_changes)
                self.results = {"energy": 0.0, "forces": np.zeros((len(atoms), 3)), "stress": np.zeros(6)}

        atoms = Atoms("Ar" * case["natoms"], positions=[[1.0 + i, 1.0, 1.0] for i in range(case["natoms"])],
                      cell=[9.0, 9.0, 9.0], pbc=True)
        atoms.calc = Zero()
        kw = {"seed": case["seed"]}
        if case["given"] is not None:
            kw["max_cycles"] = case["given"]
        cls = case["cls"]
        with warnings.catch_warnings():
            warnings.simplefilter("ignore")
            if cls == "MonteCarlo":
                kw.setdefault("max_cycles", 1)  # the base class has no default derived from the atoms
                mc = MonteCarlo(atoms, **kw)
            elif cls == "Canonical":
                mc = Canonical(atoms, temperature=300.0, **kw)
            elif cls == "Isobaric":
                mc = Isobaric(atoms, temperature=300.0, pressure=0.0, **kw)
            elif cls == "HamiltonianCanonical":
                from quansino.mc.canonical import HamiltonianCanonical

                mc = HamiltonianCanonical(atoms, temperature=300.0, **kw)
            elif cls == "Isotension":
                from quansino.mc.isotension import Isotension

                mc = Isotension(atoms, temperature=300.0, pressure=0.0, **kw)
            else:
                mc = GrandCanonical(atoms, exchange_atoms=Atoms("Ar"), temperature=300.0, chemical_potential=0.0,
                                    number_of_exchange_particles=case["natoms"], **kw)
            for k in list(mc.moves):
                del mc.moves[k]
            attempts = []

            class Probe:
                def __call__(self_inner, context):
                    attempts.append(1)
                    return False

                def on_atoms_changed(self_inner, a, r):
                    pass

                def on_cell_changed(self_inner, c):
                    pass

            mc.add_move(Probe(), criteria=_Crit(), name="probe")
            mc.validate_simulation()
            for _ in mc.step():
                pass
            out = {"cycles": int(mc.max_cycles), "attempts": len(attempts)}
            if cls == "GrandCanonical":
                # the number of cycles is a setting, not a function of the state: accepted insertions and deletions (the
                # atom count changes) leave it where the constructor — or a later assignment — put it
                from quansino.moves.exchange import ExchangeMove
                from quansino.operations.displacement import Translation

                del mc.moves["probe"]
                mc.chemical_potential = 5.0 if case["seed"] % 2 else -5.0   # every insertion / every deletion accepted
                mc.add_move(ExchangeMove(np.arange(len(atoms)), Translation()), name="x")
                want = int(mc.max_cycles)
                if case["seed"] % 3 == 0:
                    want = int(mc.max_cycles) + 2
                    mc.max_cycles = want
                per_step, n_before = [], len(atoms)
                for _ in range(3):
                    for _ in mc.step():
                        pass
                    per_step.append(len(mc.move_history))
                out["later"] = {"want": want, "per_step": per_step, "cycles_after": int(mc.max_cycles),
                                "natoms": [n_before, len(atoms)]}
        return out

    def model_lines(self, case):
        if case["cls"] == "MonteCarlo":
            return [f"defcycles {case['given'] if case['given'] is not None else 1} {case['natoms']}"]
        return [f"defcycles {'-' if case['given'] is None else case['given']} {case['natoms']}"]

    def model_obs(self, case, outs):
        w = outs[0].split()
        if w[0] != "ok":
            return {"cycles": outs[0]}
        return {"cycles": int(w[1]), "attempts": int(w[1])}

    def oracle(self, case, obs):
        if "exception" in obs:
            return [("default-cycles:unexpected-exception:" + obs["exception"], obs["message"])]
        out = []
        if obs["cycles"] < 1:
            out.append(("default-cycles:no-cycle", f"{case['cls']} on {case['natoms']} atoms, max_cycles "
                        f"{'left out' if case['given'] is None else case['given']}: {obs['cycles']} cycles per step"))
        if obs["attempts"] != obs["cycles"]:
            out.append(("default-cycles:attempts", f"{obs['attempts']} attempts in a step of {obs['cycles']} cycles"))
        lt = obs.get("later")
        if lt and (lt["cycles_after"] != lt["want"] or any(n != lt["want"] for n in lt["per_step"])):
            out.append(("default-cycles:cycles-follow-the-state",
                        f"{case['cls']} on {case['natoms']} atoms (now {lt['natoms'][1]}): max_cycles {lt['want']} configured, "
                        f"{lt['per_step']} attempts per step, max_cycles afterwards {lt['cycles_after']}"))
        return out

    def classify(self, case, obs):
        return f"{case['cls']}:{'empty' if case['natoms'] == 0 else 'atoms'}:{'default' if case['given'] is None else 'given'}"


def suites(tier):
    return [YieldMoves(), Step(), AddMove(), RngTwin(), Frequency(), RunDueness(), DefaultCycles()]
