"""C08 — every shipped component survives serialization with its full configuration (DESIGN §6 C08).

Tie = translator (T): `pre` regenerates `lean/QGen/Classes.lean` and `lean/QGen/Imports.lean` from the live
package on every run, the Lean stage re-checks the `decide +kernel` theorems over them.  The translators are
validated by correspondence on every run: for probe trees of every class (and a stream of mutated
dictionaries, so that the failure branches of `from_dict` are exercised too) the outcome predicted by the
model must equal the outcome of the real `decode(encode(obj.to_dict()))` -> `from_dict`; for every public
module the verdict of `importFirst` must equal a real fresh-interpreter import.
"""
from __future__ import annotations

import concurrent.futures
import copy
import os
import re
import subprocess
import sys
import warnings

import common

ID = "C08"
LEAN_MODULES = ["QProps.C08", "QModel.SerialIO"]
THEOREMS = [
    "C08.roundtrip_of_wf",
    "C08.all_specs_wf",
    "C08.roundtrip_shipped",
    "C08.settings_preserved",
    "C08.imports_ok",
    "C08.registry_complete",
]
RULE = (
    "exhaustive over the classes found by introspection (every class with to_dict+from_dict that is concrete by "
    "the rule of DESIGN §6 C08) and over every public module; per class: the probe instance with every "
    "parameter/tunable at a non-default sentinel and once more at a falsy value of its type (0, 0.0, False, '', "
    "empty/zero arrays: `x or default` patterns only bite there), nested probe trees (composites, move storage, drivers with "
    "move tables) to depth 3, and mutated dictionaries (each emitted key dropped, class renamed, extra keyword, "
    "child slot dropped, at the root and at inner nodes); a case is non-trivial when it reaches from_dict; "
    "distinct = distinct (tree, mutation) / distinct modules"
)
ASSUMPTIONS = [
    "ASE's JSON encoder/decoder is the identity on leaf values (numpy arrays and scalars, Atoms, Cell): exercised "
    "by the real round trips, not modelled",
    "tunables rule and exclusions of DESIGN §6 C08 as recorded in harness/gen_classes.py",
    "CPython import semantics as modelled in QModel/PyImport.lean; modules outside the package always import",
]

_STATE: dict = {}


def gc():
    import gen_classes

    return gen_classes


def specs() -> dict[str, dict]:
    if "specs" not in _STATE:
        _STATE["specs"] = {sp["name"]: sp for sp in gc().specs()}
    return _STATE["specs"]


def pre(tier, res):
    """regenerate the Lean tables from the live package (before the Lean stage)"""
    import gen_imports

    sp = gc().generate()
    _STATE["specs"] = {s["name"]: s for s in sp}
    data = gen_imports.generate()
    _STATE["imports"] = data
    res.notes.append(f"regenerated QGen/Classes.lean ({len(sp)} classes) and QGen/Imports.lean "
                     f"({len(data['names'])} modules, {len(data['public'])} public)")
    for s in sp:
        for n in s.get("notes", []):
            res.notes.append(f"{s['name']}: {n}")


# --------------------------------------------------------------------------- probe trees


def rank(name: str, memo: dict | None = None, seen: frozenset = frozenset()) -> int:
    """least nesting depth an instance of the class needs below it"""
    memo = _STATE.setdefault("rank", {}) if memo is None else memo
    if name in memo:
        return memo[name]
    if name in seen:
        return 99
    S = specs()
    r = 0
    for sl in S[name]["slots"]:
        kinds = sl.get("lookup") or [sl["probe_kind"]]
        cands = [n for n, s in S.items() if s["kind"] in kinds and not s.get("broken")]
        if not cands:
            continue
        need = 0 if (sl["shape"] != "single" and sl["is_param"]) else 1 + min(rank(n, memo, seen | {name}) for n in cands)
        r = max(r, need)
    memo[name] = r
    return r


def tree_for(sp: dict, rng, depth: int, variant: int = 0) -> list:
    """a probe tree: [class, [[slot, key, subtree], ...]] with children for every slot; below `depth` levels
    only the shallowest classes are used"""
    S = specs()
    kids = []
    for sl in sp["slots"]:
        accept = sl.get("lookup") or [sl["probe_kind"]]
        kind = sl["probe_kind"] if sl["probe_kind"] in accept else accept[0]
        if variant % 2 and sl.get("dflt") in accept:
            kind = sl["dflt"]
        names = sorted(n for n, s in S.items() if s["kind"] == kind and not s.get("broken"))
        if not names:
            continue
        if depth <= 0:
            low = min(rank(n) for n in names)
            names = [n for n in names if rank(n) == low]
        n = 1 if sl["shape"] == "single" else (0 if depth <= 0 and sl["shape"] == "list" else 1 + (variant + rng.randrange(2)) % 3)
        for j in range(n):
            cls = names[(variant + j) % len(names)] if variant < 2 else rng.choice(names)
            key = f"m{j}" if sl["shape"] == "dict" else "-"
            kids.append([sl["name"], key, tree_for(S[cls], rng, depth - 1, variant)])
    return [sp["name"], kids]


def tokens(tree) -> list[str]:
    out = ["N", tree[0], str(len(tree[1]))]
    for slot, key, sub in tree[1]:
        out += [slot, key, *tokens(sub)]
    return out


def node_at(tree, path):
    for i in path:
        tree = tree[1][i][2]
    return tree


def all_paths(tree, prefix=()):
    yield list(prefix)
    for i, (_, _, sub) in enumerate(tree[1]):
        yield from all_paths(sub, (*prefix, i))


# --------------------------------------------------------------------------- the real round trip


def falsy_override(sp: dict) -> dict:
    g = gc()
    return {s["name"]: s["falsy"] for s in sp["settings"] if s.get("falsy", g.NoFalsy) is not g.NoFalsy}


def foreign_override(sp: dict) -> dict:
    """every setting at the DEFAULT the same-named setting has in another class, where that differs from this class's
    own default (e.g. `max_attempts`: 10000 on every move, 10 on the Hamiltonian move): a serializer that drops
    "default" values by comparing with the wrong class's default only bites there"""
    g = gc()
    out = {}
    for s in sp["settings"]:
        own = s.get("default", g.NoFalsy)
        if own is g.NoFalsy or s.get("special") or isinstance(own, bool) or not isinstance(own, (int, float, str)):
            continue
        cands = []
        for other in specs().values():
            if other["name"] == sp["name"]:
                continue
            for t in other["settings"]:
                d = t.get("default", g.NoFalsy)
                if t["name"] == s["name"] and d is not g.NoFalsy and type(d) is type(own) and d != own:
                    cands.append(d)
        if cands:
            out[s["name"]] = sorted(set(cands), key=repr)[0]
    return out


def make(tree, values: str = "sentinel"):
    """the real object described by a probe tree: every setting at its sentinel (or, `values="falsy"`, at a
    falsy value of its type where it has one: 0, 0.0, False, "", empty/zero arrays), children as given"""
    g = gc()
    sp = specs()[tree[0]]
    cls = next(c for c in g.discover() if c.__name__ == tree[0])
    children: dict = {}
    for slot, key, sub in tree[1]:
        sl = next(s for s in sp["slots"] if s["name"] == slot)
        ch = make(sub, values)
        if sl["shape"] == "single":
            children[slot] = ch
        elif sl["shape"] == "list":
            children.setdefault(slot, []).append(ch)
        else:
            children.setdefault(slot, {})[key] = ch
    with warnings.catch_warnings():
        warnings.simplefilter("ignore")
        return g.build(cls, sp, override=falsy_override(sp) if values == "falsy" else
                       foreign_override(sp) if values == "foreign" else None,
                       alt_children=children, explicit=True).obj


def locate(d: dict, tree, path):
    """the sub-dictionary of the node at `path` (kid indices in tree order)"""
    for i in path:
        sp = specs()[tree[0]]
        slot, key, sub = tree[1][i]
        sl = next(s for s in sp["slots"] if s["name"] == slot)
        if sl["shape"] == "single":
            d = d["kwargs"][slot]
        elif sl["shape"] == "list":
            j = [k for k, (s2, _, _) in enumerate(tree[1]) if s2 == slot].index(i)
            d = d["kwargs"][slot][j]
        else:
            d = d[slot][key]
        tree = sub
    return d, tree


def mutate(d: dict, tree, path, mut):
    node, sub = locate(d, tree, path)
    kind = mut[0]
    if kind == "drop":
        sect, key = mut[1], mut[2]
        (node if sect == "top" else node.get(sect, {})).pop(key, None)
    elif kind == "rename":
        node["name"] = mut[1]
    elif kind == "extra":
        node.setdefault("kwargs", {})[mut[1]] = 999
    elif kind == "extraattr":
        node.setdefault("attributes", {})[mut[1]] = 999
    elif kind == "dropslot":
        sp = specs()[sub[0]]
        sl = next(s for s in sp["slots"] if s["name"] == mut[1])
        (node if sl["shape"] == "dict" else node.get("kwargs", {})).pop(mut[1], None)


def obj_same(a, b, sp) -> bool:
    g = gc()
    if type(a) is not type(b):
        return False
    for s in sp["settings"]:
        if s["sentinel"] is g.Unknown:
            continue
        try:
            if not g.same(g.read_setting(a, s), g.read_setting(b, s)):
                return False
        except AttributeError:
            return False
    return all(slot_same(a, b, sp, sl) for sl in sp["slots"])


def children_of(o, sl) -> list:
    v = getattr(o, sl["attr"], None)
    if v is None:
        return []
    if sl["shape"] == "single":
        return [("", v)]
    if sl["shape"] == "list":
        return [("", x) for x in v]
    return list(v.items())


def slot_same(a, b, sp, sl) -> bool:
    ca, cb = children_of(a, sl), children_of(b, sl)
    if len(ca) != len(cb):
        return False
    for (ka, xa), (kb, xb) in zip(ca, cb):
        if ka != kb or type(xa) is not type(xb):
            return False
        sub = specs().get(type(xa).__name__)
        if sub is None or not obj_same(xa, xb, sub):
            return False
    return True


ERR_PATTERNS = [
    (re.compile(r"(\w+)\(\) takes no arguments"), "err unexpected ?"),
    (re.compile(r"Class `(\w+)` not registered"), "err unregistered {0}"),
    (re.compile(r"Class `(\w+)` is not a \w+ subclass"), "err proto {0}"),
    (re.compile(r"unexpected keyword argument '(\w+)'"), "err unexpected {0}"),
    (re.compile(r"missing \d+ required (?:positional|keyword-only) arguments?: '(\w+)'"), "err missing {0}"),
]


def classify_exception(e: BaseException) -> str:
    msg = str(e)
    for pat, fmt in ERR_PATTERNS:
        m = pat.search(msg)
        if m:
            return fmt.format(*m.groups())
    if isinstance(e, KeyError) and e.args and isinstance(e.args[0], str) and re.fullmatch(r"\w+", e.args[0]):
        return f"err missing {e.args[0]}"
    if isinstance(e, AttributeError):
        m = re.search(r"attribute '(\w+)'", msg)
        return f"err attr {m.group(1) if m else '?'}"
    return f"exception {type(e).__name__}"


def edit_in_place(obj, tree) -> int:
    """set every settable setting of the object and of all its descendants to its second probe value (`alt`), on the
    LIVE object, after it has already been serialized once: what `to_dict()` returns afterwards must describe the object
    as it is now (a serializer that remembers an earlier dictionary only bites here)"""
    g = gc()
    sp = specs()[tree[0]]
    n = 0
    for s in sp["settings"]:
        if s.get("special") or s["sentinel"] is g.Unknown or s.get("alt", g.Unknown) is g.Unknown or not s.get("attr"):
            continue
        if s["name"] not in sp.get("settable", []) and s["is_param"]:
            continue
        tgt = obj.context if s["on_ctx"] else obj
        try:
            setattr(tgt, s["attr"], copy.deepcopy(s["alt"]))
            n += 1
        except Exception:  # noqa: BLE001  (read-only property: nothing to edit)
            pass
    kids = {}
    for slot, key, sub in tree[1]:
        kids.setdefault(slot, []).append((key, sub))
    for sl in sp["slots"]:
        have = children_of(obj, sl)
        for (_, child), (_, sub) in zip(have, kids.get(sl["name"], [])):
            if type(child).__name__ == sub[0]:
                n += edit_in_place(child, sub)
    return n


def edit_siblings(obj, tree) -> int:
    """every SECOND child of a list-valued slot (and of their descendants' list slots) gets its second probe values: two parts
    of the same class inside one composite are then configured differently, as `Box(0.05) + Box(2.0)` is — each must come
    back with its own settings"""
    sp = specs()[tree[0]]
    n = 0
    kids = {}
    for slot, key, sub in tree[1]:
        kids.setdefault(slot, []).append((key, sub))
    for sl in sp["slots"]:
        have = children_of(obj, sl)
        for j, ((_, child), (_, sub)) in enumerate(zip(have, kids.get(sl["name"], []))):
            if type(child).__name__ != sub[0]:
                continue
            if sl["shape"] == "list" and j % 2 == 1:
                n += _set_alt(child, sub)
            else:
                n += edit_siblings(child, sub)
    return n


def _set_alt(obj, tree) -> int:
    """the second probe value for every plain setting of ONE object (constructor parameters kept as attributes included: an
    operation's step size is what its `to_dict` reads)"""
    g = gc()
    sp = specs()[tree[0]]
    n = 0
    for s in sp["settings"]:
        if s.get("special") or s["sentinel"] is g.Unknown or s.get("alt", g.Unknown) is g.Unknown or not s.get("attr") or s["on_ctx"]:
            continue
        try:
            setattr(obj, s["attr"], copy.deepcopy(s["alt"]))
            n += 1
        except Exception:  # noqa: BLE001
            pass
    return n


def real_roundtrip(tree, path, mut, values: str = "sentinel") -> dict:
    import quansino.mc  # noqa: F401
    from ase.io.jsonio import decode, encode
    from quansino.registry import get_class

    g = gc()
    sp = specs()[tree[0]]
    with warnings.catch_warnings():
        warnings.simplefilter("ignore")
        obj = make(tree, "sentinel" if values in ("edited", "siblings") else values)
        if values == "siblings":
            edit_siblings(obj, tree)
        if values == "edited":
            encode(obj.to_dict())           # serialized once (as a restart observer does at step 0) …
            edit_in_place(obj, tree)        # … then reconfigured in place
        text = encode(obj.to_dict())
        d = decode(text)
        if mut[0] != "none":
            mutate(d, tree, path, mut)
        try:
            new = get_class(d["name"]).from_dict(copy.deepcopy(d))
        except Exception as e:  # noqa: BLE001
            return {"outcome": classify_exception(e), "message": f"{type(e).__name__}: {str(e)[:200]}"}
        if type(new).__name__ != tree[0]:
            return {"outcome": f"class {type(new).__name__}"}
        lost = []
        for s in sp["settings"]:
            if s["sentinel"] is g.Unknown:
                continue
            try:
                ok = g.same(g.read_setting(new, s), g.read_setting(obj, s))
            except AttributeError:
                ok = False
            if not ok:
                lost.append(s["name"])
        for sl in sp["slots"]:
            if not slot_same(obj, new, sp, sl):
                lost.append(sl["name"])
        out = {"outcome": "ok" if not lost else "lost " + ",".join(lost), "lost": lost}
        if not lost and mut[0] == "none":
            try:
                out["second_dict_same"] = bool(g.deep_same(decode(encode(new.to_dict())), decode(text)))
            except Exception as e:  # noqa: BLE001
                out["second_dict_same"] = False
                out["message"] = f"second to_dict: {type(e).__name__}: {e}"
        return out


class RoundTrip(common.Suite):
    """model-predicted vs real outcome of to_dict -> JSON -> from_dict, plain and mutated"""

    name = "roundtrip"

    def cases(self, rng, tier):
        S = specs()
        seen = set()

        def emit(tree, path, mut, values="sentinel"):
            key = common.dumps([tree, path, mut, values])
            if key not in seen:
                seen.add(key)
                return {"tree": tree, "path": path, "mut": mut, "values": values}
            return None

        out = []
        nrand = 2 if tier == "quick" else 12
        for name in sorted(S):
            sp = S[name]
            if sp.get("broken"):
                out.append({"tree": [name, []], "path": [], "mut": ["none"], "broken": True})
                continue
            trees = [tree_for(sp, rng, 1, 0), tree_for(sp, rng, 1, 1)]
            if sp["slots"]:
                trees += [tree_for(sp, rng, d, v) for d in (2, 3) for v in range(nrand)]
            # two parts of the SAME class in one list slot (`Box(a) + Box(b)`): each must come back with its own settings
            for t in list(trees):
                for sl in sp["slots"]:
                    if sl["shape"] != "list":
                        continue
                    mine = [ch for ch in t[1] if ch[0] == sl["name"]]
                    if mine:
                        twin = [t[0], [*[ch for ch in t[1] if ch[0] != sl["name"]], mine[0], copy.deepcopy(mine[0])]]
                        c = emit(twin, [], ["none"], "siblings")
                        if c:
                            out.append(c)
            for t in trees:
                for values in ("sentinel", "falsy", "foreign", "edited", "siblings"):
                    if values == "foreign" and not any(foreign_override(S[n]) for n in {node_at(t, p)[0] for p in all_paths(t)}):
                        continue
                    if values == "siblings" and not any(
                            sum(1 for ch in node_at(t, p)[1] if ch[0] == sl["name"]) >= 2
                            for p in all_paths(t) for sl in S[node_at(t, p)[0]]["slots"] if sl["shape"] == "list"):
                        continue
                    c = emit(t, [], ["none"], values)
                    if c:
                        out.append(c)
            # mutations at the root of the flat probe
            t0 = trees[0]
            muts = [["rename", "NotRegisteredAnywhere"], ["extra", "zzz_unexpected"], ["extraattr", "zzz_unexpected"]]
            other = sorted(n for n, s in S.items() if s["kind"] != sp["kind"] and s["kind"] != "driver")
            same = sorted(n for n, s in S.items() if s["kind"] == sp["kind"] and n != name and sp["kind"] != "driver")
            if other and sp["kind"] != "driver":  # (a driver keeps its children at top level, not under kwargs)
                muts.append(["rename", rng.choice(other)])
            if same:
                muts.append(["rename", rng.choice(same)])
            for sect, ks in sp.get("dict_keys", {}).items():
                for k in ks:
                    if sect == "kwargs" and any(sl["name"] == k for sl in sp["slots"]):
                        continue
                    muts.append(["drop", sect, k])
            for sl in sp["slots"]:
                muts.append(["dropslot", sl["name"]])
            for m in muts:
                c = emit(t0, [], m)
                if c:
                    out.append(c)
            # mutations at inner nodes of nested trees
            for t in trees[2:]:
                paths = [p for p in all_paths(t) if p]
                for p in rng.sample(paths, min(len(paths), 2 if tier == "quick" else 6)):
                    sub = S[node_at(t, p)[0]]
                    cand = [["rename", "NotRegisteredAnywhere"], ["extra", "zzz_unexpected"], ["extraattr", "zzz_unexpected"]]
                    for sect, ks in sub.get("dict_keys", {}).items():
                        cand += [["drop", sect, k] for k in ks
                                 if not (sect == "kwargs" and any(sl["name"] == k for sl in sub["slots"]))]
                    wrong = sorted(n for n, s in S.items() if s["kind"] not in (sub["kind"], "driver"))
                    if wrong:
                        cand.append(["rename", rng.choice(wrong)])
                    mut = rng.choice(cand)
                    node = node_at(t, p)
                    empty_list_slot = any(sl["shape"] == "list" and not any(ch[0] == sl["name"] for ch in node[1])
                                          for sl in sub["slots"])
                    if mut[0] == "rename" and empty_list_slot:
                        # the model's dictionaries carry a list-valued key only through its children; an EMPTY composite
                        # renamed to another class is the one shape it cannot express (the real dictionary has `"operations": []`)
                        mut = ["extra", "zzz_unexpected"]
                    c = emit(t, p, mut)
                    if c:
                        out.append(c)
        return out

    def real(self, case):
        if case.get("broken"):
            return {"outcome": "broken", "message": "; ".join(specs()[case["tree"][0]].get("notes", []))}
        if case["tree"][0] not in specs():
            return {"outcome": "unknown-class", "message": f"{case['tree'][0]} is not a class of the package (any more)"}
        return real_roundtrip(case["tree"], case["path"], case["mut"], case.get("values", "sentinel"))

    def model_lines(self, case):
        if case.get("broken"):
            return []
        p = ".".join(map(str, case["path"])) or "-"
        return [" ".join(["c08.rt", *tokens(case["tree"]), "mut", p, *case["mut"]])]

    def model_obs(self, case, outs):
        return {"outcome": outs[0]}

    def compare(self, case, real_obs, model_obs):
        r, m = real_obs.get("outcome", "exception " + real_obs.get("exception", "?")), model_obs["outcome"]
        if r.startswith("lost ") and m.startswith("lost "):
            r, m = "lost " + ",".join(sorted(r[5:].split(","))), "lost " + ",".join(sorted(m[5:].split(",")))
        if r == "err unexpected ?" and m.startswith("err unexpected "):
            r = m  # a class without __init__ does not name the offending keyword
        if case["mut"][0] == "rename":
            # a dictionary offered to a foreign class: which complaint comes first depends on dictionary order;
            # only the verdicts that the registry gives are compared literally
            def coarse(x):
                return x if x.split()[:2] in (["err", "unregistered"], ["err", "proto"]) or not x.startswith(("err", "exception")) else "err"
            r, m = coarse(r), coarse(m)
        return [] if r == m else [f"outcome: real={r!r} model={m!r} ({real_obs.get('message', '')})"]

    def oracle(self, case, obs):
        """the property on the real code: the unmutated round trip of every probe tree is the identity"""
        cls = case["tree"][0]
        if case.get("broken"):
            return [(f"roundtrip:{cls}:introspection", obs.get("message", ""))]
        if case["mut"][0] != "none" or obs.get("outcome") == "unknown-class":
            return []
        out = []
        sp = specs()[cls]
        g = gc()
        for s in sp["settings"]:
            if s["sentinel"] is g.Unknown and s.get("sim", True):
                out.append((f"roundtrip:{cls}:{s['name']}:unprobed", "no sentinel could be built for this parameter"))
        o = obs.get("outcome", "")
        if "exception" in obs and "outcome" not in obs:
            return [*out, (f"roundtrip:{cls}:exception:{obs['exception']}", obs.get("message", ""))]
        if o == "ok":
            if obs.get("second_dict_same") is False:
                out.append((f"roundtrip:{cls}:second-dict", "serializing the rebuilt object gives a different dictionary"))
            return out
        if o.startswith("lost "):
            for p in obs["lost"]:
                s = next((s for s in sp["settings"] if s["name"] == p), None)
                if s is not None and not s.get("sim", True):
                    continue  # run-time state of a driver: C07's business, not C08's
                out.append((f"roundtrip:{cls}:{p}", f"{p} of {cls} is not restored by from_dict(to_dict()) in {case['tree']}"
                            + (" with every setting at a falsy value (0, 0.0, False, '', empty array)" if case.get("values") == "falsy" else "")))
            return out
        if o.startswith("err unregistered "):
            return [*out, (f"unregistered:{o.split()[-1]}", f"{o.split()[-1]} is not in the registry (tree {case['tree']})")]
        return [*out, (f"roundtrip:{cls}:{o.replace(' ', ':')}", obs.get("message", o))]

    def classify(self, case, obs):
        sp = specs().get(case["tree"][0], {})
        depth = max((len(p) for p in all_paths(case["tree"])), default=0)
        o = obs.get("outcome", "exception").split()[:2]
        return f"{sp.get('kind', '?')}:depth{depth}:{case['mut'][0]}{'@inner' if case['path'] else ''}{'/' + case['values'] if case.get('values') in ('falsy', 'foreign', 'edited', 'siblings') else ''}:{' '.join(o[:2] if o and o[0] == 'err' else o[:1])}"


# --------------------------------------------------------------------------- import-first


LOOKUP_SNIPPET = (
    "import {m}\n"
    "import quansino.mc\n"      # what a reader of a restart file imports; nothing else may be needed
    "from quansino.registry import get_class\n"
    "missing = []\n"
    "for n in {names!r}:\n"
    "    try:\n"
    "        get_class(n)\n"
    "    except KeyError:\n"
    "        missing.append(n)\n"
    "print('MISSING', ','.join(missing))\n"
)


def reg_names() -> list[str]:
    """the registered names of every shipped class (what `from_dict` looks up)"""
    return sorted({n for sp in specs().values() for n in (sp.get("registered") or [sp["name"]])})


def fresh_import(module: str, names: list[str]) -> dict:
    r = subprocess.run([sys.executable, "-c", LOOKUP_SNIPPET.format(m=module, names=names)],
                       capture_output=True, text=True, timeout=300, env=os.environ.copy())
    if r.returncode != 0:
        last = (r.stderr.strip().splitlines() or ["?"])[-1]
        return {"verdict": last.split(":")[0], "message": last[:300]}
    miss = [ln for ln in r.stdout.splitlines() if ln.startswith("MISSING")]
    missing = [x for x in (miss[-1].split(" ", 1)[1].split(",") if miss and " " in miss[-1] else []) if x]
    return {"verdict": "ok", "missing": missing}


class ImportFirst(common.Suite):
    """fresh interpreter: `import m` first, then registry look-ups of every class of the table"""

    name = "import-first"

    def cases(self, rng, tier):
        import gen_imports

        data = _STATE.get("imports") or gen_imports.build(gen_imports.source_root())
        mods = [data["names"][i] for i in data["public"]]
        names = reg_names()
        with concurrent.futures.ThreadPoolExecutor(max_workers=16) as ex:
            results = list(ex.map(lambda m: fresh_import(m, names), mods))
        self.results = dict(zip(mods, results))
        return [{"module": m} for m in mods]

    def real(self, case):
        if not hasattr(self, "results") or case["module"] not in self.results:
            return fresh_import(case["module"], reg_names())
        return self.results[case["module"]]

    def model_lines(self, case):
        return [f"c08.imp {case['module']}", f"c08.reg {case['module']}"]

    def model_obs(self, case, outs):
        w = outs[1].split(" ", 1)
        miss = sorted(x for x in (w[1].split(",") if len(w) > 1 else []) if x)
        return {"verdict": outs[0].split()[0], "missing": miss if w[0] == "missing" else None}

    def compare(self, case, real, model):
        d = []
        if (real.get("verdict") == "ok") != (model["verdict"] == "ok"):
            d.append(f"import {case['module']} first: real {real.get('verdict')} / model {model['verdict']}")
        elif real.get("verdict") == "ok" and sorted(real.get("missing", [])) != model["missing"]:
            d.append(f"registry after importing {case['module']} then quansino.mc: real misses {sorted(real.get('missing', []))}, "
                     f"model misses {model['missing']}")
        return d

    def oracle(self, case, obs):
        m = case["module"]
        if obs.get("verdict") != "ok":
            return [(f"import-first:{m}", f"a fresh interpreter cannot import {m} first: {obs.get('message')}")]
        return [(f"import-first:{m}:registry:{n}", f"after importing {m} first and then quansino.mc, {n} is not registered")
                for n in obs.get("missing", [])]

    def classify(self, case, obs):
        return obs.get("verdict", "exception")


class UsedCriteria(common.Suite):
    """criteria objects that have already DECIDED trials (evaluate() may leave working data on the instance — the
    isotension criteria keeps its last strain tensor) must serialize and rebuild like fresh ones, alone and inside a
    move-table entry. Real objects and contexts as in the C02 check; the model's prediction for an unmutated shipped
    class is `ok` (theorem `roundtrip_shipped`)."""

    name = "roundtrip-after-use"
    KINDS = ["can", "ham", "npt", "nst", "gc"]

    def cases(self, rng, tier):
        from props import c02

        n = 6 if tier == "quick" else 60
        for i in range(n * len(self.KINDS)):
            c = c02.gen_case(rng, self.KINDS[i % len(self.KINDS)])
            c["natoms"] = min(c["natoms"], 20) or 2
            c["nevals"] = rng.choice([1, 1, 2, 3])
            c["in_storage"] = i % 2 == 1
            yield c

    def real(self, case):
        import quansino.mc  # noqa: F401
        from ase.io.jsonio import decode, encode
        from props import c02
        from quansino.registry import get_class

        g = gc()
        crit, ctx, rng = c02.build(case)
        c02.observe(crit, ctx, rng, [0.5] * case["nevals"])
        obj = crit
        if case["in_storage"]:
            from quansino.moves.displacement import DisplacementMove
            from quansino.utils.moves import MoveStorage

            import numpy as np

            obj = MoveStorage(move=DisplacementMove(np.arange(case["natoms"])), criteria=crit, interval=2,
                              probability=0.5, minimum_count=0)
        try:
            text = encode(obj.to_dict())
            d = decode(text)
            new = get_class(d["name"]).from_dict(copy.deepcopy(d))
            again = decode(encode(new.to_dict()))
        except Exception as e:  # noqa: BLE001
            return {"outcome": classify_exception(e), "message": f"{type(e).__name__}: {str(e)[:200]}",
                    "cls": type(crit).__name__}
        return {"outcome": "ok" if type(new) is type(obj) else f"class {type(new).__name__}",
                "second_dict_same": bool(g.deep_same(again, d)), "cls": type(crit).__name__}

    def model_lines(self, case):
        return []

    def oracle(self, case, obs):
        where = "in-storage" if case["in_storage"] else "alone"
        if obs.get("outcome") != "ok":
            return [(f"roundtrip-after-use:{obs.get('cls')}:{where}",
                     f"a criteria that has evaluated {case['nevals']} trial(s) does not survive to_dict -> JSON -> from_dict: "
                     f"{obs.get('outcome')} {obs.get('message', '')}")]
        if not obs.get("second_dict_same"):
            return [(f"roundtrip-after-use:{obs.get('cls')}:{where}:second-dict-differs", "second to_dict differs")]
        return []

    def classify(self, case, obs):
        return f"{case['kind']}:{'storage' if case['in_storage'] else 'alone'}:{obs.get('outcome', 'exception').split()[0]}"


class ReRegistration(common.Suite):
    """rebuilt BY ITS REGISTERED NAME: a name registered a second time (a revised user class, a notebook cell run again) is
    looked up afresh by every later from_dict — also when the name has already been looked up before. Oracle only."""

    name = "re-registration"

    def cases(self, rng, tier):
        for kind in ("operation", "move", "criteria"):
            for lookups_before in (0, 1, 3):
                yield {"kind": kind, "lookups_before": lookups_before, "tag": rng.randrange(10**6)}

    def real(self, case):
        import numpy as np
        import quansino.mc  # noqa: F401
        from quansino.mc.criteria import CanonicalCriteria
        from quansino.moves.displacement import DisplacementMove
        from quansino.operations.composite import CompositeOperation
        from quansino.operations.displacement import Ball, Box
        from quansino.registry import register_class
        from quansino.utils.moves import MoveStorage

        name = f"VerifProbe{case['kind']}{case['tag']}"
        kind = case["kind"]
        if kind == "operation":
            first, second = type("ProbeA", (Ball,), {}), type("ProbeB", (Box,), {})

            def rebuild():
                return type(CompositeOperation.from_dict({"name": "CompositeOperation", "kwargs": {
                    "operations": [{"name": name, "kwargs": {"step_size": 0.1}}]}}).operations[0]).__name__
        elif kind == "move":
            first, second = type("ProbeA", (DisplacementMove,), {}), type("ProbeB", (DisplacementMove,), {})
            probe = DisplacementMove(np.arange(2)).to_dict()

            def rebuild():
                d = MoveStorage(DisplacementMove(np.arange(2)), CanonicalCriteria(), 1, 1.0, 0).to_dict()
                d["kwargs"]["move"] = {**probe, "name": name}
                return type(MoveStorage.from_dict(d).move).__name__
        else:
            first, second = type("ProbeA", (CanonicalCriteria,), {}), type("ProbeB", (CanonicalCriteria,), {})

            def rebuild():
                d = MoveStorage(DisplacementMove(np.arange(2)), CanonicalCriteria(), 1, 1.0, 0).to_dict()
                d["kwargs"]["criteria"] = {**CanonicalCriteria().to_dict(), "name": name}
                return type(MoveStorage.from_dict(d).criteria).__name__
        register_class(first, name)
        seen = [rebuild() for _ in range(case["lookups_before"])]
        register_class(second, name)
        return {"before": seen, "after": rebuild()}

    def oracle(self, case, obs):
        if "exception" in obs:
            return [(f"reregistration:{case['kind']}:exception:{obs['exception']}", obs.get("message", "") + obs.get("trace", "")[-300:])]
        out = []
        if any(x != "ProbeA" for x in obs["before"]):
            out.append((f"reregistration:{case['kind']}:first-registration-not-used", str(obs)))
        if obs["after"] != "ProbeB":
            out.append((f"reregistration:{case['kind']}:stale-class-after-re-registration",
                        f"the name was registered again, yet from_dict built {obs['after']} ({case['lookups_before']} look-ups before)"))
        return out

    def classify(self, case, obs):
        return f"{case['kind']}:{case['lookups_before']}"


def suites(tier):
    return [RoundTrip(), ImportFirst(), UsedCriteria(), ReRegistration()]


def extra_coverage(res):
    return {"exhaustive": True, "classes_in_table": sorted(specs()),
            "public_modules": len((_STATE.get("imports") or {}).get("public", []))}
