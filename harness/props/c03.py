"""C03 — a rejected or failed trial leaves the system exactly as it was (DESIGN §6 C03)."""
from __future__ import annotations

import warnings

import common
import machine

ID = "C03"
LEAN_MODULES = ["QProps.C03", "QProps.C03x", "QProps.C05h", "QProps.C03g", "QProps.C05x", "QProps.C03e", "QProps.C03n"]
THEOREMS = [
    "ArrN.vetoed_insertion_keeps_arrays",
    "ArrN.rejected_trial_restores_arrays",
    "ArrN.accepted_trial_keeps_new_arrays",
    "ArrN.pinned_rejected_trial_keeps_foreign_array",
    "MM.compExch_not_accepted_atoms",
    "MM.gc_mixed_history_x",
    "MM.fail_restores",
    "MM.fail_restores_cell",
    "MM.fail_restores_ham",
    "MM.reject_restores",
    "MM.reject_restores_cell",
    "MM.reject_restores_ham",
    "MM.reject_restores_exchange",
    "MM.reject_restores_composite_insertion",
    "MM.reject_restores_composite_deletion",
    "MM.inv_validate",
    "MM.inv_trial",
    "MM.history_restores",
    "MM.gc_mixed_history",
    "MM.inv_trial_cell",
    "MM.inv_trial_ham",
    "MM.history_restores_any",
    "MM.history_restores_runs",
    "MM.inv_newRunM",
    "MM.empty_insertion_is_no_move",
    "MM.pinned_empty_insertion_deletes_everything",
    "MM.compExch_clears_preselections",
    "MM.compExch_clears_members_only",
    "MM.trial_compExch_clears_preselections",
    "MM.trial_compExch_noPresel",
    "MM.pinned_compExch_keeps_preselection",
    "MM.plain_two_deletions_not_restored",
    "MM.reinsert_delete",
    "MM.delete_after_insert",
    "MM.remapFixed_beyond",
    "MM.posOnly_restore",
    "MM.stripOnly_restore",
    "MM.auxOnly_restore",
]
RULE = ("histories of scripted trials on real Canonical/HamiltonianCanonical/Isobaric/Isotension/GrandCanonical "
        "objects over real Atoms with tags, momenta, charges, custom arrays and FixAtoms; move trees over "
        "Displacement/Exchange/Cell/Hamiltonian/user moves incl. composites and repeated objects; a case is "
        "non-trivial when at least one trial is rejected or fails after the move touched the atoms; distinct = distinct histories")
ASSUMPTIONS = ["positions/momenta/cell are integer-valued floats so that numpy arithmetic is exact",
               "ASE semantics of extend/__delitem__/set_positions/set_cell/FixAtoms as modelled (DESIGN §5)"]

ENSEMBLES = ["canonical", "hamiltonian", "isobaric", "grand", "grand", "grand", "base"]


def _one_sig(case, k):
    tr = case["trials"][k]
    ent = next(e for e in case["table"] if e["name"] == tr["name"])
    refs = machine.tree_refs(ent["tree"])
    kinds = "".join(sorted({machine.KINDCHAR[case["objs"][r]["kind"]] for r in refs}))
    nx = sum(case["objs"][r]["kind"] == "exch" for r in refs)
    defective = ent["tree"][0] == "P" and (nx >= 2 or (nx >= 1 and "D" in kinds))
    shape = ent["tree"][0]
    if ent.get("swap") and len(tr.get("presel", [])) == 2:
        # a directed swap (pre-selected deletion, then pre-selected insertion) is not the recorded finding
        defective = False
        shape = "S"
    return f"{case['ens']}:{shape}{kinds}x{nx}", defective


def trial_sig(case, k):
    """ensemble:tree-shape+kinds of trial k. A history in which an earlier trial already ran a plain composite with
    exchange members (recorded defect: the bookkeeping is corrupted from then on) is attributed to that trial."""
    for j in range(k + 1):
        sig, defective = _one_sig(case, j)
        if defective:
            return sig
    return _one_sig(case, k)[0]


def defect_scope(case):
    for k in range(len(case["trials"])):
        sig, defective = _one_sig(case, k)
        if defective:
            return f"model-divergence:{sig}:plain-composite-with-exchange"
    return None


def restore_violations(case, obs):
    """the property on the real code: state before == state after every rejected / failed trial"""
    out = []
    for k, o in enumerate(obs["outcomes"]):
        if o == "T":
            continue
        b, a = obs["before"][k], obs["after"][k]
        tr = case["trials"][k]
        ts = trial_sig(case, k)
        what = "rejected" if o == "F" else "failed"
        for key in ("arrays", "cell", "pbc"):
            if a[key] != b[key]:
                sub = key
                if key == "arrays":
                    names = [n for n in set(a["arrays"]) | set(b["arrays"]) if a["arrays"].get(n) != b["arrays"].get(n)]
                    sub = "arrays:" + ",".join(sorted(names))
                out.append((f"restore:{ts}:{what}:{sub}",
                            f"trial {k} ({tr['name']}, {what}): {sub} differ after the trial"))
        if a.get("bits") != b.get("bits") and all(a[key] == b[key] for key in ("arrays", "cell", "pbc")):
            names = sorted(n for n in set(a["bits"]) | set(b["bits"]) if a["bits"].get(n) != b["bits"].get(n))
            out.append((f"restore:{ts}:{what}:bits:" + ",".join(names),
                        f"trial {k} ({tr['name']}, {what}): equal values but not bit for bit (sign of a zero?) in {names}"))
        if a["fixed"] != b["fixed"] or a["nconstraints"] != b["nconstraints"]:
            out.append((f"restore:{ts}:{what}:constraints",
                        f"trial {k}: constrained atoms {b['fixed']} -> {a['fixed']}"))
        if a["labels"] != b["labels"]:
            out.append((f"leak:{ts}:{what}:labels", f"trial {k}: labels changed"))
        if any(p[0] is not None or p[1] is not None or p[2] for p in a["presel"]):
            out.append((f"leak:{ts}:{what}:preselection", f"trial {k}: {a['presel']}"))
        if a["ctx"]["added"] or a["ctx"]["deleted"] or a["ctx"]["delta"] != 0:
            out.append((f"leak:{ts}:{what}:pending", f"trial {k}: {a['ctx']}"))
        if a["ctx"]["nexch"] != b["ctx"]["nexch"]:
            out.append((f"leak:{ts}:{what}:particle-count", f"trial {k}: {a['ctx']}"))
        if b.get("ke_reference_current") and a.get("ke_reference_current") is False and o == "F":
            # after a REJECTED trial (a vetoed one never reaches revert_state) the kinetic reference is the kinetic energy of
            # the restored momenta again — the abandoned trajectory's is gone
            out.append((f"leak:{ts}:{what}:kinetic-reference",
                        f"trial {k}: last_kinetic_energy is not the kinetic energy of the restored momenta"))
    return out


class Histories(common.Suite):
    name = "machine-histories"
    ensembles = ENSEMBLES

    def cases(self, rng, tier):
        n = 1400 if tier == "quick" else 20000
        for i in range(n):
            ens = self.ensembles[i % len(self.ensembles)]
            case = machine.gen_case(rng, ens, tier)
            if ens == "grand" and i % 23 == 5:
                case["template_extra"] = True    # the species carries a per-atom array the system lacks (a rejected or vetoed insertion takes the array away again: repair 2e18425)
            yield case

    def real(self, case):
        obs = machine.run_real(case)
        obs.pop("sim")
        return obs

    def model_lines(self, case):
        return [machine.model_line(case)]

    def model_obs(self, case, outs):
        return {"snapshots": outs[0].split(" | ")}

    def compare(self, case, real, model):
        if "snapshots" not in real:
            return [f"real code raised {real.get('exception')}: {real.get('message')}"]
        rs, ms = real["snapshots"], model["snapshots"]
        if "exception" in real:
            ms = ms[:len(rs)]
            return [f"real code raised {real['exception']} in trial {real.get('exception_at')}: {real['message']}; "
                    f"the model continues with {model['snapshots'][len(rs):len(rs)+1]}"] + [
                f"trial {k}: real {r} / model {m}" for k, (r, m) in enumerate(zip(rs, ms)) if r != m][:1]
        for k, (r, m) in enumerate(zip(rs, ms)):
            if r != m:
                return [f"trial {k}: real  {r}", f"trial {k}: model {m}"]
        if len(rs) != len(ms):
            return [f"{len(rs)} real trials vs {len(ms)} model trials"]
        return []

    def oracle(self, case, obs):
        out = []
        if "exception" in obs:
            k = obs.get("exception_at")
            ts = trial_sig(case, k) if k is not None else case["ens"] + ":setup"
            out.append((f"exception:{ts}:{obs['exception']}", f"trial {k}: " + obs["message"] + obs.get("trace", "")[-600:]))
        if "outcomes" in obs:
            out += restore_violations(case, obs)
        return out

    def known_scope(self, case):
        return defect_scope(case)

    def classify(self, case, obs):
        if "outcomes" not in obs:
            return "exception"
        touched = False
        for k, o in enumerate(obs["outcomes"]):
            if o != "T" and (obs["consumed"][k][1] > 0):
                touched = True
        if not touched:
            return None
        return case["ens"] + ":" + "".join(sorted(set(obs["outcomes"])))


class CollectiveConstraintHistories(Histories):
    """the same before/after oracle under a COLLECTIVE constraint (ASE FixCom: adjusting the displaced atom shifts
    every other atom): vetoed attempts and rejections must still restore every atom. No model (positions are no longer
    integer-valued); oracle only."""

    name = "collective-constraint-histories"

    def cases(self, rng, tier):
        n = 150 if tier == "quick" else 3000
        for i in range(n):
            case = machine.gen_case(rng, "canonical" if i % 3 else "grand", tier)
            case["constraint"] = "fixcom"
            case["fixed"] = None
            for o in case["objs"]:
                o["apply_constraints"] = True
                o["max_attempts"] = rng.choice([1, 2, 3])
            for tr in case["trials"]:
                tr["checks"] = [rng.random() < 0.45 for _ in tr["checks"]]
            # exchange moves cannot run with a FixCom constraint attached (ASE refuses `del atoms[i]`)
            if any(case["objs"][r]["kind"] == "exch" for e in case["table"] for r in machine.tree_refs(e["tree"])):
                case["ens"] = "canonical"
                for o in case["objs"]:
                    if o["kind"] == "exch":
                        o["kind"] = "disp"
                case["table"] = [dict(e, tree=(["D", e["tree"][1]] if e["tree"][0] == "X" else e["tree"])) for e in case["table"]]
                case.pop("template", None)
                for tr in case["trials"]:
                    tr["presel"] = [p for p in tr["presel"] if p[1] == "D"]
            yield case

    def real(self, case):
        obs = machine.run_real(case, snap=False)
        obs.pop("sim")
        return obs

    def model_lines(self, case):
        return []

    def known_scope(self, case):
        return None


class FractionalCellHistories(Histories):
    """cell moves whose deformation is NOT exactly invertible in floating point (factors 1.1, 0.9, 1/3, …) with many
    vetoed attempts: a failed or rejected trial must give back the positions and the cell bit for bit — undoing a
    deformation by "scaling back" leaves last-bit differences that accumulate. No model (not integer-valued); the
    before/after oracle compares exactly."""

    name = "fractional-cell-histories"

    def cases(self, rng, tier):
        n = 120 if tier == "quick" else 2500
        for _ in range(n):
            case = machine.gen_case(rng, "isobaric", tier)
            if not any(o["kind"] == "cell" for o in case["objs"]):
                continue
            for o in case["objs"]:
                if o["kind"] == "cell":
                    o["max_attempts"] = rng.choice([1, 2, 3, 4])
            for tr in case["trials"]:
                tr["ops"] = [[rng.choice([1.1, 0.9, 1.25, 0.8, 1.0 / 3.0, 3.0, 0.7, 1.0]) for _ in range(3)] for _ in tr["ops"]]
                tr["checks"] = [rng.random() < 0.4 for _ in tr["checks"]]
            yield case

    def real(self, case):
        obs = machine.run_real(case, snap=False)
        obs.pop("sim")
        return obs

    def model_lines(self, case):
        return []

    def known_scope(self, case):
        return None


class RunBoundaries(Histories):
    """histories that span several run() calls: between two runs the user moves atoms / changes the cell
    (`atoms.wrap()`, `atoms.positions = …`, `set_cell`), the next run() starts with validate_simulation(), and the first
    trials of the new run are mostly rejected or vetoed — they must restore the atoms AS THE USER LEFT THEM, not the last
    accepted state of the previous run (model: `MM.newRun`, theorem `MM.history_restores_runs`)"""

    name = "run-boundaries"
    ensembles = ["canonical", "isobaric", "hamiltonian", "grand", "canonical"]

    def cases(self, rng, tier):
        n = 350 if tier == "quick" else 6000
        for i in range(n):
            case = machine.gen_case(rng, self.ensembles[i % len(self.ensembles)], tier)
            nt = len(case["trials"])
            if nt < 2:
                continue
            runs = {}
            for k in sorted(rng.sample(range(1, nt), min(nt - 1, rng.choice([1, 1, 2, 3])))):
                ev = {"shift": [[rng.randint(-3, 3) for _ in range(3)] for _ in range(12)], "cell": None, "mom": None}
                if case["ens"] == "isobaric" and rng.random() < 0.5:
                    ev["cell"] = [rng.randint(8, 13) for _ in range(3)]
                if case["ens"] == "hamiltonian" and rng.random() < 0.6:
                    ev["mom"] = [[rng.randint(-3, 3) for _ in range(3)] for _ in range(12)]   # new momenta as well
                runs[str(k)] = ev
                if rng.random() < 0.75:
                    case["trials"][k]["verdict"] = False     # the first trial of the new run is rejected
            # make sure something was accepted in the first run, so that "the last accepted state" differs from the start
            case["trials"][0]["verdict"] = True
            case["runs"] = runs
            yield case

    def real(self, case):
        import numpy as np

        events = []

        def pre(sim, k, out):
            ev = case["runs"].get(str(k))
            if ev is None:
                return
            n = len(sim.atoms)
            shift = np.array([ev["shift"][i % len(ev["shift"])] for i in range(n)], float).reshape(n, 3)
            new = sim.atoms.get_positions() + shift
            sim.atoms.positions = new
            if ev["cell"] is not None:
                sim.atoms.set_cell(np.diag(np.array(ev["cell"], float)), scale_atoms=False)
            newmom = None
            if ev.get("mom") is not None:
                newmom = np.array([ev["mom"][i % len(ev["mom"])] for i in range(n)], float).reshape(n, 3)
                sim.atoms.set_array("momenta", newmom, float, (3,))
            machine.start_run(sim.mc)
            events.append((len(out["snapshots"]), "U" + sim.snapshot("T")[1:],
                           [[machine._int(x) for x in p] for p in new], ev["cell"],
                           None if newmom is None else [[machine._int(x) for x in p] for p in newmom]))

        obs = machine.run_real(case, hooks={"pre": pre})
        obs.pop("sim")
        obs["events"] = events
        self._last_events = events
        return obs

    def model_lines(self, case):
        # called right after real(case): the absolute positions of every edit are known (the user's shift is relative)
        events = getattr(self, "_last_events", [])
        line = machine.model_line(case)
        head = line.split(" R ", 1)[0]
        trials = line.split(" R ", 1)[1].split(" ")
        evs = {i: (pos, cell, mom) for i, _, pos, cell, mom in events}
        pieces = []
        for k, t in enumerate(trials):
            if k in evs:
                pos, cell, mom = evs[k]
                if mom is not None:
                    ops = [x for p in pos for x in p] + [x for p in mom for x in p]
                    pieces.append(",".join(["!runm", "1", "-", machine.s_ints(ops), "-", "-"]))
                else:
                    ops = [x for p in pos for x in p] + (list(cell) if cell is not None else [])
                    pieces.append(",".join(["!run", "1", "1" if cell is not None else "-", machine.s_ints(ops), "-", "-"]))
            pieces.append(t)
        return [head + " R " + " ".join(pieces)]

    def model_obs(self, case, outs):
        return {"snapshots": outs[0].split(" | ")}

    def compare(self, case, real, model):
        if "snapshots" not in real:
            return [f"real code raised {real.get('exception')}: {real.get('message')}"]
        ms = model["snapshots"]
        rs = list(real["snapshots"])
        for off, ev in enumerate(real["events"]):
            rs.insert(ev[0] + off, ev[1])
        if "exception" in real:
            return [f"real code raised {real['exception']} in trial {real.get('exception_at')}: {real['message']}"]
        for k, (r, m) in enumerate(zip(rs, ms)):
            if r != m:
                return [f"event/trial {k}: real  {r}", f"event/trial {k}: model {m}"]
        if len(rs) != len(ms):
            return [f"{len(rs)} real snapshots vs {len(ms)} model snapshots"]
        return []

    def classify(self, case, obs):
        if "outcomes" not in obs:
            return "exception"
        firsts = "".join(obs["outcomes"][int(k)] for k in sorted(case["runs"], key=int) if int(k) < len(obs["outcomes"]))
        return f"{case['ens']}:first-of-new-run={''.join(sorted(set(firsts)))}" if firsts else None


class HamiltonianExchange(common.Suite):
    """the shipped `HamiltonianExchangeContext` (hybrid grand-canonical / Hamiltonian simulations: a GrandCanonical whose
    context also remembers momenta): rejected insertions and deletions restore the atoms bit for bit, momenta included.
    Oracle only (the M-machine has no such ensemble)."""

    name = "hamiltonian-exchange-context"

    def cases(self, rng, tier):
        n = 24 if tier == "quick" else 240
        for i in range(n):
            yield {"natoms": rng.randint(2, 6), "bias": [0.0, 1.0, 0.5][i % 3], "seed": rng.randrange(1, 2**31),
                   "trials": [rng.random() < 0.4 for _ in range(rng.randint(2, 6))], "molecule": i % 4 == 3}

    def real(self, case):
        import warnings

        import numpy as np
        import quansino.mc  # noqa: F401
        from ase import Atoms
        from quansino.mc.contexts import HamiltonianExchangeContext
        from quansino.mc.criteria import BaseCriteria
        from quansino.mc.gcmc import GrandCanonical
        from quansino.moves.exchange import ExchangeMove

        class Hybrid(GrandCanonical):
            default_context = HamiltonianExchangeContext

        class Verdict(BaseCriteria):
            verdict = False

            def evaluate(self, context):
                context.atoms.get_potential_energy()
                return self.verdict

        rs = np.random.default_rng(case["seed"])
        n = case["natoms"]
        atoms = Atoms(f"Cu{n}", positions=rs.uniform(0, 8, (n, 3)), cell=[9.0, 9.0, 9.0], pbc=True)
        atoms.set_momenta(rs.normal(size=(n, 3)))
        atoms.set_tags(np.arange(n))
        atoms.calc = machine.make_calc()
        tmpl = Atoms("H2", positions=[[0, 0, 0], [0, 0, 0.74]]) if case["molecule"] else Atoms("Ag")
        out = []
        with warnings.catch_warnings():
            warnings.simplefilter("ignore")
            mc = Hybrid(atoms, exchange_atoms=tmpl, temperature=300.0, seed=case["seed"], max_cycles=1,
                        number_of_exchange_particles=n)
            crit = Verdict()
            mc.add_move(ExchangeMove(np.arange(n), bias_towards_insert=case["bias"]), criteria=crit, name="x")
            for accept in case["trials"]:
                crit.verdict = accept
                before = {k: v.tobytes() for k, v in atoms.arrays.items()}
                names = sorted(atoms.arrays)
                try:
                    mc.run(1)
                except Exception as e:  # noqa: BLE001
                    out.append({"accept": accept, "exception": type(e).__name__, "message": str(e)[:160]})
                    break
                verdict = mc.move_history[-1][1]
                same = sorted(atoms.arrays) == names and all(atoms.arrays[k].tobytes() == before[k] for k in names)
                out.append({"accept": accept, "verdict": verdict, "same": same, "natoms": len(atoms),
                            "labels": len(mc.moves["x"].move.labels)})
        return {"trials": out}

    def oracle(self, case, obs):
        if "exception" in obs:
            return [("hybrid:harness-exception:" + obs["exception"], obs.get("message", "") + obs.get("trace", "")[-300:])]
        out = []
        for k, t in enumerate(obs["trials"]):
            if "exception" in t:
                out.append((f"hybrid:exception:{t['exception']}", f"trial {k} (verdict would be {t['accept']}): {t['message']}"))
                break
            if t["verdict"] is not True and not t["same"]:
                out.append(("hybrid:rejected-trial-not-restored", f"trial {k}: atoms differ after a rejected/failed trial"))
            if t["natoms"] != t["labels"]:
                out.append(("hybrid:labels-out-of-step", f"trial {k}: {t['labels']} labels for {t['natoms']} atoms"))
        return out[:3]

    def classify(self, case, obs):
        return f"bias={case['bias']}:mol={case['molecule']}"


class ArrayNames(common.Suite):
    """which per-atom arrays the system has after trials that insert species carrying arrays of their own (initial_magmoms,
    initial_charges, tags, momenta, a custom array): single and composite exchange trials with pre-selected species on the real
    grand-canonical driver, placements vetoed or not, accepted or rejected; the names in dictionary order after every trial
    against `QModel/ArrayNames.lean`, and the oracle: a trial that is not accepted leaves the names as they were"""

    name = "array-names"
    EXTRA = ["initial_magmoms", "initial_charges", "tags", "momenta", "spin_up"]

    def cases(self, rng, tier):
        n = 150 if tier == "quick" else 2000
        for _ in range(n):
            sys_extra = [x for x in self.EXTRA if rng.random() < 0.25]
            trials = []
            for _ in range(rng.randint(1, 6)):
                members = []
                for _ in range(1 if rng.random() < 0.6 else 2):
                    members.append({"extra": [x for x in self.EXTRA if rng.random() < 0.35], "placed": rng.random() < 0.75,
                                    "size": rng.choice([1, 1, 2])})
                trials.append({"members": members, "verdict": rng.random() < 0.5})
            yield {"sys_extra": sys_extra, "natoms": rng.randint(1, 3), "trials": trials}

    @staticmethod
    def _with_arrays(atoms, names):
        import numpy as np

        for x in names:
            if x == "tags":
                atoms.set_tags([3] * len(atoms))
            elif x == "momenta":
                atoms.set_momenta(np.full((len(atoms), 3), 0.5))
            elif x == "initial_magmoms":
                atoms.set_initial_magnetic_moments([1.0] * len(atoms))
            elif x == "initial_charges":
                atoms.set_initial_charges([0.25] * len(atoms))
            else:
                atoms.set_array(x, np.arange(len(atoms), dtype=float) + 1.0)
        return atoms

    def real(self, case):
        import numpy as np
        from ase import Atoms
        from ase.calculators.calculator import Calculator, all_changes
        from quansino.mc.gcmc import GrandCanonical
        from quansino.moves.exchange import ExchangeMove

        class Zero(Calculator):
            implemented_properties = ("energy", "forces")

            def calculate(self, atoms=None, properties=("energy",), system_changes=all_changes):
                super().calculate(atoms, properties, system_changes)
                self.results = {"energy": 0.0, "forces": np.zeros((len(atoms), 3))}

        class Crit:
            verdict = True

            def evaluate(self, context):
                context.atoms.get_potential_energy()
                return self.verdict

            def to_dict(self):
                return {"name": "Crit"}

        n = case["natoms"]
        atoms = self._with_arrays(Atoms("Cu" * n, positions=[[1.0 + 2 * i, 1.0, 1.0] for i in range(n)], cell=[12, 12, 12], pbc=True),
                                  case["sys_extra"])
        atoms.calc = Zero()
        with warnings.catch_warnings():
            warnings.simplefilter("ignore")
            mc = GrandCanonical(atoms, exchange_atoms=Atoms("H"), temperature=300.0, chemical_potential=0.0,
                                number_of_exchange_particles=n, max_cycles=1, seed=7)
            for k in list(mc.moves):
                del mc.moves[k]
            m1, m2 = ExchangeMove(np.arange(n)), ExchangeMove(np.arange(n))
            crit = Crit()
            mc.add_move(m1, criteria=crit, name="one")
            from quansino.moves.exchange import CompositeExchangeMove
            comp = CompositeExchangeMove([m1, m2])
            comp.bias_towards_insert = 1.0
            mc.add_move(comp, criteria=crit, name="two")
            m1.bias_towards_insert = m2.bias_towards_insert = 1.0
            mc.validate_simulation()
            names0 = list(atoms.arrays)
            out = [names0]
            outcomes = []
            species = []
            self._last = None
            for tr in case["trials"]:
                mem = tr["members"]
                sp_names = []
                for mv, m in zip((m1, m2), mem):
                    sp = self._with_arrays(Atoms("H" * m["size"], positions=[[0.0, 0.0, 0.7 * j] for j in range(m["size"])]), m["extra"])
                    sp_names.append(list(sp.arrays))
                    mv.to_add_atoms = sp
                    mv.max_attempts = 1
                    mv.check_move = (lambda v: (lambda *_a, **_k: v))(m["placed"])
                crit.verdict = tr["verdict"]
                entry = "one" if len(mem) == 1 else "two"
                mc.yield_moves = (lambda e: (lambda: iter([e])))(entry)
                for _ in mc.step():
                    pass
                outcomes.append({True: "T", False: "F", None: "N"}[mc.move_history[-1][1]])
                species.append(sp_names)
                m1.to_add_atoms = m2.to_add_atoms = None
                out.append(list(atoms.arrays))
        self._last = {"names0": names0, "species": species}
        return {"names": out, "outcomes": outcomes}

    def model_lines(self, case):
        # called right after `real(case)`: names and their order are taken from the real objects
        last = getattr(self, "_last", None)
        if not last:
            return []
        ops, marks = [], []
        for tr, sp_names in zip(case["trials"], last["species"]):
            placed_any = False
            for m, names in zip(tr["members"], sp_names):
                ops.append(f"I:{','.join(names)}:{int(m['placed'])}")
                placed_any = placed_any or m["placed"]
            if placed_any:
                ops.append("S" if tr["verdict"] else "R")
            marks.append(len(ops) - 1)
        if not hasattr(self, "_store"):
            self._store = {}
        self._store[common.dumps(case)] = {"names0": last["names0"], "marks": marks}
        return ["arrn " + (",".join(last["names0"]) or "-") + " " + " ".join(ops)]

    def model_obs(self, case, outs):
        w = outs[0].split()
        if w[0] == "bad-op":
            return {"names": "bad-op"}
        per_op = [[] if t == "-" else t.split(",") for t in w[:-1]]
        st = self._store[common.dumps(case)]
        return {"names": [st["names0"], *[per_op[k] for k in st["marks"]]], "saved": w[-1]}

    def compare(self, case, real_obs, model_obs):
        if "exception" in real_obs:
            return []
        d = []
        if real_obs["names"] != model_obs["names"]:
            d.append(f"names: real={real_obs['names']} model={model_obs['names']}")
        if model_obs.get("saved") != "saved=none":
            d.append(f"the model still remembers names after the last trial: {model_obs.get('saved')}")
        return d

    def oracle(self, case, obs):
        if "exception" in obs:
            return [("array-names:unexpected-exception:" + obs["exception"], obs.get("message", "") + obs.get("trace", "")[-400:])]
        out = []
        for k, (o, before, after) in enumerate(zip(obs["outcomes"], obs["names"], obs["names"][1:])):
            if o != "T" and before != after:
                out.append((f"restore:array-names:{'rejected' if o == 'F' else 'failed'}",
                            f"trial {k}: arrays {before} -> {after} although the trial was not accepted"))
            if o == "T":
                want = set(before)
                for m in case["trials"][k]["members"]:
                    if m["placed"]:
                        want |= set(m["extra"])
                if set(after) != want:
                    out.append(("array-names:accepted", f"trial {k}: arrays {after}, expected the names {sorted(want)}"))
        return out

    def classify(self, case, obs):
        return "".join(obs.get("outcomes", ["?"]))[:4]


def suites(tier):
    return [Histories(), CollectiveConstraintHistories(), RunBoundaries(), FractionalCellHistories(), HamiltonianExchange(), ArrayNames()]
