"""C20 — drivers use custom moves and criteria only through the documented protocol (DESIGN §6 C20)."""
from __future__ import annotations

import warnings

import numpy as np

import common
import machine

ID = "C20"
LEAN_MODULES = ["QProps.C20"]
THEOREMS = ["Proto20.trace_step", "Proto20.notify_atoms", "Proto20.notify_cell", "Proto20.no_notification_elsewhere"]
RULE = ("bare user moves/criteria (no quansino base class) behind a strict proxy that records every attribute access, added "
        "with explicit criteria to MonteCarlo/Canonical/HamiltonianCanonical/Isobaric/Isotension/GrandCanonical next to real "
        "Exchange/Cell moves, also inside CompositeMove and under several names; scripted truthy/falsy results and verdicts; "
        "non-trivial = a history with at least one accepted change of atom count or cell, or a falsy result; distinct = distinct histories")
ASSUMPTIONS = ["dunder look-ups performed by Python itself (__class__, __call__ via the type) are not protocol violations",
               "the indices handed to on_atoms_changed are taken from the real notification and checked against the atom count"]

ENSEMBLES = ["base", "canonical", "hamiltonian", "isobaric", "isotension", "grand"]
MOVE_PROTOCOL = {"on_atoms_changed", "on_cell_changed", "to_dict", "from_dict"}
CRIT_PROTOCOL = {"evaluate", "to_dict", "from_dict"}


class BareMove:
    def __init__(self, uid):
        self.uid = uid
        self.result = True
        self.queue = []          # results for the next calls, before `result` applies again

    def __call__(self, context):
        return self.queue.pop(0) if self.queue else self.result

    def on_atoms_changed(self, added_indices, removed_indices):
        pass

    def on_cell_changed(self, new_cell):
        pass

    def to_dict(self):
        return {"name": "BareMove", "kwargs": {"uid": self.uid}}

    @classmethod
    def from_dict(cls, data):
        return cls(**data.get("kwargs", {}))


class BareCriteria:
    def __init__(self, uid):
        self.uid = uid
        self.verdict = True
        self.size = 1

    def __len__(self):
        # a criteria object may well be a container (of sub-criteria, of its decisions so far): an EMPTY one is falsy and
        # still the criteria the user gave
        return self.size

    def evaluate(self, context):
        return self.verdict

    restored: list = []      # uids handed back by `from_dict` (the class is what the registry returns on a restore)

    def to_dict(self):
        # the user's own layout: what is in the dictionary is the business of the user's `to_dict` / `from_dict` pair
        return {"name": "BareCriteria", "state": {"uid": self.uid, "size": self.size}}

    @classmethod
    def from_dict(cls, data):
        c = cls(data["state"]["uid"])
        c.size = data["state"]["size"]
        cls.restored.append(c.uid)
        return c


def make_strict(allowed, tag):
    class Strict:
        """records every attribute access; anything outside the protocol is logged as off-protocol (and refused)"""

        def __init__(self, inner, log):
            object.__setattr__(self, "_inner", inner)
            object.__setattr__(self, "_log", log)

        def __call__(self, *a, **k):
            log = object.__getattribute__(self, "_log")
            log.append((tag, object.__getattribute__(self, "_inner").uid, "call"))
            return object.__getattribute__(self, "_inner")(*a, **k)

        def __getattribute__(self, name):
            if name.startswith("__") and name.endswith("__"):
                return object.__getattribute__(self, name)
            log = object.__getattribute__(self, "_log")
            inner = object.__getattribute__(self, "_inner")
            if name not in allowed:
                log.append((tag, inner.uid, "OFF-PROTOCOL-READ", name))
                raise AttributeError(f"off-protocol read of {name!r}")
            target = getattr(inner, name)

            def wrapper(*a, **k):
                if name == "on_atoms_changed":
                    log.append((tag, inner.uid, name, [int(i) for i in a[0]], [int(i) for i in a[1]]))
                else:
                    log.append((tag, inner.uid, name))
                return target(*a, **k)

            return wrapper

        def __setattr__(self, name, value):
            log = object.__getattribute__(self, "_log")
            log.append((tag, object.__getattribute__(self, "_inner").uid, "OFF-PROTOCOL-WRITE", name))
            raise AttributeError(f"off-protocol write of {name!r}")

        def __bool__(self):
            # Python-internal: the proxy is as truthy as the user object (a criteria that is an empty container is falsy)
            inner = object.__getattribute__(self, "_inner")
            return bool(len(inner)) if hasattr(type(inner), "__len__") else True

    return Strict


StrictMove = make_strict(MOVE_PROTOCOL, "move")
StrictCriteria = make_strict(CRIT_PROTOCOL, "crit")


class StrictMoveEqual(StrictMove):
    """a user move with VALUE equality (two instances configured alike compare equal and hash alike): the driver tells
    objects apart by identity, never by what the user's `__eq__` says"""

    def __eq__(self, other):
        return isinstance(other, StrictMove)

    def __hash__(self):
        return 7


class StrictMoveUnhashable(StrictMove):
    """a user move that defines `__eq__` and nothing else (a plain @dataclass): unhashable"""

    def __eq__(self, other):
        return isinstance(other, StrictMove)

    __hash__ = None


MOVE_FLAVOURS = [StrictMove, StrictMove, StrictMoveEqual, StrictMoveUnhashable]


def gen_case(rng, ens, tier):
    n = rng.randint(2, 5)
    rows = [[rng.randint(-4, 4) for _ in range(3)] + [0, 0, 0] + [rng.choice([1, 8, 29]), 0, 100 + i, 0, 0, 0] for i in range(n)]
    case = {"ens": ens, "rows": rows, "cell": [rng.randint(8, 11) for _ in range(3)], "fixed": None,
            "template": [[0, 0, 0, 0, 0, 0, 1, 0, 0, 0, 0, 0]] * rng.choice([1, 2])}
    nuser = rng.randint(1, 3)
    entries = []  # (name, kind, payload)
    names = iter("abcdefgh")
    for u in range(nuser):
        entries.append({"name": next(names), "kind": "user", "users": [u]})
    if nuser >= 2 and rng.random() < 0.6:
        members = [rng.randrange(nuser) for _ in range(rng.randint(2, 3))]
        entries.append({"name": next(names), "kind": "composite", "users": members})
    if rng.random() < 0.3:
        entries.append({"name": next(names), "kind": "user", "users": [0]})  # the same object under a second name
    if ens == "grand":
        entries.append({"name": next(names), "kind": "exch", "users": []})
    if ens in ("isobaric", "isotension"):
        entries.append({"name": next(names), "kind": "cell", "users": []})
    if ens != "base" and rng.random() < 0.6:
        # a stock displacement move next to the user moves: its trials leave their own traces in the context
        # (moving indices, remembered positions) that must not influence what the user moves are told afterwards
        entries.append({"name": next(names), "kind": "disp", "users": []})
    rng.shuffle(entries)
    case["entries"] = entries
    trials = []
    for _ in range(rng.randint(3, 9) if tier == "quick" else rng.randint(5, 20)):
        e = rng.choice(entries)
        trials.append({"name": e["name"], "truthy": [rng.random() < 0.7 for _ in e["users"]] or [True],
                       "valuekind": rng.randrange(5),
                       "verdict": rng.random() < 0.6, "draws": [rng.randrange(1000) for _ in range(4)],
                       "scale": rng.choice([1, 1, 2, 1 + 2.0**-30]), "check": rng.random() < 0.85})
    case["trials"] = trials
    # a user move added to the table AFTER the run has started (it must be notified like the others from then on)
    case["late"] = None
    case["flavour"] = rng.randrange(4)   # identity-hashed / value-equal / unhashable user moves
    if rng.random() < 0.4 and len(trials) >= 2:
        case["late"] = {"after": rng.randrange(1, len(trials)), "name": "late", "user": nuser}
    return case


def user_order(case, k=None):
    """distinct user objects in the order the table is traversed (dict order, composites in member order) at trial k"""
    seen = []
    for e in case["entries"]:
        for u in e["users"]:
            if u not in seen:
                seen.append(u)
    late = case.get("late")
    if late and k is not None and k >= late["after"] and late["user"] not in seen:
        seen.append(late["user"])
    return seen


class ProtocolSuite(common.Suite):
    name = "strict-proxy"

    def cases(self, rng, tier):
        n = 1500 if tier == "quick" else 12000
        for i in range(n):
            yield gen_case(rng, ENSEMBLES[i % len(ENSEMBLES)], tier)

    def real(self, case):
        import quansino.mc  # noqa: F401
        from quansino.mc.canonical import Canonical, HamiltonianCanonical
        from quansino.mc.core import MonteCarlo
        from quansino.mc.gcmc import GrandCanonical
        from quansino.mc.isobaric import Isobaric
        from quansino.mc.isotension import Isotension
        from quansino.moves.cell import CellMove
        from quansino.moves.composite import CompositeMove
        from quansino.moves.exchange import ExchangeMove

        ens = case["ens"]
        atoms = machine.build_atoms(case)
        atoms.calc = machine.make_calc()
        kw = dict(seed=1, max_cycles=1)
        with warnings.catch_warnings():
            warnings.simplefilter("ignore")
            if ens == "base":
                mc = MonteCarlo(atoms, **kw)
            elif ens == "canonical":
                mc = Canonical(atoms, temperature=300.0, **kw)
            elif ens == "hamiltonian":
                mc = HamiltonianCanonical(atoms, temperature=300.0, **kw)
            elif ens == "isobaric":
                mc = Isobaric(atoms, temperature=300.0, pressure=0.0, **kw)
            elif ens == "isotension":
                mc = Isotension(atoms, temperature=300.0, pressure=0.0, **kw)
            else:
                mc = GrandCanonical(atoms, exchange_atoms=machine.build_template(case), temperature=300.0, **kw)
        rng = machine.ScriptedRNG()
        streams = machine.Streams()
        real_rng = common.get_rng(mc)
        common.set_rng(mc, rng)
        mc.context.rng = rng
        log = []
        nuser = 1 + max([u for e in case["entries"] for u in e["users"]] + [0]) + (1 if case.get("late") else 0)
        bare = [BareMove(u) for u in range(nuser)]
        users = [MOVE_FLAVOURS[case.get("flavour", 0) % len(MOVE_FLAVOURS)](b, log) for b in bare]
        crits = {}
        tops = {}
        for k, e in enumerate(case["entries"]):
            cb = BareCriteria(100 + k)
            if (k + len(case["trials"])) % 4 == 0:
                cb.size = 0            # falsy, and still the criteria the user handed over
            crit = StrictCriteria(cb, log)
            crits[e["name"]] = cb
            if e["kind"] == "user":
                top = users[e["users"][0]]
            elif e["kind"] == "composite":
                top = CompositeMove([users[u] for u in e["users"]])
            elif e["kind"] == "exch":
                top = ExchangeMove(np.arange(len(atoms)), operation=machine.ScriptedOp(streams, "disp"))
                top.check_move = lambda *_a, **_k: streams.check()
                top.max_attempts = 1
            elif e["kind"] == "disp":
                from quansino.moves.displacement import DisplacementMove

                top = DisplacementMove(np.arange(len(atoms)), operation=machine.ScriptedOp(streams, "disp"))
                top.check_move = lambda *_a, **_k: streams.check()
                top.max_attempts = 1
            else:
                top = CellMove(operation=machine.ScriptedOp(streams, "cell"))
                top.check_move = lambda *_a, **_k: streams.check()
                top.max_attempts = 1
            tops[e["name"]] = top
            mc.add_move(top, criteria=crit, name=e["name"])
            if (k + len(case["trials"])) % 3 == 1:
                # the entry is added AGAIN under its name, with another explicit criteria: that one decides from now on
                cb = BareCriteria(500 + k)
                crits[e["name"]] = cb
                mc.add_move(top, criteria=StrictCriteria(cb, log), name=e["name"])
        current = [None]
        mc.yield_moves = lambda: iter([current[0]])
        with warnings.catch_warnings():
            warnings.simplefilter("ignore")
            mc.validate_simulation()
        out = {"setup_log": [list(x) for x in log], "trials": [], "crit_uid": {n: c.uid for n, c in crits.items()}}
        del log[:]
        for kt, tr in enumerate(case["trials"]):
            late = case.get("late")
            if late and kt == late["after"]:
                cb = BareCriteria(900)
                crits[late["name"]] = cb
                mc.add_move(users[late["user"]], criteria=StrictCriteria(cb, log), name=late["name"])
            e = next(x for x in case["entries"] if x["name"] == tr["name"])
            # the protocol says "truthy" / "falsy": not only the bool singletons
            truthy_values = [True, 1, np.True_, "moved", [3]]
            falsy_values = [False, 0, np.False_, "", None]
            for u, res in zip(e["users"], tr["truthy"]):
                bare[u].result = (truthy_values if res else falsy_values)[tr.get("valuekind", 0)]
            crits[tr["name"]].verdict = tr["verdict"]
            rng.draws = list(tr["draws"])
            streams.ops = [[tr["scale"]] * 3] if e["kind"] == "cell" else [[1, 0, 0]]
            streams.checks = [tr["check"]]
            current[0] = tr["name"]
            n0 = len(atoms)
            cell0 = atoms.cell.array.copy()
            # a falsy result right AFTER an evaluated trial of the same step: it is recorded as not attempted all the same
            doubled = (e["kind"] == "user" and not tr["truthy"][0] and kt % 2 == 0)
            if doubled:
                bare[e["users"][0]].queue = [True]
                mc.yield_moves = lambda: iter([current[0], current[0]])
            for _ in mc.step():
                pass
            if doubled:
                mc.yield_moves = lambda: iter([current[0]])
                first = mc.move_history[0][1] if len(mc.move_history) == 2 else "missing"
                out.setdefault("doubled", []).append({"trial": kt, "first": {True: "True", False: "False", None: "None"}.get(first, str(first)),
                                                      "want_first": str(bool(tr["verdict"])),
                                                      "second": {True: "True", False: "False", None: "None"}.get(mc.move_history[-1][1])})
                del log[:]
                mc.move_history = mc.move_history[-1:]
                log.append(("move", e["users"][0], "call"))   # the second call, as the single-trial bookkeeping expects it
            (_, verdict), = mc.move_history
            out["trials"].append({"effective_truthy": [bool(bare[u].result) for u in e["users"]],
                                  "log": [list(x) for x in log], "history": {True: "True", False: "False", None: "None"}[verdict],
                                  "natoms": [n0, len(atoms)], "cell_changed": bool((atoms.cell.array != cell0).any())})
            del log[:]
        common.set_rng(mc, real_rng)  # to_dict reads the bit generator's state
        d = mc.to_dict()
        out["to_dict_log"] = [list(x) for x in log]
        ser = {}
        for e in case["entries"]:
            md = d["moves"][e["name"]]["kwargs"]
            ser[e["name"]] = {"move": md["move"], "criteria": md["criteria"]}
        out["serialised"] = ser
        # … and restored from that dictionary: the user's classes are looked up in the registry and THEIR `from_dict` rebuilds the
        # objects (only when the table holds nothing but user moves: the scripted operations of the stock moves are not registered)
        if all(e["kind"] in ("user", "composite") for e in case["entries"]):
            from quansino.registry import register_class

            register_class(BareMove, "BareMove")
            register_class(BareCriteria, "BareCriteria")
            BareCriteria.restored = []
            want = {name: c.uid for name, c in crits.items() if name in d["moves"]}
            try:
                import copy as _copy

                mc2 = type(mc).from_dict(_copy.deepcopy(d))
                got = {name: getattr(st.criteria, "uid", None) for name, st in mc2.moves.items()}
                out["restore"] = {"want": want, "got": got, "via_from_dict": sorted(BareCriteria.restored)}
            except Exception as ex:  # noqa: BLE001
                out["restore"] = {"want": want, "exception": f"{type(ex).__name__}: {str(ex)[:200]}"}
        return out

    # --------------------------------------------------------------- model

    def model_lines(self, case):
        # the model needs the real outcome of the scheduled real/composite move: sent by `model_obs` instead
        return []

    def expected_trace(self, case, tr, t_obs):
        """the model's trace for one trial, restricted to events on user objects (ids < 100)"""
        e = next(x for x in case["entries"] if x["name"] == tr["name"])
        return e

    def oracle(self, case, obs):
        if "exception" in obs:
            return [(f"protocol:exception:{case['ens']}:{obs['exception']}", obs["message"] + obs.get("trace", "")[-500:])]
        out = []
        ens = case["ens"]
        for entry in obs["setup_log"] + obs["to_dict_log"]:
            if "OFF-PROTOCOL" in entry[2]:
                out.append((f"protocol:off-protocol-access:{ens}:{entry[3]}", f"setup/to_dict: {entry}"))
        for dd in obs.get("doubled", []):
            if dd["first"] != dd["want_first"] or dd["second"] != "None":
                out.append((f"protocol:falsy-after-truthy-in-one-step:{ens}",
                            f"trial {dd['trial']}: a truthy trial (verdict {dd['want_first']}) then a falsy one in one step were "
                            f"recorded as {dd['first']}, {dd['second']} (expected {dd['want_first']}, None)"))
        for k, (tr, t) in enumerate(zip(case["trials"], obs["trials"])):
            e = next(x for x in case["entries"] if x["name"] == tr["name"])
            order = user_order(case, k)
            log = t["log"]
            for entry in log:
                if "OFF-PROTOCOL" in entry[2]:
                    out.append((f"protocol:off-protocol-access:{ens}:{entry[3]}", f"trial {k}: {entry}"))
            calls = [x for x in log if x[2] == "call"]
            evals = [x for x in log if x[2] == "evaluate"]
            notes_a = [x for x in log if x[2] == "on_atoms_changed"]
            notes_c = [x for x in log if x[2] == "on_cell_changed"]
            # 1. the scheduled move is executed: every user member exactly once, in order
            if [c[1] for c in calls] != list(e["users"]):
                out.append((f"protocol:not-executed:{ens}:{e['kind']}", f"trial {k}: calls {calls} for members {e['users']}"))
            if e["kind"] in ("user", "composite"):
                truthy = any(t["effective_truthy"])  # a repeated object returns its last scripted result
                if truthy and len(evals) != 1:
                    out.append((f"protocol:truthy-not-evaluated:{ens}", f"trial {k}: {len(evals)} evaluate calls"))
                want_uid = obs.get("crit_uid", {}).get(tr["name"])
                if truthy and len(evals) == 1 and want_uid is not None and evals[0][1] != want_uid and tr["name"] != (case.get("late") or {}).get("name"):
                    out.append((f"protocol:wrong-criteria-evaluated:{ens}",
                                f"trial {k}: criteria {evals[0][1]} was asked, the entry's explicit criteria is {want_uid}"))
                if not truthy and (evals or t["history"] != "None"):
                    out.append((f"protocol:falsy-not-recorded-as-not-attempted:{ens}", f"trial {k}: history {t['history']}, {len(evals)} evaluate"))
                if truthy and t["history"] != str(bool(tr["verdict"])):
                    out.append((f"protocol:verdict-not-recorded:{ens}", f"trial {k}: {t['history']} vs {tr['verdict']}"))
            accepted = t["history"] == "True"
            # 2. notifications: exactly once per distinct user move after an accepted change, never otherwise
            changed_n = t["natoms"][0] != t["natoms"][1]
            if accepted and changed_n:
                got = [x[1] for x in notes_a]
                if sorted(got) != sorted(order):
                    out.append((f"protocol:atoms-notification:{ens}", f"trial {k}: notified {got}, user moves {order}"))
                for x in notes_a:
                    if t["natoms"][1] - t["natoms"][0] != len(x[3]) - len(set(x[4])):
                        out.append((f"protocol:atoms-notification-indices:{ens}", f"trial {k}: {x} for {t['natoms']}"))
            if (not accepted) and notes_a and any(x[3] or x[4] for x in notes_a):
                out.append((f"protocol:atoms-notification-without-acceptance:{ens}", f"trial {k}: {notes_a}"))
            if accepted and t["cell_changed"]:
                got = [x[1] for x in notes_c]
                if sorted(got) != sorted(order):
                    out.append((f"protocol:cell-notification:{ens}", f"trial {k}: notified {got}, user moves {order}"))
            if notes_c and not (accepted and t["cell_changed"]):
                out.append((f"protocol:cell-notification-without-change:{ens}", f"trial {k}: {notes_c}"))
        rs = obs.get("restore")
        if rs is not None:
            if "exception" in rs:
                out.append((f"protocol:restore:{ens}:exception", rs["exception"]))
            elif rs["got"] != rs["want"] or rs["via_from_dict"] != sorted(rs["want"].values()):
                out.append((f"protocol:restore:{ens}:criteria-not-rebuilt-by-its-from_dict",
                            f"criteria uids {rs['want']} came back as {rs['got']}; from_dict of the user class returned {rs['via_from_dict']}"))
        # 3. serialised with the simulation
        for e in case["entries"]:
            ser = obs["serialised"][e["name"]]
            if ser["criteria"].get("name") != "BareCriteria":
                out.append((f"protocol:criteria-not-serialised:{ens}", str(ser["criteria"])))
            if e["kind"] == "user" and ser["move"] != {"name": "BareMove", "kwargs": {"uid": e["users"][0]}}:
                out.append((f"protocol:move-not-serialised:{ens}", str(ser["move"])))
            if e["kind"] == "composite":
                got = [m.get("kwargs", {}).get("uid") for m in ser["move"].get("kwargs", {}).get("moves", [])]
                if got != list(e["users"]):
                    out.append((f"protocol:composite-members-not-serialised:{ens}", str(ser["move"])))
        return out

    def classify(self, case, obs):
        if "trials" not in obs:
            return "exception"
        keys = set()
        for t in obs["trials"]:
            if t["history"] == "None":
                keys.add("falsy")
            if t["history"] == "True" and t["natoms"][0] != t["natoms"][1]:
                keys.add("natoms")
            if t["history"] == "True" and t["cell_changed"]:
                keys.add("cell")
        return case["ens"] + ":" + "+".join(sorted(keys)) if keys else None


class TraceTie(ProtocolSuite):
    """the model's trace (Proto20.trialTrace) against the proxy's record, trial by trial"""

    name = "trace-tie"

    def cases(self, rng, tier):
        n = 600 if tier == "quick" else 6000
        for i in range(n):
            yield gen_case(rng, ENSEMBLES[i % len(ENSEMBLES)], tier)

    def real(self, case):
        obs = super().real(case)
        self._last = obs
        return obs

    def model_lines(self, case):
        obs = getattr(self, "_last", None)
        if not obs or "trials" not in obs:
            return []
        lines = []
        for kt, (tr, t) in enumerate(zip(case["trials"], obs["trials"])):
            order = user_order(case, kt)
            e = next(x for x in case["entries"] if x["name"] == tr["name"])
            if e["kind"] != "user":
                continue  # composites and real moves: covered by the oracle; the model line is for a single user move
            notes = [x for x in t["log"] if x[2] == "on_atoms_changed"]
            added = notes[0][3] if notes else []
            removed = notes[0][4] if notes else []
            k_e = case["entries"].index(e)
            # the entry's explicit criteria: the one of its LAST add_move (an entry may be added again under its name)
            crit = (500 if (k_e + len(case["trials"])) % 3 == 1 else 100) + k_e
            lines.append(" ".join(["p20", case["ens"], ",".join(map(str, order)) or "-", str(e["users"][0]), str(crit),
                                   str(int(tr["truthy"][0])), str(int(tr["verdict"])),
                                   ",".join(map(str, added)) or "-", ",".join(map(str, removed)) or "-",
                                   str(int(t["cell_changed"]))]))
        return lines

    def model_obs(self, case, outs):
        return {"traces": [o.split()[1:] for o in outs]}

    def compare(self, case, real, model):
        if "trials" not in real:
            return [f"real code raised {real.get('exception')}: {real.get('message')}"]
        got = []
        for tr, t in zip(case["trials"], real["trials"]):
            e = next(x for x in case["entries"] if x["name"] == tr["name"])
            if e["kind"] != "user":
                continue
            evs = []
            for x in t["log"]:
                if x[2] == "call":
                    evs.append(f"call:{x[1]}")
                elif x[2] == "evaluate":
                    evs.append(f"evaluate:{x[1]}")
                elif x[2] == "on_atoms_changed":
                    evs.append(f"atoms:{x[1]}:{','.join(map(str, x[3]))}:{','.join(map(str, x[4]))}")
                elif x[2] == "on_cell_changed":
                    evs.append(f"cell:{x[1]}")
                else:
                    evs.append(":".join(map(str, x[2:])))
            got.append([t["history"], *evs])
        diffs = []
        for k, (g, m) in enumerate(zip(got, model["traces"])):
            if g != m:
                diffs.append(f"user-move trial {k}: real {g} model {m}")
        return diffs[:3]

    def oracle(self, case, obs):
        return []


def suites(tier):
    return [ProtocolSuite(), TraceTie()]
