"""C05 — grand-canonical bookkeeping tracks the real system (DESIGN §6 C05)."""
from __future__ import annotations

import common
import machine
from props import c03

ID = "C05"
LEAN_MODULES = ["QProps.C05", "QProps.C05h", "QProps.C05x", "QProps.C03e"]
THEOREMS = [
    "MM.deletion_target_eligible",
    "MM.deletion_never_touches_negative",
    "MM.pinned_preselected_negative_deleted",
    "MM.ginv_trial_compExch",
    "MM.nexch_compExch",
    "MM.compExch_rows_single",
    "MM.compMembers_trial",
    "MM.gc_mixed_history_x",
    "MM.counter_follows_after_composite_insertion",
    "MM.shared_labelling_needs_equal_defaults",
    "MM.labels_aligned_after_accept",
    "MM.inserted_particle_one_label",
    "MM.auto_label_fresh",
    "MM.default_label_honoured",
    "MM.nexch_counter",
    "MM.not_accepted_keeps_labels",
    "MM.ginv_trial",
    "MM.gc_history",
    "MM.fixedOK_delete",
    "MM.ginv_trial_pos",
    "MM.gc_mixed_history",
    "MM.composite_insertion_distinct_labels",
    "MM.composite_insertion_shares_label_pinned",
    "MM.notifyRefs_spec",
    "MM.notifyParts_spec",
    "MM.composite_insertion_labels",
    "MM.onPartsObj_insert_labels",
    "MM.newLabel_after",
    "MM.notifyParts_aligned",
    "MM.onAtomsChanged_length",
    "MM.exchCall_outcome",
]
RULE = ("grand-canonical histories of scripted insertions/deletions/displacements on real GrandCanonical objects: several "
        "label-bearing moves, composites (+ and *), the same object under several names, atomic and molecular templates, "
        "default_label in {None, 0, 7, -1}; non-trivial = at least one accepted insertion or deletion; distinct = distinct histories")
ASSUMPTIONS = c03.ASSUMPTIONS + ["composite members share one labelling (DESIGN §9.1); heterogeneous labelings only via separate table entries"]


def reachable(case):
    out = set()
    for e in case["table"]:
        out.update(machine.tree_refs(e["tree"]))
    return out


def composite_insertions(case, tr, ent):
    """(particles, template-sized units of atoms) a composite insertion adds in trial `tr`, from the scripted verdicts"""
    checks = [bool(c) for c in tr["checks"]]
    big = {p[0] for p in tr.get("presel", []) if p[1] == "B"}
    particles = units = 0
    for r in ent["tree"][1]:
        ok = False
        for _ in range(case["objs"][r]["max_attempts"]):
            if (checks.pop(0) if checks else True):
                ok = True
                break
        if ok:
            particles += 1
            units += 2 if r in big else 1
        big.discard(r)      # a pre-selection is one-shot: used (or dropped) by the member's first turn
    return particles, units


def bookkeeping_violations(case, obs):
    out = []
    k_t = len(case.get("template") or [])
    reach = reachable(case)
    for k, o in enumerate(obs["outcomes"]):
        b, a = obs["before"][k], obs["after"][k]
        ts = c03.trial_sig(case, k)
        natoms = len(a["arrays"]["numbers"][1])
        # 1. one label per atom, for every label-bearing move reachable from the table
        for r, lab in enumerate(a["labels"]):
            if lab is None or r not in reach:
                continue
            if len(lab) != natoms:
                out.append((f"labels:length:{ts}", f"trial {k}: move {r} has {len(lab)} labels for {natoms} atoms"))
        if a["template"] != b["template"]:
            out.append((f"template:modified:{ts}", f"trial {k}: exchange template changed"))
        if o != "T":
            if a["ctx"]["nexch"] != b["ctx"]["nexch"]:
                out.append((f"nexch:changed-without-acceptance:{ts}", f"trial {k}"))
            if a["labels"] != b["labels"]:
                out.append((f"labels:changed-without-acceptance:{ts}", f"trial {k}"))
            continue
        notif = [n for n in obs["extra"][k]["notif"] if n and n[0] != "cell"]
        added = [i for n in notif for i in n[0]]
        removed = [i for n in notif for i in n[1]]
        # one notification per accepted trial — one per inserted PARTICLE when a composite inserted several (each names the
        # atoms of one particle: that is what lets a move give distinct particles distinct labels)
        if len(notif) > max(1, a["ctx"]["nexch"] - b["ctx"]["nexch"]):
            out.append((f"notify:more-than-once:{ts}", f"trial {k}: {len(notif)} notifications for one accepted trial "
                        f"that inserted {a['ctx']['nexch'] - b['ctx']['nexch']} particle(s)"))
        nb = len(b["arrays"]["numbers"][1])
        if natoms != nb + len(added) - len(set(removed)):
            out.append((f"notify:indices-do-not-explain-atom-count:{ts}", f"trial {k}: {nb} -> {natoms}, added {added}, removed {removed}"))
        # 1b. what was removed carried an ELIGIBLE label: negative (do-not-touch) labels are never deleted, drawn or pre-selected
        for x in [r for r in machine.tree_refs(next(e for e in case["table"] if e["name"] == case["trials"][k]["name"])["tree"])
                  if case["objs"][r]["kind"] == "exch"][:1]:
            labs = b["labels"][x]
            neg = [i for i in removed if i < len(labs) and labs[i] < 0]
            if neg:
                out.append((f"labels:negative-label-deleted:{ts}", f"trial {k}: atoms {neg} with negative labels were deleted"))
        # 2. the counter: + inserted particles - deleted particles
        tr = case["trials"][k]
        ent = next(e for e in case["table"] if e["name"] == tr["name"])
        xrefs = [r for r in machine.tree_refs(ent["tree"]) if case["objs"][r]["kind"] == "exch"]
        n_ins = len(added) // k_t if k_t else 0
        if any(p[1] == "B" for p in tr.get("presel", [])) and (ent["tree"][0] == "L" or ent.get("swap")) and added:
            n_ins = 1       # ONE particle of a pre-selected species that is larger than the template
        if any(p[1] == "B" for p in tr.get("presel", [])) and ent["tree"][0] == "X" and added and k_t:
            # a species twice the size of the template pre-selected on MEMBERS of a composite exchange move: the first
            # turn of such a member inserts it (ONE particle of 2*k_t atoms), every other turn inserts the template. Which
            # turns were vetoed follows from the scripted check_move verdicts (one per attempt, max_attempts per turn)
            n_ins, units = composite_insertions(case, tr, ent)
            if units * k_t != len(added):
                out.append((f"notify:indices-do-not-explain-atom-count:{ts}",
                            f"trial {k}: {len(added)} atoms added, the scripted verdicts give {units} x {k_t}"))
        n_del = 0
        if removed and xrefs:
            lab_before = b["labels"][xrefs[0]]
            n_del = len({lab_before[i] for i in removed if i < len(lab_before)})
        if a["ctx"]["nexch"] != b["ctx"]["nexch"] + n_ins - n_del:
            out.append((f"nexch:counter:{ts}", f"trial {k}: {b['ctx']['nexch']} -> {a['ctx']['nexch']} with {n_ins} insertions, {n_del} deletions"))
        # 3. labels of inserted particles
        if added and k_t:
            # the new atoms are appended after the nb atoms the trial started with, whatever the order of insertions and
            # deletions inside the trial (a swap deletes first, so the INDEX VALUES it reports are post-deletion; the
            # labels are appended at the tail all the same): work with tail positions, then account for the removals
            tail = [nb + j for j in range(len(added))]
            chunks = [tail[j:j + k_t] for j in range(0, len(tail), k_t)]
            for r, lab in enumerate(a["labels"]):
                if lab is None or r not in reach or len(lab) != natoms:
                    continue
                dflt = case["objs"][r]["default_label"]
                # positions of the added rows after the removals of the same trial
                shift = lambda i: i - sum(1 for x in set(removed) if x < i)  # noqa: E731
                chunk_labels = []
                # particles of unequal size (a larger species pre-selected on a member of a composite): where one particle ends
                # and the next begins is not known here; only the NUMBER of particles is (from the scripted verdicts)
                uneven = any(p[1] == "B" for p in tr.get("presel", [])) and ent["tree"][0] == "X"
                for ch in chunks:
                    ls = {lab[shift(i)] for i in ch if i not in removed}
                    if len(ls) > 1 and not uneven:
                        out.append((f"labels:particle-split:{ts}", f"trial {k}: atoms {ch} of one inserted particle got labels {ls} in move {r}"))
                    if ls:
                        chunk_labels.append(next(iter(ls)))
                for L in chunk_labels:
                    if dflt is not None and L != dflt:
                        sig = ("labels:default-label-zero:" if dflt == 0 else "labels:default-label-ignored:") + ts
                        out.append((sig, f"trial {k}: move {r} configured default_label={dflt} but new atoms got {L}"))
                    if dflt is None:
                        old = {x for x in b["labels"][r] if x >= 0}
                        if L < 0 or L in old:
                            out.append((f"labels:auto-label-not-fresh:{ts}", f"trial {k}: move {r} gave label {L}, in use: {sorted(old)}"))
                new_labels = [lab[shift(i)] for i in tail if i not in removed]
                if dflt is None and not (set(removed) & set(tail)) and len(set(new_labels)) != n_ins:
                    out.append((f"labels:composite-insertion-shared-label:{ts}",
                                f"trial {k}: {n_ins} inserted particle(s) carry {len(set(new_labels))} distinct label(s) "
                                f"{new_labels} in move {r}"))
    return out


class GCHistories(c03.Histories):
    name = "gc-histories"
    ensembles = ["grand"]

    def cases(self, rng, tier):
        n = 1000 if tier == "quick" else 15000
        for _ in range(n):
            yield machine.gen_case(rng, "grand", tier)

    def oracle(self, case, obs):
        out = []
        if "exception" in obs:
            k = obs.get("exception_at")
            ts = c03.trial_sig(case, k) if k is not None else "grand:setup"
            out.append((f"exception:{ts}:{obs['exception']}", f"trial {k}: " + obs["message"] + obs.get("trace", "")[-600:]))
        if "outcomes" in obs:
            out += bookkeeping_violations(case, obs)
        return out

    def classify(self, case, obs):
        if "outcomes" not in obs:
            return "exception"
        ch = 0
        for k, o in enumerate(obs["outcomes"]):
            if o == "T" and obs["before"][k]["ctx"]["nexch"] != obs["after"][k]["ctx"]["nexch"]:
                ch += 1
        return f"accepted-exchanges={min(ch, 3)}" if ch else None


def suites(tier):
    return [GCHistories()]
