"""C19 — re-insertion inverts deletion; molecule search partitions the atoms by bonds (DESIGN §6 C19)."""
from __future__ import annotations

import itertools

import common

ID = "C19"
LEAN_MODULES = ["QProps.C19", "QProps.C19g"]
THEOREMS = [
    "RI.componentsOf_partition",
    "RI.componentsOf_conn",
    "RI.componentsOf_order",
    "RI.component_size",
    "RI.searchG_total",
    "RI.searchG_default_kept",
    "RI.searchG_label",
    "RI.searchG_same_label_iff",
    "RI.reinsert_delete",
    "RI.reinsertChecked_delete",
    "RI.repeated_index_raises",
    "RI.delete_length",
    "RI.pick_length",
    "RI.reinsert_length",
    "RI.atoms_reinsert_delete",
    "RI.reinsertCol_dtype",
    "RI.addCol_spec",
    "RI.missing_array_raises",
    "RI.label_spec",
    "RI.search_total",
    "RI.search_default_kept",
    "RI.search_label",
    "RI.search_same_label_iff",
    "RI.label_collision",
]
RULE = (
    "(1) real ASE Atoms with numbers, positions and a random subset of tags/momenta/initial_charges/custom masses/"
    "2-D float/int/bool arrays; t = a[idx]; del a[idx]; reinsert_atoms(a, t, idx) for random subsets in random order "
    "(negative indices, list/ndarray), empty and full sets; every array (values, dtype, shape, dict order) of the kept, "
    "taken and final atoms compared with the Lean model; oracle = equality with a copy(). (2) stand-alone "
    "reinsert_atoms with independent atoms/new_atoms (extra/missing arrays, different dtypes, default masses) and a "
    "malformed stream (repeated / out-of-range indices, wrong counts). (3) one int array as rows for the list-level "
    "functions. (4) search_molecules on random molecular boxes (water-like triples, dimers, single atoms, bonds across "
    "periodic boundaries, mixed pbc, skewed cells; scalar / per-atom list / tuple / dict cutoffs; required_size "
    "None/int/pair; default None / negative markers / large / colliding values, list or ndarray, wrong lengths) against "
    "a union-find over minimum-image distances. non-trivial = at least one atom deleted resp. at least one bond."
)
ASSUMPTIONS = [
    "per-atom values are integer-valued floats, so Int-valued model rows are exact; float->int cast is the identity on them",
    "ASE Atoms.__delitem__/__getitem__ (no constraints attached) act array-wise by mask / fancy indexing (tied by suite 1)",
    "trailing shapes of an array in atoms and new_atoms are equal (the model refuses instead of broadcasting trailing axes)",
    "on an exception the partially updated atoms.arrays is not modelled (only the exception type)",
    "networkx.connected_components enumerates components by smallest member; ase.neighbor_list bonds i,j iff some "
    "periodic image is closer than the cutoff (float: d<c; per-atom radii: d<r_i+r_j; dict: per species pair) — the "
    "component list given to the model is the harness's union-find, the real function is compared with it on every case",
    "the model of search_molecules mirrors harness/patches/C19-default-array.diff",
]

DT = {"float64": "f", "int64": "i", "bool": "b"}
NPDT = {"f": "float64", "i": "int64", "b": "bool"}
SPECIES = [1, 6, 8, 29, 79]
MASS_CODE = 100000


# ----------------------------------------------------------------------------------------------- helpers


def _np():
    import numpy as np

    return np


def encode_val(name, v):
    """integer-valued entries as ints; ASE default masses as MASS_CODE + Z"""
    from ase.data import atomic_masses

    f = float(v)
    if f == int(f):
        return int(f)
    if name == "masses":
        for z in SPECIES:
            if float(atomic_masses[z]) == f:
                return MASS_CODE + z
    return repr(f)


def cols_of(atoms):
    """canonical observation of atoms.arrays: [[name, dtype, trailing shape, rows]] in dict order"""
    out = []
    for name, a in atoms.arrays.items():
        rows = [[encode_val(name, v) for v in r] for r in a.reshape(len(a), -1)] if a.size else [[] for _ in range(len(a))]
        out.append([name, DT.get(str(a.dtype), str(a.dtype)), list(a.shape[1:]), rows])
    return out


def show_rows(rows):
    return ";".join(",".join(str(v) for v in r) for r in rows) if rows else "-"


def show_col(c):
    name, dt, shape, rows = c
    return f"{name}/{dt}/{'x'.join(map(str, shape)) if shape else '-'}/{show_rows(rows)}"


def parse_rows(s):
    return [] if s == "-" else [[int(v) for v in r.split(",")] for r in s.split(";")]


def parse_col(s):
    name, dt, shape, rows = s.split("/")
    return [name, dt, [] if shape == "-" else [int(x) for x in shape.split("x")], parse_rows(rows)]


def parse_atoms(line):
    w = line.split()
    if w[0] == "err":
        return {"result": "err", "exc": w[1]}
    return {"result": "ok", "cols": [parse_col(t) for t in w[1:]]}


def ints(l):
    return ",".join(str(int(i)) for i in l) if len(l) else "-"


def build_atoms(spec):
    """spec: {"numbers": [...], "cols": [[name, dtype, shape, rows]]} (positions among the cols) -> ase.Atoms"""
    np = _np()
    from ase import Atoms

    n = len(spec["numbers"])
    pos = None
    for name, dt, shape, rows in spec["cols"]:
        if name == "positions":
            pos = np.array(rows, dtype=float).reshape(n, 3)
    a = Atoms(numbers=spec["numbers"], positions=pos if pos is not None else np.zeros((n, 3)))
    for name, dt, shape, rows in spec["cols"]:
        if name in ("positions", "numbers"):
            continue
        arr = np.array(rows, dtype=NPDT[dt]).reshape((n, *shape))
        # the public setters where they exist (they store into atoms.arrays under these names)
        if name == "tags":
            a.set_tags(arr)
        elif name == "momenta":
            a.set_momenta(arr)
        elif name == "initial_charges":
            a.set_initial_charges(arr)
        elif name == "masses":
            a.set_masses(arr)
        else:
            a.set_array(name, arr)
        if a.arrays[name].dtype != arr.dtype:  # setters that coerce: store as given
            a.arrays[name] = arr
    return a


OPTIONAL = [("tags", "i", []), ("momenta", "f", [3]), ("initial_charges", "f", []), ("masses", "f", []),
            ("c2", "f", [2]), ("c22", "f", [2, 2]), ("ci", "i", []), ("cb", "b", [])]


def gen_spec(rng, n, base, names=None, dtypes=None):
    """random atoms spec with distinct integer entries (base separates two objects)"""
    numbers = [rng.choice(SPECIES) for _ in range(n)]
    cols = [["positions", "f", [3], [[base + 100 * a + k for k in range(3)] for a in range(n)]]]
    code = 1
    for name, dt, shape in OPTIONAL:
        code += 1
        if names is None:
            if rng.random() < 0.45:
                continue
        elif name not in names:
            continue
        dt = (dtypes or {}).get(name, dt)
        w = 1
        for s in shape:
            w *= s
        if dt == "b":
            rows = [[rng.randrange(2) for _ in range(w)] for a in range(n)]
        else:
            sign = -1 if (name == "momenta" and rng.random() < 0.3) else 1
            rows = [[sign * (base + 1000 * code + 10 * a + k) for k in range(w)] for a in range(n)]
        cols.append([name, dt, shape, rows])
    return {"numbers": numbers, "cols": cols}


def as_index(idx, kind):
    np = _np()
    return np.array(idx, dtype=int) if kind == "ndarray" else list(idx)


def norm(idx, n):
    out = []
    for i in idx:
        if -n <= i < n:
            out.append(i % n)
        else:
            return None
    return out


# ----------------------------------------------------------------------------------------------- suite 1


class RoundTrip(common.Suite):
    """t = a[idx]; del a[idx]; reinsert_atoms(a, t, idx) == a.copy()"""

    name = "reinsert-roundtrip"

    def cases(self, rng, tier):
        nrand = 250 if tier == "quick" else 8000
        out = []
        # exhaustive: every subset of 4 atoms in every order (64 ordered subsets), all arrays present
        spec = gen_spec(rng, 4, 0, names=[n for n, _, _ in OPTIONAL])
        for k in range(5):
            for sub in itertools.permutations(range(4), k):
                out.append({"atoms": spec, "idx": list(sub), "kind": "list"})
        for _ in range(nrand):
            n = rng.choice([0, 1, 1, 2, 3, 4, 5, 6, 7, 8, 9, 12])
            spec = gen_spec(rng, n, 0)
            r = rng.random()
            if r < 0.1:
                k = 0
            elif r < 0.2:
                k = n
            else:
                k = rng.randint(0, n)
            idx = rng.sample(range(n), k)
            r = rng.random()
            if r < 0.15:
                idx.sort()
            elif r < 0.25:
                idx.sort(reverse=True)
            if rng.random() < 0.3:
                idx = [i - n if rng.random() < 0.5 else i for i in idx]
            out.append({"atoms": spec, "idx": idx, "kind": rng.choice(["list", "ndarray"])})
        return out

    def real(self, case):
        import quansino.mc  # noqa: F401  (import order: see C08)
        from quansino.utils.atoms import reinsert_atoms

        a = build_atoms(case["atoms"])
        original = a.copy()
        idx = as_index(case["idx"], case["kind"])
        try:
            taken = a[idx]
            del a[idx]
            obs = {"original": cols_of(original), "taken": cols_of(taken), "kept": cols_of(a)}
            reinsert_atoms(a, taken, idx)
        except Exception as e:  # reported by the oracle (also when replayed)
            return {"exception": type(e).__name__, "message": str(e)[:300]}
        obs["final"] = cols_of(a)
        obs["len"] = len(a)
        return obs

    def model_lines(self, case):
        a = build_atoms(case["atoms"])
        cols = " ".join(show_col(c) for c in cols_of(a))
        i = ints(case["idx"])
        return [f"at.pick {i} {cols}", f"at.del {i} {cols}", f"at.rt {i} - {cols}"]

    def model_obs(self, case, outs):
        t, k, f = (parse_atoms(o) for o in outs)
        if "cols" not in t or "cols" not in k or "cols" not in f:
            return {"taken": t, "kept": k, "final": f}
        return {"taken": t["cols"], "kept": k["cols"], "final": f["cols"]}

    def oracle(self, case, obs):
        if "exception" in obs:
            return [("reinsert:roundtrip-exception:" + obs["exception"], obs["message"])]
        out = []
        orig = {c[0]: c[1:] for c in obs["original"]}
        fin = {c[0]: c[1:] for c in obs["final"]}
        if obs["len"] != len(case["atoms"]["numbers"]):
            out.append(("reinsert:roundtrip-length", f"{obs['len']} atoms after re-insertion"))
        if set(orig) != set(fin):
            out.append(("reinsert:roundtrip-arrays", f"arrays {sorted(fin)} != {sorted(orig)}"))
        for name in orig:
            if name in fin and orig[name] != fin[name]:
                what = "dtype" if orig[name][0] != fin[name][0] else "values"
                out.append((f"reinsert:roundtrip-{what}", f"array {name}: {fin[name]} != original {orig[name]} "
                                                           f"for idx {case['idx']}"))
        return out

    def classify(self, case, obs):
        idx = case["idx"]
        n = len(case["atoms"]["numbers"])
        if not idx:
            return None
        nn = norm(idx, n) or []
        order = "sorted" if nn == sorted(nn) else ("reversed" if nn == sorted(nn, reverse=True) else "unsorted")
        return f"k={'all' if len(idx) == n else ('1' if len(idx) == 1 else 'some')},{order},neg={any(i < 0 for i in idx)}"


# ----------------------------------------------------------------------------------------------- suite 2


def cast(v, src, dst):
    if src == dst:
        return v
    if dst == "b":
        return 0 if v == 0 else 1
    return v


class General(common.Suite):
    """reinsert_atoms(atoms, new_atoms, idx) with independent objects, and a malformed stream"""

    name = "reinsert-general"

    def cases(self, rng, tier):
        nrand = 300 if tier == "quick" else 10000
        allnames = [n for n, _, _ in OPTIONAL]
        out = []
        for _ in range(nrand):
            nk = rng.choice([0, 1, 1, 2, 3, 4, 5, 6])
            nt = rng.choice([0, 1, 1, 2, 2, 3, 4])
            mode = rng.random()
            if mode < 0.35:  # same arrays
                names = [x for x in allnames if rng.random() < 0.5]
                kn, tn = names, names
            elif mode < 0.65:  # new_atoms has more (second loop)
                kn = [x for x in allnames if rng.random() < 0.4]
                tn = kn + [x for x in allnames if x not in kn and rng.random() < 0.5]
                rng.shuffle(tn)
            elif mode < 0.8:  # only masses may be missing in new_atoms (get_masses())
                kn = [x for x in allnames if rng.random() < 0.5 or x == "masses"]
                tn = [x for x in kn if x != "masses"]
            else:  # anything
                kn = [x for x in allnames if rng.random() < 0.5]
                tn = [x for x in allnames if rng.random() < 0.5]
            dts = {}
            if rng.random() < 0.4:
                for x in ("tags", "ci", "cb", "c2", "initial_charges"):
                    if rng.random() < 0.5:
                        dts[x] = rng.choice("fib")
            kept = gen_spec(rng, nk, 0, names=kn)
            taken = gen_spec(rng, nt, 50000, names=tn, dtypes=dts)
            total = nk + nt
            idx = rng.sample(range(total), nt)
            r = rng.random()
            if r < 0.08 and idx:
                idx[rng.randrange(len(idx))] = rng.choice(idx)  # repeated
            elif r < 0.14:
                idx = idx + [rng.randrange(total + 1)]  # one too many
            elif r < 0.2 and idx:
                idx = idx[:-1]  # one too few
            elif r < 0.26 and idx:
                idx[rng.randrange(len(idx))] = rng.choice([total, total + 3, -total - 1])  # out of range
            elif r < 0.30 and total:
                idx = [rng.randrange(total) for _ in range(rng.randint(0, 4))]  # anything
            if rng.random() < 0.25:
                idx = [i - total if rng.random() < 0.5 and i >= 0 else i for i in idx]
            out.append({"kept": kept, "taken": taken, "idx": idx, "kind": rng.choice(["list", "ndarray"])})
        return out

    def valid(self, case):
        nk, nt = len(case["kept"]["numbers"]), len(case["taken"]["numbers"])
        nn = norm(case["idx"], nk + nt)
        return nn is not None and len(set(nn)) == len(nn) == nt

    def real(self, case):
        import quansino.mc  # noqa: F401
        from quansino.utils.atoms import reinsert_atoms

        a = build_atoms(case["kept"])
        t = build_atoms(case["taken"])
        try:
            reinsert_atoms(a, t, as_index(case["idx"], case["kind"]))
        except (IndexError, ValueError, AttributeError, TypeError) as e:
            return {"result": "err", "exc": type(e).__name__, "message": str(e)[:200]}
        return {"result": "ok", "cols": cols_of(a)}

    def model_lines(self, case):
        a = build_atoms(case["kept"])
        t = build_atoms(case["taken"])
        ck, ct = cols_of(a), cols_of(t)
        dm = ints([MASS_CODE + z for z in case["taken"]["numbers"]])
        return [f"at.reins {ints(case['idx'])} {dm} {len(ck)} " + " ".join(show_col(c) for c in ck + ct)]

    def model_obs(self, case, outs):
        return parse_atoms(outs[0])

    def compare(self, case, real, model):
        if "exception" in real:
            return [f"real raised {real['exception']}: {real['message']}; model {model['result']}"]
        if real["result"] != model["result"]:
            return [f"real {real['result']} {real.get('exc', '')} / model {model['result']} {model.get('exc', '')}"]
        if real["result"] == "err":
            return [] if real["exc"] == model["exc"] else [f"exception real {real['exc']} model {model['exc']}"]
        return [] if real["cols"] == model["cols"] else [f"arrays: real {real['cols']} model {model['cols']}"]

    def oracle(self, case, obs):
        """for index SETS that fit: kept rows in order at the other positions, re-inserted rows at their indices,
        dtype of the array in atoms; arrays new to atoms zero-filled with new_atoms' dtype (read off reinsert_atoms' doc
        and the property; written without the model)"""
        if not self.valid(case):
            return []
        kept = {c[0]: c for c in cols_of(build_atoms(case["kept"]))}
        taken = {c[0]: c for c in cols_of(build_atoms(case["taken"]))}
        missing = [n for n in kept if n not in taken and n != "masses"]
        if missing:
            return []  # the property speaks of atoms that were deleted from `atoms`: they carry all its arrays
        if "exception" in obs or obs["result"] != "ok":
            return [("reinsert:general-exception:" + str(obs.get("exception", obs.get("exc"))), str(obs.get("message")))]
        nk, nt = len(case["kept"]["numbers"]), len(case["taken"]["numbers"])
        nn = norm(case["idx"], nk + nt)
        got = {c[0]: c for c in obs["cols"]}
        out = []
        if set(got) != set(kept) | set(taken):
            out.append(("reinsert:general-arrays", f"{sorted(got)}"))
        for name in got:
            if name in kept:
                _, dt, shape, rows = kept[name]
                if name in taken:
                    src, trow = taken[name][1], taken[name][3]
                else:
                    src, trow = "f", [[MASS_CODE + z] for z in case["taken"]["numbers"]]
                rest = iter(rows)
                exp = [None] * (nk + nt)
                for j, p in enumerate(nn):
                    exp[p] = [cast(v, src, dt) for v in trow[j]]
                exp = [e if e is not None else next(rest) for e in exp]
            elif name in taken:
                _, dt, shape, trow = taken[name]
                w = 1
                for s in shape:
                    w *= s
                exp = [[0] * w for _ in range(nk + nt)]
                for j, p in enumerate(nn):
                    exp[p] = trow[j]
            else:
                continue
            if got[name][1] != dt:
                out.append(("reinsert:general-dtype", f"{name}: {got[name][1]} expected {dt}"))
            if got[name][3] != exp:
                out.append(("reinsert:general-values", f"{name}: {got[name][3]} expected {exp} idx {case['idx']}"))
        return out

    def classify(self, case, obs):
        if obs.get("result") == "err":
            return "raises:" + obs["exc"]
        if "exception" in obs:
            return "exception"
        kn = {c[0] for c in case["kept"]["cols"]}
        tn = {c[0] for c in case["taken"]["cols"]}
        if not case["idx"]:
            return None
        return f"ok,new-arrays={bool(tn - kn)},default-masses={'masses' in kn - tn},valid={self.valid(case)}"


# ----------------------------------------------------------------------------------------------- suite 3


class Rows(common.Suite):
    """the list-level functions on one integer array (`ri.delete`, `ri.pick`, `ri.reinsert`)"""

    name = "rows"

    def cases(self, rng, tier):
        nrand = 150 if tier == "quick" else 3000
        for _ in range(nrand):
            n = rng.randint(1, 8)
            w = rng.randint(1, 3)
            rows = [[10 * a + k for k in range(w)] for a in range(n)]
            idx = rng.sample(range(n), rng.randint(0, n))
            yield {"rows": rows, "idx": idx}

    def real(self, case):
        import quansino.mc  # noqa: F401
        from ase import Atoms
        from quansino.utils.atoms import reinsert_atoms

        np = _np()
        n = len(case["rows"])
        a = Atoms(numbers=[1] * n, positions=np.zeros((n, 3)))
        a.set_array("r", np.array(case["rows"], dtype=int))
        t = a[case["idx"]]
        del a[case["idx"]]
        obs = {"taken": t.arrays["r"].tolist(), "kept": a.arrays["r"].tolist()}
        try:
            reinsert_atoms(a, t, case["idx"])
        except Exception as e:
            return {"exception": type(e).__name__, "message": str(e)[:300]}
        obs["final"] = a.arrays["r"].tolist()
        return obs

    def model_lines(self, case):
        np = _np()
        r, i = show_rows(case["rows"]), ints(case["idx"])
        rows = np.array(case["rows"], dtype=int)
        mask = np.ones(len(rows), bool)
        mask[case["idx"]] = False
        kept = rows[mask].tolist()
        taken = [case["rows"][j] for j in case["idx"]]
        return [f"ri.pick {r} {i}", f"ri.delete {r} {i}", f"ri.reinsert {show_rows(kept)} {show_rows(taken)} {i}"]

    def model_obs(self, case, outs):
        t, k, f = (o.split() for o in outs)
        if t[0] != "ok" or k[0] != "ok" or f[0] != "ok":
            return {"taken": t, "kept": k, "final": f}
        return {"taken": parse_rows(t[1]), "kept": parse_rows(k[1]), "final": parse_rows(f[1])}

    def oracle(self, case, obs):
        if "exception" in obs:
            return [("reinsert:rows-exception:" + obs["exception"], obs["message"])]
        return [] if obs["final"] == case["rows"] else [("reinsert:rows-values", f"{obs['final']} != {case['rows']}")]

    def classify(self, case, obs):
        return f"k={len(case['idx'])}" if case["idx"] else None


# ----------------------------------------------------------------------------------------------- suite 4


SYMS = {1: "H", 6: "C", 8: "O", 29: "Cu", 79: "Au"}
RADII = {1: 0.45, 6: 0.75, 8: 0.7, 29: 1.3, 79: 1.4}


def unit(rng):
    import math

    while True:
        v = [rng.uniform(-1, 1) for _ in range(3)]
        r = math.sqrt(sum(x * x for x in v))
        if 0.1 < r <= 1:
            return [x / r for x in v]


def gen_box(rng):
    """a cell, pbc flags and molecules placed at random (also across the cell boundary, wrapped or not)"""
    np = _np()
    small = rng.random() < 0.15
    L = [rng.uniform(3.0, 4.5) if small else rng.uniform(6.0, 10.0) for _ in range(3)]
    cell = np.diag(L)
    if rng.random() < 0.3:  # mild skew
        cell[1, 0] = rng.uniform(-0.2, 0.2) * L[0]
        cell[2, 0] = rng.uniform(-0.2, 0.2) * L[0]
        cell[2, 1] = rng.uniform(-0.2, 0.2) * L[1]
    pbc = rng.choice([[True] * 3, [True] * 3, [False] * 3, [True, True, False], [False, True, False]])
    numbers, pos = [], []
    nmol = rng.randint(0, 3) if small else rng.randint(0, 7)
    for _ in range(nmol):
        frac = [rng.choice([rng.random(), rng.uniform(-0.03, 0.03), rng.uniform(0.97, 1.03)]) for _ in range(3)]
        c = np.array(frac) @ cell
        kind = rng.choice(["water", "water", "dimer", "dimer", "atom", "atom", "metal"])
        if kind == "water":
            numbers += [8, 1, 1]
            pos += [c, c + 0.96 * np.array(unit(rng)), c + 0.96 * np.array(unit(rng))]
        elif kind == "dimer":
            z = rng.choice([1, 8, 6])
            numbers += [z, z]
            pos += [c, c + rng.uniform(0.7, 1.3) * np.array(unit(rng))]
        elif kind == "metal":
            numbers += [rng.choice([29, 79])]
            pos += [c]
        else:
            numbers += [rng.choice([1, 6, 8])]
            pos += [c]
    if numbers and rng.random() < 0.6:  # shuffle the atom order so that components interleave
        perm = list(range(len(numbers)))
        rng.shuffle(perm)
        numbers = [numbers[p] for p in perm]
        pos = [pos[p] for p in perm]
    pos = np.array(pos, dtype=float).reshape(len(numbers), 3)
    if len(numbers) and rng.random() < 0.5:  # wrap into the cell: bonds now cross the boundary
        f = np.linalg.solve(cell.T, pos.T).T
        for d in range(3):
            if pbc[d]:
                f[:, d] %= 1.0
        pos = f @ cell
    if len(numbers) >= 2 and rng.random() < 0.08:
        # two atoms on the very same point (a dummy / charge site on a nucleus, superposed structures): distance exactly 0 is
        # within every positive cutoff — they are bonded
        i, j = rng.sample(range(len(numbers)), 2)
        pos[j] = pos[i]
    return {"cell": cell.tolist(), "pbc": list(pbc), "numbers": numbers, "positions": pos.tolist()}


def gen_cutoff(rng, numbers):
    r = rng.random()
    if r < 0.4 or not numbers:
        return {"kind": "float", "value": rng.uniform(0.8, 1.7)}
    if r < 0.65:
        s = rng.uniform(0.8, 1.2)
        return {"kind": rng.choice(["list", "tuple"]), "value": [s * RADII[z] * rng.uniform(0.9, 1.1) for z in numbers]}
    zs = sorted(set(numbers))
    pairs = [(a, b) for a in zs for b in zs if a <= b]
    val = []
    for a, b in pairs:
        if rng.random() < 0.75:
            key = [a, b] if rng.random() < 0.5 else [b, a]
            val.append([SYMS[key[0]], SYMS[key[1]], rng.uniform(0.8, 1.2) * (RADII[a] + RADII[b])])
    if not val:
        a = zs[0]
        val.append([SYMS[a], SYMS[a], 1.0])
    if rng.random() < 0.15:  # the same species pair under its second key: the later entry wins
        a, b, c = rng.choice(val)
        val.append([b, a, c * rng.uniform(0.7, 1.3)])
    return {"kind": "dict", "value": val}


def pair_cutoff(cut, numbers, i, j):
    if cut["kind"] == "float":
        return cut["value"]
    if cut["kind"] in ("list", "tuple"):
        return cut["value"][i] + cut["value"][j]
    best = None
    for a, b, c in cut["value"]:
        if {a, b} == {SYMS[numbers[i]], SYMS[numbers[j]]} and (a == b) == (numbers[i] == numbers[j]):
            best = c  # a later key for the same pair overrides (dict semantics: keys (a,b) and (b,a) are distinct keys)
    return best


def mic_distances(box):
    """minimum over periodic images of |r_j - r_i| for all pairs (own implementation, shifts -2..2)"""
    np = _np()
    cell = np.array(box["cell"], dtype=float)
    pos = np.array(box["positions"], dtype=float).reshape(len(box["numbers"]), 3)
    rngs = [range(-2, 3) if p else range(0, 1) for p in box["pbc"]]
    shifts = np.array([[a, b, c] for a in rngs[0] for b in rngs[1] for c in rngs[2]], dtype=float) @ cell
    n = len(pos)
    d = np.zeros((n, n))
    for i in range(n):
        for j in range(n):
            v = pos[j] - pos[i] + shifts
            d[i, j] = np.sqrt((v * v).sum(axis=1)).min()
    return d


def components(box, cut):
    """union-find over bonded pairs; returns (components sorted by smallest member, margin to the cutoffs)"""
    n = len(box["numbers"])
    d = mic_distances(box)
    parent = list(range(n))

    def find(x):
        while parent[x] != x:
            parent[x] = parent[parent[x]]
            x = parent[x]
        return x

    margin = 1.0
    nb = 0
    for i in range(n):
        for j in range(i + 1, n):
            c = pair_cutoff(cut, box["numbers"], i, j)
            if c is None:
                continue
            margin = min(margin, abs(d[i, j] - c))
            if d[i, j] < c:
                nb += 1
                parent[find(i)] = find(j)
    groups = {}
    for i in range(n):
        groups.setdefault(find(i), []).append(i)
    return sorted(groups.values(), key=min), margin, nb


def crosses_boundary(box, cut):
    """some bond exists only through a periodic image"""
    np = _np()
    d = mic_distances(box)
    pos = np.array(box["positions"], dtype=float).reshape(len(box["numbers"]), 3)
    for i in range(len(pos)):
        for j in range(i + 1, len(pos)):
            c = pair_cutoff(cut, box["numbers"], i, j)
            if c is not None and d[i, j] < c <= float(np.linalg.norm(pos[j] - pos[i])):
                return True
    return False


def size_range(req, n):
    if req is None:
        return (0, n)
    if isinstance(req, int):
        return (req, req)
    return (req[0], req[1])


class Search(common.Suite):
    name = "search-molecules"

    def cases(self, rng, tier):
        nrand = 350 if tier == "quick" else 10000
        out = []
        while len(out) < nrand:
            box = gen_box(rng)
            n = len(box["numbers"])
            cut = gen_cutoff(rng, box["numbers"])
            comps, margin, _ = components(box, cut)
            if margin < 1e-6:
                continue  # a distance on the cutoff: < versus <= would be decided by rounding
            r = rng.random()
            if r < 0.3:
                req = None
            elif r < 0.65:
                req = rng.choice([0, 1, 2, 3, 3, 4, 6])
            else:
                lo = rng.randint(0, 3)
                req = [lo, lo + rng.randint(0, 3)] if rng.random() < 0.85 else [3, 1]
            r = rng.random()
            if r < 0.25:
                dflt = None
            elif r < 0.4:
                dflt = [-1] * n
            elif r < 0.6:
                dflt = [rng.randint(-9, -1) for _ in range(n)]
            elif r < 0.75:
                dflt = [rng.choice([-1, -2, 100 + rng.randrange(50)]) for _ in range(n)]
            elif r < 0.92:
                dflt = [rng.randrange(-2, max(n, 1)) for _ in range(n)]  # may collide with labels
            else:
                m = rng.choice([0, 1, max(n - 1, 0), n + 1, n + 3])
                dflt = [rng.randint(-5, -1) for _ in range(m)]
            out.append({"box": box, "cutoff": cut, "required_size": req, "default": dflt,
                        "default_kind": rng.choice(["list", "ndarray", "ndarray", "readonly"])})
        return out

    def build(self, case):
        from ase import Atoms

        b = case["box"]
        return Atoms(numbers=b["numbers"], positions=_np().array(b["positions"], dtype=float).reshape(-1, 3),
                     cell=b["cell"], pbc=b["pbc"])

    def py_cutoff(self, case):
        c = case["cutoff"]
        if c["kind"] == "float":
            return c["value"]
        if c["kind"] == "list":
            return list(c["value"])
        if c["kind"] == "tuple":
            return tuple(c["value"])
        return {(a, b): v for a, b, v in c["value"]}

    def real(self, case):
        import quansino.mc  # noqa: F401
        from quansino.utils.atoms import search_molecules

        np = _np()
        atoms = self.build(case)
        req = case["required_size"]
        req = tuple(req) if isinstance(req, list) else req
        if isinstance(req, int) and not isinstance(req, bool) and len(case["box"]["numbers"]) % 2 == 1:
            req = np.int64(req)     # a size that comes out of a numpy computation is an integer like any other
        d = case["default"]
        if d is not None:
            d = np.array(d, dtype=int) if case["default_kind"] in ("ndarray", "readonly") else list(d)
            if case["default_kind"] == "readonly":
                d.flags.writeable = False      # "any default array": a view the caller may not write to
        before = None if d is None else [int(x) for x in d]
        # another frame on the very same coordinates (same cell, same cutoff) but with the species in another order has just
        # been searched: the answer for THIS frame is about this frame's species
        try:
            decoy = atoms.copy()
            decoy.numbers = atoms.numbers[::-1].copy()
            search_molecules(decoy, self.py_cutoff(case), required_size=req)
        except Exception:  # noqa: BLE001  (what the decoy does is not the subject)
            pass
        try:
            out = search_molecules(atoms, self.py_cutoff(case), required_size=req, default_array=d)
        except IndexError as e:
            return {"result": "err", "exc": "IndexError", "message": str(e)[:200]}
        except Exception as e:  # reported by the oracle (also when replayed)
            return {"exception": type(e).__name__, "message": str(e)[:300]}
        labels = [int(x) if float(x) == int(x) else float(x) for x in np.asarray(out).reshape(-1)]
        return {"result": "ok", "labels": labels, "pairs": self.bonded_pairs(case, atoms),
                "caller_array_mutated": (d is not None and [int(x) for x in d] != before)}

    def bonded_pairs(self, case, atoms=None):
        """the (i, j) pairs ASE's neighbour list reports for this geometry and cutoff — the very call search_molecules
        makes; the model computes the connected components from them (`RI.componentsOf`, theorems `componentsOf_conn`,
        `searchG_same_label_iff`), so the harness's own union-find is no longer an input of the model"""
        from ase.neighborlist import neighbor_list

        atoms = atoms if atoms is not None else self.build(case)
        try:
            i, j = neighbor_list("ij", atoms, cutoff=self.py_cutoff(case), self_interaction=False)
        except Exception:  # noqa: BLE001
            return None
        return sorted({(int(a), int(b)) for a, b in zip(i, j)})

    def model_lines(self, case):
        n = len(case["box"]["numbers"])
        comps, _, _ = components(case["box"], case["cutoff"])
        req = case["required_size"]
        rs = "N" if req is None else (f"I:{req}" if isinstance(req, int) else f"P:{req[0]}:{req[1]}")
        d = case["default"]
        ds = "N" if d is None else ints(d)
        pairs = self.bonded_pairs(case)
        ps = "-" if not pairs else ",".join(f"{a}:{b}" for a, b in pairs)
        return [f"mol {n} {show_rows(comps)} {rs} {ds}", f"molg {n} {ps} {rs} {ds}"]

    def model_obs(self, case, outs):
        def parse(o):
            w = o.split()
            if w[0] == "err":
                return {"result": "err", "exc": w[1]}
            return {"result": "ok", "labels": [] if w[1] == "-" else [int(x) for x in w[1].split(",")]}

        m = parse(outs[0])
        m["graph"] = parse(outs[1])
        return m

    def compare(self, case, real, model):
        if "exception" in real:
            return [f"real raised {real['exception']}: {real['message']}; model {model}"]
        if real["result"] != model["result"]:
            return [f"real {real} / model {model}"]
        g = model.get("graph", {})
        if g.get("result") != real["result"]:
            return [f"real {real['result']} / graph model {g}"]
        if real["result"] == "err":
            return []
        d = [] if real["labels"] == model["labels"] else [f"labels real {real['labels']} model {model['labels']}"]
        if g.get("labels") != real["labels"]:
            d.append(f"labels real {real['labels']} / model with its own connected components {g.get('labels')}")
        return d

    def oracle(self, case, obs):
        n = len(case["box"]["numbers"])
        d = case["default"]
        if d is not None and len(d) != n:
            return []  # the property speaks of a default entry per atom
        if "exception" in obs or obs.get("result") == "err":
            exc = obs.get("exception", obs.get("exc"))
            if d is not None:
                return [(f"search:default-array-raises:{exc}", f"default_array={d} ({case['default_kind']}): {obs.get('message')}")]
            return [(f"search:exception:{exc}", str(obs.get("message")))]
        comps, _, _ = components(case["box"], case["cutoff"])
        lo, hi = size_range(case["required_size"], n)
        lab = obs["labels"]
        if len(lab) != n:
            return [("search:length", f"{len(lab)} labels for {n} atoms")]
        base = d if d is not None else [-1] * n
        out = []
        if obs.get("caller_array_mutated"):
            # the labels were written into the caller's own array: a template reused for the next search no longer
            # holds "the supplied default"
            out.append(("search:default-array-overwritten", f"default_array ({case['default_kind']}) {d} was modified in place"))
        adm = [c for c in comps if lo <= len(c) <= hi]
        for c in comps:
            if not (lo <= len(c) <= hi):
                bad = [i for i in c if lab[i] != base[i]]
                if bad:
                    out.append(("search:default-not-kept", f"atoms {bad} of the non-admitted component {c}: labels "
                                                            f"{[lab[i] for i in bad]} defaults {[base[i] for i in bad]}"))
        for c in adm:
            if len({lab[i] for i in c}) != 1 or lab[c[0]] < 0:
                out.append(("search:component-split", f"admitted component {c} labelled {[lab[i] for i in c]}"))
        seen = {}
        for c in adm:
            seen.setdefault(lab[c[0]], []).append(c)
        for v, cs in seen.items():
            if len(cs) > 1:
                out.append(("search:components-merged", f"label {v} on components {cs}"))
        return out[:3]

    def classify(self, case, obs):
        comps, _, nb = components(case["box"], case["cutoff"])
        if nb == 0:
            return None
        n = len(case["box"]["numbers"])
        lo, hi = size_range(case["required_size"], n)
        nadm = sum(1 for c in comps if lo <= len(c) <= hi)
        d = case["default"]
        dk = "none" if d is None else ("wronglen" if len(d) != n else ("neg" if all(x < 0 for x in d) else "nonneg"))
        filt = "all" if nadm == len(comps) else ("none" if nadm == 0 else "some")
        return (f"cut={case['cutoff']['kind']},admitted={filt},default={dk},"
                f"image-bond={crosses_boundary(case['box'], case['cutoff'])}")


def suites(tier):
    return [RoundTrip(), General(), Rows(), Search()]
