"""C04 — energies used for acceptance belong to the configuration they describe (DESIGN §6 C04)."""
from __future__ import annotations

import numpy as np

import common
import machine
from props import c03

ID = "C04"
LEAN_MODULES = ["QProps.C04", "QProps.C04h", "QProps.C04a"]
THEOREMS = [
    "MC.ainv_validate",
    "MC.ainv_trial_of",
    "MC.forces_history",
    "MC.forces_history_grand",
    "MC.forces_stale_when_aliased",
    "MC.energy_history",
    "MC.energy_history_grand",
    "MC.einv_trial_composite_exchange",
    "MC.evals_trial_of",
    "MC.evals_history",
    "MC.getEnergy_spec",
    "MC.getEnergy_free",
    "MC.stateless_always_fresh",
    "MC.einv_validate",
    "MC.einv_trial",
    "MC.einv_trial_exchange",
    "MC.einv_trial_grand_pos",
    "MC.einv_trial_grand_of",
    "MC.einv_trial_of",
    "MC.einv_trial_cell",
    "MC.einv_trial_ham",
    "MC.einv_trial_pos_any",
    "MC.revertCalc_fresh_aux",
    "MC.revertCalc_fresh_strip",
    "MC.one_eval_per_trial",
    "MC.reject_and_log_free",
    "MC.revertCalc_fresh_pos",
    "MC.peratom_unusable_after_rejected_exchange",
]
RULE = ("scripted histories (as C03) on real Canonical/HamiltonianCanonical/Isobaric/Isotension/GrandCanonical objects with four "
        "ASE-protocol calculators (stateless, result-caching, result-caching with arrays written in place into one buffer as ase's EMT does, "
        "per-atom internal state), a logger-style energy read and a get_forces() read after every "
        "trial, an independent from-scratch evaluation with a fresh calculator after every trial; non-trivial = a history with at "
        "least one rejected trial followed by another trial; distinct = distinct (history, calculator style)")
ASSUMPTIONS = c03.ASSUMPTIONS + ["calculators follow ASE's get_property/check_state/reset/calculate protocol",
                                 "the energy is a function of positions, numbers and cell (what ASE's compare_atoms watches)"]

STYLES = ["caching", "inplace", "stateless", "peratom", "caching", "inplace"]


def calc_factory(style):
    from ase.calculators.calculator import Calculator, all_changes

    class StyleCalc(Calculator):
        implemented_properties = ["energy", "forces"]

        def __init__(self):
            super().__init__()
            self.nevals = 0
            self.state = None
            self.fbuf = None      # style "inplace": one persistent force buffer, written in place (as ase's EMT does)

        def check_state(self, atoms, tol=1e-15):
            if style == "stateless":
                return list(all_changes)
            return super().check_state(atoms, tol)

        def calculate(self, atoms=None, properties=None, system_changes=all_changes):
            super().calculate(atoms, properties, system_changes)
            if style == "peratom":
                if self.state is None or "numbers" in system_changes:
                    self.state = np.zeros(len(self.atoms))
                if len(self.state) != len(self.atoms):
                    raise ValueError("stale per-atom state")
            self.nevals += 1
            p = self.atoms.positions
            if style == "inplace":
                if self.fbuf is None or len(self.fbuf) != len(p):
                    self.fbuf = np.empty((len(p), 3))
                self.fbuf[:] = -2 * p
                self.results["energy"] = float((p**2).sum() + self.atoms.cell.array.trace())
                self.results["forces"] = self.fbuf
            else:
                self.results = {"energy": float((p**2).sum() + self.atoms.cell.array.trace()), "forces": -2 * p}

    return StyleCalc


def force_sum(f):
    """the wire checksum of a force array (`MC.forceSum`)"""
    return machine._int(sum((i + 1) * (v[0] + 2 * v[1] + 3 * v[2]) for i, v in enumerate(f)))


def fresh_forces(atoms):
    a = atoms.copy()
    a.calc = calc_factory("caching")()
    return a.get_forces()


def fresh_energy(atoms):
    a = atoms.copy()
    a.calc = calc_factory("caching")()
    return a.get_potential_energy()


class EnergyHistories(common.Suite):
    name = "energy-histories"

    def cases(self, rng, tier):
        n = 900 if tier == "quick" else 15000
        enss = ["canonical", "isobaric", "grand", "grand", "hamiltonian"]
        for i in range(n):
            case = machine.gen_case(rng, enss[i % len(enss)], tier)
            case["style"] = STYLES[(i // len(enss)) % len(STYLES)]
            case["warm"] = rng.random() < 0.3
            if case["warm"] and case["trials"]:
                case["trials"][0]["verdict"] = rng.random() < 0.3  # mostly: the first completed trial is rejected
            yield case

    def real(self, case):
        def warm(sim):
            # what `from_dict` on a restart file does: the reference energy is known, the calculator is fresh
            if hasattr(sim.mc.context, "last_potential_energy"):
                sim.mc.context.last_potential_energy = fresh_energy(sim.atoms)

        sim = machine.Sim(case, calc_factory(case["style"]), pre_validate=warm if case.get("warm") else None)
        out = {"lines": [], "outcomes": [], "checks": []}
        ev0 = sim.calc.nevals - (1 if case.get("warm") else 0) * 0
        for k, tr in enumerate(case["trials"]):
            ev_before = sim.calc.nevals
            try:
                o = sim.run_trial(tr)
                reported = sim.atoms.get_potential_energy()  # what the logger reads after the step
                n_probe = sim.calc.nevals
                forces = sim.atoms.get_forces()               # … and any other cached result
                raw = sim.atoms.get_forces(apply_constraint=False)
                if case["style"] == "stateless":
                    sim.calc.nevals = n_probe                 # our own probe, not the simulation's evaluation
            except Exception as ex:  # noqa: BLE001
                import traceback

                out["exception"] = type(ex).__name__
                out["message"] = str(ex)[:300]
                out["exception_at"] = k
                out["trace"] = traceback.format_exc()[-900:]
                break
            c = sim.mc.context
            le = c.last_potential_energy
            out["outcomes"].append(o)
            out["lines"].append(sim.snapshot(o) + f" e={machine._int(reported)} le={machine._int(le)} "
                                f"ev={sim.calc.nevals - ev0 + 1} br=0 fk={force_sum(raw)}")
            out["checks"].append({
                "reported": float(reported), "reference": float(le), "fresh": float(fresh_energy(sim.atoms)),
                "last_positions_ok": bool(np.array_equal(c.last_positions, sim.atoms.positions)),
                "last_cell_ok": (not hasattr(c, "last_cell")) or bool(np.array_equal(np.asarray(c.last_cell), sim.atoms.cell.array)),
                "devals": sim.calc.nevals - ev_before,
                "forces_dev": float(np.abs(forces - fresh_forces(sim.atoms)).max()) if len(sim.atoms) else 0.0,
                "cached_results_energy": sim.calc.results.get("energy"),
                "calc_atoms_match": sim.calc.atoms is not None and len(sim.calc.atoms) == len(sim.atoms)
                and bool(np.array_equal(sim.calc.atoms.positions, sim.atoms.positions)),
            })
        return out

    def model_lines(self, case):
        line = machine.model_line(case)
        return ["mc " + case["style"] + " 1 " + line[len("mm "):]]   # style "inplace": caching + aliased result arrays

    def model_obs(self, case, outs):
        return {"lines": outs[0].split(" | ")}

    def compare(self, case, real, model):
        rl, ml = real.get("lines", []), model["lines"]
        for k, (r, m) in enumerate(zip(rl, ml)):
            if r != m:
                return [f"trial {k}: real  {r}", f"trial {k}: model {m}"]
        if "exception" in real:
            k = real["exception_at"]
            if k < len(ml) and " br=1" in ml[k]:
                return []  # the model predicts the unusable calculator at this very trial
            return [f"real code raised {real['exception']} in trial {k}: {real['message']}; model: {ml[k:k + 1]}"]
        if len(rl) != len(ml):
            return [f"{len(rl)} real trials vs {len(ml)} model trials"]
        return []

    def oracle(self, case, obs):
        out = []
        style = case["style"]
        if "exception" in obs:
            k = obs["exception_at"]
            ts = c03.trial_sig(case, k)
            if "stale per-atom state" in obs["message"]:
                out.append((f"calc:per-atom-state-unusable:{case['ens']}", f"trial {k}: the calculator raised on its next evaluation: {obs['message']}"))
            else:
                out.append((f"exception:{ts}:{obs['exception']}", f"trial {k}: " + obs["message"] + obs.get("trace", "")[-500:]))
        for k, ch in enumerate(obs["checks"]):
            ts = c03.trial_sig(case, k)
            o = obs["outcomes"][k]
            what = {"T": "accepted", "F": "rejected", "N": "failed"}[o]
            if ch["reported"] != ch["fresh"]:
                out.append((f"energy:reported-stale:{ts}:{what}:{style}", f"trial {k}: reports {ch['reported']}, from scratch {ch['fresh']}"))
            if ch["reference"] != ch["fresh"]:
                out.append((f"energy:reference-stale:{ts}:{what}:{style}", f"trial {k}: reference {ch['reference']}, from scratch {ch['fresh']}"))
            if ch["forces_dev"] != 0.0:
                out.append((f"results:forces-of-another-configuration:{ts}:{what}:{style}",
                            f"trial {k}: atoms.get_forces() differs from a from-scratch evaluation by {ch['forces_dev']}"))
            if not ch["last_positions_ok"] or not ch["last_cell_ok"]:
                out.append((f"energy:remembered-geometry:{ts}:{what}", f"trial {k}: remembered positions/cell differ from the current ones"))
            if style in ("caching", "inplace") and case["ens"] != "hamiltonian":
                limit = 0 if o == "N" else 1
                if ch["devals"] > limit:
                    out.append((f"energy:extra-evaluation:{ts}:{what}", f"trial {k}: {ch['devals']} evaluations (trial + logger read)"))
        return out

    def known_scope(self, case):
        return c03.defect_scope(case)

    def classify(self, case, obs):
        oc = obs.get("outcomes", [])
        for k in range(len(oc) - 1):
            if oc[k] == "F":
                return f"{case['ens']}:{case['style']}"
        return None


class ConstraintEnergyHistories(common.Suite):
    """a constraint that contributes to the potential energy (ASE Hookean): the reported energy and the reference energy
    must both be the FULL potential energy of the current atoms (calculator + constraint), as a from-scratch evaluation
    of a copy gives it. No model (non-integer energies); oracle only."""

    name = "constraint-energy-histories"

    def cases(self, rng, tier):
        n = 100 if tier == "quick" else 2000
        for i in range(n):
            case = machine.gen_case(rng, "canonical", tier)
            case["fixed"] = None
            case["hookean"] = [0, 1, rng.choice([0.5, 2.0, 5.0]), rng.choice([0.5, 1.0, 2.0])]
            for tr in case["trials"]:
                tr["verdict"] = rng.random() < 0.6
            yield case

    def real(self, case):
        from ase.constraints import Hookean

        def add_constraint(sim):
            a1, a2, k, rt = case["hookean"]
            sim.atoms.set_constraint(Hookean(a1=a1, a2=a2, k=k, rt=rt))

        sim = machine.Sim(case, calc_factory("caching"), pre_validate=add_constraint)
        out = {"outcomes": [], "checks": []}
        for k, tr in enumerate(case["trials"]):
            try:
                o = sim.run_trial(tr)
                reported = sim.atoms.get_potential_energy()
            except Exception as ex:  # noqa: BLE001
                out["exception"] = type(ex).__name__
                out["message"] = str(ex)[:300]
                out["exception_at"] = k
                break
            c = sim.mc.context
            out["outcomes"].append(o)
            out["checks"].append({"reported": float(reported), "reference": float(c.last_potential_energy),
                                  "fresh": float(fresh_energy(sim.atoms))})
        return out

    def oracle(self, case, obs):
        out = []
        if "exception" in obs:
            out.append((f"exception:{c03.trial_sig(case, obs['exception_at'])}:{obs['exception']}", obs["message"]))
        for k, ch in enumerate(obs["checks"]):
            what = {"T": "accepted", "F": "rejected", "N": "failed"}[obs["outcomes"][k]]
            if not common.close(ch["reported"], ch["fresh"], 1e-12, 1e-12):
                out.append((f"energy:reported-stale:constraint-energy:{what}", f"trial {k}: reports {ch['reported']}, from scratch {ch['fresh']}"))
            if not common.close(ch["reference"], ch["fresh"], 1e-12, 1e-12):
                out.append((f"energy:reference-stale:constraint-energy:{what}", f"trial {k}: reference {ch['reference']}, from scratch {ch['fresh']}"))
        return out[:4]

    def classify(self, case, obs):
        return "".join(sorted(set(obs.get("outcomes", [])))) or None


class CollectiveEnergyHistories(ConstraintEnergyHistories):
    """a COLLECTIVE constraint (ASE FixCom: moving one atom shifts all the others) with vetoed attempts: after a failed
    trial the remembered positions must still be the current ones, the reference energy that of the current atoms, and
    reading the energy must cost nothing. No model (positions are no longer integer-valued); oracle only."""

    name = "collective-constraint-energy-histories"

    def cases(self, rng, tier):
        yield from c03.CollectiveConstraintHistories().cases(rng, tier)

    def real(self, case):
        sim = machine.Sim(case, calc_factory("caching"))
        out = {"outcomes": [], "checks": []}
        for k, tr in enumerate(case["trials"]):
            ev = sim.calc.nevals
            try:
                o = sim.run_trial(tr)
                reported = sim.atoms.get_potential_energy()
            except Exception as ex:  # noqa: BLE001
                out["exception"] = type(ex).__name__
                out["message"] = str(ex)[:300]
                out["exception_at"] = k
                break
            c = sim.mc.context
            out["outcomes"].append(o)
            out["checks"].append({"reported": float(reported), "reference": float(c.last_potential_energy),
                                  "fresh": float(fresh_energy(sim.atoms)), "devals": sim.calc.nevals - ev,
                                  "last_positions_ok": bool(np.array_equal(c.last_positions, sim.atoms.positions))})
        return out

    def oracle(self, case, obs):
        out = super().oracle(case, obs)
        for k, ch in enumerate(obs["checks"]):
            o = obs["outcomes"][k]
            what = {"T": "accepted", "F": "rejected", "N": "failed"}[o]
            if not ch["last_positions_ok"]:
                out.append((f"energy:remembered-geometry:collective-constraint:{what}",
                            f"trial {k}: remembered positions differ from the current ones"))
            if ch["devals"] > (0 if o == "N" else 1):
                out.append((f"energy:extra-evaluation:collective-constraint:{what}",
                            f"trial {k}: {ch['devals']} evaluations (trial + logger read)"))
        return out[:4]


def suites(tier):
    return [EnergyHistories(), ConstraintEnergyHistories(), CollectiveEnergyHistories()]
